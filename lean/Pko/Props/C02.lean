/-
Property C02 — Handover only moves objects forward between revisions.

Theorems about the adoption step of `Pko.Model.Phase` (both owner strategies, every store, every
previous list, every collisionProtection, forced adoption on/off).  Histories — chains of
revisions reconciling in any order, with pauses, archival and deletion in between — are sequences
of such steps on arbitrary stores, so the per-step theorems cover them; the sys correspondence
stream replays such histories through the real controllers.
-/
import Pko.Model.Phase
import Pko.Props.C01

namespace Pko.Props.C02
open Pko.Kube Pko.Model.Phase

/-- **never_adopts_newer**: the adoption checker never says "adopt" for an object whose recorded
revision is higher than the owner's — whatever the collision protection, also under forced adoption. -/
theorem never_adopts_newer (st : Strategy) (ow : Owner) (force : Bool) (o : Obj) (prev : List Prev) (cp : CP)
    (h : check st ow force o prev cp = .adopt) : revNum o.rev ≤ ow.rev ∧ o.rev ≠ .garbage := by
  unfold check at h
  split at h
  · cases h
  · split at h
    · cases h
    · rename_i hg
      split at h
      · cases h
      · rename_i hgt
        exact ⟨by omega, hg⟩

/-- number of references flagged controller -/
def nCtrl (l : List ORef) : Nat := (l.filter (·.ctrl)).length

theorem nCtrl_release (l : List ORef) : nCtrl (l.map fun r => { r with ctrl := false }) = 0 := by
  simp [nCtrl, List.filter_map, Function.comp]

theorem nCtrl_upsert (p : ORef → Bool) (r : ORef) (hr : r.ctrl = true) :
    ∀ (l : List ORef), nCtrl l = 0 → nCtrl (upsert p r l) = 1 := by
  intro l
  induction l with
  | nil => intro _; simp [upsert, nCtrl, hr]
  | cons x xs ih =>
    intro h
    have hx : x.ctrl = false := by
      cases hxc : x.ctrl with
      | false => rfl
      | true => simp [nCtrl, List.filter_cons, hxc] at h
    have hxs : nCtrl xs = 0 := by simpa [nCtrl, List.filter_cons, hx] using h
    simp only [upsert]
    split
    · simpa [nCtrl, List.filter_cons, hr] using hxs
    · simpa [nCtrl, List.filter_cons, hx] using ih hxs

/-- **adopt_single_controller (the adopting write's owner list)**: after `ReleaseController` +
`SetControllerReference`, the reference list PKO is about to write has EXACTLY one controller —
the adopting owner; every former owner is still listed (native strategy), demoted to a plain
owner. -/
theorem adopt_single_controller (st : Strategy) (ow : Owner) (ns : String) (cur upd : Obj)
    (h : setControllerReference st ow ns (releaseController st cur) = some upd) :
    nCtrl (refs st upd) = 1 ∧ isController st (ow.ref true) upd = true ∧
    (∀ r ∈ refs st cur, sameObjNoUID r (ow.ref true) = false →
        ({ r with ctrl := false } : ORef) ∈ refs st upd) := by
  have hic := Pko.Props.C01.setControllerReference_isController _ _ _ _ _ h
  have hup_mem : ∀ (p : ORef → Bool) (r : ORef) (l : List ORef) (x : ORef), x ∈ l → p x = false → x ∈ upsert p r l := by
    intro p r l
    induction l with
    | nil => intro x hx; simp at hx
    | cons y ys ih =>
      intro x hx hpx
      simp only [upsert]
      rcases List.mem_cons.1 hx with h1 | h1
      · subst h1; simp [hpx]
      · split
        · exact List.mem_cons_of_mem _ h1
        · exact List.mem_cons_of_mem _ (ih x h1 hpx)
  cases st with
  | native =>
    simp only [setControllerReference, releaseController, refs, setRefs] at h
    split at h
    · cases h
    · -- after the release nobody is controller, so the "already owned" branch is impossible
      have hnone : (cur.owners.map fun r => { r with ctrl := false }).find? (·.ctrl) = none := by
        rw [List.find?_eq_none]; intro x hx; obtain ⟨y, _, hy⟩ := List.mem_map.1 hx; subst hy; simp
      rw [hnone] at h
      cases h
      refine ⟨?_, hic, ?_⟩
      · simpa [refs] using nCtrl_upsert _ (ow.ref true) rfl _ (nCtrl_release cur.owners)
      · intro r hr hns
        simp only [refs]
        apply hup_mem
        · exact List.mem_map.2 ⟨r, hr, rfl⟩
        · simpa [sameObjNoUID] using hns
  | annotation =>
    simp only [setControllerReference, releaseController, refs, setRefs] at h
    have hfalse : ((cur.annOwners.map fun r => ({ r with ctrl := false } : ORef)).any
        fun x => !sameObj (ow.ref true) x && x.ctrl) = false := by
      rw [List.any_eq_false]; intro x hx; obtain ⟨y, _, hy⟩ := List.mem_map.1 hx; subst hy; simp
    simp only [hfalse, Bool.false_eq_true, ↓reduceIte] at h
    · cases h
      refine ⟨?_, hic, ?_⟩
      · simpa [refs] using nCtrl_upsert _ (ow.ref true) rfl _ (nCtrl_release cur.annOwners)
      · intro r hr hns
        simp only [refs]
        apply hup_mem
        · exact List.mem_map.2 ⟨r, hr, rfl⟩
        · -- sameObj needs the uid too, so it is implied false by sameObjNoUID = false
          cases hgoal : sameObj (ow.ref true) ({ r with ctrl := false } : ORef) with
          | false => rfl
          | true =>
            simp only [sameObj, Owner.ref, Bool.and_eq_true, beq_iff_eq] at hgoal
            obtain ⟨⟨⟨h1, h2⟩, h3⟩, _⟩ := hgoal
            simp [sameObjNoUID, Owner.ref, ← h1, ← h2, ← h3] at hns

/-- positional replacement: with distinct uids, looking every current entry up by uid in a list
that starts with the same uids in the same order returns exactly that prefix. -/
theorem map_find_by_uid (post : List ORef) :
    ∀ (cur app : List ORef), app.length = cur.length → app.map (·.uid) = cur.map (·.uid) →
      (cur.map (·.uid)).Nodup →
      cur.map (fun r => ((app ++ post).find? (fun y => y.uid = r.uid)).getD r) = app := by
  intro cur
  induction cur with
  | nil => intro app hlen _ _; cases app <;> simp_all
  | cons c cs ih =>
    intro app hlen huid hnodup
    cases app with
    | nil => simp at hlen
    | cons a as =>
      simp only [List.map_cons, List.cons.injEq] at huid
      simp only [List.map_cons, List.nodup_cons] at hnodup
      have hfind : ((a :: as) ++ post).find? (fun y => y.uid = c.uid) = some a := by
        simp [List.find?_cons, huid.1]
      have htail : ∀ r ∈ cs,
          (((a :: as) ++ post).find? (fun y => y.uid = r.uid)).getD r =
          ((as ++ post).find? (fun y => y.uid = r.uid)).getD r := by
        intro r hr
        have hne : a.uid ≠ r.uid := by
          rw [huid.1]; intro h; exact hnodup.1 (h ▸ List.mem_map.2 ⟨r, hr, rfl⟩)
        simp [List.find?_cons, hne]
      rw [List.map_cons, hfind, List.map_congr_left htail, ih as (by simpa using hlen) huid.2 hnodup.2]; rfl

/-- **the API stores what PKO applied** (ownerReferences are merged by uid): if the applied list
is the current list with some entries changed in place (same uids, same order) plus possibly new
uids at the end, and the current uids are distinct, the stored list IS the applied list. -/
theorem mergeOwners_eq_applied (cur app extra : List ORef)
    (hlen : app.length = cur.length) (huid : app.map (·.uid) = cur.map (·.uid))
    (hnodup : (cur.map (·.uid)).Nodup)
    (hfresh : ∀ e ∈ extra, ∀ c ∈ cur, c.uid ≠ e.uid) :
    mergeOwners cur (app ++ extra) = app ++ extra := by
  unfold mergeOwners
  have hfilter : (app ++ extra).filter (fun a => !(cur.any fun r => r.uid = a.uid)) = extra := by
    rw [List.filter_append]
    have h1 : app.filter (fun a => !(cur.any fun r => r.uid = a.uid)) = [] := by
      rw [List.filter_eq_nil_iff]
      intro a ha
      have : a.uid ∈ cur.map (·.uid) := by rw [← huid]; exact List.mem_map.2 ⟨a, ha, rfl⟩
      obtain ⟨c, hc, hcu⟩ := List.mem_map.1 this
      simp only [Bool.not_eq_true', Bool.not_eq_false, List.any_eq_true, decide_eq_true_eq]
      exact ⟨c, hc, hcu⟩
    have h2 : extra.filter (fun a => !(cur.any fun r => r.uid = a.uid)) = extra := by
      rw [List.filter_eq_self]
      intro e he
      simp only [Bool.not_eq_true', List.any_eq_false, decide_eq_true_eq]
      intro c hc; exact hfresh e he c hc
    rw [h1, h2]; rfl
  simp only
  rw [hfilter, map_find_by_uid extra cur app hlen huid hnodup]

/-- **no write lowers the recorded revision**: whenever `reconcileObject` applies to an existing
object, the revision it records is the owner's; it is not lower than what was recorded before,
provided an owner never controls an object that records a HIGHER revision than its own (the
invariant PKO itself maintains: it records its own revision on everything it controls). -/
theorem write_never_lowers_revision (cfg : Cfg) (ow : Owner) (prev : List Prev) (p : PObj) (w : World)
    (cur : Obj) (hseen : seen w (keyOf cfg ow p) = some cur)
    (hinv : isController cfg.st (ow.ref true) cur = true → revNum cur.rev ≤ ow.rev) :
    (reconcileObject cfg ow prev p w).1.events = w.events ∨
    (revNum cur.rev ≤ ow.rev ∧ (appliedFor cfg ow p []).rev = ow.rev) := by
  -- (nothing is written either when the cache read is refused: `CacheNotStartedError`)
  by_cases hst : w.started p.kind = true
  case neg =>
    left
    simp only [reconcileObject, hst, Bool.false_eq_true, ↓reduceIte]
  simp only [reconcileObject, hst, ↓reduceIte, hseen, reconcileObjectWith]
  by_cases hc : isController cfg.st (ow.ref true) cur = true
  · right; exact ⟨hinv hc, rfl⟩
  · have hc' : isController cfg.st (ow.ref true) cur = false := by simpa using hc
    cases hch : check cfg.st ow cfg.force cur prev p.cp with
    | errRevision => left; rfl
    | errNotOwned => left; rfl
    | errRevCollision => left; rfl
    | adopt => right; exact ⟨(never_adopts_newer _ _ _ _ _ _ hch).1, rfl⟩
    | skip =>
      left
      simp [hc']

theorem commit_rev (s : Store) (k : Key) (prev next : Obj) :
    (commit s k prev next).2 = prev ∨ (commit s k prev next).2.rev = next.rev := by
  unfold commit
  dsimp only
  split
  · right; rfl
  · split
    · left; rfl
    · right; split <;> rfl

/-- every apply that changes the stored object records exactly the applied (= the owner's)
revision, so a chain of revisions can only raise it. -/
theorem apply_records_owner_revision (s : Store) (k : Key) (a : Applied) :
    (s.apply k a).2.1.rev = .num a.rev ∨ ∃ cur, s.get k = some cur ∧ (s.apply k a).2.1 = cur := by
  simp only [Store.apply]
  cases hg : s.get k with
  | none => left; rfl
  | some cur =>
    simp only
    rcases commit_rev s k cur { cur with
        owners := mergeOwners cur.owners a.owners, annOwners := a.annOwners.getD cur.annOwners, rev := .num a.rev,
        cacheLabel := true, pkgLabel := if a.pkgLabel = "" then cur.pkgLabel else a.pkgLabel, payload := a.payload } with h | h
    · right; exact ⟨cur, rfl, h⟩
    · left; exact h

/-- Non-vacuity: rev 2 adopts an object of rev 1 (one controller afterwards, rev 1 demoted, revision
2 recorded); rev 1 reconciling afterwards leaves it alone. -/
example :
    let o1 : Owner := ⟨pkoGroup, "ObjectSet", "ns1", "os1", "uid-1", 1, false, ""⟩
    let o2 : Owner := ⟨pkoGroup, "ObjectSet", "ns1", "os2", "uid-2", 2, false, ""⟩
    let cfg : Cfg := { st := .native, flavour := ⟨true, true, true⟩, scope := fun _ => .namespaced, force := false }
    let a : PObj := ⟨"NsThing", "", "a", .prevent, "x", false, .accept⟩
    let obj : Obj := { (default : Obj) with uid := 3, rv := 3, owners := [o1.ref true], rev := .num 1, cacheLabel := true, payload := "x" }
    let st : Store := { objs := fun k => if k.name = "a" then some obj else none, nextUID := 4, nextRV := 4 }
    let w : World := { store := st, writes := 0, env := [], events := [] }
    let w2 := (reconcilePhaseObject cfg o2 [⟨"ObjectSet", "os1", "uid-1", []⟩] a w).1
    let after := (w2.store.get ⟨"NsThing", "ns1", "a"⟩).getD default
    after.owners = [o1.ref false, o2.ref true] ∧ after.rev = .num 2 ∧
    (reconcilePhaseObject cfg o1 [] a w2).1.events = w2.events := by
  exact ⟨rfl, rfl, rfl⟩

end Pko.Props.C02
