/-
Property C12, delivery part — "every informer [the dynamic cache] starts … delivers events to all
registered controller handlers", for as long as a live owner watches the kind, WHATEVER happens to the
contexts of the `Watch` calls.

Theorems are about `Pko.Model.InformerLive` (request contexts with a lifetime on top of the composed
Cache/InformerMap model; tied to the Go code by the `live` stream of harness/C12 and by the
structural fact `Pko.Gen.InformerCtx` regenerated from informer_map.go on every run) and hold for
EVERY sequence of Watch(ctx)/Free/Get/cancel(ctx)/create-object operations.
-/
import Pko.Model.InformerLive
import Pko.Model.LiveSpec
import Pko.Lemmas.C12Live
import Pko.Props.C12
import Pko.Gen.InformerCtx

namespace Pko.Props.C12Live
open Pko.Model Pko.Model.InformerLive
open Pko.Model.Cache (Kind Owner)
open Pko.Lemmas.C12Live

/-! ## The context the informer's LIST/WATCH runs under (structural fact from informer_map.go) -/

/-- What the model relies on: `createListWatch` is called exactly once, from `addInformerToMap`, with
`context.Background()`; `addInformerToMap` ignores its own context parameter (`_`); the `ListFunc` /
`WatchFunc` closures pass `createListWatch`'s context parameter, which is never rebound, to
`client.List` / `client.Watch`. -/
def expectedCreateListWatchCalls : List (String × String) := [("addInformerToMap", "context.Background()")]
def expectedClosureCalls : List (String × String × String) :=
  [("ListFunc", "List", "ctx"), ("WatchFunc", "Watch", "ctx")]

/-- **listwatch_ctx_fact**: the fact regenerated from informer_map.go equals the expectation.  Breaks
when the informer's requests are bound to any other context (e.g. the caller's). -/
theorem listwatch_ctx_fact :
    Pko.Gen.InformerCtx.createListWatchCalls = expectedCreateListWatchCalls ∧
    Pko.Gen.InformerCtx.addInformerCtxParam = "_" ∧
    Pko.Gen.InformerCtx.createListWatchCtxParam = "ctx" ∧
    Pko.Gen.InformerCtx.closureCalls = expectedClosureCalls ∧
    Pko.Gen.InformerCtx.ctxParamRebound = false := by decide

/-- The closures of `createListWatch` use its (never rebound) context parameter. -/
def closuresUseParam : Bool :=
  Pko.Gen.InformerCtx.closureCalls ==
    [("ListFunc", "List", Pko.Gen.InformerCtx.createListWatchCtxParam),
     ("WatchFunc", "Watch", Pko.Gen.InformerCtx.createListWatchCtxParam)] &&
  !Pko.Gen.InformerCtx.ctxParamRebound && Pko.Gen.InformerCtx.createListWatchCtxParam != "_"

/-- The context policy denoted by the extracted fact (`none` = not understood). -/
def extractedPolicy : Option Policy :=
  match Pko.Gen.InformerCtx.createListWatchCalls with
  | [("addInformerToMap", arg)] => policyOfFact arg Pko.Gen.InformerCtx.addInformerCtxParam closuresUseParam
  | _ => none

/-- **code_policy_is_background**: the policy read off the code is "always the background
context" — the policy all theorems below are about. -/
theorem code_policy_is_background : extractedPolicy = some codePolicy := by
  simp [extractedPolicy, Pko.Gen.InformerCtx.createListWatchCalls, policyOfFact, closuresUseParam,
    Pko.Gen.InformerCtx.closureCalls, Pko.Gen.InformerCtx.createListWatchCtxParam,
    Pko.Gen.InformerCtx.ctxParamRebound]

/-! ## Liveness and delivery, for every operation sequence including cancellations -/

/-- The state reached by an operation sequence from the empty cache, under the code's policy. -/
abbrev reachL (ops : List Op) : State := run codePolicy init ops

/-- **live_refines_composed**: whatever the policy, the cache part of the liveness model IS the
composed Cache/InformerMap system run on the projected call sequence; so every theorem of
`Pko.Props.C12` about `reach` (informer ⇔ owned, no orphans, refinement to the who-watches-what
specification, …) holds for it, for all interleavings of cancellations and object creations. -/
theorem live_refines_composed (p : Policy) (ops : List Op) :
    (run p init ops).base = Pko.Props.C12.reach (project (fun _ => false) ops) :=
  run_base p ops init

/-- **informer_in_map_is_live**: in every reachable state, for every operation sequence including
cancellations of the contexts of `Watch` calls: an informer that is in the informer map has been
started, has not been stopped, and the context its LIST/WATCH requests run under has not ended. -/
theorem informer_in_map_is_live (ops : List Op) (k : Kind) (id : Nat)
    (h : (reachL ops).base.im.map k = some id) :
    InformerMap.Running (reachL ops).base id k ∧ ctxAlive (reachL ops) ((reachL ops).lw id) = true ∧
    live (reachL ops) id = true := by
  have hi := reachable_linv ops
  have hrun := (hi.base.run id k).2 h
  exact ⟨hrun, by simp [hi.bg id, ctxAlive], live_of_running hi hrun⟩

/-- The same, stated for the policy extracted from the code. -/
theorem informer_in_map_is_live_extracted (p : Policy) (hp : extractedPolicy = some p)
    (ops : List Op) (k : Kind) (id : Nat) (h : (run p init ops).base.im.map k = some id) :
    live (run p init ops) id = true := by
  rw [code_policy_is_background] at hp; cases hp
  exact (informer_in_map_is_live ops k id h).2.2

/-- **referenced_kind_has_live_informer**: every kind with at least one owner has an informer in
the map that is live, carries the controller handlers, and whose store holds every object of the
kind that exists in the API server. -/
theorem referenced_kind_has_live_informer (ops : List Op) (k : Kind) (o : Owner)
    (ho : o ∈ owners (reachL ops) k) :
    ∃ id, (reachL ops).base.im.map k = some id ∧ live (reachL ops) id = true ∧
      (reachL ops).base.handlers id = true ∧ (reachL ops).store id = (reachL ops).objs k := by
  have hi := reachable_linv ops
  cases hr : (reachL ops).base.refs k with
  | none => simp [owners, InformerMap.owners, hr] at ho
  | some os =>
    obtain ⟨_, id, hid, hh⟩ := hi.base.ref k os hr
    exact ⟨id, hid, (informer_in_map_is_live ops k id hid).2.2, hh, hi.store k id hid⟩

/-- **created_object_is_delivered**: an object created while at least one owner watches its kind
reaches every controller handler (one more create event) and the informer's store, and a `Get` of
it succeeds afterwards — in every reachable state, i.e. no matter which `Watch` contexts ended. -/
theorem created_object_is_delivered (ops : List Op) (k : Kind) (o : Owner)
    (ho : o ∈ owners (reachL ops) k) :
    let s := reachL ops
    let s' := create s k
    s'.events k = s.events k + 1 ∧ listed s' k = some (s.objs k + 1) ∧
    (InformerLive.get codePolicy s' k).2 = .ok := by
  intro s s'
  have hs' : s' = reachL (ops ++ [.create k]) := by simp [s', s, reachL, run, step]
  have hsim := step_sim s (.create k) (reachable_linv ops)
  have hne : (owners s k).isEmpty = false := by
    cases h : owners s k with
    | nil => rw [h] at ho; cases ho
    | cons a t => rfl
  have hev : s'.events k = s.events k + 1 := by
    have := congrArg (fun x => x.1.ev k) hsim
    simp [LiveSpec.step, absL, step, hne] at this
    exact this.symm
  have hobjs : s'.objs k = s.objs k + 1 := by
    have := congrArg (fun x => x.1.objs k) hsim
    simp [LiveSpec.step, absL, step] at this
    exact this.symm
  have how : owners s' k = owners s k := by
    have := congrArg (fun x => x.1.w k) hsim
    simp [LiveSpec.step, absL, step] at this
    exact this.symm
  have ho' : o ∈ owners (reachL (ops ++ [.create k])) k := by rw [← hs', how]; exact ho
  obtain ⟨id, hid, _, _, hst⟩ := referenced_kind_has_live_informer (ops ++ [.create k]) k o ho'
  rw [← hs'] at hid hst
  have hr : ∃ os, s'.base.refs k = some os := by
    cases hr : s'.base.refs k with
    | none => rw [← hs'] at ho'; simp [owners, InformerMap.owners, hr] at ho'
    | some os => exact ⟨os, rfl⟩
  obtain ⟨os, hr⟩ := hr
  refine ⟨hev, by simp [listed, hr, hid, hst, hobjs], ?_⟩
  have hsim2 := step_sim s' (.get k) (by rw [hs']; exact reachable_linv _)
  have hne' : (owners s' k).isEmpty = false := by rw [how]; exact hne
  have := congrArg (fun x => x.2) hsim2
  simp [LiveSpec.step, absL, step, hne', hobjs] at this
  exact this.symm

/-- **cancel_changes_nothing_observable**: the end of a `Watch` call's context changes nothing but
the set of ended contexts — no owner set, informer, stream, store or event count. -/
theorem cancel_changes_nothing_observable (s : State) (c : Ctx) :
    (cancel s c).base = s.base ∧ (cancel s c).lw = s.lw ∧ (cancel s c).store = s.store ∧
    (cancel s c).events = s.events ∧ (cancel s c).objs = s.objs := ⟨rfl, rfl, rfl, rfl, rfl⟩

/-- **live_refines_spec**: for every operation sequence the liveness model behaves like the
specification `Pko.Model.LiveSpec` written from the property's sentence (who watches what, how many
events each handler must have received). -/
theorem live_refines_spec (ops : List Op) : absL (reachL ops) = LiveSpec.run LiveSpec.init ops := by
  have := run_sim ops init linv_init
  rwa [absL_init] at this

/-- … and every call returns the result the specification prescribes. -/
theorem live_same_results (ops : List Op) (op : Op) :
    (step codePolicy (reachL ops) op).2 = (LiveSpec.step (LiveSpec.run LiveSpec.init ops) op).2 := by
  have := step_sim (reachL ops) op (reachable_linv ops)
  rw [live_refines_spec] at this
  rw [this]

/-- Executable form used by the `live` stream: the number of live informers of a kind (= open WATCH
streams) is 1 if the kind has an owner and 0 otherwise. -/
theorem live_count (ops : List Op) (k : Kind) :
    liveCount (reachL ops) k = if (owners (reachL ops) k).isEmpty then 0 else 1 := by
  have hi := reachable_linv ops
  have hall : (InformerMap.runningIds (reachL ops).base k).filter (live (reachL ops)) =
      InformerMap.runningIds (reachL ops).base k := by
    rw [List.filter_eq_self]
    intro id hid
    simp only [InformerMap.runningIds, List.mem_filter] at hid
    have hr : InformerMap.Running (reachL ops).base id k := by
      have := hid.2
      simp only [InformerMap.isRunning] at this
      cases hx : (reachL ops).base.im.infs id with
      | none => simp [hx] at this
      | some x => simp [hx] at this; exact ⟨x, hx, this.1, this.2⟩
    exact live_of_running hi hr
  have hb' : (reachL ops).base = Pko.Props.C12.reach (project (fun _ => false) ops) :=
    live_refines_composed codePolicy ops
  have hc := Pko.Props.C12.running_count (project (fun _ => false) ops) k
  rw [← hb'] at hc
  unfold liveCount
  rw [hall]
  exact hc

/-- **live_model_satisfies_monitor**: what the `live` monitor checks, proved of the model: for
every operation sequence and every kind, the observation (owners, map entry, open WATCH streams,
create events per handler, objects returned by List) is the one the specification prescribes. -/
theorem live_model_satisfies_monitor (ops : List Op) (k : Kind) :
    ({ owners := owners (reachL ops) k
       entry := ((reachL ops).base.im.map k).isSome
       streams := liveCount (reachL ops) k
       events := (reachL ops).events k
       listed := listed (reachL ops) k } : LiveSpec.Obs) =
    LiveSpec.obs (LiveSpec.run LiveSpec.init ops) k := by
  have hspec := live_refines_spec ops
  have hi := reachable_linv ops
  have how : owners (reachL ops) k = (LiveSpec.run LiveSpec.init ops).w k := by
    rw [← hspec]; rfl
  have hev : (reachL ops).events k = (LiveSpec.run LiveSpec.init ops).ev k := by
    rw [← hspec]; rfl
  have hob : (reachL ops).objs k = (LiveSpec.run LiveSpec.init ops).objs k := by
    rw [← hspec]; rfl
  simp only [LiveSpec.obs, ← how, ← hev, ← hob, live_count]
  cases hr : (reachL ops).base.refs k with
  | none =>
    have hm := hi.base.unref k hr
    simp [owners, InformerMap.owners, hr, hm, listed]
  | some os =>
    obtain ⟨hne, id, hid, _⟩ := hi.base.ref k os hr
    simp [owners, InformerMap.owners, hr, hid, listed, hne, hi.store k id hid]

/-! ## The property depends on the policy: binding the informer to the caller's context breaks it -/

/-- **caller_context_policy_counterexample**: had `addInformerToMap` passed the caller's context to
`createListWatch`, the property would fail: owner 0 watches kind 0 under context 0, context 0 ends,
owner 1 watches kind 0 under the live context 1, an object is created — the informer is still in the
map and both owners are registered, but it is not live, no handler received the event and the
object cannot be read. -/
theorem caller_context_policy_counterexample :
    let s := run callerPolicy init [.watch 0 0 0, .cancel 0, .watch 1 0 1, .create 0]
    s.base.im.map 0 = some 0 ∧ owners s 0 = [1, 0] ∧ live s 0 = false ∧
    s.objs 0 = 1 ∧ s.events 0 = 0 ∧ (InformerLive.get callerPolicy s 0).2 = .notFound := by
  decide

/-- Non-vacuity: the same history under the code's policy delivers, and the informer survives the
end of the first `Watch` context; freeing both owners stops it. -/
example :
    let s := reachL [.watch 0 0 0, .create 0, .cancel 0, .watch 1 0 1, .create 0]
    s.base.im.map 0 = some 0 ∧ owners s 0 = [1, 0] ∧ live s 0 = true ∧ liveCount s 0 = 1 ∧
    s.objs 0 = 2 ∧ s.events 0 = 2 ∧ listed s 0 = some 2 ∧ (InformerLive.get codePolicy s 0).2 = .ok ∧
    liveCount (run codePolicy s [.free 0, .free 1]) 0 = 0 ∧
    (step codePolicy s (.watch 2 1 0)).2 = .err := by
  decide

end Pko.Props.C12Live
