import Pko.Lemmas.C10GhostPass
import Pko.Lemmas.C10TearCount
import Pko.Lemmas.C10HandoverSet
/-!
# C10 — three lifts of the convergence argument to the controller level

`Pko.Props.C10` proves convergence for one phase, `Pko.Props.C10Set` for the rollout pass of one
ObjectSet.  This file closes three gaps between those theorems and the way they are used (pure
Lean, about the models `Pko.Model.{Phase,ObjectSet,Remote,Converge}`; no size bounds anywhere):

**A. Ghost non-interference.**  A crash point is modelled by running the pass with the ghost field
`crashAt := budget` (`Pko.Model.Converge.arm`); `World.tick` / `Sys.note` maintain `gw`, `snap`,
`ticks`, `trail` so that `crashState` can assemble the cut-off state.  The C10 argument needs
"arming never changes what the pass does".  `GhostEq` / `GhostEqS` relate worlds / systems equal in
every non-ghost field (= equal after erasing the ghost fields, `ghostEqS_iff_erase`); every step
of the model maps related states to related states and returns the same result
(`Pko.Lemmas.C10Ghost*`: `beforeWrite`, `apply`, `reconcilePhaseObject`, `reconcilePhase`,
`teardownPhaseObject`, `teardownPhase`, the delegated-phase steps, `lockedWrite`, `setFinalizer`,
`updateStatus`, `reconcilePhases`, `activePhasesCore`, `revisionStep`, `deletionOrArchival`).
Headlines: `reconcile_ghost_independent`, `armed_pass_same`, `schedule_ghost_independent`
(any schedule of ObjectSet and ObjectSetPhase controller passes).

**B. Teardown at the controller level.**  `teardown_pass_releases` / `teardown_converges` of
`Pko.Props.C10` lifted to `reconcile` for an ObjectSet with local phases that is deleted or
archived: `teardown_pass_set` (one pass: never `.err`; releases every phase it gets through, in
reversed spec order; stops at the FIRST phase that still had something to delete — the set of
not-yet-released phases loses exactly that phase; `teardown_pass_progress`: their number drops by
exactly one) and `teardown_converges_set` (at most
`phases.length + 1` passes finish the teardown: finalizer removed, deleted ObjectSet gone / archived
ObjectSet reports Archived=True with `controllerOf = []`; afterwards every pass is the identity).
`archived_crash_point_pass`: the crash point between finalizer removal and the Archived status.

**C. Handover at the controller level.**  `handover_pass_repairs` lifted to `reconcile` of a NEW
revision whose `previous` names existing ObjectSets still controlling its objects (native
strategy): `handover_pass_set`, `handover_then_clean`.

Not covered (see the comments at the end): delegated phases in B and C, an ObjectSet that is
deleted AND archived, foreign finalizers, third-party operations during the passes.
-/
namespace Pko.Props.C10Lift
open Pko.Kube Pko.Model.Phase Pko.Model.ObjectSet Pko.Model.Status Pko.Model.Converge Pko.Model.Remote
open Pko.Props.C10 Pko.Props.C10Set

/-! ## A. ghost non-interference -/

/-- **The controller pass does not read the ghost state.**  From systems that agree on every
non-ghost field, `reconcile` returns the same result and leaves systems that again agree on every
non-ghost field — store, ObjectSets, phase objects, event logs, counters, schedules. -/
theorem reconcile_ghost_independent (cfg : Cfg) (rm : Remotes) (hrm : RespectsGhost rm) (n : String)
    {s s' : Sys} (h : GhostEqS s s') :
    (reconcile cfg rm n s).2 = (reconcile cfg rm n s').2 ∧
    GhostEqS (reconcile cfg rm n s).1 (reconcile cfg rm n s').1 :=
  ⟨(reconcile_ghost cfg rm hrm n h).2, (reconcile_ghost cfg rm hrm n h).1⟩

/-- the same for the ObjectSetPhase controller (no `Remotes` involved). -/
theorem reconcilePhaseCtl_ghost_independent (cfg : Cfg) (setKind ns name : String) {s s' : Sys}
    (h : GhostEqS s s') :
    (reconcilePhaseCtl cfg setKind ns name s).2 = (reconcilePhaseCtl cfg setKind ns name s').2 ∧
    GhostEqS (reconcilePhaseCtl cfg setKind ns name s).1 (reconcilePhaseCtl cfg setKind ns name s').1 :=
  ⟨(reconcilePhaseCtl_ghost cfg setKind ns name h).2, (reconcilePhaseCtl_ghost cfg setKind ns name h).1⟩

/-- **Arming a crash point never changes what a pass does**: the armed pass returns the same
result as the unarmed one and leaves the same store, ObjectSets, phase objects and logs — for the
real model of delegated phases (`Pko.Model.Remote.remotes`) and any other `Remotes` that respects
ghost equality. -/
theorem armed_pass_same (cfg : Cfg) (rm : Remotes) (hrm : RespectsGhost rm) (n : String) (s : Sys)
    (budget : Option Nat) :
    (reconcile cfg rm n (arm s budget)).2 = (reconcile cfg rm n s).2 ∧
    (reconcile cfg rm n (arm s budget)).1.w.store = (reconcile cfg rm n s).1.w.store ∧
    (reconcile cfg rm n (arm s budget)).1.sets = (reconcile cfg rm n s).1.sets ∧
    (reconcile cfg rm n (arm s budget)).1.w.phases = (reconcile cfg rm n s).1.w.phases ∧
    (reconcile cfg rm n (arm s budget)).1.w.events = (reconcile cfg rm n s).1.w.events ∧
    (reconcile cfg rm n (arm s budget)).1.w.phaseEvents = (reconcile cfg rm n s).1.w.phaseEvents ∧
    (reconcile cfg rm n (arm s budget)).1.setEvents = (reconcile cfg rm n s).1.setEvents ∧
    (reconcile cfg rm n (arm s budget)).1.freed = (reconcile cfg rm n s).1.freed := by
  obtain ⟨h1, h2⟩ := reconcile_ghost_independent cfg rm hrm n (arm_ghost s budget)
  exact ⟨h1, h2.w.store, h2.sets, h2.w.phases, h2.w.events, h2.w.phaseEvents, h2.setEvents, h2.freed⟩

/-- `armed_pass_same` for the model the drivers use. -/
theorem armed_pass_same_remotes (cfg : Cfg) (n : String) (s : Sys) (budget : Option Nat) :
    (reconcile cfg remotes n (arm s budget)).2 = (reconcile cfg remotes n s).2 ∧
    GhostEqS (reconcile cfg remotes n (arm s budget)).1 (reconcile cfg remotes n s).1 :=
  reconcile_ghost_independent cfg remotes remotes_respects n (arm_ghost s budget)

/-- one step of a schedule: a pass of the ObjectSet controller or of the ObjectSetPhase controller. -/
inductive Pass where
  | set (name : String)
  | phase (setKind ns name : String)

/-- run one scheduled pass (the crash point, if any, is armed by the caller). -/
def runPass (cfg pcfg : Cfg) (rm : Remotes) (s : Sys) : Pass → Sys × Res
  | .set n => reconcile cfg rm n s
  | .phase k ns n => reconcilePhaseCtl pcfg k ns n s

/-- run a schedule, collecting the results. -/
def runSchedule (cfg pcfg : Cfg) (rm : Remotes) : List Pass → Sys → Sys × List Res
  | [], s => (s, [])
  | p :: ps, s =>
    let (s1, r) := runPass cfg pcfg rm s p
    let (s2, rs) := runSchedule cfg pcfg rm ps s1
    (s2, r :: rs)

/-- **Whole schedules are ghost-independent**: any sequence of controller passes from ghost-equal
systems returns the same results and ends in ghost-equal systems.  (Hence re-arming, or not
re-arming, between the passes of a history cannot be observed.) -/
theorem schedule_ghost_independent (cfg pcfg : Cfg) (rm : Remotes) (hrm : RespectsGhost rm) :
    ∀ (ps : List Pass) {s s' : Sys}, GhostEqS s s' →
      (runSchedule cfg pcfg rm ps s).2 = (runSchedule cfg pcfg rm ps s').2 ∧
      GhostEqS (runSchedule cfg pcfg rm ps s).1 (runSchedule cfg pcfg rm ps s').1 := by
  intro ps
  induction ps with
  | nil => intro s s' h; exact ⟨rfl, h⟩
  | cons p ps ih =>
    intro s s' h
    have hstep : RelS (runPass cfg pcfg rm s p) (runPass cfg pcfg rm s' p) := by
      cases p with
      | set n => exact reconcile_ghost cfg rm hrm n h
      | phase k ns n => exact reconcilePhaseCtl_ghost pcfg k ns n h
    obtain ⟨t, t', r, e1, e2, h1⟩ := hstep.elim
    simp only [runSchedule, e1, e2]
    obtain ⟨i1, i2⟩ := ih h1
    exact ⟨by rw [i1], i2⟩

/-- the phase-level steps, for reference (proved in `Pko.Lemmas.C10Ghost`): same outcome, ghost-equal
worlds. -/
theorem phase_steps_ghost_independent (cfg : Cfg) (ow : Owner) (prev : List Prev) (cls : String)
    (ps : List PObj) (p : PObj) {w w' : World} (h : GhostEq w w') :
    GhostEq w.beforeWrite w'.beforeWrite ∧
    RelW (reconcilePhaseObject cfg ow prev p w) (reconcilePhaseObject cfg ow prev p w') ∧
    RelW (reconcilePhase cfg ow prev cls ps w) (reconcilePhase cfg ow prev cls ps w') ∧
    RelW (teardownPhaseObject cfg ow p w) (teardownPhaseObject cfg ow p w') ∧
    RelW (teardownPhase cfg ow ps w) (teardownPhase cfg ow ps w') :=
  ⟨beforeWrite_ghost h, reconcilePhaseObject_ghost cfg ow prev p h, reconcilePhase_ghost cfg ow prev cls ps h,
   teardownPhaseObject_ghost cfg ow p h, teardownPhase_ghost cfg ow ps h⟩

/-- the writes on the ObjectSet itself, for reference (proved in `Pko.Lemmas.C10GhostSys`). -/
theorem set_writes_ghost_independent (mem : OSet) (f : OSet → OSet) (present : Bool) {s s' : Sys}
    (h : GhostEqS s s') :
    RelS (s.lockedWrite mem f) (s'.lockedWrite mem f) ∧
    RelS (s.setFinalizer mem present) (s'.setFinalizer mem present) ∧
    RelS (s.updateStatus mem) (s'.updateStatus mem) :=
  ⟨lockedWrite_ghost mem f h, setFinalizer_ghost mem present h, updateStatus_ghost mem h⟩

/-! ## B. teardown at the controller level -/

/-- **One controller pass over an ObjectSet in teardown** (`TearSet`: deleted or archived, finalizer
present, local phases, `TearOk` for every phase with keys distinct across phases, no foreign
finalizer on anything it controls; `QuietSys`: no third-party operation scheduled), from EVERY
store — in particular from every crash point of an earlier rollout or teardown pass:

1. the pass ends `.ok`, never `.err`; no other ObjectSet and no delegated phase object is touched;
2. it gets through a prefix `done` of the phases in teardown order (= reversed spec order);
   afterwards the ObjectSet controls no object of these phases (`PhaseReleased`), and no key outside
   them is touched;
3. either every phase was released already — then the `cached` finalizer is removed and the
   teardown is `Finished` — or the pass stopped at the FIRST phase (teardown order) in which the
   ObjectSet still controlled something: every phase before it was released, it was not and now is,
   and the ObjectSet is in teardown again with the same spec.  So the set of not-yet-released
   phases strictly decreases, or the pass finishes. -/
theorem teardown_pass_set (cfg : Cfg) (rm : Remotes) (name : String) (s : Sys) (mem : OSet)
    (hq : QuietSys s) (ht : TearSet cfg s name mem) :
    (reconcile cfg rm name s).2 = .ok ∧ QuietSys (reconcile cfg rm name s).1 ∧
    (∀ n, n ≠ name → (reconcile cfg rm name s).1.sets n = s.sets n) ∧
    (reconcile cfg rm name s).1.w.phases = s.w.phases ∧
    ∃ done rest, mem.phases.reverse = done ++ rest ∧
      (∀ ph ∈ done, PhaseReleased cfg mem.owner (reconcile cfg rm name s).1.w.store ph) ∧
      (∀ k', k' ∉ phaseKeys cfg mem.owner done →
        (reconcile cfg rm name s).1.w.store.get k' = s.w.store.get k') ∧
      ((rest = [] ∧ (∀ ph ∈ done, PhaseReleased cfg mem.owner s.w.store ph) ∧
          Finished (reconcile cfg rm name s).1 name mem) ∨
       (∃ pre ph, done = pre ++ [ph] ∧ (∀ ph' ∈ pre, PhaseReleased cfg mem.owner s.w.store ph') ∧
          ¬ PhaseReleased cfg mem.owner s.w.store ph ∧
          ∃ mem', TearSet cfg (reconcile cfg rm name s).1 name mem' ∧ SameButStatus mem mem')) :=
  teardown_pass cfg rm name s mem hq ht

/-- **The progress measure**: a pass over an ObjectSet in teardown finishes the teardown (then no
phase had anything under the ObjectSet's control), or the number of phases that are not fully
released (`pending`, counted over the phases in teardown order) drops by exactly one. -/
theorem teardown_pass_progress (cfg : Cfg) (rm : Remotes) (name : String) (s : Sys) (mem : OSet)
    (hq : QuietSys s) (ht : TearSet cfg s name mem) :
    (Finished (reconcile cfg rm name s).1 name mem ∧ pending cfg mem.owner s.w.store mem.phases.reverse = 0) ∨
    pending cfg mem.owner (reconcile cfg rm name s).1.w.store mem.phases.reverse + 1 =
      pending cfg mem.owner s.w.store mem.phases.reverse :=
  teardown_pass_pending cfg rm name s mem hq ht

/-- **Teardown converges at the controller level.**  From an ObjectSet in teardown, after `k` passes
with `k ≤ (number of phases) + 1`: the teardown is `Finished` (watches freed; deleted ⇒ the
ObjectSet is gone from `s.sets`; archived ⇒ it is stored without finalizer, with Archived=True and
`controllerOf = []`); the ObjectSet controls no object of any of its phases; no pass of the
iteration — before or after `k` — returns anything but `.ok`; from pass `k` on every pass is the
identity; no other ObjectSet and no key outside the ObjectSet's phases was touched. -/
theorem teardown_converges_set (cfg : Cfg) (rm : Remotes) (name : String) (s : Sys) (mem : OSet)
    (hq : QuietSys s) (ht : TearSet cfg s name mem) :
    ∃ k, k ≤ mem.phases.length + 1 ∧ Finished (iter cfg rm name k s) name mem ∧
      (∀ ph ∈ mem.phases, PhaseReleased cfg mem.owner (iter cfg rm name k s).w.store ph) ∧
      (∀ j, (reconcile cfg rm name (iter cfg rm name j s)).2 = .ok) ∧
      (∀ j, k ≤ j → iter cfg rm name j s = iter cfg rm name k s) ∧
      (∀ m, m ≠ name → (iter cfg rm name k s).sets m = s.sets m) ∧
      (∀ k', k' ∉ phaseKeys cfg mem.owner mem.phases →
        (iter cfg rm name k s).w.store.get k' = s.w.store.get k') := by
  obtain ⟨k, hk, h⟩ := teardown_iter_aux cfg rm name mem.phases.reverse.length s mem [] mem.phases.reverse
    (Nat.le_refl _) hq ht (by simp) (by simp)
  exact ⟨k, by simpa using hk, h⟩

/-- what `Finished` means, spelled out. -/
theorem finished_spelled_out (s' : Sys) (name : String) (mem : OSet) (h : Finished s' name mem) :
    name ∈ s'.freed ∧
    (mem.deleting = true → s'.sets name = none) ∧
    (mem.deleting = false → ∃ m, s'.sets name = some m ∧ condTrue m.conds "Archived" = true ∧
      m.controllerOf = [] ∧ m.finCached = false ∧ m.phases = mem.phases ∧ m.lifecycle = mem.lifecycle) := by
  obtain ⟨h1, h2, h3⟩ := h
  refine ⟨h1, h2, fun hd => ?_⟩
  obtain ⟨cs, rv, hs, hc⟩ := h3 hd
  exact ⟨_, hs, hc, rfl, rfl, rfl, rfl⟩

/-- **the next pass after a finished teardown is the identity** (ObjectSet gone / archived
short-circuit). -/
theorem finished_pass_is_identity (cfg : Cfg) (rm : Remotes) (name : String) (s' : Sys) (mem : OSet)
    (h : Finished s' name mem) : reconcile cfg rm name s' = (s', .ok) :=
  finished_is_fixpoint cfg rm name s' mem h

/-- **The crash point inside a finished archival**: finalizer already removed, Archived=True not
yet recorded.  One pass records it without touching any managed object; the pass after it is the
identity. -/
theorem archived_crash_point_pass (cfg : Cfg) (rm : Remotes) (name : String) (s : Sys) (mem : OSet)
    (hq : QuietSys s) (hs : s.sets name = some mem) (hn : mem.name = name) (hf : mem.finCached = false)
    (hdel : mem.deleting = false) (hlc : mem.lifecycle = .archived)
    (hna : condTrue mem.conds "Archived" = false) :
    (reconcile cfg rm name s).2 = .ok ∧ QuietSys (reconcile cfg rm name s).1 ∧
    (∀ k, (reconcile cfg rm name s).1.w.store.get k = s.w.store.get k) ∧
    (∀ n, n ≠ name → (reconcile cfg rm name s).1.sets n = s.sets n) ∧
    (∃ cs rv, (reconcile cfg rm name s).1.sets name = some { mem with controllerOf := [], conds := cs, rv := rv } ∧
      condTrue cs "Archived" = true) ∧
    reconcile cfg rm name (reconcile cfg rm name s).1 = ((reconcile cfg rm name s).1, .ok) :=
  archived_after_finalizer_pass cfg rm name s mem hq hs hn hf hdel hlc hna

/-! ## C. handover at the controller level -/

/-- **One pass of a NEW revision over a handover** (native owner strategy, local phases): every
object of every phase is absent, the new ObjectSet's own, or still controlled by an EXISTING
ObjectSet named in its `previous` (`HandoverSet` — any state an interrupted handover leaves behind).
The pass ends `.ok`; the state is again a `HandoverSet` (invariant); a prefix `done` of the phases
is processed and every object of it is `Settled` for the new revision; nothing else is touched (in
particular the previous ObjectSet is not written); the pass reports Available exactly when it got
through all phases — then the ObjectSet is `ReadySet` — and otherwise stopped at a failing probe. -/
theorem handover_pass_set (cfg : Cfg) (rm : Remotes) (name : String) (s : Sys)
    (hnat : cfg.st = .native) (hq : QuietSys s) (hr : HandoverSet cfg s name) :
    (reconcile cfg rm name s).2 = .ok ∧ QuietSys (reconcile cfg rm name s).1 ∧
    HandoverSet cfg (reconcile cfg rm name s).1 name ∧
    (∀ n, n ≠ name → (reconcile cfg rm name s).1.sets n = s.sets n) ∧
    ∃ mem mem' done rest, s.sets name = some mem ∧ (reconcile cfg rm name s).1.sets name = some mem' ∧
      SameSpec mem mem' ∧ mem.phases = done ++ rest ∧
      (∀ ph ∈ done, ∀ p ∈ ph.objs, Settled cfg mem.owner p (reconcile cfg rm name s).1.w.store) ∧
      (∀ k', k' ∉ phaseKeys cfg mem.owner done →
        (reconcile cfg rm name s).1.w.store.get k' = s.w.store.get k') ∧
      ((rest = [] ∧ condTrue mem'.conds "Available" = true ∧ ReadySet cfg (reconcile cfg rm name s).1 name) ∨
       (∃ pre ph, done = pre ++ [ph] ∧ condTrue mem'.conds "Available" = false ∧
        ∃ p ∈ ph.objs, ∃ o, (reconcile cfg rm name s).1.w.store.get (keyOf cfg mem.owner p) = some o ∧
          probeOk o = false)) :=
  handover_objectset_reconcile cfg rm name s hnat hq hr

/-- **Handover, then the fixpoint**: if the adopting pass got through all phases (it reports
Available), the next pass makes the new revision clean and the one after that changes neither any
ObjectSet nor the store. -/
theorem handover_then_clean (cfg : Cfg) (rm : Remotes) (name : String) (s : Sys)
    (hnat : cfg.st = .native) (hq : QuietSys s) (hr : HandoverSet cfg s name)
    (hav : ∀ m, (reconcile cfg rm name s).1.sets name = some m → condTrue m.conds "Available" = true) :
    let s1 := (reconcile cfg rm name s).1
    let s2 := (reconcile cfg rm name s1).1
    let s3 := (reconcile cfg rm name s2).1
    ReadySet cfg s1 name ∧ CleanSet cfg s2 name ∧ s3.sets = s2.sets ∧ s3.w.store = s2.w.store := by
  intro s1 s2 s3
  obtain ⟨_, hq1, _, _, mem, mem', done, rest, _, hs', _, _, _, _, hout⟩ :=
    handover_pass_set cfg rm name s hnat hq hr
  have hready : ReadySet cfg s1 name := by
    rcases hout with ⟨_, _, h⟩ | ⟨_, _, _, hfalse, _⟩
    · exact h
    · rw [hav mem' hs'] at hfalse; exact absurd hfalse (by decide)
  obtain ⟨hc2, _, h3, h4⟩ := two_passes_reach_clean cfg rm name s1 hq1 hready
  exact ⟨hready, hc2, h3, h4⟩

/-! ## non-vacuity -/

/-- a `Remotes` record that is never reached for local phases. -/
def exRm : Remotes := ⟨fun _ _ w => (w, .error .other), fun _ _ w => (w, .err), fun _ _ w => w⟩

theorem exRm_respects : RespectsGhost exRm := const_respects _ _

/-- A: arming is not the identity — the armed pass really maintains different ghost state (a
snapshot is taken, the unarmed pass takes none), yet `armed_pass_same` applies.  The state is the
drifted one of `Pko.Props.C10Set` (one write request on a managed object at least). -/
example : (arm (exSys exDriftStore exFresh) (some 0)).w.crashAt ≠ (exSys exDriftStore exFresh).w.crashAt := by
  decide

example :
    (reconcile C10Set.exCfg exRm "os1" (arm (exSys exDriftStore exFresh) (some 0))).1.w.snap.isSome = true ∧
    (reconcile C10Set.exCfg exRm "os1" (exSys exDriftStore exFresh)).1.w.snap.isSome = false ∧
    (reconcile C10Set.exCfg exRm "os1" (exSys exDriftStore exFresh)).1.w.gw ≠ 0 := by
  decide +kernel

/-- B: an ObjectSet with two local phases that is being deleted, both objects still controlled. -/
def exDeleting : OSet := { exSet with deleting := true }

/-- B: the same ObjectSet archived instead. -/
def exArchived : OSet := { exSet with lifecycle := .archived }

theorem exTearPhasesOk : TearPhasesOk C10Set.exCfg exSet.owner exSet.phases := by
  refine ⟨?_, ?_, by decide +kernel⟩
  · intro ph hph
    simp only [exSet, List.mem_cons, List.mem_nil_iff, or_false] at hph
    rcases hph with rfl | rfl <;> rfl
  · intro ph hph p hp
    simp only [exSet, List.mem_cons, List.mem_nil_iff, or_false] at hph
    rcases hph with rfl | rfl <;>
      (simp only [List.mem_cons, List.mem_nil_iff, or_false] at hp; subst hp; decide +kernel)

theorem exNoForeign : ∀ ph ∈ exSet.phases, ∀ p ∈ ph.objs,
    NoForeignFinalizer C10Set.exCfg exSet.owner p C10Set.exStore := by
  intro ph hph p hp
  simp only [exSet, List.mem_cons, List.mem_nil_iff, or_false] at hph
  rcases hph with rfl | rfl <;>
    (simp only [List.mem_cons, List.mem_nil_iff, or_false] at hp; subst hp; intro o ho _)
  · have : C10Set.exStore.get (keyOf C10Set.exCfg exSet.owner C10Set.exP) = some (exObj 1 "x") := by decide +kernel
    rw [this] at ho; cases ho; rfl
  · have : C10Set.exStore.get (keyOf C10Set.exCfg exSet.owner C10Set.exQ) = some (exObj 2 "y") := by decide +kernel
    rw [this] at ho; cases ho; rfl

/-- the hypotheses of `teardown_pass_set` / `teardown_converges_set` are satisfiable — deleted … -/
example : QuietSys (exSys C10Set.exStore exDeleting) ∧ TearSet C10Set.exCfg (exSys C10Set.exStore exDeleting) "os1" exDeleting :=
  ⟨exQuiet _ _,
   { stored := rfl, named := rfl, fin := rfl, noOrphan := rfl, notArchived := by decide +kernel
     mode := Or.inl ⟨rfl, by decide⟩, phases := exTearPhasesOk, nofin := exNoForeign }⟩

/-- … and archived. -/
example : QuietSys (exSys C10Set.exStore exArchived) ∧ TearSet C10Set.exCfg (exSys C10Set.exStore exArchived) "os1" exArchived :=
  ⟨exQuiet _ _,
   { stored := rfl, named := rfl, fin := rfl, noOrphan := rfl, notArchived := by decide +kernel
     mode := Or.inr ⟨rfl, rfl⟩, phases := exTearPhasesOk, nofin := exNoForeign }⟩

/-- and the model really behaves like that on these states (a test of the statements, nothing
general): the first pass deletes the object of the LAST phase only, the second the other one, the
third removes the finalizer — the deleted ObjectSet is gone, the archived one reports Archived with
nothing under control — and a fourth pass changes nothing. -/
example :
    let s1 := iter C10Set.exCfg exRm "os1" 1 (exSys C10Set.exStore exDeleting)
    let s3 := iter C10Set.exCfg exRm "os1" 3 (exSys C10Set.exStore exDeleting)
    (s1.w.store.get (keyOf C10Set.exCfg exSet.owner C10Set.exQ) = none ∧
     s1.w.store.get (keyOf C10Set.exCfg exSet.owner C10Set.exP) = some (exObj 1 "x") ∧
     s1.sets "os1" = some exDeleting) ∧
    (s3.sets "os1" = none ∧ s3.freed = ["os1"] ∧
     s3.w.store.get (keyOf C10Set.exCfg exSet.owner C10Set.exP) = none ∧
     s3.w.store.get (keyOf C10Set.exCfg exSet.owner C10Set.exQ) = none) := by
  decide +kernel

example :
    let s2 := iter C10Set.exCfg exRm "os1" 2 (exSys C10Set.exStore exArchived)
    let s3 := iter C10Set.exCfg exRm "os1" 3 (exSys C10Set.exStore exArchived)
    ((s2.sets "os1").map (fun o => (o.finCached, findCond o.conds "Archived")) =
        some (true, some ⟨"Archived", "False", "ArchivalInProgress", 2, ""⟩)) ∧
    ((s3.sets "os1").map (fun o => (o.finCached, o.controllerOf, findCond o.conds "Archived", findCond o.conds "Available")) =
        some (false, [], some ⟨"Archived", "True", "Archived", 2, ""⟩, none)) ∧
    s3.w.store.get (keyOf C10Set.exCfg exSet.owner C10Set.exP) = none ∧
    s3.w.store.get (keyOf C10Set.exCfg exSet.owner C10Set.exQ) = none ∧
    (reconcile C10Set.exCfg exRm "os1" s3).2 = .ok := by
  decide +kernel

/-- C: revision 4 (`os2`) declares `os1` (revision 3) as previous; both objects are still
controlled by `os1`. -/
def exNew : OSet :=
  { exSet with name := "os2", uid := "u2", revision := 4, previous := ["os1"], conds := [], controllerOf := [] }

def exSys2 : Sys :=
  { w := { store := C10Set.exStore, writes := 0, env := [], events := [] }
    sets := fun n => if n = "os1" then some exSet else if n = "os2" then some exNew else none
    setEvents := [], freed := [], setWrites := 0, setEnv := [] }

theorem exNewOk : SetOk C10Set.exCfg exSys2 "os2" exNew where
  stored := rfl
  named := rfl
  alive := rfl
  active := rfl
  fin := rfl
  rev := by decide
  notArchived := by decide +kernel
  noDup := by decide +kernel
  phases := by
    refine ⟨?_, ?_, ?_, by decide +kernel⟩
    · intro ph hph
      simp only [exNew, exSet, List.mem_cons, List.mem_nil_iff, or_false] at hph
      rcases hph with rfl | rfl <;> rfl
    · intro ph hph
      simp only [exNew, exSet, List.mem_cons, List.mem_nil_iff, or_false] at hph
      rcases hph with rfl | rfl <;> decide +kernel
    · intro ph hph p hp
      simp only [exNew, exSet, List.mem_cons, List.mem_nil_iff, or_false] at hph
      rcases hph with rfl | rfl <;>
        (simp only [List.mem_cons, List.mem_nil_iff, or_false] at hp; subst hp; exact ⟨rfl, by decide +kernel⟩)

theorem exHeld (p : PObj) (o : Obj) (ho : o = exObj 1 "x" ∨ o = exObj 2 "y")
    (hg : C10Set.exStore.get (keyOf C10Set.exCfg exNew.owner p) = some o)
    (hns : (keyOf C10Set.exCfg exNew.owner p).ns = "ns1") : HeldByPrevious C10Set.exCfg exSys2 exNew p := by
  have hfresh : ∀ c ∈ o.owners, sameObjNoUID c (exNew.owner.ref true) = false ∧ c.uid ≠ exNew.uid := by
    intro c hc
    rcases ho with rfl | rfl <;>
      (simp only [exObj, List.mem_singleton] at hc; subst hc; exact ⟨by decide +kernel, by decide +kernel⟩)
  refine ⟨o, "os1", exSet, hg, by simp [exNew], rfl, ?_, ?_, ?_, ?_, ?_, ?_, hfresh, Or.inr hns⟩
  · rcases ho with rfl | rfl <;> decide +kernel
  · rcases ho with rfl | rfl <;> decide +kernel
  · rcases ho with rfl | rfl <;> simp [exObj]
  · rcases ho with rfl | rfl <;> decide +kernel
  · rcases ho with rfl | rfl <;> simp [UidsDistinct, exObj]
  · rcases ho with rfl | rfl <;> rfl

/-- the hypotheses of `handover_pass_set` are satisfiable by a genuine handover: neither object is
the new revision's own yet. -/
example : QuietSys exSys2 ∧ HandoverSet C10Set.exCfg exSys2 "os2" ∧ ¬ RepairableSet C10Set.exCfg exSys2 "os2" := by
  refine ⟨⟨rfl, rfl, rfl⟩, ⟨exNew, exNewOk, ?_⟩, ?_⟩
  · intro ph hph p hp
    simp only [exNew, exSet, List.mem_cons, List.mem_nil_iff, or_false] at hph
    rcases hph with rfl | rfl <;>
      (simp only [List.mem_cons, List.mem_nil_iff, or_false] at hp; subst hp; right)
    · exact exHeld _ (exObj 1 "x") (Or.inl rfl) (by decide +kernel) (by decide +kernel)
    · exact exHeld _ (exObj 2 "y") (Or.inr rfl) (by decide +kernel) (by decide +kernel)
  · rintro ⟨mem, hok, hm⟩
    have hmem : mem = exNew := by
      have := hok.stored
      simp only [exSys2] at this
      exact (Option.some.inj this).symm
    subst hmem
    rcases hm ⟨"one", "", [C10Set.exP]⟩ (by simp [exNew, exSet]) C10Set.exP (by simp) with h | ⟨o, hg, hc, _⟩
    · have : exSys2.w.store.get (keyOf C10Set.exCfg exNew.owner C10Set.exP) = some (exObj 1 "x") := by decide +kernel
      rw [this] at h; cases h
    · have : exSys2.w.store.get (keyOf C10Set.exCfg exNew.owner C10Set.exP) = some (exObj 1 "x") := by decide +kernel
      rw [this] at hg; cases hg
      revert hc; decide +kernel

/-- and the model really hands over (a test, nothing general): after one pass of `os2` both objects
carry revision 4, `os1` is demoted to a plain owner and `os2` is the controller; `os1` itself is not
written. -/
example :
    let s1 := (reconcile C10Set.exCfg exRm "os2" exSys2).1
    (s1.w.store.get (keyOf C10Set.exCfg exNew.owner C10Set.exP)).map (fun o => (o.rev, o.owners)) =
      some (.num 4, [{ exSet.owner.ref true with ctrl := false }, exNew.owner.ref true]) ∧
    (s1.w.store.get (keyOf C10Set.exCfg exNew.owner C10Set.exQ)).map (fun o => (o.rev, o.owners)) =
      some (.num 4, [{ exSet.owner.ref true with ctrl := false }, exNew.owner.ref true]) ∧
    s1.sets "os1" = some exSet ∧
    (s1.sets "os2").map (fun o => (findCond o.conds "Available").map (·.status)) = some (some "True") := by
  decide +kernel

/-
NOT proved here (candidates for `…_partial` work):

* B and C with DELEGATED phases (`cls ≠ ""`): the teardown / rollout of such a phase is the
  two-controller protocol of `Pko.Model.Remote` (delete the phase object and wait; the phase
  controller tears down and drops its finalizer) — the iteration then interleaves two controllers.
* B for an ObjectSet that is deleted AND archived at the same time: in the model the pass that
  removes the finalizer then updates the status of the ObjectSet it has just removed and ends
  `.err` (NotFound) — once; the next pass finds nothing and ends `.ok`.  `TearSet.mode` excludes it.
* B with `finOrphan` (orphan deletion: teardown is skipped, nothing is released) and with foreign
  finalizers on managed objects (`NoForeignFinalizer` is the fairness hypothesis).
* third-party operations DURING the passes (`QuietSys`): C10's quantifier has disturbances stop
  before convergence is claimed; drift between passes is covered at the phase level
  (`Pko.Props.C10.repair_after_disturbances`) because `TearSet` / `HandoverSet` / `RepairableSet`
  are invariants that drift on managed fields preserves.
-/

end Pko.Props.C10Lift
