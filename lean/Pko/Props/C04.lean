/-
Property C04 — Teardown runs in reverse phase order and holds the finalizer until done.

Theorems about `Pko.Model.ObjectSet.teardown*` and the deletion/archival branch of
`Pko.Model.ObjectSet.reconcile`, for every ObjectSet, store, third-party schedule and behaviour
of delegated phases (`remote`; the teardown of a delegated phase is characterised in C15).
"Restart at any point" is covered because the theorems hold for every store and the model keeps
no state between passes.
-/
import Pko.Lemmas.ObjectSet
import Pko.Model.Slices
import Pko.Model.RemoteNs

namespace Pko.Props.C04
open Pko.Kube Pko.Model.Phase Pko.Model.ObjectSet Pko.Model.Status

abbrev RemoteTear := PhaseSpec → World → World × TRes

/-- One object is, as far as the owner is concerned, gone: it is outside what the owner may
touch (teardown preflight: foreign namespace / cluster-scoped for a namespaced owner / API
removed), absent, not controlled by the owner, or it vanished between PKO's read and its delete. -/
def ObjGone (cfg : Cfg) (ow : Owner) (p : PObj) (w : World) : Prop :=
  preflightObj cfg ow "" false p = .violation ∨
  w.store.get (keyOf cfg ow p) = none ∨
  (∃ cur, w.store.get (keyOf cfg ow p) = some cur ∧ isController cfg.st (ow.ref true) cur = false) ∨
  w.beforeWrite.store.get (keyOf cfg ow p) = none

/-- the API answers NotFound to a delete exactly when the object does not exist. -/
theorem delete_notFound_iff (s : Store) (k : Key) (u rv : Nat) :
    (s.delete k u rv).2 = .error .notFound ↔ s.get k = none := by
  simp only [Store.delete]
  cases hg : s.get k with
  | none => simp
  | some c =>
    simp only
    split
    · simp
    · split
      · split <;> simp
      · simp

/-- a teardown step reports "done" only for an object that is gone in the sense above. -/
theorem teardownPhaseObject_done (cfg : Cfg) (ow : Owner) (p : PObj) (w : World)
    (h : (teardownPhaseObject cfg ow p w).2 = .done) : ObjGone cfg ow p w := by
  simp only [teardownPhaseObject, watch_store, watch_beforeWrite_store] at h
  cases hpf : preflightObj cfg ow "" false p with
  | violation => exact Or.inl hpf
  | error => simp [hpf] at h
  | ok =>
    simp only [hpf] at h
    cases hget : w.store.get (keyOf cfg ow p) with
    | none => exact Or.inr (Or.inl hget)
    | some cur =>
      simp only [hget] at h
      by_cases hc : isController cfg.st (ow.ref true) cur = true
      · simp only [hc, Bool.not_true, Bool.false_eq_true, ↓reduceIte] at h
        right; right; right
        have hnf := delete_notFound_iff w.beforeWrite.store (keyOf cfg ow p) cur.uid cur.rv
        cases hd : w.beforeWrite.store.delete (keyOf cfg ow p) cur.uid cur.rv with
        | mk s r =>
          rw [hd] at h hnf
          cases r with
          | ok u => simp at h
          | error e =>
            cases e with
            | notFound => exact hnf.1 rfl
            | alreadyExists => simp at h
            | conflict => simp at h
            | invalid => simp at h
            | other => simp at h
      · exact Or.inr (Or.inr (Or.inl ⟨cur, hget, by simpa using hc⟩))

/-- the worlds in which the objects of a phase are torn down. -/
def tvisits (cfg : Cfg) (ow : Owner) : List PObj → World → List (PObj × World)
  | [], _ => []
  | p :: rest, w =>
    (p, w) :: match teardownPhaseObject cfg ow p w with
      | (_, .err) => []
      | (w', _) => tvisits cfg ow rest w'

/-- `TeardownPhase` reports done only if EVERY object of the phase was processed and found gone. -/
theorem teardownPhase_done (cfg : Cfg) (ow : Owner) :
    ∀ (ps : List PObj) (w : World) (b : Bool),
      (teardownPhase.go cfg ow ps w b).2 = .done →
      b = true ∧ (tvisits cfg ow ps w).map (·.1) = ps ∧
      ∀ pw ∈ tvisits cfg ow ps w, ObjGone cfg ow pw.1 pw.2 := by
  intro ps
  induction ps with
  | nil =>
    intro w b h
    simp only [teardownPhase.go] at h
    cases b <;> simp_all [tvisits]
  | cons p rest ih =>
    intro w b h
    simp only [teardownPhase.go] at h
    cases hr : teardownPhaseObject cfg ow p w with
    | mk w' r =>
      rw [hr] at h
      cases r with
      | err => simp at h
      | done =>
        simp only at h
        obtain ⟨hb, hmap, hall⟩ := ih w' b h
        refine ⟨hb, by simp [tvisits, hr, hmap], ?_⟩
        intro pw hpw
        simp only [tvisits, hr, List.mem_cons] at hpw
        rcases hpw with h1 | h1
        · subst h1; exact teardownPhaseObject_done cfg ow p w (by simp [hr])
        · exact hall pw h1
      | notDone =>
        simp only at h
        obtain ⟨hb, _, _⟩ := ih w' false h
        simp at hb

/-- A phase is finished: every object gone (local), or the delegated phase object is gone. -/
def PhaseDone (cfg : Cfg) (ow : Owner) (remote : RemoteTear) (ph : PhaseSpec) (w : World) : Prop :=
  if ph.cls ≠ "" then (remote ph w).2 = .done
  else (tvisits cfg ow ph.objs w).map (·.1) = ph.objs ∧ ∀ pw ∈ tvisits cfg ow ph.objs w, ObjGone cfg ow pw.1 pw.2

/-- phases visited by a teardown pass (the list handed in is already reversed). -/
def tvisitsPh (cfg : Cfg) (ow : Owner) (remote : RemoteTear) : List PhaseSpec → World → List (PhaseSpec × World)
  | [], _ => []
  | ph :: rest, w =>
    (ph, w) ::
      match (if ph.cls ≠ "" then remote ph w else teardownPhase cfg ow ph.objs w) with
      | (w', .done) => tvisitsPh cfg ow remote rest w'
      | _ => []

/-- **teardown_reverse (order)**: every visited phase except possibly the last one was finished;
since phases are visited in reverse spec order, a phase is touched only after all LATER phases
are done. -/
theorem tvisited_prefix_done (cfg : Cfg) (ow : Owner) (remote : RemoteTear) :
    ∀ (phases : List PhaseSpec) (w : World) (l1 : List (PhaseSpec × World)) (x : PhaseSpec × World)
      (l2 : List (PhaseSpec × World)),
      tvisitsPh cfg ow remote phases w = l1 ++ x :: l2 → l2 ≠ [] → PhaseDone cfg ow remote x.1 x.2 := by
  intro phases
  induction phases with
  | nil => intro w l1 x l2 h; simp [tvisitsPh] at h
  | cons ph rest ih =>
    intro w l1 x l2 h hne
    simp only [tvisitsPh] at h
    cases l1 with
    | nil =>
      obtain ⟨hx, htail⟩ := List.cons.inj h
      subst hx
      simp only [PhaseDone]
      by_cases hc : ph.cls ≠ ""
      · simp only [if_pos hc] at htail ⊢
        cases hr : remote ph w with
        | mk w' r =>
          rw [hr] at htail
          cases r with
          | done => rfl
          | notDone => simp at htail; first | exact absurd htail hne | exact absurd htail.symm hne
          | err => simp at htail; first | exact absurd htail hne | exact absurd htail.symm hne
      · simp only [if_neg hc] at htail ⊢
        cases hr : teardownPhase cfg ow ph.objs w with
        | mk w' r =>
          rw [hr] at htail
          cases r with
          | done =>
            have := teardownPhase_done cfg ow ph.objs w true (by simpa [teardownPhase] using congrArg Prod.snd hr)
            exact ⟨this.2.1, this.2.2⟩
          | notDone => simp at htail; first | exact absurd htail hne | exact absurd htail.symm hne
          | err => simp at htail; first | exact absurd htail hne | exact absurd htail.symm hne
    | cons y l1' =>
      obtain ⟨_, htail⟩ := List.cons.inj h
      cases hr : (if ph.cls ≠ "" then remote ph w else teardownPhase cfg ow ph.objs w) with
      | mk w' r =>
        rw [hr] at htail
        cases r with
        | done => exact ih w' l1' x l2 htail hne
        | notDone => simp at htail
        | err => simp at htail

/-- events of a teardown pass come from visited local phases: merge patches and deletes on the
keys of their objects. -/
theorem teardown_events_from_visited (cfg : Cfg) (ow : Owner) (remote : RemoteTear)
    (hrem : ∀ ph w, (remote ph w).1.events = w.events) :
    ∀ (phases : List PhaseSpec) (w : World),
      ∃ evs, (teardownPhases cfg ow remote phases w).1.events = w.events ++ evs ∧
        ∀ e ∈ evs, ∃ v ∈ tvisitsPh cfg ow remote phases w, v.1.cls = "" ∧ ∃ p ∈ v.1.objs,
          (∃ ch os res, e = .merge (keyOf cfg ow p) ch os res) ∨ (∃ u rv res, e = .delete (keyOf cfg ow p) u rv res) := by
  intro phases
  induction phases with
  | nil => intro w; exact ⟨[], by simp [teardownPhases], by simp⟩
  | cons ph rest ih =>
    intro w
    simp only [teardownPhases, tvisitsPh]
    by_cases hc : ph.cls ≠ ""
    · simp only [if_pos hc]
      have hr0 := hrem ph w
      cases hr : remote ph w with
      | mk w' r =>
        rw [hr] at hr0; simp only at hr0
        cases r with
        | done =>
          obtain ⟨evs, hev, hj⟩ := ih w'
          refine ⟨evs, by simp [hev, hr0], ?_⟩
          intro e he
          obtain ⟨v, hv, rest'⟩ := hj e he
          exact ⟨v, by simp [hv], rest'⟩
        | notDone => exact ⟨[], by simp [hr0], by simp⟩
        | err => exact ⟨[], by simp [hr0], by simp⟩
    · have hc' : ph.cls = "" := by simpa using hc
      simp only [if_neg hc]
      obtain ⟨ev0, he0, hj0⟩ := Pko.Props.C05.teardownPhase_events cfg ow ph.objs w true
      cases hr : teardownPhase cfg ow ph.objs w with
      | mk w' r =>
        have he0' : w'.events = w.events ++ ev0 := by
          have := he0; simp only [teardownPhase] at hr; rw [hr] at this; simpa using this
        cases r with
        | done =>
          obtain ⟨evs, hev, hj⟩ := ih w'
          refine ⟨ev0 ++ evs, by simp [hev, he0', List.append_assoc], ?_⟩
          intro e he
          rcases List.mem_append.1 he with h | h
          · obtain ⟨p, hp, hshape⟩ := hj0 e h
            exact ⟨(ph, w), by simp, hc', p, hp, hshape⟩
          · obtain ⟨v, hv, rest'⟩ := hj e h
            exact ⟨v, by simp [hv], rest'⟩
        | notDone =>
          refine ⟨ev0, by simpa using he0', ?_⟩
          intro e he
          obtain ⟨p, hp, hshape⟩ := hj0 e he
          exact ⟨(ph, w), by simp, hc', p, hp, hshape⟩
        | err =>
          refine ⟨ev0, by simpa using he0', ?_⟩
          intro e he
          obtain ⟨p, hp, hshape⟩ := hj0 e he
          exact ⟨(ph, w), by simp, hc', p, hp, hshape⟩

/-- **teardown_reverse, assembled.** Every delete / de-reference patch of a teardown pass belongs
to a visited local phase `v`, and every phase visited before `v` — i.e. every LATER phase of the
spec — was finished in this very pass. -/
theorem teardown_reverse (cfg : Cfg) (ow : Owner) (remote : RemoteTear)
    (hrem : ∀ ph w, (remote ph w).1.events = w.events) (phases : List PhaseSpec) (w : World) :
    ∃ evs, (teardownPhases cfg ow remote phases.reverse w).1.events = w.events ++ evs ∧
      ∀ e ∈ evs, ∃ l1 v l2, tvisitsPh cfg ow remote phases.reverse w = l1 ++ v :: l2 ∧
        (∃ p ∈ v.1.objs, (∃ ch os res, e = .merge (keyOf cfg ow p) ch os res) ∨
                          (∃ u rv res, e = .delete (keyOf cfg ow p) u rv res)) ∧
        ∀ u ∈ l1, PhaseDone cfg ow remote u.1 u.2 := by
  obtain ⟨evs, hev, hj⟩ := teardown_events_from_visited cfg ow remote hrem phases.reverse w
  refine ⟨evs, hev, ?_⟩
  intro e he
  obtain ⟨v, hv, _, hp⟩ := hj e he
  obtain ⟨l1, l2, hsplit⟩ := List.append_of_mem hv
  refine ⟨l1, v, l2, hsplit, hp, ?_⟩
  intro u hu
  obtain ⟨a, b, hab⟩ := List.append_of_mem hu
  have : tvisitsPh cfg ow remote phases.reverse w = a ++ u :: (b ++ v :: l2) := by
    rw [hsplit, hab]; simp
  exact tvisited_prefix_done cfg ow remote phases.reverse w a u (b ++ v :: l2) this (by simp)

/-- `Teardown` reports done only if the ObjectSet is orphaned or every phase was finished. -/
theorem teardown_done (cfg : Cfg) (ow : Owner) (remote : RemoteTear) :
    ∀ (phases : List PhaseSpec) (w : World),
      (teardownPhases cfg ow remote phases w).2 = .done →
      (tvisitsPh cfg ow remote phases w).map (·.1) = phases ∧
      ∀ v ∈ tvisitsPh cfg ow remote phases w, PhaseDone cfg ow remote v.1 v.2 := by
  intro phases
  induction phases with
  | nil => intro w _; simp [tvisitsPh]
  | cons ph rest ih =>
    intro w h
    simp only [teardownPhases] at h
    cases hr : (if ph.cls ≠ "" then remote ph w else teardownPhase cfg ow ph.objs w) with
    | mk w' r =>
      rw [hr] at h
      cases r with
      | done =>
        simp only at h
        obtain ⟨hmap, hall⟩ := ih w' h
        refine ⟨by simp [tvisitsPh, hr, hmap], ?_⟩
        intro v hv
        simp only [tvisitsPh, hr, List.mem_cons] at hv
        rcases hv with h1 | h1
        · subst h1
          simp only [PhaseDone]
          by_cases hc : ph.cls ≠ ""
          · simp only [if_pos hc] at hr ⊢; simp [hr]
          · simp only [if_neg hc] at hr ⊢
            have := teardownPhase_done cfg ow ph.objs w true (by simpa [teardownPhase] using congrArg Prod.snd hr)
            exact ⟨this.2.1, this.2.2⟩
        · exact hall v h1
      | notDone => simp at h
      | err => simp at h

/-- events on the ObjectSet itself that release it -/
def Releases (name : String) : SetEvent → Prop
  | .finalizerPatch n add _ => n = name ∧ add = false
  | .statusUpdate n _ _ conds _ _ => n = name ∧ condTrue conds "Archived" = true

/-- **finalizer_held.** In the deletion / archival branch of the controller pass: if the teardown
of the pass did not return done, no event of the pass removes the finalizer or reports
Archived=True; the only possible write on the ObjectSet is a status update (archival in progress,
Archived=False). -/
theorem finalizer_held (cfg : Cfg) (rm : Remotes) (name : String) (s : Sys) (mem : OSet)
    (hget : s.sets name = some mem) (hname : mem.name = name)
    (hna : condTrue mem.conds "Archived" = false)
    (htear : mem.deleting = true ∨ mem.lifecycle = .archived)
    (hfin : mem.finCached = true)
    (hnd : (teardown cfg mem (rm.tear mem) s.w).2 ≠ .done) :
    ∀ e ∈ (reconcile cfg rm name s).1.setEvents, e ∈ s.setEvents ∨ ¬ Releases name e := by
  have hcase : (mem.deleting || decide (mem.lifecycle = .archived)) = true := by
    rcases htear with h | h <;> simp [h]
  simp only [reconcile, hget, hna, Bool.false_eq_true, ↓reduceIte, hcase, deletionOrArchival, hfin]
  cases hr : teardown cfg mem (rm.tear mem) s.w with
  | mk w tr =>
    rw [hr] at hnd
    cases tr with
    | done => exact absurd rfl hnd
    | err => intro e he; exact Or.inl he
    | notDone =>
      simp only
      by_cases harch : mem.lifecycle = .archived
      · simp only [harch, ↓reduceIte, ne_eq, not_true_eq_false]
        rw [Pko.Lemmas.ObjectSet.afterStatus_fst]
        intro e he
        obtain ⟨r, hev⟩ := Pko.Lemmas.ObjectSet.updateStatus_setEvents { s with w := w }
          { mem with finCached := true, conds := removeCond (setCond mem.conds ⟨"Archived", "False", "ArchivalInProgress", mem.gen, ""⟩) "Available" }
        simp only [harch] at hev
        rw [hev] at he
        rcases List.mem_append.1 he with h | h
        · exact Or.inl h
        · right
          simp only [List.mem_singleton] at h
          subst h
          simp only [Releases, not_and]
          intro _
          -- the written conditions carry Archived=False, hence not Archived=True
          intro hbad
          have := Pko.Lemmas.ObjectSet.condTrue_removeCond _ _ _ hbad
          rw [Pko.Lemmas.ObjectSet.condTrue_setCond_false _ _ _ _ _ _ (by decide)] at this
          cases this
      · simp only [harch, ↓reduceIte, ne_eq, not_false_eq_true]
        intro e he; exact Or.inl he

/-- Orphan propagation: the teardown handler does nothing at all and reports done. -/
theorem orphan_no_delete (cfg : Cfg) (o : OSet) (remote : RemoteTear) (w : World) (h : o.finOrphan = true) :
    teardown cfg o remote w = (w, .done) := by
  simp [teardown, h]

/-- Non-vacuity: two phases; the later phase's object is still controlled, so only it is deleted in
the first pass and the earlier phase is not touched. -/
example :
    let ow : Owner := ⟨pkoGroup, "ObjectSet", "ns1", "own", "u-own", 1, false, ""⟩
    let cfg : Cfg := { st := .native, flavour := ⟨true, true, true⟩, scope := fun _ => .namespaced, force := false }
    let a : PObj := ⟨"NsThing", "", "a", .prevent, "x", false, .accept⟩
    let b : PObj := ⟨"NsThing", "", "b", .prevent, "x", false, .accept⟩
    let o : Obj := { (default : Obj) with uid := 1, rv := 1, owners := [ow.ref true] }
    let st : Store := { objs := fun k => if k.name = "a" ∨ k.name = "b" then some o else none, nextUID := 2, nextRV := 2 }
    let w : World := { store := st, writes := 0, env := [], events := [] }
    let none' : RemoteTear := fun _ w => (w, .err)
    let r := teardownPhases cfg ow none' [⟨"p2", "", [b]⟩, ⟨"p1", "", [a]⟩] w
    r.2 = .notDone ∧ r.1.events.length = 1 := by
  exact ⟨rfl, rfl⟩

/-! ### ObjectSets whose phases keep objects in ObjectSlices

`Pko.Model.Slices.reconcileSliced` (model of `sliceLoadingTeardownHandler` + the slice loader): the
teardown of a sliced ObjectSet is the teardown of the ObjectSet with EVERY slice inlined, or it
does not happen at all. -/
section sliced
open Pko.Model.Slices

/-- What a successful load of one phase returns: the inline objects followed by the objects of
every referenced slice, in order — and every referenced slice existed. -/
theorem loadPhase_some (slices : List (String × List PObj)) :
    ∀ (names : List String) (ph ph' : PhaseSpec), loadPhase slices ph names = some ph' →
      ph'.name = ph.name ∧ ph'.cls = ph.cls ∧
      ph'.objs = ph.objs ++ names.flatMap (fun n => (slices.lookup n).getD []) ∧
      ∀ n ∈ names, slices.lookup n ≠ none := by
  intro names
  induction names with
  | nil => intro ph ph' h; simp only [loadPhase, Option.some.injEq] at h; subst h; simp
  | cons n rest ih =>
    intro ph ph' h
    simp only [loadPhase] at h
    cases hl : slices.lookup n with
    | none => simp [hl] at h
    | some objs =>
      simp only [hl] at h
      obtain ⟨h1, h2, h3, h4⟩ := ih _ _ h
      refine ⟨h1, h2, ?_, ?_⟩
      · rw [h3]; simp [hl, List.append_assoc]
      · intro m hm
        rcases List.mem_cons.1 hm with rfl | hm
        · simp [hl]
        · exact h4 m hm

/-- A referenced slice that no longer exists makes the load of the phase fail. -/
theorem loadPhase_missing (slices : List (String × List PObj)) :
    ∀ (names : List String) (ph : PhaseSpec) (n : String), n ∈ names → slices.lookup n = none →
      loadPhase slices ph names = none := by
  intro names
  induction names with
  | nil => intro _ _ h; cases h
  | cons m rest ih =>
    intro ph n hn hmiss
    simp only [loadPhase]
    cases hl : slices.lookup m with
    | none => rfl
    | some objs =>
      rcases List.mem_cons.1 hn with rfl | hn
      · rw [hmiss] at hl; cases hl
      · exact ih _ n hn hmiss

/-- … and with it the load of the whole ObjectSet, whichever phase references the slice. -/
theorem loadPhases_missing (slices : List (String × List PObj)) :
    ∀ (phs : List PhaseSpec) (refs : List (List String)),
      (∃ pr ∈ phs.zip refs, ∃ n ∈ pr.2, slices.lookup n = none) → loadPhases slices phs refs = none := by
  intro phs
  induction phs with
  | nil => intro refs ⟨pr, hpr, _⟩; simp at hpr
  | cons ph rest ih =>
    intro refs ⟨pr, hpr, n, hn, hmiss⟩
    cases refs with
    | nil => simp at hpr
    | cons r rs =>
      simp only [List.zip_cons_cons, List.mem_cons] at hpr
      simp only [loadPhases, List.headD_cons, List.tail_cons]
      rcases hpr with rfl | hpr
      · rw [loadPhase_missing slices r ph n hn hmiss]
      · cases loadPhase slices ph r with
        | none => rfl
        | some ph' => simp only; rw [ih rs ⟨pr, hpr, n, hn, hmiss⟩]

/-- **sliced_teardown_aborts_on_missing_slice.** Deleting / archived ObjectSet holding the cached
finalizer (not orphaned), some referenced ObjectSlice gone: the pass ends with an error and
changes NOTHING — no object is deleted, the finalizer stays, no status (Archived) is written. -/
theorem sliced_teardown_aborts_on_missing_slice (cfg : Cfg) (rm : Remotes) (refs : List (List String))
    (name : String) (s : Sys) (mem : OSet)
    (hget : s.sets name = some mem) (hna : condTrue mem.conds "Archived" = false)
    (htear : mem.deleting = true ∨ mem.lifecycle = .archived)
    (hfin : mem.finCached = true) (horph : mem.finOrphan = false)
    (hmiss : ∃ pr ∈ mem.phases.zip refs, ∃ n ∈ pr.2, s.slices.lookup n = none) :
    reconcileSliced cfg rm refs name s = (s, .err) := by
  have hcase : (mem.deleting || decide (mem.lifecycle = .archived)) = true := by
    rcases htear with h | h <;> simp [h]
  simp [reconcileSliced, hget, hna, hcase, hfin, horph, loadPhases_missing _ _ _ hmiss]

/-- **sliced_teardown_is_teardown_of_everything.** When every referenced slice exists, the pass is
the deletion / archival pass of the ObjectSet with all slices inlined: `teardown_reverse_order`,
`finalizer_held` & co. apply to ALL its objects, inline or sliced. -/
theorem sliced_teardown_is_teardown_of_everything (cfg : Cfg) (rm : Remotes) (refs : List (List String))
    (name : String) (s : Sys) (mem : OSet) (phs : List PhaseSpec)
    (hget : s.sets name = some mem) (hna : condTrue mem.conds "Archived" = false)
    (htear : mem.deleting = true ∨ mem.lifecycle = .archived)
    (hfin : mem.finCached = true) (horph : mem.finOrphan = false)
    (hload : loadPhases s.slices mem.phases refs = some phs) :
    reconcileSliced cfg rm refs name s = deletionOrArchival cfg rm s { mem with phases := phs } := by
  have hcase : (mem.deleting || decide (mem.lifecycle = .archived)) = true := by
    rcases htear with h | h <;> simp [h]
  simp [reconcileSliced, hget, hna, hcase, hfin, horph, hload]

/-- Non-vacuity: one phase whose only object lives in a slice that was deleted: the archived
ObjectSet is left exactly as it was (finalizer kept, no Archived condition). -/
example :
    let cfg : Cfg := { st := .native, flavour := ⟨true, true, true⟩, scope := fun _ => .namespaced, force := false }
    let rm : Remotes := { recon := fun _ _ w => (w, .error .other), tear := fun _ _ w => (w, .err) }
    let o : OSet :=
      { (default : OSet) with
        kind := "ObjectSet", ns := "ns1", name := "os1", uid := "uid-1", gen := 1, rv := 1,
        finCached := true, lifecycle := .archived, phases := [⟨"p1", "", []⟩], revision := 1 }
    let s : Sys :=
      { w := { store := { objs := fun _ => none, nextUID := 2, nextRV := 2 }, writes := 0, env := [], events := [] },
        sets := fun n => if n = "os1" then some o else none, setEvents := [], freed := [], setWrites := 0,
        setEnv := [], slices := [] }
    let r := reconcileSliced cfg rm [["os1-s1"]] "os1" s
    r.2 = .err ∧ r.1.setEvents.length = 0 ∧ (r.1.sets "os1").map (·.finCached) = some true := by
  exact ⟨rfl, rfl, rfl⟩

end sliced

/-! ### Delegated phases and the ObjectSet's namespace (`Pko.Model.RemoteNs`)

The theorems above hold for every behaviour `remote` of delegated phases.  The remote-phase
teardown of the code looks at the ObjectSet's Namespace first; these are the facts about it the
property rests on: whatever the client answers for the Namespace, a delegated phase counts as
done only when its phase object is gone or not ours, and no managed object is written. -/
section namespace_aware
open Pko.Model.Remote Pko.Model.RemoteNs

/-- The plain remote teardown reports done only if the phase object is gone or not the ObjectSet's. -/
theorem remoteTeardown_done (o : OSet) (ph : PhaseSpec) (w : World)
    (h : (remoteTeardown o ph w).2 = .done) :
    w.phases (phaseName o ph) = none ∨
    ∃ cur, w.phases (phaseName o ph) = some cur ∧ (cur.ctrlName ≠ o.name ∨ cur.ctrlUID ≠ o.uid) := by
  unfold remoteTeardown at h
  cases hp : w.phases (phaseName o ph) with
  | none => exact Or.inl rfl
  | some cur =>
    right
    refine ⟨cur, rfl, ?_⟩
    simp only [hp] at h
    by_cases hours : cur.ctrlName ≠ o.name ∨ cur.ctrlUID ≠ o.uid
    · exact hours
    · exfalso
      simp only [if_neg hours] at h
      split at h
      · split at h <;> cases h
      · cases h

/-- **remoteTeardownNs_done.** Namespace there, in deletion or not found: the remote teardown
reports done only if the phase object is gone or not the ObjectSet's — a NotFound for the
Namespace is an error of the pass, a namespace in deletion makes the pass strip the phase
object's finalizers and wait. -/
theorem remoteTeardownNs_done (o : OSet) (ph : PhaseSpec) (w : World)
    (h : (remoteTeardownNs o ph w).2 = .done) :
    w.phases (phaseName o ph) = none ∨
    ∃ cur, w.phases (phaseName o ph) = some cur ∧ (cur.ctrlName ≠ o.name ∨ cur.ctrlUID ≠ o.uid) := by
  cases hp : w.phases (phaseName o ph) with
  | none => exact Or.inl rfl
  | some cur =>
    by_cases hours : cur.ctrlName ≠ o.name ∨ cur.ctrlUID ≠ o.uid
    · exact Or.inr ⟨cur, rfl, hours⟩
    · exfalso
      unfold remoteTeardownNs at h
      simp only [hp, if_neg hours] at h
      have hplain : (remoteTeardown o ph w).2 ≠ .done := by
        intro hd
        rcases remoteTeardown_done o ph w hd with h0 | ⟨c, hc, hn⟩
        · rw [hp] at h0; cases h0
        · rw [hp] at hc; cases hc; exact hours hn
      split at h
      · exact hplain h
      · split at h
        · cases h
        · split at h
          · exact hplain h
          · split at h
            · cases h
            · split at h <;> cases h

/-- With the Namespace there and not in deletion the namespace branch is never taken: the
namespace-aware teardown IS the plain one (the drivers run `Remote.remotes` itself on such passes). -/
theorem remoteTeardownNs_live (o : OSet) (ph : PhaseSpec) (w : World)
    (h : nsLive w.store o.ns = true) : remoteTeardownNs o ph w = remoteTeardown o ph w := by
  simp only [remoteTeardownNs]
  cases hp : w.phases (phaseName o ph) with
  | none => simp [remoteTeardown, hp]
  | some cur =>
    simp only
    by_cases hours : cur.ctrlName ≠ o.name ∨ cur.ctrlUID ≠ o.uid
    · simp [remoteTeardown, hp, hours]
    · simp only [hours, ↓reduceIte]
      by_cases hns : o.ns = ""
      · simp [hns]
      · simp only [hns, ↓reduceIte]
        unfold nsLive at h
        cases hg : w.store.get (nsKey o.ns) with
        | none => simp [hns, hg] at h
        | some nso =>
          simp only [hns, hg, decide_false, Bool.false_or] at h
          simp [h]

/-- The plain remote teardown writes no managed object. -/
theorem remoteTeardown_events (o : OSet) (ph : PhaseSpec) (w : World) :
    (remoteTeardown o ph w).1.events = w.events := by
  simp only [remoteTeardown]
  (repeat' split) <;> simp [setPhase, freshRV, World.tick]

/-- The remote teardown writes no managed object, whatever the Namespace looks like
(hypothesis `hrem` of `teardown_reverse`). -/
theorem remoteTeardownNs_events (o : OSet) (ph : PhaseSpec) (w : World) :
    (remoteTeardownNs o ph w).1.events = w.events := by
  simp only [remoteTeardownNs]
  (repeat' split) <;> simp [remoteTeardown_events, setPhase, freshRV, World.tick]

end namespace_aware

end Pko.Props.C04
