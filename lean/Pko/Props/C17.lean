/-
Property C17 — Availability probing is a pure conjunction over selected, up-to-date status.

  "An object passes an ObjectSet's probes iff every probe whose kind and label selector match it
   passes; objects matched by no probe pass, and all failing probes are reported.  For a selected
   object, a status that declares an observedGeneration (object-wide or per condition) different
   from metadata.generation never passes, fieldsEqual fails on missing fields, CEL rules must be
   boolean, and probing does not change the object."

Theorems are about `Pko.Model.Probe` (model of `pkg/probing` and `internal/probing.Parse`, tied to
the Go code by the correspondence harness `harness/C17`) against the declarative specification
`Pko.Model.ProbeSpec`.  They hold for EVERY list of ObjectSetProbes (any number, any mix of
condition / fieldsEqual / CEL / config-less probes, any kind and label selectors), EVERY JSON
object (any shape of metadata and status) and EVERY behaviour of the CEL library (`O : Oracle`).
"Probing does not change the object" holds by construction in the model (a prober is a function
of the object) and is checked by deep equality on the Go side; that `NewCELProbe` returns
`ErrCELInvalidEvaluationType` for non-boolean rules is cel-go behaviour observed by the harness —
the theorem here is that `Parse` then rejects the whole probe list (`cel_rules_must_be_boolean`).
-/
import Pko.Lemmas.C17

namespace Pko.Props.C17
open Pko.Model.Probe Pko.Model.ProbeSpec Pko.Lemmas.C17

variable (O : Oracle) (specs : List Spec) (p : Prober) (obj : JVal)

/-- The prober built by `Parse` returns, for every object, `(true, nil)` if the spec reports no
failure and `(false, failures)` otherwise. -/
theorem probe_eq_failures (h : parse O specs = .ok p) :
    p obj = ofList (failures O specs obj) := by
  have := parse_spec O specs
  rw [h] at this
  exact this.2 obj

/-- `Parse` rejects a probe list exactly when the spec does, with the same reason and index. -/
theorem parse_error_iff (e : ParseErr) :
    parse O specs = .error e ↔ firstError O 0 specs = some e := by
  have := parse_spec O specs
  cases h : parse O specs with
  | error e' => rw [h] at this; simp [this]
  | ok p => rw [h] at this; simp [this.1]

theorem specFailures_nil_iff (sp : Spec) :
    specFailures O obj sp = [] ↔ (selects sp obj = true → PassesAll O sp obj) := by
  unfold specFailures PassesAll
  cases hs : selects sp obj
  · simp
  · cases ho : statusOutdated obj
    · simp [List.filterMap_eq_nil_iff]
    · simp

/-- no failure is reported iff every selecting ObjectSetProbe is passed. -/
theorem failures_nil_iff : failures O specs obj = [] ↔ Passes O specs obj := by
  unfold failures Passes
  simp [List.flatMap_eq_nil_iff, specFailures_nil_iff]

/-- **probe_iff**: the object passes the parsed prober iff every ObjectSetProbe whose kind and
label selector select it is passed (status not outdated and all of its probes pass). -/
theorem probe_iff (h : parse O specs = .ok p) :
    (p obj).1 = true ↔ Passes O specs obj := by
  rw [probe_eq_failures O specs p obj h, ofList_fst, ← failures_nil_iff]
  simp

/-- **unselected_passes**: an object selected by no ObjectSetProbe passes, with no message. -/
theorem unselected_passes (h : parse O specs = .ok p)
    (hs : ∀ sp ∈ specs, selects sp obj = false) : p obj = (true, []) := by
  have : failures O specs obj = [] := by
    rw [failures_nil_iff]; intro sp hsp hsel; rw [hs sp hsp] at hsel; cases hsel
  rw [probe_eq_failures O specs p obj h, this]; rfl

/-- **messages_eq_all_failures**: the messages are exactly the failures of all selecting
ObjectSetProbes, concatenated in list order: ".status outdated" for an outdated status, else one
message per failing probe, in probe order. Nothing is dropped, nothing is reported twice. -/
theorem messages_eq_all_failures (h : parse O specs = .ok p) :
    (p obj).2 = specs.flatMap (fun sp =>
      if selects sp obj then
        if statusOutdated obj then [".status outdated"]
        else (leafs sp).filterMap (leafFailure O obj)
      else []) := by
  rw [probe_eq_failures O specs p obj h, ofList_snd]; rfl

/-- failing and reporting coincide: the prober fails iff it reports at least one message
(so `And`'s "fail iff a message was collected" never loses a failure). -/
theorem fails_iff_reports (h : parse O specs = .ok p) :
    (p obj).1 = false ↔ (p obj).2 ≠ [] := by
  rw [probe_eq_failures O specs p obj h, ofList_fst, ofList_snd]
  cases failures O specs obj <;> simp

/-- a failing probe of a selecting, up-to-date ObjectSetProbe makes the object fail and its
message is reported. -/
theorem failing_probe_reported (h : parse O specs = .ok p) (sp : Spec) (l : Leaf) (m : String)
    (hsp : sp ∈ specs) (hsel : selects sp obj = true) (hup : statusOutdated obj = false)
    (hl : l ∈ leafs sp) (hf : leafFailure O obj l = some m) :
    (p obj).1 = false ∧ m ∈ (p obj).2 := by
  have hm : m ∈ failures O specs obj := by
    unfold failures
    rw [List.mem_flatMap]
    refine ⟨sp, hsp, ?_⟩
    simp only [specFailures, hsel, hup, ↓reduceIte, Bool.false_eq_true]
    rw [List.mem_filterMap]
    exact ⟨l, hl, hf⟩
  rw [probe_eq_failures O specs p obj h, ofList_fst, ofList_snd]
  refine ⟨?_, hm⟩
  cases hfl : failures O specs obj with
  | nil => rw [hfl] at hm; cases hm
  | cons a b => rfl

/-- **stale_observedGeneration_fails** (object-wide): if the status declares an integer
`observedGeneration` different from `metadata.generation`, an object selected by some
ObjectSetProbe never passes — whatever probes that entry holds (even none) — and
".status outdated" is reported. -/
theorem stale_observedGeneration_fails (h : parse O specs = .ok p) (sp : Spec) (g : Int)
    (hsp : sp ∈ specs) (hsel : selects sp obj = true)
    (hog : nestedField obj ["status", "observedGeneration"] = .found (.int g))
    (hne : g ≠ generation obj) :
    (p obj).1 = false ∧ ".status outdated" ∈ (p obj).2 := by
  have hout : statusOutdated obj = true := by
    simp [statusOutdated, declaredObservedGeneration, hog, hne]
  have hm : ".status outdated" ∈ failures O specs obj := by
    unfold failures
    rw [List.mem_flatMap]
    exact ⟨sp, hsp, by simp [specFailures, hsel, hout]⟩
  rw [probe_eq_failures O specs p obj h, ofList_fst, ofList_snd]
  refine ⟨?_, hm⟩
  cases hfl : failures O specs obj with
  | nil => rw [hfl] at hm; cases hm
  | cons a b => rfl

/-- the condition probe's verdict when the entry it examines is stale. -/
theorem conditionFailure_stale (t s : String) (pre post : List JVal)
    (kvs : List (String × JVal)) (g : Int)
    (hc : nestedField obj ["status", "conditions"] = .found (.arr (pre ++ .obj kvs :: post)))
    (hpre : ∀ c ∈ pre, otherCondition t c = true)
    (hty : lookupKey "type" kvs = some (.str t))
    (hog : lookupKey "observedGeneration" kvs = some (.int g))
    (hne : g ≠ generation obj) :
    conditionFailure t s obj = some (condMsg t s "outdated") := by
  have hfind : (pre ++ JVal.obj kvs :: post).find? (fun c => !otherCondition t c) =
      some (.obj kvs) := by
    rw [List.find?_append]
    have : pre.find? (fun c => !otherCondition t c) = none := by
      rw [List.find?_eq_none]; intro c hcm; simp [hpre c hcm]
    have hself : otherCondition t (JVal.obj kvs) = false := by
      simp [otherCondition, strField, hty]
    rw [this]; simp [hself]
  have hdecl : declaredObservedGeneration (.obj kvs) ["observedGeneration"] = some g := by
    simp [declaredObservedGeneration, nestedField, hog]
  simp [conditionFailure, hc, hfind, hdecl, hne]

/-- **stale_observedGeneration_fails** (per condition): if the entry of `.status.conditions` that
reports the probed type (all entries before it being maps of other types) declares an integer
`observedGeneration` different from `metadata.generation`, an object selected by an ObjectSetProbe
holding a condition probe for that type never passes — whatever `status` the condition has. -/
theorem stale_condition_fails (h : parse O specs = .ok p) (sp : Spec) (t s : String)
    (pre post : List JVal) (kvs : List (String × JVal)) (g : Int)
    (hsp : sp ∈ specs) (hsel : selects sp obj = true) (hl : Leaf.condition t s ∈ leafs sp)
    (hc : nestedField obj ["status", "conditions"] = .found (.arr (pre ++ .obj kvs :: post)))
    (hpre : ∀ c ∈ pre, otherCondition t c = true)
    (hty : lookupKey "type" kvs = some (.str t))
    (hog : lookupKey "observedGeneration" kvs = some (.int g))
    (hne : g ≠ generation obj) :
    (p obj).1 = false := by
  cases hup : statusOutdated obj with
  | true =>
    have hnp : ¬ Passes O specs obj := fun hp => by
      have := (hp sp hsp hsel).1; rw [hup] at this; cases this
    cases hv : (p obj).1 with
    | false => rfl
    | true => exact absurd ((probe_iff O specs p obj h).1 hv) hnp
  | false =>
    exact (failing_probe_reported O specs p obj h sp _ _ hsp hsel hup hl
      (conditionFailure_stale obj t s pre post kvs g hc hpre hty hog hne)).1

/-- Corollary for well-formed condition lists (at most one entry per type, as the API
conventions require): if *the* entry of the probed type is stale, the object never passes. -/
theorem stale_condition_fails_unique (h : parse O specs = .ok p) (sp : Spec) (t s : String)
    (conds : List JVal) (kvs : List (String × JVal)) (g : Int)
    (hsp : sp ∈ specs) (hsel : selects sp obj = true) (hl : Leaf.condition t s ∈ leafs sp)
    (hc : nestedField obj ["status", "conditions"] = .found (.arr conds))
    (hmem : JVal.obj kvs ∈ conds)
    (huniq : ∀ c ∈ conds, c = JVal.obj kvs ∨ otherCondition t c = true)
    (hty : lookupKey "type" kvs = some (.str t))
    (hog : lookupKey "observedGeneration" kvs = some (.int g))
    (hne : g ≠ generation obj) :
    (p obj).1 = false := by
  obtain ⟨pre, post, hsplit, hnot⟩ := List.eq_append_cons_of_mem hmem
  rw [hsplit] at hc huniq
  refine stale_condition_fails O specs p obj h sp t s pre post kvs g hsp hsel hl hc ?_ hty hog hne
  intro x hx
  rcases huniq x (by simp [hx]) with e | e
  · subst e; exact absurd hx hnot
  · exact e

/-- **fieldsEqual_missing_fails**: if either path of a fieldsEqual probe cannot be walked in the
object (a key is missing, or a non-map is on the way), a selected object never passes. -/
theorem fieldsEqual_missing_fails (h : parse O specs = .ok p) (sp : Spec) (a b : String)
    (hsp : sp ∈ specs) (hsel : selects sp obj = true) (hl : Leaf.fieldsEqual a b ∈ leafs sp)
    (hm : fieldAt obj a = none ∨ fieldAt obj b = none) :
    (p obj).1 = false := by
  have hf : ∃ m, leafFailure O obj (.fieldsEqual a b) = some m := by
    simp only [leafFailure, fieldsEqualFailure]
    rcases hm with hm | hm
    · simp [hm]
    · rw [hm]; cases fieldAt obj a <;> simp
  obtain ⟨m, hf⟩ := hf
  cases hup : statusOutdated obj with
  | true =>
    have hnp : ¬ Passes O specs obj := fun hp => by
      have := (hp sp hsp hsel).1; rw [hup] at this; cases this
    cases hv : (p obj).1 with
    | false => rfl
    | true => exact absurd ((probe_iff O specs p obj h).1 hv) hnp
  | false => exact (failing_probe_reported O specs p obj h sp _ m hsp hsel hup hl hf).1

/-- **empty_list_passes**: the empty probe list parses, and every object passes it silently. -/
theorem empty_list_passes : ∃ p, parse O [] = .ok p ∧ ∀ obj, p obj = (true, []) :=
  ⟨andProbe [], rfl, fun _ => rfl⟩

/-- an ObjectSetProbe without (known) probes is passed by every selected object whose status is
not outdated: it contributes no failure. -/
theorem no_probes_no_failures (sp : Spec) (hl : leafs sp = [])
    (hup : statusOutdated obj = false) : specFailures O obj sp = [] := by
  simp [specFailures, hl, hup]

/-- **cel_rules_must_be_boolean**: if `Parse` accepts a probe list, every CEL rule in it that is
reached (its entry has no fieldsEqual/condition config taking precedence) compiled to a boolean
program; equivalently a rule for which `NewCELProbe` reports `ErrCELInvalidEvaluationType` (or any
other error) makes `Parse` fail. -/
theorem cel_rules_must_be_boolean (h : parse O specs = .ok p) (sp : Spec) (r m : String)
    (hsp : sp ∈ specs) (hl : Leaf.cel r m ∈ leafs sp) : O.compile r = .ok := by
  have hfe : firstError O 0 specs = none := by
    have := parse_spec O specs; rw [h] at this; exact this.1
  -- no spec has an error
  have hall : ∀ (i : Nat) (l : List Spec), firstError O i l = none → ∀ sp ∈ l, ∃ j, specError O j sp = none := by
    intro i l
    induction l generalizing i with
    | nil => intro _ sp hsp; cases hsp
    | cons a l ih =>
      intro hf sp hsp
      simp only [firstError] at hf
      cases ha : specError O i a with
      | some e => simp [ha, Option.orElse] at hf
      | none =>
        simp only [ha, Option.orElse] at hf
        rcases List.mem_cons.1 hsp with e | e
        · subst e; exact ⟨i, ha⟩
        · exact ih (i + 1) hf sp e
  obtain ⟨j, hj⟩ := hall 0 specs hfe sp hsp
  unfold specError at hj
  cases hfs : (leafs sp).findSome? (celError O j) with
  | some e => simp [hfs] at hj
  | none =>
    rw [List.findSome?_eq_none_iff] at hfs
    have := hfs _ hl
    simp only [celError] at this
    cases hc : O.compile r with
    | ok => rfl
    | notBool => simp [hc] at this
    | error => simp [hc] at this

theorem passesB_eq : passesB O specs obj = (failures O specs obj).isEmpty := by
  rw [Bool.eq_iff_iff]
  have h1 : passesB O specs obj = true ↔ Passes O specs obj := by
    unfold passesB Passes passesAllB PassesAll
    simp only [List.all_eq_true, Bool.or_eq_true, Bool.not_eq_true', Bool.and_eq_true,
      Option.isNone_iff_eq_none]
    constructor
    · intro hh sp hsp hsel
      rcases hh sp hsp with e | e
      · rw [hsel] at e; cases e
      · exact e
    · intro hh sp hsp
      cases hsel : selects sp obj
      · exact Or.inl rfl
      · exact Or.inr (hh sp hsp hsel)
  rw [h1, ← failures_nil_iff, List.isEmpty_iff]

/-- **The model satisfies the monitored predicate**: for every scenario, the C17 monitor
(`checkOut`, the predicate `drv_c17 monitor` evaluates on implementation outputs) accepts the
model's own output (`modelOut`, what `drv_c17 model` prints). -/
theorem monitor_accepts_model : checkOut O specs obj (modelOut O specs obj) = "ok" := by
  have hs := parse_spec O specs
  unfold modelOut
  cases h : parse O specs with
  | error e => rw [h] at hs; simp [checkOut, hs]
  | ok p =>
    rw [h] at hs
    simp only [checkOut, hs.1, hs.2 obj, ofList_fst, ofList_snd, passesB_eq]
    simp

/-! ### Non-vacuity: a concrete ObjectSetProbe list and objects -/

private def exOracle : Oracle := ⟨fun _ => .ok, fun _ _ => .val false⟩

private def exSpecs : List Spec :=
  [ { probes := [⟨some ("Available", "True"), none, none⟩,
                 ⟨none, some (".status.updatedReplicas", ".status.replicas"), none⟩,
                 ⟨none, none, none⟩],
      kind := some ("apps", "Deployment"),
      selector := some ⟨[("app", "a")], [⟨"tier", "NotIn", ["db"]⟩]⟩ },
    { probes := [⟨none, none, some ("self.x", "not x")⟩], kind := some ("", "ConfigMap"), selector := none } ]

private def exObj (og condOg : Int) (kind : String) : JVal :=
  .obj [("apiVersion", .str "apps/v1"), ("kind", .str kind),
    ("metadata", .obj [("generation", .int 2), ("labels", .obj [("app", .str "a")])]),
    ("status", .obj [("observedGeneration", .int og), ("replicas", .int 3),
      ("conditions", .arr [.obj [("type", .str "Progressing"), ("status", .str "True")],
        .obj [("type", .str "Available"), ("status", .str "True"), ("observedGeneration", .int condOg)]])])]

/-- the list parses; a fresh Deployment with all conditions up to date fails only the fieldsEqual
probe (field missing); a stale condition and a stale status fail; a non-selected kind passes. -/
example : ∃ p, parse exOracle exSpecs = .ok p ∧
    p (exObj 2 2 "Deployment") =
      (false, ["\".status.updatedReplicas\" == \".status.replicas\": \".status.updatedReplicas\" missing"]) ∧
    p (exObj 2 1 "Deployment") =
      (false, ["condition \"Available\" == \"True\": outdated",
               "\".status.updatedReplicas\" == \".status.replicas\": \".status.updatedReplicas\" missing"]) ∧
    p (exObj 1 2 "Deployment") = (false, [".status outdated"]) ∧
    p (exObj 1 1 "StatefulSet") = (true, []) := by
  refine ⟨_, rfl, ?_, ?_, ?_, ?_⟩ <;> decide

end Pko.Props.C17
