/-
Property C01 — Collision protection: foreign objects are never taken over unasked.

Theorems about `Pko.Model.Phase` (model of internal/controllers/phase_reconciler.go; tied to the
Go code by the phase-level correspondence harness).  They hold for both owner strategies, every
object state, every collisionProtection value, every previous-revision list, every owner
revision, forced adoption on/off, and — because they are stated for an arbitrary `World` — for
every store state any interleaving with third parties can produce.
-/
import Pko.Model.Phase
import Pko.Lemmas.Watch

namespace Pko.Props.C01
open Pko.Kube Pko.Model.Phase

/-- collisionProtection in effect: self-bootstrap's forced adoption counts as `None`. -/
def effCP (force : Bool) (o : Obj) (cp : CP) : CP :=
  if force || o.pkgLabel == "package-operator" then .none else cp

/-- **Adoption is permitted** — transcribed from the property's sentence. -/
def Permitted (st : Strategy) (ow : Owner) (force : Bool) (o : Obj) (prev : List Prev) (cp : CP) : Prop :=
  revNum o.rev ≤ ow.rev ∧
  (effCP force o cp = .none ∨
   (effCP force o cp = .ifNoController ∧ hasController st o = false) ∨
   (controlledByPrevious st o prev = true ∧ revNum o.rev < ow.rev))

instance (st ow force o prev cp) : Decidable (Permitted st ow force o prev cp) := by
  unfold Permitted; exact inferInstance

/-- The adoption checker says "adopt" exactly for objects that are not ours and whose adoption
the property permits (revision annotation parseable). -/
theorem check_adopts_iff (st : Strategy) (ow : Owner) (force : Bool) (o : Obj) (prev : List Prev) (cp : CP)
    (hrev : o.rev ≠ .garbage) :
    check st ow force o prev cp = .adopt ↔
      isController st (ow.ref true) o = false ∧ Permitted st ow force o prev cp := by
  unfold check Permitted effCP
  by_cases hc : isController st (ow.ref true) o = true
  · simp [hc]
  · simp only [hc, hrev, Bool.false_eq_true, ↓reduceIte]
    by_cases hgt : revNum o.rev > ow.rev
    · simp [hgt]; omega
    · simp only [hgt, ↓reduceIte]
      have hle : revNum o.rev ≤ ow.rev := by omega
      cases hf : (force || o.pkgLabel == "package-operator")
      · cases cp <;> simp [hf, hle] <;> (
          cases hh : hasController st o <;> cases hp : controlledByPrevious st o prev <;> simp [hh, hp] <;>
            (by_cases he : revNum o.rev = ow.rev <;> simp [he] <;> omega))
      · simp [hf, hle]

/-- The adoption checker refuses (the two adoption-refused errors) exactly for foreign objects of
a not-newer revision whose adoption is not permitted. -/
theorem check_refuses_iff (st : Strategy) (ow : Owner) (force : Bool) (o : Obj) (prev : List Prev) (cp : CP)
    (hrev : o.rev ≠ .garbage) :
    (check st ow force o prev cp = .errNotOwned ∨ check st ow force o prev cp = .errRevCollision) ↔
      isController st (ow.ref true) o = false ∧ revNum o.rev ≤ ow.rev ∧ ¬ Permitted st ow force o prev cp := by
  unfold check Permitted effCP
  by_cases hc : isController st (ow.ref true) o = true
  · simp [hc]
  · simp only [hc, hrev, Bool.false_eq_true, ↓reduceIte]
    by_cases hgt : revNum o.rev > ow.rev
    · simp [hgt]; omega
    · simp only [hgt, ↓reduceIte]
      have hle : revNum o.rev ≤ ow.rev := by omega
      cases hf : (force || o.pkgLabel == "package-operator")
      · cases cp <;> simp [hf, hle] <;> (
          cases hh : hasController st o <;> cases hp : controlledByPrevious st o prev <;> simp [hh, hp] <;>
            (by_cases he : revNum o.rev = ow.rev <;> simp [he] <;> omega))
      · simp [hf, hle]

/-- Nothing to do / hands off: already ours, or the object belongs to a newer revision. -/
theorem check_skips_iff (st : Strategy) (ow : Owner) (force : Bool) (o : Obj) (prev : List Prev) (cp : CP)
    (hrev : o.rev ≠ .garbage) :
    check st ow force o prev cp = .skip ↔
      isController st (ow.ref true) o = true ∨ revNum o.rev > ow.rev := by
  unfold check
  by_cases hc : isController st (ow.ref true) o = true
  · simp [hc]
  · simp only [hc, hrev, Bool.false_eq_true, ↓reduceIte, false_or]
    by_cases hgt : revNum o.rev > ow.rev
    · simp [hgt]
    · simp only [hgt, ↓reduceIte]
      cases hf : (force || o.pkgLabel == "package-operator") <;> cases cp <;> simp <;>
        (repeat' split) <;> simp_all

/-- An unparsable revision annotation on a foreign object is a plain error (no adoption). -/
theorem check_garbage (st : Strategy) (ow : Owner) (force : Bool) (o : Obj) (prev : List Prev) (cp : CP)
    (hc : isController st (ow.ref true) o = false) (hrev : o.rev = .garbage) :
    check st ow force o prev cp = .errRevision := by
  simp [check, hc, hrev]

/-- **refused ⇒ untouched**: if the object exists, is not controlled by the owner and its
adoption is not permitted (or its revision is newer / unparsable), `reconcileObject` issues no
write at all and leaves the store as it is; unless the object belongs to a newer revision the
result is the adoption-refused error that is reported as CollisionDetected (or the plain error
for an unparsable annotation). -/
theorem reconcileObject_refused_no_write (cfg : Cfg) (ow : Owner) (prev : List Prev) (p : PObj) (w : World)
    (hst : w.started p.kind = true)     -- the read went through (`Watch` was called: `started_watch`)
    (cur : Obj) (hseen : seen w (keyOf cfg ow p) = some cur)
    (hnc : isController cfg.st (ow.ref true) cur = false)
    (hnp : ¬ Permitted cfg.st ow cfg.force cur prev p.cp ∨ cur.rev = .garbage) :
    let r := reconcileObject cfg ow prev p w
    r.1.events = w.events ∧ r.1.store.objs = w.store.objs ∧
    (cur.rev = .garbage → r.2 matches .err) ∧
    (cur.rev ≠ .garbage → revNum cur.rev ≤ ow.rev → r.2 matches .errCollision _) ∧
    (cur.rev ≠ .garbage → revNum cur.rev > ow.rev → r.2 matches .actual _) := by
  by_cases hg : cur.rev = .garbage
  · have := check_garbage cfg.st ow cfg.force cur prev p.cp hnc hg
    simp only [reconcileObject_started cfg ow prev p w hst, hseen, reconcileObjectWith, this]
    simp [hg]
  · have hnp' : ¬ Permitted cfg.st ow cfg.force cur prev p.cp := by
      cases hnp with
      | inl h => exact h
      | inr h => exact absurd h hg
    by_cases hgt : revNum cur.rev > ow.rev
    · have hs := (check_skips_iff cfg.st ow cfg.force cur prev p.cp hg).2 (Or.inr hgt)
      simp only [reconcileObject_started cfg ow prev p w hst, hseen, reconcileObjectWith, hs]
      simp [hnc, hg]; omega
    · have hle : revNum cur.rev ≤ ow.rev := by omega
      have hr := (check_refuses_iff cfg.st ow cfg.force cur prev p.cp hg).2 ⟨hnc, hle, hnp'⟩
      cases hr with
      | inl h => simp only [reconcileObject_started cfg ow prev p w hst, hseen, reconcileObjectWith, h]; simp [hg]; omega
      | inr h => simp only [reconcileObject_started cfg ow prev p w hst, hseen, reconcileObjectWith, h]; simp [hg]; omega

/-- `SetControllerReference` makes the owner a controller (when it succeeds). -/
theorem setControllerReference_isController (st : Strategy) (ow : Owner) (ns : String) (o o' : Obj)
    (h : setControllerReference st ow ns o = some o') : isController st (ow.ref true) o' = true := by
  have hup : ∀ (q : ORef → Bool) (l : List ORef), (upsert q (ow.ref true) l).any
      (fun x => sameObj (ow.ref true) x && x.ctrl) = true := by
    intro q l
    induction l with
    | nil => simp [upsert, sameObj, Owner.ref]
    | cons x xs ih =>
      simp only [upsert]; split
      · simp [sameObj, Owner.ref]
      · simp only [List.any_cons, ih, Bool.or_true]
  cases st with
  | native =>
    simp only [setControllerReference] at h
    split at h
    · cases h
    · split at h
      · split at h
        · cases h; simpa [isController, refs] using hup _ _
        · cases h
      · cases h; simpa [isController, refs] using hup _ _
  | annotation =>
    simp only [setControllerReference] at h
    split at h
    · cases h
    · cases h; simpa [isController, refs] using hup _ _

/-- **a permitted adoption is always carried out**: when the checker permits adoption and the
controller reference can be set, `reconcileObject` issues exactly one write — a server-side
apply on the object's key. -/
theorem reconcileObject_permitted_adopts (cfg : Cfg) (ow : Owner) (prev : List Prev) (p : PObj) (w : World)
    (hst : w.started p.kind = true)     -- the read went through (`Watch` was called: `started_watch`)
    (cur : Obj) (hseen : seen w (keyOf cfg ow p) = some cur)
    (hnc : isController cfg.st (ow.ref true) cur = false) (hg : cur.rev ≠ .garbage)
    (hp : Permitted cfg.st ow cfg.force cur prev p.cp)
    (upd : Obj)
    (hset : setControllerReference cfg.st ow (keyOf cfg ow p).ns
              (releaseController cfg.st { cur with rev := .num ow.rev }) = some upd) :
    let r := reconcileObject cfg ow prev p w
    ∃ created changed, r.1.events = w.events ++ [.apply (keyOf cfg ow p) created changed] := by
  have ha := (check_adopts_iff cfg.st ow cfg.force cur prev p.cp hg).2 ⟨hnc, hp⟩
  have hic := setControllerReference_isController _ _ _ _ _ hset
  simp only [reconcileObject_started cfg ow prev p w hst, hseen, reconcileObjectWith, ha]
  simp only [↓reduceIte, hset, hic]
  simp [World.apply, World.log, World.beforeWrite, World.tick, World.tick]

/-- What justifies a write on a phase object, relative to the state PKO read in that step:
the object did not exist, or the owner already controls it, or adoption is permitted. -/
def WriteJustified (cfg : Cfg) (ow : Owner) (prev : List Prev) (p : PObj) (w : World) : Prop :=
  match seen w (keyOf cfg ow p) with
  | none => True
  | some cur => isController cfg.st (ow.ref true) cur = true ∨
                (cur.rev ≠ .garbage ∧ Permitted cfg.st ow cfg.force cur prev p.cp)

/-- **every write is justified** (one object): a `reconcilePhaseObject` step either writes
nothing, or issues exactly one server-side apply on the object's own key, and then the state it
read justifies the write.  Holds for every world, i.e. whatever third parties did before. -/
theorem reconcilePhaseObject_writes (cfg : Cfg) (ow : Owner) (prev : List Prev) (p : PObj) (w : World) :
    let r := reconcilePhaseObject cfg ow prev p w
    r.1.events = w.events ∨
    (WriteJustified cfg ow prev p w ∧ ow.paused = false ∧
      ∃ created changed, r.1.events = w.events ++ [.apply (keyOf cfg ow p) created changed]) := by
  simp only [reconcilePhaseObject_eq]
  split
  · left; rfl
  · split
    · left; split <;> rfl
    · rename_i hp
      simp only [WriteJustified]
      cases hs : seen w (keyOf cfg ow p) with
      | none =>
        right
        simp [reconcileObjectWith, World.apply, World.log, World.beforeWrite, World.tick, World.tick]
        simpa using hp
      | some cur =>
        simp only [reconcileObjectWith]
        by_cases hg : cur.rev = .garbage
        · by_cases hc : isController cfg.st (ow.ref true) cur = true
          · -- already controller: skip, then patch
            have hsk : check cfg.st ow cfg.force cur prev p.cp = .skip := by simp [check, hc]
            right
            simp [hsk, hc, World.apply, World.log, World.beforeWrite, World.tick, World.tick]
            simpa using hp
          · have := check_garbage cfg.st ow cfg.force cur prev p.cp (by simpa using hc) hg
            left; simp [this]
        · by_cases hc : isController cfg.st (ow.ref true) cur = true
          · have hsk := (check_skips_iff cfg.st ow cfg.force cur prev p.cp hg).2 (Or.inl hc)
            right
            simp [hsk, hc, World.apply, World.log, World.beforeWrite, World.tick, World.tick]
            simpa using hp
          · have hc' : isController cfg.st (ow.ref true) cur = false := by simpa using hc
            by_cases hperm : Permitted cfg.st ow cfg.force cur prev p.cp
            · have ha := (check_adopts_iff cfg.st ow cfg.force cur prev p.cp hg).2 ⟨hc', hperm⟩
              simp only [ha, ↓reduceIte]
              cases hset : setControllerReference cfg.st ow (keyOf cfg ow p).ns
                  (releaseController cfg.st { cur with rev := .num ow.rev }) with
              | none => left; rfl
              | some upd =>
                have hic := setControllerReference_isController _ _ _ _ _ hset
                right
                simp [hic, World.apply, World.log, World.beforeWrite, World.tick, hg, hperm]
                simpa using hp
            · have h := reconcileObject_refused_no_write cfg ow prev p (w.watch ow p.kind)
                (started_watch w ow p.kind) cur (by simpa using hs) hc' (Or.inl hperm)
              left
              have := h.1
              simpa [reconcileObject_started cfg ow prev p (w.watch ow p.kind) (started_watch w ow p.kind),
                hs, reconcileObjectWith] using this

/-- The worlds in which the objects of a phase are processed, in order (the pass stops at the
first error). -/
def visits (cfg : Cfg) (ow : Owner) (prev : List Prev) : List PObj → World → List (PObj × World)
  | [], _ => []
  | p :: rest, w =>
    (p, w) :: match reconcilePhaseObject cfg ow prev p w with
      | (w', .actual _) => visits cfg ow prev rest w'
      | (w', .missing) => visits cfg ow prev rest w'
      | _ => []

/-- Events appended by the object loop of `ReconcilePhase`, characterised step by step. -/
theorem go_events (cfg : Cfg) (ow : Owner) (prev : List Prev) (ps : List PObj) (w : World) (failed : List String) :
    ∃ evs, (reconcilePhase.go cfg ow prev ps w failed).1.events = w.events ++ evs ∧
      ∀ e ∈ evs, ∃ pw ∈ visits cfg ow prev ps w, ∃ created changed,
        e = .apply (keyOf cfg ow pw.1) created changed ∧ WriteJustified cfg ow prev pw.1 pw.2 ∧ ow.paused = false := by
  induction ps generalizing w failed with
  | nil => exact ⟨[], by simp [reconcilePhase.go], by simp⟩
  | cons p rest ih =>
    have hstep := reconcilePhaseObject_writes cfg ow prev p w
    simp only [reconcilePhase.go, visits]
    -- events of the head step
    have hhead : ∃ ev0, (reconcilePhaseObject cfg ow prev p w).1.events = w.events ++ ev0 ∧
        ∀ e ∈ ev0, ∃ created changed, e = .apply (keyOf cfg ow p) created changed ∧
          WriteJustified cfg ow prev p w ∧ ow.paused = false := by
      cases hstep with
      | inl h => exact ⟨[], by simpa using h, by simp⟩
      | inr h =>
        obtain ⟨hj, hp, c, ch, he⟩ := h
        exact ⟨[.apply (keyOf cfg ow p) c ch], he, by intro e hm; simp at hm; exact ⟨c, ch, hm, hj, hp⟩⟩
    obtain ⟨ev0, he0, hj0⟩ := hhead
    cases hr : reconcilePhaseObject cfg ow prev p w with
    | mk w' res =>
      rw [hr] at he0
      simp only at he0
      cases res with
      | actual o =>
        obtain ⟨evs, hev, hj⟩ := ih w' (if probeOk o then failed else failed ++ [p.name])
        refine ⟨ev0 ++ evs, by simp [hev, he0, List.append_assoc], ?_⟩
        intro e hm
        rcases List.mem_append.1 hm with h | h
        · obtain ⟨c, ch, h1, h2, h3⟩ := hj0 e h
          exact ⟨(p, w), by simp, c, ch, h1, h2, h3⟩
        · obtain ⟨pw, hpw, rest'⟩ := hj e h
          exact ⟨pw, by simp [hpw], rest'⟩
      | missing =>
        obtain ⟨evs, hev, hj⟩ := ih w' (failed ++ [p.name])
        refine ⟨ev0 ++ evs, by simp [hev, he0, List.append_assoc], ?_⟩
        intro e hm
        rcases List.mem_append.1 hm with h | h
        · obtain ⟨c, ch, h1, h2, h3⟩ := hj0 e h
          exact ⟨(p, w), by simp, c, ch, h1, h2, h3⟩
        · obtain ⟨pw, hpw, rest'⟩ := hj e h
          exact ⟨pw, by simp [hpw], rest'⟩
      | errCollision r =>
        refine ⟨ev0, he0, ?_⟩
        intro e hm
        obtain ⟨c, ch, h1, h2, h3⟩ := hj0 e hm
        exact ⟨(p, w), by simp, c, ch, h1, h2, h3⟩
      | err =>
        refine ⟨ev0, he0, ?_⟩
        intro e hm
        obtain ⟨c, ch, h1, h2, h3⟩ := hj0 e hm
        exact ⟨(p, w), by simp, c, ch, h1, h2, h3⟩

/-- **C01, pass level.** Every write `ReconcilePhase` issues — for every phase, owner, previous
list, flavour, strategy, store and schedule of third-party operations — is a server-side apply
on the key of a listed object, and the state PKO read for that object in the same pass
justifies it: absent, already controlled by the owner, or adoption permitted.  A foreign object
whose adoption is not permitted is therefore never patched, re-owned or deleted by a rollout. -/
theorem reconcilePhase_writes_justified (cfg : Cfg) (ow : Owner) (prev : List Prev) (cls : String)
    (ps : List PObj) (w : World) :
    ∃ evs, (reconcilePhase cfg ow prev cls ps w).1.events = w.events ++ evs ∧
      ∀ e ∈ evs, ∃ pw ∈ visits cfg ow prev ps w, ∃ created changed,
        e = .apply (keyOf cfg ow pw.1) created changed ∧ WriteJustified cfg ow prev pw.1 pw.2 ∧ ow.paused = false := by
  simp only [reconcilePhase]
  split
  · exact ⟨[], by simp, by simp⟩
  · exact ⟨[], by simp, by simp⟩
  · exact go_events cfg ow prev ps w []

/-! ### The abstraction of the decision table

The correspondence harness enumerates the adoption decision by ABSTRACT rows (controller class ×
revision class × collisionProtection × forced) and realises every row by concrete objects that
differ in everything else (labels — in particular the package-instance label on owner and object —
annotations, kind / name / uid of an undeclared controller, further owners, position of the
controller reference, the ownership list the strategy does not read …).  The two theorems below
say that, for the MODEL, this is exact: the verdict is a function of the row.  The harness then
checks the Go code against that on every realisation (`IrrelevanceTable`, `TableX` in
harness/verifphase/gen.go). -/

/-- The verdict depends on the object only through the five predicates of the table, and on the
owner only through its reference and revision. -/
theorem check_depends_on_row_only (st : Strategy) (ow ow' : Owner) (force : Bool) (o o' : Obj)
    (prev : List Prev) (cp : CP)
    (how : ow.ref true = ow'.ref true) (hrevo : ow.rev = ow'.rev)
    (h1 : isController st (ow.ref true) o = isController st (ow.ref true) o')
    (h2 : o.rev = o'.rev)
    (h3 : (o.pkgLabel == "package-operator") = (o'.pkgLabel == "package-operator"))
    (h4 : hasController st o = hasController st o')
    (h5 : controlledByPrevious st o prev = controlledByPrevious st o' prev) :
    check st ow force o prev cp = check st ow' force o' prev cp := by
  unfold check
  rw [← how, ← hrevo, h1, h2, h3, h4, h5]

/-- The three ownership predicates look at the controller references of the list the strategy
reads and at nothing else: objects with the same controlling references (whatever their other
owners, their order relative to them, the other list, labels, annotations, payload, status) fall
into the same row. -/
theorem ownership_predicates_of_controllers (st : Strategy) (o o' : Obj)
    (h : (refs st o).filter (·.ctrl) = (refs st o').filter (·.ctrl)) :
    (∀ r, isController st r o = isController st r o') ∧
    hasController st o = hasController st o' ∧
    (∀ prev, controlledByPrevious st o prev = controlledByPrevious st o' prev) := by
  have key : ∀ (f : ORef → Bool) (l : List ORef), l.any (fun x => f x && x.ctrl) = (l.filter (·.ctrl)).any f := by
    intro f l
    induction l with
    | nil => rfl
    | cons x xs ih =>
      cases hx : x.ctrl <;> simp [List.filter, hx, ih]
  have hic : ∀ r, isController st r o = isController st r o' := by
    intro r
    simp only [isController, key (sameObj r), h]
  refine ⟨hic, ?_, ?_⟩
  · have := key (fun _ => true)
    simp only [Bool.true_and] at this
    simp only [hasController, this, h]
  · intro prev
    simp only [controlledByPrevious, hic]

/-- Non-vacuity: a foreign-controlled object under `Prevent` is refused, the same object under
`None` is adopted; an object controlled by a declared previous revision is adopted under `Prevent`. -/
example :
    let ow : Owner := ⟨pkoGroup, "ObjectSet", "ns1", "own", "u-own", 3, false, ""⟩
    let foreign : Obj := { (default : Obj) with owners := [⟨"apps", "Deployment", "dep", "u-dep", true⟩], rev := .num 1 }
    let mine : Obj := { (default : Obj) with owners := [⟨pkoGroup, "ObjectSet", "os1", "u-os1", true⟩], rev := .num 2 }
    let prev : List Prev := [⟨"ObjectSet", "os1", "u-os1", []⟩]
    check .native ow false foreign prev .prevent = .errNotOwned ∧
    check .native ow false foreign prev .none = .adopt ∧
    check .native ow false mine prev .prevent = .adopt ∧
    ¬ Permitted .native ow false foreign prev .prevent ∧ Permitted .native ow false mine prev .prevent := by
  decide

end Pko.Props.C01
