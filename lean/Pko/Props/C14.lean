/-
Property C14 — ObjectSlices are a transparent, lossless encoding of phase objects.

Theorems are about `Pko.Model.Chunk` (the model of chunking.go, deployment_reconciler.go,
objectsliceload_reconciler.go and the slice-related control flow of objectset_controller.go; tied to the Go code
by the correspondence harnesses `harness/C14/deploy` and `harness/C14/load`) and hold for EVERY phase content,
every object size, every limit, every chunking strategy, every hash function (collisions included), every
pre-existing set of slices and every history of reconciles / ObjectSet creations / ObjectSet deletions.

C14-a.  The unchanged code violated the "tears down exactly like inline" part: deletion and archival ran
`Teardown` without the slice loader (`teardown_without_load_counterexample`).  The model (`controller`) is the
code AFTER the fix proposed in findings/C14-a/fix.diff; `controllerPreFix` keeps the old control flow.

Phases that carry a class (delegated to an ObjectSetPhase controller) are part of the model of the ObjectSet
controller: the loader is class-agnostic (`load_class_agnostic`, `load_inverts_chunk_any_class`) and the
ObjectSetPhase object of a delegated phase is created with ALL objects of the phase, inline or sliced
(`sliced_eq_inline`, `sliced_delegated_phase_gets_all_objects`).  The line driver's hash is injective up to the REAL
FNV-32 collisions a scenario declares (`drv_hash_recognised`, `drv_declared_collision`, `drv_run_monitor_ok`).

Objects are equal only if equal in EVERY field of the ObjectSetObject (`Obj.fp`: fingerprint of collisionProtection,
conditionMappings and payload; the harnesses deep-compare what the real code hands back with the originals), and an
ObjectSet pins its slices as long as it EXISTS, whatever its `.spec.lifecycleState` (active / paused / archived) or
deletionTimestamp (`gc_keeps_referenced`, `gc_keeps_archived_referenced`, `gc_ignores_lifecycle`; histories include
lifecycle changes and deletions held back by the finalizer: `history_keeps_everything_loadable`).

API faults are part of the histories (`Op.deployF`, `reconcileF`): a `Reconcile` whose Get / pre-create / Update of
the ObjectDeployment fails with a non-conflict error, whose Update took effect although an error came back, whose
Update hit a 409 Conflict (re-Get + retry), or whose slice GC fails at either list or at the first Delete.  An
Update the API REJECTS ends the call: slice GC does not run, nothing is deleted and the API keeps its template
(`update_rejected_gc_does_not_run`); under every fault the call satisfies the monitored specification
(`deploy_fault_monitor_ok`), and histories with faults keep the template STORED in the API and every existing
ObjectSet loadable (`history_keeps_everything_loadable` covers `deployF`).

Not covered here (built separately on the shared in-memory API store): the differential of a sliced vs. inline
ObjectSet through the REAL phase reconciler (`sliced_rollout_eq_inline` of DESIGN.md is established here only at
the per-phase seam, `sliced_eq_inline`).
-/
import Pko.Model.Chunk
import Pko.Model.ChunkSpec
import Pko.Model.ChunkRun
import Pko.Lemmas.C14Chunk
import Pko.Lemmas.C14Store
import Pko.Lemmas.C14Deploy
import Pko.Lemmas.C14Fault
import Pko.Lemmas.C14Load
import Pko.Lemmas.C14Term
import Pko.Drv.C14

namespace Pko.Props.C14
open Pko.Model.Chunk Pko.Model.ChunkSpec Pko.Model.ChunkRun Pko.Lemmas.C14

/-! ## Chunkers -/

/-- **binpack_concat**: whenever BinpackNextFit chunks at all, the in-order concatenation of the chunks is the
original object list (nothing lost, duplicated or reordered). -/
theorem binpack_concat (limit : Nat) (objs : List Obj) (cs : Chunks)
    (h : binpackChunk limit objs = some cs) (hne : cs ≠ []) : cs.flatten = objs :=
  chunk_concat (strat := .binpack) h hne

/-- **binpack_error_iff**: the chunker fails exactly when some object cannot be JSON-measured. -/
theorem binpack_error_iff (limit : Nat) (objs : List Obj) :
    binpackChunk limit objs = none ↔ ∃ o ∈ objs, o.size = none := by
  simp only [binpackChunk]
  cases hl : binpackLoop limit ⟨[], [], 0⟩ objs with
  | none => simp [← loop_none_iff (limit := limit) (s := ⟨[], [], 0⟩), hl]
  | some s =>
    have : ¬ ∃ o ∈ objs, o.size = none := by
      rw [← loop_none_iff (limit := limit) (s := ⟨[], [], 0⟩), hl]; simp
    simp only [this, iff_false]
    by_cases h1 : s.chunks.isEmpty <;> by_cases h2 : s.cur.isEmpty <;> simp [h1, h2]

/-- **binpack_bypass**: BinpackNextFit returns no chunks (the phase stays inline, `return nil, nil`) exactly
when every object is measurable and nothing overflows: walking the objects in order, no object pushes a
non-empty running total over the limit.  Stated exactly as the code behaves — in particular a phase consisting
of one single object larger than the limit is NOT chunked (there is nothing to split), and objects of size 0
never open a chunk. -/
theorem binpack_bypass (limit : Nat) (objs : List Obj) :
    binpackChunk limit objs = some [] ↔ (∀ o ∈ objs, o.size ≠ none) ∧ overflows limit objs = false := by
  simp only [binpackChunk]
  cases hl : binpackLoop limit ⟨[], [], 0⟩ objs with
  | none =>
    have := (loop_none_iff (limit := limit) (s := ⟨[], [], 0⟩) (objs := objs)).mp hl
    obtain ⟨o, ho, hs⟩ := this
    constructor
    · intro h; cases h
    · intro h; exact absurd hs (h.1 o ho)
  | some s =>
    have hall : ∀ o ∈ objs, o.size ≠ none := by
      intro o ho hs
      have := (loop_none_iff (limit := limit) (s := ⟨[], [], 0⟩) (objs := objs)).mpr ⟨o, ho, hs⟩
      rw [hl] at this; cases this
    have hb := loop_bypass (limit := limit) (s := ⟨[], [], 0⟩) (by simp [total]) hl
    simp only [true_and] at hb
    have hi := loop_inv (binv_init limit) hl
    rw [overflows_eq]
    by_cases h1 : s.chunks.isEmpty
    · have h1' : s.chunks = [] := by simpa using h1
      simp only [h1, ↓reduceIte, true_iff]
      exact ⟨hall, hb.mp h1'⟩
    · have h1' : s.chunks ≠ [] := by simpa using h1
      have hne : ¬ overflowsFrom limit 0 objs = false := fun h => h1' (hb.mpr h)
      by_cases h2 : s.cur.isEmpty
      · simp only [h1, h2]
        simp [h1', hne]
      · simp only [h1, h2]
        simp [hne]

/-- **binpack_bypass_pos**: for real objects (JSON length > 0) the bypass condition has a closed form: at most one
object, or everything fits into one chunk. -/
theorem binpack_bypass_pos (limit : Nat) (objs : List Obj) (hp : ∀ o ∈ objs, ∃ n, o.size = some n ∧ 0 < n) :
    binpackChunk limit objs = some [] ↔ objs.length ≤ 1 ∨ total objs ≤ limit := by
  rw [binpack_bypass, overflows_eq, overflowsFrom_zero_pos]
  · constructor
    · exact fun h => h.2
    · intro h
      refine ⟨?_, h⟩
      intro o ho hs
      obtain ⟨n, hn, _⟩ := hp o ho
      rw [hn] at hs; cases hs
  · intro o ho
    obtain ⟨n, hn, hpos⟩ := hp o ho
    simp [objSize, hn, hpos]

/-- **chunk_nonempty**: no strategy ever produces an empty chunk (an empty ObjectSlice). -/
theorem chunk_nonempty (limit : Nat) (strat : Strategy) (objs : List Obj) (cs : Chunks)
    (h : chunk limit strat objs = some cs) : ∀ c ∈ cs, c ≠ [] := by
  cases strat with
  | noop => simp [chunk, noopChunk] at h; subst h; intro c hc; cases hc
  | each =>
    simp [chunk, eachChunk] at h; subst h
    intro c hc; simp at hc; obtain ⟨o, _, rfl⟩ := hc; simp
  | binpack =>
    simp only [chunk, binpackChunk] at h
    cases hl : binpackLoop limit ⟨[], [], 0⟩ objs with
    | none => simp [hl] at h
    | some s =>
      have hi := loop_inv (binv_init limit) hl
      simp only [hl] at h
      by_cases h1 : s.chunks.isEmpty
      · simp [h1] at h; subst h; intro c hc; cases hc
      · by_cases h2 : s.cur.isEmpty
        · simp only [h1, h2] at h; simp at h; subst h; exact hi.nonempty
        · simp only [h1, h2] at h; simp at h; subst h
          intro c hc
          simp at hc
          rcases hc with hc | rfl
          · exact hi.nonempty c hc
          · simpa using h2

/-- **chunk_within_limit_partial**: every BinpackNextFit chunk stays within the limit UNLESS it contains an
object that alone exceeds the limit.  The unconditional statement "every chunk ≤ limit" is false by design
(next-fit cannot split an object; see the `example` below), hence `_partial`; nothing in C14's sentence
depends on it. -/
theorem chunk_within_limit_partial (limit : Nat) (objs : List Obj) (cs : Chunks)
    (h : binpackChunk limit objs = some cs) :
    ∀ c ∈ cs, total c ≤ limit ∨ ∃ o ∈ c, limit < objSize o := by
  simp only [binpackChunk] at h
  cases hl : binpackLoop limit ⟨[], [], 0⟩ objs with
  | none => simp [hl] at h
  | some s =>
    have hi := loop_inv (binv_init limit) hl
    simp only [hl] at h
    by_cases h1 : s.chunks.isEmpty
    · simp [h1] at h; subst h; intro c hc; cases hc
    · by_cases h2 : s.cur.isEmpty
      · simp only [h1, h2] at h; simp at h; subst h; exact hi.within
      · simp only [h1, h2] at h; simp at h; subst h
        intro c hc
        simp at hc
        rcases hc with hc | rfl
        · exact hi.within c hc
        · exact hi.curWithin

/-- A chunk may exceed the limit when a single object does (limit 10, sizes 3, 50, 3). -/
example : binpackChunk 10 [⟨0, some 3, 0⟩, ⟨1, some 50, 0⟩, ⟨2, some 3, 0⟩] = some [[⟨0, some 3, 0⟩], [⟨1, some 50, 0⟩], [⟨2, some 3, 0⟩]] := by
  decide

/-- **each_concat**: EachObject puts every object into its own chunk, in order. -/
theorem each_concat (objs : List Obj) :
    ∃ cs, eachChunk objs = some cs ∧ cs.flatten = objs ∧ cs.length = objs.length ∧ ∀ c ∈ cs, c.length = 1 := by
  refine ⟨objs.map fun o => [o], rfl, flatten_map_singleton objs, by simp, ?_⟩
  intro c hc; simp at hc; obtain ⟨o, _, rfl⟩ := hc; rfl

/-- **noop_nil**: NoOp never chunks. -/
theorem noop_nil (objs : List Obj) : noopChunk objs = some [] := rfl

/-- **chunk_concat_all**: for every strategy, chunks ≠ [] → concatenation = original. -/
theorem chunk_concat_all (limit : Nat) (strat : Strategy) (objs : List Obj) (cs : Chunks)
    (h : chunk limit strat objs = some cs) (hne : cs ≠ []) : cs.flatten = objs :=
  chunk_concat h hne

/-- **chunk_monitor_ok** (monitor vs. model, chunkers): what the model's chunker returns satisfies the whole
chunk specification `chunkOk` the monitor evaluates on implementation output. -/
theorem chunk_monitor_ok (limit : Nat) (strat : Strategy) (objs : List Obj) :
    chunkOk limit strat objs (observeChunk (chunk limit strat objs)) = true := by
  cases hc : chunk limit strat objs with
  | none =>
    cases strat with
    | noop => simp [chunk, noopChunk] at hc
    | each => simp [chunk, eachChunk] at hc
    | binpack =>
      obtain ⟨o, ho, hs⟩ := (binpack_error_iff limit objs).mp hc
      simp only [observeChunk, chunkOk, beq_self_eq_true, Bool.true_and, List.any_eq_true]
      exact ⟨o, ho, by simp [hs]⟩
  | some cs =>
    cases cs with
    | nil =>
      cases strat with
      | noop => rfl
      | each =>
        simp only [chunk, eachChunk, Option.some.injEq, List.map_eq_nil_iff] at hc
        simp [observeChunk, chunkOk, hc]
      | binpack =>
        obtain ⟨h1, h2⟩ := (binpack_bypass limit objs).mp hc
        simp only [observeChunk, chunkOk, Bool.and_eq_true, List.all_eq_true, Bool.not_eq_eq_eq_not, Bool.not_true]
        refine ⟨fun o ho => ?_, h2⟩
        cases hs : o.size with
        | none => exact absurd hs (h1 o ho)
        | some _ => rfl
    | cons c cs =>
      have hflat := chunk_concat hc (by simp)
      have hne := chunk_nonempty limit strat objs _ hc
      have hbase : (!(c :: cs).isEmpty && decide ((c :: cs).flatten = objs) &&
          (c :: cs).all fun c => !c.isEmpty) = true := by
        simp only [List.isEmpty_cons, Bool.not_false, Bool.true_and, Bool.and_eq_true, decide_eq_true_eq,
          List.all_eq_true, Bool.not_eq_eq_eq_not, Bool.not_true]
        refine ⟨hflat, fun x hx => ?_⟩
        cases x with
        | nil => exact absurd rfl (hne [] hx)
        | cons _ _ => rfl
      simp only [observeChunk, chunkOk, chunksOk, hbase, Bool.true_and]
      cases strat with
      | noop => simp [chunk, noopChunk] at hc
      | each =>
        simp only [chunk, eachChunk, Option.some.injEq] at hc
        simp only [List.all_eq_true, beq_iff_eq]
        intro x hx
        rw [← hc] at hx
        simp at hx; obtain ⟨o, _, rfl⟩ := hx; rfl
      | binpack =>
        have herr : ¬ ∃ o ∈ objs, o.size = none := by
          rw [← binpack_error_iff limit objs]; simp [chunk] at hc; simp [hc]
        have hov : overflows limit objs = true := by
          cases hov : overflows limit objs with
          | true => rfl
          | false =>
            have := (binpack_bypass limit objs).mpr ⟨fun o ho hs => herr ⟨o, ho, hs⟩, hov⟩
            simp [chunk] at hc; rw [hc] at this; cases this
        have hw := chunk_within_limit_partial limit objs _ hc
        simp only [Bool.and_eq_true, List.all_eq_true, hov, and_true, Bool.or_eq_true, decide_eq_true_eq,
          List.any_eq_true]
        refine ⟨fun o ho => ?_, fun x hx => ?_⟩
        · cases hs : o.size with
          | none => exact absurd ⟨o, ho, hs⟩ herr
          | some _ => rfl
        · rcases hw x hx with h | ⟨o, ho, h⟩
          · exact Or.inl h
          · exact Or.inr ⟨o, ho, h⟩

/-! ## Slice names: function of content, collisions never reuse a name for different content -/

section
variable {Name : Type} [DecidableEq Name]

/-- **slice_name_function_of_content** (1/2): the name `reconcileSlice` settles on is `hash content k` for the
LEAST collision count `k` whose name is not taken by something else; `k`, hence the name, is determined by the
content and the existing slices alone. -/
theorem slice_name_function_of_content (hash : List Obj → Nat → Name) (st st' : Store Name)
    (content : List Obj) (n : Name) (h : reconcileSlice hash st content = some (n, st')) :
    ∃ k, n = hash content k ∧
      (∀ j, j < k → ∃ s, getSlice st (hash content j) = some s ∧ ¬(s.ctl = true ∧ s.objects = content)) ∧
      (getSlice st n = none ∨ ∃ s, getSlice st n = some s ∧ s.ctl = true ∧ s.objects = content) := by
  obtain ⟨k, _, hn, hb, hslot⟩ := (reconcileSlice_spec h).least
  exact ⟨k, hn, fun j hj => hb j (Nat.zero_le _) hj, hslot⟩

/-- **slice_name_function_of_content** (2/2): equal content, equal name — reconciling the same content again,
against the store as it is afterwards or any later store in which the existing slices are unchanged, settles on
the same name.  (Two chunks with equal content share one ObjectSlice; a later reconcile of an unchanged phase
re-uses its slices.) -/
theorem same_content_same_name (hash : List Obj → Nat → Name) (st st1 st2 st3 : Store Name)
    (content : List Obj) (n m : Name)
    (h1 : reconcileSlice hash st content = some (n, st1))
    (hext : ∀ x s, getSlice st1 x = some s → getSlice st2 x = some s)
    (h2 : reconcileSlice hash st2 content = some (m, st3)) : m = n := by
  have s1 := (reconcileSlice_spec h1).settled.ext hext
  have sp2 := reconcileSlice_spec h2
  exact Settled.unique (sp2.settled) (s1.ext sp2.ext)

/-- **collision_never_reuses_different_content**: `reconcileSlice` never changes or re-purposes an existing
slice: every slice that existed is still there unchanged; the name it returns holds exactly the wanted content
and is controlled by the deployment; and if that name was already in use before, it already held exactly this
content (and was ours) — a name taken by different content, or by somebody else, is skipped by bumping the
collision count. -/
theorem collision_never_reuses_different_content (hash : List Obj → Nat → Name) (st st' : Store Name)
    (content : List Obj) (n : Name) (h : reconcileSlice hash st content = some (n, st')) :
    (∀ m s, getSlice st m = some s → getSlice st' m = some s) ∧
    (∃ s, getSlice st' n = some s ∧ s.objects = content ∧ s.ctl = true) ∧
    (∀ s, getSlice st n = some s → s.objects = content ∧ s.ctl = true) ∧
    (∀ m, m ≠ n → getSlice st' m = getSlice st m) := by
  have sp := reconcileSlice_spec h
  refine ⟨sp.ext, ?_, ?_, sp.only⟩
  · obtain ⟨s, hs, hc, ho⟩ := sp.holds; exact ⟨s, hs, ho, hc⟩
  · intro s hs
    obtain ⟨_, _, _, _, hslot⟩ := sp.least
    rcases hslot with hnone | ⟨s', hs', hc, ho⟩
    · rw [hnone] at hs; cases hs
    · rw [hs] at hs'; cases hs'; exact ⟨ho, hc⟩

/-- The collision path is reachable and terminates as soon as a free (or matching) name comes up: if the names
for counts `< k` are all blocked and the name for `k` is free, `reconcileSlice` (given enough fuel) creates
the slice under `hash content k`. -/
theorem reconcileSlice_least (hash : List Obj → Nat → Name) (st : Store Name) (content : List Obj) :
    ∀ (k c fuel : Nat), c ≤ k → k - c < fuel →
    (∀ j, c ≤ j → j < k → ∃ s, getSlice st (hash content j) = some s ∧ ¬(s.ctl = true ∧ s.objects = content)) →
    getSlice st (hash content k) = none →
    ∃ st', reconcileSliceFrom hash fuel c st content = some (hash content k, st') := by
  intro k c fuel
  induction fuel generalizing c with
  | zero => intro _ h; omega
  | succ fuel ih =>
    intro hck hf hb hfree
    by_cases hc : c = k
    · subst hc
      simp [reconcileSliceFrom, attempt, hfree]
    · obtain ⟨s, hs, hn⟩ := hb c (Nat.le_refl _) (by omega)
      have hcol : (s.ctl && s.objects == content) = false := by
        cases h : (s.ctl && s.objects == content) with
        | false => rfl
        | true => simp only [Bool.and_eq_true, beq_iff_eq] at h; exact absurd h hn
      simp only [reconcileSliceFrom, attempt, hs, hcol, Bool.false_eq_true, ↓reduceIte]
      exact ih (c + 1) (by omega) (by omega) (fun j h1 h2 => hb j (by omega) h2) hfree

/-- **reconcileSlice_terminates_of_injective**: the collision loop (which has no bound in the code) always ends —
within `number of existing slices + 1` attempts, the model's fuel — for every hash that never repeats a name
for the same content under different collision counts. -/
theorem reconcileSlice_terminates_of_injective (hash : List Obj → Nat → Name) (st : Store Name)
    (content : List Obj) (hinj : ∀ i j, hash content i = hash content j → i = j) :
    ∃ n st', reconcileSlice hash st content = some (n, st') :=
  reconcileSlice_terminates hash st content hinj

/-! ## Loading inverts chunking -/

/-- **load_inverts_chunk**: for every phase, strategy, limit, hash and pre-existing slices (collisions
included): after `chunkPhase`, running the real loader's control flow on the resulting phase against the
resulting slices succeeds and yields exactly the original objects, in order. -/
theorem load_inverts_chunk (limit : Nat) (strat : Strategy) (hash : List Obj → Nat → Name)
    (st st' : Store Name) (objs : List Obj) (po : Phase Name)
    (h : chunkPhase limit strat hash st objs = some (st', some po)) :
    ∃ st'' upd, loadPhases st' [] [po] = (st'', upd, [objs], true) := by
  obtain ⟨_, _, hp⟩ := chunkPhase_spec (fun cs => chunk_concat) h
  obtain ⟨hdec, _⟩ := hp po rfl
  cases hl : loadPhases st' [] [po] with
  | mk st'' rest =>
    obtain ⟨upd, phases, ok⟩ := rest
    obtain ⟨_, _, hres⟩ := loadPhases_spec [po] st' [] st'' upd phases ok (LInv.init st') hl
    simp only [decode, hdec] at hres
    obtain ⟨rfl, rfl, _⟩ := hres
    exact ⟨st'', upd, rfl⟩

/-- **load_inverts_reconcile**: the same for a whole `Reconcile` — after a successful reconcile (all phases
chunked, template updated, garbage collected), loading the new template against the slices that exist now
gives back exactly the desired phases. -/
theorem load_inverts_reconcile (limit : Nat) (strat : Strategy) (hash : List Obj → Nat → Name)
    (w w' : World Name) (desired : List (List Obj)) (del : List Name)
    (h : reconcile limit strat hash w desired = some (w', true, del)) :
    ∃ tmpl st'' upd, w'.deploy = some tmpl ∧ loadPhases w'.slices [] tmpl = (st'', upd, desired, true) := by
  have hok := reconcile_deployOk (fun _ _ => true) (fun _ _ => rfl) h
  simp only [deployOk, Bool.and_eq_true] at hok
  have hl := hok.1.1.1.1.1
  simp only [lossless, Bool.not_true, Bool.false_or] at hl
  cases hd : w'.deploy with
  | none => simp [hd] at hl
  | some tmpl =>
    simp only [hd, Bool.and_eq_true, decide_eq_true_eq] at hl
    cases hlp : loadPhases w'.slices [] tmpl with
    | mk st'' rest =>
      obtain ⟨upd, phases, ok⟩ := rest
      obtain ⟨_, _, hres⟩ := loadPhases_spec tmpl w'.slices [] st'' upd phases ok (LInv.init _) hlp
      simp only [hl.1] at hres
      obtain ⟨rfl, rfl, _⟩ := hres
      exact ⟨tmpl, st'', upd, rfl, hlp⟩

/-- **load_monitor_ok** (monitor vs. model, loader): the model of the loader satisfies `loadOk`: it succeeds
exactly when every referenced slice exists, then returns inline ++ slices in order for every phase, and leaves
every referenced slice owned by the ObjectSet. -/
theorem load_monitor_ok (st : Store Name) (t : Template Name) :
    let r := loadPhases st [] t
    loadOk st t { ok := r.2.2.2, phases := r.2.2.1, updates := r.2.1 } = true := by
  intro r
  cases hl : loadPhases st [] t with
  | mk st' rest =>
    obtain ⟨upd, phases, ok⟩ := rest
    obtain ⟨_, _, hres⟩ := loadPhases_spec t st [] st' upd phases ok (LInv.init st) hl
    have hr : r = (st', upd, phases, ok) := hl
    simp only [hr, loadOk]
    cases hd : decode st t with
    | none => simp only [hd] at hres; simp [hres]
    | some d =>
      simp only [hd] at hres
      obtain ⟨rfl, rfl, hown⟩ := hres
      simp only [Bool.true_and, decide_true, List.all_eq_true, Bool.or_eq_true, List.contains_eq_mem,
        decide_eq_true_eq]
      intro n hn
      rcases hown n hn with ⟨s, hs, ho⟩ | h
      · left; simp [hs, ho]
      · right; exact h

/-! ## Garbage collection -/

/-- **gc_keeps_referenced**: a slice deleted by `sliceGarbageCollection` is referenced neither by the deployment
template nor by ANY listed ObjectSet — whatever its `.spec.lifecycleState` (active, paused, archived) and whether
or not its deletionTimestamp is set: `os` ranges over all of `objectSets`, nothing is assumed about `os.life` /
`os.deleting` — (and it carried the owner label, i.e. was in GC scope). -/
theorem gc_keeps_referenced (st : Store Name) (tmpl : Template Name) (objectSets : List (OSet Name))
    (n : Name) (h : n ∈ gcDeletes st tmpl objectSets) :
    n ∉ refs tmpl ∧ (∀ os ∈ objectSets, n ∉ refs os.phases) ∧ ∃ s, getSlice st n = some s ∧ s.lbl = true := by
  obtain ⟨_, h2, h3, h4⟩ := mem_gcDeletes h
  refine ⟨h3, ?_, h2⟩
  intro os hos hn
  exact h4 (List.mem_flatMap.mpr ⟨os, hos, hn⟩)

/-- **gc_keeps_archived_referenced** (the clause seeded defect C14-3 breaks, spelled out): a revision that is
Archived in spec — or paused, or being deleted — but still EXISTS keeps every slice it references: the ObjectSet
controller loads them on every teardown attempt until the teardown is done. -/
theorem gc_keeps_archived_referenced (st : Store Name) (tmpl : Template Name) (objectSets : List (OSet Name))
    (ph : Template Name) (l : Life) (dl : Bool)
    (hos : ({ phases := ph, life := l, deleting := dl } : OSet Name) ∈ objectSets) (n : Name) (hn : n ∈ refs ph) :
    n ∉ gcDeletes st tmpl objectSets :=
  fun h => (gc_keeps_referenced st tmpl objectSets n h).2.1 _ hos hn

/-- `sliceGarbageCollection` does not look at lifecycle / deletion state at all: changing them changes nothing. -/
theorem gc_ignores_lifecycle (st : Store Name) (tmpl : Template Name) (objectSets : List (OSet Name))
    (f : OSet Name → OSet Name) (hf : ∀ os, (f os).phases = os.phases) :
    gcDeletes st tmpl (objectSets.map f) = gcDeletes st tmpl objectSets := by
  have : (objectSets.map f).flatMap osRefs = objectSets.flatMap osRefs := by
    induction objectSets with
    | nil => rfl
    | cons a l ih => simp only [List.map_cons, List.flatMap_cons, ih, osRefs, hf]
  simp only [gcDeletes, this]

/-- **reconcile_keeps_objectsets_loadable**: a `Reconcile` (successful or failed) never invalidates an existing
ObjectSet: whatever an ObjectSet decoded to before, it decodes to the same objects afterwards — its slices
are neither deleted by GC nor modified by the collision handling. -/
theorem reconcile_keeps_objectsets_loadable (limit : Nat) (strat : Strategy) (hash : List Obj → Nat → Name)
    (w w' : World Name) (desired : List (List Obj)) (ok : Bool) (del : List Name)
    (h : reconcile limit strat hash w desired = some (w', ok, del))
    (os : OSet Name) (hos : os ∈ w.objectSets) (d : List (List Obj))
    (hd : decode w.slices os.phases = some d) : decode w'.slices os.phases = some d := by
  obtain ⟨st1, r, hc, hcase⟩ := reconcile_cases h
  obtain ⟨ext, _, _⟩ := chunkPhases_spec (fun objs cs => chunk_concat) hc
  have h1 := decode_ext ext hd
  rcases hcase with ⟨_, _, _, _, hs, _⟩ | ⟨tmpl, _, _, hdel, _, hs, _⟩
  · rw [hs]; exact h1
  · rw [hs, decode_congr (st := st1)]
    · exact h1
    · intro n hn
      rw [get_erase]
      have : n ∉ del := by
        intro hnd
        rw [hdel] at hnd
        exact (gc_keeps_referenced st1 tmpl w.objectSets n hnd).2.1 os hos hn
      simp [this]

/-- Every existing ObjectSet — in whatever lifecycle / deletion state — and the deployment template can be loaded. -/
def Loadable (w : World Name) : Prop :=
  (∀ os ∈ w.objectSets, ∃ d, decode w.slices os.phases = some d) ∧
  (∀ t, w.deploy = some t → ∃ d, decode w.slices t = some d)

/-- One step of a history (a stuck collision loop leaves the world as it is). -/
def hstep (limit : Nat) (strat : Strategy) (hash : List Obj → Nat → Name) (w : World Name) (op : Op) : World Name :=
  (modelStep limit strat hash w op).1

theorem hstep_loadable (limit : Nat) (strat : Strategy) (hash : List Obj → Nat → Name) (w : World Name) (op : Op)
    (hw : Loadable w) : Loadable (hstep limit strat hash w op) := by
  cases op with
  | chunk phases => exact hw
  | deploy desired =>
    simp only [hstep, modelStep]
    cases hr : reconcile limit strat hash w desired with
    | none => exact hw
    | some q =>
      obtain ⟨w', ok, del⟩ := q
      simp only
      obtain ⟨st1, r, hc, hcase⟩ := reconcile_cases hr
      have hsets : w'.objectSets = w.objectSets := by
        rcases hcase with ⟨_, _, _, _, _, h⟩ | ⟨_, _, _, _, _, _, h⟩ <;> exact h
      refine ⟨?_, ?_⟩
      · intro os hos
        rw [hsets] at hos
        obtain ⟨d, hd⟩ := hw.1 os hos
        exact ⟨d, reconcile_keeps_objectsets_loadable limit strat hash w w' desired ok del hr os hos d hd⟩
      · intro t ht
        rcases hcase with ⟨_, _, _, hdep, hs, _⟩ | ⟨tmpl, _, rfl, _, hdep, _, _⟩
        · obtain ⟨ext, _, _⟩ := chunkPhases_spec (fun objs cs => chunk_concat) hc
          rw [hdep] at ht; cases ht
          rw [hs]
          cases hwd : w.deploy with
          | none => exact ⟨[], rfl⟩
          | some t0 =>
            obtain ⟨d, hd⟩ := hw.2 t0 hwd
            exact ⟨d, by simpa using decode_ext ext hd⟩
        · obtain ⟨tmpl', st'', upd, hd', hl⟩ := load_inverts_reconcile limit strat hash w w' desired del hr
          obtain rfl : tmpl' = t := by rw [hd'] at ht; exact Option.some.inj ht
          obtain ⟨_, _, hres⟩ := loadPhases_spec tmpl' w'.slices [] st'' upd desired true (LInv.init _) hl
          cases hdd : decode w'.slices tmpl' with
          | none => simp [hdd] at hres
          | some d => exact ⟨d, rfl⟩
  | deployF f desired =>
    simp only [hstep, modelStep]
    cases hr : reconcileF limit strat hash f w desired with
    | none => exact hw
    | some q =>
      obtain ⟨w', ok, del⟩ := q
      simp only
      refine ⟨?_, ?_⟩
      · intro os hos
        have hsets : w'.objectSets = w.objectSets := by
          rcases reconcileF_cases hr with ⟨rfl, _⟩ | ⟨_, _, _, h, _⟩
          · rfl
          · exact h
        rw [hsets] at hos
        obtain ⟨d, hd⟩ := hw.1 os hos
        exact ⟨d, reconcileF_keeps_objectsets_loadable hr os hos d hd⟩
      · -- the template stored in the API: `storedLoadable` of the monitored specification
        intro t ht
        have hok := reconcileF_deployOkF (fun _ _ => true) (fun _ _ => rfl) hr
        simp only [deployOkF, Bool.and_eq_true] at hok
        have hsl := hok.2
        simp only [storedLoadable, ht, Option.getD_some, Bool.or_eq_true, Bool.not_eq_eq_eq_not, Bool.not_true] at hsl
        have hpre : (decode w.slices (w.deploy.getD [])).isSome = true := by
          cases hwd : w.deploy with
          | none => rfl
          | some t0 =>
            obtain ⟨d, hd⟩ := hw.2 t0 hwd
            simp [hd]
        rcases hsl with hsl | hsl
        · rw [hpre] at hsl; cases hsl
        · exact Option.isSome_iff_exists.mp hsl
  | snap =>
    simp only [hstep, modelStep, snap]
    cases hd : w.deploy with
    | none => exact hw
    | some t =>
      refine ⟨?_, fun t' ht' => hw.2 t' (by simpa [hd] using ht')⟩
      intro os hos
      simp only [List.mem_append, List.mem_singleton] at hos
      rcases hos with hos | rfl
      · exact hw.1 os hos
      · exact hw.2 t hd
  | delos i =>
    simp only [hstep, modelStep, delos]
    exact ⟨fun os hos => hw.1 os (List.mem_of_mem_eraseIdx hos), hw.2⟩
  | life i l =>
    simp only [hstep, modelStep, setLife]
    refine ⟨fun os hos => ?_, hw.2⟩
    rcases mem_modifyAt _ _ _ _ hos with h | ⟨y, hy, rfl⟩
    · exact hw.1 os h
    · exact hw.1 y hy
  | markdel i =>
    simp only [hstep, modelStep, markDeleting]
    refine ⟨fun os hos => ?_, hw.2⟩
    rcases mem_modifyAt _ _ _ _ hos with h | ⟨y, hy, rfl⟩
    · exact hw.1 os h
    · exact hw.1 y hy

/-- **history_keeps_everything_loadable**: for all histories of package updates (each with its own desired
phases, adding and dropping slices), ObjectSet creations, lifecycle changes (archival, pausing, back to active),
deletions that are held back by the finalizer and ObjectSets finally going away, with any strategy, limit, hash
and initial slices: as long as things start loadable, every EXISTING ObjectSet — archived-in-spec and
being-deleted ones included — and the deployment template can always be loaded — slice GC never pulls a slice
out from under them. -/
theorem history_keeps_everything_loadable (limit : Nat) (strat : Strategy) (hash : List Obj → Nat → Name)
    (ops : List Op) (w : World Name) (hw : Loadable w) :
    Loadable (ops.foldl (hstep limit strat hash) w) := by
  induction ops generalizing w with
  | nil => exact hw
  | cons op ops ih => exact ih _ (hstep_loadable limit strat hash w op hw)

/-! ## Monitor vs. model -/

/-- **deploy_monitor_ok** (monitor vs. model, one reconcile): whatever the world, a finished `Reconcile` of the
model satisfies the complete deploy specification the monitor evaluates (`lossless`, `failSafe`,
`namedByContent`, `noReuse`, `sameContentSameName`, `gcSafe`). -/
theorem deploy_monitor_ok (limit : Nat) (strat : Strategy) (hash : List Obj → Nat → Name)
    (isHashOf : Name → List Obj → Bool) (hIs : ∀ X k, isHashOf (hash X k) X = true)
    (w w' : World Name) (desired : List (List Obj)) (ok : Bool) (del : List Name)
    (h : reconcile limit strat hash w desired = some (w', ok, del)) :
    deployOk isHashOf (stateOf w) desired ⟨ok, w'.deploy, del, w'.slices⟩ = true :=
  reconcile_deployOk isHashOf hIs h

/-- **deploy_fault_monitor_ok** (monitor vs. model, one reconcile hit by an API fault): whatever the world and
the fault, a finished `Reconcile` of the model satisfies the specification the monitor evaluates for such a call
(`deployOkF`: `lossless`, `failSafeF`, `namedByContent`, `noReuse`, `sameContentSameName`, `gcSafe`,
`storedLoadable`). -/
theorem deploy_fault_monitor_ok (limit : Nat) (strat : Strategy) (hash : List Obj → Nat → Name)
    (isHashOf : Name → List Obj → Bool) (hIs : ∀ X k, isHashOf (hash X k) X = true) (f : DFault)
    (w w' : World Name) (desired : List (List Obj)) (ok : Bool) (del : List Name)
    (h : reconcileF limit strat hash f w desired = some (w', ok, del)) :
    deployOkF isHashOf f (stateOf w) desired ⟨ok, w'.deploy, del, w'.slices⟩ = true :=
  reconcileF_deployOkF isHashOf hIs h

/-- **update_rejected_gc_does_not_run** (the clause seeded defect C14-5 breaks): when the API rejects the Update of
the ObjectDeployment with a non-conflict error — at once or on the retry after a 409 Conflict — `Reconcile` fails,
slice garbage collection does not run (no Delete), the template stored in the API is the one stored before (an
absent ObjectDeployment was pre-created empty) and every slice that existed still exists unchanged: whatever the
STORED template and the existing ObjectSets reference is still there, for every world, hash and desired phases. -/
theorem update_rejected_gc_does_not_run (limit : Nat) (strat : Strategy) (hash : List Obj → Nat → Name)
    (f : DFault) (hf : f = .update ∨ f = .conflictUpdate)
    (w w' : World Name) (desired : List (List Obj)) (ok : Bool) (del : List Name)
    (h : reconcileF limit strat hash f w desired = some (w', ok, del)) :
    ok = false ∧ del = [] ∧ w'.deploy = some (w.deploy.getD []) ∧
      (∀ n s, getSlice w.slices n = some s → getSlice w'.slices n = some s) ∧
      (∀ t d, w.deploy = some t → decode w.slices t = some d → decode w'.slices t = some d) := by
  have hrej : f.rejectsUpdate = true := by rcases hf with rfl | rfl <;> rfl
  obtain ⟨h1, h2, h3, h4⟩ := update_rejected_nothing_deleted hrej h
  exact ⟨h1, h2, h3, h4, fun t d _ hd => decode_ext h4 hd⟩

/-- A 409 Conflict on the Update is invisible: the re-Get + retry of `retry.RetryOnConflict` ends exactly like a
call that was not disturbed. -/
theorem conflict_retry_invisible (limit : Nat) (strat : Strategy) (hash : List Obj → Nat → Name)
    (w : World Name) (desired : List (List Obj)) :
    reconcileF limit strat hash .conflict w desired = reconcile limit strat hash w desired :=
  reconcileF_eq_reconcile w desired

/-- **run_monitor_ok** (monitor vs. model, histories): for every op sequence from every world, the observations
the model produces pass `checkRun` — the very function `Pko.Drv.C14.monitor` applies to the parsed
implementation trace. -/
theorem run_monitor_ok (limit : Nat) (strat : Strategy) (hash : List Obj → Nat → Name)
    (isHashOf : Name → List Obj → Bool) (hIs : ∀ X k, isHashOf (hash X k) X = true)
    (ops : List Op) (w : World Name) :
    checkRun isHashOf limit strat (stateOf w) ops (modelRun limit strat hash w ops) = true := by
  induction ops generalizing w with
  | nil => rfl
  | cons op ops ih =>
    cases op with
    | chunk phases =>
      simp only [modelRun, modelStep, checkRun, specStep, List.length_map, beq_self_eq_true, Bool.true_and,
        Bool.and_eq_true]
      refine ⟨?_, ih w⟩
      rw [zip_map_all]
      exact List.all_eq_true.mpr (fun p _ => chunk_monitor_ok limit strat p)
    | deploy desired =>
      simp only [modelRun, modelStep]
      cases hr : reconcile limit strat hash w desired with
      | none => simp only [checkRun, specStep, Bool.true_and]; exact ih w
      | some q =>
        obtain ⟨w', ok, del⟩ := q
        have hsets : w'.objectSets = w.objectSets := by
          obtain ⟨_, _, _, hcase⟩ := reconcile_cases hr
          rcases hcase with ⟨_, _, _, _, _, h⟩ | ⟨_, _, _, _, _, _, h⟩ <;> exact h
        have hst : ({ stateOf w with tmpl := w'.deploy, store := w'.slices } : SpecState Name) = stateOf w' := by
          simp [stateOf, hsets]
        simp only [checkRun, specStep, Bool.and_eq_true, hst]
        exact ⟨deploy_monitor_ok limit strat hash isHashOf hIs w w' desired ok del hr, ih w'⟩
    | deployF f desired =>
      simp only [modelRun, modelStep]
      cases hr : reconcileF limit strat hash f w desired with
      | none => simp only [checkRun, specStep, Bool.true_and]; exact ih w
      | some q =>
        obtain ⟨w', ok, del⟩ := q
        have hsets : w'.objectSets = w.objectSets := by
          rcases reconcileF_cases hr with ⟨rfl, _⟩ | ⟨_, _, _, h, _⟩
          · rfl
          · exact h
        have hst : ({ stateOf w with tmpl := w'.deploy, store := w'.slices } : SpecState Name) = stateOf w' := by
          simp [stateOf, hsets]
        simp only [checkRun, specStep, Bool.and_eq_true, hst]
        exact ⟨deploy_fault_monitor_ok limit strat hash isHashOf hIs f w w' desired ok del hr, ih w'⟩
    | snap =>
      simp only [modelRun, modelStep, checkRun, specStep_snap, Bool.true_and]
      exact ih _
    | delos i =>
      simp only [modelRun, modelStep, checkRun, specStep_delos, Bool.true_and]
      exact ih _
    | life i l =>
      simp only [modelRun, modelStep, checkRun, specStep_life, Bool.true_and]
      exact ih _
    | markdel i =>
      simp only [modelRun, modelStep, checkRun, specStep_markdel, Bool.true_and]
      exact ih _

/-! ## Sliced ObjectSets behave like inline ones (at the per-phase seam) -/

/-- **sliced_eq_inline**: if all referenced slices exist, one pass of the ObjectSet controller over the sliced
ObjectSet — active, archived or deleted; whichever phase's teardown is still pending; WHATEVER phases carry a
class (are delegated to an ObjectSetPhase controller) and whatever exists of their ObjectSetPhase objects —
makes exactly the calls (phase, objects, order; in-process worker calls as well as ObjectSetPhase creations with
their `.spec.objects` and ObjectSetPhase deletions) it makes for the same ObjectSet with the objects inline, and
ends with the same result, Archived / Available / InTransition conditions and finalizer decision. -/
theorem sliced_eq_inline (mode : Mode) (st : Store Name) (t : Template Name) (rem : List RState) (wait : Option Nat)
    (d : List (List Obj)) (hd : decode st t = some d) :
    visible (controller mode st t rem wait) =
      visible (controller mode ([] : Store Name) (inlineTwinOf t d) rem wait) := by
  have hlen := decode_length hd
  cases hl : loadPhases st [] t with
  | mk st' rest =>
    obtain ⟨upd, phases, ok⟩ := rest
    obtain ⟨_, _, hres⟩ := loadPhases_spec t st [] st' upd phases ok (LInv.init st) hl
    simp only [hd] at hres
    obtain ⟨rfl, rfl, _⟩ := hres
    simp only [controller, hl, loadPhases_inlineOf t phases [] hlen, inlineTwinOf_cls t phases hlen]
    cases mode with
    | active =>
      simp only [finish, finishActive]
      cases hasDup ((List.flatMap (·.2.2) (phaseInfos (t.map (·.cls)) rem phases)).map (·.id)) with
      | true => simp [visible]
      | false =>
        simp only [Bool.false_eq_true, ↓reduceIte]
        cases reconcileCalls (phaseInfos (t.map (·.cls)) rem phases) with
        | mk calls r => obtain ⟨err, av⟩ := r; cases err <;> simp [visible]
    | archived =>
      simp only [finish, finishTeardown]
      cases teardownCalls wait (phaseInfos (t.map (·.cls)) rem phases).reverse with
      | mk calls done => cases done <;> simp [visible]
    | deleted =>
      simp only [finish, finishTeardown]
      cases teardownCalls wait (phaseInfos (t.map (·.cls)) rem phases).reverse with
      | mk calls done => cases done <;> simp [visible]

/-- **sliced_delegated_phase_gets_all_objects**: the clause of `sliced_eq_inline` seeded defect C14-1 breaks,
spelled out.  An active ObjectSet whose phase `i` carries a class and whose ObjectSetPhase does not exist yet, all
earlier phases being local: the ObjectSetPhase is created with exactly the objects phase `i` decodes to — inline
objects followed by the objects of all its slices —, never with the inline part only. -/
theorem sliced_delegated_phase_gets_all_objects (st : Store Name) (pre : Template Name) (ph : Phase Name)
    (post : Template Name) (rem : List RState) (wait : Option Nat) (d : List (List Obj))
    (hd : decode st (pre ++ ph :: post) = some d)
    (hpre : ∀ p ∈ pre, p.cls = false) (hcls : ph.cls = true) (hrem : rem.getD pre.length .absent = .absent)
    (hnodup : hasDup (d.flatten.map (·.id)) = false) :
    ∃ objs, decodePhase st ph = some objs ∧ d[pre.length]? = some objs ∧
      (controller .active st (pre ++ ph :: post) rem wait).calls.getLast? =
        some { teardown := false, phase := pre.length, objects := objs, remote := true } := by
  -- split what the ObjectSet decodes to along `pre ++ ph :: post`
  obtain ⟨dpre, drest, hdpre, hdrest, rfl⟩ := decode_append hd
  have hlen : dpre.length = pre.length := decode_length hdpre
  simp only [decode] at hdrest
  cases hp : decodePhase st ph with
  | none => simp [hp] at hdrest
  | some objs =>
    cases hdpost : decode st post with
    | none => simp [hp, hdpost] at hdrest
    | some dpost =>
      simp only [hp, hdpost, Option.some.injEq] at hdrest
      subst hdrest
      refine ⟨objs, rfl, by simp [← hlen], ?_⟩
      -- the loader returns exactly the decoding
      cases hl : loadPhases st [] (pre ++ ph :: post) with
      | mk st' rest =>
        obtain ⟨upd, phases, ok⟩ := rest
        obtain ⟨_, _, hres⟩ := loadPhases_spec (pre ++ ph :: post) st [] st' upd phases ok (LInv.init st) hl
        simp only [hd] at hres
        obtain ⟨rfl, rfl, _⟩ := hres
        simp only [controller, hl, finish, finishActive, phaseInfos, phaseInfosFrom_objs, hnodup,
          Bool.false_eq_true, ↓reduceIte]
        -- classes: the phases before `ph` are local, `ph` is delegated
        have hloc : ∀ j, 0 ≤ j → j < 0 + dpre.length →
            (List.map (·.cls) (pre ++ ph :: post)).getD j false = false := by
          intro j _ hj
          have hj' : j < pre.length := by omega
          simp only [List.map_append, List.getD_eq_getElem?_getD,
            List.getElem?_append_left (show j < (List.map (·.cls) pre).length by simpa using hj')]
          simp only [List.getElem?_map, List.getElem?_eq_getElem hj', Option.map_some, Option.getD_some]
          exact hpre _ (List.getElem_mem hj')
        have hdel : (List.map (·.cls) (pre ++ ph :: post)).getD (0 + dpre.length) false = true := by
          simp only [Nat.zero_add, hlen, List.map_append, List.map_cons, List.getD_eq_getElem?_getD]
          rw [List.getElem?_append_right (by simp)]
          simp [hcls]
        obtain ⟨cs, hcs⟩ := reconcileCalls_local_prefix (List.map (·.cls) (pre ++ ph :: post)) rem dpre
          (objs :: dpost) 0 hloc
        have hrem' : rem.getD (0 + dpre.length) .absent = .absent := by simpa [hlen] using hrem
        simp only [hcs, phaseInfosFrom, hdel, ↓reduceIte, hrem', reconcileCalls]
        simp [hlen]

/-- **load_class_agnostic**: the slice loader does not look at a phase's class: re-labelling which phases are
delegated changes neither what is loaded nor which slices get the owner reference. -/
theorem load_class_agnostic (f : Phase Name → Bool) (st : Store Name) (upd : List Name) (t : Template Name) :
    loadPhases st upd (withCls f t) = loadPhases st upd t :=
  loadPhases_withCls f t st upd

/-- **load_inverts_chunk_any_class**: `load_inverts_chunk` for a phase with or without class (`chunkPhase` edits
the phase's objects / slices in place and leaves the class alone): loading gives back exactly the original
objects. -/
theorem load_inverts_chunk_any_class (limit : Nat) (strat : Strategy) (hash : List Obj → Nat → Name)
    (st st' : Store Name) (objs : List Obj) (po : Phase Name) (c : Bool)
    (h : chunkPhase limit strat hash st objs = some (st', some po)) :
    ∃ st'' upd, loadPhases st' [] [{ po with cls := c }] = (st'', upd, [objs], true) := by
  obtain ⟨st'', upd, hl⟩ := load_inverts_chunk limit strat hash st st' objs po h
  refine ⟨st'', upd, ?_⟩
  have := loadPhases_withCls (fun _ => c) [po] st' []
  simp only [withCls, List.map_cons, List.map_nil] at this
  rw [this, hl]

/-- A missing slice makes the controller fail without touching anything, in every mode. -/
theorem missing_slice_fails (mode : Mode) (st : Store Name) (t : Template Name) (rem : List RState)
    (wait : Option Nat) (hd : decode st t = none) :
    (controller mode st t rem wait).res = .err ∧ (controller mode st t rem wait).calls = [] ∧
    (controller mode st t rem wait).finalizerRemoved = false ∧ (controller mode st t rem wait).archived = none ∧
    (controller mode st t rem wait).available = none ∧ (controller mode st t rem wait).inTransition = false := by
  cases hl : loadPhases st [] t with
  | mk st' rest =>
    obtain ⟨upd, phases, ok⟩ := rest
    obtain ⟨_, _, hres⟩ := loadPhases_spec t st [] st' upd phases ok (LInv.init st) hl
    simp only [hd] at hres
    subst hres
    simp [controller, hl]

/-- **ctl_monitor_ok** (monitor vs. model, controller): the model's sliced run and the model's run of the inline
twin satisfy the transparency check `ctlOk` the monitor evaluates on the two implementation runs. -/
theorem ctl_monitor_ok (mode : Mode) (st : Store Name) (t : Template Name) (rem : List RState) (wait : Option Nat)
    (inl : CtlOut Name)
    (hinl : ∀ d, decode st t = some d →
      visible inl = visible (controller mode ([] : Store Name) (inlineTwinOf t d) rem wait)) :
    ctlOk st t (controller mode st t rem wait) inl = true := by
  simp only [ctlOk]
  cases hd : decode st t with
  | none =>
    obtain ⟨h1, h2, h3, h4, h5, h6⟩ := missing_slice_fails mode st t rem wait hd
    simp [h1, h2, h3, h4, h5, h6]
  | some d =>
    simp only [beq_iff_eq]
    rw [sliced_eq_inline mode st t rem wait d hd, hinl d hd]

end

/-! ## The driver's hash: injective up to the declared REAL collisions -/

section
open Pko.Drv.C14

/-- The hash the line driver instantiates the model with — symbolic names, injective up to the real FNV-32
collisions a scenario declares — is recognised by the monitor's `isHashOf`: the premise of `deploy_monitor_ok` /
`run_monitor_ok` holds for every collision table. -/
theorem drv_hash_recognised (coll : List KColl) (X : List Obj) (k : Nat) :
    isSymHashOf coll (symHash coll X k) X = true := by
  simp [isSymHashOf, symHash]

/-- **drv_run_monitor_ok**: `run_monitor_ok` for the hash of the driver: whatever real collisions a scenario
declares, the model's trace passes the monitor (so a monitor failure on an implementation trace is never an
artefact of a declared collision). -/
theorem drv_run_monitor_ok (coll : List KColl) (limit : Nat) (strat : Strategy) (ops : List Op) (w : World SName) :
    checkRun (isSymHashOf coll) limit strat (stateOf w) ops (modelRun limit strat (symHash coll) w ops) = true :=
  run_monitor_ok limit strat (symHash coll) (isSymHashOf coll) (drv_hash_recognised coll) ops w

/-- A declared collision IS a collision of the driver's hash, at every collision count (the representative not
being an alias itself, as `Dep.valid` demands). -/
theorem drv_declared_collision (coll : List KColl) (e : KColl) (A B : List Obj) (c : Nat)
    (he : coll.find? (fun x => x.b == keyOf B) = some e) (ha : e.a = keyOf A)
    (hrep : coll.find? (fun x => x.b == keyOf A) = none) :
    symHash coll A c = symHash coll B c := by
  simp [symHash, canonKey, he, hrep, ha]

/-- Non-vacuity (REAL collision as input, the situation of seeded defect C14-2): the contents [o2] and [o4] are
declared to collide.  Reconciling the phases [[o2],[o4]] with EachObject, the model — like the unchanged code —
does not reuse the clashing name for the different content: the second slice gets collision count 1 and the
template decodes to the desired phases. -/
example :
    let coll : List KColl := [{ a := [(2, 0)], b := [(4, 0)] }]
    let o2 : Obj := ⟨2, some 6394, 0⟩
    let o4 : Obj := ⟨4, some 17021, 0⟩
    symHash coll [o2] 0 = symHash coll [o4] 0 ∧
    (reconcile 1048576 .each (symHash coll) ⟨none, [], []⟩ [[o2], [o4]]).map
        (fun r => (r.2.1, r.1.deploy, decode r.1.slices (r.1.deploy.getD []))) =
      some (true,
        some [{ objects := [], slices := [⟨[(2, 0)], 0⟩] }, { objects := [], slices := [⟨[(2, 0)], 1⟩] }],
        some [[o2], [o4]]) := by
  decide

end

/-! ## Finding C14-a and non-vacuity -/

/-- **teardown_without_load_counterexample** (finding C14-a, the control flow BEFORE the fix): archiving an
ObjectSet with one phase whose single object lives in one slice — `Teardown` is handed a phase without objects,
reports done, the ObjectSet becomes Archived and drops its finalizer although nothing was torn down; the inline
twin tears the object down.  So "tears down exactly like the same ObjectSet with the objects inline" fails. -/
theorem teardown_without_load_counterexample :
    let st : Store Nat := [(7, { objects := [⟨1, some 1, 0⟩], ctl := true, lbl := true, owned := true })]
    let t : Template Nat := [{ objects := [], slices := [7] }]
    decode st t = some [[⟨1, some 1, 0⟩]] ∧
    (controllerPreFix .archived st t [] none).calls = [{ teardown := true, phase := 0, objects := [] }] ∧
    (controllerPreFix .archived st t [] none).archived = some true ∧
    (controllerPreFix .archived st t [] none).finalizerRemoved = true ∧
    (controller .archived ([] : Store Nat) (inlineTwin [[⟨1, some 1, 0⟩]]) [] none).calls =
      [{ teardown := true, phase := 0, objects := [⟨1, some 1, 0⟩] }] ∧
    ctlOk st t (controllerPreFix .archived st t [] none)
      (controller .archived ([] : Store Nat) (inlineTwin [[⟨1, some 1, 0⟩]]) [] none) = false := by
  decide

/-- The fixed control flow on the same witness: the object is handed to teardown. -/
example :
    let st : Store Nat := [(7, { objects := [⟨1, some 1, 0⟩], ctl := true, lbl := true, owned := true })]
    let t : Template Nat := [{ objects := [], slices := [7] }]
    (controller .archived st t [] none).calls = [{ teardown := true, phase := 0, objects := [⟨1, some 1, 0⟩] }] := by
  decide

/-- Non-vacuity (delegated phase in slices, the situation of seeded defect C14-1): a local phase with one slice
followed by a phase with a class whose objects live in two slices, no ObjectSetPhase yet.  The in-process
worker gets phase 0 with its slice loaded, the ObjectSetPhase of phase 1 is created with ALL objects of phase 1
(not with the empty inline part), exactly as for the inline twin; once the ObjectSetPhase reports Available the
ObjectSet is Available and in transition, like the twin. -/
example :
    let sl (objs : List Obj) : Slice := { objects := objs, ctl := true, lbl := true, owned := false }
    let o (i : Nat) : Obj := ⟨i, some 1, 0⟩
    let st : Store Nat := [(10, sl [o 1]), (11, sl [o 2, o 3]), (12, sl [o 4])]
    let t : Template Nat := [{ objects := [o 0], slices := [10] }, { objects := [], slices := [11, 12], cls := true }]
    let twin : Template Nat := inlineTwinOf t [[o 0, o 1], [o 2, o 3, o 4]]
    (controller .active st t [.absent, .absent] none).calls =
      [{ teardown := false, phase := 0, objects := [o 0, o 1] },
       { teardown := false, phase := 1, objects := [o 2, o 3, o 4], remote := true }] ∧
    visible (controller .active st t [.absent, .absent] none) =
      visible (controller .active ([] : Store Nat) twin [.absent, .absent] none) ∧
    (controller .active st t [.absent, .available] none).available = some true ∧
    (controller .active st t [.absent, .available] none).inTransition = true ∧
    (controller .archived st t [.absent, .available] none).calls =
      [{ teardown := true, phase := 1, objects := [], remote := true }] := by
  decide

/-- Non-vacuity (chunkers): limit 10, sizes 4,4,4,20,1 → next-fit packs [a,b] [c] [d] [e]; the concatenation is
the input; the oversized object sits alone. -/
example :
    binpackChunk 10 [⟨0, some 4, 0⟩, ⟨1, some 4, 0⟩, ⟨2, some 4, 0⟩, ⟨3, some 20, 0⟩, ⟨4, some 1, 0⟩] =
      some [[⟨0, some 4, 0⟩, ⟨1, some 4, 0⟩], [⟨2, some 4, 0⟩], [⟨3, some 20, 0⟩], [⟨4, some 1, 0⟩]] := by
  decide

/-- Non-vacuity (bypass): the same objects with limit 40 are not chunked at all. -/
example : binpackChunk 40 [⟨0, some 4, 0⟩, ⟨1, some 4, 0⟩, ⟨2, some 4, 0⟩, ⟨3, some 20, 0⟩, ⟨4, some 1, 0⟩] = some [] := by
  decide

/-- Non-vacuity (collision path, GC, loader): the hash `fun _ c => c` makes EVERY content collide.  With name 0
taken by different content, two one-object chunks are stored under names 1 and 2; an ObjectSet snapshot keeps
them alive across a reconcile that drops them from the template, and they are collected once the ObjectSet is
gone; the loader gives back the original phase. -/
example :
    let hash : List Obj → Nat → Nat := fun _ c => c
    let a : Obj := ⟨0, some 1, 0⟩
    let b : Obj := ⟨1, some 1, 0⟩
    let pre : Slice := { objects := [⟨9, some 1, 0⟩], ctl := true, lbl := false, owned := false }
    let w0 : World Nat := { deploy := some [], objectSets := [], slices := [(0, pre)] }
    let w1 := hstep 0 .each hash w0 (.deploy [[a, b]])
    let w2 := hstep 0 .each hash (hstep 0 .each hash w1 .snap) (.deploy [[]])
    let w3 := hstep 0 .each hash (hstep 0 .each hash w2 (.delos 0)) (.deploy [[]])
    w1.deploy = some [{ objects := [], slices := [1, 2] }] ∧
    (loadPhases w1.slices [] [{ objects := [], slices := [1, 2] }]).2.2 = ([[a, b]], true) ∧
    names w2.slices = [0, 1, 2] ∧ names w3.slices = [0] := by
  decide

/-- Non-vacuity (archived-in-spec revision, the situation of seeded defect C14-3): package v1 → v2 → v3, one slice
each; revision 1 is Archived in spec (and revision 2 paused and being deleted) but both still EXIST when v3
arrives: their slices survive the GC of the v3 reconcile; only once revision 1 is gone is its slice collected.
The specification's `gcSafe` rejects the observation in which the slice of the archived revision is deleted. -/
example :
    let hash : List Obj → Nat → Nat := fun X _ => (X.map (·.id)).sum
    let o (i : Nat) : Obj := ⟨i, some 1, 0⟩
    let st := hstep 0 .each hash
    let w0 : World Nat := { deploy := none, objectSets := [], slices := [] }
    let w2 := st (st (st (st w0 (.deploy [[o 1]])) .snap) (.deploy [[o 2]])) .snap
    let w3 := st (st (st w2 (.life 0 .archived)) (.life 1 .paused)) (.markdel 1)
    let w4 := st w3 (.deploy [[o 3]])
    let w5 := st (st w4 (.delos 0)) (.deploy [[o 3]])
    w3.objectSets = [{ phases := [{ objects := [], slices := [1] }], life := .archived },
                     { phases := [{ objects := [], slices := [2] }], life := .paused, deleting := true }] ∧
    names w4.slices = [1, 2, 3] ∧ names w5.slices = [2, 3] ∧
    gcSafe (stateOf w3) { ok := true, tmpl := w4.deploy, deleted := [1], store := erase w4.slices [1] } = false ∧
    gcSafe (stateOf w3) { ok := true, tmpl := w4.deploy, deleted := [], store := w4.slices } = true := by
  decide

/-- Non-vacuity (every field of the ObjectSetObject counts, the situation of seeded defect C14-4): an object with
condition mappings (fingerprint 20) that comes back from the slices with the mappings dropped (fingerprint 0) is
NOT the original: `chunkOk` and `lossless` reject it, and accept the faithful copy. -/
example :
    let o : Obj := ⟨0, some 1, 20⟩
    let o' : Obj := ⟨0, some 1, 0⟩
    let sl (x : Obj) : Slice := { objects := [x], ctl := true, lbl := true, owned := false }
    let t : Template Nat := [{ objects := [], slices := [7] }]
    chunkOk 10 .each [o] (.chunks [[o']]) = false ∧ chunkOk 10 .each [o] (.chunks [[o]]) = true ∧
    lossless [[o]] { ok := true, tmpl := some t, deleted := [], store := [(7, sl o')] } = false ∧
    lossless [[o]] { ok := true, tmpl := some t, deleted := [], store := [(7, sl o)] } = true := by
  decide

/-- Non-vacuity (rejected Update, the situation of seeded defect C14-5): package v1 is rolled out (slice 1, no
ObjectSet yet); the update to v2 creates slice 2, but the API rejects the Update of the ObjectDeployment: the call
fails, the stored template still references slice 1 and BOTH slices exist; the retry succeeds, stores the v2
template and only then collects slice 1.  A lost response (`updateLost`) leaves the v2 template stored and nothing
deleted.  The specification rejects the observation in which the failed call has run the GC with its in-memory
template (slice 1 deleted while the stored template references it) and accepts what the model does. -/
example :
    let hash : List Obj → Nat → Nat := fun X _ => (X.map (·.id)).sum
    let o (i : Nat) : Obj := ⟨i, some 1, 0⟩
    let st := hstep 0 .each hash
    let w0 : World Nat := { deploy := none, objectSets := [], slices := [] }
    let w1 := st w0 (.deploy [[o 1]])
    let w2 := st w1 (.deployF .update [[o 2]])
    let w3 := st w2 (.deploy [[o 2]])
    let w2' := st w1 (.deployF .updateLost [[o 2]])
    w1.deploy = some [{ objects := [], slices := [1] }] ∧
    w2.deploy = w1.deploy ∧ names w2.slices = [1, 2] ∧
    w3.deploy = some [{ objects := [], slices := [2] }] ∧ names w3.slices = [2] ∧
    w2'.deploy = w3.deploy ∧ names w2'.slices = [1, 2] ∧
    deployOkF (fun _ _ => true) .update (stateOf w1) [[o 2]]
      { ok := false, tmpl := w1.deploy, deleted := [1], store := erase w2.slices [1] } = false ∧
    gcSafe (stateOf w1) { ok := false, tmpl := w1.deploy, deleted := [1], store := erase w2.slices [1] } = false ∧
    storedLoadable (stateOf w1) { ok := false, tmpl := w1.deploy, deleted := [1], store := erase w2.slices [1] } = false ∧
    deployOkF (fun _ _ => true) .update (stateOf w1) [[o 2]]
      { ok := false, tmpl := w2.deploy, deleted := [], store := w2.slices } = true := by
  decide

end Pko.Props.C14
