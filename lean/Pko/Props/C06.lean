/-
Property C06 — ObjectSet status never claims more than the reconcile pass observed.

Theorems about `Pko.Model.ObjectSet` (controller pass) for every ObjectSet, store and
third-party schedule, including spec edits (generation bumps) between the pass's read and its
status write.
-/
import Pko.Lemmas.ObjectSet
import Pko.Props.C03
import Pko.Model.Remote

namespace Pko.Props.C06
open Pko.Kube Pko.Model.Phase Pko.Model.ObjectSet Pko.Model.Status

/-- **archived_terminal**: once Archived=True is recorded the pass is the identity — nothing is
read further, nothing is written. -/
theorem archived_terminal (cfg : Cfg) (rm : Remotes) (name : String) (s : Sys) (mem : OSet)
    (hget : s.sets name = some mem) (h : condTrue mem.conds "Archived" = true) :
    reconcile cfg rm name s = (s, .ok) := by
  simp [reconcile, hget, h]

/-- completing archival writes no Available condition and an empty controllerOf. -/
theorem archival_completed_status (mem : OSet) (hl : mem.lifecycle = .archived) :
    let m1 : OSet := { mem with conds := setCond mem.conds ⟨"Archived", "True", "Archived", mem.gen, ""⟩, controllerOf := [] }
    let m2 : OSet := { m1 with conds := removeCond m1.conds "Available" }
    condTrue m2.conds "Archived" = true ∧ m2.controllerOf = [] ∧ m2.conds.all (·.type ≠ "Available") = true := by
  refine ⟨?_, rfl, ?_⟩
  · rw [Pko.Lemmas.ObjectSet.condTrue_removeCond_other _ _ _ (by decide)]
    exact Pko.Lemmas.ObjectSet.condTrue_setCond_true _ _ _ _ _
  · simp [removeCond]

/-- **stale_pass_cannot_write**: a status update (or finalizer patch) of a pass whose view of
the ObjectSet is outdated — any write since the pass read it, in particular a spec edit bumping
the generation — is rejected and changes nothing. -/
theorem stale_pass_cannot_write (s : Sys) (mem cur : OSet) (f : OSet → OSet)
    (hcur : s.beforeSetWrite.sets mem.name = some cur) (hstale : cur.rv ≠ mem.rv) :
    (s.lockedWrite mem f).2 = .error .conflict ∧ (s.lockedWrite mem f).1.sets = s.beforeSetWrite.sets := by
  simp [Sys.lockedWrite, hcur, hstale]

/-- every third-party write on an ObjectSet gives it a fresh resourceVersion, so a pass that read
before it is stale afterwards (spec edits also bump the generation). -/
theorem thirdParty_edit_bumps (s : Sys) (cur next : OSet) (b : Bool) (hne : next ≠ cur) :
    ((s.thirdPartyStore cur next b).sets cur.name).map (·.rv) = some s.w.store.nextRV := by
  simp [Sys.thirdPartyStore, hne, Sys.setSet]

/-- **status_ahead_makes_pass_stale**: when the store gets ahead of a running pass — the outcome of
the controller's own previous pass (Succeeded recorded / archival completed) becomes visible after
the pass has read its ObjectSet: third-party operation `status` — the stored object carries a
resourceVersion the pass has never seen, unless nothing had to be recorded.  Together with
`stale_pass_cannot_write`: no later write of that pass on the ObjectSet goes through, the stored
status (Succeeded, Archived, empty controllerOf) stays as it is. -/
theorem status_ahead_makes_pass_stale (s : Sys) (n v : String) (c : OSet) (hn : c.name = n)
    (hc : s.sets n = some c) :
    (s.applySetEnv (.status n v)).sets n = some c ∨
    ((s.applySetEnv (.status n v)).sets n).map (·.rv) = some s.w.store.nextRV := by
  subst hn
  simp only [Sys.applySetEnv, hc]
  by_cases hv : v = "Archived"
  · simp only [hv, if_true]
    by_cases ha : condTrue c.conds "Archived" = true
    · simp [ha, hc]
    · simp only [ha, Bool.false_eq_true, if_false]
      simp only [Sys.thirdPartyStore]
      split
      · exact Or.inl hc
      · exact Or.inr (by simp [Sys.setSet])
  · simp only [hv, if_false]
    by_cases ha : condTrue c.conds "Succeeded" = true
    · simp [ha, hc]
    · simp only [ha, Bool.false_eq_true, if_false]
      simp only [Sys.thirdPartyStore]
      split
      · exact Or.inl hc
      · exact Or.inr (by simp [Sys.setSet])

/-- a pass that reports no failing phase visited ALL phases and found every one clean. -/
theorem phases_ok_none_all_clean (cfg : Cfg) (ow : Owner) (prev : List Prev) (remote : Pko.Props.C03.RemoteRec) :
    ∀ (phases : List PhaseSpec) (w : World) (acc co : List CRef),
      (reconcilePhases cfg ow prev remote phases w acc).2 = .ok (co, none) →
      (Pko.Props.C03.visitsPh cfg ow prev remote phases w).map (·.1) = phases ∧
      ∀ v ∈ Pko.Props.C03.visitsPh cfg ow prev remote phases w, Pko.Props.C03.Clean cfg ow prev remote v.1 v.2 := by
  intro phases
  induction phases with
  | nil => intro w acc co _; simp [Pko.Props.C03.visitsPh]
  | cons ph rest ih =>
    intro w acc co h
    simp only [reconcilePhases] at h
    simp only [Pko.Props.C03.visitsPh]
    by_cases hc : ph.cls ≠ ""
    · simp only [if_pos hc] at h ⊢
      cases hr : remote ph w with
      | mk w' r =>
        rw [hr] at h
        cases r with
        | error e => simp at h
        | ok v =>
          obtain ⟨cr, b⟩ := v
          cases b with
          | false => simp at h
          | true =>
            simp only [↓reduceIte] at h
            obtain ⟨hmap, hall⟩ := ih w' _ co h
            refine ⟨by simp [hmap], ?_⟩
            intro v hv
            simp only [List.mem_cons] at hv
            rcases hv with h1 | h1
            · subst h1; simp [Pko.Props.C03.Clean, hc, hr]
            · exact hall v h1
    · simp only [if_neg hc] at h ⊢
      have heq := Pko.Lemmas.ObjectSet.reconcilePhaseObjs_eq cfg ow prev ph.objs w
      cases hr : reconcilePhaseObjs cfg ow prev ph.objs w with
      | mk w' r =>
        obtain ⟨oc, objs⟩ := r
        rw [hr] at h heq
        simp only at heq
        cases oc with
        | ok failed =>
          simp only at h
          by_cases hf : failed.isEmpty
          · simp only [hf, ↓reduceIte] at h ⊢
            obtain ⟨hmap, hall⟩ := ih w' _ co h
            refine ⟨by simp [hmap], ?_⟩
            intro v hv
            simp only [List.mem_cons] at hv
            rcases hv with h1 | h1
            · subst h1
              have hc' : ph.cls = "" := by simpa using hc
              have : failed = [] := by simpa using hf
              simp only [Pko.Props.C03.Clean, hc', ne_eq, not_true_eq_false, ↓reduceIte]
              rw [← heq.2, this]
            · exact hall v h1
          · simp [hf] at h
        | preflight => simp at h
        | collision r => simp at h
        | err => simp at h

/-- **available_true_justified.** If the status written by the active branch of a pass says
Available=True, then in THIS pass every phase of the spec was visited and clean (every object
returned by its reconcile step and passing all probes selecting it / the delegated phase reporting
Available for its current generation), the written controllerOf is exactly what the phases
returned, and the condition carries the generation the pass read. -/
theorem available_true_justified (cfg : Cfg) (rm : Remotes) (s : Sys) (mem : OSet)
    (hnd : hasDuplicates mem.phases = false)
    (co : List CRef) (failing : Option String) (w : World)
    (hph : reconcilePhases cfg mem.owner (lookupPrev s mem) (rm.recon mem) mem.phases s.w [] = (w, .ok (co, failing))) :
    let w' := afterPhases rm mem (.ok (co, failing)) w
    let final := finishMem { w' with remoteRefs := [] }
      (deriveStatus { mem with remotePhases := w'.remoteRefs.foldl addRemote mem.remotePhases } co failing)
    (condTrue final.conds "Available" = true →
      failing = none ∧
      (Pko.Props.C03.visitsPh cfg mem.owner (lookupPrev s mem) (rm.recon mem) mem.phases s.w).map (·.1) = mem.phases ∧
      (∀ v ∈ Pko.Props.C03.visitsPh cfg mem.owner (lookupPrev s mem) (rm.recon mem) mem.phases s.w,
        Pko.Props.C03.Clean cfg mem.owner (lookupPrev s mem) (rm.recon mem) v.1 v.2)) ∧
    final.controllerOf = co ∧
    ∃ r, (activePhasesCore cfg rm s mem).1.setEvents =
      s.setEvents ++ [.statusUpdate final.name r final.revision final.conds final.controllerOf final.remotePhases] := by
  intro w' final
  have hav : condTrue final.conds "Available" = failing.isNone := by
    simp only [final]
    rw [Pko.Lemmas.ObjectSet.finishMem_condTrue_other _ _ _ (by decide)]
    exact Pko.Lemmas.ObjectSet.deriveStatus_available _ _ _
  refine ⟨?_, ?_, ?_⟩
  · intro htrue
    rw [hav] at htrue
    have hnone : failing = none := by cases failing <;> simp_all
    subst hnone
    have := phases_ok_none_all_clean cfg mem.owner (lookupPrev s mem) (rm.recon mem) mem.phases s.w [] co
      (by rw [hph])
    exact ⟨rfl, this.1, this.2⟩
  · simp only [final]; rw [(Pko.Lemmas.ObjectSet.finishMem_fields _ _).1]; rfl
  · simp only [activePhasesCore, hnd, Bool.false_eq_true, ↓reduceIte, hph, finish,
      Pko.Lemmas.ObjectSet.afterStatus_fst]
    exact Pko.Lemmas.ObjectSet.updateStatus_setEvents _ _

/-- **controllerOf_sound** (local phases): every entry the pass reports under `controllerOf` for a
local phase is an object that its reconcile step returned in this pass with the owner as its
controller. -/
theorem controllerOf_sound (cfg : Cfg) (ow : Owner) (prev : List Prev) (ps : List PObj) (w : World)
    (c : CRef) (hc : c ∈ controllerOfOf cfg ow (reconcilePhaseObjs cfg ow prev ps w).2.2) :
    ∃ pw ∈ Pko.Props.C01.visits cfg ow prev ps w, ∃ o,
      (reconcilePhaseObject cfg ow prev pw.1 pw.2).2 matches .actual _ ∧
      c = ⟨pw.1.kind, (keyOf cfg ow pw.1).ns, pw.1.name⟩ ∧ isController cfg.st (ow.ref true) o = true := by
  simp only [controllerOfOf, List.mem_filterMap] at hc
  obtain ⟨⟨p, o⟩, hmem, hsome⟩ := hc
  simp only at hsome
  split at hsome
  · rename_i hctrl
    cases hsome
    simp only [reconcilePhaseObjs] at hmem
    split at hmem
    · simp at hmem
    · simp at hmem
    · rcases Pko.Lemmas.ObjectSet.go_objs_sound cfg ow prev ps w [] [] (p, o) hmem with h1 | ⟨pw, hpw, h2, h3⟩
      · simp at h1
      · simp only at h2
        exact ⟨pw, hpw, o, h3, by rw [h2], hctrl⟩
  · cases hsome

/-- **succeeded_only_if**: a pass newly sets Succeeded only together with Available=True and
while not InTransition. -/
theorem succeeded_only_if (mem : OSet) (co : List CRef) (failing : Option String)
    (hold : condTrue mem.conds "Succeeded" = false)
    (hnew : condTrue (deriveStatus mem co failing).conds "Succeeded" = true) :
    failing = none ∧ inTransition { mem with controllerOf := co } co = false ∧
    condTrue (deriveStatus mem co failing).conds "Available" = true := by
  have hpre : ∀ trans, condTrue (availConds (transConds mem.conds trans mem.gen) mem.gen failing) "Succeeded" = false := by
    intro trans
    have h1 : condTrue (transConds mem.conds trans mem.gen) "Succeeded" = false := by
      simp only [transConds]; split
      · rw [Pko.Lemmas.ObjectSet.condTrue_setCond_other _ _ _ (by simp)]; exact hold
      · rw [Pko.Lemmas.ObjectSet.condTrue_removeCond_other _ _ _ (by decide)]; exact hold
    simp only [availConds]; split <;>
      (rw [Pko.Lemmas.ObjectSet.condTrue_setCond_other _ _ _ (by simp [availableCond])]; exact h1)
  simp only [deriveStatus, succConds] at hnew
  split at hnew
  · rename_i hcond
    simp only [Bool.and_eq_true, Bool.not_eq_true', Option.isNone_iff_eq_none] at hcond
    refine ⟨hcond.1.1, hcond.2, ?_⟩
    rw [Pko.Lemmas.ObjectSet.deriveStatus_available]; simp [hcond.1.1]
  · rw [hpre] at hnew; cases hnew

/-- **succeeded_never_withdrawn**: no status a pass derives drops Succeeded once it was True —
neither the normal path, nor the error paths, nor the paused / archival-in-progress paths. -/
theorem succeeded_never_withdrawn (mem : OSet) (co : List CRef) (failing : Option String)
    (hold : condTrue mem.conds "Succeeded" = true) :
    (∀ w, condTrue (finishMem w (deriveStatus mem co failing)).conds "Succeeded" = true) ∧
    (∀ reason, condTrue (setCond mem.conds (availableCond mem.gen false reason "")) "Succeeded" = true) ∧
    (∀ w, condTrue (finishMem w mem).conds "Succeeded" = true) ∧
    condTrue (removeCond (setCond mem.conds ⟨"Archived", "False", "ArchivalInProgress", mem.gen, ""⟩) "Available") "Succeeded" = true := by
  have hfin : ∀ (w : World) (m : OSet), condTrue m.conds "Succeeded" = true → condTrue (finishMem w m).conds "Succeeded" = true := by
    intro w m hm
    rw [Pko.Lemmas.ObjectSet.finishMem_condTrue_other _ _ _ (by decide)]; exact hm
  refine ⟨fun w => hfin w _ ?_, ?_, fun w => hfin w _ hold, ?_⟩
  · have h1 : ∀ trans, condTrue (transConds mem.conds trans mem.gen) "Succeeded" = true := by
      intro trans
      simp only [transConds]; split
      · rw [Pko.Lemmas.ObjectSet.condTrue_setCond_other _ _ _ (by simp)]; exact hold
      · rw [Pko.Lemmas.ObjectSet.condTrue_removeCond_other _ _ _ (by decide)]; exact hold
    have h2 : ∀ trans, condTrue (availConds (transConds mem.conds trans mem.gen) mem.gen failing) "Succeeded" = true := by
      intro trans
      simp only [availConds]; split <;>
        (rw [Pko.Lemmas.ObjectSet.condTrue_setCond_other _ _ _ (by simp [availableCond])]; exact h1 trans)
    simp only [deriveStatus, succConds]
    split
    · exact Pko.Lemmas.ObjectSet.condTrue_setCond_true _ _ _ _ _
    · exact h2 _
  · intro reason
    rw [Pko.Lemmas.ObjectSet.condTrue_setCond_other _ _ _ (by simp [availableCond])]; exact hold
  · rw [Pko.Lemmas.ObjectSet.condTrue_removeCond_other _ _ _ (by decide),
      Pko.Lemmas.ObjectSet.condTrue_setCond_other _ _ _ (by simp)]
    exact hold

/-- **inTransition_cleared_only_if**: InTransition is absent from the derived status only if the
pass's `isObjectSetInTransition` computation found nothing left over. -/
theorem inTransition_cleared_only_if (mem : OSet) (co : List CRef) (failing : Option String)
    (h : condTrue (deriveStatus mem co failing).conds "InTransition" = false) :
    inTransition { mem with controllerOf := co } co = false := by
  cases htr : inTransition { mem with controllerOf := co } co with
  | false => rfl
  | true =>
    exfalso
    have h1 : condTrue (transConds mem.conds true mem.gen) "InTransition" = true := by
      simp only [transConds, ↓reduceIte]; exact Pko.Lemmas.ObjectSet.condTrue_setCond_true _ _ _ _ _
    have h2 : condTrue (availConds (transConds mem.conds true mem.gen) mem.gen failing) "InTransition" = true := by
      simp only [availConds]; split <;>
        (rw [Pko.Lemmas.ObjectSet.condTrue_setCond_other _ _ _ (by simp [availableCond])]; exact h1)
    simp only [deriveStatus, succConds, htr] at h
    simp at h
    rw [h2] at h; cases h

/-- what "nothing left over" means: every object of the spec is matched by an entry of
controllerOf (same kind, name and namespace — or an entry without namespace, as relayed by
delegated phases). -/
theorem inTransition_false_means (o : OSet) (co : List CRef) (hl : o.lifecycle ≠ .archived)
    (h : inTransition o co = false) :
    ∀ p ∈ o.phases.flatMap (·.objs),
      ∃ c ∈ co, c.kind = p.kind ∧ c.name = p.name ∧ (c.ns = (if p.ns = "" then o.ns else p.ns) ∨ c.ns = "") := by
  -- generalised over the fold: whatever is removed from `rest` is matched by an entry of `co`
  have key : ∀ (co' : List CRef) (rest : List CRef),
      (co'.foldl (fun (rest : List CRef) c =>
        if rest.contains c then rest.erase c
        else if c.ns = "" then
          match rest.find? (fun r => r.kind = c.kind && r.name = c.name) with
          | some r => rest.erase r
          | none => rest
        else rest) rest) = [] →
      ∀ r ∈ rest, ∃ c ∈ co', c.kind = r.kind ∧ c.name = r.name ∧ (c.ns = r.ns ∨ c.ns = "") := by
    intro co'
    induction co' with
    | nil => intro rest h r hr; simp at h; subst h; simp at hr
    | cons c cs ih =>
      intro rest h r hr
      simp only [List.foldl_cons] at h
      by_cases hcont : rest.contains c = true
      · simp only [hcont, ↓reduceIte] at h
        by_cases hrc : r = c
        · exact ⟨c, by simp, by simp [hrc]⟩
        · have : r ∈ rest.erase c := (List.mem_erase_of_ne hrc).2 hr
          obtain ⟨c', hc', rest'⟩ := ih _ h r this
          exact ⟨c', by simp [hc'], rest'⟩
      · simp only [hcont, Bool.false_eq_true, ↓reduceIte] at h
        by_cases hns : c.ns = ""
        · simp only [hns, ↓reduceIte] at h
          cases hf : rest.find? (fun r => r.kind = c.kind && r.name = c.name) with
          | none =>
            rw [hf] at h
            obtain ⟨c', hc', rest'⟩ := ih _ h r hr
            exact ⟨c', by simp [hc'], rest'⟩
          | some r0 =>
            rw [hf] at h
            have hr0 := List.find?_some hf
            simp only [Bool.and_eq_true, decide_eq_true_eq] at hr0
            by_cases hrr : r = r0
            · exact ⟨c, by simp, by rw [hrr]; exact ⟨hr0.1.symm, hr0.2.symm, Or.inr hns⟩⟩
            · have : r ∈ rest.erase r0 := (List.mem_erase_of_ne hrr).2 hr
              obtain ⟨c', hc', rest'⟩ := ih _ h r this
              exact ⟨c', by simp [hc'], rest'⟩
        · simp only [hns, ↓reduceIte] at h
          obtain ⟨c', hc', rest'⟩ := ih _ h r hr
          exact ⟨c', by simp [hc'], rest'⟩
  intro p hp
  simp only [inTransition, hl, ↓reduceIte, Bool.not_eq_eq_eq_not, Bool.not_false, List.isEmpty_iff] at h
  have hmem : (⟨p.kind, if p.ns = "" then o.ns else p.ns, p.name⟩ : CRef) ∈
      ((o.phases.flatMap (·.objs)).map fun p => (⟨p.kind, if p.ns = "" then o.ns else p.ns, p.name⟩ : CRef)).eraseDups := by
    rw [List.mem_eraseDups]; exact List.mem_map.2 ⟨p, hp, rfl⟩
  obtain ⟨c, hc, h1, h2, h3⟩ := key co _ h _ hmem
  exact ⟨c, hc, h1, h2, h3⟩

/-! ### "… or as reported by a delegated phase"

`available_true_justified` is stated for any behaviour `rm` of delegated phases: a delegated
phase is `Clean` when `rm.recon` answers "passed".  The theorems below say what that answer rests
on for the REAL remote reconciler (`Pko.Model.Remote.remoteReconcile`, model of
`objectSetRemotePhaseReconciler.Reconcile`): a report the phase object carries for its generation
AT THE TIME OF THE PASS — never one made for an older generation of the phase object. -/

open Pko.Model.Remote in
/-- spec patches of phase object `n` among the phase events `evs` that went through. -/
def pausePatches (n : String) (evs : List PhaseEvent) : Nat :=
  (evs.filter fun e => match e with | .pausePatch m _ none => m == n | _ => false).length

open Pko.Model.Remote in
/-- `setPaused`: the status of the phase object is left as it was; its generation moves by one per
patch issued; the object handed on to the status check is the one stored. -/
theorem propagatePause_spec (o : OSet) (n : String) (cur : OPhase) (w : World) :
    (propagatePause o n cur w).2.conds = cur.conds ∧
    (propagatePause o n cur w).2.controllerOf = cur.controllerOf ∧
    ∃ evs, (propagatePause o n cur w).1.phaseEvents = w.phaseEvents ++ evs ∧
      (propagatePause o n cur w).2.gen = cur.gen + pausePatches n evs ∧
      (w.phases n = some cur → (propagatePause o n cur w).1.phases n = some (propagatePause o n cur w).2) := by
  simp only [propagatePause]
  split
  · exact ⟨rfl, rfl, [.pausePatch n (decide (o.lifecycle = .paused)) none],
      by simp [freshRV, World.tick], by simp [pausePatches], by simp [setPhase, freshRV, World.tick]⟩
  · exact ⟨rfl, rfl, [], by simp, by simp [pausePatches], fun h => h⟩

open Pko.Model.Remote in
/-- "passed" is relayed only from an Available=True condition stamped with the generation of the
object it is read from. -/
theorem relayStatus_true (p : OPhase) (co : List CRef) (h : relayStatus p = (co, true)) :
    ∃ c, findCond p.conds "Available" = some c ∧ c.status = "True" ∧ c.obsGen = p.gen ∧ co = p.controllerOf := by
  simp only [relayStatus] at h
  cases hc : findCond p.conds "Available" with
  | none => rw [hc] at h; simp at h
  | some c =>
    rw [hc] at h
    simp only at h
    by_cases hg : c.obsGen ≠ p.gen
    · simp [hg] at h
    · have hg' : c.obsGen = p.gen := by simpa using hg
      simp only [hg, ↓reduceIte, Prod.mk.injEq, decide_eq_true_eq] at h
      exact ⟨c, rfl, h.2, hg', h.1.symm⟩

open Pko.Model.Remote in
/-- **delegated_report_is_current** (post-state form): a delegated phase counts as passed only if
the phase object AS IT IS STORED WHEN THE PASS LOOKS AT ITS STATUS (after the pass's own pause
patch) carries Available=True with observedGeneration = its generation; the relayed controllerOf is
that object's. -/
theorem delegated_report_is_current (o : OSet) (ph : PhaseSpec) (w : World) (co : List CRef)
    (h : (remoteReconcile o ph w).2 = .ok (co, true)) :
    ∃ p c, (remoteReconcile o ph w).1.phases (phaseName o ph) = some p ∧
      findCond p.conds "Available" = some c ∧ c.status = "True" ∧ c.obsGen = p.gen ∧
      co = p.controllerOf := by
  cases hp : w.phases (phaseName o ph) with
  | none =>
    simp only [remoteReconcile, hp] at h
    simp [remoteContinue, propagatePause, desiredPhase, relayStatus, findCond] at h
  | some cur =>
    simp only [remoteReconcile, hp, remoteContinue, Except.ok.injEq] at h ⊢
    obtain ⟨c, hc, hs, hg, hco⟩ := relayStatus_true _ co h
    obtain ⟨_, _, evs, _, _, hst⟩ := propagatePause_spec o (phaseName o ph) cur
      { w with remoteRefs := addRemote w.remoteRefs (cur.name, cur.uid) }
    exact ⟨_, c, hst hp, hc, hs, hg, hco⟩

open Pko.Model.Remote in
/-- **delegated_report_for_generation_at_pass** (pre-state + trace form — what the monitor
evaluates on the implementation's trace): a delegated phase counts as passed only if the phase
object existed BEFORE the pass and its Available condition there is True with
observedGeneration = (generation before the pass) + (number of spec patches the pass itself
issued on it).  In particular a pass that flips `spec.paused` never trusts the report it finds
(`C15.passes_only_without_pause_flip`), and a pass that creates the phase object never does. -/
theorem delegated_report_for_generation_at_pass (o : OSet) (ph : PhaseSpec) (w : World) (co : List CRef)
    (h : (remoteReconcile o ph w).2 = .ok (co, true)) :
    ∃ cur c evs, w.phases (phaseName o ph) = some cur ∧
      (remoteReconcile o ph w).1.phaseEvents = w.phaseEvents ++ evs ∧
      findCond cur.conds "Available" = some c ∧ c.status = "True" ∧
      c.obsGen = cur.gen + pausePatches (phaseName o ph) evs := by
  cases hp : w.phases (phaseName o ph) with
  | none =>
    simp only [remoteReconcile, hp] at h
    simp [remoteContinue, propagatePause, desiredPhase, relayStatus, findCond] at h
  | some cur =>
    simp only [remoteReconcile, hp, remoteContinue, Except.ok.injEq] at h ⊢
    obtain ⟨c, hc, hs, hg, _⟩ := relayStatus_true _ co h
    obtain ⟨hconds, _, evs, hev, hgen, _⟩ := propagatePause_spec o (phaseName o ph) cur
      { w with remoteRefs := addRemote w.remoteRefs (cur.name, cur.uid) }
    rw [hconds] at hc
    rw [hgen] at hg
    exact ⟨cur, c, evs, rfl, hev, hc, hs, hg⟩

open Pko.Model.Remote in
/-- **available_true_delegated_current**: `available_true_justified` instantiated with the real
remote reconciler — every delegated phase that a pass found `Clean` (all of them, when the pass
writes Available=True) was judged on a report for the phase object's generation at the time of the
pass. -/
theorem available_true_delegated_current (cfg : Cfg) (s : Sys) (mem : OSet) (v : PhaseSpec × World)
    (hd : v.1.cls ≠ "")
    (hclean : Pko.Props.C03.Clean cfg mem.owner (lookupPrev s mem) (remotes.recon mem) v.1 v.2) :
    ∃ cur c evs, v.2.phases (phaseName mem v.1) = some cur ∧
      (remoteReconcile mem v.1 v.2).1.phaseEvents = v.2.phaseEvents ++ evs ∧
      findCond cur.conds "Available" = some c ∧ c.status = "True" ∧
      c.obsGen = cur.gen + pausePatches (phaseName mem v.1) evs := by
  unfold Pko.Props.C03.Clean at hclean
  rw [if_pos hd] at hclean
  obtain ⟨cr, h⟩ := hclean
  exact delegated_report_for_generation_at_pass mem v.1 v.2 cr h

open Pko.Model.Remote in
/-- Non-vacuity of the delegated clause, both ways: a phase object at generation 3 (paused, then
un-paused) whose Available=True still dates from generation 1 does NOT pass — neither when the
un-pausing patch is issued by this very pass (object found paused at generation 2) nor in a later
pass (found at generation 3) — while the same report made for generation 3 does. -/
example :
    let o : OSet := { (default : OSet) with kind := "ObjectSet", ns := "ns1", name := "os1", uid := "uid-1", gen := 3, revision := 1 }
    let ph : PhaseSpec := ⟨"p1", "default", []⟩
    let po (gen : Nat) (paused : Bool) (og : Nat) : OPhase :=
      { desiredPhase o ph with uid := "uid-2", gen := gen, rv := 5, paused := paused, conds := [⟨"Available", "True", "Available", og, ""⟩] }
    let w (p : OPhase) : World := { store := { objs := fun _ => none, nextUID := 3, nextRV := 6 }, writes := 0, env := [], events := [], phases := fun n => if n = "os1-p1" then some p else none }
    (remoteReconcile o ph (w (po 2 true 1))).2 = .ok ([], false) ∧
    (remoteReconcile o ph (w (po 3 false 1))).2 = .ok ([], false) ∧
    (remoteReconcile o ph (w (po 3 false 3))).2 = .ok ([], true) := by
  exact ⟨rfl, rfl, rfl⟩

/-- Non-vacuity: an ObjectSet whose single object exists, is controlled and Ready is reported
Available with that object in controllerOf, Succeeded, and not InTransition. -/
example :
    let o : OSet := { (default : OSet) with kind := "ObjectSet", ns := "ns1", name := "os1", uid := "uid-1", gen := 1, phases := [⟨"p1", "", [⟨"NsThing", "", "a", .prevent, "x", false, .accept⟩]⟩], revision := 1 }
    let d := deriveStatus o [⟨"NsThing", "ns1", "a"⟩] none
    condTrue d.conds "Available" = true ∧ condTrue d.conds "Succeeded" = true ∧ condTrue d.conds "InTransition" = false := by
  decide

end Pko.Props.C06
