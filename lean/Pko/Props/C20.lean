/-
Property C20 — Concurrent image pulls are de-duplicated without losing or sharing results.

Theorems are about `Pko.Model.ReqMgr` (the lock-atomic model of
`internal/packages/internal/packageimport/request_manager.go`, tied to the Go code by the
correspondence harness `harness/C20`).  A run is ANY list of steps `request c img` /
`complete img res`: that is every interleaving of request registration, pull completion and
response broadcast, for any number of callers and images.  `complete img res` is enabled only
while a pull goroutine for `img` exists (`enabled`, stated explicitly below); a disabled step
does not happen.  No bound on callers, images or steps appears anywhere.

That one call of `handleRequest` / `handleResponse` is one step rests on their lock scope.  It is
(1) read off the source on every run (`locks_cover_bodies`, `pull_runs_outside_lock`,
`only_lock_holders_touch_table`, `sent_package_is_fresh_copy` compare the regenerated
`Pko.Gen.ReqMgrLocks` with the expectation), and (2) justified against the statement-level model
`Pko.Model.ReqMgrFine`, in which the lock, each loop iteration of the broadcast and the deletion of
the entry are separate steps: a request attempted while a broadcast holds the lock does not
happen (`request_blocked_while_broadcasting`), every fine step is the lock-atomic steps of its
linearisation (`fine_step_linearizes`), so every statement-level interleaving, once the broadcast
in progress has finished, is a state of the lock-atomic machine (`fine_run_linearizes`) and all
theorems below transfer (`fine_at_most_one_pull`, `parked_request_served_after_broadcast`).
-/
import Pko.Model.ReqMgr
import Pko.Model.ReqMgrSpec
import Pko.Model.ReqMgrTrace
import Pko.Model.ReqMgrFine
import Pko.Gen.ReqMgrLocks
import Pko.Lemmas.C20Sends
import Pko.Lemmas.C20Inv
import Pko.Lemmas.C20Refine
import Pko.Lemmas.C20Fine
import Pko.Lemmas.C20Trace

namespace Pko.Props.C20
open Pko.Model Pko.Model.ReqMgr Pko.Model.ReqMgrTrace Pko.Lemmas.C20Sends Pko.Lemmas.C20Inv Pko.Lemmas
open Pko.Model.ReqMgrSpec (Spec abs)
open Pko.Model.ReqMgrFine (FState FOp fstep frun finit settled lin linRun)

/-! ### The explicit precondition of `complete` -/

/-- **complete_enabled_iff**: `handleResponse(img, _)` can run exactly when a pull goroutine for
`img` exists — the precondition of the `complete` step, stated explicitly. -/
theorem complete_enabled_iff (s : State) (img : Image) (res : Result) :
    enabled s (.complete img res) = true ↔ 0 < s.running img := by
  simp [enabled]

/-- The precondition is satisfiable: right after any request for `img` (in any reachable state)
a pull for `img` is running, so its completion is enabled. -/
theorem complete_enabled_after_request (ops : List Op) (c : Caller) (img : Image) (res : Result) :
    enabled (step (run init ops) (.request c img)) (.complete img res) = true := by
  have h := reachable_inv (ops ++ [.request c img])
  have hr : run init (ops ++ [.request c img]) = step (run init ops) (.request c img) := by simp [run]
  rw [hr] at h
  have hin : (step (run init ops) (.request c img)).inFlight img =
      some (((run init ops).inFlight img).getD [] ++ [(run init ops).nextRecv]) := by
    simp [step, enabled, apply, request]
  simp [enabled, (h.present img _ hin).1]

/-! ### Invariants over every interleaving -/

/-- **at_most_one_pull**: in every reachable state at most one pull per image is in flight. -/
theorem at_most_one_pull (ops : List Op) (img : Image) : (run init ops).running img ≤ 1 := by
  have h := reachable_inv ops
  cases hi : (run init ops).inFlight img with
  | none => simp [h.absent img hi]
  | some rs => simp [(h.present img rs hi).1]

/-- **running_iff_entry**: a pull for `img` is in flight iff the in-flight table has an entry for
`img` (so "is a pull running" can be read off the table, as `handleRequest` does). -/
theorem running_iff_entry (ops : List Op) (img : Image) :
    (run init ops).running img = 1 ↔ ((run init ops).inFlight img).isSome := by
  have h := reachable_inv ops
  cases hi : (run init ops).inFlight img with
  | none => simp [h.absent img hi]
  | some rs => simp [(h.present img rs hi).1]

/-- Without a table entry there is no pull goroutine at all (not merely "not exactly one"). -/
theorem no_entry_no_pull (ops : List Op) (img : Image) (hi : (run init ops).inFlight img = none) :
    (run init ops).running img = 0 :=
  (reachable_inv ops).absent img hi

/-- An entry always holds at least one receiver and no receiver twice. -/
theorem entry_nonempty_nodup (ops : List Op) (img : Image) (rs : List Recv)
    (hi : (run init ops).inFlight img = some rs) : rs ≠ [] ∧ rs.Nodup :=
  ((reachable_inv ops).present img rs hi).2

/-- **each_receiver_at_most_one_response**: over the whole history no receiver channel is ever
sent more than one response — no caller can get two answers, and the buffer of one is never
exceeded, so the broadcast under the lock never blocks. -/
theorem each_receiver_at_most_one_response (ops : List Op) (r : Recv) :
    ((run init ops).delivered r).length ≤ 1 :=
  (reachable_inv ops).once r

/-- **no_lost_wakeup**: a registered receiver has not been answered yet, and the pull that will
answer it is running: its completion is enabled (for whatever result). -/
theorem no_lost_wakeup (ops : List Op) (img : Image) (rs : List Recv) (r : Recv) (res : Result)
    (hi : (run init ops).inFlight img = some rs) (hr : r ∈ rs) :
    (run init ops).delivered r = [] ∧ enabled (run init ops) (.complete img res) = true := by
  have h := reachable_inv ops
  exact ⟨(h.waiting img rs r hi hr).2, by simp [enabled, (h.present img rs hi).1]⟩

/-- A registration is only ever removed by the completion of its own image's pull: every other
step (requests for any image, completions of other images, disabled steps) keeps it. -/
theorem registration_persists (ops : List Op) (img : Image) (rs : List Recv) (r : Recv) (op : Op)
    (hi : (run init ops).inFlight img = some rs) (hr : r ∈ rs)
    (hop : ∀ res, op ≠ .complete img res) :
    ∃ rs', (step (run init ops) op).inFlight img = some rs' ∧ r ∈ rs' := by
  unfold step
  split
  · cases op with
    | request c i =>
      by_cases hii : img = i
      · subst hii; exact ⟨rs ++ [(run init ops).nextRecv], by simp [apply, request, hi], by simp [hr]⟩
      · exact ⟨rs, by simp [apply, request, hii, hi], hr⟩
    | complete i res =>
      have hii : img ≠ i := fun he => hop res (by rw [he])
      exact ⟨rs, by simp [apply, complete, hii, hi], hr⟩
  · exact ⟨rs, hi, hr⟩

/-- **complete_answers_all_registered**: when the pull for `img` completes with `res`, every
receiver registered at that moment ends up with exactly one response, carrying `res`. -/
theorem complete_answers_all_registered (ops : List Op) (img : Image) (rs : List Recv) (r : Recv)
    (res : Result) (hi : (run init ops).inFlight img = some rs) (hr : r ∈ rs) :
    ∃ c, (step (run init ops) (.complete img res)).delivered r = [{ res := res, copy := c }] := by
  have h := reachable_inv ops
  have hen := (no_lost_wakeup ops img rs r res hi hr)
  obtain ⟨c, hc⟩ := deliver_mem (d := (run init ops).delivered) (res := res)
    (t := (run init ops).nextTok) (h.present img rs hi).2.2 hr
  refine ⟨c, ?_⟩
  simp only [step, hen.2, ↓reduceIte, apply, complete, completeOut, hi, Option.getD_some]
  rw [hc, hen.1]; rfl

/-- ... and nobody else is sent anything by that completion. -/
theorem complete_answers_only_registered (ops : List Op) (img : Image) (r : Recv) (res : Result)
    (hr : r ∉ ((run init ops).inFlight img).getD []) :
    (step (run init ops) (.complete img res)).delivered r = (run init ops).delivered r := by
  unfold step
  split
  · simp only [apply, complete, completeOut]; exact deliver_not_mem hr
  · rfl

/-- A request registers its (fresh) receiver and leaves exactly one pull for the image running. -/
theorem request_registers (ops : List Op) (c : Caller) (img : Image) :
    let s := run init ops
    let s' := step s (.request c img)
    (∃ rs, s'.inFlight img = some rs ∧ s.nextRecv ∈ rs) ∧ s'.running img = 1 ∧
      s'.delivered s.nextRecv = [] := by
  intro s s'
  have h' : RInv s' := step_inv s _ (reachable_inv ops)
  have hin : s'.inFlight img = some ((s.inFlight img).getD [] ++ [s.nextRecv]) := by
    simp [s', step, enabled, apply, request]
  refine ⟨⟨_, hin, by simp⟩, (h'.present img _ hin).1, ?_⟩
  exact (h'.waiting img _ s.nextRecv hin (by simp)).2

/-- A request that finds no entry starts a pull; one that finds an entry starts none. -/
theorem request_starts_pull_iff_no_entry (s : State) (c : Caller) (img : Image) :
    (step s (.request c img)).started img =
      if (s.inFlight img).isNone then s.started img + 1 else s.started img := by
  simp [step, enabled, apply, request]

/-- **late_request_starts_fresh_pull**: once the response for `img` has been broadcast the entry
is gone and no pull is running; the next request for `img` starts a new pull and is the only
receiver registered for it (so it will be answered by that pull, not wait forever). -/
theorem late_request_starts_fresh_pull (ops : List Op) (c : Caller) (img : Image) (res : Result)
    (hen : enabled (run init ops) (.complete img res) = true) :
    let s1 := step (run init ops) (.complete img res)
    let s2 := step s1 (.request c img)
    s1.inFlight img = none ∧ s1.running img = 0 ∧
    s2.started img = s1.started img + 1 ∧ s2.running img = 1 ∧ s2.inFlight img = some [s1.nextRecv] := by
  intro s1 s2
  have h1 : s1.inFlight img = none := by simp [s1, step, hen, apply, complete]
  have hI1 : RInv s1 := step_inv _ _ (reachable_inv ops)
  have h2 : s2.inFlight img = some [s1.nextRecv] := by
    simp [s2, step, enabled, apply, request, h1]
  have hI2 : RInv s2 := step_inv _ _ hI1
  refine ⟨h1, hI1.absent img h1, ?_, (hI2.present img _ h2).1, h2⟩
  simp [s2, step, enabled, apply, request, h1]

/-! ### Progress for any number of images in flight

Nothing in `handleRequest` / `handleResponse` waits for anything but `inFlightLock` (which is only
held for the body of one of the two, `locks_cover_bodies`) and a send into a channel with a free
buffer slot (`each_receiver_at_most_one_response`): a request is a step that is always enabled and
the completion of a pull is enabled whenever that pull is in flight - however many OTHER images
have a pull in flight at that moment.  The three theorems below say so explicitly; there is no
bound on the number of images anywhere in the model (a bound on concurrent pulls that is waited
for inside the lock scope has no counterpart here and shows as `TIMEOUT` in the streams). -/

/-- a registration survives every list of steps that does not complete its own image's pull -/
theorem registration_persists_run (pre mid : List Op) (img : Image) (r : Recv)
    (hP : ∃ rs, (run init pre).inFlight img = some rs ∧ r ∈ rs)
    (hmid : ∀ op ∈ mid, ∀ res, op ≠ .complete img res) :
    ∃ rs, (run init (pre ++ mid)).inFlight img = some rs ∧ r ∈ rs := by
  induction mid generalizing pre with
  | nil => simpa using hP
  | cons op mid ih =>
    have h1 : ∃ rs, (run init (pre ++ [op])).inFlight img = some rs ∧ r ∈ rs := by
      obtain ⟨rs, hi, hr⟩ := hP
      have h := registration_persists pre img rs r op hi hr (fun res => hmid op (by simp) res)
      have hrun : run init (pre ++ [op]) = step (run init pre) op := by simp [run]
      rw [hrun]; exact h
    have h2 := ih (pre ++ [op]) h1 (fun o ho => hmid o (by simp [ho]))
    simpa using h2

/-- **request_answered_once_its_pull_completes** (progress, any number of images): after ANY
history `ops`, a request of caller `c` for `img` goes through at once (a request is always
enabled: it never waits for the pulls of other images), and after ANY further steps `mid` that do
not complete `img`'s pull - requests of any callers for any images, so any number of distinct
images with a pull in flight at the same time, completions of other images, disabled steps - the
completion of `img`'s pull is enabled and hands the request's receiver exactly one response,
carrying the pull's result. -/
theorem request_answered_once_its_pull_completes (ops mid : List Op) (c : Caller) (img : Image)
    (res : Result) (hmid : ∀ op ∈ mid, ∀ r, op ≠ .complete img r) :
    let r := (run init ops).nextRecv
    let s1 := run init (ops ++ [.request c img] ++ mid)
    enabled (run init ops) (.request c img) = true ∧
    enabled s1 (.complete img res) = true ∧
    ∃ cp, (step s1 (.complete img res)).delivered r = [{ res := res, copy := cp }] := by
  intro r s1
  have hreg := (request_registers ops c img).1
  have hrun : run init (ops ++ [.request c img]) = step (run init ops) (.request c img) := by
    simp [run]
  have hP : ∃ rs, (run init (ops ++ [.request c img])).inFlight img = some rs ∧ r ∈ rs := by
    rw [hrun]; exact hreg
  obtain ⟨rs, hi, hr⟩ := registration_persists_run (ops ++ [.request c img]) mid img r hP hmid
  exact ⟨rfl, (no_lost_wakeup _ img rs r res hi hr).2,
    complete_answers_all_registered _ img rs r res hi hr⟩

/-- **pulls_unbounded**: for EVERY `n` the state in which `n` callers have asked for `n` distinct
images is reachable and has `n` pulls in flight at the same time, one per image - the request
manager does not bound the number of concurrent pulls (and, by the theorem above, every one of
these requests and every further one is answered once its pull completes). -/
theorem pulls_unbounded (n : Nat) :
    let s := run init ((List.range n).map fun i => Op.request i i)
    ∀ i, i < n → s.running i = 1 ∧ (s.inFlight i).isSome := by
  intro s i hi
  suffices h : ∀ n i, i < n →
      ((run init ((List.range n).map fun i => Op.request i i)).inFlight i).isSome from
    ⟨(running_iff_entry _ i).2 (h n i hi), h n i hi⟩
  intro n
  induction n with
  | zero => intro i hi; omega
  | succ n ih =>
    intro i hi
    have hrun : run init ((List.range (n + 1)).map fun i => Op.request i i) =
        step (run init ((List.range n).map fun i => Op.request i i)) (.request n n) := by
      simp [List.range_succ, run]
    rw [hrun]
    by_cases hin : i = n
    · subst hin
      obtain ⟨rs, h, _⟩ := (request_registers ((List.range i).map fun i => Op.request i i) i i).1
      simp [h]
    · have hlt : i < n := by omega
      obtain ⟨rs, hrs⟩ := Option.isSome_iff_exists.mp (ih i hlt)
      have hne := (entry_nonempty_nodup _ i rs hrs).1
      obtain ⟨r, hr⟩ := List.exists_mem_of_ne_nil rs hne
      obtain ⟨rs', h', _⟩ := registration_persists _ i rs r (.request n n) hrs hr (by simp)
      simp [h']

/-- **cancel_has_no_effect** (modelled behaviour of the code that exists): `Pull` blocks in
`res := <-r.handleRequest(ctx, image)` - it does not look at its context while it waits, and the
pull goroutine is not stopped by it - so cancelling the context a caller passed to `Pull` is not a
step of the request manager at all: on every machine a scenario's `cancel c` leaves the state as
it is (the in-flight table keeps the caller's receiver, `at_most_one_pull` keeps holding, and the
caller is answered when the pull completes: `request_answered_once_its_pull_completes`). -/
theorem cancel_has_no_effect {σ : Type} (n : Nat) (m : Machine σ) (s : σ) (c : Caller) :
    (stepRec n m s (.cancel c)).2 = s := rfl

/-- **private_copies**: the responses of one broadcast are pairwise distinct copies — two sends of
the same `handleResponse` that carry the same package object are the same send. -/
theorem private_copies (ops : List Op) (img : Image) (res : Result) (p q : Recv × Response) (t : Tok)
    (hp : p ∈ completeOut (run init ops) img res) (hq : q ∈ completeOut (run init ops) img res)
    (hpt : p.2.copy = some t) (hqt : q.2.copy = some t) : p = q := by
  have h := reachable_inv ops
  have hnd : (((run init ops).inFlight img).getD []).Nodup := by
    cases hi : (run init ops).inFlight img with
    | none => simp
    | some rs => simpa using (h.present img rs hi).2.2
  exact sends_tok_inj hnd hp hq hpt hqt

/-- A package result is handed to every receiver as a (non-nil) copy; an error carries none. -/
theorem package_response_has_copy (s : State) (img : Image) (res : Result) (p : Recv × Response)
    (hp : p ∈ completeOut s img res) : p.2.res = res ∧ p.2.copy.isSome = isPkg res :=
  ⟨sends_res hp, sends_copy_isSome hp⟩

/-- **copies_never_shared**: over the whole history, across all broadcasts and images, no package
object is ever handed to two different receivers. -/
theorem copies_never_shared (ops : List Op) (r r' : Recv) (resp resp' : Response) (t : Tok)
    (h1 : resp ∈ (run init ops).delivered r) (h2 : resp' ∈ (run init ops).delivered r')
    (ht : resp.copy = some t) (ht' : resp'.copy = some t) : r = r' :=
  (reachable_inv ops).tokUnique r r' resp resp' t h1 h2 ht ht'

/-! ### Refinement: the machine behaves like the specification written from the sentence -/

/-- **step_refines**: one step of the model, in a state satisfying the representation invariant,
is one step of the specification on the abstracted state. -/
theorem step_refines (s : State) (op : Op) (h : RInv s) :
    abs (step s op) = ReqMgrSpec.step (abs s) op := C20Refine.step_refines s op h

/-- **run_refines**: every step list on the model is, step for step, a run of the abstract
"one pull per image, one answer per waiting caller" specification. -/
theorem run_refines (ops : List Op) : abs (run init ops) = ReqMgrSpec.run ReqMgrSpec.init ops := by
  suffices ∀ s, RInv s → abs (run s ops) = ReqMgrSpec.run (abs s) ops from this init inv_init
  induction ops with
  | nil => intro s _; rfl
  | cons op ops ih =>
    intro s h
    simp only [run, ReqMgrSpec.run, List.foldl_cons]
    rw [← step_refines s op h]
    exact ih _ (step_inv s op h)

/-! ### The monitored predicate holds of the model -/

/-- **model_obs_eq_spec** (monitor ↔ model, one step): what the correspondence harness observes
of any step of the model in any reachable state — whether it happened, pulls started / in flight
per image, which callers returned with which result, how many returned packages are aliased — is
exactly the observation the specification prescribes (`ReqMgrSpec.obsStep`: in particular zero
aliased packages and at most one pull in flight). -/
theorem model_obs_eq_spec (n : Nat) (ops : List Op) (op : Op) :
    ReqMgr.obsStep n (run init ops) op =
      ReqMgrSpec.obsStep n (ReqMgrSpec.run ReqMgrSpec.init ops) op := by
  rw [← run_refines]
  exact C20Refine.obs_refines n _ op (reachable_inv ops)

/-- **model_trace_collapse_eq_spec** (monitor ↔ model, whole scenario): for EVERY scenario the
harness can execute (requests, busy callers, completions, disabled completions, parked
completions with requests arriving in the middle of the broadcast, final drain) the trace of the
model of the Go code - parked broadcasts executed statement by statement on `ReqMgrFine` and
looked at once they are over (`collapse`) - is, record for record, the trace of the
specification.  The driver's `model` prints `trace modelMachine steps`; its `monitor` collapses the
implementation's records of every parked broadcast in the same way and accepts the line iff the
result equals `traceC specMachine steps`: the model satisfies the monitored property on every
scenario. -/
theorem model_trace_collapse_eq_spec (n : Nat) (steps : List SStep) :
    traceC n modelMachine steps = traceC n specMachine steps := by
  have h0 : C20Refine.Sim modelMachine.init specMachine.init := ⟨inv_init, rfl⟩
  have h1 := C20Trace.runSteps_sim n steps _ _ h0
  have h2 := C20Trace.drain_sim n (List.range n) _ _ h1.2
  simp only [traceC, traceG, List.map_append, List.map_cons, List.map_nil]
  rw [h1.1, h2.1]
  have : modelMachine.view (drain n modelMachine (runSteps n modelMachine modelMachine.init steps).2 (List.range n)).2
      = specMachine.view (drain n specMachine (runSteps n specMachine specMachine.init steps).2 (List.range n)).2 := h2.2.2
  rw [this]

/-- Without parked broadcasts every step prints exactly one record (on any machine), so judging
the collapsed trace is judging the printed one. -/
theorem trace_eq_traceC_of_no_park {σ : Type} (n : Nat) (m : Machine σ) (steps : List SStep)
    (hnp : ∀ st ∈ steps, st.isPark = false) : trace n m steps = traceC n m steps := by
  have hone : ∀ (l : List Grp), (∀ g ∈ l, ∃ r, g = .one r) → l.flatMap flat = l.map collapse := by
    intro l hl
    induction l with
    | nil => rfl
    | cons g l ih =>
      obtain ⟨r, rfl⟩ := hl g (by simp)
      simp only [List.flatMap_cons, List.map_cons, flat, collapse, List.singleton_append]
      rw [ih (fun g hg => hl g (by simp [hg]))]
  have hrun : ∀ (sts : List SStep) (s : σ), (∀ st ∈ sts, st.isPark = false) →
      ∀ g ∈ (runSteps n m s sts).1, ∃ r, g = .one r := by
    intro sts
    induction sts with
    | nil => intro s _ g hg; simp [runSteps] at hg
    | cons st sts ih =>
      intro s hs g hg
      simp only [runSteps, List.mem_cons] at hg
      rcases hg with hg | hg
      · have hst := hs st (by simp)
        cases st with
        | req c i => simp only [stepRec] at hg; split at hg <;> exact ⟨_, hg⟩
        | done i e => exact ⟨_, hg⟩
        | park i e k mid => simp [SStep.isPark] at hst
        | cancel c => exact ⟨_, hg⟩
        | bad => exact ⟨_, hg⟩
      · exact ih _ (fun st h => hs st (by simp [h])) g hg
  have hdrain : ∀ (is : List Image) (s : σ), ∀ g ∈ (drain n m s is).1, ∃ r, g = .one r := by
    intro is
    induction is with
    | nil => intro s g hg; simp [drain] at hg
    | cons i is ih =>
      intro s g hg
      simp only [drain] at hg
      split at hg
      · simp only [List.mem_cons] at hg
        rcases hg with hg | hg
        · exact ⟨_, hg⟩
        · exact ih _ g hg
      · exact ih _ g hg
  apply hone
  intro g hg
  simp only [traceG, List.mem_append, List.mem_cons, List.not_mem_nil, or_false] at hg
  rcases hg with (hg | hg) | hg
  · exact hrun steps _ hnp g hg
  · exact hdrain _ _ g hg
  · exact ⟨_, hg⟩

/-- **model_trace_eq_spec_trace**: for every scenario without parked broadcasts (stream `seq`)
the printed trace of the model of the Go code is, record for record, the printed trace of the
specification. -/
theorem model_trace_eq_spec_trace (n : Nat) (steps : List SStep) (hnp : ∀ st ∈ steps, st.isPark = false) :
    trace n modelMachine steps = trace n specMachine steps := by
  rw [trace_eq_traceC_of_no_park n _ steps hnp, trace_eq_traceC_of_no_park n _ steps hnp]
  exact model_trace_collapse_eq_spec n steps

/-! ### Atomicity: the lock scope, read off the source, and what it buys -/

/-- expectation for `Pko.Gen.ReqMgrLocks.reqMgrLocks`:
(method, lock kind, index of the lock statement, `defer Unlock()` directly after it, further calls
on the mutex, in-flight table used outside the critical section) -/
def expectedLocks : List (String × String × Nat × Bool × Nat × Bool) := [
  ("handleRequest", "Lock", 0, true, 0, false),
  ("handleResponse", "Lock", 0, true, 0, false)]

/-- **locks_cover_bodies**: `handleRequest` and `handleResponse` take `inFlightLock` as their first
statement, release it only through the `defer Unlock()` that follows directly (no other call on
the mutex: no early unlock, no re-lock) and use `r.inFlight` neither before the lock nor inside a
function literal: one call = one critical section = one step of `ReqMgr`.  Breaks when a critical
section is narrowed or split. -/
theorem locks_cover_bodies : Pko.Gen.ReqMgrLocks.reqMgrLocks = expectedLocks := by decide

/-- **pull_runs_outside_lock**: the only goroutine started is the one in `handleRequest`, and it
calls `pullImage` and then `handleResponse` (which takes the lock itself): the pull happens
between a `request` step and its `complete` step, outside the lock. -/
theorem pull_runs_outside_lock :
    Pko.Gen.ReqMgrLocks.reqMgrGo =
      [("handleRequest", [["pullImage", "handleResponse"]]), ("handleResponse", [])] ∧
    Pko.Gen.ReqMgrLocks.reqMgrCallers =
      [("handleRequest", ["Pull"]), ("handleResponse", ["handleRequest"])] := by decide

/-- **only_lock_holders_touch_table**: no other function of the package reads or writes
`inFlight` (the constructor initialises it in a composite literal). -/
theorem only_lock_holders_touch_table :
    Pko.Gen.ReqMgrLocks.reqMgrInFlightUsers = ["handleRequest", "handleResponse"] := by decide

/-- **sent_package_is_fresh_copy**: the one send in `handleResponse` hands over a variable that is
declared nil and only ever assigned `res.RawPackage.DeepCopy()` (`ReqMgr.copyOf`: nil or a fresh
object per receiver; the pulled package itself is never handed out). -/
theorem sent_package_is_fresh_copy :
    Pko.Gen.ReqMgrLocks.reqMgrSent = [("recv", "rawPkg", true, ["res.RawPackage.DeepCopy()"])] := by
  decide

/-- **nothing_waits_under_the_lock**: inside the critical sections nothing can wait -
`handleRequest` contains no channel operation, `select`, further lock or wait at all (outside the
body of the goroutine it starts), `handleResponse` only the send to the receivers, and those are
channels made with a buffer of one (never exceeded: `each_receiver_at_most_one_response`).  So a
step of `ReqMgr` never waits for another goroutine while it holds `inFlightLock` - what makes "a
request is always enabled" and "the completion of a pull in flight is always enabled" true of the
code and not only of the model (`request_answered_once_its_pull_completes`).  Breaks when e.g. a
semaphore is acquired inside the lock scope. -/
theorem nothing_waits_under_the_lock :
    Pko.Gen.ReqMgrLocks.reqMgrBlocking = [("handleRequest", []), ("handleResponse", ["send recv"])] ∧
    Pko.Gen.ReqMgrLocks.reqMgrChanMakes = ["make(chan response, 1)"] := by decide

/-- **request_blocked_while_broadcasting**: in the statement-level model a `handleRequest` that
arrives while `handleResponse` holds the lock (anywhere between its `Lock()` and the deletion of
the entry) does not happen: nothing is registered in the entry that is about to be deleted. -/
theorem request_blocked_while_broadcasting (s : FState) (c : Caller) (img : Image)
    (h : s.bc.isSome) : fstep s (.request c img) = s := by
  obtain ⟨b, bc⟩ := s
  cases bc with
  | none => simp at h
  | some x => rfl

/-- **fine_step_linearizes**: every statement-level step, looked at after the broadcast in
progress has run to its end, is the lock-atomic steps of its linearisation (a request or a
completion at the moment it takes the lock; nothing for loop iterations, the unlock and blocked
attempts). -/
theorem fine_step_linearizes (s : FState) (op : FOp) :
    settled (fstep s op) = run (settled s) (lin s op) := C20Fine.settled_fstep s op

/-- **fine_run_linearizes**: every statement-level interleaving (requests attempted at any point,
including between two sends of a broadcast and between the last send and the deletion of the
entry) ends, once the broadcast in progress has finished, in a state the lock-atomic machine
reaches by the linearised steps. -/
theorem fine_run_linearizes (fops : List FOp) :
    settled (frun finit fops) = run init (linRun finit fops) := C20Fine.settled_frun finit fops

/-- ... hence the invariants of the lock-atomic machine hold at statement level, e.g. at most one
pull per image. -/
theorem fine_at_most_one_pull (fops : List FOp) (img : Image) :
    (settled (frun finit fops)).running img ≤ 1 := by
  rw [fine_run_linearizes]; exact at_most_one_pull _ img

/-- **parked_request_served_after_broadcast**: run a completion statement by statement, stop it
after any number `k` of sends, let any requests arrive (`mid`; the runner issues those whose
caller is free), let it finish: the state reached is the one in which the completion happened
first and the requests after it - a request arriving during a broadcast is neither lost nor
answered by it, it starts a fresh pull. -/
theorem parked_request_served_after_broadcast (n : Nat) (ops : List Op) (i : Image) (res : Result) (k : Nat)
    (mid : List (Caller × Image)) (ws : List Recv) (hi : (run init ops).inFlight i = some ws) :
    (parkModel n (run init ops) i res k mid).2 =
      run (run init ops) (.complete i res :: planOps (midPlan (abs (run init ops)) i k mid [] [])) := by
  rw [C20Fine.parkModel_state n _ (reachable_inv ops) i res k mid ws hi]
  rfl

/-! ### Non-vacuity -/

/-- The precondition of `complete` is satisfiable (and not always true). -/
example : enabled (run init [.request 0 0]) (.complete 0 (.pkg 7)) = true ∧
    enabled (run init [.request 0 0]) (.complete 1 (.pkg 7)) = false ∧
    enabled (run init [.request 0 0, .complete 0 (.pkg 7)]) (.complete 0 (.pkg 7)) = false := by
  decide

/-- A concrete history: two callers share the first pull of image 0 and get distinct copies of its
package, a third waits on image 1, a late request for image 0 starts pull number two and gets
its error; every receiver ends with exactly one response. -/
example :
    let s := run init [.request 0 0, .request 1 0, .request 2 1, .complete 0 (.pkg 5),
                       .request 0 0, .complete 0 (.err 1), .complete 1 (.pkg 6), .complete 1 (.pkg 9)]
    s.delivered 0 = [⟨.pkg 5, some 0⟩] ∧ s.delivered 1 = [⟨.pkg 5, some 1⟩] ∧
    s.delivered 2 = [⟨.pkg 6, some 2⟩] ∧ s.delivered 3 = [⟨.err 1, none⟩] ∧
    s.started 0 = 2 ∧ s.started 1 = 1 ∧ s.running 0 = 0 ∧ s.inFlight 0 = none := by
  decide

/-- A concrete scenario run through `trace` on the model of the Go code: two callers share pull 1
of image 0 and both return its package un-aliased, a busy caller's second request is skipped, a
completion without a pull in flight does nothing, the late request starts pull 2, which the final
drain completes; nobody is left waiting. -/
example :
    trace 2 modelMachine [.req 0 0, .req 1 0, .req 1 1, .done 1 false, .done 0 false, .req 2 0] =
      [ .step "q" ⟨true, [1, 0], [1, 0], [], 0⟩, .step "q" ⟨true, [1, 0], [1, 0], [], 0⟩,
        .step "b" ⟨false, [1, 0], [1, 0], [], 0⟩, .step "n" ⟨false, [1, 0], [1, 0], [], 0⟩,
        .step "d" ⟨true, [1, 0], [0, 0], [(0, .pkg 1), (1, .pkg 1)], 0⟩,
        .step "q" ⟨true, [2, 0], [1, 0], [], 0⟩,
        .step "D" ⟨true, [2, 0], [0, 0], [(2, .pkg 2)], 0⟩, .fin 0 ] := by
  decide

/-- Five images in flight at the same time and a cancellation, through `trace` on the model of the
Go code: the request for image 4 goes through while four pulls are running; the context of the
only waiter of image 0 is cancelled (`x`: no effect), so the next request for image 0 joins the
pull in flight (no second pull: `started` stays 1) and both are answered by it; cancelling an idle
caller's context is nothing (`y`); the drain answers everybody else. -/
example :
    trace 5 modelMachine [.req 0 0, .req 1 1, .req 2 2, .req 3 3, .req 4 4, .cancel 0, .req 5 0,
        .done 0 false, .cancel 0] =
      [ .step "q" ⟨true, [1, 0, 0, 0, 0], [1, 0, 0, 0, 0], [], 0⟩,
        .step "q" ⟨true, [1, 1, 0, 0, 0], [1, 1, 0, 0, 0], [], 0⟩,
        .step "q" ⟨true, [1, 1, 1, 0, 0], [1, 1, 1, 0, 0], [], 0⟩,
        .step "q" ⟨true, [1, 1, 1, 1, 0], [1, 1, 1, 1, 0], [], 0⟩,
        .step "q" ⟨true, [1, 1, 1, 1, 1], [1, 1, 1, 1, 1], [], 0⟩,
        .step "x" ⟨false, [1, 1, 1, 1, 1], [1, 1, 1, 1, 1], [], 0⟩,
        .step "q" ⟨true, [1, 1, 1, 1, 1], [1, 1, 1, 1, 1], [], 0⟩,
        .step "d" ⟨true, [1, 1, 1, 1, 1], [0, 1, 1, 1, 1], [(0, .pkg 1), (5, .pkg 1)], 0⟩,
        .step "y" ⟨false, [1, 1, 1, 1, 1], [0, 1, 1, 1, 1], [], 0⟩,
        .step "D" ⟨true, [1, 1, 1, 1, 1], [0, 0, 1, 1, 1], [(1, .pkg 1001)], 0⟩,
        .step "D" ⟨true, [1, 1, 1, 1, 1], [0, 0, 0, 1, 1], [(2, .pkg 2001)], 0⟩,
        .step "D" ⟨true, [1, 1, 1, 1, 1], [0, 0, 0, 0, 1], [(3, .pkg 3001)], 0⟩,
        .step "D" ⟨true, [1, 1, 1, 1, 1], [0, 0, 0, 0, 0], [(4, .pkg 4001)], 0⟩, .fin 0 ] := by
  decide

/-- A parked broadcast, statement by statement: callers 0 and 1 wait for pull 1 of image 0; the
broadcast is parked after the first send (caller 0 answered, `P`); caller 0 asks for image 0 again
(`w`: blocked on the lock), caller 1 cannot (still in `Pull`, `b`), caller 2's request for image 0
is not issued either (one pending request per image, `b`); after the broadcast caller 1 is
answered and caller 0's request has started pull 2 (`U`), which the drain completes. -/
example :
    trace 2 modelMachine [.req 0 0, .req 1 0, .park 0 false 1 [(0, 0), (1, 0), (2, 0)]] =
      [ .step "q" ⟨true, [1, 0], [1, 0], [], 0⟩, .step "q" ⟨true, [1, 0], [1, 0], [], 0⟩,
        .step "P" ⟨true, [1, 0], [0, 0], [(0, .pkg 1)], 0⟩,
        .step "w" ⟨false, [1, 0], [0, 0], [], 0⟩, .step "b" ⟨false, [1, 0], [0, 0], [], 0⟩,
        .step "b" ⟨false, [1, 0], [0, 0], [], 0⟩,
        .step "U" ⟨true, [2, 0], [1, 0], [(1, .pkg 1)], 0⟩,
        .step "D" ⟨true, [2, 0], [0, 0], [(0, .pkg 2)], 0⟩, .fin 0 ] ∧
    traceC 2 specMachine [.req 0 0, .req 1 0, .park 0 false 1 [(0, 0), (1, 0), (2, 0)]] =
      [ .step "q" ⟨true, [1, 0], [1, 0], [], 0⟩, .step "q" ⟨true, [1, 0], [1, 0], [], 0⟩,
        .step "U" ⟨true, [2, 0], [1, 0], [(0, .pkg 1), (1, .pkg 1)], 0⟩,
        .step "D" ⟨true, [2, 0], [0, 0], [(0, .pkg 2)], 0⟩, .fin 0 ] := by
  decide

end Pko.Props.C20
