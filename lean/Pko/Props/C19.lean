/-
Property C19 — No package content or cluster object state can crash Package Operator.

PARTIAL by nature.  What is PROVED here, for ALL inputs (every JSON shape, every string, every
result a leaf library may hand back), is that the modelled PKO functions never reach a `panic`
branch of `Pko.Model.Panic` — the branches sit exactly at the Go sites that can panic.  What ties
this to the code: (1) the correspondence run (`harness/C19`, streams cond/tmpl/render) diffs the
real functions against the model on generated inputs, (2) `census_classified` pins the set of
syntactic panic sites of the packages on the untrusted-input path to the hand classification in
`Pko.Model.PanicCensusExpect`.  What is NOT proved: sites classified `guarded`/`startupOnly` (read
from the code), everything below the PKO code (YAML, text/template, go-containerregistry,
kubeconform, jsonpath, CEL) — those are only exercised by the exploration streams
(render `renderX`, structure, import), and unbounded recursion (a Go stack overflow is fatal; the
harness has a watchdog for hangs only).

The model is of the tree WITH findings/C19-a, C19-b, C19-c, C19-e applied; the
`legacy_*_counterexample` theorems show each of the four defects on the pre-fix shape.

CLI side (`kubectl package tree`, section "config resolution"): `Pko.Model.TreeConfig` models
`(*Tree).getConfig` / `getTemplateContext` / `RenderPackage` with the nil-map write of
`defaulting.Default` (reached through `AdmitPackageConfiguration`) as its panic branch;
`no_panic_treeRenderPackage` proves it unreachable for every combination of --config-path,
--config-testcase, test templates, schema and scope, because `getConfig` never returns the nil map
(`getConfig_ok_nonnil`).  Stream `cli` ties that model to the real entry points.
-/
import Pko.Model.Panic
import Pko.Model.PanicCensusExpect
import Pko.Gen.PanicCensus
import Pko.Model.PanicScn
import Pko.Model.TreeConfig
import Pko.Lemmas.C19Tree

namespace Pko.Props.C19
open Pko.Model.Panic
open Pko.Model.Panic.Outcome (ok err panic)

/-! ## generic facts about `Outcome` -/

theorem map_ne_panic {α β} (f : α → β) (x : Outcome α) (h : x ≠ .panic) : x.map f ≠ .panic := by
  cases x <;> simp_all [Outcome.map]

theorem bind_ne_panic {α β} (x : Outcome α) (f : α → Outcome β) (hx : x ≠ .panic)
    (hf : ∀ a, x = .ok a → f a ≠ .panic) : x.bind f ≠ .panic := by
  cases x with
  | ok a => simpa [Outcome.bind] using hf a rfl
  | err => simp [Outcome.bind]
  | panic => exact absurd rfl hx

/-- `xs[i]` does not panic when `i` is in range. -/
theorem idx_ne_panic {α} (xs : List α) (i : Nat) (h : i < xs.length) : idx xs i ≠ .panic := by
  unfold idx
  rw [List.getElem?_eq_getElem h]
  simp

/-! ## `mapConditions` -/

/-- **`mapConditions` never panics**, for every list of condition mappings and every shape of the
actual object (status absent, null, scalar, list; conditions of any shape; conditions with
missing / ill-typed fields …). -/
theorem no_panic_mapConditions (maps : List (String × String)) (o : JVal) :
    mapConditions maps o ≠ .panic := by
  unfold mapConditions
  split
  · simp
  · split
    · simp
    · simp
    · split <;> simp

/-! ## `updateStatusConditionsFromOwnedObject` (fixed by C19-a) -/

theorem no_panic_updCond (gen : Int) (acc : List (String × String)) (c : JVal) :
    updCond gen acc c ≠ .panic := by
  unfold updCond
  repeat' split
  all_goals first | (simp; done) | (simp; split <;> simp)

theorem no_panic_updLoop (gen : Int) (cs : List JVal) :
    ∀ acc, updLoop gen acc cs ≠ .panic := by
  induction cs with
  | nil => intro acc; simp [updLoop]
  | cons c cs ih =>
    intro acc
    unfold updLoop
    have h := no_panic_updCond gen acc c
    split
    · exact ih _
    · simp
    · rename_i hp; exact absurd hp h

/-- **`updateStatusConditionsFromOwnedObject` never panics** (fixed code), for every owned-object
shape and every ObjectTemplate generation. -/
theorem no_panic_updateStatus (tgen : Int) (o : JVal) : updateStatus tgen o ≠ .panic := by
  unfold updateStatus
  repeat' split
  all_goals first
    | exact no_panic_updLoop _ _ _
    | (simp; done)
    | (dsimp only; split <;> first | exact no_panic_updLoop _ _ _ | simp)
    | (simp; split <;> simp)

/-! ## `RelaxedJSONPathExpression`, `copySourceItem` (fixed by C19-b) -/

/-- **`RelaxedJSONPathExpression` never panics, whatever `FindStringSubmatch` returns** (`nil`, or a
list of any length): `submatches[1]` / `submatches[2]` are only evaluated behind
`len(submatches) == 3`. -/
theorem no_panic_relaxedFrom (key : String) (sm : Option (List String)) :
    relaxedFrom key sm ≠ .panic := by
  unfold relaxedFrom
  split
  · simp
  · split
    · simp
    · rename_i l
      split
      · simp
      · rename_i hlen
        have h3 : l.length = 3 := by simpa using hlen
        apply bind_ne_panic
        · exact idx_ne_panic _ _ (by omega)
        · intro g1 _
          split
          · exact map_ne_panic _ _ (idx_ne_panic _ _ (by omega))
          · exact map_ne_panic _ _ (idx_ne_panic _ _ (by omega))

theorem no_panic_relaxedJSONPath (key : String) : relaxedJSONPath key ≠ .panic :=
  no_panic_relaxedFrom _ _

/-- `strings.Split` never returns an empty slice. -/
theorem splitChars_ne_nil (sep : Char) (cs : List Char) : splitChars sep cs ≠ [] := by
  induction cs with
  | nil => simp [splitChars]
  | cons c cs ih =>
    unfold splitChars
    split
    · simp
    · split <;> simp

/-- `unstructured.SetNestedField` only panics for an empty field list. -/
theorem no_panic_setNested (v : JVal) (fields : List String) (h : fields ≠ []) :
    ∀ m, setNested m v fields ≠ .panic := by
  induction fields with
  | nil => exact absurd rfl h
  | cons f fs ih =>
    intro m
    cases fs with
    | nil => simp [setNested]
    | cons g gs =>
      unfold setNested
      split
      · exact map_ne_panic _ _ (ih (by simp) _)
      · simp
      · exact map_ne_panic _ _ (ih (by simp) _)

/-- The tail of `copySourceItem` (unwrap `vslice[0]`, destination check, `SetNestedField`) never
panics — for ANY jsonpath result list, destination string (empty included) and config. -/
theorem no_panic_copyTail (results : List JVal) (dest : String) (cfg : List (String × JVal)) :
    copyTail results dest cfg ≠ .panic := by
  unfold copyTail
  apply bind_ne_panic
  · split
    · rename_i h
      exact idx_ne_panic _ _ (by simp at h; omega)
    · simp
  · intro v _
    split
    · apply no_panic_setNested
      intro h
      have := splitChars_ne_nil '.' ‹List Char›
      simp_all
    · simp

theorem no_panic_copySourceItemWith (relaxed : Outcome String) (hr : relaxed ≠ .panic)
    (found : Option JVal) (dest : String) (cfg : List (String × JVal)) :
    copySourceItemWith relaxed found dest cfg ≠ .panic := by
  unfold copySourceItemWith
  apply bind_ne_panic _ _ hr
  intro _ _
  split
  · simp
  · exact no_panic_copyTail _ _ _

/-- **`copySourceItem` never panics** (fixed code) on any key of the modelled grammar, any
destination, source object and config. -/
theorem no_panic_copySourceItem (key dest : String) (src : JVal) (cfg : List (String × JVal))
    (r : Outcome (List (String × JVal))) (h : copySourceItem key dest src cfg = some r) :
    r ≠ .panic := by
  unfold copySourceItem at h
  have hk := no_panic_relaxedJSONPath key
  split at h
  · split at h
    · cases h; simp
    · simp only [Option.map_eq_some_iff] at h
      obtain ⟨p, _, rfl⟩ := h
      exact no_panic_copySourceItemWith _ (by simp) _ _ _
  · cases h; simp
  · rename_i hp; exact absurd hp hk

/-! ## `parseConditionMapAnnotation` -/

/-- The loop body never panics **whatever `strings.SplitN` returns**: `parts[0]`, `parts[1]` are
only evaluated behind `len(parts) == 2`. -/
theorem no_panic_parseParts (parts : List (List Char)) : parseParts parts ≠ .panic := by
  unfold parseParts
  split
  · simp
  · rename_i hlen
    have h2 : parts.length = 2 := by simpa using hlen
    apply bind_ne_panic _ _ (idx_ne_panic _ _ (by omega))
    intro p0 _
    split
    · simp
    · apply bind_ne_panic _ _ (idx_ne_panic _ _ (by omega))
      intro p1 _
      split
      · simp
      · apply bind_ne_panic _ _ (idx_ne_panic _ _ (by omega))
        intro q0 _
        exact map_ne_panic _ _ (idx_ne_panic _ _ (by omega))

/-- `outputMappings[i]` stays in range: the loop index plus the remaining lines never exceeds
`len(outputMappings)`. -/
theorem no_panic_parseLines (n : Nat) (ls : List (List Char)) :
    ∀ i, i + ls.length ≤ n → parseLines n i ls ≠ .panic := by
  induction ls with
  | nil => intro i _; simp [parseLines]
  | cons l ls ih =>
    intro i h
    unfold parseLines
    have hp := no_panic_parseParts (splitArrow l)
    split
    · split
      · exact map_ne_panic _ _ (ih (i + 1) (by simp at h; omega))
      · rename_i hlt; simp at h; omega
    · simp
    · rename_i hq; exact absurd hq hp

/-- **`parseConditionMapAnnotation` never panics**, for every annotation value. -/
theorem no_panic_parseCM (cm : Option String) : parseCM cm ≠ .panic := by
  unfold parseCM
  split
  · simp
  · exact no_panic_parseLines _ _ 0 (by simp)

/-! ## `phaseCollector.AddObjects` and the render pipeline (fixed by C19-c) -/

/-- `AddObjects` alone still contains `panic(err)`: **counterexample** to "AddObjects never
panics" on the current code — an object whose condition-map annotation is `garbage`. -/
theorem no_panic_addObjects_counterexample :
    ∃ objs, addObjects objs = .panic :=
  ⟨[some [(cmKey, "garbage")]], by decide⟩

/-- `AddObjects` panics exactly when some object's condition-map annotation does not parse. -/
theorem addObjects_panic_iff (objs : List PObj) :
    addObjects objs = .panic ↔ ∃ o ∈ objs, parseCM (cmOf o) = .err := by
  induction objs with
  | nil => simp [addObjects]
  | cons o os ih =>
    unfold addObjects
    have hp := no_panic_parseCM (cmOf o)
    split
    · rename_i he; simp [he]
    · rename_i hq; exact absurd hq hp
    · rename_i ms hok
      constructor
      · intro h
        have : addObjects os = .panic := by
          cases hos : addObjects os <;> simp_all [Outcome.map]
        obtain ⟨o', ho', he⟩ := ih.mp this
        exact ⟨o', List.mem_cons_of_mem _ ho', he⟩
      · rintro ⟨o', ho', he⟩
        rcases List.mem_cons.mp ho' with rfl | hmem
        · rw [hok] at he; cases he
        · have := ih.mpr ⟨o', hmem, he⟩
          simp [this, Outcome.map]

/-- `…_partial`: `AddObjects` does not panic **provided every condition-map annotation parses**
(the hypothesis the validation stage is supposed to establish).  Full statement
`∀ objs, addObjects objs ≠ .panic` is FALSE (`no_panic_addObjects_counterexample`). -/
theorem no_panic_addObjects_partial (objs : List PObj)
    (h : ∀ o ∈ objs, parseCM (cmOf o) ≠ .err) : addObjects objs ≠ .panic := by
  intro hp
  obtain ⟨o, ho, he⟩ := (addObjects_panic_iff objs).mp hp
  exact h o ho he

/-- The gate added to `parseObjects` establishes that hypothesis. -/
theorem renderGate_ok (objs : List PObj) (h : renderGate objs = .ok ()) :
    ∀ o ∈ objs, parseCM (cmOf o) ≠ .err := by
  induction objs with
  | nil => simp
  | cons o os ih =>
    unfold renderGate at h
    split at h
    · rename_i hok
      intro o' ho'
      rcases List.mem_cons.mp ho' with rfl | hmem
      · rw [hok]; simp
      · exact ih h o' hmem
    · cases h
    · cases h

theorem no_panic_renderGate (objs : List PObj) : renderGate objs ≠ .panic := by
  induction objs with
  | nil => simp [renderGate]
  | cons o os ih =>
    unfold renderGate
    have hp := no_panic_parseCM (cmOf o)
    split
    · exact ih
    · simp
    · rename_i hq; exact absurd hq hp

/-- **Rendering a package into an ObjectSet template never panics** (fixed code): for every
manifest phase list and every list of objects with arbitrary annotations, `RenderPackageInstance`
followed by `RenderObjectSetTemplateSpec` returns or errors. -/
theorem no_panic_renderPackage (phases : List String) (objs : List PObj) :
    renderPackage phases objs ≠ .panic := by
  unfold renderPackage
  have hg := no_panic_renderGate objs
  split
  · rename_i u hok
    have : renderGate objs = .ok () := by cases u; exact hok
    exact map_ne_panic _ _ (no_panic_addObjects_partial objs (renderGate_ok objs this))
  · simp
  · rename_i hq; exact absurd hq hg

/-! ## CEL conditions: `CelCtx.evaluate` and the three places an expression can sit -/

/-- **no_panic_celEvaluate**: whatever the CEL program evaluates to — a value of ANY JSON type or
an evaluation error — `CelCtx.evaluate` returns a bool or an error; the type assertion
`out.Value().(bool)` is unreachable behind the run-time check of `out.Type()`. -/
theorem no_panic_celEvaluate (v : Option JVal) : celEvaluate v ≠ .panic := by
  unfold celEvaluate
  cases v with
  | none => simp
  | some v => cases v <;> simp

/-- … and it returns `ok b` exactly for the run-time value `bool b`, an error for everything else. -/
theorem celEvaluate_eq (v : Option JVal) :
    celEvaluate v = (match v with | some (.bool b) => .ok b | _ => .err) := by
  unfold celEvaluate
  cases v with
  | none => rfl
  | some v => cases v <;> rfl

/-- **no_panic_celPlace**: for every expression of the fragment (in particular those of static
type dyn: bare lookups, conditionals over lookups), every context (run-time values of every JSON
type) and each of the three places, filtering returns a result or an error, never panics. -/
theorem no_panic_celPlace (place : String) (ctx : JVal) (e : CelExpr) : celPlace place ctx e ≠ .panic :=
  map_ne_panic _ _ (no_panic_celEvaluate _)

/-- Why the check must inspect the RUN-TIME type: with the result type checked on the static
output type of the AST (which is dyn for `config.enabled`, and dyn is assignable to bool), the
assertion is reachable — the string value "true" makes it panic. -/
theorem static_result_check_insufficient :
    celEvaluateStaticCheck true (celEval (.obj [("config", .obj [("enabled", .str "true")])]) (.get ["config", "enabled"]))
      = .panic := by
  decide

/-! ## the three defects on the pre-fix code shapes (witnesses = corpus/C19) -/

/-- C19-a: a current condition without `message` panics in the pre-fix loop body. -/
theorem legacy_updCond_counterexample :
    Legacy.updCond 2 [] (.obj [("type", .str "Available"), ("status", .str "True"),
      ("reason", .str "R"), ("observedGeneration", .int 2)]) = .panic := by decide

/-- …and the fixed loop body copies that condition. -/
example : updCond 2 [] (.obj [("type", .str "Available"), ("status", .str "True"),
      ("reason", .str "R"), ("observedGeneration", .int 2)]) = .ok [("Available", "True")] := by decide

/-- C19-b: `destination: ""` panics in the pre-fix destination check. -/
theorem legacy_copyTail_counterexample : (Legacy.copyTail [.str "v"] "" []).void = .panic := by decide

example : (copyTail [.str "v"] "" []).void = .err := by decide

/-- C19-c: without the gate the render pipeline panics on `condition-map: garbage`. -/
theorem legacy_renderPackage_counterexample :
    Legacy.renderPackage ["a"] [some [(phaseKey, "a"), (cmKey, "garbage")]] = .panic := by decide

example : renderPackage ["a"] [some [(phaseKey, "a"), (cmKey, "garbage")]] = .err := by decide

/-! ## `FromOCI` read loop (fixed by C19-e; found by the exploration stream `import`) -/

/-- **The read loop of `FromOCI` never panics**, for every sequence of tar reader events
(headers, skipped entries, data errors, EOF, non-EOF errors such as a truncated layer). -/
theorem no_panic_fromOCI (evs : List TarNext) : ∀ n, fromOCI evs n ≠ .panic := by
  induction evs with
  | nil => intro n; unfold fromOCI; split <;> simp
  | cons e es ih =>
    intro n
    match e with
    | .eof => unfold fromOCI; split <;> simp
    | .error => simp [fromOCI]
    | .entry true _ => unfold fromOCI; exact ih _
    | .entry false true => unfold fromOCI; exact ih _
    | .entry false false => simp [fromOCI]

/-- C19-e: a skipped entry (file outside `package/`) followed by a non-EOF error of `Next()`
(its data is truncated) dereferences the nil header in the pre-fix loop. -/
theorem legacy_fromOCI_counterexample :
    Legacy.fromOCI [.entry true false, .error] 0 = .panic := by decide

example : fromOCI [.entry true false, .error] 0 = .err := by decide
example : fromOCI [.entry false true, .entry true true, .eof] 0 = .ok 1 := by decide

/-! ## kubectl-package CLI: config resolution of `tree` (`Pko.Model.TreeConfig`) -/
section tree
open Pko.Model.TreeConfig hiding renderPackage
open Pko.Lemmas.C19Tree (NoNullRaw)

/-- **`(*Tree).getConfig` never panics**: for every --config-path (absent, missing file, any
document), every --config-testcase, every list of test templates. -/
theorem no_panic_getConfig (tpls : List TestTpl) (o : Opts) : getConfig tpls o ≠ .panic :=
  Pko.Lemmas.C19Tree.getConfigFrom_ne_panic _ _ _

/-- **`getConfig` never returns (nil map, nil error)**: whenever it returns without error the map is
allocated — for every option combination and every template list whose `Raw` is not the JSON
literal `null` (which decoding a `*runtime.RawExtension` never produces). -/
theorem getConfig_ok_nonnil (tpls : List TestTpl) (hraw : NoNullRaw tpls) (o : Opts) (m : GoMap)
    (h : getConfig tpls o = .ok m) : m ≠ .nil :=
  Pko.Lemmas.C19Tree.getConfigFrom_ok_nonnil _ (by simp) tpls hraw o m h

/-- `…_partial` (hypothesis `NoNullRaw`): config resolution followed by admission — prune,
DEFAULT, validate — never panics, for every schema (with or without defaults / required).  Full
statement over everything the manifest decoder can produce: `no_panic_treeRenderPackage`; without
the hypothesis it is false: `treeConfig_raw_null_counterexample`. -/
theorem no_panic_treeConfig_partial (tpls : List TestTpl) (hraw : NoNullRaw tpls) (o : Opts) (schema : Schema) :
    (getConfig tpls o).bind (fun m => admitConfig m schema) ≠ .panic :=
  bind_ne_panic _ _ (no_panic_getConfig tpls o) fun m hm =>
    Pko.Lemmas.C19Tree.admitConfig_ne_panic m (getConfig_ok_nonnil tpls hraw o m hm) schema

theorem no_panic_treeRenderPackage_partial (scopes : List String) (schema : Schema) (tpls : List TestTpl)
    (hraw : NoNullRaw tpls) (o : Opts) :
    Pko.Model.TreeConfig.renderPackage scopes schema tpls o ≠ .panic := by
  unfold Pko.Model.TreeConfig.renderPackage
  apply bind_ne_panic _ _ (Pko.Lemmas.C19Tree.getTemplateContext_ne_panic tpls o)
  intro ctx _
  apply bind_ne_panic _ _ (no_panic_getConfig tpls o)
  intro m hm
  apply bind_ne_panic _ _ (Pko.Lemmas.C19Tree.admitConfig_ne_panic m (getConfig_ok_nonnil tpls hraw o m hm) schema)
  intro a _
  repeat' split
  all_goals first | (simp; done) | (simp; split <;> simp)

/-- **`kubectl package tree` never panics while resolving and admitting the configuration**: for
every manifest (scopes, config schema with any defaults / required properties, test templates
with `context.config` absent, `null`, an object or anything else, `context.package` present or
not, duplicate names included) and every option combination (--config-path absent / missing file /
mapping / null or empty document / scalar / not YAML, --config-testcase absent / known / unknown,
--cluster), `RenderPackage` returns a tree or an error. -/
theorem no_panic_treeRenderPackage (scopes : List String) (schema : Schema)
    (src : List (String × Option Doc × TplPkg)) (o : Opts) :
    Pko.Model.TreeConfig.renderPackage scopes schema
      (src.map fun (n, c, p) => { name := n, config := decodeConfig c, pkg := p }) o ≠ .panic :=
  no_panic_treeRenderPackage_partial _ _ _ (Pko.Lemmas.C19Tree.noNullRaw_decoded src) o

/-- Why `NoNullRaw` is needed: were `Raw` the literal `null`, `json.Unmarshal` would reset the map
to nil, the first-template branch would return it, and defaulting would write into it. -/
theorem treeConfig_raw_null_counterexample :
    (getConfig [{ name := "t", config := some .null }] {}).bind
      (fun m => admitConfig m (some [{ name := "greeting", hasDefault := true }])) = .panic := by
  decide

/-- Why the allocation at the top of `getConfig` matters: started from the nil map, the early return
for a selected test template WITHOUT `context.config` hands the nil map to admission, and a schema
with one top-level default panics ("assignment to entry in nil map").  The check
`if config == nil` after the loop does not help, it is never reached on that path. -/
theorem treeConfig_nil_start_counterexample :
    getConfigFrom .nil [{ name := "t", config := none }] { testcase := "t" } = .ok .nil ∧
    admitConfig .nil (some [{ name := "greeting", hasDefault := true }]) = .panic := by
  decide

/-- The "test template not found" check after the loop is dead code: an unknown --config-testcase
renders with the empty configuration. -/
theorem getConfig_unknown_testcase_ok (tpls : List TestTpl) (tc : String) (htc : tc ≠ "")
    (h : ∀ t ∈ tpls, t.name ≠ tc) : getConfig tpls { testcase := tc } = .ok (.mk []) := by
  have hl : ∀ m, tcLoop tc tpls m = .fall m := by
    induction tpls with
    | nil => intro m; rfl
    | cons t ts ih =>
      intro m
      unfold tcLoop
      have : t.name ≠ tc := h t List.mem_cons_self
      simp [this, ih (fun x hx => h x (List.mem_cons_of_mem _ hx))]
  simp [getConfig, getConfigFrom, htc, hl]

/-- non-vacuity: the entry point reaches ok and error, and the model's panic branch is real -/
example : Pko.Model.TreeConfig.renderPackage ["Namespaced"] (some [{ name := "greeting", hasDefault := true }])
    [{ name := "t", config := none, pkg := { name := "p", ns := "n" } }] { testcase := "t" } = .ok () := by decide
example : Pko.Model.TreeConfig.renderPackage ["Namespaced"] none [] { configPath := .missing } = .err := by decide
example : Pko.Model.TreeConfig.renderPackage ["Namespaced"] none [] { cluster := true } = .err := by decide
example : Pko.Model.TreeConfig.renderPackage ["Cluster"] (some [{ name := "name", required := true }]) []
    { configPath := .file (.obj ["other"]) } = .err := by decide
example : admitConfig .nil (some [{ name := "greeting", hasDefault := true }]) = .panic := by decide
example : admitConfig .nil (some [{ name := "greeting" }]) ≠ .panic := by decide

end tree

/-! ## non-vacuity: every modelled function reaches `ok` and `err` -/

example : mapConditions [("Available", "Avail")]
    (.obj [("status", .obj [("conditions", .arr [.obj [("type", .str "Available"), ("status", .str "True")]])])])
    = .ok [("Avail", "True")] := by decide
example : mapConditions [("Available", "Avail")] (.obj [("status", .str "x")]) = .err := by decide
example : mapConditions [("Available", "Avail")]
    (.obj [("status", .obj [("conditions", .arr [.obj [("type", .int 5)]])])]) = .err := by decide
example : updateStatus 1 (.obj [("metadata", .obj [("generation", .int 2)]), ("status", .obj [("conditions",
    .arr [.obj [("type", .str "A"), ("status", .str "True"), ("observedGeneration", .int 2)]])])])
    = .ok [("A", "True")] := by decide
example : updateStatus 1 (.obj [("status", .obj [("conditions", .arr [.str "x"])])]) = .err := by decide
example : updateStatus 1 (.obj [("status", .obj [("conditions", .arr [.obj [("type", .str "A")]])])]) = .err := by decide
example : (copySourceItem "{.a.b}" ".x.y" (.obj [("a", .obj [("b", .str "v")])]) []).map
    (·.map fun kvs => kvs.map (·.1)) = some (.ok ["x"]) := by decide
example : (copySourceItem "a.c" ".x" (.obj [("a", .obj [("b", .str "v")])]) []).map (·.void) = some .err := by decide
example : (copySourceItem "a" "x" (.obj [("a", .int 1)]) []).map (·.void) = some .err := by decide
example : (copySourceItem "a{" ".x" (.obj []) []).map (·.void) = some .err := by decide
example : parseCM (some " Available => my.co/Avail \nReady=>R\n") = .ok [⟨"Available", "my.co/Avail"⟩, ⟨"Ready", "R"⟩] := by decide
example : parseCM (some "") = .err := by decide
example : parseCM (some "=>B") = .err := by decide
example : renderPackage ["a", "b"] [some [(phaseKey, "b"), (cmKey, "A=>B")], some [(phaseKey, "a")], none, some [(phaseKey, "zzz")]]
    = .ok [("a", [0]), ("b", [1])] := by decide

/-! ## monitor versus model -/

open Pko.Drv.C19 Pko.Model.TreeConfig in
/-- The `tree` line of the model is never a panic: scenario templates go through `decodeConfig`. -/
theorem treeOut_never_panic (i : TreeIn) : ∀ _ : treeOut i = Out.panic, False := by
  intro h
  have hraw : Pko.Lemmas.C19Tree.NoNullRaw i.tpls := Pko.Lemmas.C19Tree.noNullRaw_decoded i.src
  have hr := no_panic_treeRenderPackage_partial i.scopes i.schema i.tpls hraw i.opts
  have hg := no_panic_getConfig i.tpls i.opts
  unfold treeOut at h
  split at h
  · rename_i hp; exact hr hp
  · dsimp only at h
    split at h
    · rename_i hp; exact hg hp
    · cases h
    · rename_i m hm
      have ha := Pko.Lemmas.C19Tree.admitConfig_ne_panic m (getConfig_ok_nonnil _ hraw _ m hm) i.schema
      split at h
      · rename_i hp; exact ha hp
      · split at h <;> cases h

open Pko.Drv.C19 in
/-- The model never predicts a panic, for every scenario line. -/
theorem modelOut_never_panic (s : Scn) : ∀ _ : modelOut s = Out.panic, False := by
  intro h
  unfold modelOut at h
  have ofOutcome_ne {α} (f : α → String) (x : Outcome α) (hx : x ≠ .panic) :
      ofOutcome f x = Out.panic → False := by
    cases x <;> simp_all [ofOutcome]
  split at h
  · split at h
    · cases h
    · exact ofOutcome_ne _ _ (no_panic_mapConditions _ _) h
  · split at h
    · cases h
    · exact ofOutcome_ne _ _ (no_panic_updateStatus _ _) h
  · split at h
    · split at h
      · cases h
      · rename_i r hr
        exact ofOutcome_ne _ _ (no_panic_copySourceItem _ _ _ _ r hr) h
    · cases h
  · split at h
    · cases h
    · exact ofOutcome_ne _ _ (no_panic_parseCM _) h
  · exact ofOutcome_ne _ _ (no_panic_renderPackage _ _) h
  · split at h
    · split at h
      · exact ofOutcome_ne _ _ (no_panic_celPlace _ _ _) h
      · cases h
    · cases h
  · split at h
    · cases h
    · exact treeOut_never_panic _ h
  · dsimp only at h
    split at h <;> cases h
  all_goals cases h

open Pko.Drv.C19 in
/-- every line the model prints for a normal return starts with `o`, `e`, `n`, `u` or `t` -/
theorem classify_render (o : Out) (h : ∀ _ : o = Out.panic, False) : classify (render o) = .normal := by
  cases o with
  | ok l =>
    by_cases hl : l.isEmpty = true
    · simp only [render, hl, if_true]; decide
    · simp [render, hl, classify, String.toList_append]
  | err => decide
  | nopanic => decide
  | panic => exact absurd rfl (fun hp => h hp)
  | bad w => simp [render, classify, String.toList_append]
  | line l => simp [render, classify, String.toList_append]

open Pko.Drv.C19 in
/-- **monitor (model s) = ok**: the monitored predicate (no `PANIC`, no `TIMEOUT`, no harness
failure) holds of every line the model prints, for every scenario. -/
theorem monitor_model_ok (s : Scn) : monitor s (model s) = "ok" := by
  unfold monitor model
  rw [classify_render _ (modelOut_never_panic s)]

open Pko.Drv.C19 in
/-- the monitor does flag a panic / timeout line of the implementation -/
example : monitor { fn := "render" } "PANIC internal/x.go:1 boom" ≠ "ok" := by decide
open Pko.Drv.C19 in
example : monitor { fn := "render" } "TIMEOUT" ≠ "ok" := by decide

/-! ## regenerated tie: panic-site census -/

set_option maxRecDepth 100000 in
/-- **Every syntactic panic site of the scanned packages is classified**: the census regenerated
from the repository equals, row for row, the hand classification
(`modelled` / `guarded` / `startup-only` / `fixed-elsewhere`).  A new, removed or moved explicit
panic, single-value type assertion or index/slice expression breaks this theorem. -/
theorem census_classified :
    Pko.Gen.PanicCensus.census = Pko.Model.PanicCensusExpect.expectedSites := by
  decide

set_option maxRecDepth 100000 in
/-- **The run-time type checks that guard type assertions are where the classification says**:
for every function with a `checkedGuard` entry, the rows the extractor regenerates from the
repository — asserted expression + the conditions on the asserted value that dominate the
assertion — equal the expected ones.  In particular `out.Value().(bool)` in `CelCtx.evaluate` is
dominated by the early return on `!reflect.DeepEqual(out.Type(), cel.BoolType)`, a check of the
RUN-TIME type of the evaluated value.  Removing that check, moving it behind the assertion or
replacing it by a check that does not inspect `out` breaks this theorem. -/
theorem assert_guards_checked :
    Pko.Gen.PanicCensus.assertGuards.filter
        (fun r => Pko.Model.PanicCensusExpect.guardedFns.contains (r.1, r.2.1)) =
      Pko.Model.PanicCensusExpect.expectedGuardRows := by
  decide

/-- non-vacuity: the guard facts are not empty and include the CEL result assertion -/
example : ("internal/packages/internal/packagerender/celctx/cel.go", "CelCtx.evaluate", "out.Value().(bool)",
    "unless !reflect.DeepEqual(out.Type(), cel.BoolType)") ∈ Pko.Model.PanicCensusExpect.expectedGuardRows := by
  decide

end Pko.Props.C19
