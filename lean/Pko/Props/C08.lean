/-
Property C08 (a) — "Rollouts never archive or delete what is still serving":
the ObjectDeployment controller's archival and history-pruning decision.

The theorems are about `Pko.Model.Archive` (the model of
`internal/controllers/objectdeployments/archive_reconciler.go` and of the parts of
`objectset_reconciler.go` that feed it; tied to the Go code by the correspondence harness
`harness/C08`) and hold for EVERY list of revision records — any length, any flags, any
`status.controllerOf` / object sets, any `revisionHistoryLimit` (nil, 0, negative, positive).

Vocabulary, in terms of the Go code (`all` = `prev ++ [cur]` = the ObjectSets the pass read):

* **newer**: `y` is newer than `r` iff `y.status.revision > r.status.revision`
  (`objectSetsByRevisionAscending.Less`).
* **newest**: a revision nobody is newer than — after `sort.Sort` at archive_reconciler.go l.77 the
  last element of `allObjectSets`.
* **next newer** of `r` (`IsNextNewer all r y`): `y` is newer than `r` and no listed revision lies
  strictly between them — in the code `allObjectSets[j]` for `r = allObjectSets[j-1]` in the sorted
  slice, **archived revisions included**, whenever its revision number is strictly larger (l.102).
* **current**: the `currentObjectSet` argument of `archiveReconciler.Reconcile`.  The controller
  passes the last element of the listing sorted ascending by `status.revision`
  (`listObjectSetsByRevision`) if its `package-operator.run/hash` annotation equals the deployment's
  `status.templateHash` (objectset_reconciler.go l.56-66) and nil otherwise (then the archive
  reconciler does nothing); `prevObjectSets` is every other listed ObjectSet, archived or not.
* **confirmed paused** = `IsStatusPaused()`: the revision's `Paused` condition is `True`.  The code
  consults neither `observedGeneration` nor `spec.lifecycleState` here
  (see `archive_of_active_revision_example`).
-/
import Pko.Model.Archive
import Pko.Model.ArchiveSpec
import Pko.Lemmas.C08
import Pko.Lemmas.C08Slices
import Pko.Model.ArchiveHist

namespace Pko.Props.C08
open Pko.Model.Archive Pko.Model.ArchiveSpec Pko.Lemmas.C08 Pko.Lemmas.C08Slices

/-- **archived_only_if** (direct call, all inputs).  If a pass of the archive reconciler sends the
`Archived` lifecycle update to the ObjectSet named `i`, then `i` names a revision `r` read by the
pass with: `r` reported status-paused ∧ `r` is not the newest ∧ (some newer revision is Available ∨
(`r` is itself unavailable ∧ `r`'s reported `controllerOf` shares no object with the objects of a
next newer revision — ALL its objects, the ones inline in `spec.phases[*].objects` and the ones in
the ObjectSlices named by `spec.phases[*].slices` (`Rev.allObjects`), every one of those slices
having been read (`ControlsNothingOf`))).  (`Justified` is exactly this conjunction.) -/
theorem archived_only_if (prev : List Rev) (c : Rev) (limit : Option Int) (fin : Bool) (i : Nat)
    (h : Write.archive i ∈ (reconcile prev (some c) limit fin).1) :
    ∃ r ∈ prev ++ [c], r.id = i ∧
      r.statusPaused = true ∧
      (∃ y ∈ prev ++ [c], r.rev < y.rev) ∧
      ((∃ y ∈ prev ++ [c], r.rev < y.rev ∧ y.available = true) ∨
       (r.available = false ∧
        ∃ y ∈ prev ++ [c], IsNextNewer (prev ++ [c]) r y ∧ ControlsNothingOf r.controllerOf y)) := by
  obtain ⟨o, ho, hid⟩ := reconcile_archive_mem h
  obtain ⟨hm, hj⟩ := toArchive_justified ho
  exact ⟨o, hm, hid, hj⟩

/-- Without a current revision the archive reconciler writes nothing at all. -/
theorem no_current_no_writes (prev : List Rev) (limit : Option Int) (fin : Bool) :
    reconcile prev none limit fin = ([], false) := rfl

/-- **newest_never_archived** (direct call, all inputs, no hypothesis).  Whatever receives the
`Archived` update has a strictly newer listed revision: a revision nobody is newer than — in
particular the last element of the sorted `allObjectSets` — is never archived, whatever its flags. -/
theorem newest_never_archived (prev : List Rev) (c : Rev) (limit : Option Int) (fin : Bool) (i : Nat)
    (h : Write.archive i ∈ (reconcile prev (some c) limit fin).1) :
    ∃ r ∈ prev ++ [c], r.id = i ∧ ∃ y ∈ prev ++ [c], r.rev < y.rev := by
  obtain ⟨r, hr, hid, _, hnew, _⟩ := archived_only_if prev c limit fin i h
  exact ⟨r, hr, hid, hnew⟩

/-- The same by name (ObjectSet names unique, as the API server guarantees): no `archive` write is
addressed to the name of a revision `m` that no listed revision is newer than. -/
theorem newest_name_never_archived (prev : List Rev) (c : Rev) (limit : Option Int) (fin : Bool)
    (hn : ((prev ++ [c]).map (·.id)).Nodup)
    (m : Rev) (hm : m ∈ prev ++ [c]) (hmax : ∀ y ∈ prev ++ [c], y.rev ≤ m.rev) :
    Write.archive m.id ∉ (reconcile prev (some c) limit fin).1 := by
  intro h
  obtain ⟨r, hr, hid, y, hy, hlt⟩ := newest_never_archived prev c limit fin m.id h
  have : r = m := id_inj hn hr hm hid
  subst this
  have := hmax y hy
  omega

/-- The current revision is never archived when it is the newest one — which is how the controller
calls the archive reconciler (current = last of the listing sorted by revision). -/
theorem current_never_archived (prev : List Rev) (c : Rev) (limit : Option Int) (fin : Bool)
    (hn : ((prev ++ [c]).map (·.id)).Nodup) (hmax : ∀ y ∈ prev, y.rev ≤ c.rev) :
    Write.archive c.id ∉ (reconcile prev (some c) limit fin).1 := by
  refine newest_name_never_archived prev c limit fin hn c (by simp) ?_
  intro y hy
  rcases List.mem_append.mp hy with hy | hy
  · exact hmax y hy
  · simp at hy; subst hy; exact Int.le_refl _

/-- **archive_update_only_if_status_paused** (the guard of `markObjectSetsForArchival` l.58, for
ANY candidate list handed to it, not only the scan's): the `Archived` update is only ever sent to a
candidate that reported status-paused and is not archived yet. -/
theorem archive_update_only_if_status_paused (prev : List Rev) (limit : Option Int) (fin : Bool)
    (candidates : List Rev) (gone : List Nat) (i : Nat)
    (h : Write.archive i ∈ (markLoop prev limit fin candidates gone).1) :
    ∃ o ∈ candidates, o.id = i ∧ o.statusPaused = true ∧ o.archived = false :=
  markLoop_archive h

/-- Every write of a pass is a pause, an archive or a delete: no other kind of write exists, and
pause writes only come from `ensurePaused`. -/
theorem reconcile_write_kinds (prev : List Rev) (c : Rev) (limit : Option Int) (fin : Bool) (w : Write)
    (h : w ∈ (reconcile prev (some c) limit fin).1) :
    IsPause w ∨ (∃ i, w = .archive i) ∨ (∃ i, w = .delete i) := by
  simp only [reconcile] at h
  split at h
  · exact Or.inl (scan_writes h)
  · split at h
    · exact Or.inl (scan_writes h)
    · rcases List.mem_append.mp h with h | h
      · exact Or.inl (scan_writes h)
      · exact Or.inr (markLoop_other h)

/-! ### history pruning -/

/-- **gc_prefix** (all strictly ascending chains, every `revisionHistoryLimit`).  The ObjectSets a
pass deletes are exactly the first `max 0 (|prev| − limit)` elements of `prev` — the lowest
revisions among the previous (archived or not) revisions, `limit` defaulting to 10 when nil — and
only in a pass that also archives something; a pass that archives nothing deletes nothing. -/
theorem gc_prefix (prev : List Rev) (c : Rev) (limit : Option Int) (fin : Bool)
    (hs : SAsc (prev ++ [c])) (i : Nat) :
    Write.delete i ∈ (reconcile prev (some c) limit fin).1 ↔
      toArchive prev c ≠ [] ∧
      i ∈ (prev.take ((prev.length : Int) - limit.getD 10).toNat).map (·.id) := by
  rw [reconcile_sorted hs]
  constructor
  · intro h
    split at h
    · exact absurd (scan_writes h) (by simp [IsPause])
    · rename_i hne
      refine ⟨by simpa using hne, ?_⟩
      rcases List.mem_append.mp h with h | h
      · exact absurd (scan_writes h) (by simp [IsPause])
      · have := markLoop_delete h
        rw [gc_eq] at this
        obtain ⟨p, hp, hpe⟩ := List.mem_map.mp this
        exact List.mem_map.mpr ⟨p, hp, by cases hpe; rfl⟩
  · rintro ⟨hne, hi⟩
    have hne' : (toArchive prev c).isEmpty = false := by
      cases hta : toArchive prev c with
      | nil => exact absurd hta hne
      | cons _ _ => rfl
    rw [hne']
    simp only [Bool.false_eq_true, ↓reduceIte]
    refine List.mem_append.mpr (Or.inr (markLoop_gc_subset ?_ ?_))
    · intro h0
      have := length_sortAsc (toArchive prev c)
      rw [h0] at this
      cases hta : toArchive prev c with
      | nil => exact hne hta
      | cons _ _ => rw [hta] at this; simp at this
    · rw [gc_eq]
      obtain ⟨p, hp, hpe⟩ := List.mem_map.mp hi
      exact List.mem_map.mpr ⟨p, hp, by rw [← hpe]⟩

/-- For ANY input (unsorted, ties): deletes only ever hit the first `|prev| − limit` elements of
what `prevObjectSets` is after the in-place sort of `append(prev, cur)`. -/
theorem gc_prefix_any_input (prev : List Rev) (c : Rev) (limit : Option Int) (fin : Bool) (i : Nat)
    (h : Write.delete i ∈ (reconcile prev (some c) limit fin).1) :
    i ∈ ((((sortAsc (prev ++ [c])).take prev.length).take
          (((sortAsc (prev ++ [c])).take prev.length).length - limit.getD 10 : Int).toNat).map (·.id)) := by
  simp only [reconcile] at h
  split at h
  · exact absurd (scan_writes h) (by simp [IsPause])
  · split at h
    · exact absurd (scan_writes h) (by simp [IsPause])
    · rcases List.mem_append.mp h with h | h
      · exact absurd (scan_writes h) (by simp [IsPause])
      · have := markLoop_delete h
        rw [gc_eq] at this
        obtain ⟨p, hp, hpe⟩ := List.mem_map.mp this
        exact List.mem_map.mpr ⟨p, hp, by cases hpe; rfl⟩

/-- **gc_never_current_partial**: the current revision is never deleted — for a direct call proved
under the hypothesis the proof forces: the slice is sorted strictly ascending with the current
revision last (and names are unique).  That is how objectset_reconciler.go calls the archive
reconciler; the full statement through the controller entry point is `gc_never_current_ctrl`, and
`gc_never_current_counterexample` shows the hypothesis cannot be dropped for direct calls.
Full statement that does NOT hold: `∀ prev c limit fin, names unique →
Write.delete c.id ∉ (reconcile prev (some c) limit fin).1`. -/
theorem gc_never_current_partial (prev : List Rev) (c : Rev) (limit : Option Int) (fin : Bool)
    (hs : SAsc (prev ++ [c])) (hn : ((prev ++ [c]).map (·.id)).Nodup) :
    Write.delete c.id ∉ (reconcile prev (some c) limit fin).1 := by
  intro h
  obtain ⟨_, hi⟩ := (gc_prefix prev c limit fin hs c.id).mp h
  obtain ⟨p, hp, hpe⟩ := List.mem_map.mp hi
  have hp' : p ∈ prev := List.mem_of_mem_take hp
  have : p = c := id_inj hn (List.mem_append_left _ hp') (by simp) hpe
  subst this
  rw [List.map_append, List.nodup_append] at hn
  exact hn.2.2 _ (List.mem_map.mpr ⟨p, hp', rfl⟩) _ (by simp) rfl

/-- **gc_oldest**: on controller-shaped input every delete is addressed to a previous revision that
is among the `|prev| − limit` oldest (by counting strictly older previous revisions), never to the
current one, and pruning leaves no gap: if a previous revision is deleted, so is every older one. -/
theorem gc_oldest (prev : List Rev) (c : Rev) (limit : Option Int) (fin : Bool)
    (hs : SAsc (prev ++ [c])) (hn : ((prev ++ [c]).map (·.id)).Nodup) :
    (∀ i, Write.delete i ∈ (reconcile prev (some c) limit fin).1 → DeleteOK prev limit i ∧ c.id ≠ i) ∧
    GcClosed prev (dels (reconcile prev (some c) limit fin).1) := by
  have hsp : SAsc prev := (List.pairwise_append.mp hs).1
  have hk : ((prev.length : Int) - limit.getD 10).toNat = gcCount prev limit := rfl
  constructor
  · intro i h
    obtain ⟨_, hi⟩ := (gc_prefix prev c limit fin hs i).mp h
    obtain ⟨p, hp, rfl⟩ := List.mem_map.mp hi
    rw [hk] at hp
    refine ⟨deleteOK_of_mem_take hsp hp, ?_⟩
    intro hc
    exact gc_never_current_partial prev c limit fin hs hn (hc ▸ h)
  · intro p hp hpd q hq hlt
    rw [mem_dels] at hpd ⊢
    obtain ⟨hne, hi⟩ := (gc_prefix prev c limit fin hs p.id).mp hpd
    obtain ⟨p', hp', hid⟩ := List.mem_map.mp hi
    have hpp : p' = p := id_inj hn (List.mem_append_left _ (List.mem_of_mem_take hp'))
      (List.mem_append_left _ hp) hid
    subst hpp
    exact Or.inl ((gc_prefix prev c limit fin hs q.id).mpr
      ⟨hne, List.mem_map.mpr ⟨q, mem_take_of_lt hsp hp' hq hlt, rfl⟩⟩)

/-! ### revisions that are still terminating (deleted in an earlier round, teardown pending, listed)

`Rev.terminating` is not read by any function of the pass, so every theorem above holds verbatim for
slices that contain terminating revisions in any position: a terminating revision is one of the
`|prev|` previous revisions, it takes one of the `|prev| − limit` places of the prefix that is
pruned and it is sent `Delete` again.  The two corollaries below spell out the two halves that a
"skip what is already being deleted" shortcut has to preserve. -/

/-- **gc_resends_terminating**: a previous revision inside the pruned prefix is sent `Delete` in
every pass that archives something — also when it is already terminating. -/
theorem gc_resends_terminating (prev : List Rev) (c : Rev) (limit : Option Int) (fin : Bool)
    (hs : SAsc (prev ++ [c])) (hne : toArchive prev c ≠ []) (p : Rev)
    (hp : p ∈ prev.take ((prev.length : Int) - limit.getD 10).toNat) (_ht : p.terminating = true) :
    Write.delete p.id ∈ (reconcile prev (some c) limit fin).1 :=
  (gc_prefix prev c limit fin hs p.id).mpr ⟨hne, List.mem_map.mpr ⟨p, hp, rfl⟩⟩

/-- **gc_keeps_within_limit**: whatever the pruned prefix consists of (terminating revisions or
not), no revision behind it — the `limit` newest previous revisions — is deleted. -/
theorem gc_keeps_within_limit (prev : List Rev) (c : Rev) (limit : Option Int) (fin : Bool)
    (hs : SAsc (prev ++ [c])) (hn : ((prev ++ [c]).map (·.id)).Nodup) (q : Rev)
    (hq : q ∈ prev.drop ((prev.length : Int) - limit.getD 10).toNat) :
    Write.delete q.id ∉ (reconcile prev (some c) limit fin).1 := by
  intro h
  obtain ⟨_, hi⟩ := (gc_prefix prev c limit fin hs q.id).mp h
  obtain ⟨p, hp, hpe⟩ := List.mem_map.mp hi
  have hpq : p = q := id_inj hn (List.mem_append_left _ (List.mem_of_mem_take hp))
    (List.mem_append_left _ (List.mem_of_mem_drop hq)) hpe
  subst hpq
  have hnp : prev.Nodup := by
    have : (prev.map (·.id)).Nodup := by
      rw [List.map_append] at hn
      exact (List.nodup_append.mp hn).1
    exact List.Pairwise.of_map (fun r : Rev => r.id)
      (fun a b (h : a.id ≠ b.id) (hab : a = b) => h (by rw [hab])) this
  have hsplit := List.take_append_drop ((prev.length : Int) - limit.getD 10).toNat prev
  rw [← hsplit] at hnp
  exact (List.nodup_append.mp hnp).2.2 p hp p hq rfl

/-! ### revisions whose objects live in ObjectSlices

A revision *contains* `objects ++ sliced` (`Rev.allObjects`): the objects inline in
`spec.phases[*].objects` and the objects of the (Cluster)ObjectSlices named by
`spec.phases[*].slices`.  `archived_only_if` above already speaks about all of them
(`ControlsNothingOf`); the corollaries below spell out the two halves separately. -/

/-- **sliced_object_blocks_archival**: names and revision numbers unique, no revision newer than `r`
is Available.  If `r` still controls an object `k` that its next newer revision `y` contains — no
matter whether inline or in one of `y`'s ObjectSlices — `r` is not archived, whatever else is true
of it. -/
theorem sliced_object_blocks_archival (prev : List Rev) (c : Rev) (limit : Option Int) (fin : Bool)
    (hn : ((prev ++ [c]).map (·.id)).Nodup) (hrev : (prev ++ [c]).Pairwise (fun a b => a.rev ≠ b.rev))
    (r y : Rev) (hr : r ∈ prev ++ [c]) (hy : y ∈ prev ++ [c]) (hnext : IsNextNewer (prev ++ [c]) r y)
    (hnoav : ∀ z ∈ prev ++ [c], r.rev < z.rev → z.available = false)
    (co : List Key) (hco : r.controllerOf = some co) (k : Key) (hk : k ∈ co)
    (hky : k ∈ y.objects ∨ k ∈ y.sliced) :
    Write.archive r.id ∉ (reconcile prev (some c) limit fin).1 := by
  intro h
  obtain ⟨r', hr', hid, _, _, hj⟩ := archived_only_if prev c limit fin r.id h
  have : r' = r := id_inj hn hr' hr hid
  subst this
  rcases hj with ⟨z, hz, hlt, hav⟩ | ⟨_, y', hy', hnext', hc, _⟩
  · have := hnoav z hz hlt
    rw [this] at hav; cases hav
  · have h1 := hnext.2 y' hy' hnext'.1
    have h2 := hnext'.2 y hy hnext.1
    have : y' = y := rev_inj hrev hy' hy (by omega)
    subst this
    rw [hco] at hc
    exact hc k hk (by simpa [Rev.allObjects] using hky)

/-- **missing_slice_fails_safe**: when an ObjectSlice of the next newer revision `y` cannot be read,
a revision that still controls anything is not archived (what `y` contains is unknown). -/
theorem missing_slice_fails_safe (prev : List Rev) (c : Rev) (limit : Option Int) (fin : Bool)
    (hn : ((prev ++ [c]).map (·.id)).Nodup) (hrev : (prev ++ [c]).Pairwise (fun a b => a.rev ≠ b.rev))
    (r y : Rev) (hr : r ∈ prev ++ [c]) (hy : y ∈ prev ++ [c]) (hnext : IsNextNewer (prev ++ [c]) r y)
    (hnoav : ∀ z ∈ prev ++ [c], r.rev < z.rev → z.available = false)
    (hsm : y.sliceMissing = true) (hco : r.controllerOf ≠ some []) :
    Write.archive r.id ∉ (reconcile prev (some c) limit fin).1 := by
  intro h
  obtain ⟨r', hr', hid, _, _, hj⟩ := archived_only_if prev c limit fin r.id h
  have : r' = r := id_inj hn hr' hr hid
  subst this
  rcases hj with ⟨z, hz, hlt, hav⟩ | ⟨_, y', hy', hnext', _, hm⟩
  · have := hnoav z hz hlt
    rw [this] at hav; cases hav
  · have h1 := hnext.2 y' hy' hnext'.1
    have h2 := hnext'.2 y hy hnext.1
    have : y' = y := rev_inj hrev hy' hy (by omega)
    subst this
    exact hco (hm hsm)

/-- **slice_load_error_aborts_pass**: a pass in which loading the objects of a latest
revision fails returns the error and has sent pause writes only — no `Archived` update, no `Delete`. -/
theorem slice_load_error_aborts_pass (prev : List Rev) (c : Rev) (limit : Option Int) (fin : Bool)
    (he : scanErr (sortAsc (prev ++ [c])).reverse = true) :
    (reconcile prev (some c) limit fin).2 = true ∧
    ∀ w ∈ (reconcile prev (some c) limit fin).1, IsPause w := by
  simp only [reconcile, he, ↓reduceIte]
  exact ⟨trivial, fun w hw => scan_writes hw⟩

/-- What the archive decision reads of a latest revision is `allObjects` and `sliceMissing` only:
moving objects between the ObjectSet and its ObjectSlices (all of them readable) does not change the
decision about the previous revision (the C14 reading of this step: slices behave like inline). -/
theorem pairStep_slices_like_inline (p l l' : Rev) (hobj : l'.allObjects = l.allObjects) :
    pairStep p l' = pairStep p l := by
  unfold pairStep
  rw [hobj]

theorem iterErr_slices_like_inline (p l l' : Rev) (hrev : l'.rev = l.rev)
    (hm : l'.sliceMissing = l.sliceMissing) : iterErr p l' = iterErr p l := by
  unfold iterErr revisionObjects
  rw [hrev, hm]
  cases l.sliceMissing <;> simp

/-- **slices_behave_like_inline** (C08 meets C14, ObjectDeployment level; every scenario, both entry
points): replace every revision all of whose ObjectSlices can be read by the same revision with the
objects of its slices inline (`inlineReadable`) — the pass issues exactly the same writes in the same
order and returns the same result.  Where the objects of a revision are stored makes no difference
to archival or pruning. -/
theorem slices_behave_like_inline (i : Input) :
    run { i with revs := i.revs.map inlineReadable } = run i := by
  have hf := inlineReadable_same
  unfold run
  cases hc : i.ctrl
  · simp only [Bool.false_eq_true, ↓reduceIte, Input.prev, Input.cur]
    cases hh : i.hasCur
    · simpa using reconcile_map hf i.revs none i.limit i.fin
    · simp only [↓reduceIte, ← List.map_dropLast, List.getLast?_map]
      exact reconcile_map hf i.revs.dropLast i.revs.getLast? i.limit i.fin
  · simp only [↓reduceIte]
    exact osr_map hf i.revs i.odPaused i.limit i.fin

/-- The same with every slice inlined, for deployments none of whose ObjectSlices is missing. -/
theorem slices_behave_like_inline_all (i : Input) (hm : ∀ r ∈ i.revs, r.sliceMissing = false) :
    run { i with revs := i.revs.map inlineAll } = run i := by
  have : i.revs.map inlineAll = i.revs.map inlineReadable := by
    apply List.map_congr_left
    intro r hr
    simp [inlineReadable, hm r hr]
  rw [this]
  exact slices_behave_like_inline i

/-! ### through `objectSetReconciler.Reconcile` -/

/-- **archived_only_if_ctrl**: the same statement for a whole pass of the ObjectDeployment
controller's ObjectSet reconciler over ANY API listing (any order, ties, zero revisions), paused or
not: whatever it archives satisfies the property's condition w.r.t. the listed revisions. -/
theorem archived_only_if_ctrl (listing : List Rev) (odPaused : Bool) (limit : Option Int) (fin : Bool)
    (i : Nat) (h : Write.archive i ∈ (osr listing odPaused limit fin).1) :
    ArchiveOK listing i := by
  rcases osr_cases listing odPaused limit fin with h0 | h0 | ⟨ys, c, hys, _, h0⟩
  · rw [h0] at h; cases h
  · rw [h0] at h; exact absurd (propagate_writes h) (by simp [IsPropagation])
  · rw [h0] at h
    rcases List.mem_append.mp h with h | h
    · exact absurd (propagate_writes h) (by simp [IsPropagation])
    · obtain ⟨r, hr, hid, hj⟩ := archived_only_if _ _ limit fin i h
      have hmap : ys.map (touch odPaused) ++ [touch odPaused c] = (sortAsc listing).map (touch odPaused) := by
        rw [hys]; simp
      rw [hmap] at hr hj
      obtain ⟨r0, hr0, rfl⟩ := List.mem_map.mp hr
      have hj0 := justified_map (touch_core odPaused) (Justified_of hj)
      exact ⟨r0, mem_sortAsc.mp hr0, by rw [← hid, (touch_core odPaused).id],
        justified_congr (fun x => mem_sortAsc) hj0⟩

/-! ### the monitored predicate holds of every model run -/

theorem ok_of_propagation (i : Input) (ws : List Write) (h : ∀ w ∈ ws, IsPropagation w) : Ok i ws := by
  constructor
  · intro w hw
    have := h w hw
    cases w <;> simp [IsPropagation] at this <;> trivial
  · intro _ p _ hpd
    rw [mem_dels] at hpd
    exact absurd (h _ hpd) (by simp [IsPropagation])

theorem ok_direct (i : Input) (hc : i.ctrl = false) : Ok i (run i).1 := by
  have hnil : Ok i [] := ok_of_propagation i [] (by simp)
  unfold run
  simp only [hc, Bool.false_eq_true, ↓reduceIte]
  cases hcur : i.cur with
  | none => exact hnil
  | some c =>
    have hhc : i.hasCur = true := by
      cases hh : i.hasCur
      · simp [Input.cur, hh] at hcur
      · rfl
    have hl : i.revs.getLast? = some c := by simpa [Input.cur, hhc] using hcur
    obtain ⟨ys, hys⟩ := List.getLast?_eq_some_iff.mp hl
    have hprev : i.prev = ys := by simp [Input.prev, hhc, hys]
    have hsc : specCur i = some c := by simp [specCur, hc, hcur]
    have hsp : specPrev i = ys := by simp [specPrev, hc, hprev]
    rw [hprev]
    constructor
    · intro w hw
      cases w with
      | archive id =>
        obtain ⟨r, hr, hid, hj⟩ := archived_only_if ys c i.limit i.fin id hw
        rw [← hys] at hr hj
        exact ⟨r, hr, hid, hj⟩
      | delete id =>
        intro hwf
        obtain ⟨hn, hs⟩ := hwf
        simp only [hc, Bool.false_eq_true, ↓reduceIte, hys] at hs hn
        have := (gc_oldest ys c i.limit i.fin hs hn).1 id hw
        rw [hsp, hsc]
        refine ⟨this.1, ?_⟩
        intro c' hc'
        cases hc'
        exact this.2
      | pause _ => trivial
      | ppause _ => trivial
      | activate _ => trivial
    · intro hwf
      obtain ⟨hn, hs⟩ := hwf
      simp only [hc, Bool.false_eq_true, ↓reduceIte, hys] at hs hn
      rw [hsp]
      exact (gc_oldest ys c i.limit i.fin hs hn).2

theorem specCur_ctrl (i : Input) (hc : i.ctrl = true) {ys : List Rev} {c : Rev}
    (hys : sortAsc i.revs = ys ++ [c]) (hm : c.hashMatch = true)
    (hr : i.revs.Pairwise (fun a b => a.rev ≠ b.rev)) : specCur i = some c := by
  have hcm : c ∈ i.revs := mem_sortAsc.mp (by rw [hys]; simp)
  have hmax : ∀ y ∈ i.revs, y.rev ≤ c.rev := by
    intro y hy
    have hy' : y ∈ ys ++ [c] := by rw [← hys]; exact mem_sortAsc.mpr hy
    have hasc := sortAsc_sorted i.revs
    rw [hys] at hasc
    rcases List.mem_append.mp hy' with hy' | hy'
    · exact (List.pairwise_append.mp hasc).2.2 y hy' c (by simp)
    · simp at hy'; rw [hy']; exact Int.le_refl _
  have hisMax : isMax i.revs c = true := by
    simp only [isMax, List.all_eq_true, decide_eq_true_eq]; exact hmax
  simp only [specCur, hc, ↓reduceIte]
  cases hf : i.revs.find? (isMax i.revs) with
  | none =>
    have := List.find?_eq_none.mp hf c hcm
    exact absurd hisMax this
  | some m =>
    have hmm : m ∈ i.revs := List.mem_of_find?_eq_some hf
    have hm2 : isMax i.revs m = true := List.find?_some hf
    simp only [isMax, List.all_eq_true, decide_eq_true_eq] at hm2
    have h1 := hm2 c hcm
    have h2 := hmax m hmm
    have : m = c := rev_inj hr hmm hcm (by omega)
    subst this
    simp [hm]

theorem ok_ctrl (i : Input) (hc : i.ctrl = true) : Ok i (run i).1 := by
  unfold run
  simp only [hc, ↓reduceIte]
  rcases osr_cases i.revs i.odPaused i.limit i.fin with h0 | h0 | ⟨ys, c, hys, hm, h0⟩
  · rw [h0]; exact ok_of_propagation i [] (by simp)
  · rw [h0]; exact ok_of_propagation i _ (fun w hw => propagate_writes hw)
  · have harch : ∀ id, Write.archive id ∈ (osr i.revs i.odPaused i.limit i.fin).1 → ArchiveOK i.revs id :=
      fun id h => archived_only_if_ctrl i.revs i.odPaused i.limit i.fin id h
    rw [h0] at harch ⊢
    have hcore := touch_core i.odPaused
    -- facts available once the input is well-formed
    have hwf_facts : WF i →
        SAsc (ys.map (touch i.odPaused) ++ [touch i.odPaused c]) ∧
        ((ys.map (touch i.odPaused) ++ [touch i.odPaused c]).map (·.id)).Nodup ∧
        specCur i = some c ∧ (specPrev i).Perm ys := by
      intro hwf
      obtain ⟨hn, hr⟩ := hwf
      simp only [hc, ↓reduceIte] at hr
      have hperm := sortAsc_perm i.revs
      have hrS : (sortAsc i.revs).Pairwise (fun a b => a.rev ≠ b.rev) :=
        (hperm.pairwise_iff (fun {x y : Rev} (h : x.rev ≠ y.rev) => Ne.symm h)).mpr hr
      have hsS : SAsc (sortAsc i.revs) := sasc_of_asc_ne (sortAsc_sorted _) hrS
      have hnS : ((sortAsc i.revs).map (·.id)).Nodup := (hperm.map _).nodup_iff.mpr hn
      have hmap : ys.map (touch i.odPaused) ++ [touch i.odPaused c] =
          (sortAsc i.revs).map (touch i.odPaused) := by rw [hys]; simp
      have hsc := specCur_ctrl i hc hys hm hr
      refine ⟨?_, ?_, hsc, ?_⟩
      · rw [hmap]
        refine List.pairwise_map.mpr (List.Pairwise.imp ?_ hsS)
        intro a b hab; rw [hcore.rev, hcore.rev]; exact hab
      · rw [hmap, List.map_map]
        have : ((fun r : Rev => r.id) ∘ touch i.odPaused) = (fun r : Rev => r.id) := by
          funext r; simp [hcore.id]
        rw [this]; exact hnS
      · simp only [specPrev, hc, ↓reduceIte, hsc]
        have h1 : (i.revs.filter (fun r => r.id != c.id)).Perm ((sortAsc i.revs).filter (fun r => r.id != c.id)) :=
          hperm.symm.filter _
        rw [hys, List.filter_append] at h1
        rw [hys, List.map_append, List.nodup_append] at hnS
        have h2 : ys.filter (fun r => r.id != c.id) = ys := by
          rw [List.filter_eq_self]
          intro y hy
          have := hnS.2.2 y.id (List.mem_map.mpr ⟨y, hy, rfl⟩) c.id (by simp)
          simpa using this
        have h3 : [c].filter (fun r => r.id != c.id) = [] := by simp
        rw [h2, h3, List.append_nil] at h1
        exact h1
    have hdel_iff : ∀ j, Write.delete j ∈ (propagate i.odPaused (sortAsc i.revs)).1 ++
        (reconcile (ys.map (touch i.odPaused)) (some (touch i.odPaused c)) i.limit i.fin).1 ↔
        Write.delete j ∈ (reconcile (ys.map (touch i.odPaused)) (some (touch i.odPaused c)) i.limit i.fin).1 := by
      intro j
      constructor
      · intro h
        rcases List.mem_append.mp h with h | h
        · exact absurd (propagate_writes h) (by simp [IsPropagation])
        · exact h
      · intro h; exact List.mem_append.mpr (Or.inr h)
    constructor
    · intro w hw
      cases w with
      | archive id => exact harch id hw
      | delete id =>
        intro hwf
        obtain ⟨hs, hn, hsc, hpp⟩ := hwf_facts hwf
        have := (gc_oldest _ _ i.limit i.fin hs hn).1 id ((hdel_iff id).mp hw)
        rw [hsc]
        refine ⟨deleteOK_perm hpp.symm (deleteOK_map hcore this.1), ?_⟩
        intro c' hc'
        cases hc'
        rw [← hcore.id c]
        exact this.2
      | pause _ => trivial
      | ppause _ => trivial
      | activate _ => trivial
    · intro hwf
      obtain ⟨hs, hn, _, hpp⟩ := hwf_facts hwf
      have hcl := (gc_oldest _ _ i.limit i.fin hs hn).2
      have hcl2 : GcClosed ys (dels (reconcile (ys.map (touch i.odPaused)) (some (touch i.odPaused c)) i.limit i.fin).1) :=
        gcClosed_map hcore hcl
      have hcl3 := gcClosed_congr (fun x => hpp.symm.mem_iff) hcl2
      intro p hp hpd q hq hlt
      rw [mem_dels, hdel_iff, ← mem_dels] at hpd ⊢
      exact hcl3 p hp hpd q hq hlt

/-- **model_satisfies_spec**: for every scenario whatsoever, the write list of the model satisfies
the monitored predicate `ArchiveSpec.Ok` (every archive write justified by the property's sentence;
on well-formed input every delete addressed to one of the `|prev| − limit` oldest previous
revisions, never to the current one, oldest first without gaps). -/
theorem model_satisfies_spec (i : Input) : Ok i (run i).1 := by
  cases hc : i.ctrl
  · exact ok_direct i hc
  · exact ok_ctrl i hc

/-- **monitor_model_ok** (monitor-vs-model): the driver's monitor (`ArchiveSpec.verdict`, which
decides `Ok`) answers `"ok"` on the model's own output for every scenario. -/
theorem monitor_model_ok (i : Input) : verdict i (run i).1 = "ok" := by
  have h := model_satisfies_spec i
  unfold verdict
  have hfind : (run i).1.find? (fun w => !decide (WriteOK i w)) = none := by
    rw [List.find?_eq_none]
    intro w hw
    simp [h.1 w hw]
  rw [hfind]
  simp only
  rw [if_pos h.2]

/-- **gc_never_current_ctrl** (full, through the controller): for ANY API listing with unique
names and unique revision numbers, in any order, the pass never deletes the current revision — the
listed revision with the highest `status.revision` whose hash annotation matches. -/
theorem gc_never_current_ctrl (i : Input) (_hc : i.ctrl = true) (hwf : WF i) (c : Rev)
    (hcur : specCur i = some c) : Write.delete c.id ∉ (run i).1 := by
  intro h
  have := (model_satisfies_spec i).1 _ h
  exact (this hwf).2 c hcur rfl

/-- **gc_oldest_ctrl** (full, through the controller): for any such listing every deleted ObjectSet
is a previous revision with fewer than `|prev| − limit` strictly older previous revisions, and
pruning leaves no gap. -/
theorem gc_oldest_ctrl (i : Input) (_hc : i.ctrl = true) (hwf : WF i) :
    (∀ id, Write.delete id ∈ (run i).1 → DeleteOK (specPrev i) i.limit id) ∧
    GcClosed (specPrev i) (dels (run i).1) := by
  have h := model_satisfies_spec i
  exact ⟨fun id hd => ((h.1 _ hd) hwf).1, h.2 hwf⟩

/-! ### multi-round histories (`Pko.Model.ArchiveHist`)

A history interleaves passes of the controller (`osr` on whatever the store lists) with roll-outs,
status reports, finished teardowns, third-party edits and deletions.  A pruned revision that
carries a finalizer stays listed — terminating — until its teardown finishes, so a later pruning
round sees it again. -/

open Pko.Model.ArchiveHist in
/-- **hist_pass_ok**: in every state of every history the pass satisfies the monitored predicate
w.r.t. what the store lists at that moment (terminating revisions included). -/
theorem hist_pass_ok (s : State) :
    Ok (inputOf s.revs s.odPaused s.limit s.fin) (odOut s).1 :=
  model_satisfies_spec (inputOf s.revs s.odPaused s.limit s.fin)

open Pko.Model.ArchiveHist in
theorem step_fin (s : State) (op : Op) : (step s op).fin = s.fin := by
  cases op <;> rfl

open Pko.Model.ArchiveHist in
/-- **hist_monitor_model_ok** (monitor-vs-model for the `hist` stream): for every initial store and
every sequence of operations, the monitor's verdict on every observed pass of the model is `"ok"`. -/
theorem hist_monitor_model_ok (s : State) (ops : List Op) :
    ∀ p ∈ (observe s ops).1, verdict (inputOf p.pre p.odPaused p.limit s.fin) p.writes = "ok" := by
  induction ops generalizing s with
  | nil => intro p hp; cases hp
  | cons op ops ih =>
    intro p hp
    have hnext := ih (step s op)
    rw [step_fin] at hnext
    cases op with
    | od =>
      simp only [observe] at hp
      rcases List.mem_cons.mp hp with rfl | hp
      · exact monitor_model_ok (inputOf s.revs s.odPaused s.limit s.fin)
      · exact hnext p hp
    | new _ _ _ _ _ _ _ => exact hnext p hp
    | status _ _ _ _ => exact hnext p hp
    | edit _ _ _ => exact hnext p hp
    | del _ => exact hnext p hp
    | finish _ => exact hnext p hp
    | pause _ => exact hnext p hp
    | limit _ => exact hnext p hp

open Pko.Model.ArchiveHist in
/-- In every pass of every history with well-formed listings (unique names and revision numbers):
every deleted ObjectSet is a previous revision with fewer than `|prev| − limit` strictly older
previous revisions — the still-terminating ones counted — and never the current one. -/
theorem hist_gc_oldest (s : State) (hwf : WF (inputOf s.revs s.odPaused s.limit s.fin)) :
    ∀ id, Write.delete id ∈ (odOut s).1 →
      DeleteOK (specPrev (inputOf s.revs s.odPaused s.limit s.fin)) s.limit id :=
  fun id hd => (gc_oldest_ctrl (inputOf s.revs s.odPaused s.limit s.fin) rfl hwf).1 id hd

/-! ### concrete runs: non-vacuity and reading notes -/

/-- revision literal: name, revision, Available, status-paused, lifecycle, controllerOf, inline objects -/
def mk (id : Nat) (rev : Int) (av sp : Bool) (lc : Lifecycle) (co : Option (List Key))
    (obj : List Key) : Rev :=
  { id := id, rev := rev, available := av, statusPaused := sp, lc := lc, pbp := false,
    controllerOf := co, objects := obj, hashMatch := true }

/-- Non-vacuity: one pass in which every branch fires.  r3 (current, unavailable) / r2 unavailable,
paused, controls only key 9 which r3 does not contain (case 3 ⇒ archived) / r1 Available (case 1) /
r0 older, still active, not yet paused (⇒ pause write, not archived) — limit 2 of 3 previous
revisions ⇒ the oldest one (r0) is deleted.  The hypotheses of every theorem above are met
(strictly ascending, unique names) and the write list is non-empty and satisfies the spec. -/
example :
    let prev := [mk 0 1 false false .active (some [5]) [5], mk 1 2 true false .active (some [6]) [6],
                 mk 2 3 false true .paused (some [9]) [6, 9]]
    let cur := mk 3 4 false false .active none [6, 7]
    reconcile prev (some cur) (some 2) true = ([.pause 0, .archive 2, .delete 0], false) ∧
    SAsc (prev ++ [cur]) ∧ ((prev ++ [cur]).map (·.id)).Nodup ∧
    toArchive prev cur = [mk 2 3 false true .paused (some [9]) [6, 9]] := by
  decide

/-- Non-vacuity of the controller path: API listing in arbitrary order, deployment just un-paused:
the paused-by-parent revision 0 (listed second) is re-activated, then — still carrying
`Paused=True` — archived because revision 1 is Available; with limit 0 it is pruned as well. -/
example :
    osr [{ mk 1 7 true false .active (some [1]) [1] with hashMatch := true },
         { mk 0 3 false true .paused (some []) [0] with pbp := true }] false (some 0) true
      = ([.activate 0, .archive 0, .delete 0], false) := by
  decide

/-- Reading note 1 (not a violation of the sentence as formalised): "confirmed paused" is the
`Paused=True` condition alone.  A revision whose `spec.lifecycleState` is Active but whose status
still says `Paused=True` (e.g. in the pass that un-pauses the deployment, see the example above) is
archived without any pause write. -/
theorem archive_of_active_revision_witness :
    reconcile [mk 0 1 false true .active (some [0]) [0]] (some (mk 1 2 true false .active none [0]))
      none true = ([.archive 0], false) := by
  decide

/-- Reading note 2: pruning counts and deletes ALL previous revisions, archived or not, Available or
not.  Here revision 0 is Available, active and the only revision serving; revision 1 is archived for
an unrelated reason (case 3) and with `revisionHistoryLimit = 1` the same pass deletes revision 0.
The property's sentence ("deletes only the oldest revisions beyond revisionHistoryLimit") permits
this; the API doc of the field speaks of "archived ObjectSets to keep". -/
theorem gc_deletes_available_unarchived_witness :
    reconcile [mk 0 1 true false .active (some [0]) [0], mk 1 2 false true .paused (some [1]) [1]]
      (some (mk 2 3 false false .active none [0, 2])) (some 1) true
      = ([.archive 1, .delete 0], false) := by
  decide

/-- Reading note 3: "next newer" is the adjacent revision only.  Revision 0 controls key 0, which
the current revision 2 contains again, but the adjacent revision 1 does not: revision 0 is archived
although the newest revision contains an object it still controls. (Input to part (b).) -/
theorem adjacent_only_witness :
    reconcile [mk 0 1 false true .paused (some [0]) [0], mk 1 2 false false .active (some [1]) [1]]
      (some (mk 2 3 false false .active none [0])) none true
      = ([.pause 1, .archive 0], false) := by
  decide

/-- **sliced_latest_revision_witness** (the C08S finding, regression): r1 — the next newer revision —
keeps key 0 in an ObjectSlice; r0 is unavailable, has confirmed its pause and still controls key 0.
The pass writes nothing (before the repair of `archiveReconciler` — `getObjects()` of the latest
revision read the inline objects only — it archived r0, whose teardown then deletes the object
instead of it being adopted in place; `ArchiveSpec.verdict` rejects that write). -/
theorem sliced_latest_revision_witness :
    let r0 := mk 0 1 false true .paused (some [0]) [0]
    let r1 := { mk 1 2 false false .active none [] with sliced := [0] }
    reconcile [r0] (some r1) none true = ([], false) ∧
    verdict { ctrl := false, revs := [r0, r1], hasCur := true, odPaused := false, limit := none, fin := true }
      [.archive 0] ≠ "ok" ∧
    -- the same revision with the object inline, and with a key r0 does not control in the slice
    reconcile [r0] (some (mk 1 2 false false .active none [0])) none true = ([], false) ∧
    reconcile [r0] (some { mk 1 2 false false .active none [1] with sliced := [2] }) none true
      = ([.archive 0], false) := by
  decide

/-- A referenced ObjectSlice of the latest revision does not exist: the pass returns the error and
archives nothing, although r0 controls only key 1, which none of the objects of r1 that could be
read is. -/
theorem missing_slice_witness :
    let r0 := mk 0 1 false true .paused (some [1]) [1]
    let r1 := { mk 1 2 false false .active none [0] with sliceMissing := true }
    reconcile [r0] (some r1) none true = ([], true) := by
  decide

/-- **gc_never_current_counterexample** (unit level only): `archiveReconciler.Reconcile` called
directly with unique names but a current revision that is NOT the newest: `sort.Sort` of
`append(prevObjectSets, currentObjectSet)` works in place on the backing array `prevObjectSets`
shares (objectset_reconciler.go l.63 passes `objectSets[0:len-1]`), so the current revision moves
into the window `prevObjectSets` covers and pruning deletes it (`.delete 2`).  Unreachable through
the controller — `listObjectSetsByRevision` sorts and the current revision is the last element
(`gc_never_current_ctrl`) — hence not reported by the monitor. -/
theorem gc_never_current_counterexample :
    ∃ (prev : List Rev) (c : Rev) (limit : Option Int) (fin : Bool),
      ((prev ++ [c]).map (·.id)).Nodup ∧
      Write.delete c.id ∈ (reconcile prev (some c) limit fin).1 ∧
      reconcile prev (some c) limit fin = ([.pause 2, .archive 0, .delete 0, .delete 2], false) :=
  ⟨[mk 0 1 false true .paused (some []) [0], mk 1 3 true false .active (some [1]) [1]],
   mk 2 2 false false .active none [2], some 0, true, by decide⟩

/-- Without finalizers a pruned ObjectSet is gone before its own `Archived` update is sent: the
update fails with NotFound and the pass returns an error (liveness only; nothing unsafe is written). -/
theorem archive_after_prune_errors_witness :
    reconcile [mk 0 1 false true .paused (some []) [0], mk 1 2 false true .paused (some []) [1]]
      (some (mk 2 3 true false .active none [2])) (some 0) false
      = ([.archive 0, .delete 0, .delete 1, .archive 1], true) := by
  decide

/-- Non-vacuity of the terminating dimension (the shape of seed C08-2, unit level): limit 3, four
previous revisions of which the oldest is still terminating.  Exactly one revision is beyond the
limit: the pass deletes revision 0 again and nothing else. -/
theorem gc_terminating_oldest_witness :
    reconcile [{ mk 0 1 false true .archived (some []) [0] with terminating := true },
               mk 1 2 false true .archived (some []) [1], mk 2 3 false true .archived (some []) [2],
               mk 3 4 false true .paused (some []) [0]]
      (some (mk 4 5 true false .active none [1])) (some 3) true
      = ([.archive 3, .delete 0], false) := by
  decide

open Pko.Model.ArchiveHist in
/-- **prune_again_counts_terminating_witness** (multi-round): limit 1.  Round 1 archives revision 1
and prunes revision 0, which stays listed (finalizer).  A new revision is rolled out, the replaced
revision 2 is paused, confirms, and round 2 archives it: the previous revisions are now
`[0 (terminating), 1, 2]`, two are beyond the limit — the pass deletes 0 (again) and 1, and keeps 2. -/
theorem prune_again_counts_terminating_witness :
    let s0 : State := { revs := [mk 0 1 false true .archived (some []) [0], mk 1 2 false true .paused (some []) [1],
                                 mk 2 3 true false .active (some [2]) [2]],
                        next := 3, hi := 3, odPaused := false, limit := some 1, fin := true }
    ((observe s0 [.od, .new false true false (some []) [0], .od, .status 2 false true (some []), .od]).1.map
        (fun p => (p.pre.map (fun r => (r.id, r.terminating)), p.writes)))
      = [([(0, false), (1, false), (2, false)], [.archive 1, .delete 0]),
         ([(0, true), (1, false), (2, false), (3, false)], [.pause 2]),
         ([(0, true), (1, false), (2, false), (3, false)], [.archive 2, .delete 0, .delete 1])] := by
  decide

end Pko.Props.C08
