/-
Environment model: the Kubernetes API as PKO's phase reconciler uses it (DESIGN.md §4).
MODELLED, NOT VERIFIED: this file states the assumed behaviour of the API server; the same
behaviour is implemented by `harness/verifstore` (Go) and every correspondence run diffs the two.

Objects are abstracted to what the modelled PKO code reads or writes:
owner references (native list and the `package-operator.run/owners` annotation), the
revision annotation, the cache label, the package label, an opaque payload (the desired-state
part), a readiness bit + observed generation (what the availability probe of the harness looks
at), a foreign finalizer, deletion state, and the server-assigned uid / resourceVersion /
generation (dense counters).
-/
namespace Pko.Kube

/-- Object key (group is fixed in the harness universe, so it is part of `kind`). -/
structure Key where
  kind : String
  ns : String
  name : String
  deriving DecidableEq, Repr, Inhabited

/-- An owner reference (either in `metadata.ownerReferences` or in the owners annotation). -/
structure ORef where
  group : String
  kind : String
  name : String
  uid : String
  ctrl : Bool
  deriving DecidableEq, Repr, Inhabited

/-- The `package-operator.run/revision` annotation. -/
inductive Rev where
  | absent
  | num (n : Nat)
  | garbage            -- present but not an integer
  deriving DecidableEq, Repr, Inhabited

structure Obj where
  uid : Nat
  rv : Nat
  gen : Nat
  owners : List ORef
  annOwners : List ORef
  rev : Rev
  cacheLabel : Bool
  pkgLabel : String       -- value of the package label, "" = absent
  payload : String
  ready : Bool            -- status says Ready=True
  obsGen : Option Nat     -- status.observedGeneration, if declared
  finalizer : Bool        -- a foreign finalizer delays deletion
  deleting : Bool
  deriving DecidableEq, Repr, Inhabited

/-- Scope of a kind as the REST mapper reports it. -/
inductive Scope where
  | namespaced | cluster | unknown
  deriving DecidableEq, Repr, Inhabited

structure Store where
  objs : Key → Option Obj
  nextUID : Nat
  nextRV : Nat

def Store.get (s : Store) (k : Key) : Option Obj := s.objs k

def Store.set (s : Store) (k : Key) (o : Option Obj) : Store :=
  { s with objs := fun k' => if k' = k then o else s.objs k' }

/-- Error classes the modelled code distinguishes. -/
inductive ApiErr where
  | notFound | alreadyExists | conflict | invalid | other
  deriving DecidableEq, Repr, Inhabited

/-- The part of an object a writer (SSA apply) specifies. -/
structure Applied where
  owners : List ORef            -- metadata.ownerReferences in the apply configuration
  annOwners : Option (List ORef) -- owners annotation, if the configuration carries it
  rev : Nat                     -- revision annotation (always applied by PKO)
  pkgLabel : String             -- package label applied ("" = not applied)
  payload : String
  deriving Repr, Inhabited

/-- Merge applied owner references into the existing list: same uid ⇒ replaced in place,
new uid ⇒ appended (ownerReferences is an associative list keyed by uid). -/
def mergeOwners (cur applied : List ORef) : List ORef :=
  let replaced := cur.map fun r => (applied.find? (fun a => a.uid = r.uid)).getD r
  replaced ++ applied.filter (fun a => !(cur.any fun r => r.uid = a.uid))

/-- Fields of the object after a write, server-owned metadata handled like the real API:
no-op writes leave `rv` unchanged, payload changes bump `gen`. -/
def commit (s : Store) (k : Key) (prev next : Obj) : Store × Obj :=
  let next := { next with uid := prev.uid, deleting := prev.deleting, gen := prev.gen, rv := prev.rv }
  if prev.deleting && !next.finalizer then
    (s.set k none, next)                                     -- last finalizer gone ⇒ object removed
  else if next = prev then (s, prev)                          -- no-op
  else
    let next := if next.payload ≠ prev.payload then { next with gen := prev.gen + 1 } else next
    let next := { next with rv := s.nextRV }
    ({ (s.set k (some next)) with nextRV := s.nextRV + 1 }, next)

/-- Server-side apply with force by PKO's field manager.  Creates when absent.  Never touches
status (`ready`, `obsGen`), finalizers or deletion state. Returns the stored object. -/
def Store.apply (s : Store) (k : Key) (a : Applied) : Store × Obj × Bool :=
  match s.get k with
  | none =>
    let o : Obj := { uid := s.nextUID, rv := s.nextRV, gen := 1, owners := a.owners,
                     annOwners := a.annOwners.getD [], rev := .num a.rev, cacheLabel := true,
                     pkgLabel := a.pkgLabel, payload := a.payload, ready := false, obsGen := none,
                     finalizer := false, deleting := false }
    ({ (s.set k (some o)) with nextUID := s.nextUID + 1, nextRV := s.nextRV + 1 }, o, true)
  | some cur =>
    let next := { cur with
      owners := mergeOwners cur.owners a.owners
      annOwners := a.annOwners.getD cur.annOwners
      rev := .num a.rev
      cacheLabel := true
      pkgLabel := if a.pkgLabel = "" then cur.pkgLabel else a.pkgLabel
      payload := a.payload }
    let (s', o) := commit s k cur next
    (s', o, false)

/-- JSON merge patch used by the teardown co-owner branch: replaces `ownerReferences`,
removes the cache label. -/
def Store.mergeOwnersPatch (s : Store) (k : Key) (owners : List ORef) : Store × Except ApiErr Obj :=
  match s.get k with
  | none => (s, .error .notFound)
  | some cur =>
    let (s', o) := commit s k cur { cur with owners := owners, cacheLabel := false }
    (s', .ok o)

/-- Delete with uid / resourceVersion preconditions; finalizers turn it into `deleting`. -/
def Store.delete (s : Store) (k : Key) (preUID preRV : Nat) : Store × Except ApiErr Unit :=
  match s.get k with
  | none => (s, .error .notFound)
  | some cur =>
    if cur.uid ≠ preUID ∨ cur.rv ≠ preRV then (s, .error .conflict)
    else if cur.finalizer then
      if cur.deleting then (s, .ok ())
      else ({ (s.set k (some { cur with deleting := true, rv := s.nextRV })) with nextRV := s.nextRV + 1 }, .ok ())
    else (s.set k none, .ok ())

/-- Third-party / environment operations (unconstrained; may occur between any two PKO steps). -/
inductive EnvOp where
  | reown (k : Key) (owners : List ORef)        -- replace metadata.ownerReferences
  | setRev (k : Key) (r : Rev)
  | setPayload (k : Key) (p : String)
  | setReady (k : Key) (ready : Bool) (obs : Option Nat)
  | delete (k : Key)                            -- GC / user delete (honours finalizers)
  | recreate (k : Key)                          -- delete + create: new uid, no owners
  | removeFinalizer (k : Key)
  | relabel (k : Key) (pkg : String)
  deriving Repr, Inhabited

def Store.env (s : Store) : EnvOp → Store
  | .reown k os => match s.get k with
    | some c => (commit s k c { c with owners := os }).1 | none => s
  | .setRev k r => match s.get k with
    | some c => (commit s k c { c with rev := r }).1 | none => s
  | .setPayload k p => match s.get k with
    | some c => (commit s k c { c with payload := p }).1 | none => s
  | .setReady k r ob => match s.get k with
    | some c => (commit s k c { c with ready := r, obsGen := ob }).1 | none => s
  | .delete k => match s.get k with
    | some c =>
      if c.finalizer then
        if c.deleting then s
        else { (s.set k (some { c with deleting := true, rv := s.nextRV })) with nextRV := s.nextRV + 1 }
      else s.set k none
    | none => s
  | .recreate k => match s.get k with
    | some c =>
      let o : Obj := { c with uid := s.nextUID, rv := s.nextRV, gen := 1, owners := [], annOwners := [], rev := .absent, deleting := false, finalizer := false, ready := false, obsGen := none }
      { (s.set k (some o)) with nextUID := s.nextUID + 1, nextRV := s.nextRV + 1 }
    | none => s
  | .removeFinalizer k => match s.get k with
    | some c => (commit s k c { c with finalizer := false }).1 | none => s
  | .relabel k p => match s.get k with
    | some c => (commit s k c { c with pkgLabel := p }).1 | none => s

end Pko.Kube
