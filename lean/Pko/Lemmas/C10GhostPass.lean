/-
C10, ghost non-interference, part 4: the whole controller pass.  `reconcilePhases`,
`teardownPhases`, `activePhasesCore`, `revisionStep`, `deletionOrArchival`, `reconcile` of the
ObjectSet controller and `reconcilePhaseCtl` of the ObjectSetPhase controller map ghost-equal
systems to ghost-equal systems and return the same result (for a `Remotes` record that respects
ghost equality, as `Pko.Model.Remote.remotes` does).  Core Lean only.
-/
import Pko.Lemmas.C10GhostSys

namespace Pko.Props.C10Lift
open Pko.Kube Pko.Model.Phase Pko.Model.ObjectSet Pko.Model.Status Pko.Model.Converge Pko.Model.Remote

/-! ### phases -/

/-- `objectSetPhasesReconciler.reconcile` (all phases in order) does not read the ghost state. -/
theorem reconcilePhases_ghost (cfg : Cfg) (ow : Owner) (prev : List Prev)
    (remote : PhaseSpec → World → World × Except PassErr (List CRef × Bool))
    (hrm : ∀ (ph : PhaseSpec) {w w' : World}, GhostEq w w' → RelW (remote ph w) (remote ph w')) :
    ∀ (phs : List PhaseSpec) (acc : List CRef) {w w' : World}, GhostEq w w' →
      RelW (reconcilePhases cfg ow prev remote phs w acc) (reconcilePhases cfg ow prev remote phs w' acc) := by
  intro phs
  induction phs with
  | nil => intro acc w w' h; exact RelW.mk' h _
  | cons ph rest ih =>
    intro acc w w' h
    simp only [reconcilePhases]
    split
    · obtain ⟨w1, w1', r, e1, e2, h1⟩ := (hrm ph h).elim
      simp only [e1, e2]
      cases r with
      | error e => exact RelW.mk' h1 _
      | ok x =>
        obtain ⟨crefs, ok⟩ := x
        cases ok
        · exact RelW.mk' h1 _
        · exact ih _ h1
    · obtain ⟨w1, w1', r, e1, e2, h1⟩ := (reconcilePhaseObjs_ghost cfg ow prev ph.objs h).elim
      simp only [e1, e2]
      obtain ⟨oc, objs⟩ := r
      cases oc with
      | preflight => exact RelW.mk' h1 _
      | collision b => exact RelW.mk' h1 _
      | err => exact RelW.mk' h1 _
      | ok failed =>
        simp only
        split
        · exact ih _ h1
        · exact RelW.mk' h1 _

/-- teardown of all phases (reverse order is the caller's business) does not read the ghost state. -/
theorem teardownPhases_ghost (cfg : Cfg) (ow : Owner) (remote : PhaseSpec → World → World × TRes)
    (hrm : ∀ (ph : PhaseSpec) {w w' : World}, GhostEq w w' → RelW (remote ph w) (remote ph w')) :
    ∀ (phs : List PhaseSpec) {w w' : World}, GhostEq w w' →
      RelW (teardownPhases cfg ow remote phs w) (teardownPhases cfg ow remote phs w') := by
  intro phs
  induction phs with
  | nil => intro w w' h; exact RelW.mk' h _
  | cons ph rest ih =>
    intro w w' h
    have hstep : RelW (if ph.cls ≠ "" then remote ph w else teardownPhase cfg ow ph.objs w)
        (if ph.cls ≠ "" then remote ph w' else teardownPhase cfg ow ph.objs w') := by
      split
      · exact hrm ph h
      · exact teardownPhase_ghost cfg ow ph.objs h
    obtain ⟨w1, w1', r, e1, e2, h1⟩ := hstep.elim
    simp only [teardownPhases, e1, e2]
    cases r with
    | done => exact ih h1
    | notDone => exact RelW.mk' h1 _
    | err => exact RelW.mk' h1 _

/-- `objectSetPhasesReconciler.Teardown` does not read the ghost state. -/
theorem teardown_ghost (cfg : Cfg) (o : OSet) (remote : PhaseSpec → World → World × TRes)
    (hrm : ∀ (ph : PhaseSpec) {w w' : World}, GhostEq w w' → RelW (remote ph w) (remote ph w'))
    {w w' : World} (h : GhostEq w w') :
    RelW (teardown cfg o remote w) (teardown cfg o remote w') := by
  simp only [teardown]
  split
  · exact RelW.mk' h _
  · exact teardownPhases_ghost cfg o.owner remote hrm _ h

/-! ### the reads of the pass -/

theorem lookupPrev_ghost {s s' : Sys} (h : GhostEqS s s') (o : OSet) : lookupPrev s o = lookupPrev s' o := by
  simp only [lookupPrev, h.sets]

theorem lookupPrevFor_ghost {s s' : Sys} (h : GhostEqS s s') (k : String) (previous : List String) :
    lookupPrevFor s k previous = lookupPrevFor s' k previous := by
  simp only [lookupPrevFor, h.sets]

/-- `reportPausedCondition` reads the delegated phase objects only. -/
theorem finishMem_ghost {w w' : World} (h : GhostEq w w') (mem : OSet) : finishMem w mem = finishMem w' mem := by
  simp only [finishMem, remotePhasesPaused, h.phases]

/-! ### the tail of the pass -/

theorem finish_ghost (mem : OSet) (res : Res) {s s' : Sys} (h : GhostEqS s s') :
    RelS (finish s mem res) (finish s' mem res) := by
  simp only [finish, finishMem_ghost h.w mem]
  exact afterStatus_ghost (updateStatus_ghost _ h) _

theorem statusFromError_ghost (mem : OSet) (reason : String) {s s' : Sys} (h : GhostEqS s s') :
    RelS (statusFromError s mem reason) (statusFromError s' mem reason) := by
  simp only [statusFromError]
  exact afterStatus_ghost (updateStatus_ghost _ h) _

/-- resetting the collected remote phase references. -/
theorem clearRefs_ghost {w w' : World} (h : GhostEq w w') :
    GhostEq { w with remoteRefs := [] } { w' with remoteRefs := [] } :=
  ⟨h.store, h.writes, h.env, h.events, h.phases, h.phaseEvents, rfl, h.applied, h.watched⟩

theorem foldl_sync_ghost (rm : Remotes) (hrm : RespectsGhost rm) (mem : OSet) :
    ∀ (phs : List PhaseSpec) {w w' : World}, GhostEq w w' →
      GhostEq (phs.foldl (fun w ph => rm.sync mem ph w) w) (phs.foldl (fun w ph => rm.sync mem ph w) w') := by
  intro phs
  induction phs with
  | nil => intro w w' h; exact h
  | cons ph rest ih => intro w w' h; simp only [List.foldl_cons]; exact ih (hrm.sync mem ph h)

/-- handing the pause to the remaining delegated phases (fix C09-a) does not read the ghost state. -/
theorem afterPhases_ghost (rm : Remotes) (hrm : RespectsGhost rm) (mem : OSet) (pr : PhasesRes)
    {w w' : World} (h : GhostEq w w') : GhostEq (afterPhases rm mem pr w) (afterPhases rm mem pr w') := by
  unfold afterPhases
  split
  · split
    · exact foldl_sync_ghost rm hrm mem _ h
    · exact h
  · exact h

/-- `objectSetPhasesReconciler.Reconcile` + the tail of the pass does not read the ghost state. -/
theorem activePhasesCore_ghost (cfg : Cfg) (rm : Remotes) (hrm : RespectsGhost rm) (mem : OSet)
    {s s' : Sys} (h : GhostEqS s s') :
    RelS (activePhasesCore cfg rm s mem) (activePhasesCore cfg rm s' mem) := by
  simp only [activePhasesCore]
  split
  · exact statusFromError_ghost mem _ h
  · rw [lookupPrev_ghost h mem]
    obtain ⟨w1, w1', r, e1, e2, h1⟩ :=
      (reconcilePhases_ghost cfg mem.owner (lookupPrev s' mem) (rm.recon mem) (fun ph _ _ hw => hrm.recon mem ph hw)
        mem.phases [] h.w).elim
    simp only [e1, e2]
    have h1' := afterPhases_ghost rm hrm mem r h1
    generalize afterPhases rm mem r w1 = w2 at h1' ⊢
    generalize afterPhases rm mem r w1' = w2' at h1' ⊢
    simp only [h1'.remoteRefs]
    have h2 : GhostEqS { s with w := { w2 with remoteRefs := [] } } { s' with w := { w2' with remoteRefs := [] } } :=
      withW_ghost h (clearRefs_ghost h1')
    cases r with
    | error e =>
      cases e with
      | preflight => exact statusFromError_ghost _ _ h2
      | collision => exact statusFromError_ghost _ _ h2
      | other => exact RelS.mk' h2 _
    | ok x => exact finish_ghost _ _ h2


/-- the pause hand-over at the head of the pass (fix C09-b) does not read the ghost state. -/
theorem beforePhases_ghost (rm : Remotes) (hrm : RespectsGhost rm) (mem : OSet)
    {w w' : World} (h : GhostEq w w') : GhostEq (beforePhases rm mem w) (beforePhases rm mem w') := by
  unfold beforePhases
  split
  · exact foldl_sync_ghost rm hrm mem _ h
  · exact h

theorem activePhases_ghost (cfg : Cfg) (rm : Remotes) (hrm : RespectsGhost rm) (mem : OSet)
    {s s' : Sys} (h : GhostEqS s s') :
    RelS (activePhases cfg rm s mem) (activePhases cfg rm s' mem) := by
  unfold activePhases
  exact activePhasesCore_ghost cfg rm hrm mem
    ⟨beforePhases_ghost rm hrm mem h.w, h.sets, h.setEvents, h.freed, h.setWrites, h.setEnv, h.slices, h.scopeOv, h.od⟩

/-- `revisionReconciler.Reconcile` does not read the ghost state. -/
theorem revisionStep_ghost (mem : OSet) {s s' : Sys} (h : GhostEqS s s') :
    RelS (revisionStep s mem) (revisionStep s' mem) := by
  simp only [revisionStep, h.sets]
  split
  · exact RelS.mk' h _
  · split
    · exact RelS.mk' h _
    · split
      · exact RelS.mk' h _
      · exact RelS.mk' h _
      · obtain ⟨t, t', r, e1, e2, h1⟩ := (updateStatus_ghost
          { mem with revision := ((mem.previous.map s'.sets).filterMap fun p => p.map (·.revision)).foldl max 0 + 1 } h).elim
        simp only [e1, e2]
        cases r with
        | ok m => exact RelS.mk' h1 _
        | error e => exact RelS.mk' h1 _

theorem ite_ghost {α : Type} (c : Prop) [Decidable c] {a b a' b' : Sys × α} (h1 : RelS a a') (h2 : RelS b b') :
    RelS (if c then a else b) (if c then a' else b') := by
  split <;> assumption

/-- **`handleDeletionAndArchival` (and what follows it) does not read the ghost state.** -/
theorem deletionOrArchival_ghost (cfg : Cfg) (rm : Remotes) (hrm : RespectsGhost rm) (mem : OSet)
    {s s' : Sys} (h : GhostEqS s s') :
    RelS (deletionOrArchival cfg rm s mem) (deletionOrArchival cfg rm s' mem) := by
  have hstep : RelW (if mem.finCached then teardown cfg mem (rm.tear mem) s.w else (s.w, TRes.done))
      (if mem.finCached then teardown cfg mem (rm.tear mem) s'.w else (s'.w, TRes.done)) := by
    split
    · exact teardown_ghost cfg mem (rm.tear mem) (fun ph _ _ hw => hrm.tear mem ph hw) h.w
    · exact RelW.mk' h.w _
  obtain ⟨w1, w1', tr, e1, e2, h1⟩ := hstep.elim
  simp only [deletionOrArchival, e1, e2]
  have h2 : GhostEqS { s with w := w1 } { s' with w := w1' } := withW_ghost h h1
  cases tr with
  | err => exact RelS.mk' h2 _
  | notDone =>
    simp only
    exact ite_ghost _ (RelS.mk' h2 _) (afterStatus_ghost (updateStatus_ghost _ h2) _)
  | done =>
    simp only
    obtain ⟨t, t', r, e3, e4, h3⟩ := (setFinalizer_ghost mem false (withFreed_ghost (withW_ghost h2 (free_ghost h1 mem.owner.wref)) mem.name)).elim
    simp only at e3 e4
    simp only [e3, e4]
    cases r with
    | error e => exact RelS.mk' h3 _
    | ok m =>
      simp only
      exact ite_ghost _ (RelS.mk' h3 _) (afterStatus_ghost (updateStatus_ghost _ h3) _)

/-- **`GenericObjectSetController.Reconcile` does not read the ghost state.** -/
theorem reconcile_ghost (cfg : Cfg) (rm : Remotes) (hrm : RespectsGhost rm) (name : String)
    {s s' : Sys} (h : GhostEqS s s') :
    RelS (reconcile cfg rm name s) (reconcile cfg rm name s') := by
  simp only [reconcile]
  rw [congrFun h.sets name]
  split
  · exact RelS.mk' h _
  · split
    · exact RelS.mk' h _
    · split
      · exact deletionOrArchival_ghost cfg rm hrm _ h
      · rename_i mem _ _ _
        obtain ⟨t, t', r, e1, e2, h1⟩ := (setFinalizer_ghost mem true h).elim
        simp only [e1, e2]
        cases r with
        | error e => exact RelS.mk' h1 _
        | ok m =>
          simp only
          obtain ⟨u, u', r2, e3, e4, h2⟩ := (revisionStep_ghost m h1).elim
          simp only [e3, e4]
          cases r2 with
          | error e =>
            cases e with
            | requeue => exact finish_ghost _ _ h2
            | ok => exact RelS.mk' h2 _
            | err => exact RelS.mk' h2 _
          | ok m2 => exact activePhases_ghost cfg rm hrm m2 h2

/-! ### the ObjectSetPhase controller -/

/-- **`GenericObjectSetPhaseController.Reconcile` does not read the ghost state.** -/
theorem reconcilePhaseCtl_ghost (cfg : Cfg) (setKind ns name : String) {s s' : Sys} (h : GhostEqS s s') :
    RelS (reconcilePhaseCtl cfg setKind ns name s) (reconcilePhaseCtl cfg setKind ns name s') := by
  simp only [reconcilePhaseCtl]
  rw [congrFun h.w.phases name]
  split
  · exact RelS.mk' h _
  · rename_i mem _
    split
    · -- deleting
      have hstep : RelW
          (if mem.finCached then (if mem.finOrphan then (s.w, TRes.done)
            else teardownPhase cfg (phaseOwner mem setKind ns) mem.objs s.w) else (s.w, TRes.done))
          (if mem.finCached then (if mem.finOrphan then (s'.w, TRes.done)
            else teardownPhase cfg (phaseOwner mem setKind ns) mem.objs s'.w) else (s'.w, TRes.done)) := by
        split
        · split
          · exact RelW.mk' h.w _
          · exact teardownPhase_ghost cfg _ _ h.w
        · exact RelW.mk' h.w _
      obtain ⟨w1, w1', tr, e1, e2, h1⟩ := hstep.elim
      simp only [e1, e2]
      cases tr with
      | err => exact RelS.mk' (withW_ghost h h1) _
      | notDone =>
        simp only
        obtain ⟨w2, w2', r, e3, e4, h2⟩ := (afterPhaseStatus_ghost (updatePhaseStatus_ghost mem h1) .ok).elim
        simp only [e3, e4]
        exact RelS.mk' (withW_ghost h h2) _
      | done =>
        simp only
        obtain ⟨w2, w2', r, e3, e4, h2⟩ := (setPhaseFinalizer_ghost mem false (free_ghost h1 (phaseOwner mem setKind ns).wref)).elim
        simp only [e3, e4]
        cases r with
        | error e => exact RelS.mk' (withFreed_ghost (withW_ghost h h2) _) _
        | ok m =>
          simp only
          obtain ⟨w3, w3', r3, e5, e6, h3⟩ := (afterPhaseStatus_ghost (updatePhaseStatus_ghost m h2) .ok).elim
          simp only [e5, e6]
          exact RelS.mk' (withFreed_ghost (withW_ghost h h3) _) _
    · obtain ⟨w1, w1', r, e1, e2, h1⟩ := (setPhaseFinalizer_ghost mem true h.w).elim
      simp only [e1, e2]
      cases r with
      | error e => exact RelS.mk' (withW_ghost h h1) _
      | ok m =>
        simp only
        rw [lookupPrevFor_ghost h]
        obtain ⟨w2, w2', r2, e3, e4, h2⟩ :=
          (reconcilePhaseObjs_ghost cfg (phaseOwner mem setKind ns) (lookupPrevFor s' setKind m.previous) m.objs h1).elim
        simp only [e3, e4]
        obtain ⟨oc, objs⟩ := r2
        cases oc with
        | preflight =>
          simp only
          obtain ⟨w3, w3', r3, e5, e6, h3⟩ := (afterPhaseStatus_ghost (updatePhaseStatus_ghost
            { m with conds := setCond m.conds (availableCond m.gen false "PreflightError" "") } h2) .requeue).elim
          simp only [e5, e6]
          exact RelS.mk' (withW_ghost h h3) _
        | collision b =>
          simp only
          obtain ⟨w3, w3', r3, e5, e6, h3⟩ := (afterPhaseStatus_ghost (updatePhaseStatus_ghost
            { m with conds := setCond m.conds (availableCond m.gen false "CollisionDetected" "") } h2) .requeue).elim
          simp only [e5, e6]
          exact RelS.mk' (withW_ghost h h3) _
        | err => exact RelS.mk' (withW_ghost h h2) _
        | ok failed =>
          simp only
          generalize hm : (if (if failed.isEmpty = true then _ else _ : OPhase).paused = true then _ else _ : OPhase) = mfin
          obtain ⟨w3, w3', r3, e5, e6, h3⟩ := (afterPhaseStatus_ghost (updatePhaseStatus_ghost mfin h2) .ok).elim
          simp only [e5, e6]
          exact RelS.mk' (withW_ghost h h3) _

end Pko.Props.C10Lift
