/-
Lemmas for C14, part A: the chunkers (`Pko.Model.Chunk.binpackChunk`, `eachChunk`, `noopChunk`).
-/
import Pko.Model.Chunk
import Pko.Model.ChunkSpec
namespace Pko.Lemmas.C14
open Pko.Model.Chunk Pko.Model.ChunkSpec

theorem total_nil : total [] = 0 := rfl
theorem total_cons (o : Obj) (l : List Obj) : total (o :: l) = objSize o + total l := by
  simp [total]
theorem total_append (a b : List Obj) : total (a ++ b) = total a + total b := by
  simp [total]

/-- Within-limit predicate of one chunk: fits, or holds an object that alone exceeds the limit. -/
def Within (limit : Nat) (c : List Obj) : Prop := total c ≤ limit ∨ ∃ o ∈ c, limit < objSize o

/-- Loop invariant of `BinpackNextFitChunker.Chunk`. -/
structure BInv (limit : Nat) (s : BP) : Prop where
  size_eq : s.curSize = total s.cur
  nonempty : ∀ c ∈ s.chunks, c ≠ []
  within : ∀ c ∈ s.chunks, Within limit c
  curWithin : Within limit s.cur

theorem binv_init (limit : Nat) : BInv limit ⟨[], [], 0⟩ :=
  ⟨rfl, by simp, by simp, Or.inl (by simp [total])⟩

theorem step_some {limit : Nat} {s s' : BP} {o : Obj} (h : binpackStep limit s o = some s') :
    ∃ n, o.size = some n ∧
      ((0 < s.curSize ∧ limit < s.curSize + n ∧ s' = ⟨s.chunks ++ [s.cur], [o], n⟩) ∨
       (¬(0 < s.curSize ∧ limit < s.curSize + n) ∧ s' = ⟨s.chunks, s.cur ++ [o], s.curSize + n⟩)) := by
  unfold binpackStep at h
  cases hs : o.size with
  | none => simp [hs] at h
  | some n =>
    refine ⟨n, rfl, ?_⟩
    simp only [hs] at h
    by_cases hc : s.curSize > 0 ∧ s.curSize + n > limit
    · left
      simp only [hc, and_self, ↓reduceIte, Option.some.injEq] at h
      exact ⟨hc.1, hc.2, by rw [← h]; simp⟩
    · right
      simp only [hc, ↓reduceIte, Option.some.injEq] at h
      exact ⟨hc, by rw [← h]⟩

theorem objSize_of_size {o : Obj} {n : Nat} (h : o.size = some n) : objSize o = n := by
  simp [objSize, h]

theorem step_inv {limit : Nat} {s s' : BP} {o : Obj} (hi : BInv limit s)
    (h : binpackStep limit s o = some s') : BInv limit s' := by
  obtain ⟨n, hn, hcase⟩ := step_some h
  have hso := objSize_of_size hn
  rcases hcase with ⟨hpos, _, rfl⟩ | ⟨hno, rfl⟩
  · refine ⟨by simp [total, hso], ?_, ?_, ?_⟩
    · intro c hc
      simp at hc
      rcases hc with hc | rfl
      · exact hi.nonempty c hc
      · intro he; rw [hi.size_eq, he] at hpos; simp [total] at hpos
    · intro c hc
      simp at hc
      rcases hc with hc | rfl
      · exact hi.within c hc
      · exact hi.curWithin
    · by_cases hl : n ≤ limit
      · left; simp [total, hso, hl]
      · right; exact ⟨o, by simp, by omega⟩
  · refine ⟨by simp [total_append, total_cons, total_nil, hso, hi.size_eq], hi.nonempty, hi.within, ?_⟩
    by_cases hz : s.curSize = 0
    · by_cases hl : n ≤ limit
      · left; rw [total_append, ← hi.size_eq, hz]; simp [total, hso, hl]
      · right; exact ⟨o, by simp, by omega⟩
    · left
      rw [total_append, ← hi.size_eq]; simp [total, hso]
      omega

theorem loop_inv {limit : Nat} {objs : List Obj} : ∀ {s s' : BP}, BInv limit s →
    binpackLoop limit s objs = some s' → BInv limit s' := by
  induction objs with
  | nil => intro s s' hi h; simp [binpackLoop] at h; exact h ▸ hi
  | cons o os ih =>
    intro s s' hi h
    simp only [binpackLoop] at h
    cases hst : binpackStep limit s o with
    | none => simp [hst] at h
    | some s1 => simp only [hst] at h; exact ih (step_inv hi hst) h

/-- Nothing is lost or reordered by the loop. -/
theorem loop_flatten {limit : Nat} {objs : List Obj} : ∀ {s s' : BP},
    binpackLoop limit s objs = some s' →
    s'.chunks.flatten ++ s'.cur = s.chunks.flatten ++ s.cur ++ objs := by
  induction objs with
  | nil => intro s s' h; simp [binpackLoop] at h; subst h; simp
  | cons o os ih =>
    intro s s' h
    simp only [binpackLoop] at h
    cases hst : binpackStep limit s o with
    | none => simp [hst] at h
    | some s1 =>
      simp only [hst] at h
      rw [ih h]
      obtain ⟨n, _, hcase⟩ := step_some hst
      rcases hcase with ⟨_, _, rfl⟩ | ⟨_, rfl⟩ <;> simp

/-- The loop fails exactly when some object cannot be measured. -/
theorem loop_none_iff {limit : Nat} {objs : List Obj} : ∀ {s : BP},
    binpackLoop limit s objs = none ↔ ∃ o ∈ objs, o.size = none := by
  induction objs with
  | nil => intro s; simp [binpackLoop]
  | cons o os ih =>
    intro s
    simp only [binpackLoop]
    cases hs : o.size with
    | none => simp [binpackStep, hs]
    | some n =>
      have : ∃ s1, binpackStep limit s o = some s1 := by simp [binpackStep, hs]
      obtain ⟨s1, h1⟩ := this
      simp [h1, ih, hs]

/-- Running total walk: the recursive form of `overflows`. -/
def overflowsFrom (limit : Nat) : Nat → List Obj → Bool
  | _, [] => false
  | a, o :: os => (decide (0 < a) && decide (limit < a + objSize o)) || overflowsFrom limit (a + objSize o) os

theorem overflows_aux (limit a : Nat) (objs : List Obj) :
    ((List.range objs.length).any fun k =>
      decide (0 < a + total (objs.take k)) && decide (limit < a + total (objs.take (k + 1)))) =
    overflowsFrom limit a objs := by
  induction objs generalizing a with
  | nil => simp [overflowsFrom]
  | cons o os ih =>
    rw [List.length_cons, List.range_succ_eq_map, List.any_cons, List.any_map, overflowsFrom, ← ih]
    have hf : ((fun k => decide (0 < a + total ((o :: os).take k)) &&
          decide (limit < a + total ((o :: os).take (k + 1)))) ∘ Nat.succ)
        = fun k => decide (0 < a + objSize o + total (os.take k)) &&
          decide (limit < a + objSize o + total (os.take (k + 1))) := by
      funext k
      simp [total_cons, Nat.add_assoc]
    rw [hf]
    simp [total]

theorem overflows_eq (limit : Nat) (objs : List Obj) : overflows limit objs = overflowsFrom limit 0 objs := by
  rw [← overflows_aux]; simp [overflows]

/-- The loop leaves `chunks` empty exactly when nothing overflows. -/
theorem loop_bypass {limit : Nat} {objs : List Obj} : ∀ {s s' : BP}, s.curSize = total s.cur →
    binpackLoop limit s objs = some s' →
    (s'.chunks = [] ↔ s.chunks = [] ∧ overflowsFrom limit s.curSize objs = false) := by
  induction objs with
  | nil => intro s s' _ h; simp [binpackLoop] at h; subst h; simp [overflowsFrom]
  | cons o os ih =>
    intro s s' hsz h
    simp only [binpackLoop] at h
    cases hst : binpackStep limit s o with
    | none => simp [hst] at h
    | some s1 =>
      simp only [hst] at h
      obtain ⟨n, hn, hcase⟩ := step_some hst
      have hso := objSize_of_size hn
      rcases hcase with ⟨hpos, hov, rfl⟩ | ⟨hno, rfl⟩
      · have := ih (s := ⟨s.chunks ++ [s.cur], [o], n⟩) (by simp [total, hso]) h
        rw [this]
        simp [overflowsFrom, hso, hpos, hov]
      · have := ih (s := ⟨s.chunks, s.cur ++ [o], s.curSize + n⟩)
          (by simp [total_append, total_cons, total_nil, hso, hsz]) h
        rw [this]
        simp only [overflowsFrom, hso]
        have : (decide (0 < s.curSize) && decide (limit < s.curSize + n)) = false := by
          simp only [Bool.and_eq_false_iff, decide_eq_false_iff_not]
          by_cases h0 : 0 < s.curSize
          · right; exact fun hl => hno ⟨h0, hl⟩
          · left; exact h0
        simp [this]

/-- For measurable objects of positive size, "nothing overflows" has a closed form. -/
theorem overflowsFrom_pos {limit : Nat} {objs : List Obj} (hp : ∀ o ∈ objs, 0 < objSize o) :
    ∀ {a : Nat}, 0 < a → (overflowsFrom limit a objs = false ↔ objs = [] ∨ a + total objs ≤ limit) := by
  induction objs with
  | nil => intro a _; simp [overflowsFrom]
  | cons o os ih =>
    intro a ha
    have hpo := hp o (by simp)
    have := ih (fun x hx => hp x (by simp [hx])) (a := a + objSize o) (by omega)
    simp only [overflowsFrom, Bool.or_eq_false_iff, this, total_cons]
    simp only [ha, decide_true, Bool.true_and, decide_eq_false_iff_not, Nat.not_lt]
    constructor
    · rintro ⟨h1, h2 | h2⟩
      · right; subst h2; simp [total]; omega
      · right; omega
    · rintro (h | h)
      · simp at h
      · exact ⟨by omega, Or.inr (by omega)⟩

theorem overflowsFrom_zero_pos {limit : Nat} {objs : List Obj} (hp : ∀ o ∈ objs, 0 < objSize o) :
    overflowsFrom limit 0 objs = false ↔ objs.length ≤ 1 ∨ total objs ≤ limit := by
  cases objs with
  | nil => simp [overflowsFrom]
  | cons o os =>
    have hpo := hp o (by simp)
    have := overflowsFrom_pos (limit := limit) (objs := os) (fun x hx => hp x (by simp [hx])) (a := objSize o) hpo
    simp only [overflowsFrom, Nat.lt_irrefl, decide_false, Bool.false_and, Bool.false_or, Nat.zero_add, this,
      total_cons, List.length_cons]
    constructor
    · rintro (h | h)
      · left; subst h; simp
      · right; exact h
    · rintro (h | h)
      · left; cases os with
        | nil => rfl
        | cons _ _ => simp at h
      · right; exact h

theorem flatten_map_singleton (l : List Obj) : (l.map fun o => [o]).flatten = l := by
  induction l with
  | nil => rfl
  | cons a t ih => simp [ih]

/-- Every chunker is lossless and order preserving whenever it chunks at all. -/
theorem chunk_concat {limit : Nat} {strat : Strategy} {objs : List Obj} {cs : Chunks}
    (h : chunk limit strat objs = some cs) (hne : cs ≠ []) : cs.flatten = objs := by
  cases strat with
  | noop => simp [chunk, noopChunk] at h; exact absurd h hne
  | each => simp [chunk, eachChunk] at h; rw [← h]; exact flatten_map_singleton objs
  | binpack =>
    simp only [chunk, binpackChunk] at h
    cases hl : binpackLoop limit ⟨[], [], 0⟩ objs with
    | none => simp [hl] at h
    | some s =>
      have hf := loop_flatten hl
      simp only [List.flatten_nil, List.append_nil, List.nil_append] at hf
      simp only [hl] at h
      by_cases h1 : s.chunks.isEmpty
      · simp [h1] at h; exact absurd h hne
      · by_cases h2 : s.cur.isEmpty
        · simp only [h1, h2] at h
          simp at h
          rw [← h, ← hf]
          simp at h2; simp [h2]
        · simp only [h1, h2] at h
          simp at h
          rw [← h, ← hf]; simp

end Pko.Lemmas.C14
