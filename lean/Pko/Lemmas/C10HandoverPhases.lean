/-
C10, handover at the controller level, part 1: the object loop of `reconcilePhaseObjs` and
`reconcilePhases` (all LOCAL phases of an ObjectSet) from a store in which every object satisfies a
predicate `R` that one object step turns into `Settled` — generic in `R`, instantiated with
`Mine` (C10Set) and with `Repairable` (absent / the owner's / still controlled by a declared
previous revision; native strategy).  Core Lean only.
-/
import Pko.Props.C10Set

namespace Pko.Props.C10Lift
open Pko.Kube Pko.Model.Phase Pko.Model.ObjectSet Pko.Model.Status
open Pko.Props.C10 Pko.Props.C10Set

/-- `R` is a per-object precondition under which ONE object step settles the object, hands the
stored object to the prober and touches no other key; it only looks at the object's own key. -/
structure StepRepairs (cfg : Cfg) (ow : Owner) (prev : List Prev) (R : PObj → Store → Prop) : Prop where
  congr : ∀ {p : PObj} {s s' : Store}, s'.get (keyOf cfg ow p) = s.get (keyOf cfg ow p) → R p s → R p s'
  step : ∀ (p : PObj) (w : World), Quiet w → Reaches cfg ow p → R p w.store →
    Settled cfg ow p (reconcilePhaseObject cfg ow prev p w).1.store ∧
    (∃ o, (reconcilePhaseObject cfg ow prev p w).2 = .actual o ∧
          (reconcilePhaseObject cfg ow prev p w).1.store.get (keyOf cfg ow p) = some o) ∧
    ∀ k', k' ≠ keyOf cfg ow p → (reconcilePhaseObject cfg ow prev p w).1.store.get k' = w.store.get k'

/-- absent or the owner's (both strategies). -/
theorem mine_stepRepairs (cfg : Cfg) (ow : Owner) (prev : List Prev) : StepRepairs cfg ow prev (Mine cfg ow) where
  congr := mine_congr
  step := fun p w hq hr hm => object_repair cfg ow prev p w hq hr hm

/-- absent, the owner's, or still controlled by a declared previous revision (native strategy). -/
theorem repairable_stepRepairs (cfg : Cfg) (ow : Owner) (prev : List Prev) (hnat : cfg.st = .native) :
    StepRepairs cfg ow prev (Repairable cfg ow prev) where
  congr := repairable_congr
  step := fun p w hq hr hm => object_repairs_or_adopts cfg ow prev p w hnat hq hr hm

/-- the object loop of the ObjectSet controller (generic version of `objs_go_repair`). -/
theorem objs_go_repair_gen (cfg : Cfg) (ow : Owner) (prev : List Prev) (R : PObj → Store → Prop)
    (hR : StepRepairs cfg ow prev R) :
    ∀ (ps : List PObj) (w : World) (failed : List String) (acc : List (PObj × Obj)),
      Quiet w → (∀ p ∈ ps, Reaches cfg ow p) → (ps.map (keyOf cfg ow)).Nodup →
      (∀ p ∈ ps, R p w.store) →
      (reconcilePhaseObjs.go cfg ow prev ps w failed acc).2.1 =
        .ok (failed ++ probeFails cfg ow (reconcilePhaseObjs.go cfg ow prev ps w failed acc).1.store ps) ∧
      (reconcilePhaseObjs.go cfg ow prev ps w failed acc).2.2 =
        acc ++ storedObjs cfg ow (reconcilePhaseObjs.go cfg ow prev ps w failed acc).1.store ps ∧
      (∀ p ∈ ps, Settled cfg ow p (reconcilePhaseObjs.go cfg ow prev ps w failed acc).1.store) ∧
      Kept w (reconcilePhaseObjs.go cfg ow prev ps w failed acc).1 ∧
      ∀ k', k' ∉ ps.map (keyOf cfg ow) →
        (reconcilePhaseObjs.go cfg ow prev ps w failed acc).1.store.get k' = w.store.get k' := by
  intro ps
  induction ps with
  | nil =>
    intro w failed acc _ _ _ _
    simp only [reconcilePhaseObjs.go, probeFails, storedObjs, List.filter_nil, List.map_nil, List.append_nil,
      List.filterMap_nil]
    exact ⟨trivial, trivial, by simp, Kept.refl w, fun _ _ => trivial⟩
  | cons p rest ih =>
    intro w failed acc hq hr hk hm
    have hrp : Reaches cfg ow p := hr p (by simp)
    obtain ⟨hsett, ⟨o, hres, hgo⟩, hframe⟩ := hR.step p w hq hrp (hm p (by simp))
    have hkept := reconcilePhaseObject_kept cfg ow prev p w
    simp only [List.map_cons, List.nodup_cons] at hk
    simp only [reconcilePhaseObjs.go]
    cases hstep : reconcilePhaseObject cfg ow prev p w with
    | mk w' res =>
      rw [hstep] at hsett hres hgo hframe hkept
      simp only at hsett hres hgo hframe hkept
      subst hres
      simp only
      have hq' : Quiet w' := hkept.quiet hq
      have hm' : ∀ q ∈ rest, R q w'.store := by
        intro q hq2
        have hne : keyOf cfg ow q ≠ keyOf cfg ow p := by
          intro he; exact hk.1 (he ▸ List.mem_map.2 ⟨q, hq2, rfl⟩)
        exact hR.congr (hframe _ hne) (hm q (by simp [hq2]))
      obtain ⟨hout, hobjs, hall, hkp, hfr⟩ := ih w' (if probeOk o then failed else failed ++ [p.name])
        (acc ++ [(p, o)]) hq' (fun q hq2 => hr q (by simp [hq2])) hk.2 hm'
      have hfin := (hfr _ hk.1).trans hgo
      refine ⟨?_, ?_, ?_, hkept.trans hkp, ?_⟩
      · rw [hout]
        simp only [probeFails, List.filter_cons, probePass, hfin]
        cases probeOk o <;> simp
      · rw [hobjs]
        simp only [storedObjs, List.filterMap_cons, hfin, Option.map_some, List.append_assoc, List.singleton_append]
      · intro q hq2
        rcases List.mem_cons.1 hq2 with rfl | hq3
        · exact settled_congr (hfr _ hk.1) hsett
        · exact hall q hq3
      · intro k' hk'
        simp only [List.map_cons, List.mem_cons, not_or] at hk'
        rw [hfr k' hk'.2, hframe k' hk'.1]

/-- `reconcilePhaseObjs` of a local phase whose preflight checks pass (generic `objs_repair`). -/
theorem objs_repair_gen (cfg : Cfg) (ow : Owner) (prev : List Prev) (R : PObj → Store → Prop)
    (hR : StepRepairs cfg ow prev R) (ps : List PObj) (w : World)
    (hq : Quiet w) (hpf : preflightPhase cfg ow "" ps = .ok) (hr : ∀ p ∈ ps, Reaches cfg ow p)
    (hk : (ps.map (keyOf cfg ow)).Nodup) (hm : ∀ p ∈ ps, R p w.store) :
    ∃ w', reconcilePhaseObjs cfg ow prev ps w =
        (w', .ok (probeFails cfg ow w'.store ps), storedObjs cfg ow w'.store ps) ∧
      (∀ p ∈ ps, Settled cfg ow p w'.store) ∧ Kept w w' ∧
      ∀ k', k' ∉ ps.map (keyOf cfg ow) → w'.store.get k' = w.store.get k' := by
  obtain ⟨h1, h2, h3, h4, h5⟩ := objs_go_repair_gen cfg ow prev R hR ps w [] [] hq hr hk hm
  refine ⟨(reconcilePhaseObjs.go cfg ow prev ps w [] []).1, ?_, h3, h4, h5⟩
  simp only [reconcilePhaseObjs, hpf]
  simp only [List.nil_append] at h1 h2
  exact Prod.ext rfl (Prod.ext h1 h2)

/-- **All phases** (generic `phases_repair`): the pass never ends in an error; it processes a
prefix `done` of the phases, leaves every object of these phases settled, touches nothing else,
and stops before `rest` only because a probe of the last processed phase fails. -/
theorem phases_repair_gen (cfg : Cfg) (ow : Owner) (prev : List Prev) (R : PObj → Store → Prop)
    (hR : StepRepairs cfg ow prev R)
    (remote : PhaseSpec → World → World × Except PassErr (List CRef × Bool)) :
    ∀ (phs : List PhaseSpec) (w : World) (acc : List CRef),
      Quiet w → PhasesOk cfg ow phs →
      (∀ ph ∈ phs, ∀ p ∈ ph.objs, R p w.store) →
      ∃ done rest, PassShape cfg ow phs w acc (reconcilePhases cfg ow prev remote phs w acc) done rest := by
  intro phs
  induction phs with
  | nil =>
    intro w acc _ _ _
    refine ⟨[], [], ⟨rfl, by simp, fun _ _ => rfl, Kept.refl w, Or.inl ⟨rfl, by simp, ?_⟩⟩⟩
    simp [reconcilePhases, refsOf]
  | cons ph rest ih =>
    intro w acc hq hok hm
    have hloc : ph.cls = "" := hok.localOnly ph (by simp)
    obtain ⟨w1, he, hs1, hk1, hf1⟩ := objs_repair_gen cfg ow prev R hR ph.objs w hq (hok.preflight ph (by simp))
      (hok.reaches ph (by simp)) hok.headNodup (hm ph (by simp))
    have hco := controllerOfOf_settled cfg ow w1.store ph.objs hs1
    have hkeys1 : phaseKeys cfg ow [ph] = ph.objs.map (keyOf cfg ow) := by simp [phaseKeys]
    by_cases hnil : probeFails cfg ow w1.store ph.objs = []
    · have hm' : ∀ x ∈ rest, ∀ p ∈ x.objs, R p w1.store := by
        intro x hx p hp
        have hne : keyOf cfg ow p ∉ ph.objs.map (keyOf cfg ow) := fun hc =>
          hok.headNotLater _ hc (mem_phaseKeys hx hp)
        exact hR.congr (hf1 _ hne) (hm x (by simp [hx]) p hp)
      obtain ⟨done, rest', sh⟩ := ih w1 (acc ++ ph.objs.map (crefOf cfg ow)) (hk1.quiet hq) hok.tail hm'
      have hrw : reconcilePhases cfg ow prev remote (ph :: rest) w acc =
          reconcilePhases cfg ow prev remote rest w1 (acc ++ ph.objs.map (crefOf cfg ow)) := by
        simp only [reconcilePhases, hloc, ne_eq, not_true_eq_false, ↓reduceIte, he, hnil, List.isEmpty_nil, hco]
      rw [hrw]
      have hkeep : ∀ p ∈ ph.objs, (reconcilePhases cfg ow prev remote rest w1
          (acc ++ ph.objs.map (crefOf cfg ow))).1.store.get (keyOf cfg ow p) = w1.store.get (keyOf cfg ow p) := by
        intro p hp
        apply sh.frame
        intro hc
        have : keyOf cfg ow p ∈ phaseKeys cfg ow rest := by
          rw [sh.split, phaseKeys_append]; exact List.mem_append_left _ hc
        exact hok.headNotLater _ (List.mem_map.2 ⟨p, hp, rfl⟩) this
      have hpass1 : ∀ p ∈ ph.objs, probePass cfg ow (reconcilePhases cfg ow prev remote rest w1
          (acc ++ ph.objs.map (crefOf cfg ow))).1.store p = true := by
        intro p hp
        rw [probePass_congr (hkeep p hp)]
        exact (probeFails_nil_iff cfg ow w1.store ph.objs).1 hnil p hp
      refine ⟨ph :: done, rest', ⟨by rw [sh.split]; rfl, ?_, ?_, hk1.trans sh.kept, ?_⟩⟩
      · intro x hx p hp
        rcases List.mem_cons.1 hx with rfl | hx
        · exact settled_congr (hkeep p hp) (hs1 p hp)
        · exact sh.settled x hx p hp
      · intro k' hk'
        rw [phaseKeys_cons, List.mem_append, not_or] at hk'
        rw [sh.frame k' hk'.2, hf1 k' hk'.1]
      · rcases sh.outcome with ⟨hr, hall, hres⟩ | ⟨pre, ph', hd, hall, hex, hres⟩
        · refine Or.inl ⟨hr, ?_, ?_⟩
          · intro x hx p hp
            rcases List.mem_cons.1 hx with rfl | hx
            · exact hpass1 p hp
            · exact hall x hx p hp
          · rw [hres, refsOf_cons, List.append_assoc]
        · refine Or.inr ⟨ph :: pre, ph', by rw [hd]; rfl, ?_, hex, ?_⟩
          · intro x hx p hp
            rcases List.mem_cons.1 hx with rfl | hx
            · exact hpass1 p hp
            · exact hall x hx p hp
          · rw [hres, refsOf_cons, List.append_assoc]
    · have hrw : reconcilePhases cfg ow prev remote (ph :: rest) w acc =
          (w1, .ok (acc ++ ph.objs.map (crefOf cfg ow), some ph.name)) := by
        have hne : (probeFails cfg ow w1.store ph.objs).isEmpty = false := by
          cases hpf : probeFails cfg ow w1.store ph.objs with
          | nil => exact absurd hpf hnil
          | cons _ _ => rfl
        simp only [reconcilePhases, hloc, ne_eq, not_true_eq_false, ↓reduceIte, he, hne, hco, Bool.false_eq_true]
      rw [hrw]
      refine ⟨[ph], rest, ⟨rfl, ?_, ?_, hk1, Or.inr ⟨[], ph, rfl, by simp, ?_, ?_⟩⟩⟩
      · intro x hx p hp
        simp only [List.mem_singleton] at hx
        subst hx
        exact hs1 p hp
      · intro k' hk'
        rw [hkeys1] at hk'
        exact hf1 k' hk'
      · have : ¬ ∀ p ∈ ph.objs, probePass cfg ow w1.store p = true := fun h =>
          hnil ((probeFails_nil_iff cfg ow w1.store ph.objs).2 h)
        simp only [Classical.not_forall] at this
        obtain ⟨p, hp, hpp⟩ := this
        exact ⟨p, hp, by simpa using hpp⟩
      · simp [refsOf]

end Pko.Props.C10Lift
