import Pko.Lemmas.C10Step
namespace Pko.Props.C10
open Pko.Kube Pko.Model.Phase Pko.Model.ObjectSet Pko.Model.Converge

theorem settled_congr {cfg : Cfg} {ow : Owner} {p : PObj} {s s' : Store}
    (h : s'.get (keyOf cfg ow p) = s.get (keyOf cfg ow p)) (hs : Settled cfg ow p s) : Settled cfg ow p s' := by
  obtain ⟨o, hg, ho⟩ := hs
  exact ⟨o, by rw [h]; exact hg, ho⟩

theorem mine_congr {cfg : Cfg} {ow : Owner} {p : PObj} {s s' : Store}
    (h : s'.get (keyOf cfg ow p) = s.get (keyOf cfg ow p)) (hs : Mine cfg ow p s) : Mine cfg ow p s' := by
  rcases hs with hn | ⟨o, hg, rest⟩
  · exact Or.inl (by rw [h]; exact hn)
  · exact Or.inr ⟨o, by rw [h]; exact hg, rest⟩

/-- The object loop of `ReconcilePhase` from a repairable state: it runs to the end (no error, no
collision), every object of the phase ends settled, third parties stay quiet, and no key outside
the phase is touched. -/
theorem go_repair (cfg : Cfg) (ow : Owner) (prev : List Prev) :
    ∀ (ps : List PObj) (w : World) (failed : List String),
      Quiet w → (∀ p ∈ ps, Reaches cfg ow p) → (ps.map (keyOf cfg ow)).Nodup →
      (∀ p ∈ ps, Mine cfg ow p w.store) →
      (∃ f', (reconcilePhase.go cfg ow prev ps w failed).2 = .ok f') ∧
      (∀ p ∈ ps, Settled cfg ow p (reconcilePhase.go cfg ow prev ps w failed).1.store) ∧
      Quiet (reconcilePhase.go cfg ow prev ps w failed).1 ∧
      ∀ k', k' ∉ ps.map (keyOf cfg ow) →
        (reconcilePhase.go cfg ow prev ps w failed).1.store.get k' = w.store.get k' := by
  intro ps
  induction ps with
  | nil =>
    intro w failed hq _ _ _
    simp only [reconcilePhase.go]
    exact ⟨⟨failed, rfl⟩, by simp, hq, fun _ _ => trivial⟩
  | cons p rest ih =>
    intro w failed hq hr hk hm
    have hrp : Reaches cfg ow p := hr p (by simp)
    obtain ⟨hsett, ⟨o, hres, hgo⟩, hframe⟩ := object_repair cfg ow prev p w hq hrp (hm p (by simp))
    have henv := reconcilePhaseObject_env cfg ow prev p w
    simp only [List.map_cons, List.nodup_cons] at hk
    simp only [reconcilePhase.go]
    cases hstep : reconcilePhaseObject cfg ow prev p w with
    | mk w' res =>
      rw [hstep] at hsett hres hgo hframe henv
      simp only at hsett hres hgo hframe henv
      subst hres
      simp only
      have hq' : Quiet w' := by simp only [Quiet] at hq ⊢; rw [henv]; exact hq
      have hm' : ∀ q ∈ rest, Mine cfg ow q w'.store := by
        intro q hq2
        have hne : keyOf cfg ow q ≠ keyOf cfg ow p := by
          intro he; exact hk.1 (he ▸ List.mem_map.2 ⟨q, hq2, rfl⟩)
        exact mine_congr (hframe _ hne) (hm q (by simp [hq2]))
      obtain ⟨hok, hall, hqf, hfr⟩ := ih w' (if probeOk o then failed else failed ++ [p.name]) hq'
        (fun q hq2 => hr q (by simp [hq2])) hk.2 hm'
      refine ⟨hok, ?_, hqf, ?_⟩
      · intro q hq2
        rcases List.mem_cons.1 hq2 with rfl | hq3
        · exact settled_congr (hfr _ hk.1) hsett
        · exact hall q hq3
      · intro k' hk'
        simp only [List.map_cons, List.mem_cons, not_or] at hk'
        rw [hfr k' hk'.2, hframe k' hk'.1]

/-- The object loop from a settled state changes nothing in the store. -/
theorem go_fixpoint (cfg : Cfg) (ow : Owner) (prev : List Prev) :
    ∀ (ps : List PObj) (w : World) (failed : List String),
      Quiet w → (∀ p ∈ ps, Reaches cfg ow p) →
      (∀ p ∈ ps, Settled cfg ow p w.store) →
      (reconcilePhase.go cfg ow prev ps w failed).1.store = w.store ∧
      ∃ f', (reconcilePhase.go cfg ow prev ps w failed).2 = .ok f' := by
  intro ps
  induction ps with
  | nil => intro w failed _ _ _; simp [reconcilePhase.go]
  | cons p rest ih =>
    intro w failed hq hr hs
    obtain ⟨o, hg, ho⟩ := hs p (by simp)
    obtain ⟨hst, o', hres, _⟩ := object_fixpoint cfg ow prev p w o hq (hr p (by simp)) hg ho
    have henv := reconcilePhaseObject_env cfg ow prev p w
    simp only [reconcilePhase.go]
    cases hstep : reconcilePhaseObject cfg ow prev p w with
    | mk w' res =>
      rw [hstep] at hst hres henv
      simp only at hst hres henv
      subst hres
      simp only
      have hq' : Quiet w' := by simp only [Quiet] at hq ⊢; rw [henv]; exact hq
      have hs' : ∀ q ∈ rest, Settled cfg ow q w'.store := by
        intro q hq2; rw [hst]; exact hs q (by simp [hq2])
      obtain ⟨h1, h2⟩ := ih w' (if probeOk o' then failed else failed ++ [p.name]) hq'
        (fun q hq2 => hr q (by simp [hq2])) hs'
      exact ⟨by rw [h1, hst], h2⟩

end Pko.Props.C10
