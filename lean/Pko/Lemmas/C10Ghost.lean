/-
C10, ghost non-interference, part 1 (World level): the ghost fields of `World` (`gw`, `crashAt`,
`snap`, `ticks` — maintained by `World.tick` only so that `Pko.Model.Converge.crashState` can cut a
pass off) are never read by the phase reconciler.  `GhostEq w w'` relates worlds that agree on
every NON-ghost field; every step of `Pko.Model.Phase` maps related worlds to related worlds and
returns the same result.  Core Lean only.
-/
import Pko.Model.Converge
import Pko.Lemmas.Watch

namespace Pko.Props.C10Lift
open Pko.Kube Pko.Model.Phase Pko.Model.ObjectSet Pko.Model.Status Pko.Model.Converge

/-- **Equal up to ghost state**: the two worlds agree on every field except the ghost fields
`gw`, `crashAt`, `snap`, `ticks`, `snapW`. -/
structure GhostEq (w w' : World) : Prop where
  store : w.store = w'.store
  writes : w.writes = w'.writes
  env : w.env = w'.env
  events : w.events = w'.events
  phases : w.phases = w'.phases
  phaseEvents : w.phaseEvents = w'.phaseEvents
  remoteRefs : w.remoteRefs = w'.remoteRefs
  applied : w.applied = w'.applied
  watched : w.watched = w'.watched     -- NOT ghost: the process's cache registrations are read (`World.started`)

/-- erase the ghost fields. -/
def eraseW (w : World) : World := { w with gw := 0, crashAt := none, snap := none, ticks := [], snapW := none }

/-- `GhostEq` is exactly "equal after erasing the ghost fields". -/
theorem ghostEq_iff_erase (w w' : World) : GhostEq w w' ↔ eraseW w = eraseW w' := by
  constructor
  · intro h
    obtain ⟨store, writes, env, events, phases, phaseEvents, remoteRefs, applied, gw, crashAt, snap, ticks, watched, snapW⟩ := w
    obtain ⟨store', writes', env', events', phases', phaseEvents', remoteRefs', applied', gw', crashAt', snap', ticks', watched', snapW'⟩ := w'
    obtain ⟨h1, h2, h3, h4, h5, h6, h7, h8, h9⟩ := h
    simp only at h1 h2 h3 h4 h5 h6 h7 h8 h9
    subst h1 h2 h3 h4 h5 h6 h7 h8 h9
    rfl
  · intro h
    have e : ∀ {α : Type} (f : World → α), f (eraseW w) = f (eraseW w') := fun f => congrArg f h
    exact ⟨e World.store, e World.writes, e World.env, e World.events, e World.phases, e World.phaseEvents,
      e World.remoteRefs, e World.applied, e World.watched⟩

theorem GhostEq.refl (w : World) : GhostEq w w := ⟨rfl, rfl, rfl, rfl, rfl, rfl, rfl, rfl, rfl⟩

theorem GhostEq.symm {w w' : World} (h : GhostEq w w') : GhostEq w' w :=
  ⟨h.store.symm, h.writes.symm, h.env.symm, h.events.symm, h.phases.symm, h.phaseEvents.symm,
   h.remoteRefs.symm, h.applied.symm, h.watched.symm⟩

theorem GhostEq.trans {a b c : World} (h1 : GhostEq a b) (h2 : GhostEq b c) : GhostEq a c :=
  ⟨h1.store.trans h2.store, h1.writes.trans h2.writes, h1.env.trans h2.env, h1.events.trans h2.events,
   h1.phases.trans h2.phases, h1.phaseEvents.trans h2.phaseEvents, h1.remoteRefs.trans h2.remoteRefs,
   h1.applied.trans h2.applied, h1.watched.trans h2.watched⟩

/-- erasing is harmless: every world is ghost-equal to its erasure. -/
theorem ghostEq_erase (w : World) : GhostEq w (eraseW w) := ⟨rfl, rfl, rfl, rfl, rfl, rfl, rfl, rfl, rfl⟩

/-- a step `World → World × α` on two worlds: ghost-equal worlds afterwards, the same result. -/
def RelW {α : Type} (x y : World × α) : Prop := GhostEq x.1 y.1 ∧ x.2 = y.2

theorem RelW.mk' {α : Type} {w w' : World} (h : GhostEq w w') (r : α) : RelW (w, r) (w', r) := ⟨h, rfl⟩

/-- the two results of a step on ghost-equal worlds, taken apart. -/
theorem RelW.elim {α : Type} {x y : World × α} (h : RelW x y) :
    ∃ w w' r, x = (w, r) ∧ y = (w', r) ∧ GhostEq w w' := by
  obtain ⟨w, r⟩ := x
  obtain ⟨w', r'⟩ := y
  obtain ⟨h1, h2⟩ := h
  simp only at h1 h2
  subst h2
  exact ⟨w, w', r, rfl, rfl, h1⟩

/-- take both worlds apart and identify their non-ghost fields. -/
macro "ghost_destruct " w:ident w':ident h:ident : tactic => `(tactic| (
  obtain ⟨store, writes, env, events, phases, phaseEvents, remoteRefs, applied, gw, crashAt, snap, ticks, watched, snapW⟩ := $w
  obtain ⟨store', writes', env', events', phases', phaseEvents', remoteRefs', applied', gw', crashAt', snap', ticks', watched', snapW'⟩ := $w'
  obtain ⟨h1, h2, h3, h4, h5, h6, h7, h8, h9⟩ := $h
  simp only at h1 h2 h3 h4 h5 h6 h7 h8 h9
  subst h1 h2 h3 h4 h5 h6 h7 h8 h9))

/-- close the leaves: the same constructor on both sides. -/
macro "ghost_leaves" : tactic => `(tactic| (
  all_goals first
    | exact ⟨⟨rfl, rfl, rfl, rfl, rfl, rfl, rfl, rfl, rfl⟩, rfl⟩
    | exact ⟨rfl, rfl, rfl, rfl, rfl, rfl, rfl, rfl, rfl⟩
    | rfl))

/-! ### the ghost bookkeeping itself and the write primitives -/

/-- `tick` only touches ghost fields. -/
theorem tick_ghost_self (w : World) : GhostEq w w.tick := ⟨rfl, rfl, rfl, rfl, rfl, rfl, rfl, rfl, rfl⟩

theorem tick_ghost {w w' : World} (h : GhostEq w w') : GhostEq w.tick w'.tick :=
  (tick_ghost_self w).symm.trans (h.trans (tick_ghost_self w'))

theorem beforeWrite_ghost {w w' : World} (h : GhostEq w w') : GhostEq w.beforeWrite w'.beforeWrite := by
  ghost_destruct w w' h
  simp only [World.beforeWrite, World.tick]
  ghost_leaves

theorem log_ghost {w w' : World} (h : GhostEq w w') (e : Event) : GhostEq (w.log e) (w'.log e) := by
  ghost_destruct w w' h
  simp only [World.log]
  ghost_leaves

theorem apply_ghost {w w' : World} (h : GhostEq w w') (k : Key) (a : Applied) :
    RelW (w.apply k a) (w'.apply k a) := by
  ghost_destruct w w' h
  simp only [World.apply, World.beforeWrite, World.tick, World.log]
  ghost_leaves

theorem seen_ghost {w w' : World} (h : GhostEq w w') (k : Key) : seen w k = seen w' k := by
  simp only [seen, h.store]

/-! ### rollout -/

theorem reconcileObjectWith_ghost (cfg : Cfg) (ow : Owner) (prev : List Prev) (p : PObj) (k : Key)
    (cur : Option Obj) {w w' : World} (h : GhostEq w w') :
    RelW (reconcileObjectWith cfg ow prev p w k cur) (reconcileObjectWith cfg ow prev p w' k cur) := by
  ghost_destruct w w' h
  cases cur with
  | none =>
    simp only [reconcileObjectWith, World.apply, World.beforeWrite, World.tick, World.log]
    ghost_leaves
  | some c =>
    simp only [reconcileObjectWith, World.apply, World.beforeWrite, World.tick, World.log]
    repeat' split
    ghost_leaves

theorem watch_ghost {w w' : World} (h : GhostEq w w') (ow : Owner) (k : String) :
    GhostEq (w.watch ow k) (w'.watch ow k) := by
  ghost_destruct w w' h
  simp only [World.watch]
  ghost_leaves

theorem free_ghost {w w' : World} (h : GhostEq w w') (r : WRef) : GhostEq (w.free r) (w'.free r) := by
  ghost_destruct w w' h
  simp only [World.free]
  ghost_leaves

theorem restart_ghost {w w' : World} (h : GhostEq w w') : GhostEq w.restart w'.restart := by
  ghost_destruct w w' h
  simp only [World.restart]
  ghost_leaves

theorem started_ghost {w w' : World} (h : GhostEq w w') (k : String) : w.started k = w'.started k := by
  simp only [World.started, h.watched]

theorem reconcileObject_ghost (cfg : Cfg) (ow : Owner) (prev : List Prev) (p : PObj)
    {w w' : World} (h : GhostEq w w') :
    RelW (reconcileObject cfg ow prev p w) (reconcileObject cfg ow prev p w') := by
  simp only [reconcileObject, seen_ghost h, started_ghost h]
  split
  · exact reconcileObjectWith_ghost cfg ow prev p _ _ h
  · exact RelW.mk' h _

/-- **`reconcilePhaseObject` does not read the ghost state.** -/
theorem reconcilePhaseObject_ghost (cfg : Cfg) (ow : Owner) (prev : List Prev) (p : PObj)
    {w w' : World} (h : GhostEq w w') :
    RelW (reconcilePhaseObject cfg ow prev p w) (reconcilePhaseObject cfg ow prev p w') := by
  have hw := watch_ghost h ow p.kind
  simp only [reconcilePhaseObject_eq, h.store, seen_ghost h]
  split
  · exact RelW.mk' h _
  · split
    · split <;> exact RelW.mk' hw _
    · exact reconcileObjectWith_ghost cfg ow prev p _ _ hw

theorem reconcilePhase_go_ghost (cfg : Cfg) (ow : Owner) (prev : List Prev) :
    ∀ (ps : List PObj) (failed : List String) {w w' : World}, GhostEq w w' →
      RelW (reconcilePhase.go cfg ow prev ps w failed) (reconcilePhase.go cfg ow prev ps w' failed) := by
  intro ps
  induction ps with
  | nil => intro failed w w' h; exact RelW.mk' h _
  | cons p rest ih =>
    intro failed w w' h
    obtain ⟨w1, w1', r, e1, e2, h1⟩ := (reconcilePhaseObject_ghost cfg ow prev p h).elim
    simp only [reconcilePhase.go, e1, e2]
    cases r with
    | actual o => exact ih _ h1
    | missing => exact ih _ h1
    | errCollision b => exact RelW.mk' h1 _
    | err => exact RelW.mk' h1 _

/-- **`reconcilePhase` does not read the ghost state.** -/
theorem reconcilePhase_ghost (cfg : Cfg) (ow : Owner) (prev : List Prev) (cls : String) (ps : List PObj)
    {w w' : World} (h : GhostEq w w') :
    RelW (reconcilePhase cfg ow prev cls ps w) (reconcilePhase cfg ow prev cls ps w') := by
  simp only [reconcilePhase]
  split
  · exact RelW.mk' h _
  · exact RelW.mk' h _
  · exact reconcilePhase_go_ghost cfg ow prev ps [] h

theorem reconcilePhaseObjs_go_ghost (cfg : Cfg) (ow : Owner) (prev : List Prev) :
    ∀ (ps : List PObj) (failed : List String) (acc : List (PObj × Obj)) {w w' : World}, GhostEq w w' →
      RelW (reconcilePhaseObjs.go cfg ow prev ps w failed acc) (reconcilePhaseObjs.go cfg ow prev ps w' failed acc) := by
  intro ps
  induction ps with
  | nil => intro failed acc w w' h; exact RelW.mk' h _
  | cons p rest ih =>
    intro failed acc w w' h
    obtain ⟨w1, w1', r, e1, e2, h1⟩ := (reconcilePhaseObject_ghost cfg ow prev p h).elim
    simp only [reconcilePhaseObjs.go, e1, e2]
    cases r with
    | actual o => exact ih _ _ h1
    | missing => exact ih _ _ h1
    | errCollision b => exact RelW.mk' h1 _
    | err => exact RelW.mk' h1 _

/-- the ObjectSet controller's variant of the loop (it also returns the objects). -/
theorem reconcilePhaseObjs_ghost (cfg : Cfg) (ow : Owner) (prev : List Prev) (ps : List PObj)
    {w w' : World} (h : GhostEq w w') :
    RelW (reconcilePhaseObjs cfg ow prev ps w) (reconcilePhaseObjs cfg ow prev ps w') := by
  simp only [reconcilePhaseObjs]
  split
  · exact RelW.mk' h _
  · exact RelW.mk' h _
  · exact reconcilePhaseObjs_go_ghost cfg ow prev ps [] [] h

/-! ### teardown -/

/-- **`teardownPhaseObject` does not read the ghost state.** -/
theorem teardownPhaseObject_ghost (cfg : Cfg) (ow : Owner) (p : PObj) {w w' : World} (h : GhostEq w w') :
    RelW (teardownPhaseObject cfg ow p w) (teardownPhaseObject cfg ow p w') := by
  ghost_destruct w w' h
  simp only [teardownPhaseObject, World.watch, World.beforeWrite, World.tick, World.log]
  repeat' split
  ghost_leaves

theorem teardownPhase_go_ghost (cfg : Cfg) (ow : Owner) :
    ∀ (ps : List PObj) (allDone : Bool) {w w' : World}, GhostEq w w' →
      RelW (teardownPhase.go cfg ow ps w allDone) (teardownPhase.go cfg ow ps w' allDone) := by
  intro ps
  induction ps with
  | nil => intro allDone w w' h; exact RelW.mk' h _
  | cons p rest ih =>
    intro allDone w w' h
    obtain ⟨w1, w1', r, e1, e2, h1⟩ := (teardownPhaseObject_ghost cfg ow p h).elim
    simp only [teardownPhase.go, e1, e2]
    cases r with
    | err => exact RelW.mk' h1 _
    | done => exact ih _ h1
    | notDone => exact ih _ h1

/-- **`teardownPhase` does not read the ghost state.** -/
theorem teardownPhase_ghost (cfg : Cfg) (ow : Owner) (ps : List PObj) {w w' : World} (h : GhostEq w w') :
    RelW (teardownPhase cfg ow ps w) (teardownPhase cfg ow ps w') :=
  teardownPhase_go_ghost cfg ow ps true h

end Pko.Props.C10Lift
