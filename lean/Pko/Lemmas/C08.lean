/-
Helper lemmas for property C08 (a): facts about the model functions of `Pko.Model.Archive`
(stable sort, scan, mark loop, pruning loop).  The property theorems are in `Pko.Props.C08`.
-/
import Pko.Model.Archive
import Pko.Model.ArchiveSpec
namespace Pko.Lemmas.C08
open Pko.Model.Archive Pko.Model.ArchiveSpec

/-! ## `sortAsc` is a stable sort: permutation, sorted, identity on sorted input -/

theorem insertAsc_perm (x : Rev) (l : List Rev) : (insertAsc x l).Perm (x :: l) := by
  induction l with
  | nil => exact List.Perm.refl _
  | cons y ys ih =>
    unfold insertAsc
    split
    · exact List.Perm.refl _
    · exact (List.Perm.cons y ih).trans (List.Perm.swap x y ys)

theorem sortAsc_cons (x : Rev) (l : List Rev) : sortAsc (x :: l) = insertAsc x (sortAsc l) := rfl

theorem sortAsc_perm (l : List Rev) : (sortAsc l).Perm l := by
  induction l with
  | nil => exact List.Perm.refl _
  | cons x xs ih =>
    rw [sortAsc_cons]
    exact (insertAsc_perm x _).trans (List.Perm.cons x ih)

theorem mem_sortAsc {a : Rev} {l : List Rev} : a ∈ sortAsc l ↔ a ∈ l := (sortAsc_perm l).mem_iff

theorem length_sortAsc (l : List Rev) : (sortAsc l).length = l.length := (sortAsc_perm l).length_eq

theorem mem_insertAsc {a x : Rev} {l : List Rev} : a ∈ insertAsc x l ↔ a = x ∨ a ∈ l := by
  rw [(insertAsc_perm x l).mem_iff]; simp

/-- ascending by `status.revision` (ties allowed) -/
abbrev Asc (l : List Rev) : Prop := l.Pairwise (fun a b => a.rev ≤ b.rev)
/-- strictly ascending by `status.revision` -/
abbrev SAsc (l : List Rev) : Prop := l.Pairwise (fun a b => a.rev < b.rev)

theorem insertAsc_sorted (x : Rev) (l : List Rev) (h : Asc l) : Asc (insertAsc x l) := by
  induction l with
  | nil => simp [insertAsc, Asc]
  | cons y ys ih =>
    have hy := List.pairwise_cons.mp h
    unfold insertAsc
    split
    · rename_i hxy
      refine List.pairwise_cons.mpr ⟨?_, h⟩
      intro z hz
      rcases List.mem_cons.mp hz with rfl | hz
      · exact hxy
      · exact Int.le_trans hxy (hy.1 z hz)
    · rename_i hxy
      refine List.pairwise_cons.mpr ⟨?_, ih hy.2⟩
      intro z hz
      rcases mem_insertAsc.mp hz with rfl | hz
      · omega
      · exact hy.1 z hz

theorem sortAsc_sorted (l : List Rev) : Asc (sortAsc l) := by
  induction l with
  | nil => simp [sortAsc, Asc]
  | cons x xs ih => rw [sortAsc_cons]; exact insertAsc_sorted x _ ih

theorem sortAsc_of_sorted (l : List Rev) (h : Asc l) : sortAsc l = l := by
  induction l with
  | nil => rfl
  | cons x xs ih =>
    have hx := List.pairwise_cons.mp h
    rw [sortAsc_cons, ih hx.2]
    cases xs with
    | nil => rfl
    | cons y ys =>
      have : x.rev ≤ y.rev := hx.1 y (by simp)
      simp [insertAsc, this]

theorem SAsc.asc {l : List Rev} (h : SAsc l) : Asc l :=
  List.Pairwise.imp (fun {a b : Rev} (hab : a.rev < b.rev) => Int.le_of_lt hab) h

/-! ## writes of the scan are pause writes; what the scan selects -/

def IsPause : Write → Prop
  | .pause _ | .ppause _ => True
  | _ => False

theorem ensurePaused_writes {o : Rev} {w : Write} (h : w ∈ (ensurePaused o).1) : IsPause w := by
  unfold ensurePaused at h
  split at h
  · simp at h
  · split at h
    · simp at h
    · split at h <;> simp at h <;> subst h <;> trivial

theorem ensurePaused_true {o : Rev} (h : (ensurePaused o).2 = true) : o.statusPaused = true := by
  unfold ensurePaused at h
  split at h
  · assumption
  · split at h <;> simp at h

theorem case1_writes {lt : Rev} {ps : List Rev} {w : Write} (h : w ∈ (case1 lt ps).1) : IsPause w := by
  induction ps with
  | nil => simp [case1] at h
  | cons p ps ih =>
    unfold case1 at h
    split at h
    · exact ih h
    · split at h
      · simp only [List.mem_append] at h
        rcases h with h | h
        · exact ensurePaused_writes h
        · exact ih h
      · exact ih h

theorem case1_mem {lt : Rev} {ps : List Rev} {o : Rev} (h : o ∈ (case1 lt ps).2) :
    o ∈ ps ∧ o.archived = false ∧ o.rev < lt.rev ∧ o.statusPaused = true := by
  induction ps with
  | nil => simp [case1] at h
  | cons p ps ih =>
    unfold case1 at h
    split at h
    · have := ih h; exact ⟨List.mem_cons_of_mem _ this.1, this.2⟩
    · rename_i harch
      split at h
      · rename_i hlt
        simp only at h
        split at h
        · rename_i hp
          rcases List.mem_cons.mp h with rfl | h
          · exact ⟨List.mem_cons_self, by simpa using harch, hlt, ensurePaused_true hp⟩
          · have := ih h; exact ⟨List.mem_cons_of_mem _ this.1, this.2⟩
        · have := ih h; exact ⟨List.mem_cons_of_mem _ this.1, this.2⟩
      · have := ih h; exact ⟨List.mem_cons_of_mem _ this.1, this.2⟩

theorem pairStep_writes {p l : Rev} {w : Write} (h : w ∈ (pairStep p l).1) : IsPause w := by
  unfold pairStep at h
  split at h
  · simp at h
  · split at h
    · exact ensurePaused_writes h
    · simp at h

theorem pairStep_true {p l : Rev} (hna : p.archived = false) (h : (pairStep p l).2 = true) :
    p.statusPaused = true ∧ p.available = false ∧ ControlsNothingIn p.controllerOf l.allObjects := by
  unfold pairStep at h
  split at h
  · simp at h
  · rename_i act hact
    split at h
    · rename_i hc
      simp only [Bool.and_eq_true, Bool.not_eq_eq_eq_not, Bool.not_true] at hc
      refine ⟨ensurePaused_true h, hc.2, ?_⟩
      simp only [activelyReconciled, hna, Bool.false_eq_true, ↓reduceIte] at hact
      rw [hact]
      simp only [ControlsNothingIn]
      intro k hk hko
      have hc1 := hc.1
      simp only [keysIntersect, List.isEmpty_iff, List.filter_eq_nil_iff] at hc1
      exact hc1 k hk (by simpa using hko)
    · simp at h

theorem pairIter_writes {p l : Rev} {w : Write} (h : w ∈ (pairIter p l).1) : IsPause w := by
  unfold pairIter at h
  split at h
  · simp at h
  · split at h
    · simp at h
    · exact pairStep_writes h

/-- An iteration that does not end the pass with an error and reaches
`intermediateRevisionCanBeArchived` has loaded every ObjectSlice of its latest revision. -/
theorem iterErr_false {p l : Rev} (he : iterErr p l = false) (hna : p.archived = false)
    (hlt : p.rev < l.rev) : l.sliceMissing = false := by
  unfold iterErr revisionObjects at he
  cases hm : l.sliceMissing
  · rfl
  · have : ¬ (l.rev ≤ p.rev) := by omega
    simp [hna, hm, this] at he

theorem pairIter_mem {p l o : Rev} (he : iterErr p l = false) (h : o ∈ (pairIter p l).2) :
    o = p ∧ p.archived = false ∧ p.rev < l.rev ∧
    p.statusPaused = true ∧ p.available = false ∧ ControlsNothingOf p.controllerOf l := by
  unfold pairIter at h
  split at h
  · simp at h
  · rename_i hna
    split at h
    · simp at h
    · rename_i hlt
      simp only at h
      split at h
      · rename_i hs
        have hna' : p.archived = false := by simpa using hna
        have hps := pairStep_true hna' hs
        have hsm := iterErr_false he hna' (by omega)
        exact ⟨by simpa using h, hna', by omega, hps.1, hps.2.1, hps.2.2, fun hm => by rw [hsm] at hm; cases hm⟩
      · simp at h

theorem scan_writes {d : List Rev} {w : Write} (h : w ∈ (scan d).1) : IsPause w := by
  induction d with
  | nil => simp [scan] at h
  | cons l rest ih =>
    unfold scan at h
    split at h
    · exact case1_writes h
    · split at h
      · simp at h
      · split at h
        · simp at h
        · simp only [List.mem_append] at h
          rcases h with h | h
          · exact pairIter_writes h
          · exact ih h

/-- Why the scan selected `o` from the descending list `d`. -/
def ScanJust (d : List Rev) (o : Rev) : Prop :=
  o.statusPaused = true ∧ o.archived = false ∧
  ((∃ l ∈ d, l.available = true ∧ o.rev < l.rev ∧ o ∈ d) ∨
   (o.available = false ∧ ∃ pre l post, d = pre ++ l :: o :: post ∧ o.rev < l.rev ∧
      ControlsNothingOf o.controllerOf l))

theorem scan_just {d : List Rev} {o : Rev} (h : o ∈ (scan d).2) : ScanJust d o := by
  induction d with
  | nil => simp [scan] at h
  | cons l rest ih =>
    unfold scan at h
    split at h
    · rename_i hav
      have := case1_mem h
      exact ⟨this.2.2.2, this.2.1, Or.inl ⟨l, List.mem_cons_self, hav, this.2.2.1,
        List.mem_cons_of_mem _ (by simpa using this.1)⟩⟩
    · split at h
      · simp at h
      · rename_i p rest'
        split at h
        · simp at h
        · rename_i he
          have he' : iterErr p l = false := by simpa using he
          simp only [List.mem_append] at h
          rcases h with h | h
          · obtain ⟨rfl, hna, hlt, hsp, hun, hc⟩ := pairIter_mem he' h
            exact ⟨hsp, hna, Or.inr ⟨hun, [], l, rest', rfl, hlt, hc⟩⟩
          · obtain ⟨hsp, hna, hj⟩ := ih h
            refine ⟨hsp, hna, ?_⟩
            rcases hj with ⟨y, hy, hyav, hlt, hod⟩ | ⟨hun, pre, y, post, hd, hlt, hc⟩
            · exact Or.inl ⟨y, List.mem_cons_of_mem _ hy, hyav, hlt, List.mem_cons_of_mem _ hod⟩
            · exact Or.inr ⟨hun, l :: pre, y, post, by rw [hd]; rfl, hlt, hc⟩

/-- On a descending list the scan's reason is the specification's reason. -/
theorem scanJust_justified {d : List Rev} {o : Rev}
    (hd : d.Pairwise (fun a b => b.rev ≤ a.rev)) (h : ScanJust d o) : o ∈ d ∧ Justified d o := by
  obtain ⟨hsp, _, hj⟩ := h
  rcases hj with ⟨y, hy, hyav, hlt, hod⟩ | ⟨hun, pre, y, post, hdeq, hlt, hc⟩
  · exact ⟨hod, hsp, ⟨y, hy, hlt⟩, Or.inl ⟨y, hy, hlt, hyav⟩⟩
  · have hy : y ∈ d := by rw [hdeq]; simp
    have ho : o ∈ d := by rw [hdeq]; simp
    refine ⟨ho, hsp, ⟨y, hy, hlt⟩, Or.inr ⟨hun, y, hy, ⟨hlt, ?_⟩, hc⟩⟩
    intro z hz hoz
    rw [hdeq] at hz hd
    have hp := List.pairwise_append.mp hd
    have hp2 := List.pairwise_cons.mp hp.2.1
    have hp3 := List.pairwise_cons.mp hp2.2
    rcases List.mem_append.mp hz with hz | hz
    · exact hp.2.2 z hz y (by simp)
    · rcases List.mem_cons.mp hz with rfl | hz
      · exact Int.le_refl _
      · rcases List.mem_cons.mp hz with rfl | hz
        · omega
        · have := hp3.1 z hz; omega

/-- `Justified` only depends on which revisions are listed, not on their order. -/
theorem justified_congr {a b : List Rev} {r : Rev} (hab : ∀ x, x ∈ a ↔ x ∈ b)
    (h : Justified a r) : Justified b r := by
  obtain ⟨h1, ⟨y, hy, hlt⟩, h3⟩ := h
  refine ⟨h1, ⟨y, (hab y).mp hy, hlt⟩, ?_⟩
  rcases h3 with ⟨z, hz, hz2⟩ | ⟨hun, z, hz, ⟨hzlt, hzmin⟩, hc⟩
  · exact Or.inl ⟨z, (hab z).mp hz, hz2⟩
  · exact Or.inr ⟨hun, z, (hab z).mp hz, ⟨hzlt, fun w hw => hzmin w ((hab w).mpr hw)⟩, hc⟩

/-! ## pruning loop -/

theorem gcLoop_eq (n : Int) (prev : List Rev) :
    gcLoop n prev = (prev.take n.toNat).map (fun p => Write.delete p.id) := by
  induction prev generalizing n with
  | nil => simp [gcLoop]
  | cons p ps ih =>
    unfold gcLoop
    split
    · rename_i hn
      have : n.toNat = 0 := by omega
      simp [this]
    · rename_i hn
      have : n.toNat = (n - 1).toNat + 1 := by omega
      rw [this, List.take_succ_cons, List.map_cons, ih]

/-- Number of previous revisions pruned per call. -/
def gcCount (prev : List Rev) (limit : Option Int) : Nat :=
  ((prev.length : Int) - limit.getD defaultLimit).toNat

theorem gc_eq (prev : List Rev) (limit : Option Int) :
    gc prev limit = (prev.take (gcCount prev limit)).map (fun p => Write.delete p.id) :=
  gcLoop_eq _ _

/-! ## mark loop -/

theorem markLoop_archive {prev : List Rev} {limit : Option Int} {fin : Bool} {os : List Rev}
    {gone : List Nat} {i : Nat} (h : Write.archive i ∈ (markLoop prev limit fin os gone).1) :
    ∃ o ∈ os, o.id = i ∧ o.statusPaused = true ∧ o.archived = false := by
  induction os generalizing gone with
  | nil => simp [markLoop] at h
  | cons o os ih =>
    unfold markLoop at h
    simp only at h
    split at h
    · rename_i hu
      simp only [Bool.and_eq_true, Bool.not_eq_eq_eq_not, Bool.not_true] at hu
      simp only [List.mem_singleton, Write.archive.injEq] at h
      exact ⟨o, List.mem_cons_self, h.symm, hu.1.2, hu.1.1⟩
    · simp only [List.mem_append] at h
      rcases h with (h | h) | h
      · split at h
        · rename_i hu
          simp only [Bool.and_eq_true, Bool.not_eq_eq_eq_not, Bool.not_true] at hu
          simp only [List.mem_singleton, Write.archive.injEq] at h
          exact ⟨o, List.mem_cons_self, h.symm, hu.2, hu.1⟩
        · simp at h
      · rw [gc_eq] at h; obtain ⟨p, _, hp⟩ := List.mem_map.mp h; cases hp
      · obtain ⟨o', ho', h'⟩ := ih h
        exact ⟨o', List.mem_cons_of_mem _ ho', h'⟩

theorem markLoop_delete {prev : List Rev} {limit : Option Int} {fin : Bool} {os : List Rev}
    {gone : List Nat} {i : Nat} (h : Write.delete i ∈ (markLoop prev limit fin os gone).1) :
    Write.delete i ∈ gc prev limit := by
  induction os generalizing gone with
  | nil => simp [markLoop] at h
  | cons o os ih =>
    unfold markLoop at h
    simp only at h
    split at h
    · simp at h
    · simp only [List.mem_append] at h
      rcases h with (h | h) | h
      · split at h <;> simp at h
      · exact h
      · exact ih h

theorem markLoop_other {prev : List Rev} {limit : Option Int} {fin : Bool} {os : List Rev}
    {gone : List Nat} {w : Write} (h : w ∈ (markLoop prev limit fin os gone).1) :
    (∃ i, w = .archive i) ∨ (∃ i, w = .delete i) := by
  induction os generalizing gone with
  | nil => simp [markLoop] at h
  | cons o os ih =>
    unfold markLoop at h
    simp only at h
    split at h
    · simp at h; exact Or.inl ⟨_, h⟩
    · simp only [List.mem_append] at h
      rcases h with (h | h) | h
      · split at h
        · simp at h; exact Or.inl ⟨_, h⟩
        · simp at h
      · rw [gc_eq] at h; obtain ⟨p, _, hp⟩ := List.mem_map.mp h; exact Or.inr ⟨_, hp.symm⟩
      · exact ih h

/-- Once something is to be archived, the first iteration always reaches the pruning call. -/
theorem markLoop_gc_subset {prev : List Rev} {limit : Option Int} {fin : Bool} {os : List Rev}
    (hne : os ≠ []) {w : Write} (h : w ∈ gc prev limit) :
    w ∈ (markLoop prev limit fin os []).1 := by
  cases os with
  | nil => exact absurd rfl hne
  | cons o os =>
    unfold markLoop
    simp only [List.contains_nil, Bool.and_false, Bool.false_eq_true, ↓reduceIte, List.mem_append]
    exact Or.inl (Or.inr h)

/-! ## "oldest" by counting, on strictly ascending lists -/

theorem countP_lt_of_mem_take {prev : List Rev} (hs : SAsc prev) {k : Nat} {p : Rev}
    (hp : p ∈ prev.take k) : prev.countP (fun q => decide (q.rev < p.rev)) < k := by
  induction prev generalizing k with
  | nil => simp at hp
  | cons a l ih =>
    cases k with
    | zero => simp at hp
    | succ k =>
      have ha := List.pairwise_cons.mp hs
      rw [List.take_succ_cons] at hp
      rcases List.mem_cons.mp hp with hp1 | hp1
      · subst hp1
        have : (p :: l).countP (fun q => decide (q.rev < p.rev)) = 0 := by
          rw [List.countP_eq_zero]
          intro q hq
          rcases List.mem_cons.mp hq with hq1 | hq1
          · rw [hq1]; simp
          · have := ha.1 q hq1; simp; omega
        omega
      · have := ih ha.2 hp1
        rw [List.countP_cons]
        split <;> omega

theorem mem_take_of_lt {prev : List Rev} (hs : SAsc prev) {k : Nat} {p q : Rev}
    (hp : p ∈ prev.take k) (hq : q ∈ prev) (hlt : q.rev < p.rev) : q ∈ prev.take k := by
  induction prev generalizing k with
  | nil => simp at hq
  | cons a l ih =>
    cases k with
    | zero => simp at hp
    | succ k =>
      have ha := List.pairwise_cons.mp hs
      rw [List.take_succ_cons] at hp ⊢
      rcases List.mem_cons.mp hq with hq1 | hq1
      · rw [hq1]; exact List.mem_cons_self
      · rcases List.mem_cons.mp hp with hp1 | hp1
        · have := ha.1 q hq1; rw [hp1] at hlt; omega
        · exact List.mem_cons_of_mem _ (ih ha.2 hp1 hq1)

theorem mem_dels {ws : List Write} {i : Nat} : i ∈ dels ws ↔ Write.delete i ∈ ws := by
  induction ws with
  | nil => simp [dels]
  | cons w ws ih => cases w <;> simp [dels, ih]

/-- A revision among the first `gcCount` of a strictly ascending `prev` passes the spec's test. -/
theorem deleteOK_of_mem_take {prev : List Rev} (hs : SAsc prev) {limit : Option Int} {p : Rev}
    (hp : p ∈ prev.take (gcCount prev limit)) : DeleteOK prev limit p.id := by
  refine ⟨p, List.mem_of_mem_take hp, rfl, ?_⟩
  have := countP_lt_of_mem_take hs hp
  unfold gcCount defaultLimit at this
  omega

/-! ## pause propagation only touches `lifecycleState` and the paused-by-parent annotation -/

/-- What the propagation loop does to one ObjectSet in memory. -/
def touch (odPaused : Bool) (o : Rev) : Rev :=
  if o.archived then o
  else if odPaused != o.pausedByParent then
    if odPaused then { o with lc := .paused, pbp := true } else { o with lc := .active, pbp := false }
  else o

theorem propagate_snd (b : Bool) (l : List Rev) : (propagate b l).2 = l.map (touch b) := by
  induction l with
  | nil => rfl
  | cons o os ih =>
    unfold propagate
    simp only [List.map_cons, touch]
    split
    · simp [ih]
    · split
      · split <;> simp [ih]
      · simp [ih]

def IsPropagation : Write → Prop
  | .ppause _ | .activate _ => True
  | _ => False

theorem propagate_writes {b : Bool} {l : List Rev} {w : Write} (h : w ∈ (propagate b l).1) :
    IsPropagation w := by
  induction l with
  | nil => simp [propagate] at h
  | cons o os ih =>
    unfold propagate at h
    split at h
    · exact ih h
    · split at h
      · split at h
        · rcases List.mem_cons.mp h with rfl | h
          · trivial
          · exact ih h
        · rcases List.mem_cons.mp h with rfl | h
          · trivial
          · exact ih h
      · exact ih h

/-- A function on revisions that leaves everything the specification looks at unchanged. -/
structure Core (f : Rev → Rev) : Prop where
  id : ∀ r, (f r).id = r.id
  rev : ∀ r, (f r).rev = r.rev
  available : ∀ r, (f r).available = r.available
  statusPaused : ∀ r, (f r).statusPaused = r.statusPaused
  controllerOf : ∀ r, (f r).controllerOf = r.controllerOf
  objects : ∀ r, (f r).objects = r.objects
  sliced : ∀ r, (f r).sliced = r.sliced
  sliceMissing : ∀ r, (f r).sliceMissing = r.sliceMissing
  hashMatch : ∀ r, (f r).hashMatch = r.hashMatch
  terminating : ∀ r, (f r).terminating = r.terminating

theorem touch_core (b : Bool) : Core (touch b) := by
  constructor <;> intro r <;> unfold touch <;> (split; rfl; split; (split <;> rfl); rfl)

theorem justified_map {f : Rev → Rev} (hf : Core f) {l : List Rev} {r : Rev}
    (h : Justified (l.map f) (f r)) : Justified l r := by
  obtain ⟨h1, ⟨y, hy, hlt⟩, h3⟩ := h
  obtain ⟨y0, hy0, rfl⟩ := List.mem_map.mp hy
  rw [hf.statusPaused] at h1
  rw [hf.rev, hf.rev] at hlt
  refine ⟨h1, ⟨y0, hy0, hlt⟩, ?_⟩
  rcases h3 with ⟨z, hz, hzlt, hzav⟩ | ⟨hun, z, hz, ⟨hzlt, hzmin⟩, hc⟩
  · obtain ⟨z0, hz0, rfl⟩ := List.mem_map.mp hz
    rw [hf.rev, hf.rev] at hzlt
    rw [hf.available] at hzav
    exact Or.inl ⟨z0, hz0, hzlt, hzav⟩
  · obtain ⟨z0, hz0, rfl⟩ := List.mem_map.mp hz
    rw [hf.rev, hf.rev] at hzlt
    rw [hf.available] at hun
    unfold ControlsNothingOf Rev.allObjects at hc ⊢
    rw [hf.controllerOf, hf.objects, hf.sliced, hf.sliceMissing] at hc
    refine Or.inr ⟨hun, z0, hz0, ⟨hzlt, ?_⟩, hc⟩
    intro w hw hrw
    have := hzmin (f w) (List.mem_map.mpr ⟨w, hw, rfl⟩) (by rw [hf.rev, hf.rev]; exact hrw)
    rw [hf.rev, hf.rev] at this
    exact this

theorem deleteOK_map {f : Rev → Rev} (hf : Core f) {l : List Rev} {limit : Option Int} {i : Nat}
    (h : DeleteOK (l.map f) limit i) : DeleteOK l limit i := by
  obtain ⟨p, hp, hid, hc⟩ := h
  obtain ⟨p0, hp0, rfl⟩ := List.mem_map.mp hp
  refine ⟨p0, hp0, by rw [← hid, hf.id], ?_⟩
  rw [List.countP_map, List.length_map] at hc
  have : ((fun q => decide (q.rev < (f p0).rev)) ∘ f) = (fun q => decide (q.rev < p0.rev)) := by
    funext q; simp [hf.rev]
  rw [this] at hc
  exact hc

theorem deleteOK_perm {a b : List Rev} (hab : a.Perm b) {limit : Option Int} {i : Nat}
    (h : DeleteOK a limit i) : DeleteOK b limit i := by
  obtain ⟨p, hp, hid, hc⟩ := h
  refine ⟨p, hab.mem_iff.mp hp, hid, ?_⟩
  rw [← hab.countP_eq, ← hab.length_eq]
  exact hc

theorem gcClosed_map {f : Rev → Rev} (hf : Core f) {l : List Rev} {ds : List Nat}
    (h : GcClosed (l.map f) ds) : GcClosed l ds := by
  intro p hp hpd q hq hlt
  have := h (f p) (List.mem_map.mpr ⟨p, hp, rfl⟩) (by rw [hf.id]; exact hpd)
    (f q) (List.mem_map.mpr ⟨q, hq, rfl⟩) (by rw [hf.rev, hf.rev]; exact hlt)
  rw [hf.id, hf.terminating] at this
  exact this

theorem gcClosed_congr {a b : List Rev} (hab : ∀ x, x ∈ a ↔ x ∈ b) {ds : List Nat}
    (h : GcClosed a ds) : GcClosed b ds := by
  intro p hp hpd q hq hlt
  exact h p ((hab p).mpr hp) hpd q ((hab q).mpr hq) hlt

theorem rev_inj {l : List Rev} (hn : l.Pairwise (fun a b => a.rev ≠ b.rev)) {a b : Rev}
    (ha : a ∈ l) (hb : b ∈ l) (hab : a.rev = b.rev) : a = b := by
  induction l with
  | nil => cases ha
  | cons x xs ih =>
    have hx := List.pairwise_cons.mp hn
    rcases List.mem_cons.mp ha with ha1 | ha1 <;> rcases List.mem_cons.mp hb with hb1 | hb1
    · rw [ha1, hb1]
    · subst ha1; exact absurd hab (hx.1 b hb1)
    · subst hb1; exact absurd hab.symm (hx.1 a ha1)
    · exact ih hx.2 ha1 hb1

theorem sasc_of_asc_ne {l : List Rev} (h1 : Asc l) (h2 : l.Pairwise (fun a b => a.rev ≠ b.rev)) :
    SAsc l :=
  List.Pairwise.imp (fun {a b : Rev} (h : a.rev ≤ b.rev ∧ a.rev ≠ b.rev) => by omega) (h1.and h2)

/-! ## glue used by the property theorems -/

/-- `objectSetsToArchive` as computed by `objectSetsToBeArchived(append(prev, cur))`. -/
def toArchive (prev : List Rev) (c : Rev) : List Rev :=
  if scanErr (sortAsc (prev ++ [c])).reverse then []       -- error return: `[]adapters.ObjectSetAccessor{}`
  else (scan (sortAsc (prev ++ [c])).reverse).2

theorem toArchive_sub {prev : List Rev} {c o : Rev} (h : o ∈ toArchive prev c) :
    o ∈ (scan (sortAsc (prev ++ [c])).reverse).2 := by
  unfold toArchive at h
  split at h
  · cases h
  · exact h

/-- Every revision the scan selects is one of the revisions read and satisfies the property's
archival condition. -/
theorem toArchive_justified {prev : List Rev} {c o : Rev} (h : o ∈ toArchive prev c) :
    o ∈ prev ++ [c] ∧ Justified (prev ++ [c]) o := by
  have hd : (sortAsc (prev ++ [c])).reverse.Pairwise (fun a b => b.rev ≤ a.rev) :=
    List.pairwise_reverse.mpr (sortAsc_sorted _)
  have hm : ∀ x, x ∈ (sortAsc (prev ++ [c])).reverse ↔ x ∈ prev ++ [c] := by
    intro x; rw [List.mem_reverse, mem_sortAsc]
  obtain ⟨ho, hj⟩ := scanJust_justified hd (scan_just (toArchive_sub h))
  exact ⟨(hm o).mp ho, justified_congr hm hj⟩

/-- An `archive` write of a pass is addressed to a revision the scan selected. -/
theorem reconcile_archive_mem {prev : List Rev} {c : Rev} {limit : Option Int} {fin : Bool} {i : Nat}
    (h : Write.archive i ∈ (reconcile prev (some c) limit fin).1) :
    ∃ o ∈ toArchive prev c, o.id = i := by
  simp only [reconcile] at h
  split at h
  · exact absurd (scan_writes h) (by simp [IsPause])
  · rename_i he
    split at h
    · exact absurd (scan_writes h) (by simp [IsPause])
    · rcases List.mem_append.mp h with h | h
      · exact absurd (scan_writes h) (by simp [IsPause])
      · obtain ⟨o, ho, hid, _⟩ := markLoop_archive h
        refine ⟨o, ?_, hid⟩
        unfold toArchive
        rw [if_neg he]
        exact mem_sortAsc.mp ho

theorem Justified_of {all : List Rev} {r : Rev}
    (h : r.statusPaused = true ∧ (∃ y ∈ all, r.rev < y.rev) ∧
      ((∃ y ∈ all, r.rev < y.rev ∧ y.available = true) ∨
       (r.available = false ∧
        ∃ y ∈ all, IsNextNewer all r y ∧ ControlsNothingOf r.controllerOf y))) :
    Justified all r := h

theorem id_inj {l : List Rev} (hn : (l.map (·.id)).Nodup) {a b : Rev} (ha : a ∈ l) (hb : b ∈ l)
    (hab : a.id = b.id) : a = b := by
  induction l with
  | nil => cases ha
  | cons x xs ih =>
    simp only [List.map_cons, List.nodup_cons, List.mem_map, not_exists, not_and] at hn
    rcases List.mem_cons.mp ha with ha1 | ha1 <;> rcases List.mem_cons.mp hb with hb1 | hb1
    · rw [ha1, hb1]
    · subst ha1; exact absurd hab.symm (hn.1 b hb1)
    · subst hb1; exact absurd hab (hn.1 a ha1)
    · exact ih hn.2 ha1 hb1

/-- On the inputs the controller produces (strictly ascending revisions, current last) the two sorts
are the identity and `prevObjectSets` is unaffected by the in-place sort. -/
theorem reconcile_sorted {prev : List Rev} {c : Rev} (hs : SAsc (prev ++ [c]))
    (limit : Option Int) (fin : Bool) :
    reconcile prev (some c) limit fin =
      if (toArchive prev c).isEmpty then ((scan (prev ++ [c]).reverse).1, scanErr (prev ++ [c]).reverse)
      else ((scan (prev ++ [c]).reverse).1 ++ (markLoop prev limit fin (sortAsc (toArchive prev c)) []).1,
            (markLoop prev limit fin (sortAsc (toArchive prev c)) []).2) := by
  simp only [reconcile, toArchive, sortAsc_of_sorted _ hs.asc, List.take_left]
  cases he : scanErr (prev ++ [c]).reverse
  · simp only [Bool.false_eq_true, ↓reduceIte]
  · simp

/-- Shape of a controller pass: nothing, or only propagation writes, or propagation writes followed
by the archive reconciler's pass on (previous, current) = (all but last, last) of the sorted listing. -/
theorem osr_cases (listing : List Rev) (b : Bool) (limit : Option Int) (fin : Bool) :
    (osr listing b limit fin).1 = [] ∨
    (osr listing b limit fin).1 = (propagate b (sortAsc listing)).1 ∨
    (∃ ys c, sortAsc listing = ys ++ [c] ∧ c.hashMatch = true ∧
      (osr listing b limit fin).1 = (propagate b (sortAsc listing)).1 ++
        (reconcile (ys.map (touch b)) (some (touch b c)) limit fin).1) := by
  unfold osr
  simp only
  by_cases h0 : (sortAsc listing).any (fun o => o.rev == 0) = true
  · left; simp [h0]
  · simp only [h0, Bool.false_eq_true, ↓reduceIte]
    by_cases hb : b = true
    · right; left; simp [hb]
    · simp only [hb, Bool.false_eq_true, ↓reduceIte]
      cases hl : (sortAsc listing).getLast? with
      | none => right; left; simp [reconcile]
      | some m =>
        by_cases hm : m.hashMatch = true
        · right; right
          obtain ⟨ys, hys⟩ := List.getLast?_eq_some_iff.mp hl
          refine ⟨ys, m, hys, hm, ?_⟩
          simp only [hm, ↓reduceIte, propagate_snd, hys, List.map_append, List.map_cons, List.map_nil,
            List.dropLast_concat, List.getLast?_concat]
        · right; left; simp [hm, reconcile]

end Pko.Lemmas.C08
