/-
Helper lemmas for property C12, liveness layer `Pko.Model.InformerLive` (request contexts, the
context an informer's LIST/WATCH runs under, event delivery): step characterisations, the
representation invariant under the code's policy and its preservation, simulation by
`Pko.Model.LiveSpec`.
-/
import Pko.Model.InformerLive
import Pko.Model.LiveSpec
import Pko.Lemmas.C12IM

namespace Pko.Lemmas.C12Live
open Pko.Model.Cache (Kind Owner Fail Res insertOwner rest)
open Pko.Model Pko.Model.InformerLive
open Pko.Lemmas.C12IM (failedStart okStart)

/-! ### The cache part of the liveness model is the composed system -/

/-- The `Cache`/`InformerMap` call behind a liveness op (`cancel`/`create` are not calls on the cache). -/
def projOp (done : Ctx → Bool) : Op → Option Cache.Op
  | .watch o k c => some (.watch o k (if done c then .sync else .ok))
  | .free o => some (.free o)
  | .get k => some (.get k .ok)
  | .cancel _ => none
  | .create _ => none

theorem noteStart_base (p : Policy) (s : State) (b : InformerMap.State) (k : Kind) (c : CtxRef) (y : Bool) :
    (noteStart p s b k c y).base = b := by
  unfold noteStart; split <;> rfl

theorem noteStart_done (p : Policy) (s : State) (b : InformerMap.State) (k : Kind) (c : CtxRef) (y : Bool) :
    (noteStart p s b k c y).done = s.done := by
  unfold noteStart; split <;> rfl

theorem watch_base (p : Policy) (s : State) (o : Owner) (k : Kind) (c : Ctx) :
    (watch p s o k c).1.base = (InformerMap.watch s.base o k (if s.done c then .sync else .ok)).1 ∧
    (watch p s o k c).1.done = s.done := by
  unfold watch
  simp only []
  generalize (if s.done c = true then Fail.sync else Fail.ok) = f
  generalize InformerMap.watch s.base o k f = r
  split <;> simp [noteStart_base, noteStart_done]

theorem get_base (p : Policy) (s : State) (k : Kind) :
    (InformerLive.get p s k).1.base = (InformerMap.get s.base k .ok).1 ∧
    (InformerLive.get p s k).1.done = s.done := by
  unfold InformerLive.get
  simp only []
  generalize InformerMap.get s.base k .ok = r
  split
  · simp [noteStart_base, noteStart_done]
  · simp [noteStart_base, noteStart_done]
  · split <;> simp [noteStart_base, noteStart_done]

theorem create_base (s : State) (k : Kind) :
    (create s k).base = s.base ∧ (create s k).done = s.done := by
  unfold create
  simp only []
  split
  · exact ⟨rfl, rfl⟩
  · split <;> exact ⟨rfl, rfl⟩

theorem step_base (p : Policy) (s : State) (op : Op) :
    (step p s op).1.base = match projOp s.done op with
      | some bop => (InformerMap.step s.base bop).1
      | none => s.base := by
  cases op with
  | watch o k c => exact (watch_base p s o k c).1
  | free o => rfl
  | get k => exact (get_base p s k).1
  | cancel c => rfl
  | create k => exact (create_base s k).1

theorem step_done (p : Policy) (s : State) (op : Op) :
    (step p s op).1.done = match op with
      | .cancel c => fun c' => if c' = c then true else s.done c'
      | _ => s.done := by
  cases op with
  | watch o k c => exact (watch_base p s o k c).2
  | free o => rfl
  | get k => exact (get_base p s k).2
  | cancel c => rfl
  | create k => exact (create_base s k).2

/-- The sequence of cache calls behind a liveness op sequence (failure scripts resolved by the
context lifetimes: a `Watch` under an ended context cannot wait for the first sync). -/
def project (done : Ctx → Bool) : List Op → List Cache.Op
  | [] => []
  | op :: ops =>
    let done' : Ctx → Bool := match op with
      | .cancel c => fun c' => if c' = c then true else done c'
      | _ => done
    match projOp done op with
    | some bop => bop :: project done' ops
    | none => project done' ops

theorem run_base (p : Policy) (ops : List Op) : ∀ s : State,
    (run p s ops).base = InformerMap.run s.base (project s.done ops) := by
  induction ops with
  | nil => intro s; rfl
  | cons op ops ih =>
    intro s
    have hb := step_base p s op
    have hd := step_done p s op
    simp only [run, List.foldl_cons] at ih ⊢
    rw [ih (step p s op).1, hd]
    cases hp : projOp s.done op with
    | none =>
      rw [hp] at hb
      simp only [project, hp, hb]
    | some bop =>
      rw [hp] at hb
      simp only [project, hp, hb, InformerMap.run, List.foldl_cons]

/-! ### Step characterisations -/

theorem state_ext {a b : State} (h1 : a.base = b.base) (h2 : a.done = b.done) (h3 : a.lw = b.lw)
    (h4 : a.objs = b.objs) (h5 : a.store = b.store) (h6 : a.events = b.events) : a = b := by
  cases a; cases b; simp_all

/-- `Watch` for a kind that already has a reference entry: only the owner set changes. -/
theorem watch_ref (p : Policy) (s : State) (o : Owner) (k : Kind) (c : Ctx) (os : List Owner)
    (hr : s.base.refs k = some os) :
    watch p s o k c = ({ s with base := InformerMap.setRefs s.base k (some (insertOwner o os)) }, .ok) := by
  have hw : ∀ f, InformerMap.watch s.base o k f =
      (InformerMap.setRefs s.base k (some (insertOwner o os)), .ok) := by
    intro f; simp [InformerMap.watch, hr]
  simp only [watch, hw, noteStart, InformerMap.setRefs]
  simp [LRes.ofRes]

/-- State after a `Watch` under an ended context on an unwatched kind: the informer was started
(capturing `p (.call c)`), never seen synced, and stopped again by the roll-back. -/
def deadStart (p : Policy) (s : State) (k : Kind) (c : Ctx) : State :=
  { s with
    base := failedStart s.base k false
    lw := fun i => if i = s.base.im.next then p (.call c) else s.lw i
    store := fun i => if i = s.base.im.next then 0 else s.store i }

/-- State after a successful first `Watch` of kind `k`. -/
def liveStart (p : Policy) (s : State) (o : Owner) (k : Kind) (c : Ctx) : State :=
  { s with
    base := okStart s.base o k
    lw := fun i => if i = s.base.im.next then p (.call c) else s.lw i
    store := fun i => if i = s.base.im.next then s.objs k else s.store i
    events := fun k' => if k' = k then s.events k + s.objs k else s.events k' }

theorem watch_unref_dead (p : Policy) (s : State) (o : Owner) (k : Kind) (c : Ctx)
    (hr : s.base.refs k = none) (hm : s.base.im.map k = none) (hd : s.done c = true) :
    watch p s o k c = (deadStart p s k c, .err) := by
  have hw := Pko.Lemmas.C12IM.watch_unref s.base o k .sync hr hm
  simp only at hw
  simp only [watch, hd, ↓reduceIte, hw, noteStart, failedStart, deadStart]
  simp [LRes.ofRes]

theorem watch_unref_alive (p : Policy) (s : State) (o : Owner) (k : Kind) (c : Ctx)
    (hr : s.base.refs k = none) (hm : s.base.im.map k = none) (hd : s.done c = false) :
    watch p s o k c = (liveStart p s o k c, .ok) := by
  have hw := Pko.Lemmas.C12IM.watch_unref s.base o k .ok hr hm
  simp only at hw
  unfold watch
  simp only [hd, Bool.false_eq_true, ↓reduceIte, hw, noteStart, okStart, liveStart]
  simp

theorem get_unref (p : Policy) (s : State) (k : Kind) (hr : s.base.refs k = none) :
    InformerLive.get p s k = (s, .notStarted) := by
  simp [InformerLive.get, InformerMap.get, hr, noteStart]

/-! ### Representation invariant under the code's policy -/

/-- Invariant of the liveness layer for `codePolicy`. -/
structure LInv (s : State) : Prop where
  /-- the cache part satisfies the composed-system invariant -/
  base : Pko.Lemmas.C12IM.Inv s.base
  /-- every informer's LIST/WATCH runs under the background context -/
  bg : ∀ id, s.lw id = .background
  /-- the store of the informer in the map is the content of the API server -/
  store : ∀ k id, s.base.im.map k = some id → s.store id = s.objs k

theorem linv_init : LInv init := by
  refine ⟨Pko.Lemmas.C12IM.inv_init, fun _ => rfl, ?_⟩
  intro k id h; simp [init, InformerMap.init, InformerMap.IM.init] at h

/-- map entries of different kinds are different informers -/
theorem map_inj {b : InformerMap.State} (h : Pko.Lemmas.C12IM.Inv b) {k k' : Kind} {id : Nat}
    (h1 : b.im.map k = some id) (h2 : b.im.map k' = some id) : k = k' := by
  obtain ⟨x, hx, hk, _⟩ := (h.run id k).2 h1
  obtain ⟨x', hx', hk', _⟩ := (h.run id k').2 h2
  rw [hx] at hx'; cases hx'; rw [← hk, ← hk']

/-- a kind has a map entry iff it has a reference entry -/
theorem map_none_iff {b : InformerMap.State} (h : Pko.Lemmas.C12IM.Inv b) (k : Kind) :
    b.im.map k = none ↔ b.refs k = none := by
  constructor
  · intro hm
    cases hr : b.refs k with
    | none => rfl
    | some os => obtain ⟨_, id, hid, _⟩ := h.ref k os hr; rw [hm] at hid; cases hid
  · exact h.unref k

theorem free_map_sub (b : InformerMap.State) (o : Owner) (k : Kind) (id : Nat)
    (h : (InformerMap.free b o).im.map k = some id) : b.im.map k = some id := by
  simp only [InformerMap.free] at h
  split at h
  · cases h
  · exact h

/-- Under the code's policy every running informer is live. -/
theorem live_of_running {s : State} (h : LInv s) {id : Nat} {k : Kind}
    (hrun : InformerMap.Running s.base id k) : live s id = true := by
  obtain ⟨x, hx, _, hs⟩ := hrun
  simp [live, hx, hs, h.bg id, ctxAlive]

theorem linv_step (s : State) (op : Op) (h : LInv s) : LInv (step codePolicy s op).1 := by
  have hbase : Pko.Lemmas.C12IM.Inv (step codePolicy s op).1.base := by
    rw [step_base]
    cases hp : projOp s.done op with
    | none => exact h.base
    | some bop => exact Pko.Lemmas.C12IM.step_inv s.base bop h.base
  cases op with
  | watch o k c =>
    simp only [step] at hbase ⊢
    cases hr : s.base.refs k with
    | some os =>
      rw [watch_ref _ s o k c os hr] at hbase ⊢
      exact ⟨hbase, h.bg, h.store⟩
    | none =>
      have hm := h.base.unref k hr
      cases hd : s.done c with
      | true =>
        rw [watch_unref_dead _ s o k c hr hm hd] at hbase ⊢
        refine ⟨hbase, ?_, ?_⟩
        · intro id; simp only [deadStart, codePolicy]; split <;> simp [h.bg id]
        · intro k' id hid
          have hid' : s.base.im.map k' = some id := hid
          have hne : id ≠ s.base.im.next := fun e => h.base.map_ne_next k' (e ▸ hid')
          simp [deadStart, hne]; exact h.store k' id hid'
      | false =>
        rw [watch_unref_alive _ s o k c hr hm hd] at hbase ⊢
        refine ⟨hbase, ?_, ?_⟩
        · intro id; simp only [liveStart, codePolicy]; split <;> simp [h.bg id]
        · intro k' id hid
          by_cases hk : k' = k
          · subst hk
            simp [liveStart, okStart] at hid
            simp [liveStart, hid.symm]
          · simp [liveStart, okStart, hk] at hid
            have hne : id ≠ s.base.im.next := fun e => h.base.map_ne_next k' (e ▸ hid)
            simp [liveStart, hne]; exact h.store k' id hid
  | free o =>
    simp only [step] at hbase ⊢
    refine ⟨hbase, h.bg, ?_⟩
    intro k id hid
    exact h.store k id (free_map_sub s.base o k id hid)
  | get k =>
    simp only [step] at hbase ⊢
    cases hr : s.base.refs k with
    | none => rw [get_unref _ s k hr]; exact h
    | some os =>
      have hg := Pko.Lemmas.C12IM.get_ref h.base k .ok os hr
      have : (InformerLive.get codePolicy s k).1 = s := by
        simp only [InformerLive.get, hg, noteStart, ↓reduceIte]
        obtain ⟨_, id, hid, _⟩ := h.base.ref k os hr
        simp [hid]
      rw [this]; exact h
  | cancel c =>
    exact ⟨h.base, h.bg, h.store⟩
  | create k =>
    simp only [step] at hbase ⊢
    refine ⟨hbase, ?_, ?_⟩
    · intro id
      simp only [create]
      split
      · exact h.bg id
      · split <;> exact h.bg id
    · intro k' id hid
      have hb : (create s k).base = s.base := by
        simp only [create]; split
        · rfl
        · split <;> rfl
      rw [hb] at hid
      cases hm : s.base.im.map k with
      | none =>
        have hk : k' ≠ k := fun e => by rw [e, hm] at hid; cases hid
        simp [create, hm, hk]; exact h.store k' id hid
      | some idk =>
        have hl : live s idk = true := live_of_running h ((h.base.run idk k).2 hm)
        by_cases hk : k' = k
        · subst hk
          rw [hm] at hid; cases hid
          simp [create, hm, hl, h.store k' id hm]
        · have hne : id ≠ idk := fun e => hk (map_inj h.base hid (e ▸ hm))
          simp [create, hm, hl, hk, hne]; exact h.store k' id hid

theorem linv_run (ops : List Op) : ∀ s, LInv s → LInv (run codePolicy s ops) := by
  induction ops with
  | nil => intro s h; simpa [run]
  | cons op ops ih => intro s h; simpa [run] using ih _ (linv_step s op h)

theorem reachable_linv (ops : List Op) : LInv (run codePolicy init ops) := linv_run ops init linv_init

/-! ### Simulation by the specification -/

/-- Abstraction: forget informers, stores and captured contexts. -/
def absL (s : State) : LiveSpec.Spec :=
  { w := fun k => owners s k, done := s.done, objs := s.objs, ev := s.events }

theorem owners_free (b : InformerMap.State) (o : Owner) (k : Kind) :
    InformerMap.owners (InformerMap.free b o) k = (InformerMap.owners b k).filter (· ≠ o) := by
  simp only [InformerMap.owners, InformerMap.free]
  cases hr : b.refs k with
  | none => simp
  | some os =>
    by_cases ho : o ∈ os
    · cases hf : rest o os with
      | nil => simp only [ho, ↓reduceIte, hf]; simp [rest] at hf ⊢; exact hf
      | cons a t => simp only [ho, ↓reduceIte, hf]; simp [← hf, rest]
    · simp only [ho, ↓reduceIte]; simp
      symm; rw [List.filter_eq_self]; intro a ha; simp; intro hao; exact ho (hao ▸ ha)

/-- One step of the liveness model (code's policy) is one step of the specification. -/
theorem step_sim (s : State) (op : Op) (h : LInv s) :
    LiveSpec.step (absL s) op = (absL (step codePolicy s op).1, (step codePolicy s op).2) := by
  cases op with
  | watch o k c =>
    simp only [step]
    cases hr : s.base.refs k with
    | some os =>
      have hne := (h.base.ref k os hr).1
      have hemp : (owners s k).isEmpty = false := by
        simp [owners, InformerMap.owners, hr]; exact hne
      rw [watch_ref _ s o k c os hr]
      simp only [LiveSpec.step, absL, hemp]
      simp only [Bool.false_eq_true, ↓reduceIte, Prod.mk.injEq, and_true]
      congr 1
      funext k'
      by_cases hk : k' = k
      · subst hk; simp [owners, InformerMap.owners, InformerMap.setRefs, hr]
      · simp [owners, InformerMap.owners, InformerMap.setRefs, hk]
    | none =>
      have hm := h.base.unref k hr
      have hemp : (owners s k).isEmpty = true := by simp [owners, InformerMap.owners, hr]
      cases hd : s.done c with
      | true =>
        rw [watch_unref_dead _ s o k c hr hm hd]
        simp only [LiveSpec.step, absL, hemp, hd, ↓reduceIte]
        rfl
      | false =>
        rw [watch_unref_alive _ s o k c hr hm hd]
        simp only [LiveSpec.step, absL, hemp, hd, ↓reduceIte, LiveSpec.start]
        simp only [Bool.false_eq_true, ↓reduceIte, Prod.mk.injEq, and_true]
        congr 1
        funext k'
        by_cases hk : k' = k
        · subst hk; simp [owners, InformerMap.owners, liveStart, okStart]
        · simp [owners, InformerMap.owners, liveStart, okStart, hk]
  | free o =>
    simp only [step, LiveSpec.step, absL, free, Prod.mk.injEq, and_true]
    congr 1
    funext k
    exact (owners_free s.base o k).symm
  | get k =>
    simp only [step]
    cases hr : s.base.refs k with
    | none =>
      have hemp : (owners s k).isEmpty = true := by simp [owners, InformerMap.owners, hr]
      rw [get_unref _ s k hr]
      simp [LiveSpec.step, absL, hemp]
    | some os =>
      obtain ⟨hne, id, hid, _⟩ := h.base.ref k os hr
      have hemp : (owners s k).isEmpty = false := by
        simp [owners, InformerMap.owners, hr]; exact hne
      have hg := Pko.Lemmas.C12IM.get_ref h.base k .ok os hr
      have hst := h.store k id hid
      have : get codePolicy s k = (s, if s.objs k = 0 then .notFound else .ok) := by
        simp only [InformerLive.get, hg, noteStart, ↓reduceIte, hid, hst]
        by_cases h0 : s.objs k = 0
        · simp [h0]
        · have : 0 < s.objs k := by omega
          simp [h0, this]
      rw [this]
      simp only [LiveSpec.step, absL, hemp]
      by_cases h0 : s.objs k = 0 <;> simp [h0]
  | cancel c =>
    simp [step, LiveSpec.step, absL, cancel, owners]
  | create k =>
    simp only [step, LiveSpec.step, absL, Prod.mk.injEq, and_true]
    cases hm : s.base.im.map k with
    | none =>
      have hr := (map_none_iff h.base k).1 hm
      have hemp : InformerMap.owners s.base k = [] := by simp [InformerMap.owners, hr]
      simp [create, hm, hemp, owners]
    | some id =>
      have hl : live s id = true := live_of_running h ((h.base.run id k).2 hm)
      cases hr : s.base.refs k with
      | none => have := h.base.unref k hr; rw [hm] at this; cases this
      | some os =>
        obtain ⟨hne, id', hid', hh⟩ := h.base.ref k os hr
        rw [hm] at hid'; cases hid'
        have hemp : InformerMap.owners s.base k ≠ [] := by
          simp [InformerMap.owners, hr]; exact hne
        simp [create, hm, hl, hh, hemp, owners]

theorem run_sim (ops : List Op) : ∀ s, LInv s →
    absL (run codePolicy s ops) = LiveSpec.run (absL s) ops := by
  induction ops with
  | nil => intro s _; rfl
  | cons op ops ih =>
    intro s h
    have hs := step_sim s op h
    simp only [run, LiveSpec.run, List.foldl_cons]
    have : (LiveSpec.step (absL s) op).1 = absL (step codePolicy s op).1 := by rw [hs]
    rw [this]
    exact ih _ (linv_step s op h)

theorem absL_init : absL init = LiveSpec.init := by
  simp [absL, init, owners, InformerMap.owners, InformerMap.init, LiveSpec.init]

end Pko.Lemmas.C12Live
