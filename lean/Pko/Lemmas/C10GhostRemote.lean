/-
C10, ghost non-interference, part 2: delegated phases.  The ObjectSet side of a delegated phase
(`Pko.Model.Remote.remoteReconcile` / `remoteTeardown`, i.e. the `Remotes` record
`Pko.Model.Remote.remotes`) and the write primitives of the ObjectSetPhase controller tick the
ghost counter but never read the ghost state.  Core Lean only.
-/
import Pko.Lemmas.C10Ghost

namespace Pko.Props.C10Lift
open Pko.Kube Pko.Model.Phase Pko.Model.ObjectSet Pko.Model.Status Pko.Model.Converge Pko.Model.Remote

/-- A `Remotes` record (the handling of delegated phases a controller pass is parameterised by)
**respects** ghost equality: both of its steps map ghost-equal worlds to ghost-equal worlds and
return the same result. -/
structure RespectsGhost (rm : Remotes) : Prop where
  recon : ∀ (o : OSet) (ph : PhaseSpec) {w w' : World}, GhostEq w w' → RelW (rm.recon o ph w) (rm.recon o ph w')
  tear : ∀ (o : OSet) (ph : PhaseSpec) {w w' : World}, GhostEq w w' → RelW (rm.tear o ph w) (rm.tear o ph w')
  sync : ∀ (o : OSet) (ph : PhaseSpec) {w w' : World}, GhostEq w w' → GhostEq (rm.sync o ph w) (rm.sync o ph w')

theorem setPhase_ghost {w w' : World} (h : GhostEq w w') (n : String) (p : Option OPhase) :
    GhostEq (setPhase w n p) (setPhase w' n p) := by
  ghost_destruct w w' h
  simp only [setPhase]
  ghost_leaves

theorem freshRV_ghost {w w' : World} (h : GhostEq w w') : RelW (freshRV w) (freshRV w') := by
  ghost_destruct w w' h
  simp only [freshRV]
  ghost_leaves

theorem freshUID_ghost {w w' : World} (h : GhostEq w w') : RelW (freshUID w) (freshUID w') := by
  ghost_destruct w w' h
  simp only [freshUID]
  ghost_leaves

theorem propagatePause_ghost (o : OSet) (n : String) (cur : OPhase) {w w' : World} (h : GhostEq w w') :
    RelW (propagatePause o n cur w) (propagatePause o n cur w') := by
  ghost_destruct w w' h
  simp only [propagatePause, World.tick, freshRV, setPhase]
  repeat' split
  ghost_leaves

theorem remoteContinue_ghost (o : OSet) (n : String) (cur : OPhase) {w w' : World} (h : GhostEq w w') :
    RelW (remoteContinue o n cur w) (remoteContinue o n cur w') := by
  ghost_destruct w w' h
  simp only [remoteContinue, propagatePause, World.tick, freshRV, setPhase]
  repeat' split
  ghost_leaves

/-- `objectSetRemotePhaseReconciler.Reconcile` does not read the ghost state. -/
theorem remoteReconcile_ghost (o : OSet) (ph : PhaseSpec) {w w' : World} (h : GhostEq w w') :
    RelW (remoteReconcile o ph w) (remoteReconcile o ph w') := by
  ghost_destruct w w' h
  simp only [remoteReconcile, remoteContinue, propagatePause, World.tick, freshRV, freshUID, setPhase]
  repeat' split
  ghost_leaves

/-- `objectSetRemotePhaseReconciler.Teardown` does not read the ghost state. -/
theorem remoteTeardown_ghost (o : OSet) (ph : PhaseSpec) {w w' : World} (h : GhostEq w w') :
    RelW (remoteTeardown o ph w) (remoteTeardown o ph w') := by
  ghost_destruct w w' h
  simp only [remoteTeardown, World.tick, freshRV, setPhase]
  repeat' split
  ghost_leaves

/-- **the model of delegated phases respects ghost equality.** -/
theorem remoteSyncPaused_ghost (o : OSet) (ph : PhaseSpec) {w w' : World} (h : GhostEq w w') :
    GhostEq (remoteSyncPaused o ph w) (remoteSyncPaused o ph w') := by
  simp only [remoteSyncPaused, h.phases]
  split
  · exact h
  · exact (propagatePause_ghost o _ _ h).1

theorem remotes_respects : RespectsGhost remotes where
  recon := fun o ph _ _ h => remoteReconcile_ghost o ph h
  tear := fun o ph _ _ h => remoteTeardown_ghost o ph h
  sync := fun o ph _ _ h => remoteSyncPaused_ghost o ph h

/-- a `Remotes` record that is never reached / does nothing respects ghost equality, too. -/
theorem const_respects (r1 : Except PassErr (List CRef × Bool)) (r2 : TRes) :
    RespectsGhost ⟨fun _ _ w => (w, r1), fun _ _ w => (w, r2), fun _ _ w => w⟩ where
  recon := fun _ _ _ _ h => RelW.mk' h _
  tear := fun _ _ _ _ h => RelW.mk' h _
  sync := fun _ _ _ _ h => h

/-! ### write primitives of the ObjectSetPhase controller -/

theorem lockedPhaseWrite_ghost (mem : OPhase) (f : OPhase → OPhase) {w w' : World} (h : GhostEq w w') :
    RelW (lockedPhaseWrite w mem f) (lockedPhaseWrite w' mem f) := by
  ghost_destruct w w' h
  simp only [lockedPhaseWrite, World.tick, freshRV, setPhase]
  repeat' split
  ghost_leaves

theorem setPhaseFinalizer_ghost (mem : OPhase) (present : Bool) {w w' : World} (h : GhostEq w w') :
    RelW (setPhaseFinalizer w mem present) (setPhaseFinalizer w' mem present) := by
  simp only [setPhaseFinalizer]
  split
  · exact RelW.mk' h _
  · obtain ⟨w1, w1', r, e1, e2, h1⟩ := (lockedPhaseWrite_ghost mem (fun cur => { cur with finCached := present }) h).elim
    simp only [e1, e2]
    cases r with
    | ok stored => exact ⟨⟨h1.store, h1.writes, h1.env, h1.events, h1.phases, by simp only [h1.phaseEvents], h1.remoteRefs, h1.applied, h1.watched⟩, rfl⟩
    | error e => exact ⟨⟨h1.store, h1.writes, h1.env, h1.events, h1.phases, by simp only [h1.phaseEvents], h1.remoteRefs, h1.applied, h1.watched⟩, rfl⟩

theorem updatePhaseStatus_ghost (mem : OPhase) {w w' : World} (h : GhostEq w w') :
    RelW (updatePhaseStatus w mem) (updatePhaseStatus w' mem) := by
  simp only [updatePhaseStatus]
  obtain ⟨w1, w1', r, e1, e2, h1⟩ :=
    (lockedPhaseWrite_ghost mem (fun cur => { cur with conds := mem.conds, controllerOf := mem.controllerOf }) h).elim
  simp only [e1, e2]
  cases r with
  | ok stored => exact ⟨⟨h1.store, h1.writes, h1.env, h1.events, h1.phases, by simp only [h1.phaseEvents], h1.remoteRefs, h1.applied, h1.watched⟩, rfl⟩
  | error e => exact ⟨⟨h1.store, h1.writes, h1.env, h1.events, h1.phases, by simp only [h1.phaseEvents], h1.remoteRefs, h1.applied, h1.watched⟩, rfl⟩

theorem afterPhaseStatus_ghost {x y : World × Except ApiErr OPhase} (h : RelW x y) (res : Res) :
    RelW (afterPhaseStatus x res) (afterPhaseStatus y res) := by
  obtain ⟨w1, w1', r, e1, e2, h1⟩ := h.elim
  subst e1 e2
  cases r <;> exact RelW.mk' h1 _

end Pko.Props.C10Lift
