/-
Helper lemmas about `Pko.Model.ObjectSet` (used by Props C03, C04, C06, C09).
-/
import Pko.Model.ObjectSet
import Pko.Props.C01
import Pko.Props.C05

namespace Pko.Lemmas.ObjectSet
open Pko.Kube Pko.Model.Phase Pko.Model.ObjectSet Pko.Model.Status

/-- The object loop of `reconcilePhaseObjs` is the object loop of `reconcilePhase` plus the
collection of returned objects. -/
theorem go_agree (cfg : Cfg) (ow : Owner) (prev : List Prev) :
    ∀ (ps : List PObj) (w : World) (failed : List String) (acc : List (PObj × Obj)),
      (reconcilePhaseObjs.go cfg ow prev ps w failed acc).1 = (reconcilePhase.go cfg ow prev ps w failed).1 ∧
      (reconcilePhaseObjs.go cfg ow prev ps w failed acc).2.1 = (reconcilePhase.go cfg ow prev ps w failed).2 := by
  intro ps
  induction ps with
  | nil => intro w failed acc; simp [reconcilePhaseObjs.go, reconcilePhase.go]
  | cons p rest ih =>
    intro w failed acc
    simp only [reconcilePhaseObjs.go, reconcilePhase.go]
    cases hr : reconcilePhaseObject cfg ow prev p w with
    | mk w' res =>
      cases res with
      | actual o => simpa using ih w' _ _
      | missing => simpa using ih w' _ _
      | errCollision r => simp
      | err => simp

theorem reconcilePhaseObjs_eq (cfg : Cfg) (ow : Owner) (prev : List Prev) (ps : List PObj) (w : World) :
    (reconcilePhaseObjs cfg ow prev ps w).1 = (reconcilePhase cfg ow prev "" ps w).1 ∧
    (reconcilePhaseObjs cfg ow prev ps w).2.1 = (reconcilePhase cfg ow prev "" ps w).2 := by
  simp only [reconcilePhaseObjs, reconcilePhase]
  cases hp : preflightPhase cfg ow "" ps with
  | error => simp
  | violation => simp
  | ok => exact go_agree cfg ow prev ps w [] []

/-- every object returned by the loop was returned by its reconcile step, in some world of the pass,
and the owner-controlled ones are exactly what `controllerOfOf` reports. -/
theorem go_objs_sound (cfg : Cfg) (ow : Owner) (prev : List Prev) :
    ∀ (ps : List PObj) (w : World) (failed : List String) (acc : List (PObj × Obj)),
      ∀ po ∈ (reconcilePhaseObjs.go cfg ow prev ps w failed acc).2.2,
        po ∈ acc ∨ ∃ pw ∈ Pko.Props.C01.visits cfg ow prev ps w,
          pw.1 = po.1 ∧ (reconcilePhaseObject cfg ow prev pw.1 pw.2).2 matches .actual _ := by
  intro ps
  induction ps with
  | nil => intro w failed acc po h; simp [reconcilePhaseObjs.go] at h; exact Or.inl h
  | cons p rest ih =>
    intro w failed acc po h
    simp only [reconcilePhaseObjs.go] at h
    cases hr : reconcilePhaseObject cfg ow prev p w with
    | mk w' res =>
      rw [hr] at h
      cases res with
      | actual o =>
        simp only at h
        rcases ih w' _ _ po h with h1 | ⟨pw, hpw, h2⟩
        · rcases List.mem_append.1 h1 with h3 | h3
          · exact Or.inl h3
          · simp at h3
            refine Or.inr ⟨(p, w), by simp [Pko.Props.C01.visits], ?_⟩
            simp [h3, hr]
        · exact Or.inr ⟨pw, by simp [Pko.Props.C01.visits, hr, hpw], h2⟩
      | missing =>
        simp only at h
        rcases ih w' _ _ po h with h1 | ⟨pw, hpw, h2⟩
        · exact Or.inl h1
        · exact Or.inr ⟨pw, by simp [Pko.Props.C01.visits, hr, hpw], h2⟩
      | errCollision r => simp at h
      | err => simp at h

/-! ### writes on the ObjectSet itself -/

theorem applySetEnv_setEvents (s : Sys) (op : SetEnvOp) : (s.applySetEnv op).setEvents = s.setEvents := by
  cases op <;> simp only [Sys.applySetEnv] <;> (repeat' split) <;>
    simp [Sys.thirdPartyStore, Sys.setSet] <;> (repeat' split) <;> simp [Sys.setSet]

theorem foldl_applySetEnv_setEvents (l : List (Nat × SetEnvOp)) (s : Sys) :
    (l.foldl (fun s e => s.applySetEnv e.2) s).setEvents = s.setEvents := by
  induction l generalizing s with
  | nil => rfl
  | cons a t ih => simp only [List.foldl_cons]; rw [ih, applySetEnv_setEvents]

theorem beforeSetWrite_setEvents (s : Sys) : s.beforeSetWrite.setEvents = s.setEvents := by
  simp [Sys.beforeSetWrite, foldl_applySetEnv_setEvents]

/-- `lockedWrite` never logs anything by itself. -/
theorem lockedWrite_setEvents (s : Sys) (m : OSet) (f : OSet → OSet) :
    (s.lockedWrite m f).1.setEvents = s.setEvents := by
  simp only [Sys.lockedWrite]
  split
  · simp [beforeSetWrite_setEvents]
  · split
    · simp [beforeSetWrite_setEvents]
    · split
      · simp [Sys.setSet, Sys.note, beforeSetWrite_setEvents]
      · split
        · simp [beforeSetWrite_setEvents]
        · simp [Sys.setSet, Sys.note, Sys.bumpRV, beforeSetWrite_setEvents]

/-- a status update appends exactly one `statusUpdate` event carrying the in-memory status. -/
theorem updateStatus_setEvents (s : Sys) (mem : OSet) :
    ∃ r, (s.updateStatus mem).1.setEvents =
      s.setEvents ++ [.statusUpdate mem.name r mem.revision mem.conds mem.controllerOf mem.remotePhases] := by
  simp only [Sys.updateStatus]
  split
  · exact ⟨none, by simp [lockedWrite_setEvents]⟩
  · rename_i e _; exact ⟨some e, by simp [lockedWrite_setEvents]⟩

/-- the finalizer helpers append nothing, or exactly one `finalizerPatch` event. -/
theorem setFinalizer_setEvents (s : Sys) (mem : OSet) (present : Bool) :
    (s.setFinalizer mem present).1.setEvents = s.setEvents ∨
    ∃ r, (s.setFinalizer mem present).1.setEvents = s.setEvents ++ [.finalizerPatch mem.name present r] := by
  simp only [Sys.setFinalizer]
  split
  · exact Or.inl rfl
  · right
    split
    · exact ⟨none, by simp [lockedWrite_setEvents]⟩
    · rename_i e _; exact ⟨some e, by simp [lockedWrite_setEvents]⟩

/-- after `setCond` with a non-True status, the condition is not True. -/
theorem condTrue_setCond_false (cs : List Cond) (t st r : String) (g : Nat) (m : String) (hst : st ≠ "True") :
    condTrue (setCond cs ⟨t, st, r, g, m⟩) t = false := by
  simp only [setCond]
  split
  · simp only [condTrue, List.any_map, List.any_eq_false, Function.comp]
    intro x _
    by_cases hx : x.type = t <;> simp [hx, hst]
  · rename_i hnone
    simp only [condTrue, List.any_append, List.any_cons, List.any_nil, Bool.or_false, Bool.or_eq_false_iff]
    constructor
    · simp only [List.any_eq_false]
      intro x hx
      have : ¬ x.type = t := by
        intro h; apply hnone; simp only [List.any_eq_true]; exact ⟨x, hx, by simp [h]⟩
      simp [this]
    · simp [hst]

/-- removing conditions cannot make a condition True. -/
theorem condTrue_removeCond (cs : List Cond) (t t' : String) (h : condTrue (removeCond cs t') t = true) :
    condTrue cs t = true := by
  simp only [condTrue, removeCond, List.any_eq_true] at h ⊢
  obtain ⟨x, hx, hp⟩ := h
  exact ⟨x, (List.mem_filter.1 hx).1, hp⟩

/-! ### writes on the ObjectSet never touch managed objects -/

theorem applySetEnv_events (s : Sys) (op : SetEnvOp) : (s.applySetEnv op).w.events = s.w.events := by
  cases op <;> simp only [Sys.applySetEnv] <;> (repeat' split) <;>
    simp [Sys.thirdPartyStore, Sys.setSet] <;> (repeat' split) <;> simp [Sys.setSet]

theorem foldl_applySetEnv_events (l : List (Nat × SetEnvOp)) (s : Sys) :
    (l.foldl (fun s e => s.applySetEnv e.2) s).w.events = s.w.events := by
  induction l generalizing s with
  | nil => rfl
  | cons a t ih => simp only [List.foldl_cons]; rw [ih, applySetEnv_events]

theorem lockedWrite_events (s : Sys) (m : OSet) (f : OSet → OSet) :
    (s.lockedWrite m f).1.w.events = s.w.events := by
  simp only [Sys.lockedWrite, Sys.beforeSetWrite]
  split
  · simp [foldl_applySetEnv_events, World.tick]
  · split
    · simp [foldl_applySetEnv_events, World.tick]
    · split
      · simp [Sys.setSet, Sys.note, foldl_applySetEnv_events, World.tick]
      · split
        · simp [foldl_applySetEnv_events, World.tick]
        · simp [Sys.setSet, Sys.note, Sys.bumpRV, foldl_applySetEnv_events, World.tick]

theorem updateStatus_events (s : Sys) (mem : OSet) : (s.updateStatus mem).1.w.events = s.w.events := by
  simp only [Sys.updateStatus]
  split <;> simp [lockedWrite_events]

theorem setFinalizer_events (s : Sys) (mem : OSet) (b : Bool) : (s.setFinalizer mem b).1.w.events = s.w.events := by
  simp only [Sys.setFinalizer]
  split
  · rfl
  · split <;> simp [lockedWrite_events]

/-- condition bookkeeping: setting / removing a condition of ANOTHER type does not change
whether a condition is True. -/
theorem condTrue_setCond_other (cs : List Cond) (c : Cond) (t : String) (h : c.type ≠ t) :
    condTrue (setCond cs c) t = condTrue cs t := by
  simp only [setCond]
  split
  · simp only [condTrue, List.any_map]
    congr 1; funext x
    by_cases hx : x.type = c.type
    · simp [hx, h]
    · simp [hx]
  · simp [condTrue, h]

theorem condTrue_removeCond_other (cs : List Cond) (t' t : String) (h : t' ≠ t) :
    condTrue (removeCond cs t') t = condTrue cs t := by
  simp only [condTrue, removeCond, List.any_filter]
  congr 1; funext x
  by_cases hx : x.type = t
  · simp [hx, h.symm]
  · simp [hx]

theorem condTrue_setCond_true (cs : List Cond) (t r : String) (g : Nat) (m : String) :
    condTrue (setCond cs ⟨t, "True", r, g, m⟩) t = true := by
  simp only [setCond]
  split
  · rename_i hany
    simp only [condTrue, List.any_map, List.any_eq_true, Function.comp] at hany ⊢
    obtain ⟨x, hx, hp⟩ := hany
    exact ⟨x, hx, by simp at hp; simp [hp]⟩
  · simp [condTrue]

/-- the derived status says Available=True exactly when no phase failed. -/
theorem deriveStatus_available (mem : OSet) (co : List CRef) (failing : Option String) :
    condTrue (deriveStatus mem co failing).conds "Available" = failing.isNone := by
  have havail : ∀ cs g, condTrue (availConds cs g failing) "Available" = failing.isNone := by
    intro cs g
    cases failing with
    | some ph => exact condTrue_setCond_false _ "Available" "False" _ _ _ (by simp)
    | none => exact condTrue_setCond_true _ "Available" _ _ _
  simp only [deriveStatus, succConds]
  split
  · rw [condTrue_setCond_other _ _ _ (by simp)]; exact havail _ _
  · exact havail _ _

theorem deriveStatus_controllerOf (mem : OSet) (co : List CRef) (failing : Option String) :
    (deriveStatus mem co failing).controllerOf = co := rfl

theorem deriveStatus_lifecycle (mem : OSet) (co : List CRef) (failing : Option String) :
    (deriveStatus mem co failing).lifecycle = mem.lifecycle := rfl

theorem deriveStatus_gen (mem : OSet) (co : List CRef) (failing : Option String) :
    (deriveStatus mem co failing).gen = mem.gen := rfl

/-- `reportPausedCondition` only touches the Paused condition. -/
theorem finishMem_condTrue_other (w : World) (mem : OSet) (t : String) (h : "Paused" ≠ t) :
    condTrue (finishMem w mem).conds t = condTrue mem.conds t := by
  simp only [finishMem]
  split
  · split
    · split
      · exact condTrue_setCond_other _ _ _ h
      · exact condTrue_removeCond_other _ _ _ h
    · exact condTrue_setCond_other _ _ _ h
  · exact condTrue_setCond_other _ _ _ h

theorem finishMem_fields (w : World) (mem : OSet) :
    (finishMem w mem).controllerOf = mem.controllerOf ∧ (finishMem w mem).name = mem.name ∧
    (finishMem w mem).revision = mem.revision ∧ (finishMem w mem).gen = mem.gen := by
  simp only [finishMem]; (repeat' split) <;> exact ⟨rfl, rfl, rfl, rfl⟩

/-- without delegated phases "phases are paused" is the spec's own pause flag. -/
theorem finishMem_noRemote (w : World) (mem : OSet) (h : mem.remotePhases = []) :
    finishMem w mem =
      if mem.lifecycle = .paused then { mem with conds := setCond mem.conds ⟨"Paused", "True", "Paused", mem.gen, ""⟩ }
      else { mem with conds := removeCond mem.conds "Paused" } := by
  simp only [finishMem, h, List.isEmpty_nil, ↓reduceIte]
  by_cases hp : mem.lifecycle = .paused <;> simp [hp]

@[simp] theorem afterStatus_fst (x : Sys × Except ApiErr OSet) (r : Res) : (afterStatus x r).1 = x.1 := by
  obtain ⟨s, e⟩ := x; cases e <;> rfl

end Pko.Lemmas.ObjectSet
