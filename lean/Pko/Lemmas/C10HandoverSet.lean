/-
C10, handover at the controller level, part 2 (Sys level): one pass of
`Pko.Model.ObjectSet.reconcile` for a NEW revision whose `previous` names existing ObjectSets that
still control (some of) its objects — native owner strategy, local phases.  `lookupPrev` yields
exactly the `Prev` records that make `FromPrev` hold, so the pass adopts and settles every object
of every phase it gets through.  Core Lean only.
-/
import Pko.Lemmas.C10HandoverPhases

namespace Pko.Props.C10Lift
open Pko.Kube Pko.Model.Phase Pko.Model.ObjectSet Pko.Model.Status
open Pko.Props.C10 Pko.Props.C10Set
open Pko.Lemmas.ObjectSet

/-- The object of `p` is still controlled by an EXISTING ObjectSet `po` that `mem` declares as a
previous revision: `po` is its controller (native owner reference), the recorded revision is lower
than `mem`'s, `mem` is not listed on it yet, it is not being deleted. -/
def HeldByPrevious (cfg : Cfg) (s : Sys) (mem : OSet) (p : PObj) : Prop :=
  ∃ cur pn po, s.w.store.get (keyOf cfg mem.owner p) = some cur ∧ pn ∈ mem.previous ∧ s.sets pn = some po ∧
    isController cfg.st ⟨pkoGroup, po.kind, po.name, po.uid, true⟩ cur = true ∧
    isController cfg.st (mem.owner.ref true) cur = false ∧
    cur.rev ≠ .garbage ∧ revNum cur.rev < mem.revision ∧
    UidsDistinct cur.owners ∧ cur.deleting = false ∧
    (∀ c ∈ cur.owners, sameObjNoUID c (mem.owner.ref true) = false ∧ c.uid ≠ mem.uid) ∧
    (mem.ns = "" ∨ (keyOf cfg mem.owner p).ns = mem.ns)

/-- **`lookupPrev` finds the previous revision**: an object held by an existing declared previous
ObjectSet is `FromPrev` with respect to the records the pass looks up. -/
theorem heldByPrevious_fromPrev {cfg : Cfg} {s : Sys} {mem : OSet} {p : PObj}
    (h : HeldByPrevious cfg s mem p) : FromPrev cfg mem.owner (lookupPrev s mem) p s.w.store := by
  obtain ⟨cur, pn, po, hg, hpn, hpo, hctrl, hnm, hpar, hold, hu, hal, hfr, hns⟩ := h
  refine ⟨cur, hg, ?_⟩
  exact { notMine := hnm, parses := hpar, older := hold, uids := hu, alive := hal, fresh := hfr, ns := hns
          byPrev := by
            simp only [controlledByPrevious, List.any_eq_true, Bool.or_eq_true]
            refine ⟨{ kind := po.kind, name := po.name, uid := po.uid, remotes := po.remotePhases }, ?_, Or.inl hctrl⟩
            simp only [lookupPrev, List.mem_map]
            exact ⟨pn, hpn, by simp only [hpo]⟩ }

/-- **Handover-repairable**: `SetOk`, and every object of every phase is absent, the ObjectSet's
own, or still held by an existing declared previous revision.  Stored status arbitrary. -/
def HandoverSet (cfg : Cfg) (s : Sys) (name : String) : Prop :=
  ∃ mem, SetOk cfg s name mem ∧
    ∀ ph ∈ mem.phases, ∀ p ∈ ph.objs, Mine cfg mem.owner p s.w.store ∨ HeldByPrevious cfg s mem p

theorem RepairableSet.handover {cfg s name} (h : RepairableSet cfg s name) : HandoverSet cfg s name := by
  obtain ⟨mem, h1, h2⟩ := h
  exact ⟨mem, h1, fun ph hph p hp => Or.inl (h2 ph hph p hp)⟩

/-- **One pass of the new revision** (native strategy): from a handover-repairable ObjectSet the
pass ends `.ok`; the ObjectSet keeps its spec and is handover-repairable again (the hypothesis is
an invariant of the pass — later passes, crash points included, start from it); a prefix `done` of
the phases is processed, every object of it is settled FOR THE NEW REVISION (adopted where a
previous revision held it); nothing outside is touched, no other ObjectSet is written; and the
pass reports Available exactly when it got through all phases — then every object is settled and
ready (`ReadySet`: C10Set's `two_passes_reach_clean` applies) — otherwise it stopped at a phase
with a failing probe. -/
theorem handover_objectset_reconcile (cfg : Cfg) (rm : Remotes) (name : String) (s : Sys)
    (hnat : cfg.st = .native) (hq : QuietSys s) (hr : HandoverSet cfg s name) :
    (reconcile cfg rm name s).2 = .ok ∧ QuietSys (reconcile cfg rm name s).1 ∧
    HandoverSet cfg (reconcile cfg rm name s).1 name ∧
    (∀ n, n ≠ name → (reconcile cfg rm name s).1.sets n = s.sets n) ∧
    ∃ mem mem' done rest, s.sets name = some mem ∧ (reconcile cfg rm name s).1.sets name = some mem' ∧
      SameSpec mem mem' ∧ mem.phases = done ++ rest ∧
      (∀ ph ∈ done, ∀ p ∈ ph.objs, Settled cfg mem.owner p (reconcile cfg rm name s).1.w.store) ∧
      (∀ k', k' ∉ phaseKeys cfg mem.owner done →
        (reconcile cfg rm name s).1.w.store.get k' = s.w.store.get k') ∧
      ((rest = [] ∧ condTrue mem'.conds "Available" = true ∧ ReadySet cfg (reconcile cfg rm name s).1 name) ∨
       (∃ pre ph, done = pre ++ [ph] ∧ condTrue mem'.conds "Available" = false ∧
        ∃ p ∈ ph.objs, ∃ o, (reconcile cfg rm name s).1.w.store.get (keyOf cfg mem.owner p) = some o ∧
          probeOk o = false)) := by
  obtain ⟨mem, hok, hobj⟩ := hr
  have hrep : ∀ ph ∈ mem.phases, ∀ p ∈ ph.objs, Repairable cfg mem.owner (lookupPrev s mem) p s.w.store :=
    fun ph hph p hp => (hobj ph hph p hp).elim Or.inl (fun h => Or.inr (heldByPrevious_fromPrev h))
  obtain ⟨done, rest, sh⟩ := phases_repair_gen cfg mem.owner (lookupPrev s mem) _
    (repairable_stepRepairs cfg mem.owner (lookupPrev s mem) hnat) (rm.recon mem) mem.phases s.w []
    hq.objs hok.phases hrep
  cases hres : reconcilePhases cfg mem.owner (lookupPrev s mem) (rm.recon mem) mem.phases s.w [] with
  | mk w1 pr =>
    rw [hres] at sh
    have hk : Kept s.w w1 := sh.kept
    have hsett : ∀ ph ∈ done, ∀ p ∈ ph.objs, Settled cfg mem.owner p w1.store := sh.settled
    have hframe : ∀ k', k' ∉ phaseKeys cfg mem.owner done → w1.store.get k' = s.w.store.get k' := sh.frame
    have hsplit := sh.split
    have hne : ∀ e, pr ≠ .error e := by
      intro e
      rcases sh.outcome with ⟨_, _, h⟩ | ⟨_, _, _, _, _, h⟩ <;> (simp only at h; rw [h]; exact fun h => nomatch h)
    cases pr with
    | error e => exact absurd rfl (hne e)
    | ok x =>
      obtain ⟨co, failing⟩ := x
      obtain ⟨h1, h2, _, h4, ⟨rv', h5⟩, h6, _⟩ := reconcile_local cfg rm name s mem hq hok w1 co failing hres hk
      obtain ⟨hok', howner, hph, hspec⟩ := setOk_after cfg s _ name mem co failing rv' hok h5
      have hprev : ({ finishMem s.w (deriveStatus mem co failing) with rv := rv' } : OSet).previous = mem.previous := by
        rw [finishMem_eq]; rfl
      have hrevn : ({ finishMem s.w (deriveStatus mem co failing) with rv := rv' } : OSet).revision = mem.revision := by
        rw [finishMem_eq]; rfl
      have huid : ({ finishMem s.w (deriveStatus mem co failing) with rv := rv' } : OSet).uid = mem.uid := by
        rw [finishMem_eq]; rfl
      have hnsm : ({ finishMem s.w (deriveStatus mem co failing) with rv := rv' } : OSet).ns = mem.ns := by
        rw [finishMem_eq]; rfl
      have havail : condTrue (finishMem s.w (deriveStatus mem co failing)).conds "Available" = failing.isNone := by
        rw [finishMem_condTrue_other _ _ _ (by decide)]; exact deriveStatus_available mem co failing
      -- every object of the ObjectSet is still handover-repairable
      have hinv : ∀ ph ∈ mem.phases, ∀ p ∈ ph.objs,
          Mine cfg mem.owner p (reconcile cfg rm name s).1.w.store ∨
          HeldByPrevious cfg (reconcile cfg rm name s).1
            { finishMem s.w (deriveStatus mem co failing) with rv := rv' } p := by
        intro ph hph2 p hp
        by_cases hd : keyOf cfg mem.owner p ∈ phaseKeys cfg mem.owner done
        · left
          simp only [phaseKeys, List.mem_map, List.mem_flatMap] at hd
          obtain ⟨q, ⟨ph', hph', hq'⟩, hkq⟩ := hd
          have := settled_mine (hsett ph' hph' q hq')
          have hm : Mine cfg mem.owner p w1.store := by simpa only [Mine, hkq] using this
          exact mine_congr (h4 _) hm
        · rcases hobj ph hph2 p hp with hm | ⟨cur, pn, po, hg, hpn, hpo, hctrl, hnm, rest'⟩
          · exact Or.inl (mine_congr ((h4 _).trans (hframe _ hd)) hm)
          · right
            have hpnne : pn ≠ name := by
              intro he
              rw [he, hok.stored] at hpo
              cases hpo
              have : isController cfg.st (mem.owner.ref true) cur = true := hctrl
              rw [hnm] at this; cases this
            refine ⟨cur, pn, po, ?_, ?_, ?_, hctrl, ?_⟩
            · rw [howner, h4, hframe _ hd]; exact hg
            · rw [hprev]; exact hpn
            · rw [h6 pn hpnne]; exact hpo
            · rw [howner, hrevn, huid, hnsm]; exact ⟨hnm, rest'⟩
      refine ⟨h1, h2, ⟨_, hok', ?_⟩, h6, mem, _, done, rest, hok.stored, h5, hspec, hsplit, ?_, ?_, ?_⟩
      · intro ph hph2 p hp
        rw [hph] at hph2
        rw [howner]
        exact hinv ph hph2 p hp
      · intro ph hph2 p hp
        exact settled_congr (h4 _) (hsett ph hph2 p hp)
      · intro k' hk'
        rw [h4 k']; exact hframe k' hk'
      · rcases sh.outcome with ⟨hr, hall, hpr⟩ | ⟨pre, ph, hd, _, ⟨p, hp, hpp⟩, hpr⟩
        · have hphs : mem.phases = done := by rw [hsplit, hr, List.append_nil]
          have hfail : failing = none := by
            simp only at hpr
            have := congrArg (fun r : PhasesRes => match r with | .ok x => x.2 | .error _ => none) hpr
            simpa using this
          refine Or.inl ⟨hr, ?_, _, hok', ?_⟩
          · show condTrue (finishMem s.w (deriveStatus mem co failing)).conds "Available" = true
            rw [havail, hfail]; rfl
          · intro ph hph2 p hp
            rw [hph, hphs] at hph2
            rw [howner]
            exact settledReady_congr (h4 _) (settledReady_of (hsett ph hph2 p hp) (hall ph hph2 p hp))
        · have hfail : failing = some ph.name := by
            simp only at hpr
            have := congrArg (fun r : PhasesRes => match r with | .ok x => x.2 | .error _ => none) hpr
            simpa using this
          obtain ⟨o, hg, _⟩ := hsett ph (by rw [hd]; simp) p hp
          refine Or.inr ⟨pre, ph, hd, ?_, p, hp, o, by rw [h4]; exact hg, ?_⟩
          · show condTrue (finishMem s.w (deriveStatus mem co failing)).conds "Available" = false
            rw [havail, hfail]; rfl
          · simpa only [probePass, hg] using hpp

end Pko.Props.C10Lift
