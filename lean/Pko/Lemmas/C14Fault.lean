/-
Lemmas for C14, part D: `DeploymentReconciler.Reconcile` hit by an API fault (`reconcileF`) satisfies every clause
of `Pko.Model.ChunkSpec.deployOkF`, and never invalidates the template stored in the API or an existing ObjectSet.
-/
import Pko.Lemmas.C14Deploy
namespace Pko.Lemmas.C14
open Pko.Model.Chunk Pko.Model.ChunkSpec Pko.Model.ChunkRun

variable {Name : Type} [DecidableEq Name]

/-- The ways `reconcileF` ends: nothing happened (Get / pre-create failed); or the phases were chunked (slices
created: `st1`) and then — the API still holds the OLD template (a phase failed to chunk, or the Update was
rejected), nothing deleted — or the API holds the NEW template but the call failed before deleting anything —
or the call succeeded and GC ran against the new template. -/
theorem reconcileF_cases {limit : Nat} {strat : Strategy} {hash : List Obj → Nat → Name} {f : DFault}
    {w w' : World Name} {desired : List (List Obj)} {ok : Bool} {del : List Name}
    (h : reconcileF limit strat hash f w desired = some (w', ok, del)) :
    (w' = w ∧ ok = false ∧ del = [] ∧ (f = .get ∨ f = .create)) ∨
    ∃ st1 r, chunkPhases limit strat hash w.slices desired = some (st1, r) ∧
      w'.objectSets = w.objectSets ∧ w'.slices = erase st1 del ∧
      ((ok = false ∧ del = [] ∧ w'.deploy = some (w.deploy.getD []) ∧ (r = none ∨ f.rejectsUpdate = true)) ∨
       (∃ tmpl, r = some tmpl ∧ ok = false ∧ del = [] ∧ w'.deploy = some tmpl ∧ f.afterUpdate = true) ∨
       (∃ tmpl, r = some tmpl ∧ ok = true ∧ del = gcDeletes st1 tmpl w.objectSets ∧ w'.deploy = some tmpl ∧
          f.rejectsUpdate = false)) := by
  unfold reconcileF at h
  split at h
  · rename_i hf
    simp only [Option.some.injEq, Prod.mk.injEq] at h
    obtain ⟨rfl, rfl, rfl⟩ := h
    exact Or.inl ⟨rfl, rfl, rfl, Or.inl hf⟩
  split at h
  · rename_i hf
    simp only [Option.some.injEq, Prod.mk.injEq] at h
    obtain ⟨rfl, rfl, rfl⟩ := h
    exact Or.inl ⟨rfl, rfl, rfl, Or.inr hf.1⟩
  right
  cases hc : chunkPhases limit strat hash w.slices desired with
  | none => simp [hc] at h
  | some q =>
    obtain ⟨st1, r⟩ := q
    refine ⟨st1, r, rfl, ?_⟩
    cases r with
    | none =>
      simp only [hc, Option.some.injEq, Prod.mk.injEq] at h
      obtain ⟨rfl, rfl, rfl⟩ := h
      exact ⟨rfl, by simp [erase_nil], Or.inl ⟨rfl, rfl, rfl, Or.inl rfl⟩⟩
    | some tmpl =>
      simp only [hc] at h
      split at h
      · rename_i hrej
        simp only [Option.some.injEq, Prod.mk.injEq] at h
        obtain ⟨rfl, rfl, rfl⟩ := h
        exact ⟨rfl, by simp [erase_nil], Or.inl ⟨rfl, rfl, rfl, Or.inr hrej⟩⟩
      · rename_i hrej
        split at h
        · rename_i haft
          simp only [Option.some.injEq, Prod.mk.injEq] at h
          obtain ⟨rfl, rfl, rfl⟩ := h
          exact ⟨rfl, by simp [erase_nil], Or.inr (Or.inl ⟨tmpl, rfl, rfl, rfl, rfl, haft.1⟩)⟩
        · simp only [Option.some.injEq, Prod.mk.injEq] at h
          obtain ⟨rfl, rfl, rfl⟩ := h
          exact ⟨rfl, rfl, Or.inr (Or.inr ⟨tmpl, rfl, rfl, rfl, rfl, by simpa using hrej⟩)⟩

/-- Without a fault that strikes, `reconcileF` is `reconcile`: a 409 Conflict answered by re-Get + retry, a
pre-create fault on an ObjectDeployment that exists, a GC Delete fault when there is nothing to delete. -/
theorem reconcileF_eq_reconcile {limit : Nat} {strat : Strategy} {hash : List Obj → Nat → Name}
    (w : World Name) (desired : List (List Obj)) :
    reconcileF limit strat hash .conflict w desired = reconcile limit strat hash w desired := by
  unfold reconcileF reconcile
  simp only [reduceCtorEq, ↓reduceIte, false_and]
  cases chunkPhases limit strat hash w.slices desired with
  | none => rfl
  | some q =>
    obtain ⟨st1, r⟩ := q
    cases r <;> simp [DFault.rejectsUpdate, DFault.afterUpdate]

/-- **Main lemma under faults**: whatever the world, the desired phases, the strategy, the limit, the hash and
the API fault, a finished `Reconcile` satisfies the whole specification `deployOkF`. -/
theorem reconcileF_deployOkF {limit : Nat} {strat : Strategy} {hash : List Obj → Nat → Name}
    (isHashOf : Name → List Obj → Bool) (hIs : ∀ X k, isHashOf (hash X k) X = true) {f : DFault}
    {w w' : World Name} {desired : List (List Obj)} {ok : Bool} {del : List Name}
    (h : reconcileF limit strat hash f w desired = some (w', ok, del)) :
    deployOkF isHashOf f ⟨w.deploy, w.slices, w.objectSets⟩ desired ⟨ok, w'.deploy, del, w'.slices⟩ = true := by
  -- common shape of every ending: slices only ever appear (st1 ⊇ w.slices) and `del` is removed from st1
  have key : ∃ st1, Ext w.slices st1 ∧ Fresh hash w.slices st1 ∧ w'.slices = erase st1 del ∧
      (∀ n ∈ del, (∃ s, getSlice st1 n = some s ∧ s.lbl = true) ∧
        n ∉ refs (w'.deploy.getD []) ∧ n ∉ w.objectSets.flatMap osRefs) ∧
      -- the template the API holds afterwards: the old one, or a lossless settled encoding of `desired`
      ((ok = false ∧ del = [] ∧ (w'.deploy = w.deploy ∨ w'.deploy = some (w.deploy.getD []))) ∨
       (∃ tmpl, w'.deploy = some tmpl ∧ decode st1 tmpl = some desired ∧ AllSettled hash st1 (refs tmpl) ∧
          (ok = true ∨ (del = [] ∧ f.afterUpdate = true)))) := by
    rcases reconcileF_cases h with ⟨rfl, rfl, rfl, _⟩ | ⟨st1, r, hc, _, hs, hcase⟩
    · exact ⟨w'.slices, Ext.refl _, Fresh.refl _ _, by simp [erase_nil], by simp, Or.inl ⟨rfl, rfl, Or.inl rfl⟩⟩
    · obtain ⟨ext, fresh, hdec⟩ := chunkPhases_spec (fun objs cs => chunk_concat) hc
      refine ⟨st1, ext, fresh, hs, ?_, ?_⟩
      · rcases hcase with ⟨_, rfl, _⟩ | ⟨_, _, _, rfl, _⟩ | ⟨tmpl, _, _, rfl, hd, _⟩
        · simp
        · simp
        · intro n hn
          obtain ⟨_, h2, h3, h4⟩ := mem_gcDeletes hn
          exact ⟨h2, by simpa [hd] using h3, h4⟩
      · rcases hcase with ⟨ho, hd, hdep, _⟩ | ⟨tmpl, rfl, ho, hd, hdep, haft⟩ | ⟨tmpl, rfl, ho, _, hdep, _⟩
        · exact Or.inl ⟨ho, hd, Or.inr hdep⟩
        · obtain ⟨a, b⟩ := hdec tmpl rfl
          exact Or.inr ⟨tmpl, hdep, a, b, Or.inr ⟨hd, haft⟩⟩
        · obtain ⟨a, b⟩ := hdec tmpl rfl
          exact Or.inr ⟨tmpl, hdep, a, b, Or.inl ho⟩
  obtain ⟨st1, ext, fresh, hstore, hdelProps, hend⟩ := key
  have hget : ∀ m, getSlice w'.slices m = if m ∈ del then none else getSlice st1 m := by
    intro m; rw [hstore, get_erase]
  -- the new template, when it is the one stored, is lossless against the slices that exist afterwards
  have hnew : ∀ tmpl, w'.deploy = some tmpl → decode st1 tmpl = some desired → AllSettled hash st1 (refs tmpl) →
      tmplLossless desired ⟨ok, w'.deploy, del, w'.slices⟩ = true ∧
      (∀ n ∈ refs tmpl, getSlice w'.slices n = getSlice st1 n) := by
    intro tmpl hd hdecode hsettled
    have hkeep : ∀ n ∈ refs tmpl, getSlice w'.slices n = getSlice st1 n := by
      intro n hn
      rw [hget]
      have : n ∉ del := fun hnd => (hdelProps n hnd).2.1 (by simpa [hd] using hn)
      simp [this]
    refine ⟨?_, hkeep⟩
    simp only [tmplLossless, hd, Bool.and_eq_true, decide_eq_true_eq]
    refine ⟨by rw [decode_congr hkeep]; exact hdecode, all_true ?_⟩
    intro n hn
    obtain ⟨X, _, _, _, s, hs, hctl, _⟩ := hsettled n hn
    rw [hkeep n hn, hs]; exact hctl
  simp only [deployOkF, Bool.and_eq_true]
  refine ⟨⟨⟨⟨⟨⟨?_, ?_⟩, ?_⟩, ?_⟩, ?_⟩, ?_⟩, ?_⟩
  · -- lossless
    rcases hend with ⟨rfl, _⟩ | ⟨tmpl, hd, hdecode, hsettled, _⟩
    · simp [lossless]
    · have := (hnew tmpl hd hdecode hsettled).1
      simp only [tmplLossless] at this
      simp only [lossless, this, Bool.or_true]
  · -- failSafeF
    rcases hend with ⟨rfl, rfl, hd | hd⟩ | ⟨tmpl, hd, hdecode, hsettled, rfl | ⟨rfl, haft⟩⟩
    · simp [failSafeF, hd]
    · simp [failSafeF, hd]
    · simp [failSafeF]
    · have := (hnew tmpl hd hdecode hsettled).1
      simp [failSafeF, haft, this]
  · -- namedByContent
    simp only [namedByContent]
    apply all_true
    intro e he
    cases hpre : getSlice w.slices e.1 with
    | some _ => simp
    | none =>
      simp only [Option.isSome_none, Bool.false_or]
      cases hpost : getSlice w'.slices e.1 with
      | none => rfl
      | some sl =>
        rw [hget] at hpost
        by_cases hd : e.1 ∈ del
        · simp [hd] at hpost
        · simp only [hd, ↓reduceIte] at hpost
          obtain ⟨⟨k, hk⟩, hctl, hlbl⟩ := fresh e.1 sl hpre hpost
          simp only [hctl, hlbl, Bool.and_true]
          rw [hk]; exact hIs _ _
  · -- noReuse
    simp only [noReuse]
    apply all_true
    intro e _
    cases hpre : getSlice w.slices e.1 with
    | none => rfl
    | some a =>
      cases hpost : getSlice w'.slices e.1 with
      | none => rfl
      | some b =>
        rw [hget] at hpost
        by_cases hd : e.1 ∈ del
        · simp [hd] at hpost
        · simp only [hd, ↓reduceIte] at hpost
          have := ext e.1 a hpre
          rw [this] at hpost; cases hpost; simp
  · -- sameContentSameName
    rcases hend with ⟨rfl, _⟩ | ⟨tmpl, hd, hdecode, hsettled, _⟩
    · simp [sameContentSameName]
    · have hkeep := (hnew tmpl hd hdecode hsettled).2
      simp only [sameContentSameName, hd]
      rw [Bool.or_eq_true]; right
      apply all_true; intro n hn; apply all_true; intro m hm
      obtain ⟨X1, hs1⟩ := hsettled n hn
      obtain ⟨X2, hs2⟩ := hsettled m hm
      obtain ⟨_, _, _, a, ha, _, hXa⟩ := id hs1
      obtain ⟨_, _, _, b, hb, _, hXb⟩ := id hs2
      rw [hkeep n hn, hkeep m hm, ha, hb]
      by_cases heq : a.objects = b.objects
      · have hX : X1 = X2 := by rw [← hXa, ← hXb, heq]
        subst hX
        simp [Settled.unique hs1 hs2]
      · simp [heq]
  · -- gcSafe
    simp only [gcSafe]
    apply all_true
    intro n hn
    have hnd : n ∈ del := by
      rcases List.mem_append.mp hn with hn | hn
      · exact hn
      · simp only [List.mem_filter, Option.isNone_iff_eq_none] at hn
        obtain ⟨hnames, hgone⟩ := hn
        obtain ⟨s, hs⟩ := get_of_mem_names hnames
        have h1 := ext n s hs
        rw [hget] at hgone
        by_cases hd : n ∈ del
        · exact hd
        · simp [hd, h1] at hgone
    obtain ⟨⟨s, hs, hlbl⟩, h1, h2⟩ := hdelProps n hnd
    simp only [Bool.and_eq_true, Bool.not_eq_eq_eq_not, Bool.not_true, List.contains_eq_mem, List.mem_append,
      decide_eq_false_iff_not, not_or]
    refine ⟨⟨h1, h2⟩, ?_⟩
    cases hpre : getSlice w.slices n with
    | none => rfl
    | some sl =>
      have := ext n sl hpre
      rw [hs] at this; cases this; exact hlbl
  · -- storedLoadable
    simp only [storedLoadable, Bool.or_eq_true, Bool.not_eq_eq_eq_not, Bool.not_true]
    cases hpre : decode w.slices (w.deploy.getD []) with
    | none => left; rfl
    | some d0 =>
      right
      rcases hend with ⟨_, rfl, hd | hd⟩ | ⟨tmpl, hd, hdecode, hsettled, _⟩
      · rw [hd, hstore, erase_nil, decode_ext ext hpre]; rfl
      · rw [hd, hstore, erase_nil]
        simp only [Option.getD_some]
        rw [decode_ext ext hpre]; rfl
      · have h1 := (hnew tmpl hd hdecode hsettled).1
        simp only [tmplLossless, hd, Bool.and_eq_true, decide_eq_true_eq] at h1
        simp [hd, h1.1]

/-- **An Update that the API rejects leaves everything in place**: if the Update of the ObjectDeployment fails
with a non-conflict error (directly or after a conflict retry), `Reconcile` returns the error, slice garbage
collection does NOT run — nothing is deleted —, the API keeps the template it had and every slice that existed
still exists unchanged (so whatever the stored template or an ObjectSet references is still there). -/
theorem update_rejected_nothing_deleted {limit : Nat} {strat : Strategy} {hash : List Obj → Nat → Name} {f : DFault}
    (hf : f.rejectsUpdate = true) {w w' : World Name} {desired : List (List Obj)} {ok : Bool} {del : List Name}
    (h : reconcileF limit strat hash f w desired = some (w', ok, del)) :
    ok = false ∧ del = [] ∧ w'.deploy = some (w.deploy.getD []) ∧ Ext w.slices w'.slices := by
  rcases reconcileF_cases h with ⟨_, _, _, hg | hg⟩ | ⟨st1, r, hc, _, hs, hcase⟩
  · subst hg; simp [DFault.rejectsUpdate] at hf
  · subst hg; simp [DFault.rejectsUpdate] at hf
  · obtain ⟨ext, _, _⟩ := chunkPhases_spec (fun objs cs => chunk_concat) hc
    rcases hcase with ⟨ho, rfl, hdep, _⟩ | ⟨_, _, _, _, _, haft⟩ | ⟨_, _, _, _, _, hrej⟩
    · exact ⟨ho, rfl, hdep, by rw [hs, erase_nil]; exact ext⟩
    · cases f <;> simp [DFault.rejectsUpdate, DFault.afterUpdate] at hf haft
    · rw [hf] at hrej; cases hrej

/-- A `Reconcile` hit by ANY API fault never invalidates an existing ObjectSet. -/
theorem reconcileF_keeps_objectsets_loadable {limit : Nat} {strat : Strategy} {hash : List Obj → Nat → Name}
    {f : DFault} {w w' : World Name} {desired : List (List Obj)} {ok : Bool} {del : List Name}
    (h : reconcileF limit strat hash f w desired = some (w', ok, del))
    (os : OSet Name) (hos : os ∈ w.objectSets) (d : List (List Obj))
    (hd : decode w.slices os.phases = some d) : decode w'.slices os.phases = some d := by
  rcases reconcileF_cases h with ⟨rfl, _, _, _⟩ | ⟨st1, r, hc, _, hs, hcase⟩
  · exact hd
  · obtain ⟨ext, _, _⟩ := chunkPhases_spec (fun objs cs => chunk_concat) hc
    have h1 := decode_ext ext hd
    rw [hs, decode_congr (st := st1)]
    · exact h1
    · intro n hn
      rw [get_erase]
      have : n ∉ del := by
        rcases hcase with ⟨_, rfl, _⟩ | ⟨_, _, _, rfl, _⟩ | ⟨tmpl, _, _, rfl, _⟩
        · simp
        · simp
        · intro hnd
          obtain ⟨_, _, _, h4⟩ := mem_gcDeletes hnd
          exact h4 (List.mem_flatMap.mpr ⟨os, hos, hn⟩)
      simp [this]

end Pko.Lemmas.C14
