/-
Generic lemmas for C13: Go maps as association lists, range loops in arbitrary order,
uniqueness of sorted permutations.
-/
import Pko.Model.Render
namespace Pko.Lemmas.C13
open Pko.Model.Render List

variable {α κ β : Type}

/-! ## range loops: closed form -/

def stepErr (step : α → Except Err (Upd κ β)) (a : α) : Option Err :=
  match step a with | .error e => some e | .ok _ => none

def stepUpd (step : α → Except Err (Upd κ β)) (a : α) : Option (Upd κ β) :=
  match step a with | .ok u => some u | .error _ => none

def Upd.key : Upd κ β → Option κ
  | .set k _ => some k
  | .del k => some k
  | .skip => none

def Upd.entry : Upd κ β → Option (κ × β)
  | .set k v => some (k, v)
  | _ => none

/-- keys touched by the loop over `l` -/
def touched (step : α → Except Err (Upd κ β)) (l : List α) : List κ :=
  (l.filterMap (stepUpd step)).filterMap Upd.key

/-- entries written by the loop over `l` -/
def written (step : α → Except Err (Upd κ β)) (l : List α) : List (κ × β) :=
  (l.filterMap (stepUpd step)).filterMap Upd.entry

theorem touched_nil (step : α → Except Err (Upd κ β)) : touched step [] = [] := rfl
theorem written_nil (step : α → Except Err (Upd κ β)) : written step [] = [] := rfl

theorem touched_cons (step : α → Except Err (Upd κ β)) (a : α) (l : List α) :
    touched step (a :: l) =
      match step a with
      | .ok (.set k _) => k :: touched step l
      | .ok (.del k) => k :: touched step l
      | _ => touched step l := by
  simp only [touched, filterMap_cons, stepUpd]
  cases step a with
  | error e => rfl
  | ok u => cases u <;> rfl

theorem written_cons (step : α → Except Err (Upd κ β)) (a : α) (l : List α) :
    written step (a :: l) =
      match step a with
      | .ok (.set k v) => (k, v) :: written step l
      | _ => written step l := by
  simp only [written, filterMap_cons, stepUpd]
  cases step a with
  | error e => rfl
  | ok u => cases u <;> rfl

theorem rangeLoop_eq [BEq κ] (step : α → Except Err (Upd κ β)) (l : List α) (m : GoMap κ β) :
    rangeLoop step l m =
      match l.findSome? (stepErr step) with
      | some e => .error e
      | none => .ok ((l.filterMap (stepUpd step)).foldl Upd.apply m) := by
  induction l generalizing m with
  | nil => simp [rangeLoop]
  | cons a r ih =>
    simp only [rangeLoop, findSome?_cons, filterMap_cons, stepErr, stepUpd]
    cases h : step a with
    | error e => simp
    | ok u => simp [ih]

theorem foldl_apply_eq [BEq κ] [LawfulBEq κ] (us : List (Upd κ β))
    (hnd : (us.filterMap Upd.key).Nodup) (m : GoMap κ β) :
    us.foldl Upd.apply m
      = m.filter (fun e => !((us.filterMap Upd.key).contains e.1)) ++ us.filterMap Upd.entry := by
  induction us generalizing m with
  | nil =>
    simp only [foldl_nil, filterMap_nil, contains_nil, Bool.not_false, append_nil]
    exact (filter_eq_self.mpr (fun _ _ => rfl)).symm
  | cons u us ih =>
    cases u with
    | skip =>
      simp only [foldl_cons, Upd.apply, filterMap_cons, Upd.key, Upd.entry] at hnd ⊢
      exact ih hnd m
    | del k =>
      simp only [foldl_cons, Upd.apply, filterMap_cons, Upd.key, Upd.entry, nodup_cons] at hnd ⊢
      rw [ih hnd.2, mapDel, filter_filter]
      congr 1
      apply filter_congr
      intro e _
      simp [Bool.and_comm]
    | set k v =>
      simp only [foldl_cons, Upd.apply, filterMap_cons, Upd.key, Upd.entry, nodup_cons] at hnd ⊢
      rw [ih hnd.2, mapSet, filter_append, filter_filter]
      have hk : ((us.filterMap Upd.key).contains k) = false := by
        simpa using hnd.1
      simp only [filter_cons, hk, filter_nil, append_assoc]
      simp only [Bool.not_false, ↓reduceIte, singleton_append]
      congr 1
      apply filter_congr
      intro e _
      simp [Bool.and_comm]

/-- Closed form of a successful range loop whose iterations touch pairwise different keys. -/
theorem rangeLoop_closed [BEq κ] [LawfulBEq κ] (step : α → Except Err (Upd κ β)) (l : List α)
    (m : GoMap κ β) (hnd : (touched step l).Nodup) (hok : l.findSome? (stepErr step) = none) :
    rangeLoop step l m
      = .ok (m.filter (fun e => !((touched step l).contains e.1)) ++ written step l) := by
  rw [rangeLoop_eq, hok]
  simp only
  rw [foldl_apply_eq _ hnd]
  rfl

/-- failure status of a range loop is independent of the order -/
theorem findSome?_stepErr_perm (step : α → Except Err (Upd κ β)) {l₁ l₂ : List α} (h : l₁ ~ l₂) :
    (l₁.findSome? (stepErr step) = none) ↔ (l₂.findSome? (stepErr step) = none) := by
  simp only [findSome?_eq_none_iff]
  constructor
  · intro H x hx; exact H x (h.mem_iff.mpr hx)
  · intro H x hx; exact H x (h.mem_iff.mp hx)

theorem findSome?_stepErr_none_iff (step : α → Except Err (Upd κ β)) (l : List α) :
    l.findSome? (stepErr step) = none ↔ l.any (fun a => (stepErr step a).isSome) = false := by
  simp only [findSome?_eq_none_iff, any_eq_false]
  constructor
  · intro H x hx; simp [H x hx]
  · intro H x hx
    have := H x hx
    cases h : stepErr step x with
    | none => rfl
    | some e => simp [h] at this

/-- Specification of a range loop started on `m`, iterating a permutation `l` of `l₀`:
if some iteration fails, the loop fails with the (single) error class `E` of the loop; otherwise it
produces, up to the order of the entries, `m₀` minus the touched keys plus the written entries. -/
theorem rangeLoop_spec [BEq κ] [LawfulBEq κ] (step : α → Except Err (Upd κ β)) (E : Err)
    (hE : ∀ a e, step a = .error e → e = E)
    {l l₀ : List α} (h : l ~ l₀) {m m₀ : GoMap κ β} (hm : m ~ m₀)
    (hnd : (touched step l₀).Nodup) :
    (l₀.any (fun a => (stepErr step a).isSome) = true → rangeLoop step l m = .error E) ∧
    (l₀.any (fun a => (stepErr step a).isSome) = false →
      ∃ r, rangeLoop step l m = .ok r ∧
        r ~ m₀.filter (fun e => !((touched step l₀).contains e.1)) ++ written step l₀) := by
  constructor
  · intro hany
    rw [rangeLoop_eq]
    cases hf : l.findSome? (stepErr step) with
    | none =>
      exfalso
      have := (findSome?_stepErr_perm step h).mp hf
      rw [findSome?_stepErr_none_iff] at this
      simp [this] at hany
    | some e =>
      obtain ⟨a, _, ha⟩ := exists_of_findSome?_eq_some hf
      simp only [stepErr] at ha
      cases hs : step a with
      | ok u => simp [hs] at ha
      | error e' =>
        simp [hs] at ha
        subst ha
        simp [hE a e' hs]
  · intro hany
    have hok₀ : l₀.findSome? (stepErr step) = none := (findSome?_stepErr_none_iff step l₀).mpr hany
    have hok : l.findSome? (stepErr step) = none := (findSome?_stepErr_perm step h).mpr hok₀
    have hu : l.filterMap (stepUpd step) ~ l₀.filterMap (stepUpd step) := h.filterMap _
    have ht : touched step l ~ touched step l₀ := hu.filterMap _
    have hw : written step l ~ written step l₀ := hu.filterMap _
    have hnd' : (touched step l).Nodup := ht.symm.nodup hnd
    refine ⟨_, rangeLoop_closed step l m hnd' hok, ?_⟩
    apply Perm.append _ hw
    have : (fun e : κ × β => !((touched step l).contains e.1))
        = (fun e : κ × β => !((touched step l₀).contains e.1)) := by
      funext e; rw [ht.contains_eq]
    rw [this]
    exact hm.filter _

/-! ## association lists with distinct keys -/

theorem lookup_of_mem [BEq κ] [LawfulBEq κ] {l : GoMap κ β} (hnd : (l.map fun e => e.1).Nodup)
    {k : κ} {v : β} (h : (k, v) ∈ l) : l.lookup k = some v := by
  induction l with
  | nil => simp at h
  | cons e r ih =>
    obtain ⟨k', v'⟩ := e
    simp only [map_cons, nodup_cons] at hnd
    simp only [mem_cons, Prod.mk.injEq] at h
    rcases h with ⟨rfl, rfl⟩ | h
    · simp
    · have hne : (k == k') = false := by
        apply Bool.eq_false_iff.mpr
        intro heq
        have := eq_of_beq heq
        subst this
        exact hnd.1 (mem_map.mpr ⟨(k, v), h, rfl⟩)
      simp [lookup_cons, hne, ih hnd.2 h]

theorem lookup_eq_none_of_not_mem [BEq κ] [LawfulBEq κ] {l : GoMap κ β} {k : κ}
    (h : k ∉ l.map fun e => e.1) : l.lookup k = none := by
  induction l with
  | nil => rfl
  | cons e r ih =>
    obtain ⟨k', v'⟩ := e
    simp only [map_cons, mem_cons, not_or] at h
    have hne : (k == k') = false := Bool.eq_false_iff.mpr (fun heq => h.1 (eq_of_beq heq))
    simp [lookup_cons, hne, ih h.2]

theorem mem_of_lookup [BEq κ] [LawfulBEq κ] {l : GoMap κ β} {k : κ} {v : β}
    (h : l.lookup k = some v) : (k, v) ∈ l := by
  induction l with
  | nil => simp at h
  | cons e r ih =>
    obtain ⟨k', v'⟩ := e
    simp only [lookup_cons] at h
    cases hk : k == k' with
    | true =>
      simp [hk] at h
      have := eq_of_beq hk
      subst this; subst h
      simp
    | false =>
      simp [hk] at h
      exact mem_cons_of_mem _ (ih h)

/-- A map is determined, as far as `lookup` is concerned, by its set of entries. -/
theorem lookup_perm [BEq κ] [LawfulBEq κ] {l₁ l₂ : GoMap κ β} (h : l₁ ~ l₂)
    (hnd : (l₂.map fun e => e.1).Nodup) (k : κ) : l₁.lookup k = l₂.lookup k := by
  have hnd₁ : (l₁.map fun e => e.1).Nodup := (h.map _).symm.nodup hnd
  cases h₂ : l₂.lookup k with
  | some v => exact lookup_of_mem hnd₁ (h.mem_iff.mpr (mem_of_lookup h₂))
  | none =>
    cases h₁ : l₁.lookup k with
    | none => rfl
    | some v =>
      have := lookup_of_mem hnd (h.mem_iff.mp (mem_of_lookup h₁))
      simp [this] at h₂

/-! ## sorting: the sorted permutation is unique -/

theorem mergeSort_eq_of_perm {le : α → α → Bool}
    (trans : ∀ a b c, le a b = true → le b c = true → le a c = true)
    (total : ∀ a b, (le a b || le b a) = true)
    {l₁ l₂ : List α} (h : l₁ ~ l₂)
    (antisymm : ∀ a b, a ∈ l₂ → b ∈ l₂ → le a b = true → le b a = true → a = b) :
    l₁.mergeSort le = l₂.mergeSort le := by
  apply Perm.eq_of_pairwise (le := fun a b => le a b = true)
  · intro a b ha hb
    apply antisymm
    · exact h.mem_iff.mp ((mergeSort_perm l₁ le).mem_iff.mp ha)
    · exact (mergeSort_perm l₂ le).mem_iff.mp hb
  · exact pairwise_mergeSort trans total l₁
  · exact pairwise_mergeSort trans total l₂
  · exact (mergeSort_perm l₁ le).trans (h.trans (mergeSort_perm l₂ le).symm)

theorem mergeSort_eq_self_of_perm {le : α → α → Bool}
    (trans : ∀ a b c, le a b = true → le b c = true → le a c = true)
    (total : ∀ a b, (le a b || le b a) = true)
    {l₁ l₂ : List α} (h : l₁ ~ l₂) (hs : l₂.Pairwise fun a b => le a b = true)
    (antisymm : ∀ a b, a ∈ l₂ → b ∈ l₂ → le a b = true → le b a = true → a = b) :
    l₁.mergeSort le = l₂ := by
  rw [mergeSort_eq_of_perm trans total h antisymm, mergeSort_of_pairwise hs]

/-! ## the path order -/

theorem lexLe_refl (a : List Nat) : lexLe a a = true := by
  induction a with
  | nil => rfl
  | cons x r ih => simp [lexLe, ih]

theorem lexLe_total (a b : List Nat) : (lexLe a b || lexLe b a) = true := by
  induction a generalizing b with
  | nil => simp [lexLe]
  | cons x r ih =>
    cases b with
    | nil => simp [lexLe]
    | cons y s =>
      simp only [lexLe]
      have := ih s
      rcases Nat.lt_trichotomy x y with hlt | heq | hgt
      · simp [hlt]
      · subst heq; simpa using this
      · simp [hgt]

theorem lexLe_trans (a b c : List Nat) : lexLe a b = true → lexLe b c = true → lexLe a c = true := by
  induction a generalizing b c with
  | nil => intros; simp [lexLe]
  | cons x r ih =>
    cases b with
    | nil => simp [lexLe]
    | cons y s =>
      cases c with
      | nil => simp [lexLe]
      | cons z t =>
        simp only [lexLe, Bool.or_eq_true, decide_eq_true_eq, Bool.and_eq_true, beq_iff_eq]
        intro h₁ h₂
        rcases h₁ with h₁ | ⟨rfl, h₁⟩
        · rcases h₂ with h₂ | ⟨rfl, _⟩
          · exact Or.inl (Nat.lt_trans h₁ h₂)
          · exact Or.inl h₁
        · rcases h₂ with h₂ | ⟨rfl, h₂⟩
          · exact Or.inl h₂
          · exact Or.inr ⟨rfl, ih s t h₁ h₂⟩

theorem lexLe_antisymm (a b : List Nat) : lexLe a b = true → lexLe b a = true → a = b := by
  induction a generalizing b with
  | nil => cases b <;> simp [lexLe]
  | cons x r ih =>
    cases b with
    | nil => simp [lexLe]
    | cons y s =>
      simp only [lexLe, Bool.or_eq_true, decide_eq_true_eq, Bool.and_eq_true, beq_iff_eq]
      intro h₁ h₂
      rcases h₁ with h₁ | ⟨rfl, h₁⟩
      · rcases h₂ with h₂ | ⟨rfl, _⟩
        · exact absurd h₁ (Nat.lt_asymm h₂)
        · exact absurd h₁ (Nat.lt_irrefl _)
      · rcases h₂ with h₂ | ⟨_, h₂⟩
        · exact absurd h₂ (Nat.lt_irrefl _)
        · rw [ih s h₁ h₂]

/-- A path without NUL characters. -/
def NoNul (p : Path) : Prop := ∀ c ∈ p, c.toNat ≠ 0

theorem sortKey_inj {p q : Path} (hp : NoNul p) (hq : NoNul q) (h : sortKey p = sortKey q) : p = q := by
  induction p generalizing q with
  | nil => cases q <;> simp_all [sortKey]
  | cons c r ih =>
    cases q with
    | nil => simp [sortKey] at h
    | cons d s =>
      simp only [sortKey, map_cons, cons.injEq] at h
      have hc := hp c (by simp)
      have hd := hq d (by simp)
      have hcd : c = d := by
        by_cases h1 : c = '/' <;> by_cases h2 : d = '/'
        · rw [h1, h2]
        · simp [h1, h2] at h; exact absurd h.1.symm hd
        · simp [h1, h2] at h; exact absurd h.1 hc
        · simp [h1, h2] at h; exact Char.toNat_inj.mp h.1
      subst hcd
      congr 1
      exact ih (fun x hx => hp x (mem_cons_of_mem _ hx)) (fun x hx => hq x (mem_cons_of_mem _ hx)) h.2

theorem pathLe_trans (a b c : Path) : pathLe a b = true → pathLe b c = true → pathLe a c = true :=
  lexLe_trans _ _ _

theorem pathLe_total (a b : Path) : (pathLe a b || pathLe b a) = true := lexLe_total _ _

theorem pathLe_antisymm {a b : Path} (ha : NoNul a) (hb : NoNul b) :
    pathLe a b = true → pathLe b a = true → a = b :=
  fun h₁ h₂ => sortKey_inj ha hb (lexLe_antisymm _ _ h₁ h₂)

/-! ## template suffix -/

theorem stripSuffix_append {p : Path} (h : isTemplate p = true) : stripSuffix p ++ tmplSuffix = p := by
  simp only [stripSuffix, h, ↓reduceIte]
  exact suffix_iff_eq_append.mp (isSuffixOf_iff_suffix.mp h)

/-- Different templates have different outputs. -/
theorem stripSuffix_inj {p q : Path} (hp : isTemplate p = true) (hq : isTemplate q = true)
    (h : stripSuffix p = stripSuffix q) : p = q := by
  rw [← stripSuffix_append hp, ← stripSuffix_append hq, h]

theorem noNul_stripSuffix {p : Path} (h : NoNul p) : NoNul (stripSuffix p) := by
  unfold stripSuffix
  split
  · intro c hc; exact h c (mem_of_mem_take hc)
  · exact h

end Pko.Lemmas.C13
