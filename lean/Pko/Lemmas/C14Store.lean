/-
Lemmas for C14, part B: the slice store, `reconcileSlice` with its collision loop, `chunkPhase(s)`.
-/
import Pko.Model.Chunk
import Pko.Model.ChunkSpec
namespace Pko.Lemmas.C14
open Pko.Model.Chunk Pko.Model.ChunkSpec

variable {Name : Type} [DecidableEq Name]

/-! ### store -/

theorem get_append (st : Store Name) (n m : Name) (s : Slice) :
    getSlice (st ++ [(n, s)]) m = match getSlice st m with
      | some x => some x
      | none => if n = m then some s else none := by
  induction st with
  | nil => simp [getSlice]
  | cons e st ih =>
    obtain ⟨k, v⟩ := e
    by_cases hk : k = m
    · simp [getSlice, hk]
    · simp [getSlice, hk, ih]

theorem erase_cons (k : Name) (v : Slice) (st : Store Name) (del : List Name) :
    erase ((k, v) :: st) del = if k ∈ del then erase st del else (k, v) :: erase st del := by
  by_cases hd : k ∈ del <;> simp [erase, hd]

theorem erase_nil (st : Store Name) : erase st [] = st := by
  simp only [erase]
  exact List.filter_eq_self.mpr (fun _ _ => by simp)

theorem get_erase (st : Store Name) (del : List Name) (m : Name) :
    getSlice (erase st del) m = if m ∈ del then none else getSlice st m := by
  induction st with
  | nil => simp [getSlice, erase]
  | cons e st ih =>
    obtain ⟨k, v⟩ := e
    rw [erase_cons]
    by_cases hd : k ∈ del
    · simp only [hd, ↓reduceIte, ih, getSlice]
      by_cases hk : k = m
      · subst hk; simp [hd]
      · simp [hk]
    · simp only [hd, ↓reduceIte, getSlice]
      by_cases hk : k = m
      · subst hk; simp [hd]
      · simp only [hk, ↓reduceIte]; exact ih

theorem get_of_mem {st : Store Name} {e : Name × Slice} (h : e ∈ st) : ∃ s, getSlice st e.1 = some s := by
  induction st with
  | nil => cases h
  | cons a st ih =>
    obtain ⟨k, v⟩ := a
    by_cases hk : k = e.1
    · exact ⟨v, by simp [getSlice, hk]⟩
    · rcases List.mem_cons.mp h with rfl | h'
      · exact absurd rfl hk
      · obtain ⟨s, hs⟩ := ih h'
        exact ⟨s, by simp [getSlice, hk, hs]⟩

theorem get_of_mem_names {st : Store Name} {n : Name} (h : n ∈ names st) : ∃ s, getSlice st n = some s := by
  simp only [names, List.mem_map] at h
  obtain ⟨e, he, rfl⟩ := h
  exact get_of_mem he

/-- `st'` extends `st`: every slice of `st` is still there, unchanged. -/
def Ext (st st' : Store Name) : Prop := ∀ n s, getSlice st n = some s → getSlice st' n = some s

theorem Ext.refl (st : Store Name) : Ext st st := fun _ _ h => h
theorem Ext.trans {a b c : Store Name} (h1 : Ext a b) (h2 : Ext b c) : Ext a c :=
  fun n s h => h2 n s (h1 n s h)

/-- The slice named `n` holds content `X` and is controlled by the deployment. -/
def Matching (st : Store Name) (n : Name) (X : List Obj) : Prop :=
  ∃ s, getSlice st n = some s ∧ s.ctl = true ∧ s.objects = X

/-- The name `n` is taken by something that is not "our slice with content `X`". -/
def Blocked (st : Store Name) (n : Name) (X : List Obj) : Prop :=
  ∃ s, getSlice st n = some s ∧ ¬(s.ctl = true ∧ s.objects = X)

theorem Matching.ext {st st' : Store Name} {n : Name} {X : List Obj} (h : Matching st n X) (e : Ext st st') :
    Matching st' n X := by
  obtain ⟨s, hs, h2⟩ := h; exact ⟨s, e n s hs, h2⟩
theorem Blocked.ext {st st' : Store Name} {n : Name} {X : List Obj} (h : Blocked st n X) (e : Ext st st') :
    Blocked st' n X := by
  obtain ⟨s, hs, h2⟩ := h; exact ⟨s, e n s hs, h2⟩

theorem not_matching_of_blocked {st : Store Name} {n : Name} {X : List Obj} (hb : Blocked st n X)
    (hm : Matching st n X) : False := by
  obtain ⟨s, hs, hn⟩ := hb
  obtain ⟨s', hs', h2⟩ := hm
  rw [hs] at hs'; cases hs'; exact hn h2

/-- Slices that appeared are the ones we create: hash-named by their own content, controlled, labelled. -/
def Fresh (hash : List Obj → Nat → Name) (st st' : Store Name) : Prop :=
  ∀ m s, getSlice st m = none → getSlice st' m = some s →
    (∃ k, m = hash s.objects k) ∧ s.ctl = true ∧ s.lbl = true

theorem Fresh.refl (hash : List Obj → Nat → Name) (st : Store Name) : Fresh hash st st := by
  intro m s h1 h2; rw [h1] at h2; cases h2

theorem Fresh.trans {hash : List Obj → Nat → Name} {a b c : Store Name}
    (f1 : Fresh hash a b) (e2 : Ext b c) (f2 : Fresh hash b c) : Fresh hash a c := by
  intro m s h1 h3
  cases hb : getSlice b m with
  | none => exact f2 m s hb h3
  | some sb =>
    have := e2 m sb hb
    have hs : sb = s := Option.some.inj (this.symm.trans h3)
    subst hs
    exact f1 m sb h1 hb

/-! ### reconcileSlice -/

/-- What one `reconcileSlice` call guarantees (collision loop started at count `c`). -/
structure SliceSpec (hash : List Obj → Nat → Name) (st : Store Name) (X : List Obj) (c : Nat)
    (n : Name) (st' : Store Name) : Prop where
  ext : Ext st st'
  least : ∃ k, c ≤ k ∧ n = hash X k ∧ (∀ j, c ≤ j → j < k → Blocked st (hash X j) X) ∧
    (getSlice st n = none ∨ Matching st n X)
  holds : Matching st' n X
  fresh : Fresh hash st st'
  only : ∀ m, m ≠ n → getSlice st' m = getSlice st m

theorem reconcileSliceFrom_spec (hash : List Obj → Nat → Name) (X : List Obj) :
    ∀ (fuel c : Nat) (st : Store Name) (n : Name) (st' : Store Name),
    reconcileSliceFrom hash fuel c st X = some (n, st') → SliceSpec hash st X c n st' := by
  intro fuel
  induction fuel with
  | zero => intro c st n st' h; simp [reconcileSliceFrom] at h
  | succ fuel ih =>
    intro c st n st' h
    simp only [reconcileSliceFrom, attempt] at h
    cases hg : getSlice st (hash X c) with
    | none =>
      simp only [hg, Option.some.injEq, Prod.mk.injEq] at h
      obtain ⟨rfl, rfl⟩ := h
      refine ⟨?_, ⟨c, Nat.le_refl _, rfl, ?_, Or.inl hg⟩, ?_, ?_, ?_⟩
      · intro m s hm; rw [get_append, hm]
      · intro j h1 h2; omega
      · exact ⟨{ objects := X, ctl := true, lbl := true, owned := false }, by rw [get_append, hg]; simp, rfl, rfl⟩
      · intro m s h1 h2
        rw [get_append, h1] at h2
        by_cases hm : hash X c = m
        · simp only [hm, ↓reduceIte, Option.some.injEq] at h2
          subst h2; exact ⟨⟨c, hm.symm⟩, rfl, rfl⟩
        · simp [hm] at h2
      · intro m hm
        rw [get_append]
        cases getSlice st m with
        | some x => rfl
        | none => simp [Ne.symm hm]
    | some ex =>
      simp only [hg] at h
      by_cases hm : (ex.ctl && ex.objects == X) = true
      · simp only [hm, ↓reduceIte, Option.some.injEq, Prod.mk.injEq] at h
        obtain ⟨rfl, rfl⟩ := h
        have hM : Matching st (hash X c) X := by
          simp only [Bool.and_eq_true, beq_iff_eq] at hm
          exact ⟨ex, hg, hm.1, hm.2⟩
        exact ⟨Ext.refl _, ⟨c, Nat.le_refl _, rfl, fun j h1 h2 => by omega, Or.inr hM⟩, hM, Fresh.refl _ _,
          fun _ _ => rfl⟩
      · simp only [hm, Bool.false_eq_true, ↓reduceIte] at h
        have := ih (c + 1) st n st' h
        obtain ⟨k, hk, hn, hbl, hslot⟩ := this.least
        refine ⟨this.ext, ⟨k, by omega, hn, ?_, hslot⟩, this.holds, this.fresh, this.only⟩
        intro j h1 h2
        by_cases hj : j = c
        · subst hj
          refine ⟨ex, hg, ?_⟩
          intro hc
          apply hm
          simp [hc.1, hc.2]
        · exact hbl j (by omega) h2

theorem reconcileSlice_spec {hash : List Obj → Nat → Name} {X : List Obj} {st : Store Name} {n : Name}
    {st' : Store Name} (h : reconcileSlice hash st X = some (n, st')) : SliceSpec hash st X 0 n st' :=
  reconcileSliceFrom_spec hash X _ 0 st n st' h

/-- The pair (content, name) is settled in the store: `n` is the first hash name of `X` that is not
taken by something else, and it holds `X`. -/
def Settled (hash : List Obj → Nat → Name) (st : Store Name) (X : List Obj) (n : Name) : Prop :=
  ∃ k, n = hash X k ∧ (∀ j, j < k → Blocked st (hash X j) X) ∧ Matching st n X

theorem Settled.ext {hash : List Obj → Nat → Name} {st st' : Store Name} {X : List Obj} {n : Name}
    (h : Settled hash st X n) (e : Ext st st') : Settled hash st' X n := by
  obtain ⟨k, hn, hb, hm⟩ := h
  exact ⟨k, hn, fun j hj => (hb j hj).ext e, hm.ext e⟩

theorem SliceSpec.settled {hash : List Obj → Nat → Name} {st st' : Store Name} {X : List Obj} {n : Name}
    (h : SliceSpec hash st X 0 n st') : Settled hash st' X n := by
  obtain ⟨k, _, hn, hb, _⟩ := h.least
  exact ⟨k, hn, fun j hj => (hb j (Nat.zero_le _) hj).ext h.ext, h.holds⟩

/-- Names are a function of content: two settled names of the same content coincide. -/
theorem Settled.unique {hash : List Obj → Nat → Name} {st : Store Name} {X : List Obj} {n1 n2 : Name}
    (h1 : Settled hash st X n1) (h2 : Settled hash st X n2) : n1 = n2 := by
  obtain ⟨k1, hn1, hb1, hm1⟩ := h1
  obtain ⟨k2, hn2, hb2, hm2⟩ := h2
  rcases Nat.lt_trichotomy k1 k2 with hlt | heq | hgt
  · exact (not_matching_of_blocked (hb2 k1 hlt) (hn1 ▸ hm1)).elim
  · subst heq; rw [hn1, hn2]
  · exact (not_matching_of_blocked (hb1 k2 hgt) (hn2 ▸ hm2)).elim

/-! ### decoding is stable under extension -/

theorem decodeSlices_ext {st st' : Store Name} (e : Ext st st') :
    ∀ {ns : List Name} {r : List Obj}, decodeSlices st ns = some r → decodeSlices st' ns = some r := by
  intro ns
  induction ns with
  | nil => intro r h; simpa [decodeSlices] using h
  | cons n ns ih =>
    intro r h
    simp only [decodeSlices] at h ⊢
    cases hg : getSlice st n with
    | none => simp [hg] at h
    | some s =>
      cases hd : decodeSlices st ns with
      | none => simp [hg, hd] at h
      | some r' =>
        simp only [hg, hd, Option.some.injEq] at h
        simp [e n s hg, ih hd, h]

theorem decodePhase_ext {st st' : Store Name} (e : Ext st st') {ph : Phase Name} {r : List Obj}
    (h : decodePhase st ph = some r) : decodePhase st' ph = some r := by
  simp only [decodePhase, Option.map_eq_some_iff] at h ⊢
  obtain ⟨a, ha, hr⟩ := h
  exact ⟨a, decodeSlices_ext e ha, hr⟩

theorem decode_ext {st st' : Store Name} (e : Ext st st') :
    ∀ {t : Template Name} {r : List (List Obj)}, decode st t = some r → decode st' t = some r := by
  intro t
  induction t with
  | nil => intro r h; simpa [decode] using h
  | cons ph t ih =>
    intro r h
    simp only [decode] at h ⊢
    cases hp : decodePhase st ph with
    | none => simp [hp] at h
    | some a =>
      cases hd : decode st t with
      | none => simp [hp, hd] at h
      | some r' =>
        simp only [hp, hd, Option.some.injEq] at h
        simp [decodePhase_ext e hp, ih hd, h]

/-- Decoding only looks at the referenced names. -/
theorem decodeSlices_congr {st st' : Store Name} :
    ∀ {ns : List Name}, (∀ n ∈ ns, getSlice st' n = getSlice st n) → decodeSlices st' ns = decodeSlices st ns := by
  intro ns
  induction ns with
  | nil => intro _; rfl
  | cons n ns ih =>
    intro h
    simp only [decodeSlices]
    rw [h n (by simp), ih (fun m hm => h m (by simp [hm]))]

theorem decode_congr {st st' : Store Name} :
    ∀ {t : Template Name}, (∀ n ∈ refs t, getSlice st' n = getSlice st n) → decode st' t = decode st t := by
  intro t
  induction t with
  | nil => intro _; rfl
  | cons ph t ih =>
    intro h
    simp only [decode, decodePhase]
    have h1 : decodeSlices st' ph.slices = decodeSlices st ph.slices :=
      decodeSlices_congr (fun n hn => h n (by simp [refs, hn]))
    have h2 : decode st' t = decode st t := ih (fun n hn => h n (by
      simp only [refs, List.flatMap_cons, List.mem_append]; right; exact hn))
    rw [h1, h2]

/-! ### reconcileSlices / chunkPhase / chunkPhases -/

/-- Every name in `ns` is the settled name of some content. -/
def AllSettled (hash : List Obj → Nat → Name) (st : Store Name) (ns : List Name) : Prop :=
  ∀ n ∈ ns, ∃ X, Settled hash st X n

theorem AllSettled.ext {hash : List Obj → Nat → Name} {st st' : Store Name} {ns : List Name}
    (h : AllSettled hash st ns) (e : Ext st st') : AllSettled hash st' ns :=
  fun n hn => let ⟨X, hX⟩ := h n hn; ⟨X, hX.ext e⟩

theorem reconcileSlices_spec {hash : List Obj → Nat → Name} :
    ∀ {chunks : Chunks} {st : Store Name} {ns : List Name} {st' : Store Name},
    reconcileSlices hash st chunks = some (ns, st') →
    Ext st st' ∧ Fresh hash st st' ∧ decodeSlices st' ns = some chunks.flatten ∧ AllSettled hash st' ns := by
  intro chunks
  induction chunks with
  | nil =>
    intro st ns st' h
    simp only [reconcileSlices, Option.some.injEq, Prod.mk.injEq] at h
    obtain ⟨rfl, rfl⟩ := h
    exact ⟨Ext.refl _, Fresh.refl _ _, rfl, fun _ h => by cases h⟩
  | cons X chunks ih =>
    intro st ns st' h
    simp only [reconcileSlices] at h
    cases h1 : reconcileSlice hash st X with
    | none => simp [h1] at h
    | some p =>
      obtain ⟨n, st1⟩ := p
      simp only [h1] at h
      cases h2 : reconcileSlices hash st1 chunks with
      | none => simp [h2] at h
      | some q =>
        obtain ⟨ns', st2⟩ := q
        simp only [h2, Option.some.injEq, Prod.mk.injEq] at h
        obtain ⟨rfl, rfl⟩ := h
        have s1 := reconcileSlice_spec h1
        obtain ⟨e2, f2, d2, a2⟩ := ih h2
        refine ⟨s1.ext.trans e2, s1.fresh.trans e2 f2, ?_, ?_⟩
        · obtain ⟨s, hs, _, hobj⟩ := s1.holds.ext e2
          simp [decodeSlices, hs, d2, hobj]
        · intro m hm
          rcases List.mem_cons.mp hm with rfl | hm
          · exact ⟨X, s1.settled.ext e2⟩
          · exact a2 m hm

theorem chunkPhase_spec {limit : Nat} {strat : Strategy} {hash : List Obj → Nat → Name}
    {st : Store Name} {objs : List Obj} {st' : Store Name} {r : Option (Phase Name)}
    (hflat : ∀ cs, chunk limit strat objs = some cs → cs ≠ [] → cs.flatten = objs)
    (h : chunkPhase limit strat hash st objs = some (st', r)) :
    Ext st st' ∧ Fresh hash st st' ∧
    ∀ po, r = some po → decodePhase st' po = some objs ∧ AllSettled hash st' po.slices := by
  simp only [chunkPhase] at h
  cases hc : chunk limit strat objs with
  | none =>
    simp only [hc, Option.some.injEq, Prod.mk.injEq] at h
    obtain ⟨rfl, rfl⟩ := h
    exact ⟨Ext.refl _, Fresh.refl _ _, fun po hpo => by cases hpo⟩
  | some cs =>
    cases cs with
    | nil =>
      simp only [hc, Option.some.injEq, Prod.mk.injEq] at h
      obtain ⟨rfl, rfl⟩ := h
      refine ⟨Ext.refl _, Fresh.refl _ _, ?_⟩
      intro po hpo
      cases hpo
      exact ⟨by simp [decodePhase, decodeSlices], fun _ h => by cases h⟩
    | cons c cs =>
      simp only [hc] at h
      cases h2 : reconcileSlices hash st (c :: cs) with
      | none => simp [h2] at h
      | some q =>
        obtain ⟨ns, st2⟩ := q
        simp only [h2, Option.some.injEq, Prod.mk.injEq] at h
        obtain ⟨rfl, rfl⟩ := h
        obtain ⟨e, f, d, a⟩ := reconcileSlices_spec h2
        refine ⟨e, f, ?_⟩
        intro po hpo
        cases hpo
        have := hflat (c :: cs) hc (by simp)
        exact ⟨by simp [decodePhase, d, this], a⟩

theorem chunkPhases_spec {limit : Nat} {strat : Strategy} {hash : List Obj → Nat → Name}
    (hflat : ∀ objs cs, chunk limit strat objs = some cs → cs ≠ [] → cs.flatten = objs) :
    ∀ {desired : List (List Obj)} {st : Store Name} {st' : Store Name} {r : Option (Template Name)},
    chunkPhases limit strat hash st desired = some (st', r) →
    Ext st st' ∧ Fresh hash st st' ∧
    ∀ t, r = some t → decode st' t = some desired ∧ AllSettled hash st' (refs t) := by
  intro desired
  induction desired with
  | nil =>
    intro st st' r h
    simp only [chunkPhases, Option.some.injEq, Prod.mk.injEq] at h
    obtain ⟨rfl, rfl⟩ := h
    refine ⟨Ext.refl _, Fresh.refl _ _, ?_⟩
    intro t ht; cases ht
    exact ⟨rfl, fun _ h => by simp [refs] at h⟩
  | cons p ps ih =>
    intro st st' r h
    simp only [chunkPhases] at h
    cases h1 : chunkPhase limit strat hash st p with
    | none => simp [h1] at h
    | some q =>
      obtain ⟨st1, r1⟩ := q
      obtain ⟨e1, f1, hp1⟩ := chunkPhase_spec (hflat p) h1
      cases r1 with
      | none =>
        simp only [h1, Option.some.injEq, Prod.mk.injEq] at h
        obtain ⟨rfl, rfl⟩ := h
        exact ⟨e1, f1, fun t ht => by cases ht⟩
      | some po =>
        simp only [h1] at h
        cases h2 : chunkPhases limit strat hash st1 ps with
        | none => simp [h2] at h
        | some q2 =>
          obtain ⟨st2, r2⟩ := q2
          simp only [h2, Option.some.injEq, Prod.mk.injEq] at h
          obtain ⟨rfl, rfl⟩ := h
          obtain ⟨e2, f2, hp2⟩ := ih h2
          refine ⟨e1.trans e2, f1.trans e2 f2, ?_⟩
          intro t ht
          cases r2 with
          | none => simp at ht
          | some t2 =>
            simp only [Option.map_some, Option.some.injEq] at ht
            subst ht
            obtain ⟨d1, a1⟩ := hp1 po rfl
            obtain ⟨d2, a2⟩ := hp2 t2 rfl
            refine ⟨by simp [decode, decodePhase_ext e2 d1, d2], ?_⟩
            intro n hn
            simp only [refs, List.flatMap_cons, List.mem_append] at hn
            rcases hn with hn | hn
            · exact (a1.ext e2) n hn
            · exact a2 n hn

end Pko.Lemmas.C14
