/-
Step-level facts for property C07: what one operation does to the observed ObjectSets, create
requests and collision counter, in the vocabulary of `Pko.Model.DeploymentSpec`.
-/
import Pko.Lemmas.C07
import Pko.Model.DeploymentSpec
namespace Pko.Lemmas.C07
open Pko.Model.Deployment Pko.Model.DeploymentSpec

/-- What is observed before a step. -/
def before (s : State) : Before := { cc := s.cc, sets := s.sets }

/-- What is observed after executing `op` in state `s`. -/
def after (c : Cfg) (s : State) (op : Op) : Obs :=
  { res := (exec c s op).2.2, reqs := (exec c s op).2.1, cc := (exec c s op).1.cc, th := (exec c s op).1.th,
    sets := (exec c s op).1.sets }

/-- What the observer knows when `op` starts: template, pause flag, ObjectSets created since the
template last changed (an edit that changes the template starts a new count). -/
def ctxOf (s : State) (op : Op) : Ctx :=
  { template := s.template, paused := s.paused,
    epochCreates := match op with
      | .edit k => if k = s.template then s.created else 0
      | _ => s.created }

theorem exec_fst (c : Cfg) (s : State) (op : Op) : (exec c s op).1 = step c s op := by
  cases op <;> rfl

theorem mems_eq_members (s : State) : mems s.sets = members s := rfl

theorem resStr_ok {r : Res} : resStr r = "ok" ↔ r = .ok := by
  cases r <;> simp [resStr]

/-! ### revisions change only by assignment -/

/-- An ObjectSet keeps its revision across every step, except that a pass of the ObjectSet
controller may report one for an ObjectSet that had none. -/
theorem step_rev {c : Cfg} {s : State} (hi : Inv c s) (op : Op) {a b : OSet} (ha : a ∈ s.sets)
    (hb : b ∈ (step c s op).sets) (hser : a.serial = b.serial) :
    b.rev = a.rev ∨ ∃ i r res, op = .os i ∧ s.sets[i]? = some a ∧ osDecide s a = (some r, res) ∧
      b = { a with rev := r } ∧ step c s op = setRev s i a r := by
  have same : ∀ {l : List OSet}, l = s.sets → b ∈ l → b.rev = a.rev := by
    intro l hl hb; rw [hl] at hb
    have := inj_of_pairwise (f := OSet.serial) hi.serial_nodup ha hb hser
    rw [this]
  have app : ∀ {q : OSet}, q.serial = s.next → b ∈ s.sets ++ [q] → b.rev = a.rev := by
    intro q hq hb
    rcases List.mem_append.mp hb with hb | hb
    · exact same rfl hb
    · simp at hb; subst hb
      have := hi.serial_lt a ha; omega
  cases op with
  | edit k =>
    left; simp only [step] at hb; split at hb <;> exact same rfl hb
  | pause b' => left; exact same rfl hb
  | restart => left; exact same rfl hb
  | limit l => left; exact same rfl hb
  | od f v sf =>
    left
    simp only [step] at hb
    cases odPass_cases c s f v sf with
    | quiet hsets => exact same hsets hb
    | bump new latest conf hplan hfind hslow hget hsf hres hsets => exact same hsets hb
    | create new latest oc hplan hfind hoc hsets =>
      rw [hsets] at hb
      exact app (by rw [(plan_create hplan).2.2.2.1]; rfl) hb
  | os i =>
    simp only [step, osPass] at hb ⊢
    split at hb
    · left; exact same rfl hb
    · rename_i o hget
      split at hb
      · rename_i r res hd
        simp only [setRev_sets] at hb
        rcases mem_set_elim (f := OSet.serial) hi.serial_nodup hget hb with hb | ⟨hb, hne⟩
        · right
          have hos : o ∈ s.sets := List.mem_of_getElem? hget
          have : a = o := inj_of_pairwise (f := OSet.serial) hi.serial_nodup ha hos (by rw [hser, hb])
          subst this
          refine ⟨i, r, res, rfl, hget, hd, hb, ?_⟩
          simp
        · left; exact same rfl hb
      · left; exact same rfl hb
  | arch i =>
    left
    simp only [step] at hb
    split at hb
    · exact same rfl hb
    · rename_i o hget
      split at hb
      · rcases mem_set_elim (f := OSet.serial) hi.serial_nodup hget hb with hb | ⟨hb, _⟩
        · have hos : o ∈ s.sets := List.mem_of_getElem? hget
          have : a = o := inj_of_pairwise (f := OSet.serial) hi.serial_nodup ha hos (by rw [hser, hb])
          rw [hb, this]
        · exact same rfl hb
      · exact same rfl hb
  | del i =>
    left
    simp only [step] at hb
    split at hb
    · exact same rfl hb
    · split at hb
      · exact same rfl (List.mem_of_mem_eraseIdx hb)
      · exact same rfl hb
  | squat d owned arch spec rev prev =>
    left
    simp only [step] at hb
    split at hb
    · exact same rfl hb
    · exact app rfl hb

/-! ### creation -/

/-- Everything that holds when a pass creates an ObjectSet. -/
theorem create_facts {c : Cfg} {s : State} {v : View} {new : OSet} {latest : Nat} (hi : Inv c s)
    (hplan : plan c s v = .create new latest)
    (hfind : s.sets.find? (fun x => x.name == c.h s.template s.cc) = none) :
    s.created = 0 ∧ visible s v = members s ∧ (∀ m ∈ members s, m.rev ≠ 0) ∧ s.paused = false ∧
    s.template ≠ 0 ∧ new = newSet c s (sortByRev (members s)) ∧
    (∀ m ∈ members s, (∀ m' ∈ members s, m'.rev ≤ m.rev) → m.hash ≠ c.h s.template s.cc) := by
  have hnb : ∀ n, ¬ Blocker c s n := by
    intro n hb
    have := blocker_find hi hb
    rw [this] at hfind; cases hfind
  obtain ⟨hp, ht, hrep, hnew, _, hcur⟩ := plan_create hplan
  have hvis : visible s v = members s := by
    unfold visible members
    apply List.filter_congr
    intro x hx
    have := no_blocker_unseen hi hnb x hx
    by_cases hm : x.member = true
    · simp [hm, this]
    · simp [hm]
  rw [hvis] at hrep hnew hcur
  refine ⟨no_blocker_created hi hnb, hvis, hrep, hp, ht, hnew, ?_⟩
  intro m hm hmax
  obtain ⟨hms, hmm⟩ := mem_members.mp hm
  cases hl : (sortByRev (members s)).getLast? with
  | none =>
    have := List.getLast?_eq_none_iff.mp hl
    have h2 : m ∈ sortByRev (members s) := mem_sortByRev.mpr hm
    rw [this] at h2; cases h2
  | some l =>
    obtain ⟨hlm, hlmax⟩ := sortByRev_last hl
    obtain ⟨hls, hlmm⟩ := mem_members.mp hlm
    have h1 := hlmax m hm
    have h2 := hmax l hlm
    have hser := hi.rev_unique m hms l hls hmm hlmm (hrep m hm) (by omega)
    have : m = l := inj_of_pairwise (f := OSet.serial) hi.serial_nodup hms hls hser
    rw [this]; exact hcur l hl

theorem succ_nil_of_noeffect {o : Obs} (h : ∀ r ∈ o.reqs, r.outcome = .exists ∨ r.outcome = .fail) :
    succ o = [] := by
  unfold succ
  rw [List.filter_eq_nil_iff]
  intro r hr
  rcases h r hr with h | h <;> simp [h]

/-! ### equations for `odPass`, branch by branch -/

section eqs
variable {c : Cfg} {s : State} {f : Fault} {v : View} {sf : Bool} {new conf : OSet} {latest : Nat}

theorem odPass_noncreate (h : ∀ new latest, plan c s v ≠ .create new latest) :
    odPass c s f v sf = finish { s with unseen := markSeen v s.unseen } s.cc (c.h s.template s.cc) sf [] := by
  unfold odPass
  cases hp : plan c s v with
  | create new latest => exact absurd hp (h new latest)
  | _ => rfl

theorem odPass_fail (hplan : plan c s v = .create new latest) (hf : f = .fail) :
    odPass c s f v sf = ⟨{ s with unseen := markSeen v s.unseen }, [⟨new, .fail⟩], .inj⟩ := by
  simp [odPass, hplan, hf]

theorem odPass_lose (hplan : plan c s v = .create new latest) (hf : f = .lose)
    (hfind : s.sets.find? (fun x => x.name == c.h s.template s.cc) = none) :
    odPass c s f v sf =
      ⟨{ s with
          unseen := new.serial :: markSeen v s.unseen, sets := s.sets ++ [new],
          next := s.next + 1, created := s.created + 1 }, [⟨new, .lost⟩], .inj⟩ := by
  simp [odPass, hplan, hf, hfind]

theorem odPass_ok (hplan : plan c s v = .create new latest) (hf : f = .none)
    (hfind : s.sets.find? (fun x => x.name == c.h s.template s.cc) = none) :
    odPass c s f v sf =
      finish { s with
          unseen := new.serial :: markSeen v s.unseen, sets := s.sets ++ [new],
          next := s.next + 1, created := s.created + 1 } s.cc (c.h s.template s.cc) sf [⟨new, .ok⟩] := by
  simp [odPass, hplan, hf, hfind]

theorem odPass_hidden (hplan : plan c s v = .create new latest) (hf : f ≠ .fail)
    (hfind : s.sets.find? (fun x => x.name == c.h s.template s.cc) = some conf)
    (hh : v = .hideBoth ∧ conf.member = true ∧ conf.serial ∈ s.unseen) :
    odPass c s f v sf = ⟨{ s with unseen := markSeen v s.unseen }, [⟨new, .exists⟩], .nf⟩ := by
  obtain ⟨hv, hm, hu⟩ := hh
  subst hv
  simp [odPass, hplan, hf, hfind, hm, hu]

theorem odPass_slow (hplan : plan c s v = .create new latest) (hf : f ≠ .fail)
    (hfind : s.sets.find? (fun x => x.name == c.h s.template s.cc) = some conf)
    (hh : ¬ (v = .hideBoth ∧ conf.member = true ∧ conf.serial ∈ s.unseen))
    (hs : slowCache c conf latest s.template = true) :
    odPass c s f v sf = finish { s with unseen := markSeen v s.unseen } s.cc (c.h s.template s.cc) sf
      [⟨new, .exists⟩] := by
  simp only [odPass, hplan, hf, hfind, hh, hs, if_false, if_true]

theorem odPass_bump (hplan : plan c s v = .create new latest) (hf : f ≠ .fail)
    (hfind : s.sets.find? (fun x => x.name == c.h s.template s.cc) = some conf)
    (hh : ¬ (v = .hideBoth ∧ conf.member = true ∧ conf.serial ∈ s.unseen))
    (hs : slowCache c conf latest s.template = false) :
    odPass c s f v sf = finish { s with unseen := markSeen v s.unseen, cc := s.cc + 1 } s.cc
      (c.h s.template s.cc) sf [⟨new, .exists⟩] := by
  simp only [odPass, hplan, hf, hfind, hh, hs, if_false, Bool.false_eq_true]

end eqs

theorem finish_res_ok {s : State} {cc0 tH : Nat} {sf : Bool} {reqs : List Req}
    (h : (finish s cc0 tH sf reqs).res = .ok) :
    sf = false ∧ (finish s cc0 tH sf reqs).st.th = some tH ∧ (finish s cc0 tH sf reqs).st.cc = s.cc := by
  unfold finish at h ⊢
  cases sf <;> simp at h ⊢

theorem fault_cases (f : Fault) : f = .fail ∨ (f ≠ .fail ∧ (f = .lose ∨ f = .none)) := by
  cases f <;> simp

/-! ### name clashes -/

theorem odPass_exists (c : Cfg) (s : State) (f : Fault) (v : View) (sf : Bool) :
    ∀ r ∈ (odPass c s f v sf).reqs, r.outcome = .exists →
      ∃ conf ∈ s.sets, conf.name = r.obj.name ∧
        ((conf.archived = true ∨ conf.spec ≠ s.template) → (odPass c s f v sf).res = .ok →
          (odPass c s f v sf).st.cc = s.cc + 1) := by
  intro r hr hex
  by_cases hcr : ∃ new latest, plan c s v = .create new latest
  · obtain ⟨new, latest, hplan⟩ := hcr
    have hname : new.name = c.h s.template s.cc := by rw [(plan_create hplan).2.2.2.1]; rfl
    rcases fault_cases f with hf | ⟨hf, hf'⟩
    · rw [odPass_fail hplan hf] at hr; simp at hr; subst hr; cases hex
    · cases hfind : s.sets.find? (fun x => x.name == c.h s.template s.cc) with
      | none =>
        rcases hf' with hf' | hf'
        · rw [odPass_lose hplan hf' hfind] at hr; simp at hr; subst hr; cases hex
        · rw [odPass_ok hplan hf' hfind, (finish_fields _ _ _ _ _).2.2.2.2.2.2.2.2.1] at hr
          simp at hr; subst hr; cases hex
      | some conf =>
        obtain ⟨hcs, hcn⟩ := find_name_eq hfind
        by_cases hh : v = .hideBoth ∧ conf.member = true ∧ conf.serial ∈ s.unseen
        · rw [odPass_hidden hplan hf hfind hh] at hr ⊢
          simp at hr; subst hr
          exact ⟨conf, hcs, by rw [hcn, hname], fun _ h => by cases h⟩
        · cases hs : slowCache c conf latest s.template with
          | true =>
            rw [odPass_slow hplan hf hfind hh hs] at hr ⊢
            rw [(finish_fields _ _ _ _ _).2.2.2.2.2.2.2.2.1] at hr
            simp at hr; subst hr
            refine ⟨conf, hcs, by rw [hcn, hname], ?_⟩
            intro hcl _
            exfalso
            unfold slowCache at hs
            simp only [Bool.and_eq_true, Bool.not_eq_true', beq_iff_eq] at hs
            rcases hcl with h | h
            · rw [hs.1.1.1] at h; cases h
            · exact h hs.2
          | false =>
            rw [odPass_bump hplan hf hfind hh hs] at hr ⊢
            rw [(finish_fields _ _ _ _ _).2.2.2.2.2.2.2.2.1] at hr
            simp at hr; subst hr
            refine ⟨conf, hcs, by rw [hcn, hname], ?_⟩
            intro _ hres
            exact (finish_res_ok hres).2.2
  · have : ∀ new latest, plan c s v ≠ .create new latest := fun n l h => hcr ⟨n, l, h⟩
    rw [odPass_noncreate this, (finish_fields _ _ _ _ _).2.2.2.2.2.2.2.2.1] at hr
    cases hr

/-! ### progress -/

theorem visible_fresh (s : State) : visible s .fresh = members s := by
  unfold visible members
  apply List.filter_congr
  intro x _; simp

/-- With a fresh list, an unpaused deployment with phases, all ObjectSets reporting a revision
and the newest one not carrying the template hash, the pass attempts a create. -/
theorem plan_fresh_create {c : Cfg} {s : State} (hp : s.paused = false) (ht : s.template ≠ 0)
    (hrep : ∀ m ∈ members s, m.rev ≠ 0)
    (hnew : ∀ m ∈ members s, (∀ m' ∈ members s, m'.rev ≤ m.rev) → m.hash ≠ c.h s.template s.cc) :
    plan c s .fresh = .create (newSet c s (sortByRev (members s))) (latestRev (sortByRev (members s))) := by
  unfold plan
  simp only [visible_fresh]
  have hg : ((members s).any fun o => o.rev == 0) = false := by
    rw [Bool.eq_false_iff]; intro h
    rw [List.any_eq_true] at h
    obtain ⟨x, hx, h0⟩ := h
    exact hrep x hx (by simpa using h0)
  have hc : isCurrent (sortByRev (members s)) (c.h s.template s.cc) = false := by
    rw [Bool.eq_false_iff]; intro h
    unfold isCurrent at h
    split at h
    · rename_i o ho
      obtain ⟨hom, hmax⟩ := sortByRev_last ho
      exact hnew o hom hmax (by simpa using h)
    · cases h
  have ht' : (s.template == 0) = false := by simpa using ht
  simp [hg, hp, hc, ht']

theorem odPass_reqs_of_create {c : Cfg} {s : State} {f : Fault} {v : View} {sf : Bool} {new : OSet} {latest : Nat}
    (hplan : plan c s v = .create new latest) : (odPass c s f v sf).reqs ≠ [] := by
  rcases fault_cases f with hf | ⟨hf, hf'⟩
  · rw [odPass_fail hplan hf]; simp
  · cases hfind : s.sets.find? (fun x => x.name == c.h s.template s.cc) with
    | none =>
      rcases hf' with hf' | hf'
      · rw [odPass_lose hplan hf' hfind]; simp
      · rw [odPass_ok hplan hf' hfind, (finish_fields _ _ _ _ _).2.2.2.2.2.2.2.2.1]; simp
    | some conf =>
      by_cases hh : v = .hideBoth ∧ conf.member = true ∧ conf.serial ∈ s.unseen
      · rw [odPass_hidden hplan hf hfind hh]; simp
      · cases hs : slowCache c conf latest s.template with
        | true => rw [odPass_slow hplan hf hfind hh hs, (finish_fields _ _ _ _ _).2.2.2.2.2.2.2.2.1]; simp
        | false => rw [odPass_bump hplan hf hfind hh hs, (finish_fields _ _ _ _ _).2.2.2.2.2.2.2.2.1]; simp

theorem odPass_th {c : Cfg} {s : State} {f : Fault} {v : View} {sf : Bool}
    (h : (odPass c s f v sf).res = .ok) : (odPass c s f v sf).st.th = some (c.h s.template s.cc) := by
  by_cases hcr : ∃ new latest, plan c s v = .create new latest
  · obtain ⟨new, latest, hplan⟩ := hcr
    rcases fault_cases f with hf | ⟨hf, hf'⟩
    · rw [odPass_fail hplan hf] at h; cases h
    · cases hfind : s.sets.find? (fun x => x.name == c.h s.template s.cc) with
      | none =>
        rcases hf' with hf' | hf'
        · rw [odPass_lose hplan hf' hfind] at h; cases h
        · rw [odPass_ok hplan hf' hfind] at h ⊢; exact (finish_res_ok h).2.1
      | some conf =>
        by_cases hh : v = .hideBoth ∧ conf.member = true ∧ conf.serial ∈ s.unseen
        · rw [odPass_hidden hplan hf hfind hh] at h; cases h
        · cases hs : slowCache c conf latest s.template with
          | true => rw [odPass_slow hplan hf hfind hh hs] at h ⊢; exact (finish_res_ok h).2.1
          | false => rw [odPass_bump hplan hf hfind hh hs] at h ⊢; exact (finish_res_ok h).2.1
  · have : ∀ new latest, plan c s v ≠ .create new latest := fun n l h => hcr ⟨n, l, h⟩
    rw [odPass_noncreate this] at h ⊢; exact (finish_res_ok h).2.1

/-! ### roll-back clashes and liveness per pass -/

theorem le_latestRev {l : List OSet} {y : OSet} (hy : y ∈ l) : y.rev ≤ latestRev (sortByRev l) := by
  unfold latestRev
  cases hl : (sortByRev l).getLast? with
  | none =>
    have := List.getLast?_eq_none_iff.mp hl
    have h2 : y ∈ sortByRev l := mem_sortByRev.mpr hy
    rw [this] at h2; cases h2
  | some x => exact (sortByRev_last hl).2 y hy

theorem slowCache_true {c : Cfg} {conf : OSet} {latest t : Nat} (h : slowCache c conf latest t = true) :
    conf.archived = false ∧ (latest ≤ conf.rev ∨ conf.rev = 0) ∧ conf.owned = true ∧ conf.spec = t := by
  unfold slowCache at h
  simp only [Bool.and_eq_true, Bool.or_eq_true, Bool.not_eq_true', beq_iff_eq, decide_eq_true_eq] at h
  refine ⟨h.1.1.1, ?_, h.1.2, h.2⟩
  rcases h.1.1.2 with h' | h'
  · exact .inl h'
  · exact .inr h'.2

/-- A member of the deployment that reports a higher revision than the ObjectSet squatting on the
template hash's name is listed by the pass, whatever its cache view: what a view hides is a
`Blocker`, which carries that very name. -/
theorem newer_visible {c : Cfg} {s : State} {v : View} {conf m : OSet} (hi : Inv c s)
    (hc : conf ∈ s.sets) (hcn : conf.name = c.h s.template s.cc) (hm : m ∈ members s)
    (hlt : conf.rev < m.rev) : m ∈ visible s v := by
  obtain ⟨hms, hmm⟩ := mem_members.mp hm
  apply mem_visible hms hmm
  right
  intro hu
  have hb := (hi.unseen_inv m hms hu).2.2
  have : m = conf := inj_of_pairwise (f := OSet.name) hi.name_nodup hms hc (by rw [hb.2.2.1, hcn])
  subst this
  omega

/-- `odPass_exists` with the roll-back clause: in a reachable state a clash with an archived,
differently specified or OLDER ObjectSet bumps the counter when the pass completes. -/
theorem odPass_exists_old {c : Cfg} {s : State} (hi : Inv c s) (f : Fault) (v : View) (sf : Bool) :
    ∀ r ∈ (odPass c s f v sf).reqs, r.outcome = .exists →
      ∃ conf ∈ s.sets, conf.name = r.obj.name ∧
        ((conf.archived = true ∨ conf.spec ≠ s.template ∨ OlderRevision (before s) conf) →
          (odPass c s f v sf).res = .ok → (odPass c s f v sf).st.cc = s.cc + 1) := by
  intro r hr hex
  by_cases hcr : ∃ new latest, plan c s v = .create new latest
  · obtain ⟨new, latest, hplan⟩ := hcr
    have hname : new.name = c.h s.template s.cc := by rw [(plan_create hplan).2.2.2.1]; rfl
    rcases fault_cases f with hf | ⟨hf, hf'⟩
    · rw [odPass_fail hplan hf] at hr; simp at hr; subst hr; cases hex
    · cases hfind : s.sets.find? (fun x => x.name == c.h s.template s.cc) with
      | none =>
        rcases hf' with hf' | hf'
        · rw [odPass_lose hplan hf' hfind] at hr; simp at hr; subst hr; cases hex
        · rw [odPass_ok hplan hf' hfind, (finish_fields _ _ _ _ _).2.2.2.2.2.2.2.2.1] at hr
          simp at hr; subst hr; cases hex
      | some conf =>
        obtain ⟨hcs, hcn⟩ := find_name_eq hfind
        by_cases hh : v = .hideBoth ∧ conf.member = true ∧ conf.serial ∈ s.unseen
        · rw [odPass_hidden hplan hf hfind hh] at hr ⊢
          simp at hr; subst hr
          exact ⟨conf, hcs, by rw [hcn, hname], fun _ h => by cases h⟩
        · cases hs : slowCache c conf latest s.template with
          | true =>
            rw [odPass_slow hplan hf hfind hh hs] at hr ⊢
            rw [(finish_fields _ _ _ _ _).2.2.2.2.2.2.2.2.1] at hr
            simp at hr; subst hr
            refine ⟨conf, hcs, by rw [hcn, hname], ?_⟩
            intro hcl _
            exfalso
            obtain ⟨harch, hrev, _, hspec⟩ := slowCache_true hs
            rcases hcl with h | h | ⟨h0, m, hm, hlt⟩
            · rw [harch] at h; cases h
            · exact h hspec
            · have hvis : m ∈ visible s v := newer_visible hi hcs hcn hm hlt
              have hle := le_latestRev hvis
              rw [← (plan_create hplan).2.2.2.2.1] at hle
              rcases hrev with h | h
              · omega
              · exact h0 h
          | false =>
            rw [odPass_bump hplan hf hfind hh hs] at hr ⊢
            rw [(finish_fields _ _ _ _ _).2.2.2.2.2.2.2.2.1] at hr
            simp at hr; subst hr
            refine ⟨conf, hcs, by rw [hcn, hname], ?_⟩
            intro _ hres
            exact (finish_res_ok hres).2.2
  · have : ∀ new latest, plan c s v ≠ .create new latest := fun n l h => hcr ⟨n, l, h⟩
    rw [odPass_noncreate this, (finish_fields _ _ _ _ _).2.2.2.2.2.2.2.2.1] at hr
    cases hr

/-- When every ObjectSet of the deployment reports a revision and the newest one does not carry the
template hash, no cache view hides anything (what a view hides is a `Blocker`). -/
theorem visible_eq_members_of_needed {c : Cfg} {s : State} (hi : Inv c s) (v : View)
    (hrep : ∀ m ∈ members s, m.rev ≠ 0)
    (hnew : ∀ m ∈ members s, (∀ m' ∈ members s, m'.rev ≤ m.rev) → m.hash ≠ c.h s.template s.cc) :
    visible s v = members s := by
  unfold visible members
  apply List.filter_congr
  intro x hx
  by_cases hm : x.member = true
  · have hu : x.serial ∉ s.unseen := by
      intro hu
      obtain ⟨_, _, hname, hoth⟩ := (hi.unseen_inv x hx hu).2.2
      have hxm : x ∈ members s := mem_members.mpr ⟨hx, hm⟩
      apply hnew x hxm
      · intro m' hm'
        obtain ⟨hms', hmm'⟩ := mem_members.mp hm'
        by_cases hser : m'.serial = x.serial
        · have : m' = x := inj_of_pairwise (f := OSet.serial) hi.serial_nodup hms' hx hser
          rw [this]; exact Nat.le_refl _
        · rcases (hoth m' hms' hmm' hser).2 with h | h
          · exact absurd h (hrep x hxm)
          · omega
      · rw [(hi.mem_own x hx hm).1, hname]
    simp [hm, hu]
  · simp [hm]

theorem plan_congr_visible {c : Cfg} {s : State} {v w : View} (h : visible s v = visible s w) :
    plan c s v = plan c s w := by
  unfold plan
  simp only [h]

/-- **Liveness per pass** in the model: a completed pass (any view) that needs a new ObjectSet creates
one, bumps the counter, or clashed with an owned, unlabelled, live ObjectSet of equal spec. -/
theorem odPass_acts {c : Cfg} {s : State} (hi : Inv c s) (f : Fault) (v : View) (sf : Bool)
    (hp : s.paused = false) (ht : s.template ≠ 0) (hres : (odPass c s f v sf).res = .ok)
    (hrep : ∀ m ∈ members s, m.rev ≠ 0)
    (hnew : ∀ m ∈ members s, (∀ m' ∈ members s, m'.rev ≤ m.rev) → m.hash ≠ c.h s.template s.cc) :
    (∃ new, (odPass c s f v sf).reqs = [⟨new, .ok⟩]) ∨ (odPass c s f v sf).st.cc = s.cc + 1 ∨
    (∃ new conf, (odPass c s f v sf).reqs = [⟨new, .exists⟩] ∧ conf ∈ s.sets ∧ conf.name = new.name ∧
      conf.member = false ∧ conf.owned = true ∧ conf.archived = false ∧ conf.spec = s.template) := by
  have hvis := visible_eq_members_of_needed hi v hrep hnew
  have hplan : plan c s v =
      .create (newSet c s (sortByRev (members s))) (latestRev (sortByRev (members s))) := by
    rw [plan_congr_visible (w := .fresh) (by rw [hvis, visible_fresh])]
    exact plan_fresh_create hp ht hrep hnew
  have hname : (newSet c s (sortByRev (members s))).name = c.h s.template s.cc := rfl
  rcases fault_cases f with hf | ⟨hf, hf'⟩
  · rw [odPass_fail hplan hf] at hres; cases hres
  · cases hfind : s.sets.find? (fun x => x.name == c.h s.template s.cc) with
    | none =>
      rcases hf' with hf' | hf'
      · rw [odPass_lose hplan hf' hfind] at hres; cases hres
      · left
        rw [odPass_ok hplan hf' hfind, (finish_fields _ _ _ _ _).2.2.2.2.2.2.2.2.1]
        exact ⟨_, rfl⟩
    | some conf =>
      obtain ⟨hcs, hcn⟩ := find_name_eq hfind
      by_cases hh : v = .hideBoth ∧ conf.member = true ∧ conf.serial ∈ s.unseen
      · rw [odPass_hidden hplan hf hfind hh] at hres; cases hres
      · cases hs : slowCache c conf (latestRev (sortByRev (members s))) s.template with
        | true =>
          right; right
          rw [odPass_slow hplan hf hfind hh hs, (finish_fields _ _ _ _ _).2.2.2.2.2.2.2.2.1]
          obtain ⟨harch, hrev, hown, hspec⟩ := slowCache_true hs
          refine ⟨_, conf, rfl, hcs, by rw [hcn, hname], ?_, hown, harch, hspec⟩
          cases hmem : conf.member with
          | false => rfl
          | true =>
            exfalso
            have hcm : conf ∈ members s := mem_members.mpr ⟨hcs, hmem⟩
            apply hnew conf hcm
            · intro m' hm'
              have := le_latestRev hm'
              rcases hrev with h | h
              · omega
              · exact absurd h (hrep conf hcm)
            · rw [(hi.mem_own conf hcs hmem).1, hcn]
        | false =>
          right; left
          rw [odPass_bump hplan hf hfind hh hs] at hres ⊢
          exact (finish_res_ok hres).2.2

end Pko.Lemmas.C07
