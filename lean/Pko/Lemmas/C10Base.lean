import Pko.Model.Converge
namespace Pko.Props.C10
open Pko.Kube Pko.Model.Phase Pko.Model.ObjectSet Pko.Model.Converge

/-- owner references have pairwise different uids (what the API guarantees). -/
def UidsDistinct (l : List ORef) : Prop := (l.map (·.uid)).Nodup

theorem find_self (l : List ORef) (h : UidsDistinct l) :
    ∀ r ∈ l, l.find? (fun a => a.uid = r.uid) = some r := by
  induction l with
  | nil => intro r hr; cases hr
  | cons x xs ih =>
    intro r hr
    simp only [UidsDistinct, List.map_cons, List.nodup_cons] at h
    by_cases hx : x.uid = r.uid
    · simp only [List.find?_cons, hx, decide_true]
      rcases List.mem_cons.1 hr with rfl | hr'
      · rfl
      · exact absurd (List.mem_map.2 ⟨r, hr', hx.symm⟩) h.1
    · simp only [List.find?_cons, hx, decide_false]
      rcases List.mem_cons.1 hr with rfl | hr'
      · exact absurd rfl hx
      · exact ih h.2 r hr'

/-- re-applying an object's own owner references changes nothing. -/
theorem mergeOwners_self (l : List ORef) (h : UidsDistinct l) : mergeOwners l l = l := by
  unfold mergeOwners
  have h1 : l.map (fun r => (l.find? (fun a => a.uid = r.uid)).getD r) = l := by
    conv => rhs; rw [← List.map_id l]
    apply List.map_congr_left
    intro r hr
    simp [find_self l h r hr]
  have h2 : l.filter (fun a => !(l.any fun r => r.uid = a.uid)) = [] := by
    apply List.filter_eq_nil_iff.2
    intro a ha
    simp only [Bool.not_eq_true', Bool.not_eq_false]
    simp only [List.any_eq_true]
    exact ⟨a, ha, by simp⟩
  simp only [h1, h2, List.append_nil]

end Pko.Props.C10
