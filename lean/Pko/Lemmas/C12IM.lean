/-
Helper lemmas for property C12, composed model `Pko.Model.InformerMap` (real Cache over real
InformerMap): the representation invariant and its preservation by every step.
-/
import Pko.Model.Cache
import Pko.Model.InformerMap

namespace Pko.Lemmas.C12IM
open Pko.Model.Cache (Kind Owner Fail Res Op insertOwner rest)
open Pko.Model Pko.Model.InformerMap

/-- Representation invariant of the composed system. -/
structure Inv (s : State) : Prop where
  /-- a kind without reference entry has no entry in the informer map -/
  unref : ∀ k, s.refs k = none → s.im.map k = none
  /-- a referenced kind has a non-empty owner set and a map entry whose informer has the handlers -/
  ref : ∀ k os, s.refs k = some os → os ≠ [] ∧ ∃ id, s.im.map k = some id ∧ s.handlers id = true
  /-- the informers started and not stopped are exactly the entries of the informer map -/
  run : ∀ id k, Running s id k ↔ s.im.map k = some id
  /-- between calls, every informer that still runs has synced -/
  synced : ∀ id x, s.im.infs id = some x → x.stopped = false → x.synced = true
  /-- ids are allocated in order -/
  fresh : ∀ id, s.im.next ≤ id → s.im.infs id = none

theorem inv_init : Inv init := by
  refine ⟨?_, ?_, ?_, ?_, ?_⟩ <;> simp [init, IM.init, Running]

theorem Inv.map_lt {s : State} (h : Inv s) {k : Kind} {id : Nat} (hm : s.im.map k = some id) :
    id < s.im.next := by
  rcases (h.run id k).2 hm with ⟨x, hx, _, _⟩
  by_cases hlt : id < s.im.next
  · exact hlt
  · have := h.fresh id (by omega)
    rw [this] at hx; cases hx

theorem Inv.map_ne_next {s : State} (h : Inv s) (k : Kind) : s.im.map k ≠ some s.im.next := by
  intro hm; have := h.map_lt hm; omega

/-- State after a `Watch` whose informer was started and rolled back again
(`b` = whether it had synced before the roll-back). -/
def failedStart (s : State) (k : Kind) (b : Bool) : State :=
  { s with im :=
      { map := s.im.map
        infs := fun i => if i = s.im.next then some { kind := k, stopped := true, synced := b } else s.im.infs i
        next := s.im.next + 1 } }

/-- State after a successful first `Watch` of kind `k` by `o`. -/
def okStart (s : State) (o : Owner) (k : Kind) : State :=
  { refs := fun k' => if k' = k then some [o] else s.refs k'
    im :=
      { map := fun k' => if k' = k then some s.im.next else s.im.map k'
        infs := fun i => if i = s.im.next then some { kind := k, stopped := false, synced := true } else s.im.infs i
        next := s.im.next + 1 }
    handlers := fun i => if i = s.im.next then true else s.handlers i }

theorem state_ext {a b : State} (h1 : a.refs = b.refs) (h2 : a.im.map = b.im.map)
    (h3 : a.im.infs = b.im.infs) (h4 : a.im.next = b.im.next) (h5 : a.handlers = b.handlers) : a = b := by
  cases a with | mk ar ai ah => cases b with | mk br bi bh =>
  cases ai; cases bi; simp_all

/-- `Watch` for a kind without reference entry (hence without map entry), by failure script. -/
theorem watch_unref (s : State) (o : Owner) (k : Kind) (f : Fail)
    (hr : s.refs k = none) (hm : s.im.map k = none) :
    watch s o k f = match f with
      | .get => (s, .err)
      | .sync => (failedStart s k false, .err)
      | .handler => (failedStart s k true, .err)
      | .ok => (okStart s o k, .ok) := by
  cases f
  · -- ok
    simp only [watch, hr, IM.get, hm]
    simp only [reduceCtorEq, ↓reduceIte]
    congr 1
    apply state_ext <;> simp [okStart, IM.markSynced, IM.start]
    funext i; by_cases hi : i = s.im.next <;> simp [hi]
  · -- get
    simp [watch, hr, IM.get, hm, IM.delete]
  · -- sync
    simp only [watch, hr, IM.get, hm]
    simp only [reduceCtorEq, ↓reduceIte]
    congr 1
    apply state_ext <;> simp [failedStart, IM.delete, IM.start]
    · funext k'; by_cases hk : k' = k <;> simp [hk, hm]
    · funext i; by_cases hi : i = s.im.next <;> simp [hi]
  · -- handler
    simp only [watch, hr, IM.get, hm]
    simp only [reduceCtorEq, ↓reduceIte]
    congr 1
    apply state_ext <;> simp [failedStart, IM.delete, IM.start, IM.markSynced]
    · funext k'; by_cases hk : k' = k <;> simp [hk, hm]
    · funext i; by_cases hi : i = s.im.next <;> simp [hi]

theorem inv_failedStart {s : State} (h : Inv s) (k : Kind) (b : Bool) : Inv (failedStart s k b) := by
  refine ⟨h.unref, h.ref, ?_, ?_, ?_⟩
  · intro id k'
    by_cases hi : id = s.im.next
    · subst hi
      simp only [Running, failedStart, ↓reduceIte]
      constructor
      · rintro ⟨x, hx, _, hs⟩; cases hx; simp at hs
      · intro hm; exact absurd hm (h.map_ne_next k')
    · have := h.run id k'
      simpa [Running, failedStart, hi] using this
  · intro id x hx hs
    by_cases hi : id = s.im.next
    · subst hi; simp [failedStart] at hx; subst hx; simp at hs
    · simp [failedStart, hi] at hx; exact h.synced id x hx hs
  · intro id hle
    have : id ≠ s.im.next := by simp [failedStart] at hle; omega
    simp [failedStart, this]; exact h.fresh id (by simp [failedStart] at hle; omega)

theorem inv_okStart {s : State} (h : Inv s) (o : Owner) (k : Kind) (hm : s.im.map k = none) :
    Inv (okStart s o k) := by
  refine ⟨?_, ?_, ?_, ?_, ?_⟩
  · intro k' hr
    by_cases hk : k' = k
    · subst hk; simp [okStart] at hr
    · simp [okStart, hk] at hr ⊢; exact h.unref k' hr
  · intro k' os hr
    by_cases hk : k' = k
    · subst hk; simp [okStart] at hr; subst hr; simp [okStart]
    · simp [okStart, hk] at hr ⊢
      obtain ⟨hne, id, hid, hh⟩ := h.ref k' os hr
      refine ⟨hne, ?_⟩
      have : id ≠ s.im.next := fun e => h.map_ne_next k' (e ▸ hid)
      simp [hid, this, hh]
  · intro id k'
    by_cases hi : id = s.im.next
    · subst hi
      by_cases hk : k' = k
      · subst hk; simp [Running, okStart]
      · simp only [Running, okStart, ↓reduceIte, hk]
        constructor
        · rintro ⟨x, hx, hkx, _⟩; cases hx; exact absurd hkx.symm hk
        · intro hm'; exact absurd hm' (h.map_ne_next k')
    · by_cases hk : k' = k
      · subst hk
        have h1 : ¬ Running s id k' := fun hr => by
          have := (h.run id k').1 hr; rw [hm] at this; cases this
        have hne : s.im.next ≠ id := fun e => hi e.symm
        simpa [Running, okStart, hi, hne] using h1
      · have := h.run id k'
        simpa [Running, okStart, hi, hk] using this
  · intro id x hx hs
    by_cases hi : id = s.im.next
    · subst hi; simp [okStart] at hx; subst hx; rfl
    · simp [okStart, hi] at hx; exact h.synced id x hx hs
  · intro id hle
    have hle' : s.im.next + 1 ≤ id := by simpa [okStart] using hle
    have : id ≠ s.im.next := by omega
    simp [okStart, this]; exact h.fresh id (by omega)

theorem insertOwner_ne_nil (o : Owner) (os : List Owner) : insertOwner o os ≠ [] := by
  unfold insertOwner; split
  · rename_i h; intro h'; simp [h'] at h
  · simp

/-- `Watch` for a kind that already has a reference entry only touches the owner set. -/
theorem inv_watch_ref {s : State} (h : Inv s) (o : Owner) (k : Kind) (os : List Owner)
    (hr : s.refs k = some os) : Inv (setRefs s k (some (insertOwner o os))) := by
  refine ⟨?_, ?_, h.run, h.synced, h.fresh⟩
  · intro k' hr'
    by_cases hk : k' = k
    · subst hk; simp [setRefs] at hr'
    · simp [setRefs, hk] at hr'; exact h.unref k' hr'
  · intro k' os' hr'
    by_cases hk : k' = k
    · subst hk; simp [setRefs] at hr'; subst hr'
      exact ⟨insertOwner_ne_nil o os, (h.ref k' os hr).2⟩
    · simp [setRefs, hk] at hr'; exact h.ref k' os' hr'

/-- Reads of a referenced kind find a synced informer: the informer map is not changed. -/
theorem get_ref {s : State} (h : Inv s) (k : Kind) (f : Fail) (os : List Owner)
    (hr : s.refs k = some os) : get s k f = (s, .ok) := by
  obtain ⟨_, id, hid, _⟩ := h.ref k os hr
  obtain ⟨x, hx, _, hs⟩ := (h.run id k).2 hid
  have hsy := h.synced id x hx hs
  simp [InformerMap.get, hr, IM.get, hid, IM.isSynced, hx, hsy]

theorem inv_free {s : State} (h : Inv s) (o : Owner) : Inv (free s o) := by
  refine ⟨?_, ?_, ?_, ?_, ?_⟩
  · intro k hr'
    cases hr : s.refs k with
    | none => simp [free, dropped, hr]; exact h.unref k hr
    | some os =>
      by_cases ho : o ∈ os
      · cases hf : rest o os with
        | nil => simp [free, dropped, hr, ho, hf]
        | cons a t => simp [free, hr, ho, hf] at hr'
      · simp [free, hr, ho] at hr'
  · intro k os' hr'
    cases hr : s.refs k with
    | none => simp [free, hr] at hr'
    | some os =>
      obtain ⟨hne, id, hid, hh⟩ := h.ref k os hr
      by_cases ho : o ∈ os
      · cases hf : rest o os with
        | nil => simp [free, hr, ho, hf] at hr'
        | cons a t =>
          simp [free, hr, ho, hf] at hr'; subst hr'
          exact ⟨by simp, id, by simp [free, dropped, hr, ho, hf, hid], hh⟩
      · simp [free, hr, ho] at hr'; subst hr'
        exact ⟨hne, id, by simp [free, dropped, hr, ho, hid], hh⟩
  · intro id k
    cases hx : s.im.infs id with
    | none =>
      have hnr : ¬ Running s id k := by rintro ⟨x, hx', _⟩; rw [hx] at hx'; cases hx'
      have hnm : s.im.map k ≠ some id := fun e => hnr ((h.run id k).2 e)
      constructor
      · rintro ⟨x', hx', _⟩; simp [free, hx] at hx'
      · intro hm'
        simp only [free] at hm'
        split at hm'
        · cases hm'
        · exact absurd hm' hnm
    | some x =>
      by_cases hc : (dropped s o x.kind && s.im.map x.kind == some id) = true
      · -- this informer is stopped by Free
        have hd : dropped s o x.kind = true := by simp at hc; exact hc.1
        have hmx : s.im.map x.kind = some id := by simp at hc; exact hc.2
        constructor
        · rintro ⟨x', hx', _, hs⟩
          simp [free, hx] at hx'
          rw [if_pos (by simpa using hc)] at hx'
          cases hx'; simp at hs
        · intro hm'
          simp only [free] at hm'
          split at hm'
          · cases hm'
          · rename_i hnd
            obtain ⟨x', hx', hk', _⟩ := (h.run id k).2 hm'
            rw [hx] at hx'; cases hx'
            rw [hk'] at hd; exact absurd hd hnd
      · have hrun : Running (free s o) id k ↔ Running s id k := by
          simp only [Running, free, hx]
          rw [if_neg (by simpa using hc)]
        rw [hrun, h.run id k]
        constructor
        · intro hm
          obtain ⟨x', hx', hk', _⟩ := (h.run id k).2 hm
          rw [hx] at hx'; cases hx'
          have hd : dropped s o k = false := by
            cases hdk : dropped s o k with
            | false => rfl
            | true => exact absurd (by simp [hk', hdk, hm]) hc
          simp [free, hd, hm]
        · intro hm'
          simp only [free] at hm'
          split at hm'
          · cases hm'
          · exact hm'
  · intro id x' hx' hs
    cases hx : s.im.infs id with
    | none => simp [free, hx] at hx'
    | some x =>
      simp only [free, hx] at hx'
      split at hx'
      · cases hx'; simp at hs
      · cases hx'; exact h.synced id _ hx hs
  · intro id hle
    have := h.fresh id (by simpa [free] using hle)
    simp [free, this]

/-- Every step preserves the invariant. -/
theorem step_inv (s : State) (op : Op) (h : Inv s) : Inv (step s op).1 := by
  cases op with
  | watch o k f =>
    simp only [step]
    cases hr : s.refs k with
    | some os =>
      have : watch s o k f = (setRefs s k (some (insertOwner o os)), .ok) := by simp [watch, hr]
      rw [this]; exact inv_watch_ref h o k os hr
    | none =>
      have hm := h.unref k hr
      rw [watch_unref s o k f hr hm]
      cases f
      · exact inv_okStart h o k hm
      · exact h
      · exact inv_failedStart h k false
      · exact inv_failedStart h k true
  | free o => exact inv_free h o
  | get k f =>
    simp only [step]
    cases hr : s.refs k with
    | none => simpa [InformerMap.get, hr] using h
    | some os => rw [get_ref h k f os hr]; exact h
  | owners k => simpa [step] using h

theorem run_inv (ops : List Op) : ∀ s, Inv s → Inv (run s ops) := by
  induction ops with
  | nil => intro s h; simpa [run]
  | cons op ops ih => intro s h; simpa [run] using ih _ (step_inv s op h)

/-- Every state reachable from the empty cache satisfies the invariant. -/
theorem reachable_inv (ops : List Op) : Inv (run init ops) := run_inv ops init inv_init

/-- Filtering `range n` by "is `a`" yields `[a]` for `a < n`. -/
theorem filter_range_eq (n a : Nat) (p : Nat → Bool) (hp : ∀ i, i < n → (p i = true ↔ i = a)) :
    (List.range n).filter p = if a < n then [a] else [] := by
  induction n with
  | zero => simp
  | succ n ih =>
    rw [List.range_succ, List.filter_append]
    have ih' := ih (fun i hi => hp i (by omega))
    rw [ih']
    by_cases ha : a < n
    · have : p n = false := by
        cases hpn : p n with
        | false => rfl
        | true => have := (hp n (by omega)).1 hpn; omega
      simp [ha, this, show a < n + 1 by omega]
    · by_cases hn : a = n
      · subst hn
        have : p a = true := (hp a (by omega)).2 rfl
        simp [this]
      · have : p n = false := by
          cases hpn : p n with
          | false => rfl
          | true => exact absurd ((hp n (by omega)).1 hpn) (fun e => hn e.symm)
        simp [ha, this, show ¬ a < n + 1 by omega]

theorem filter_range_nil (n : Nat) (p : Nat → Bool) (hp : ∀ i, i < n → p i = false) :
    (List.range n).filter p = [] := by
  rw [List.filter_eq_nil_iff]
  intro a ha; simp at ha; simp [hp a ha]

/-! ### The composed system refines the abstract cache model `Pko.Model.Cache` -/

/-- Abstraction: forget informer identities; keep "an entry exists, with/without handlers". -/
def absC (s : State) : Cache.State :=
  { refs := s.refs, infs := fun k => (s.im.map k).map s.handlers }

theorem absC_okStart {s : State} (h : Inv s) (o : Owner) (k : Kind) :
    absC (okStart s o k) = Cache.setRefs (Cache.setInf (absC s) k (some true)) k (some [o]) := by
  simp only [absC, okStart, Cache.setRefs, Cache.setInf]
  congr 1
  funext k'
  by_cases hk : k' = k
  · simp [hk]
  · simp only [hk, ↓reduceIte]
    cases hm : s.im.map k' with
    | none => rfl
    | some id =>
      have : id ≠ s.im.next := fun e => h.map_ne_next k' (e ▸ hm)
      simp [this]

theorem absC_setInf_none {s : State} (k : Kind) (hm : s.im.map k = none) :
    Cache.setInf (absC s) k none = absC s := by
  simp only [absC, Cache.setInf]
  congr 1
  funext k'
  by_cases hk : k' = k
  · subst hk; simp [hm]
  · simp [hk]

/-- One step of the composed system is one step of the abstract cache model. -/
theorem step_sim (s : State) (op : Op) (h : Inv s) :
    Cache.step (absC s) op = (absC (step s op).1, (step s op).2) := by
  cases op with
  | watch o k f =>
    simp only [step, Cache.step]
    cases hr : s.refs k with
    | some os =>
      have h1 : watch s o k f = (setRefs s k (some (insertOwner o os)), .ok) := by simp [watch, hr]
      have h2 : Cache.watch (absC s) o k f = (Cache.setRefs (absC s) k (some (insertOwner o os)), .ok) := by
        simp [Cache.watch, absC, hr]
      rw [h1, h2]; rfl
    | none =>
      have hm := h.unref k hr
      have hi : (absC s).infs k = none := by simp [absC, hm]
      have hr' : (absC s).refs k = none := hr
      rw [watch_unref s o k f hr hm]
      cases f
      · simp [Cache.watch, hr', hi, absC_okStart h]
      · simp [Cache.watch, hr', hi, absC_setInf_none k hm]
      · simp only [Cache.watch, hr', hi]
        simp [absC_setInf_none k hm]; rfl
      · simp only [Cache.watch, hr', hi]
        simp [absC_setInf_none k hm]; rfl
  | free o =>
    simp only [step, Cache.step]
    congr 1
    simp only [Cache.free, absC, free]
    congr 1
    funext k
    cases hr : s.refs k with
    | none => simp [dropped, hr]
    | some os =>
      by_cases ho : o ∈ os
      · cases hf : rest o os with
        | nil => simp [dropped, hr, ho, hf]
        | cons a t => simp [dropped, hr, ho, hf]
      · simp [dropped, hr, ho]
  | get k f =>
    simp only [step, Cache.step]
    cases hr : s.refs k with
    | none =>
      have hr' : (absC s).refs k = none := hr
      simp [InformerMap.get, Cache.get, hr, hr']
    | some os =>
      rw [get_ref h k f os hr]
      obtain ⟨_, id, hid, hh⟩ := h.ref k os hr
      have hr' : (absC s).refs k = some os := hr
      have hi : (absC s).infs k = some true := by simp [absC, hid, hh]
      simp [Cache.get, hr', hi]
  | owners k => simp [step, Cache.step]

theorem run_sim (ops : List Op) : ∀ s, Inv s → absC (run s ops) = Cache.run (absC s) ops := by
  induction ops with
  | nil => intro s _; rfl
  | cons op ops ih =>
    intro s h
    have hs := step_sim s op h
    simp only [run, Cache.run, List.foldl_cons]
    have : (Cache.step (absC s) op).1 = absC (step s op).1 := by rw [hs]
    rw [this]
    exact ih _ (step_inv s op h)

theorem absC_init : absC init = Cache.init := by
  simp [absC, init, IM.init, Cache.init]

end Pko.Lemmas.C12IM
