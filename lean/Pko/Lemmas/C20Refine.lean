/-
C20: refinement lemmas - one model step is one specification step (`step_refines`), observed
identically (`obs_refines`); the simulation is lifted to the scenario runner in `C20Trace`.
-/
import Pko.Model.ReqMgr
import Pko.Model.ReqMgrSpec
import Pko.Model.ReqMgrTrace
import Pko.Lemmas.C20Sends
import Pko.Lemmas.C20Inv
namespace Pko.Lemmas.C20Refine
open Pko.Model Pko.Model.ReqMgr Pko.Model.ReqMgrTrace Pko.Lemmas.C20Sends Pko.Lemmas.C20Inv
open Pko.Model.ReqMgrSpec (Spec abs)

theorem step_refines (s : State) (op : Op) (h : RInv s) :
    abs (step s op) = ReqMgrSpec.step (abs s) op := by
  cases op with
  | request c img =>
    cases hi : s.inFlight img with
    | none =>
      simp only [step, enabled, ↓reduceIte, apply, request, abs, ReqMgrSpec.step, hi]
      simp
      constructor <;> funext i <;> by_cases hii : i = img <;> simp [hii]
    | some ws =>
      simp only [step, enabled, ↓reduceIte, apply, request, abs, ReqMgrSpec.step, hi]
      simp
      rfl
  | complete img res =>
    cases hi : s.inFlight img with
    | none =>
      simp [step, enabled, h.absent img hi, abs, ReqMgrSpec.step, hi]
    | some ws =>
      have hp := h.present img ws hi
      simp only [step, enabled, hp.1, Nat.zero_lt_one, decide_true, ↓reduceIte, apply,
        complete, completeOut, abs, ReqMgrSpec.step, hi, Option.getD_some]
      congr 1
      funext r
      by_cases hr : r ∈ ws
      · obtain ⟨c, hc⟩ := deliver_mem (d := s.delivered) (res := res) (t := s.nextTok) hp.2.2 hr
        simp [hr, hc]
      · simp [hr, deliver_not_mem hr]

/-- One step observed on the model (in any state satisfying the invariant) is the observation the
specification prescribes for the abstracted state. -/
theorem obs_refines (n : Nat) (s : State) (op : Op) (h : RInv s) :
    ReqMgr.obsStep n s op = ReqMgrSpec.obsStep n (abs s) op := by
  have h' : RInv (step s op) := step_inv s op h
  have href := step_refines s op h
  have hen : enabled s op = ReqMgrSpec.enabled (abs s) op := by
    cases op with
    | request c img => rfl
    | complete img res =>
      cases hi : s.inFlight img with
      | none => simp [enabled, ReqMgrSpec.enabled, abs, hi, h.absent img hi]
      | some ws => simp [enabled, ReqMgrSpec.enabled, abs, hi, (h.present img ws hi).1]
  simp only [ReqMgr.obsStep, ReqMgrSpec.obsStep, ← href, hen]
  congr 1
  · -- in flight: the goroutine counter is 1 exactly for the images with an entry
    apply List.map_congr_left
    intro i _
    cases hi : (step s op).inFlight i with
    | none => simp [abs, hi, h'.absent i hi]
    | some ws => simp [abs, hi, (h'.present i ws hi).1]
  · cases op with
    | request c img => rfl
    | complete img res =>
      cases hi : s.inFlight img with
      | none => simp [ReqMgrSpec.enabled, abs, hi]
      | some ws =>
        simp only [ReqMgrSpec.enabled, abs, hi, Option.isSome_some, ↓reduceIte, completeOut,
          Option.getD_some]
        exact sends_obs_returned s.callerOf res ws s.nextTok
  · cases op with
    | request c img => simp [aliasCount]
    | complete img res =>
      by_cases he : ReqMgrSpec.enabled (abs s) (.complete img res) = true
      · simp only [he, ↓reduceIte]
        apply aliasCount_eq_zero
        rw [List.filterMap_map]
        exact sends_toks_nodup res _ _
      · simp [he, aliasCount]

/-- Simulation relation between the two machines a scenario is run on. -/
def Sim (s : State) (sp : Spec) : Prop := RInv s ∧ abs s = sp

theorem machine_view (s : State) : modelMachine.view s = specMachine.view (abs s) := rfl

theorem machine_obs (n : Nat) (s : State) (op : Op) (h : RInv s) :
    modelMachine.obs n s op = specMachine.obs n (abs s) op := obs_refines n s op h

theorem machine_step (s : State) (op : Op) (h : RInv s) :
    Sim (modelMachine.step s op) (specMachine.step (abs s) op) :=
  ⟨step_inv s op h, step_refines s op h⟩

end Pko.Lemmas.C20Refine
