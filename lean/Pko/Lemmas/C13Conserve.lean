/-
Helper lemmas for the conservation and monitor theorems of C13.
-/
import Pko.Lemmas.C13Main
import Pko.Drv.C13
namespace Pko.Lemmas.C13
open Pko.Model.Render Pko.Model.RenderSpec List

theorem filterMap_sublist_self {α : Type} (c : α → Bool) (l : List α) :
    (l.filterMap fun n => if c n then some n else none) <+ l := by
  induction l with
  | nil => simp
  | cons a r ih =>
    simp only [filterMap_cons]
    cases c a
    · exact Sublist.cons _ ih
    · exact Sublist.cons_cons _ ih

theorem filter_or_perm {α : Type} (p q : α → Bool) (l : List α) (hd : ∀ x, p x = true → q x = false) :
    l.filter (fun x => p x || q x) ~ l.filter p ++ l.filter q := by
  induction l with
  | nil => simp
  | cons x r ih =>
    simp only [filter_cons]
    cases hp : p x
    · cases hq : q x
      · simpa using ih
      · simp only [Bool.or_true, ↓reduceIte, Bool.false_eq_true]
        exact (Perm.cons x ih).trans perm_middle.symm
    · simp only [hd x hp, Bool.or_false, ↓reduceIte, Bool.false_eq_true, cons_append]
      exact Perm.cons x ih

/-- Grouping by phase, in the order of the (distinct) phase names, is a rearrangement of the objects
whose phase is named. -/
theorem groups_perm (phases : List String) (hnd : phases.Nodup) (objs : List Obj) :
    ((specPhasesOf phases objs).map fun p => p.objs).flatten
      ~ (objs.filter fun o => phases.contains (phaseOf o)).map finalize := by
  induction phases with
  | nil => simp [specPhasesOf]
  | cons n r ih =>
    simp only [nodup_cons] at hnd
    have ih := ih hnd.2
    have hsplit : (objs.filter fun o => (n :: r).contains (phaseOf o))
        ~ (objs.filter fun o => phaseOf o == n) ++ objs.filter fun o => r.contains (phaseOf o) := by
      have : (fun o : Obj => (n :: r).contains (phaseOf o))
          = fun o => (phaseOf o == n) || r.contains (phaseOf o) := by
        funext o; exact contains_cons
      rw [this]
      apply filter_or_perm
      intro o ho
      rw [beq_iff_eq] at ho
      rw [ho]
      exact Bool.eq_false_iff.mpr (fun hc => hnd.1 (contains_iff_mem.mp hc))
    refine Perm.trans ?_ (hsplit.map finalize).symm
    rw [map_append]
    simp only [specPhasesOf, filterMap_cons] at ih ⊢
    split
    · rename_i h
      have hz : map finalize (filter (fun o => phaseOf o == n) objs) = [] := by
        split at h
        · simp at h
        · rename_i hl; simpa using hl
      rw [hz]; simpa using ih
    · rename_i b h
      split at h
      · simp at h; subst h
        simp only [map_cons, flatten_cons]
        exact Perm.append (Perm.refl _) ih
      · simp at h

theorem lookup_append_right {β : Type} (a b : List (String × β)) (k : String)
    (h : ∀ e ∈ a, (e.1 == k) = false) : (a ++ b).lookup k = b.lookup k := by
  induction a with
  | nil => rfl
  | cons e r ih =>
    obtain ⟨k', v⟩ := e
    have hk : (k == k') = false := by
      have := h (k', v) (by simp)
      rw [Bool.eq_false_iff] at this ⊢
      intro hh; exact this (by rw [beq_iff_eq] at hh ⊢; exact hh.symm)
    simp only [cons_append, lookup_cons, hk]
    exact ih (fun e he => h e (mem_cons_of_mem _ he))

/-- every surviving object is a (label-merged, non-empty) document of some file that is read -/
theorem mem_survivors {pkg : Pkg} {o : Obj} (h : o ∈ survivors pkg) :
    ∃ e ∈ parsed pkg, o ∈ e.2 ∧ kept o = true := by
  simp only [survivors, mem_flatten, mem_map] at h
  obtain ⟨l, ⟨p, _, hl⟩, hol⟩ := h
  subst hl
  cases hlk : (filtered pkg).lookup p with
  | none => simp [hlk] at hol
  | some v =>
    simp only [hlk, Option.getD_some] at hol
    have hm := mem_of_lookup hlk
    simp only [filtered, mem_filterMap] at hm
    obtain ⟨e, he, hev⟩ := hm
    split at hev
    · simp at hev
      obtain ⟨_, hv⟩ := hev
      subst hv
      exact ⟨e, he, (mem_filter.mp hol).1, (mem_filter.mp hol).2⟩
    · simp at hev

open Pko.Drv.C13 in
theorem check_self (o : Out) : check o o = none := by
  cases o <;> simp [check]

/-- the multiset difference of a list and a rearrangement of it is empty -/
theorem msub_perm {a b : List Int} (h : a ~ b) : Pko.Drv.C13.msub a b = [] := by
  unfold Pko.Drv.C13.msub
  induction b generalizing a with
  | nil => simpa using h.eq_nil
  | cons x r ih =>
    simp only [foldl_cons]
    apply ih
    have := h.erase x
    simpa using this

/-- the ids the monitor reads off the model's printed phases are the ids of the phases' objects -/
theorem idsOf_toOut (name inst : String) (ps : List Phase) :
    Pko.Drv.C13.idsOf (ps.map fun p =>
        { name := Pko.Drv.C13.esc p.name, objs := p.objs.map (Pko.Drv.C13.toOObj name inst) })
      = ((ps.map fun p => p.objs).flatten).map fun o => o.id := by
  induction ps with
  | nil => rfl
  | cons p r ih =>
    simp only [Pko.Drv.C13.idsOf, map_cons, flatten_cons, map_append, map_map] at ih ⊢
    rw [ih]
    rfl

/-- switching validation off removes a reason to fail, never adds one; `survivors` does not look at it -/
theorem mustFail_novalidate {pkg : Pkg} (h : mustFail pkg = none) :
    mustFail { pkg with validate := false } = none := by
  have h1 : candidates { pkg with validate := false } = candidates pkg := rfl
  have h2 : parsed { pkg with validate := false } = parsed pkg := rfl
  have h3 : entryBroken { pkg with validate := false } = entryBroken pkg := rfl
  simp only [mustFail, h1, h2, h3] at h ⊢
  split at h
  · simp at h
  rename_i c1
  split at h
  · simp at h
  rename_i c2
  split at h
  · simp at h
  rename_i c3
  split at h
  · simp at h
  rename_i c4
  split at h
  · simp at h
  split at h
  · simp at h
  rename_i c6
  split at h
  · simp at h
  rename_i c7
  rw [if_neg c1, if_neg c2, if_neg c3, if_neg c4]
  simp only [Bool.false_and, Bool.false_eq_true, if_false]
  rw [if_neg c6, if_neg c7]

theorem rot_perm {α : Type} (k : Nat) (l : List α) : (Pko.Drv.C13.rot k l) ~ l := by
  unfold Pko.Drv.C13.rot
  exact perm_append_comm.trans (by rw [take_append_drop])


end Pko.Lemmas.C13
