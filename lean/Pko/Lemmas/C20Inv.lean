/-
C20: the representation invariant of the request manager model and its preservation by
`handleRequest` / `handleResponse` (used by `Pko.Props.C20`).
-/
import Pko.Model.ReqMgr
import Pko.Lemmas.C20Sends
namespace Pko.Lemmas.C20Inv
open Pko.Model.ReqMgr Pko.Lemmas.C20Sends

/-- Representation invariant of the request manager. -/
structure RInv (s : State) : Prop where
  /-- no table entry ⇒ no pull goroutine -/
  absent : ∀ img, s.inFlight img = none → s.running img = 0
  /-- a table entry ⇒ exactly one pull goroutine, at least one receiver, no receiver twice -/
  present : ∀ img rs, s.inFlight img = some rs → s.running img = 1 ∧ rs ≠ [] ∧ rs.Nodup
  /-- registered receivers exist and have not been sent anything yet -/
  waiting : ∀ img rs r, s.inFlight img = some rs → r ∈ rs → r < s.nextRecv ∧ s.delivered r = []
  /-- a receiver is registered under one image only -/
  disjoint : ∀ img img' rs rs' r, s.inFlight img = some rs → s.inFlight img' = some rs' →
    r ∈ rs → r ∈ rs' → img = img'
  /-- channels not yet created carry nothing -/
  unused : ∀ r, s.nextRecv ≤ r → s.delivered r = []
  /-- at most one send per channel (the buffer of one is enough) -/
  once : ∀ r, (s.delivered r).length ≤ 1
  /-- every package handed out was allocated -/
  tokBound : ∀ r resp t, resp ∈ s.delivered r → resp.copy = some t → t < s.nextTok
  /-- no package object has been handed to two receivers -/
  tokUnique : ∀ r r' resp resp' t, resp ∈ s.delivered r → resp' ∈ s.delivered r' →
    resp.copy = some t → resp'.copy = some t → r = r'

theorem inv_init : RInv init := by
  constructor <;> simp [init]

theorem mem_deliver {d : Recv → List Response} {out : List (Recv × Response)} {r : Recv} {resp : Response} :
    resp ∈ deliver d out r ↔ resp ∈ d r ∨ ∃ p ∈ out, p.1 = r ∧ p.2 = resp := by
  simp only [deliver, List.mem_append, List.mem_map, List.mem_filter, decide_eq_true_eq]
  constructor
  · rintro (h | ⟨p, ⟨hp, hr⟩, he⟩)
    · exact Or.inl h
    · exact Or.inr ⟨p, hp, hr, he⟩
  · rintro (h | ⟨p, hp, hr, he⟩)
    · exact Or.inl h
    · exact Or.inr ⟨p, ⟨hp, hr⟩, he⟩

theorem deliver_not_mem {d : Recv → List Response} {res : Result} {rs : List Recv} {t : Nat} {r : Recv}
    (h : r ∉ rs) : deliver d (sends res rs t) r = d r := by
  simp [deliver, filter_sends_not_mem h]

theorem deliver_mem {d : Recv → List Response} {res : Result} {rs : List Recv} {t : Nat} {r : Recv}
    (hnd : rs.Nodup) (h : r ∈ rs) :
    ∃ c, deliver d (sends res rs t) r = d r ++ [{ res := res, copy := c }] := by
  obtain ⟨c, hc⟩ := filter_sends_mem (res := res) (t := t) hnd h
  exact ⟨c, by simp [deliver, hc]⟩

theorem request_inv (s : State) (c : Caller) (img : Image) (h : RInv s) : RInv (request s c img) := by
  -- the receivers registered for `img` before the call
  have hold : ∀ r ∈ (s.inFlight img).getD [], r < s.nextRecv ∧ s.delivered r = [] := by
    intro r hr
    cases hi : s.inFlight img with
    | none => simp [hi] at hr
    | some rs => simp only [hi, Option.getD_some] at hr; exact h.waiting img rs r hi hr
  have hnd : ((s.inFlight img).getD [] ++ [s.nextRecv]).Nodup := by
    cases hi : s.inFlight img with
    | none => simp
    | some rs =>
      simp only [Option.getD_some]
      have hn : s.nextRecv ∉ rs := fun hm => Nat.lt_irrefl _ (h.waiting img rs _ hi hm).1
      have hnd0 := (h.present img rs hi).2.2
      rw [List.nodup_append]
      refine ⟨hnd0, by simp, ?_⟩
      intro a ha b hb
      simp only [List.mem_singleton] at hb
      subst hb; intro hab; subst hab; exact hn ha
  constructor
  · intro i hi
    by_cases hii : i = img
    · subst hii; simp [request] at hi
    · simp only [request, hii, ↓reduceIte] at hi ⊢; exact h.absent i hi
  · intro i rs hi
    by_cases hii : i = img
    · subst hii
      simp only [request, ↓reduceIte, Option.some.injEq] at hi ⊢
      subst hi
      refine ⟨?_, by simp, hnd⟩
      cases hi : s.inFlight i with
      | none => simp [h.absent i hi]
      | some rs0 => simp [(h.present i rs0 hi).1]
    · simp only [request, hii, ↓reduceIte] at hi ⊢; exact h.present i rs hi
  · intro i rs r hi hr
    by_cases hii : i = img
    · subst hii
      simp only [request, ↓reduceIte, Option.some.injEq] at hi ⊢
      subst hi
      rcases List.mem_append.mp hr with hr | hr
      · have := hold r hr; exact ⟨Nat.lt_succ_of_lt this.1, this.2⟩
      · simp only [List.mem_singleton] at hr; subst hr
        exact ⟨Nat.lt_succ_self _, h.unused _ (Nat.le_refl _)⟩
    · simp only [request, hii, ↓reduceIte] at hi ⊢
      have := h.waiting i rs r hi hr
      exact ⟨Nat.lt_succ_of_lt this.1, this.2⟩
  · intro i i' rs rs' r hi hi' hr hr'
    -- a receiver registered before the call, under image `j`, is not the new one and, if it is
    -- among `img`'s old receivers, `j = img`
    have key : ∀ j rsj, j ≠ img → s.inFlight j = some rsj → r ∈ rsj →
        r ∈ (s.inFlight img).getD [] ++ [s.nextRecv] → False := by
      intro j rsj hj hsj hrj hrn
      rcases List.mem_append.mp hrn with hrn | hrn
      · cases hi0 : s.inFlight img with
        | none => simp [hi0] at hrn
        | some rs0 =>
          simp only [hi0, Option.getD_some] at hrn
          exact hj (h.disjoint j img rsj rs0 r hsj hi0 hrj hrn)
      · simp only [List.mem_singleton] at hrn; subst hrn
        exact Nat.lt_irrefl _ (h.waiting j rsj _ hsj hrj).1
    by_cases hii : i = img <;> by_cases hii' : i' = img
    · rw [hii, hii']
    · subst hii
      simp only [request, ↓reduceIte, Option.some.injEq, hii'] at hi hi'
      subst hi
      exact (key i' rs' hii' hi' hr' hr).elim
    · subst hii'
      simp only [request, ↓reduceIte, Option.some.injEq, hii] at hi hi'
      subst hi'
      exact (key i rs hii hi hr hr').elim
    · simp only [request, hii, hii', ↓reduceIte] at hi hi'
      exact h.disjoint i i' rs rs' r hi hi' hr hr'
  · intro r hr
    simp only [request] at hr ⊢
    exact h.unused r (Nat.le_of_succ_le hr)
  · intro r; simpa [request] using h.once r
  · intro r resp t; simpa [request] using h.tokBound r resp t
  · intro r r' resp resp' t; simpa [request] using h.tokUnique r r' resp resp' t

theorem complete_inv (s : State) (img : Image) (res : Result) (h : RInv s) : RInv (complete s img res) := by
  -- facts about the receivers the loop ranges over (`nil` if the entry is absent)
  have hnd : ((s.inFlight img).getD []).Nodup := by
    cases hi : s.inFlight img with
    | none => simp
    | some rs => simpa using (h.present img rs hi).2.2
  have hw : ∀ r ∈ (s.inFlight img).getD [], r < s.nextRecv ∧ s.delivered r = [] := by
    intro r hr
    cases hi : s.inFlight img with
    | none => simp [hi] at hr
    | some rs => simp only [hi, Option.getD_some] at hr; exact h.waiting img rs r hi hr
  have hdj : ∀ i rs' r, i ≠ img → s.inFlight i = some rs' → r ∈ rs' → r ∉ (s.inFlight img).getD [] := by
    intro i rs' r hi hs hr hm
    cases hi0 : s.inFlight img with
    | none => simp [hi0] at hm
    | some rs0 =>
      simp only [hi0, Option.getD_some] at hm
      exact hi (h.disjoint i img rs' rs0 r hs hi0 hr hm)
  have hrun : s.running img ≤ 1 := by
    cases hi : s.inFlight img with
    | none => simp [h.absent img hi]
    | some rs => simp [(h.present img rs hi).1]
  constructor
  · intro i hi
    by_cases hii : i = img
    · subst hii; simp only [complete, ↓reduceIte]; omega
    · simp only [complete, hii, ↓reduceIte] at hi ⊢; exact h.absent i hi
  · intro i rs hi
    by_cases hii : i = img
    · subst hii; simp [complete] at hi
    · simp only [complete, hii, ↓reduceIte] at hi ⊢; exact h.present i rs hi
  · intro i rs r hi hr
    by_cases hii : i = img
    · subst hii; simp [complete] at hi
    · simp only [complete, hii, ↓reduceIte] at hi ⊢
      have := h.waiting i rs r hi hr
      refine ⟨this.1, ?_⟩
      simp only [completeOut]
      rw [deliver_not_mem (hdj i rs r hii hi hr)]; exact this.2
  · intro i i' rs rs' r hi hi' hr hr'
    by_cases hii : i = img
    · subst hii; simp [complete] at hi
    · by_cases hii' : i' = img
      · subst hii'; simp [complete] at hi'
      · simp only [complete, hii, hii', ↓reduceIte] at hi hi'
        exact h.disjoint i i' rs rs' r hi hi' hr hr'
  · intro r hr
    simp only [complete, completeOut] at hr ⊢
    have : r ∉ (s.inFlight img).getD [] := fun hm => Nat.lt_irrefl _ (Nat.lt_of_lt_of_le (hw r hm).1 hr)
    rw [deliver_not_mem this]; exact h.unused r hr
  · intro r
    simp only [complete, completeOut]
    by_cases hm : r ∈ (s.inFlight img).getD []
    · obtain ⟨c, hc⟩ := deliver_mem (d := s.delivered) (res := res) (t := s.nextTok) hnd hm
      rw [hc, (hw r hm).2]; simp
    · rw [deliver_not_mem hm]; exact h.once r
  · intro r resp t hresp ht
    simp only [complete, completeOut] at hresp ⊢
    rcases mem_deliver.mp hresp with hresp | ⟨p, hp, _, he⟩
    · exact Nat.lt_of_lt_of_le (h.tokBound r resp t hresp ht) (sendsEnd_ge _ _ _)
    · subst he; exact (sends_tok_range hp ht).2
  · intro r r' resp resp' t hresp hresp' ht ht'
    simp only [complete, completeOut] at hresp hresp'
    rcases mem_deliver.mp hresp with hresp | ⟨p, hp, hpr, he⟩ <;>
      rcases mem_deliver.mp hresp' with hresp' | ⟨q, hq, hqr, he'⟩
    · exact h.tokUnique r r' resp resp' t hresp hresp' ht ht'
    · subst he'
      have h1 := h.tokBound r resp t hresp ht
      have h2 := (sends_tok_range hq ht').1
      exact absurd h1 (Nat.not_lt.mpr h2)
    · subst he
      have h1 := h.tokBound r' resp' t hresp' ht'
      have h2 := (sends_tok_range hp ht).1
      exact absurd h1 (Nat.not_lt.mpr h2)
    · subst he; subst he'
      have := sends_tok_inj hnd hp hq ht ht'
      rw [← hpr, ← hqr, this]

theorem step_inv (s : State) (op : Op) (h : RInv s) : RInv (step s op) := by
  unfold step
  split
  · cases op with
    | request c img => exact request_inv s c img h
    | complete img res => exact complete_inv s img res h
  · exact h

/-- Every state reachable from any state satisfying the invariant satisfies it. -/
theorem run_inv (ops : List Op) (s : State) (h : RInv s) : RInv (run s ops) := by
  induction ops generalizing s with
  | nil => simpa [run]
  | cons op ops ih => simpa [run] using ih _ (step_inv s op h)

theorem reachable_inv (ops : List Op) : RInv (run init ops) := run_inv ops init inv_init

end Pko.Lemmas.C20Inv
