/-
C20: the simulation between the model of the Go code and the specification, lifted to the
scenario runner `ReqMgrTrace` (ordinary steps: record for record; parked broadcasts: once they
are over, `collapse`).
-/
import Pko.Model.ReqMgr
import Pko.Model.ReqMgrSpec
import Pko.Model.ReqMgrFine
import Pko.Model.ReqMgrTrace
import Pko.Lemmas.C20Sends
import Pko.Lemmas.C20Inv
import Pko.Lemmas.C20Refine
import Pko.Lemmas.C20Fine
namespace Pko.Lemmas.C20Trace
open Pko.Model Pko.Model.ReqMgr Pko.Model.ReqMgrTrace Pko.Lemmas.C20Sends Pko.Lemmas.C20Inv
open Pko.Lemmas.C20Refine Pko.Lemmas.C20Fine
open Pko.Model.ReqMgrSpec (Spec abs)

theorem run_refines_from (ops : List Op) (s : State) (h : RInv s) :
    abs (run s ops) = ReqMgrSpec.run (abs s) ops := by
  induction ops generalizing s with
  | nil => rfl
  | cons op ops ih =>
    simp only [run, ReqMgrSpec.run, List.foldl_cons]
    rw [← step_refines s op h]
    exact ih _ (step_inv s op h)

/-- in flight as the specification sees it = the goroutine counter, in states satisfying the
invariant -/
theorem inflight_view (s : State) (h : RInv s) (n : Nat) :
    ((List.range n).map fun j => if ((abs s).pull j).isSome then 1 else 0) = (List.range n).map s.running := by
  apply List.map_congr_left
  intro i _
  cases hi : s.inFlight i with
  | none => simp [abs, hi, h.absent i hi]
  | some ws => simp [abs, hi, (h.present i ws hi).1]

/-- A parked completion: once it is over the model of the Go code shows what the specification
prescribes, and ends in the corresponding state. -/
theorem park_sim (n : Nat) (s : State) (h : RInv s) (i : Image) (res : Result) (k : Nat)
    (mid : List (Caller × Image)) (hp : ((abs s).pull i).isSome) :
    collapse (parkModel n s i res k mid).1 = collapse (parkSpec n (abs s) i res k mid).1 ∧
    Sim (parkModel n s i res k mid).2 (parkSpec n (abs s) i res k mid).2 := by
  have hp' : (s.inFlight i).isSome := hp
  obtain ⟨ws, hi⟩ := Option.isSome_iff_exists.mp hp'
  have hst := parkModel_state n s h i res k mid ws hi
  have hinv : RInv (parkModel n s i res k mid).2 := by
    rw [hst]; exact run_inv _ _ (step_inv s _ h)
  have habs : abs (parkModel n s i res k mid).2 = (parkSpec n (abs s) i res k mid).2 := by
    rw [hst, run_refines_from _ _ (step_inv s _ h), step_refines s _ h]
    rfl
  refine ⟨?_, hinv, habs⟩
  rw [parkModel_collapse n s h i res k mid ws hi]
  simp only [parkSpec, collapse]
  have h2 := habs
  simp only [parkSpec] at h2
  rw [← h2, inflight_view _ hinv]
  have hpull : (abs s).pull i = some ws := hi
  simp only [hpull, Option.getD_some]
  rfl

theorem stepRec_sim (n : Nat) (s : State) (sp : Spec) (st : SStep) (h : Sim s sp) :
    collapse (stepRec n modelMachine s st).1 = collapse (stepRec n specMachine sp st).1 ∧
    Sim (stepRec n modelMachine s st).2 (stepRec n specMachine sp st).2 := by
  obtain ⟨hi, ha⟩ := h
  subst ha
  cases st with
  | req c i =>
    simp only [stepRec, machine_view, machine_obs n s _ hi]
    split
    · exact ⟨rfl, hi, rfl⟩
    · exact ⟨rfl, machine_step s (.request c i) hi⟩
  | done i e =>
    simp only [stepRec, machine_view, machine_obs n s _ hi]
    exact ⟨trivial, machine_step s _ hi⟩
  | park i e k mid =>
    simp only [stepRec, machine_view]
    by_cases hp : ((specMachine.view (abs s)).pull i).isSome = true
    · simp only [hp, ↓reduceIte]
      exact park_sim n s hi i _ k mid hp
    · simp only [hp]
      exact ⟨rfl, hi, rfl⟩
  | cancel c => exact ⟨rfl, hi, rfl⟩
  | bad => exact ⟨rfl, hi, rfl⟩

theorem runSteps_sim (n : Nat) (sts : List SStep) (s : State) (sp : Spec) (h : Sim s sp) :
    (runSteps n modelMachine s sts).1.map collapse = (runSteps n specMachine sp sts).1.map collapse ∧
    Sim (runSteps n modelMachine s sts).2 (runSteps n specMachine sp sts).2 := by
  induction sts generalizing s sp with
  | nil => exact ⟨rfl, h⟩
  | cons st sts ih =>
    have h1 := stepRec_sim n s sp st h
    have h2 := ih _ _ h1.2
    simp only [runSteps, List.map_cons]
    exact ⟨by rw [h1.1, h2.1], h2.2⟩

theorem drain_sim (n : Nat) (is : List Image) (s : State) (sp : Spec) (h : Sim s sp) :
    (drain n modelMachine s is).1.map collapse = (drain n specMachine sp is).1.map collapse ∧
    Sim (drain n modelMachine s is).2 (drain n specMachine sp is).2 := by
  induction is generalizing s sp with
  | nil => exact ⟨rfl, h⟩
  | cons i is ih =>
    obtain ⟨hi, ha⟩ := h
    subst ha
    simp only [drain, machine_view, machine_obs n s _ hi]
    split
    · have h2 := ih _ _ (machine_step s (.complete i (.pkg (payload i ((specMachine.view (abs s)).started i)))) hi)
      exact ⟨by simp only [List.map_cons]; rw [h2.1], h2.2⟩
    · exact ih s (abs s) ⟨hi, rfl⟩

end Pko.Lemmas.C20Trace
