/-
Helper lemmas for property C18: preflight = admissibility, the source loop only ever changes the
cache label of objects, and its result is `specGather` of the objects it started from.
-/
import Pko.Model.Template
import Pko.Model.TemplateSpec

namespace Pko.Lemmas.C18
open Pko.Model.Template Pko.Model.TemplateSpec

variable {T : Type}

/-- The preflight composition of the ObjectTemplate controller rejects exactly the references
that are not admissible. -/
theorem preflight_iff_admissible (scope : String → Scope) (ownerNs kind objNs : String) (h : Bool) :
    preflightViolates scope ownerNs kind objNs h = !admissible scope ownerNs kind objNs h := by
  unfold preflightViolates admissible
  cases hs : scope kind <;> cases h <;> by_cases h1 : ownerNs = "" <;> by_cases h2 : objNs = ""
    <;> by_cases h3 : objNs = ownerNs <;> simp_all

/-- Two object maps that agree up to the cache label. -/
def LabelEq (f g : Objs) : Prop := ∀ k, (f k).map seen = (g k).map seen

theorem LabelEq.refl (f : Objs) : LabelEq f f := fun _ => rfl

theorem LabelEq.trans {f g h : Objs} (a : LabelEq f g) (b : LabelEq g h) : LabelEq f h :=
  fun k => (a k).trans (b k)

theorem LabelEq.symm {f g : Objs} (a : LabelEq f g) : LabelEq g f := fun k => (a k).symm

theorem seen_seen (o : Obj) : seen (seen o) = seen o := rfl

theorem LabelEq.data {f g : Objs} (a : LabelEq f g) (k : Key) :
    (f k).map (·.data) = (g k).map (·.data) := by
  have := a k
  cases hf : f k <;> cases hg : g k <;> simp_all [seen]

theorem labelEq_set_label {f : Objs} {k : Key} {o : Obj} (h : f k = some o) :
    LabelEq f (f.set k (some { o with label := true })) := by
  intro k'
  by_cases hk : k' = k
  · subst hk; simp [Objs.set, h, seen]
  · simp [Objs.set, hk]


theorem seen_of_label {o : Obj} (h : o.label = true) : seen o = o := by
  cases o; simp_all [seen]

/-- `specGather` only looks at the objects its sources point at, and only up to the label. -/
theorem specGather_congr (L : Leaves T) (spec : Spec T) (f g : Objs) :
    ∀ (srcs : List Source) (cfg : Config) (retry : Bool),
    (∀ src ∈ srcs, (f (srcKey L spec src)).map seen = (g (srcKey L spec src)).map seen) →
    specGather L spec f srcs cfg retry = specGather L spec g srcs cfg retry := by
  intro srcs
  induction srcs with
  | nil => intro cfg retry _; simp [specGather]
  | cons src rest ih =>
    intro cfg retry h
    have hh := h src (by simp)
    have hr : ∀ s ∈ rest, (f (srcKey L spec s)).map seen = (g (srcKey L spec s)).map seen :=
      fun s hs => h s (by simp [hs])
    simp only [specGather]
    split
    · cases hf : f (srcKey L spec src) <;> cases hg : g (srcKey L spec src) <;> simp_all
      split
      · rfl
      · rename_i c _; cases retry <;> simp [(ih c).1, (ih c).2]
    · rfl

/-- What `getSourceObject` does, in terms of the specification vocabulary. -/
theorem getSource_spec (L : Leaves T) (spec : Spec T) (objs : Objs) (src : Source) :
    LabelEq objs (getSource L spec objs src).1 ∧
    (getSource L spec objs src).2.2.2 =
      (if admissible L.scope spec.ns src.kind src.ns false then
        match objs (srcKey L spec src) with
        | none => if src.optional then SrcRes.skipped else SrcRes.srcErr true
        | some o => SrcRes.found (srcKey L spec src) (seen o)
      else SrcRes.srcErr false) ∧
    (∀ x ∈ (getSource L spec objs src).2.1,
      x = ⟨.merge, srcKey L spec src, false⟩ ∧ admissible L.scope spec.ns src.kind src.ns false = true) ∧
    (getSource L spec objs src).2.2.1 =
      (if admissible L.scope spec.ns src.kind src.ns false then [src.kind] else []) := by
  unfold getSource
  rw [preflight_iff_admissible]
  cases ha : admissible L.scope spec.ns src.kind src.ns false
  · simp [LabelEq.refl]
  · simp only [Bool.not_true, Bool.false_eq_true, if_false, if_true]
    cases ho : objs (srcKey L spec src) with
    | none => cases src.optional <;> simp [LabelEq.refl]
    | some o =>
      cases hl : o.label
      · simp [hl, labelEq_set_label ho, seen]
      · simp [hl, LabelEq.refl, seen_of_label hl]


/-- `g` is `f` with the cache label added to some objects. -/
def AddsLabels (f g : Objs) : Prop := ∀ k, g k = f k ∨ ∃ o, f k = some o ∧ g k = some (seen o)

theorem AddsLabels.refl (f : Objs) : AddsLabels f f := fun _ => Or.inl rfl

theorem AddsLabels.trans {f g h : Objs} (a : AddsLabels f g) (b : AddsLabels g h) : AddsLabels f h := by
  intro k
  rcases a k with ha | ⟨o, ha1, ha2⟩ <;> rcases b k with hb | ⟨o', hb1, hb2⟩
  · left; rw [hb, ha]
  · right; exact ⟨o', by rw [← ha]; exact hb1, hb2⟩
  · right; exact ⟨o, ha1, by rw [hb, ha2]⟩
  · right; refine ⟨o, ha1, ?_⟩
    rw [ha2] at hb1; cases hb1; rw [hb2]; rfl

theorem AddsLabels.labelEq {f g : Objs} (a : AddsLabels f g) : LabelEq f g := by
  intro k
  rcases a k with ha | ⟨o, ha1, ha2⟩
  · rw [ha]
  · rw [ha1, ha2]; rfl

theorem AddsLabels.keeps_label {f g : Objs} (a : AddsLabels f g) {k : Key} {o : Obj}
    (h : f k = some o) (hl : o.label = true) : ∃ o', g k = some o' ∧ o'.label = true := by
  rcases a k with ha | ⟨o', ha1, ha2⟩
  · exact ⟨o, by rw [ha, h], hl⟩
  · exact ⟨seen o', ha2, rfl⟩

theorem addsLabels_set_label {f : Objs} {k : Key} {o : Obj} (h : f k = some o) :
    AddsLabels f (f.set k (some (seen o))) := by
  intro k'
  by_cases hk : k' = k
  · subst hk; right; exact ⟨o, h, by simp [Objs.set]⟩
  · left; simp [Objs.set, hk]

theorem getSource_addsLabels (L : Leaves T) (spec : Spec T) (objs : Objs) (src : Source) :
    AddsLabels objs (getSource L spec objs src).1 := by
  unfold getSource
  split
  · exact AddsLabels.refl _
  · cases ho : objs (srcKey L spec src) with
    | none => cases src.optional <;> simp only [ho] <;> exact AddsLabels.refl _
    | some o =>
      cases hl : o.label
      · simp only [ho, hl]; exact addsLabels_set_label ho
      · simp only [ho, hl]; exact AddsLabels.refl _

/-- a source that was found is labelled afterwards -/
theorem getSource_found_labelled (L : Leaves T) (spec : Spec T) (objs : Objs) (src : Source)
    {k : Key} {o : Obj} (h : (getSource L spec objs src).2.2.2 = .found k o) :
    k = srcKey L spec src ∧ (getSource L spec objs src).1 k = some o ∧ o.label = true := by
  cases hv : preflightViolates L.scope spec.ns src.kind src.ns false
  · cases ho : objs (srcKey L spec src) with
    | none => cases hopt : src.optional <;> simp [getSource, hv, ho, hopt] at h
    | some o' =>
      cases hl : o'.label
      · simp [getSource, hv, ho, hl] at h ⊢
        obtain ⟨rfl, rfl⟩ := h
        simp [Objs.set]
      · simp [getSource, hv, ho, hl] at h ⊢
        obtain ⟨rfl, rfl⟩ := h
        simp [ho, hl]
  · simp [getSource, hv] at h

/-- The source loop: what it leaves behind and what it returns. -/
theorem gather_spec (L : Leaves T) (spec : Spec T) :
    ∀ (srcs : List Source) (objs : Objs) (cfg : Config) (retry : Bool),
    AddsLabels objs (gather L spec objs srcs cfg retry).1 ∧
    (gather L spec objs srcs cfg retry).2.2.2 = specGather L spec objs srcs cfg retry ∧
    (∀ x ∈ (gather L spec objs srcs cfg retry).2.1, ∃ src ∈ srcs,
        x = ⟨.merge, srcKey L spec src, false⟩ ∧ admissible L.scope spec.ns src.kind src.ns false = true) ∧
    (∀ k ∈ (gather L spec objs srcs cfg retry).2.2.1, ∃ src ∈ srcs, k = src.kind) := by
  intro srcs
  induction srcs with
  | nil => intro objs cfg retry; simp [gather, specGather, AddsLabels.refl]
  | cons src rest ih =>
    intro objs cfg retry
    obtain ⟨_, hres, hws, hks⟩ := getSource_spec L spec objs src
    have hadd := getSource_addsLabels L spec objs src
    rcases hg : getSource L spec objs src with ⟨o1, ws, ks, res⟩
    rw [hg] at hres hws hks hadd
    simp only at hres hws hks hadd
    have hcongr : ∀ c r, specGather L spec o1 rest c r = specGather L spec objs rest c r := fun c r =>
      (specGather_congr L spec objs o1 rest c r (fun s _ => hadd.labelEq _)).symm
    have hks' : ∀ k ∈ ks, k = src.kind := by
      intro k hk; rw [hks] at hk; split at hk <;> simp_all
    cases ha : admissible L.scope spec.ns src.kind src.ns false
    · simp only [ha, Bool.false_eq_true, if_false] at hres
      subst hres
      simp only [gather, hg, specGather, ha, Bool.false_eq_true, if_false]
      refine ⟨hadd, trivial, ?_, ?_⟩
      · intro x hx; exact ⟨src, by simp, hws x hx⟩
      · intro k hk; exact ⟨src, by simp, hks' k hk⟩
    · simp only [ha, if_true] at hres
      cases ho : objs (srcKey L spec src) with
      | none =>
        rw [ho] at hres
        cases hopt : src.optional
        · simp only [hopt, Bool.false_eq_true, if_false] at hres
          subst hres
          simp only [gather, hg, specGather, ha, if_true, ho, hopt, Bool.false_eq_true, if_false]
          refine ⟨hadd, trivial, ?_, ?_⟩
          · intro x hx; exact ⟨src, by simp, hws x hx⟩
          · intro k hk; exact ⟨src, by simp, hks' k hk⟩
        · simp only [hopt, if_true] at hres
          subst hres
          obtain ⟨i1, i2, i3, i4⟩ := ih o1 cfg true
          simp only [gather, hg, specGather, ha, if_true, ho, hopt]
          refine ⟨hadd.trans i1, by rw [i2, hcongr], ?_, ?_⟩
          · intro x hx
            rcases List.mem_append.mp hx with hx | hx
            · exact ⟨src, by simp, hws x hx⟩
            · obtain ⟨s, hs, h⟩ := i3 x hx; exact ⟨s, by simp [hs], h⟩
          · intro k hk
            rcases List.mem_append.mp hk with hk | hk
            · exact ⟨src, by simp, hks' k hk⟩
            · obtain ⟨s, hs, h⟩ := i4 k hk; exact ⟨s, by simp [hs], h⟩
      | some o =>
        rw [ho] at hres
        simp only at hres
        subst hres
        simp only [gather, hg, specGather, ha, if_true, ho]
        cases hc : copyItems L (srcKey L spec src) (seen o) src.items cfg with
        | none =>
          simp only
          refine ⟨hadd, trivial, ?_, ?_⟩
          · intro x hx; exact ⟨src, by simp, hws x hx⟩
          · intro k hk; exact ⟨src, by simp, hks' k hk⟩
        | some cfg' =>
          obtain ⟨i1, i2, i3, i4⟩ := ih o1 cfg' retry
          simp only
          refine ⟨hadd.trans i1, by rw [i2, hcongr], ?_, ?_⟩
          · intro x hx
            rcases List.mem_append.mp hx with hx | hx
            · exact ⟨src, by simp, hws x hx⟩
            · obtain ⟨s, hs, h⟩ := i3 x hx; exact ⟨s, by simp [hs], h⟩
          · intro k hk
            rcases List.mem_append.mp hk with hk | hk
            · exact ⟨src, by simp, hks' k hk⟩
            · obtain ⟨s, hs, h⟩ := i4 k hk; exact ⟨s, by simp [hs], h⟩


theorem AddsLabels.labelled_of {f g : Objs} (a : AddsLabels f g) {k : Key}
    (h : ∀ o, f k = some o → o.label = true) : ∀ o, g k = some o → o.label = true := by
  intro o ho
  rcases a k with ha | ⟨o', _, ha2⟩
  · exact h o (by rw [← ha]; exact ho)
  · rw [ha2] at ho; cases ho; rfl

/-- When the source loop succeeds it asked the cache to watch the kind of EVERY source, and every
source object that exists carries the cache label afterwards. -/
theorem gather_ok_covers (L : Leaves T) (spec : Spec T) :
    ∀ (srcs : List Source) (objs : Objs) (cfg : Config) (retry : Bool) (c : Config) (r : Bool),
    (gather L spec objs srcs cfg retry).2.2.2 = .ok c r →
    (∀ src ∈ srcs, src.kind ∈ (gather L spec objs srcs cfg retry).2.2.1) ∧
    (∀ src ∈ srcs, ∀ o, (gather L spec objs srcs cfg retry).1 (srcKey L spec src) = some o →
        o.label = true) := by
  intro srcs
  induction srcs with
  | nil => intro objs cfg retry c r _; simp
  | cons src rest ih =>
    intro objs cfg retry c r h
    obtain ⟨_, hres, _, hks⟩ := getSource_spec L spec objs src
    have hfound := @getSource_found_labelled T L spec objs src
    rcases hg : getSource L spec objs src with ⟨o1, ws, ks, res⟩
    rw [hg] at hres hks hfound
    simp only at hres hks hfound
    cases ha : admissible L.scope spec.ns src.kind src.ns false
    · simp only [ha, Bool.false_eq_true, if_false] at hres
      subst hres
      simp [gather, hg] at h
    · simp only [ha, if_true] at hres hks
      subst hks
      cases res with
      | srcErr m => simp [gather, hg] at h
      | skipped =>
        simp only [gather, hg] at h ⊢
        obtain ⟨i1, i2⟩ := ih o1 cfg true c r h
        have hadd := (gather_spec L spec rest o1 cfg true).1
        have ho1 : o1 (srcKey L spec src) = none := by
          have e := getSource_addsLabels L spec objs src
          rw [hg] at e
          cases ho : objs (srcKey L spec src) with
          | none =>
            rcases e (srcKey L spec src) with e1 | ⟨o, e1, _⟩
            · simp only at e1; rw [e1, ho]
            · rw [ho] at e1; cases e1
          | some o => rw [ho] at hres; cases hres
        refine ⟨?_, ?_⟩
        · intro s hs
          rcases List.mem_cons.mp hs with rfl | hs'
          · simp
          · exact List.mem_append_right _ (i1 s hs')
        · intro s hs
          rcases List.mem_cons.mp hs with rfl | hs'
          · exact hadd.labelled_of (by intro o ho; rw [ho1] at ho; cases ho)
          · exact i2 s hs'
      | found k o =>
        obtain ⟨rfl, hk2, hk3⟩ := hfound rfl
        simp only [gather, hg] at h ⊢
        cases hc : copyItems L (srcKey L spec src) o src.items cfg with
        | none => simp [hc] at h
        | some cfg' =>
          simp only [hc] at h ⊢
          obtain ⟨i1, i2⟩ := ih o1 cfg' retry c r h
          have hadd := (gather_spec L spec rest o1 cfg' retry).1
          refine ⟨?_, ?_⟩
          · intro s hs
            rcases List.mem_cons.mp hs with rfl | hs'
            · simp
            · exact List.mem_append_right _ (i1 s hs')
          · intro s hs
            rcases List.mem_cons.mp hs with rfl | hs'
            · exact hadd.labelled_of (by intro o' ho'; rw [hk2] at ho'; cases ho'; exact hk3)
            · exact i2 s hs'

/-- A source that is out of bounds, or required and absent, makes the input a source error —
wherever it stands in the list and whatever the other sources are. -/
theorem specGather_bad_source (L : Leaves T) (spec : Spec T) (objs : Objs) :
    ∀ (srcs : List Source) (cfg : Config) (retry : Bool),
    (∃ src ∈ srcs, admissible L.scope spec.ns src.kind src.ns false = false ∨
        (src.optional = false ∧ objs (srcKey L spec src) = none)) →
    ∃ m, specGather L spec objs srcs cfg retry = .srcErr m := by
  intro srcs
  induction srcs with
  | nil => intro cfg retry h; obtain ⟨s, hs, _⟩ := h; simp at hs
  | cons src rest ih =>
    intro cfg retry h
    simp only [specGather]
    cases ha : admissible L.scope spec.ns src.kind src.ns false
    · exact ⟨false, by simp⟩
    · simp only [if_true]
      obtain ⟨s, hs, hbad⟩ := h
      cases ho : objs (srcKey L spec src) with
      | none =>
        cases hopt : src.optional
        · exact ⟨true, by simp⟩
        · simp only [if_true]
          apply ih
          rcases List.mem_cons.mp hs with rfl | hs'
          · rcases hbad with hb | ⟨hb, _⟩ <;> simp_all
          · exact ⟨s, hs', hbad⟩
      | some o =>
        simp only
        cases copyItems L (srcKey L spec src) (seen o) src.items cfg with
        | none => exact ⟨false, rfl⟩
        | some cfg' =>
          simp only
          apply ih
          rcases List.mem_cons.mp hs with rfl | hs'
          · rcases hbad with hb | ⟨_, hb⟩ <;> simp_all
          · exact ⟨s, hs', hbad⟩

/-- The retry flag of a successful input says exactly whether an optional source is absent. -/
theorem specGather_retry (L : Leaves T) (spec : Spec T) (objs : Objs) :
    ∀ (srcs : List Source) (cfg : Config) (r0 : Bool) (cfg' : Config) (r : Bool),
    specGather L spec objs srcs cfg r0 = .ok cfg' r →
    (r = true ↔ r0 = true ∨ ∃ src ∈ srcs, src.optional = true ∧ objs (srcKey L spec src) = none) := by
  intro srcs
  induction srcs with
  | nil => intro cfg r0 cfg' r h; simp [specGather] at h; simp [h.2]
  | cons src rest ih =>
    intro cfg r0 cfg' r h
    simp only [specGather] at h
    cases ha : admissible L.scope spec.ns src.kind src.ns false
    · simp [ha] at h
    · simp only [ha, if_true] at h
      cases ho : objs (srcKey L spec src) with
      | none =>
        rw [ho] at h
        cases hopt : src.optional
        · simp [hopt] at h
        · simp only [hopt, if_true] at h
          have := ih cfg true cfg' r h
          simp only [true_or, iff_true] at this
          subst this
          simp only [true_iff]
          right; exact ⟨src, by simp, hopt, ho⟩
      | some o =>
        rw [ho] at h
        simp only at h
        cases hc : copyItems L (srcKey L spec src) (seen o) src.items cfg with
        | none => simp [hc] at h
        | some c2 =>
          rw [hc] at h
          simp only at h
          rw [ih c2 r0 cfg' r h]
          constructor
          · rintro (h1 | ⟨s, hs, h2⟩)
            · exact Or.inl h1
            · exact Or.inr ⟨s, by simp [hs], h2⟩
          · rintro (h1 | ⟨s, hs, h2, h3⟩)
            · exact Or.inl h1
            · rcases List.mem_cons.mp hs with rfl | hs'
              · rw [ho] at h3; cases h3
              · exact Or.inr ⟨s, hs', h2, h3⟩


/-! ### the dynamic cache's watch set -/

theorem mem_watch (ws : List (String × Owner)) (k : String) (o : Owner) (e : String × Owner) :
    e ∈ watch ws k o ↔ e ∈ ws ∨ e = (k, o) := by
  unfold watch
  split
  · rename_i h
    constructor
    · exact Or.inl
    · rintro (h1 | rfl)
      · exact h1
      · exact h
  · simp

theorem mem_watchAll (kinds : List String) (o : Owner) :
    ∀ (ws : List (String × Owner)) (e : String × Owner),
    e ∈ watchAll ws kinds o ↔ e ∈ ws ∨ (e.2 = o ∧ e.1 ∈ kinds) := by
  induction kinds with
  | nil => intro ws e; simp [watchAll]
  | cons k rest ih =>
    intro ws e
    have : watchAll ws (k :: rest) o = watchAll (watch ws k o) rest o := by simp [watchAll]
    rw [this, ih, mem_watch]
    constructor
    · rintro ((h | rfl) | ⟨h1, h2⟩)
      · exact Or.inl h
      · exact Or.inr ⟨rfl, by simp⟩
      · exact Or.inr ⟨h1, by simp [h2]⟩
    · rintro (h | ⟨h1, h2⟩)
      · exact Or.inl (Or.inl h)
      · rcases List.mem_cons.mp h2 with h3 | h3
        · left; right; cases e; simp_all
        · exact Or.inr ⟨h1, h3⟩

theorem mem_free (ws : List (String × Owner)) (o : Owner) (e : String × Owner) :
    e ∈ free ws o ↔ e ∈ ws ∧ e.2 ≠ o := by
  simp [free]

/-! ### keys of admissible references of a namespaced template -/

theorem srcKey_in_namespace (L : Leaves T) (spec : Spec T) (src : Source) (hns : spec.ns ≠ "")
    (ha : admissible L.scope spec.ns src.kind src.ns false = true) :
    (srcKey L spec src).ns = spec.ns ∧ L.scope (srcKey L spec src).kind = .namespaced := by
  unfold admissible at ha
  simp only [hns, if_false] at ha
  simp only [Bool.and_eq_true, Bool.or_eq_true, decide_eq_true_eq] at ha
  obtain ⟨_, hs, hn⟩ := ha
  unfold srcKey norm
  simp only [hs]
  rcases hn with hn | hn <;> simp [hn, hs, hns]

theorem targetKey_in_namespace (L : Leaves T) (spec : Spec T) (r : Rendered) (hns : spec.ns ≠ "")
    (ha : admissible L.scope spec.ns r.kind r.ns r.hasOwner = true) :
    (targetKey L spec r).ns = spec.ns ∧ L.scope (targetKey L spec r).kind = .namespaced := by
  unfold admissible at ha
  simp only [hns, if_false] at ha
  simp only [Bool.and_eq_true, Bool.or_eq_true, decide_eq_true_eq] at ha
  obtain ⟨_, hs, _⟩ := ha
  unfold targetKey norm
  simp [hs, hns]

end Pko.Lemmas.C18
