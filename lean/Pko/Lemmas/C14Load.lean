/-
Lemmas for C14, part D/E: the slice loader inverts the encoding; the ObjectSet controller treats a sliced
ObjectSet like its inline twin.
-/
import Pko.Lemmas.C14Store
namespace Pko.Lemmas.C14
open Pko.Model.Chunk Pko.Model.ChunkSpec

variable {Name : Type} [DecidableEq Name]

theorem get_setOwned (st : Store Name) (n q : Name) :
    getSlice (setOwned st n) q = (getSlice st q).map fun s => if q = n then { s with owned := true } else s := by
  induction st with
  | nil => simp [setOwned, getSlice]
  | cons e st ih =>
    obtain ⟨m, s⟩ := e
    simp only [setOwned]
    by_cases hmn : m = n
    · subst hmn
      by_cases hq : m = q
      · subst hq; simp [getSlice]
      · have : ¬ q = m := fun h => hq h.symm
        simp [getSlice, hq, this]
    · by_cases hq : m = q
      · subst hq; simp [hmn, getSlice]
      · simp [hmn, getSlice, hq, ih]

def ownedIn (st : Store Name) (n : Name) : Prop := ∃ s, getSlice st n = some s ∧ s.owned = true

/-- Invariant of the loader relative to the store it started from: only owner references were added, and
every slice that is owned now was owned at the start or has been updated. -/
structure LInv (st0 st : Store Name) (upd : List Name) : Prop where
  same : ∀ m, (getSlice st m).map (·.objects) = (getSlice st0 m).map (·.objects)
  own : ∀ m, ownedIn st m → ownedIn st0 m ∨ m ∈ upd

theorem LInv.init (st : Store Name) : LInv st st [] := ⟨fun _ => rfl, fun _ h => Or.inl h⟩

theorem loadSlices_spec {st0 : Store Name} :
    ∀ (ns : List Name) (st : Store Name) (upd : List Name) (acc : List Obj)
      (st' : Store Name) (upd' : List Name) (objs : List Obj) (ok : Bool),
    LInv st0 st upd → loadSlices st upd acc ns = (st', upd', objs, ok) →
    LInv st0 st' upd' ∧ (∀ m ∈ upd, m ∈ upd') ∧
    match decodeSlices st0 ns with
    | some r => ok = true ∧ objs = acc ++ r ∧ ∀ n ∈ ns, ownedIn st0 n ∨ n ∈ upd'
    | none => ok = false := by
  intro ns
  induction ns with
  | nil =>
    intro st upd acc st' upd' objs ok hi h
    simp only [loadSlices, Prod.mk.injEq] at h
    obtain ⟨rfl, rfl, rfl, rfl⟩ := h
    exact ⟨hi, fun _ h => h, by simp [decodeSlices]⟩
  | cons n ns ih =>
    intro st upd acc st' upd' objs ok hi h
    simp only [loadSlices] at h
    have hsame := hi.same n
    cases hg : getSlice st n with
    | none =>
      simp only [hg, Prod.mk.injEq] at h
      obtain ⟨rfl, rfl, rfl, rfl⟩ := h
      have h0 : getSlice st0 n = none := by
        cases h0 : getSlice st0 n with
        | none => rfl
        | some _ => simp [hg, h0] at hsame
      exact ⟨hi, fun _ h => h, by simp [decodeSlices, h0]⟩
    | some s =>
      obtain ⟨s0, hs0, hobj⟩ : ∃ s0, getSlice st0 n = some s0 ∧ s0.objects = s.objects := by
        cases h0 : getSlice st0 n with
        | none => simp [hg, h0] at hsame
        | some s0 => exact ⟨s0, rfl, by simpa [hg, h0] using hsame.symm⟩
      simp only [hg] at h
      by_cases hown : s.owned = true
      · simp only [hown, ↓reduceIte] at h
        obtain ⟨hi', hsub, hres⟩ := ih st upd (acc ++ s.objects) st' upd' objs ok hi h
        refine ⟨hi', hsub, ?_⟩
        simp only [decodeSlices, hs0]
        cases hd : decodeSlices st0 ns with
        | none => simpa [hd] using hres
        | some r =>
          simp only [hd] at hres ⊢
          obtain ⟨h1, h2, h3⟩ := hres
          refine ⟨h1, by rw [h2, hobj]; simp, ?_⟩
          intro m hm
          rcases List.mem_cons.mp hm with rfl | hm
          · rcases hi.own m ⟨s, hg, hown⟩ with h | h
            · exact Or.inl h
            · exact Or.inr (hsub m h)
          · exact h3 m hm
      · simp only [hown, Bool.false_eq_true, ↓reduceIte] at h
        have hi2 : LInv st0 (setOwned st n) (upd ++ [n]) := by
          refine ⟨?_, ?_⟩
          · intro m
            rw [get_setOwned, ← hi.same m]
            cases getSlice st m with
            | none => rfl
            | some x => by_cases hmn : m = n <;> simp [hmn]
          · intro m ⟨x, hx, hxo⟩
            by_cases hmn : m = n
            · right; simp [hmn]
            · rw [get_setOwned] at hx
              cases hgm : getSlice st m with
              | none => simp [hgm] at hx
              | some y =>
                simp only [hgm, Option.map_some, hmn, ↓reduceIte, Option.some.injEq] at hx
                subst hx
                rcases hi.own m ⟨y, hgm, hxo⟩ with h | h
                · exact Or.inl h
                · right; simp [h]
        obtain ⟨hi', hsub, hres⟩ := ih (setOwned st n) (upd ++ [n]) (acc ++ s.objects) st' upd' objs ok hi2 h
        refine ⟨hi', fun m hm => hsub m (by simp [hm]), ?_⟩
        simp only [decodeSlices, hs0]
        cases hd : decodeSlices st0 ns with
        | none => simpa [hd] using hres
        | some r =>
          simp only [hd] at hres ⊢
          obtain ⟨h1, h2, h3⟩ := hres
          refine ⟨h1, by rw [h2, hobj]; simp, ?_⟩
          intro m hm
          rcases List.mem_cons.mp hm with rfl | hm
          · exact Or.inr (hsub m (by simp))
          · exact h3 m hm

theorem loadPhases_spec {st0 : Store Name} :
    ∀ (t : Template Name) (st : Store Name) (upd : List Name)
      (st' : Store Name) (upd' : List Name) (phases : List (List Obj)) (ok : Bool),
    LInv st0 st upd → loadPhases st upd t = (st', upd', phases, ok) →
    LInv st0 st' upd' ∧ (∀ m ∈ upd, m ∈ upd') ∧
    match decode st0 t with
    | some d => ok = true ∧ phases = d ∧ ∀ n ∈ refs t, ownedIn st0 n ∨ n ∈ upd'
    | none => ok = false := by
  intro t
  induction t with
  | nil =>
    intro st upd st' upd' phases ok hi h
    simp only [loadPhases, Prod.mk.injEq] at h
    obtain ⟨rfl, rfl, rfl, rfl⟩ := h
    exact ⟨hi, fun _ h => h, by simp [decode, refs]⟩
  | cons ph t ih =>
    intro st upd st' upd' phases ok hi h
    simp only [loadPhases] at h
    cases hl : loadSlices st upd ph.objects ph.slices with
    | mk st1 rest1 =>
      obtain ⟨upd1, objs, ok1⟩ := rest1
      obtain ⟨hi1, hsub1, hres1⟩ := loadSlices_spec ph.slices st upd ph.objects st1 upd1 objs ok1 hi hl
      simp only [hl] at h
      cases ok1 with
      | false =>
        simp only [Prod.mk.injEq] at h
        obtain ⟨rfl, rfl, rfl, rfl⟩ := h
        refine ⟨hi1, hsub1, ?_⟩
        cases hd : decodeSlices st0 ph.slices with
        | none => simp [decode, decodePhase, hd]
        | some r => simp [hd] at hres1
      | true =>
        simp only at h
        cases hl2 : loadPhases st1 upd1 t with
        | mk st2 rest2 =>
          obtain ⟨upd2, rest, ok2⟩ := rest2
          simp only [hl2, Prod.mk.injEq] at h
          obtain ⟨rfl, rfl, rfl, rfl⟩ := h
          obtain ⟨hi2, hsub2, hres2⟩ := ih st1 upd1 st2 upd2 rest ok2 hi1 hl2
          refine ⟨hi2, fun m hm => hsub2 m (hsub1 m hm), ?_⟩
          cases hd : decodeSlices st0 ph.slices with
          | none => simp [hd] at hres1
          | some r =>
            simp only [hd] at hres1
            obtain ⟨_, hobjs, hown1⟩ := hres1
            simp only [decode, decodePhase, hd, Option.map_some]
            cases hdt : decode st0 t with
            | none => simpa [hdt] using hres2
            | some d =>
              simp only [hdt] at hres2 ⊢
              obtain ⟨h1, h2, h3⟩ := hres2
              refine ⟨h1, by rw [hobjs, h2], ?_⟩
              intro n hn
              simp only [refs, List.flatMap_cons, List.mem_append] at hn
              rcases hn with hn | hn
              · rcases hown1 n hn with h | h
                · exact Or.inl h
                · exact Or.inr (hsub2 n h)
              · exact h3 n hn

/-- Loading an inline ObjectSet does nothing. -/
theorem loadPhases_inline (d : List (List Obj)) (upd : List Name) :
    loadPhases ([] : Store Name) upd (inlineTwin d) = ([], upd, d, true) := by
  induction d with
  | nil => simp [inlineTwin, loadPhases]
  | cons objs d ih =>
    simp only [inlineTwin, List.map_cons, loadPhases, loadSlices] at ih ⊢
    rw [ih]

theorem decode_length {st : Store Name} : ∀ {t : Template Name} {d : List (List Obj)},
    decode st t = some d → d.length = t.length := by
  intro t
  induction t with
  | nil => intro d h; simp only [decode, Option.some.injEq] at h; subst h; rfl
  | cons ph t ih =>
    intro d h
    simp only [decode] at h
    cases hp : decodePhase st ph with
    | none => simp [hp] at h
    | some a =>
      cases hd : decode st t with
      | none => simp [hp, hd] at h
      | some r =>
        simp only [hp, hd, Option.some.injEq] at h
        subst h
        simp [ih hd]

/-- Loading the inline twin (classes kept) does nothing. -/
theorem loadPhases_inlineOf : ∀ (t : Template Name) (d : List (List Obj)) (upd : List Name),
    d.length = t.length → loadPhases ([] : Store Name) upd (inlineTwinOf t d) = ([], upd, d, true) := by
  intro t
  induction t with
  | nil =>
    intro d upd h
    have : d = [] := List.eq_nil_of_length_eq_zero (by simpa using h)
    subst this; simp [inlineTwinOf, loadPhases]
  | cons ph t ih =>
    intro d upd h
    cases d with
    | nil => simp at h
    | cons objs d =>
      have h' : d.length = t.length := by simpa using h
      have := ih d upd h'
      simp only [inlineTwinOf, List.zip_cons_cons, List.map_cons, loadPhases, loadSlices] at this ⊢
      rw [this]

omit [DecidableEq Name] in
/-- The inline twin has the classes of the sliced ObjectSet. -/
theorem inlineTwinOf_cls : ∀ (t : Template Name) (d : List (List Obj)),
    d.length = t.length → (inlineTwinOf t d).map (·.cls) = t.map (·.cls) := by
  intro t
  induction t with
  | nil => intro d _; simp [inlineTwinOf]
  | cons ph t ih =>
    intro d h
    cases d with
    | nil => simp at h
    | cons objs d =>
      have h' : d.length = t.length := by simpa using h
      have := ih d h'
      simp only [inlineTwinOf, List.zip_cons_cons, List.map_cons] at this ⊢
      rw [this]

/-- Re-labelling the classes of a template. -/
def withCls (f : Phase Name → Bool) (t : Template Name) : Template Name := t.map fun p => { p with cls := f p }

/-- The slice loader does not look at a phase's class. -/
theorem loadPhases_withCls (f : Phase Name → Bool) : ∀ (t : Template Name) (st : Store Name) (upd : List Name),
    loadPhases st upd (withCls f t) = loadPhases st upd t := by
  intro t
  induction t with
  | nil => intro st upd; rfl
  | cons ph t ih =>
    intro st upd
    simp only [withCls, List.map_cons, loadPhases] at ih ⊢
    cases loadSlices st upd ph.objects ph.slices with
    | mk st1 rest =>
      obtain ⟨upd1, objs, ok⟩ := rest
      cases ok with
      | false => simp
      | true => simp only; rw [ih]

/-- Neither does the decoding. -/
theorem decode_withCls (f : Phase Name → Bool) (st : Store Name) : ∀ (t : Template Name),
    decode st (withCls f t) = decode st t := by
  intro t
  induction t with
  | nil => rfl
  | cons ph t ih =>
    simp only [withCls, List.map_cons, decode, decodePhase] at ih ⊢
    rw [ih]

/-! ### delegated phases -/

omit [DecidableEq Name] in
theorem phaseInfosFrom_objs (cls : List Bool) (rem : List RState) : ∀ (ps : List (List Obj)) (k : Nat),
    (phaseInfosFrom cls rem k ps).flatMap (·.2.2) = ps.flatten := by
  intro ps
  induction ps with
  | nil => intro k; rfl
  | cons p ps ih => intro k; simp [phaseInfosFrom, ih]

/-- `reconcileCalls` walks over a prefix of phases without class (one in-process call each, never stopping)
and then continues with the rest. -/
theorem reconcileCalls_local_prefix (cls : List Bool) (rem : List RState) :
    ∀ (dpre rest : List (List Obj)) (k : Nat),
    (∀ j, k ≤ j → j < k + dpre.length → cls.getD j false = false) →
    ∃ cs, reconcileCalls (phaseInfosFrom cls rem k (dpre ++ rest)) =
      (cs ++ (reconcileCalls (phaseInfosFrom cls rem (k + dpre.length) rest)).1,
       (reconcileCalls (phaseInfosFrom cls rem (k + dpre.length) rest)).2) := by
  intro dpre
  induction dpre with
  | nil => intro rest k _; exact ⟨[], by simp⟩
  | cons p dpre ih =>
    intro rest k h
    have hk : cls.getD k false = false := h k (Nat.le_refl _) (by simp)
    obtain ⟨cs, hcs⟩ := ih rest (k + 1) (fun j h1 h2 => h j (by omega) (by simp only [List.length_cons]; omega))
    refine ⟨{ teardown := false, phase := k, objects := p } :: cs, ?_⟩
    have e : k + 1 + dpre.length = k + (p :: dpre).length := by simp only [List.length_cons]; omega
    simp only [List.cons_append, phaseInfosFrom, hk, Bool.false_eq_true, ↓reduceIte, reconcileCalls, hcs, e]

theorem decode_append {st : Store Name} : ∀ {a b : Template Name} {d : List (List Obj)},
    decode st (a ++ b) = some d →
    ∃ da db, decode st a = some da ∧ decode st b = some db ∧ d = da ++ db := by
  intro a
  induction a with
  | nil => intro b d h; exact ⟨[], d, rfl, by simpa using h, rfl⟩
  | cons ph a ih =>
    intro b d h
    simp only [List.cons_append, decode] at h
    cases hp : decodePhase st ph with
    | none => simp [hp] at h
    | some x =>
      cases hd : decode st (a ++ b) with
      | none => simp [hp, hd] at h
      | some r =>
        simp only [hp, hd, Option.some.injEq] at h
        obtain ⟨da, db, h1, h2, rfl⟩ := ih hd
        exact ⟨x :: da, db, by simp [decode, hp, h1], h2, by simp [← h]⟩

end Pko.Lemmas.C14
