/-
The dynamic cache's per-process registrations (`World.watched`, model of
`dynamiccache.Cache.informerReferences`): basic facts used by every proof about the phase
reconciler.  `World.watch` touches nothing but `watched` and commutes with every other step of the
model; a kind is started right after it was watched.  Core Lean only.
-/
import Pko.Model.Phase

namespace Pko.Model.Phase
open Pko.Kube

/-! ### `watch` / `free` / `restart` only touch `watched` -/

@[simp] theorem watch_store (w : World) (ow : Owner) (k : String) : (w.watch ow k).store = w.store := rfl
@[simp] theorem watch_writes (w : World) (ow : Owner) (k : String) : (w.watch ow k).writes = w.writes := rfl
@[simp] theorem watch_env (w : World) (ow : Owner) (k : String) : (w.watch ow k).env = w.env := rfl
@[simp] theorem watch_events (w : World) (ow : Owner) (k : String) : (w.watch ow k).events = w.events := rfl
@[simp] theorem watch_phases (w : World) (ow : Owner) (k : String) : (w.watch ow k).phases = w.phases := rfl
@[simp] theorem watch_phaseEvents (w : World) (ow : Owner) (k : String) :
    (w.watch ow k).phaseEvents = w.phaseEvents := rfl
@[simp] theorem watch_remoteRefs (w : World) (ow : Owner) (k : String) :
    (w.watch ow k).remoteRefs = w.remoteRefs := rfl
@[simp] theorem watch_applied (w : World) (ow : Owner) (k : String) : (w.watch ow k).applied = w.applied := rfl
@[simp] theorem watch_gw (w : World) (ow : Owner) (k : String) : (w.watch ow k).gw = w.gw := rfl
@[simp] theorem watch_crashAt (w : World) (ow : Owner) (k : String) : (w.watch ow k).crashAt = w.crashAt := rfl
@[simp] theorem watch_snap (w : World) (ow : Owner) (k : String) : (w.watch ow k).snap = w.snap := rfl
@[simp] theorem watch_ticks (w : World) (ow : Owner) (k : String) : (w.watch ow k).ticks = w.ticks := rfl
@[simp] theorem watch_snapW (w : World) (ow : Owner) (k : String) : (w.watch ow k).snapW = w.snapW := rfl

@[simp] theorem free_store (w : World) (r : WRef) : (w.free r).store = w.store := rfl
@[simp] theorem free_phases (w : World) (r : WRef) : (w.free r).phases = w.phases := rfl
@[simp] theorem restart_store (w : World) : w.restart.store = w.store := rfl
@[simp] theorem restart_phases (w : World) : w.restart.phases = w.phases := rfl
@[simp] theorem restart_watched (w : World) : w.restart.watched = [] := rfl

/-- nothing is started right after a restart. -/
@[simp] theorem restart_started (w : World) (k : String) : w.restart.started k = false := rfl

/-! ### `Watch` makes the kind readable, whatever was registered before (in particular: nothing) -/

/-- **`Get` after `Watch` never answers `CacheNotStartedError`**: for every world — every set of
registrations, the empty one a restart leaves behind included. -/
@[simp] theorem started_watch (w : World) (ow : Owner) (k : String) : (w.watch ow k).started k = true := by
  simp only [World.started, World.watch]
  split
  · rename_i h
    simp only [List.contains_iff_mem] at h
    exact List.any_eq_true.2 ⟨_, h, by simp⟩
  · simp

/-- registrations of other owners / kinds are kept by `Watch`. -/
theorem started_watch_mono (w : World) (ow : Owner) (k k' : String) (h : w.started k' = true) :
    (w.watch ow k).started k' = true := by
  simp only [World.started, World.watch] at h ⊢
  split
  · exact h
  · simp only [List.any_append, h, Bool.true_or]

/-! ### `watch` commutes with the write primitives (up to the ghost snapshot `snapW`) -/

@[simp] theorem watch_beforeWrite_store (w : World) (ow : Owner) (k : String) :
    (w.watch ow k).beforeWrite.store = w.beforeWrite.store := rfl
@[simp] theorem watch_beforeWrite_env (w : World) (ow : Owner) (k : String) :
    (w.watch ow k).beforeWrite.env = w.beforeWrite.env := rfl
@[simp] theorem watch_beforeWrite_events (w : World) (ow : Owner) (k : String) :
    (w.watch ow k).beforeWrite.events = w.beforeWrite.events := rfl
@[simp] theorem watch_beforeWrite_phases (w : World) (ow : Owner) (k : String) :
    (w.watch ow k).beforeWrite.phases = w.beforeWrite.phases := rfl
@[simp] theorem watch_beforeWrite_remoteRefs (w : World) (ow : Owner) (k : String) :
    (w.watch ow k).beforeWrite.remoteRefs = w.beforeWrite.remoteRefs := rfl
@[simp] theorem watch_apply_store (w : World) (ow : Owner) (k : String) (key : Key) (a : Applied) :
    ((w.watch ow k).apply key a).1.store = (w.apply key a).1.store := rfl
@[simp] theorem watch_apply_snd (w : World) (ow : Owner) (k : String) (key : Key) (a : Applied) :
    ((w.watch ow k).apply key a).2 = (w.apply key a).2 := rfl
@[simp] theorem watch_apply_env (w : World) (ow : Owner) (k : String) (key : Key) (a : Applied) :
    ((w.watch ow k).apply key a).1.env = (w.apply key a).1.env := rfl
@[simp] theorem watch_apply_events (w : World) (ow : Owner) (k : String) (key : Key) (a : Applied) :
    ((w.watch ow k).apply key a).1.events = (w.apply key a).1.events := rfl

@[simp] theorem seen_watch (w : World) (ow : Owner) (k : String) (key : Key) : seen (w.watch ow k) key = seen w key := rfl

/-! ### The `CacheNotStartedError` branches of a rollout step are dead code -/

/-- once the kind is started `reconcileObject` is its part after the cache read. -/
theorem reconcileObject_started (cfg : Cfg) (ow : Owner) (prev : List Prev) (p : PObj) (w : World)
    (h : w.started p.kind = true) :
    reconcileObject cfg ow prev p w =
      reconcileObjectWith cfg ow prev p w (keyOf cfg ow p) (seen w (keyOf cfg ow p)) := by
  simp only [reconcileObject, h, ↓reduceIte]

/-- without a registration `reconcileObject` fails at its first read and touches nothing. -/
theorem reconcileObject_not_started (cfg : Cfg) (ow : Owner) (prev : List Prev) (p : PObj) (w : World)
    (h : w.started p.kind = false) : reconcileObject cfg ow prev p w = (w, .err) := by
  simp only [reconcileObject, h, Bool.false_eq_true, ↓reduceIte]

/-- **`reconcilePhaseObject` with the unreachable `CacheNotStartedError` branches removed**: because
`Watch` comes before every read through the cache — in the paused branch too — the step is, for
EVERY world (whatever is registered, e.g. nothing after a restart), the cache-oblivious step on the
world in which the owner watches the kind. -/
theorem reconcilePhaseObject_eq (cfg : Cfg) (ow : Owner) (prev : List Prev) (p : PObj) (w : World) :
    reconcilePhaseObject cfg ow prev p w =
      if cfg.st = .native ∧ ow.ns ≠ "" ∧ desiredNs ow p ≠ ow.ns then (w, .err)
      else if ow.paused then
        match cacheGet w.store (keyOf cfg ow p) with
        | some o => (w.watch ow p.kind, .actual o)
        | none => (w.watch ow p.kind, .missing)
      else reconcileObjectWith cfg ow prev p (w.watch ow p.kind) (keyOf cfg ow p) (seen w (keyOf cfg ow p)) := by
  simp only [reconcilePhaseObject, pausedLookup, reconcileObject, started_watch, ↓reduceIte, watch_store, seen_watch]
  rfl

end Pko.Model.Phase
