/-
C10 at the ObjectSet-controller level, part 3: the writes on the ObjectSet itself (finalizer,
revision, status update) when no third-party operation is scheduled, and the tail of the pass
(`activePhasesCore`, `finish`).  Core Lean only.
-/
import Pko.Lemmas.C10SetPhases

namespace Pko.Props.C10Set
open Pko.Kube Pko.Model.Phase Pko.Model.ObjectSet Pko.Model.Status
open Pko.Props.C10

/-- No third-party operation is scheduled, neither on ObjectSets nor on managed objects, and no
remote phase reference is left over from an earlier pass (`activePhasesCore` always resets them). -/
structure QuietSys (s : Sys) : Prop where
  sets : s.setEnv = []
  objs : s.w.env = []
  refs : s.w.remoteRefs = []

theorem setFinalizer_noop (s : Sys) (mem : OSet) (b : Bool) (h : mem.finCached = b) :
    s.setFinalizer mem b = (s, .ok mem) := by
  simp [Sys.setFinalizer, h]

theorem revisionStep_noop (s : Sys) (mem : OSet) (h : mem.revision ≠ 0) : revisionStep s mem = (s, .ok mem) := by
  simp [revisionStep, h]

theorem tick_kept (w : World) : Kept w w.tick := ⟨rfl, rfl, rfl⟩

/-- `lockedWrite` without third parties: it goes through; the stored ObjectSet becomes `f cur`
with a fresh resourceVersion, or nothing at all changes when `f cur = cur`.  Managed objects are
never touched. -/
theorem lockedWrite_quiet (s : Sys) (mem cur : OSet) (f : OSet → OSet) (hq : s.setEnv = [])
    (hs : s.sets mem.name = some cur) (hrv : cur.rv = mem.rv) (hd : (f cur).deleting = false) :
    (s.lockedWrite mem f).1.setEnv = [] ∧ Kept s.w (s.lockedWrite mem f).1.w ∧
    (∀ k, (s.lockedWrite mem f).1.w.store.get k = s.w.store.get k) ∧
    ((f cur = cur ∧ (s.lockedWrite mem f).2 = .ok cur ∧ (s.lockedWrite mem f).1.sets = s.sets ∧
        (s.lockedWrite mem f).1.w.store = s.w.store) ∨
     (f cur ≠ cur ∧ (s.lockedWrite mem f).2 = .ok { f cur with rv := s.w.store.nextRV } ∧
        (s.lockedWrite mem f).1.sets =
          fun n => if n = mem.name then some { f cur with rv := s.w.store.nextRV } else s.sets n)) := by
  by_cases hf : f cur = cur
  · have hd' : cur.deleting = false := by rw [hf] at hd; exact hd
    have : s.lockedWrite mem f =
        ({ s with setWrites := s.setWrites + 1, w := s.w.tick }, .ok cur) := by
      simp [Sys.lockedWrite, Sys.beforeSetWrite, hq, hs, hrv, hd', hf]
    rw [this]
    exact ⟨hq, tick_kept _, fun _ => rfl, Or.inl ⟨hf, rfl, rfl, rfl⟩⟩
  · have : s.lockedWrite mem f =
        ((({ s with setWrites := s.setWrites + 1, w := s.w.tick } : Sys).bumpRV.1.setSet mem.name
            (some { f cur with rv := s.w.store.nextRV })).note,
          .ok { f cur with rv := s.w.store.nextRV }) := by
      simp [Sys.lockedWrite, Sys.beforeSetWrite, hq, hs, hrv, hd, hf, Sys.bumpRV, World.tick]
    rw [this]
    refine ⟨hq, ⟨rfl, rfl, rfl⟩, fun _ => rfl, Or.inr ⟨hf, rfl, rfl⟩⟩

/-- what a status update makes of the stored ObjectSet. -/
def statusOf (mem cur : OSet) : OSet :=
  { cur with revision := mem.revision, conds := mem.conds, controllerOf := mem.controllerOf,
             remotePhases := mem.remotePhases }

/-- the bookkeeping of `updateStatus` after its write. -/
def updPost (mem : OSet) (x : Sys × Except ApiErr OSet) : Sys × Except ApiErr OSet :=
  let (s', r) := x
  let ev res := SetEvent.statusUpdate mem.name res mem.revision mem.conds mem.controllerOf mem.remotePhases
  match r with
  | .ok stored => ({ s' with setEvents := s'.setEvents ++ [ev none] }, .ok { mem with rv := stored.rv })
  | .error e => ({ s' with setEvents := s'.setEvents ++ [ev (some e)] }, .error e)

theorem updateStatus_unfold (s : Sys) (mem : OSet) :
    s.updateStatus mem = updPost mem (s.lockedWrite mem (statusOf mem)) := by
  rfl

/-- `updateStatus` of an in-memory copy `mem` that differs from the stored ObjectSet `cur` in
its status only, without third parties: it goes through and `mem` (with a fresh resourceVersion
if anything changed) is what is stored afterwards. -/
theorem updateStatus_quiet (s : Sys) (mem cur : OSet) (hq : s.setEnv = [])
    (hs : s.sets mem.name = some cur) (hagree : statusOf mem cur = mem) (hd : mem.deleting = false) :
    (∃ m, (s.updateStatus mem).2 = .ok m) ∧
    (s.updateStatus mem).1.setEnv = [] ∧ Kept s.w (s.updateStatus mem).1.w ∧
    (∀ k, (s.updateStatus mem).1.w.store.get k = s.w.store.get k) ∧
    (∃ rv', (s.updateStatus mem).1.sets mem.name = some { mem with rv := rv' }) ∧
    (∀ n, n ≠ mem.name → (s.updateStatus mem).1.sets n = s.sets n) ∧
    (mem = cur → (s.updateStatus mem).1.sets = s.sets ∧ (s.updateStatus mem).1.w.store = s.w.store) := by
  have hrv : cur.rv = mem.rv := by have := congrArg OSet.rv hagree; exact this
  obtain ⟨h1, h2, h3, h4⟩ := lockedWrite_quiet s mem cur (statusOf mem) hq hs hrv (by rw [hagree]; exact hd)
  rw [hagree] at h4
  rw [updateStatus_unfold]
  cases hlw : s.lockedWrite mem (statusOf mem) with
  | mk s' r =>
    rw [hlw] at h1 h2 h3 h4
    simp only at h1 h2 h3 h4
    rcases h4 with ⟨he, hr, hsets, hst⟩ | ⟨hne, hr, hsets⟩
    · subst hr
      simp only [updPost]
      refine ⟨⟨_, rfl⟩, h1, h2, h3, ⟨mem.rv, ?_⟩, fun n _ => by rw [hsets], fun _ => ⟨hsets, hst⟩⟩
      rw [hsets, hs, he]
    · subst hr
      simp only [updPost]
      refine ⟨⟨_, rfl⟩, h1, h2, h3, ⟨s.w.store.nextRV, ?_⟩, ?_, fun h => absurd h hne⟩
      · rw [hsets]; simp
      · intro n hn; rw [hsets]; simp [hn]

/-- `reportPausedCondition` looks at the world only through the delegated-phase objects. -/
theorem finishMem_congr (w w' : World) (mem : OSet) (h : w'.phases = w.phases) :
    finishMem w' mem = finishMem w mem := by
  simp only [finishMem, remotePhasesPaused, h]

/-- the in-memory copy at the end of the pass differs from the one the pass started with in
conditions and `controllerOf` only. -/
theorem finishMem_derive_agree (w : World) (mem : OSet) (co : List CRef) (failing : Option String) :
    statusOf (finishMem w (deriveStatus mem co failing)) mem = finishMem w (deriveStatus mem co failing) := by
  simp only [finishMem, statusOf]
  (repeat' split) <;> rfl

/-- with local phases only there is no delegated phase to hand a pause to (fix C09-a). -/
theorem afterPhases_local (rm : Remotes) (mem : OSet) (pr : PhasesRes) (w : World)
    (hl : ∀ ph ∈ mem.phases, ph.cls = "") : afterPhases rm mem pr w = w := by
  unfold afterPhases
  split
  · rename_i failing
    split
    · unfold syncPausedAfter
      have hnil : (phasesAfter failing mem.phases).filter (fun ph => decide (ph.cls ≠ "")) = [] := by
        apply List.filter_eq_nil_iff.2
        intro ph hph
        have hm : ph ∈ mem.phases := by
          unfold phasesAfter at hph
          exact (List.dropWhile_sublist _).subset ((List.drop_sublist _ _).subset hph)
        simp [hl ph hm]
      rw [hnil]; rfl
    · rfl
  · rfl

/-- the tail of the pass once the phases were reconciled without error and no remote phase
reference was collected (local phases only). -/
theorem activePhases_ok (cfg : Cfg) (rm : Remotes) (s : Sys) (mem : OSet) (w : World)
    (co : List CRef) (failing : Option String) (hd : hasDuplicates mem.phases = false)
    (hl : ∀ ph ∈ mem.phases, ph.cls = "")
    (h : reconcilePhases cfg mem.owner (lookupPrev s mem) (rm.recon mem) mem.phases s.w [] = (w, .ok (co, failing)))
    (hr : w.remoteRefs = []) :
    activePhasesCore cfg rm s mem =
      finish { s with w := { w with remoteRefs := [] } } (deriveStatus mem co failing) .ok := by
  simp only [activePhasesCore, hd, Bool.false_eq_true, ↓reduceIte, h, afterPhases_local rm mem _ w hl, hr,
    List.foldl_nil]

end Pko.Props.C10Set
