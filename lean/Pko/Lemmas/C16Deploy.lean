/-
Helper lemmas for property C16: the constraint loop and `Deploy` against the spec predicates
(`constraintsMet`, `constraintsUnmet`, `admissible`).
-/
import Pko.Model.Deploy
import Pko.Model.DeploySpec
namespace Pko.Lemmas.C16
open Pko.Model.Deploy Pko.Model.DeploySpec

theorem consLoop_none_iff (cs : List COut) : consLoop cs = none ↔ COut.err ∈ cs := by
  induction cs with
  | nil => simp [consLoop]
  | cons c cs ih =>
    cases c with
    | met => simp [consLoop, ih]
    | err => simp [consLoop]
    | unmet =>
      simp only [consLoop]
      cases h : consLoop cs with
      | none => simp [ih.mp h]
      | some b =>
        have : ¬ COut.err ∈ cs := fun hm => by rw [ih.mpr hm] at h; cases h
        simp [this]

theorem consLoop_false_iff (cs : List COut) : consLoop cs = some false ↔ cs.all (· == .met) = true := by
  induction cs with
  | nil => simp [consLoop]
  | cons c cs ih =>
    cases c with
    | met => simp [consLoop, ih]
    | err => simp [consLoop]
    | unmet =>
      simp only [consLoop]
      cases h : consLoop cs <;> simp

theorem consLoop_true_iff (cs : List COut) :
    consLoop cs = some true ↔ (cs.all (· != .err) = true ∧ cs.any (· == .unmet) = true) := by
  induction cs with
  | nil => simp [consLoop]
  | cons c cs ih =>
    cases c with
    | met => simp [consLoop, ih]
    | err => simp [consLoop]
    | unmet =>
      simp only [consLoop]
      cases h : consLoop cs with
      | none =>
        have := (consLoop_none_iff cs).mp h
        simp
        exact this
      | some b =>
        have hne : ¬ COut.err ∈ cs := fun hm => by rw [(consLoop_none_iff cs).mpr hm] at h; cases h
        simp
        intro x hx hxe
        subst hxe
        exact hne hx

theorem allMet_false (cs : List COut) (h : consLoop cs ≠ some false) : cs.all (· == .met) = false := by
  cases ha : cs.all (· == .met) with
  | false => rfl
  | true => exact absurd ((consLoop_false_iff cs).mpr ha) h

theorem checkConstraints_met_iff (L : Leaves) : checkConstraints L = .met ↔ constraintsMet L = true := by
  unfold checkConstraints constraintsMet
  cases h : consLoop L.cons with
  | none =>
    have := allMet_false L.cons (by rw [h]; simp)
    simp [this]
  | some b =>
    cases b with
    | true =>
      have := allMet_false L.cons (by rw [h]; simp)
      cases hu : L.uniq <;> simp [uniqueRes, this]
    | false =>
      have := (consLoop_false_iff L.cons).mp h
      cases hu : L.uniq <;> simp [uniqueRes, this]

theorem checkConstraints_unmet_iff (L : Leaves) : checkConstraints L = .unmet ↔ constraintsUnmet L = true := by
  unfold checkConstraints constraintsUnmet
  cases h : consLoop L.cons with
  | none =>
    have h1 := (consLoop_none_iff L.cons).mp h
    have : L.cons.all (· != .err) = false := by
      simp; exact h1
    simp [this]
  | some b =>
    have hne : ¬ COut.err ∈ L.cons := fun hm => by rw [(consLoop_none_iff L.cons).mpr hm] at h; cases h
    have hall : L.cons.all (· != .err) = true := by
      simp; intro x hx hxe; subst hxe; exact hne hx
    cases b with
    | true =>
      have := ((consLoop_true_iff L.cons).mp h).2
      cases hu : L.uniq <;> simp [uniqueRes, this, hall]
    | false =>
      have hf : L.cons.any (· == .unmet) = false := by
        cases ha : L.cons.any (· == .unmet) with
        | false => rfl
        | true => have := (consLoop_true_iff L.cons).mpr ⟨hall, ha⟩; rw [h] at this; cases this
      cases hu : L.uniq <;> simp [uniqueRes, hf, hall]

theorem admissible_iff (L : Leaves) : admissible L = true ↔
    (L.load = true ∧ checkConstraints L = .met ∧ L.cfgJson = true ∧ L.admission = .ok ∧ L.images = true ∧
      L.render = true ∧ L.desired = true) := by
  simp [admissible, checkConstraints_met_iff, and_assoc]

/-- `Deploy` gets as far as the deployment reconciler exactly for admissible packages. -/
theorem deploy_reconciled_iff {T : Type} (t : T) (L : Leaves) (f : RFault) (inv : Inv) (od : OD T) :
    (deploy t L f inv od).reconciled = true ↔ admissible L = true := by
  rw [admissible_iff]
  unfold deploy
  cases L.load <;> simp
  cases checkConstraints L <;> simp
  cases L.cfgJson <;> simp
  cases L.admission <;> simp
  cases L.images <;> simp
  cases L.render <;> simp
  cases L.desired <;> simp
  split <;> simp

/-- Without reaching the deployment reconciler nothing is written. -/
theorem deploy_not_reconciled {T : Type} (t : T) (L : Leaves) (f : RFault) (inv : Inv) (od : OD T)
    (h : (deploy t L f inv od).reconciled = false) :
    (deploy t L f inv od).od = od ∧ (deploy t L f inv od).writes = [] := by
  revert h
  unfold deploy
  cases L.load <;> simp
  cases checkConstraints L <;> simp
  cases L.cfgJson <;> simp
  cases L.admission <;> simp
  cases L.images <;> simp
  cases L.render <;> simp
  cases L.desired <;> simp
  split <;> simp

theorem deploy_of_not_admissible {T : Type} (t : T) (L : Leaves) (f : RFault) (inv : Inv) (od : OD T)
    (h : admissible L = false) :
    (deploy t L f inv od).od = od ∧ (deploy t L f inv od).writes = [] ∧
      (deploy t L f inv od).reconciled = false := by
  have hr : (deploy t L f inv od).reconciled = false := by
    cases hh : (deploy t L f inv od).reconciled with
    | false => rfl
    | true => rw [(deploy_reconciled_iff t L f inv od).mp hh] at h; cases h
  exact ⟨(deploy_not_reconciled t L f inv od hr).1, (deploy_not_reconciled t L f inv od hr).2, hr⟩

/-- What `Deploy` does for an admissible package. -/
theorem deploy_of_admissible {T : Type} (t : T) (L : Leaves) (f : RFault) (inv : Inv) (od : OD T)
    (h : admissible L = true) :
    deploy t L f inv od =
      (if (reconcile od t f).2.2 then ⟨true, inv, (reconcile od t f).1, (reconcile od t f).2.1, true⟩
       else ⟨false, .none, (reconcile od t f).1, (reconcile od t f).2.1, true⟩) := by
  obtain ⟨h1, h2, h3, h4, h5, h6, h7⟩ := (admissible_iff L).mp h
  simp [deploy, h1, h2, h3, h4, h5, h6, h7]

/-! ### the deployment reconciler -/

theorem updateLoop_zero {T : Type} (prev : OD T) (t : T) :
    updateLoop prev t 0 = (some (some t), [.update], false) := by
  simp [updateLoop, retrySteps]

/-- Below the retry budget: `n` refused Updates, then the accepted one. -/
theorem updateLoop_lt {T : Type} (prev : OD T) (t : T) (n : Nat) (h : n < retrySteps) :
    updateLoop prev t n = (some (some t), List.replicate n .updateConflict ++ [.update], false) := by
  simp [updateLoop, h]

/-- Budget used up: nothing of ours is stored, error. -/
theorem updateLoop_ge {T : Type} (prev : OD T) (t : T) (n : Nat) (h : retrySteps ≤ n) :
    updateLoop prev t n = (prev, List.replicate retrySteps .updateConflict, true) := by
  have : ¬ n < retrySteps := by omega
  simp [updateLoop, this]

/-- The loop ends without error only with the fresh template stored by an accepted Update. -/
theorem updateLoop_ok {T : Type} (prev : OD T) (t : T) (n : Nat) (h : (updateLoop prev t n).2.2 = false) :
    (updateLoop prev t n).1 = some (some t) ∧ Write.update ∈ (updateLoop prev t n).2.1 := by
  unfold updateLoop at h ⊢
  split <;> simp_all

theorem updateLoop_err {T : Type} (prev : OD T) (t : T) (n : Nat) (h : (updateLoop prev t n).2.2 = true) :
    (updateLoop prev t n).1 = prev := by
  unfold updateLoop at h ⊢
  split <;> simp_all

/-- **`Reconcile` returns nil only with the fresh template stored** — for every prior state and
every fault or interleaving, in particular for any number of Conflict answers. -/
theorem reconcile_ok {T : Type} (od : OD T) (t : T) (f : RFault) (h : (reconcile od t f).2.2 = false) :
    (reconcile od t f).1 = some (some t) ∧ Write.update ∈ (reconcile od t f).2.1 := by
  unfold reconcile at h ⊢
  by_cases h1 : f = .get
  · simp [h1] at h
  · simp only [h1, if_false] at h ⊢
    cases od with
    | none =>
      by_cases h2 : f = .create
      · simp [h2] at h
      · by_cases h3 : f = .update
        · simp [h3] at h
        · simp only [h2, h3, if_false, Bool.or_eq_false_iff] at h ⊢
          have := updateLoop_ok (some none) t f.conflicts h.1
          exact ⟨this.1, List.mem_cons_of_mem _ this.2⟩
    | some o =>
      by_cases h3 : f = .update
      · simp [h3] at h
      · simp only [h3, if_false, Bool.or_eq_false_iff] at h ⊢
        exact updateLoop_ok (some o) t f.conflicts h.1

/-- `Reconcile` returns an error before anything of the new template is stored, unless the fault
is a late one (after the Update). -/
theorem reconcile_err {T : Type} (od : OD T) (t : T) (f : RFault) (hf : f ≠ .late)
    (h : (reconcile od t f).2.2 = true) :
    (reconcile od t f).1 = od ∨ (od = none ∧ (reconcile od t f).1 = some none) := by
  unfold reconcile at h ⊢
  by_cases h1 : f = .get
  · simp [h1]
  · simp only [h1, if_false] at h ⊢
    cases od with
    | none =>
      by_cases h2 : f = .create
      · simp [h2]
      · by_cases h3 : f = .update
        · simp [h3]
        · simp only [h2, h3, if_false, hf, decide_false, Bool.or_false] at h ⊢
          right; exact ⟨trivial, updateLoop_err _ _ _ h⟩
    | some o =>
      by_cases h3 : f = .update
      · simp [h3]
      · simp only [h3, if_false, hf, decide_false, Bool.or_false] at h ⊢
        left; exact updateLoop_err _ _ _ h

theorem reconcile_none {T : Type} (od : OD T) (t : T) :
    reconcile od t .none =
      (some (some t), (match od with | none => [.create, .update] | some _ => [.update]), false) := by
  cases od <;> simp [reconcile, RFault.conflicts, updateLoop_zero]

/-- **Any number of conflicts below the budget**: the Update is retried until it is accepted;
the fresh template is stored, no error. -/
theorem reconcile_conflict_lt {T : Type} (od : OD T) (t : T) (n : Nat) (h : n < retrySteps) :
    reconcile od t (.conflict n) =
      (some (some t),
       (match od with | none => [.create] | some _ => []) ++ List.replicate n .updateConflict ++ [.update], false) := by
  cases od <;> simp [reconcile, RFault.conflicts, updateLoop_lt _ _ _ h]

/-- **Any number of conflicts at or beyond the budget**: error, the template is not changed. -/
theorem reconcile_conflict_ge {T : Type} (od : OD T) (t : T) (n : Nat) (h : retrySteps ≤ n) :
    reconcile od t (.conflict n) =
      ((match od with | none => some none | some _ => od),
       (match od with | none => [.create] | some _ => []) ++ List.replicate retrySteps .updateConflict, true) := by
  cases od <;> simp [reconcile, RFault.conflicts, updateLoop_ge _ _ _ h]

theorem deploy_of_load_failure {T : Type} (t : T) (L : Leaves) (f : RFault) (inv : Inv) (od : OD T)
    (h : L.load = false) : deploy t L f inv od = ⟨false, .loadError, od, [], false⟩ := by
  simp [deploy, h]

theorem deploy_of_unmet {T : Type} (t : T) (L : Leaves) (f : RFault) (inv : Inv) (od : OD T)
    (hl : L.load = true) (h : constraintsUnmet L = true) :
    deploy t L f inv od = ⟨false, .constraintsFailed, od, [], false⟩ := by
  have := (checkConstraints_unmet_iff L).mpr h
  simp [deploy, hl, this]

end Pko.Lemmas.C16
