/-
Helper lemmas for property C16: the constraint loop and `Deploy` against the spec predicates
(`constraintsMet`, `constraintsUnmet`, `admissible`).
-/
import Pko.Model.Deploy
import Pko.Model.DeploySpec
namespace Pko.Lemmas.C16
open Pko.Model.Deploy Pko.Model.DeploySpec

theorem consLoop_none_iff (cs : List COut) : consLoop cs = none ↔ COut.err ∈ cs := by
  induction cs with
  | nil => simp [consLoop]
  | cons c cs ih =>
    cases c with
    | met => simp [consLoop, ih]
    | err => simp [consLoop]
    | unmet =>
      simp only [consLoop]
      cases h : consLoop cs with
      | none => simp [ih.mp h]
      | some b =>
        have : ¬ COut.err ∈ cs := fun hm => by rw [ih.mpr hm] at h; cases h
        simp [this]

theorem consLoop_false_iff (cs : List COut) : consLoop cs = some false ↔ cs.all (· == .met) = true := by
  induction cs with
  | nil => simp [consLoop]
  | cons c cs ih =>
    cases c with
    | met => simp [consLoop, ih]
    | err => simp [consLoop]
    | unmet =>
      simp only [consLoop]
      cases h : consLoop cs <;> simp

theorem consLoop_true_iff (cs : List COut) :
    consLoop cs = some true ↔ (cs.all (· != .err) = true ∧ cs.any (· == .unmet) = true) := by
  induction cs with
  | nil => simp [consLoop]
  | cons c cs ih =>
    cases c with
    | met => simp [consLoop, ih]
    | err => simp [consLoop]
    | unmet =>
      simp only [consLoop]
      cases h : consLoop cs with
      | none =>
        have := (consLoop_none_iff cs).mp h
        simp
        exact this
      | some b =>
        have hne : ¬ COut.err ∈ cs := fun hm => by rw [(consLoop_none_iff cs).mpr hm] at h; cases h
        simp
        intro x hx hxe
        subst hxe
        exact hne hx

theorem allMet_false (cs : List COut) (h : consLoop cs ≠ some false) : cs.all (· == .met) = false := by
  cases ha : cs.all (· == .met) with
  | false => rfl
  | true => exact absurd ((consLoop_false_iff cs).mpr ha) h

theorem checkConstraints_met_iff (L : Leaves) : checkConstraints L = .met ↔ constraintsMet L = true := by
  unfold checkConstraints constraintsMet
  cases h : consLoop L.cons with
  | none =>
    have := allMet_false L.cons (by rw [h]; simp)
    simp [this]
  | some b =>
    cases b with
    | true =>
      have := allMet_false L.cons (by rw [h]; simp)
      cases hu : L.uniq <;> simp [uniqueRes, this]
    | false =>
      have := (consLoop_false_iff L.cons).mp h
      cases hu : L.uniq <;> simp [uniqueRes, this]

theorem checkConstraints_unmet_iff (L : Leaves) : checkConstraints L = .unmet ↔ constraintsUnmet L = true := by
  unfold checkConstraints constraintsUnmet
  cases h : consLoop L.cons with
  | none =>
    have h1 := (consLoop_none_iff L.cons).mp h
    have : L.cons.all (· != .err) = false := by
      simp; exact h1
    simp [this]
  | some b =>
    have hne : ¬ COut.err ∈ L.cons := fun hm => by rw [(consLoop_none_iff L.cons).mpr hm] at h; cases h
    have hall : L.cons.all (· != .err) = true := by
      simp; intro x hx hxe; subst hxe; exact hne hx
    cases b with
    | true =>
      have := ((consLoop_true_iff L.cons).mp h).2
      cases hu : L.uniq <;> simp [uniqueRes, this, hall]
    | false =>
      have hf : L.cons.any (· == .unmet) = false := by
        cases ha : L.cons.any (· == .unmet) with
        | false => rfl
        | true => have := (consLoop_true_iff L.cons).mpr ⟨hall, ha⟩; rw [h] at this; cases this
      cases hu : L.uniq <;> simp [uniqueRes, hf, hall]

theorem admissible_iff (L : Leaves) : admissible L = true ↔
    (L.load = true ∧ checkConstraints L = .met ∧ L.cfgJson = true ∧ L.admission = .ok ∧ L.images = true ∧
      L.render = true ∧ L.desired = true) := by
  simp [admissible, checkConstraints_met_iff, and_assoc]

/-- `Deploy` gets as far as the deployment reconciler exactly for admissible packages. -/
theorem deploy_reconciled_iff {T : Type} (t : T) (L : Leaves) (f : RFault) (inv : Inv) (od : OD T) :
    (deploy t L f inv od).reconciled = true ↔ admissible L = true := by
  rw [admissible_iff]
  unfold deploy
  cases L.load <;> simp
  cases checkConstraints L <;> simp
  cases L.cfgJson <;> simp
  cases L.admission <;> simp
  cases L.images <;> simp
  cases L.render <;> simp
  cases L.desired <;> simp
  split <;> simp

/-- Without reaching the deployment reconciler nothing is written. -/
theorem deploy_not_reconciled {T : Type} (t : T) (L : Leaves) (f : RFault) (inv : Inv) (od : OD T)
    (h : (deploy t L f inv od).reconciled = false) :
    (deploy t L f inv od).od = od ∧ (deploy t L f inv od).writes = [] := by
  revert h
  unfold deploy
  cases L.load <;> simp
  cases checkConstraints L <;> simp
  cases L.cfgJson <;> simp
  cases L.admission <;> simp
  cases L.images <;> simp
  cases L.render <;> simp
  cases L.desired <;> simp
  split <;> simp

theorem deploy_of_not_admissible {T : Type} (t : T) (L : Leaves) (f : RFault) (inv : Inv) (od : OD T)
    (h : admissible L = false) :
    (deploy t L f inv od).od = od ∧ (deploy t L f inv od).writes = [] ∧
      (deploy t L f inv od).reconciled = false := by
  have hr : (deploy t L f inv od).reconciled = false := by
    cases hh : (deploy t L f inv od).reconciled with
    | false => rfl
    | true => rw [(deploy_reconciled_iff t L f inv od).mp hh] at h; cases h
  exact ⟨(deploy_not_reconciled t L f inv od hr).1, (deploy_not_reconciled t L f inv od hr).2, hr⟩

/-- What `Deploy` does for an admissible package. -/
theorem deploy_of_admissible {T : Type} (t : T) (L : Leaves) (f : RFault) (inv : Inv) (od : OD T)
    (h : admissible L = true) :
    deploy t L f inv od =
      (if (reconcile od t f).2.2 then ⟨true, inv, (reconcile od t f).1, (reconcile od t f).2.1, true⟩
       else ⟨false, .none, (reconcile od t f).1, (reconcile od t f).2.1, true⟩) := by
  obtain ⟨h1, h2, h3, h4, h5, h6, h7⟩ := (admissible_iff L).mp h
  simp [deploy, h1, h2, h3, h4, h5, h6, h7]

theorem deploy_of_load_failure {T : Type} (t : T) (L : Leaves) (f : RFault) (inv : Inv) (od : OD T)
    (h : L.load = false) : deploy t L f inv od = ⟨false, .loadError, od, [], false⟩ := by
  simp [deploy, h]

theorem deploy_of_unmet {T : Type} (t : T) (L : Leaves) (f : RFault) (inv : Inv) (od : OD T)
    (hl : L.load = true) (h : constraintsUnmet L = true) :
    deploy t L f inv od = ⟨false, .constraintsFailed, od, [], false⟩ := by
  have := (checkConstraints_unmet_iff L).mpr h
  simp [deploy, hl, this]

end Pko.Lemmas.C16
