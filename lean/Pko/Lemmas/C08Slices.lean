/-
Helper lemmas for property C08 (a), ObjectSlices: a pass of the ObjectDeployment controller reads of
the objects of a revision only `Rev.allObjects` (inline ++ sliced) and `Rev.sliceMissing`.  Any map on
revision records that preserves those two and everything else the pass reads commutes with every
function of `Pko.Model.Archive`; `inlineAll` (move the objects of all ObjectSlices into the ObjectSet)
is such a map when no slice is missing.  The property theorem is `Pko.Props.C08.slices_behave_like_inline`.
-/
import Pko.Model.Archive
import Pko.Lemmas.C08
namespace Pko.Lemmas.C08Slices
open Pko.Model.Archive

/-- `f` changes nothing a pass reads, except where the objects of a revision are stored. -/
structure SameToPass (f : Rev → Rev) : Prop where
  id : ∀ r, (f r).id = r.id
  rev : ∀ r, (f r).rev = r.rev
  available : ∀ r, (f r).available = r.available
  statusPaused : ∀ r, (f r).statusPaused = r.statusPaused
  lc : ∀ r, (f r).lc = r.lc
  pbp : ∀ r, (f r).pbp = r.pbp
  controllerOf : ∀ r, (f r).controllerOf = r.controllerOf
  hashMatch : ∀ r, (f r).hashMatch = r.hashMatch
  allObjects : ∀ r, (f r).allObjects = r.allObjects
  sliceMissing : ∀ r, (f r).sliceMissing = r.sliceMissing
  /-- `f` commutes with the in-memory mutations of the pause propagation loop -/
  setLc : ∀ r l b, f { r with lc := l, pbp := b } = { f r with lc := l, pbp := b }

variable {f : Rev → Rev}

theorem archived_eq (hf : SameToPass f) (r : Rev) : (f r).archived = r.archived := by
  simp [Rev.archived, hf.lc]

theorem specPaused_eq (hf : SameToPass f) (r : Rev) : (f r).specPaused = r.specPaused := by
  simp [Rev.specPaused, hf.lc]

theorem pausedByParent_eq (hf : SameToPass f) (r : Rev) : (f r).pausedByParent = r.pausedByParent := by
  simp [Rev.pausedByParent, hf.lc, hf.pbp]

theorem ensurePaused_eq (hf : SameToPass f) (o : Rev) : ensurePaused (f o) = ensurePaused o := by
  simp [ensurePaused, hf.statusPaused, specPaused_eq hf, hf.pbp, hf.id]

theorem case1_map (hf : SameToPass f) (lt : Rev) (ps : List Rev) :
    case1 (f lt) (ps.map f) = ((case1 lt ps).1, (case1 lt ps).2.map f) := by
  induction ps with
  | nil => rfl
  | cons p ps ih =>
    simp only [List.map_cons, case1, ih, archived_eq hf, hf.rev, ensurePaused_eq hf]
    split
    · rfl
    · split
      · split <;> simp
      · rfl

theorem pairStep_eq (hf : SameToPass f) (p l : Rev) : pairStep (f p) (f l) = pairStep p l := by
  simp [pairStep, activelyReconciled, archived_eq hf, hf.controllerOf, hf.allObjects, hf.available,
    ensurePaused_eq hf]

theorem iterErr_eq (hf : SameToPass f) (p l : Rev) : iterErr (f p) (f l) = iterErr p l := by
  simp [iterErr, revisionObjects, archived_eq hf, hf.rev, hf.sliceMissing, hf.allObjects]

theorem pairIter_map (hf : SameToPass f) (p l : Rev) :
    pairIter (f p) (f l) = ((pairIter p l).1, (pairIter p l).2.map f) := by
  simp only [pairIter, archived_eq hf, hf.rev, pairStep_eq hf]
  split
  · rfl
  · split
    · rfl
    · split <;> simp

theorem scan_map (hf : SameToPass f) (d : List Rev) :
    scan (d.map f) = ((scan d).1, (scan d).2.map f) := by
  induction d with
  | nil => rfl
  | cons l rest ih =>
    cases rest with
    | nil =>
      simp only [List.map_cons, List.map_nil, scan, hf.available]
      split
      · simpa using case1_map hf l []
      · rfl
    | cons p ps =>
      simp only [List.map_cons] at ih ⊢
      unfold scan
      simp only [hf.available, iterErr_eq hf, pairIter_map hf, ih]
      split
      · have := case1_map hf l (p :: ps).reverse
        simpa [List.map_reverse] using this
      · split
        · rfl
        · simp

theorem scanErr_map (hf : SameToPass f) (d : List Rev) : scanErr (d.map f) = scanErr d := by
  induction d with
  | nil => rfl
  | cons l rest ih =>
    cases rest with
    | nil => simp [scanErr]
    | cons p ps =>
      simp only [List.map_cons] at ih ⊢
      unfold scanErr
      simp only [hf.available, iterErr_eq hf, ih]

theorem insertAsc_map (hf : SameToPass f) (x : Rev) (l : List Rev) :
    insertAsc (f x) (l.map f) = (insertAsc x l).map f := by
  induction l with
  | nil => rfl
  | cons y ys ih =>
    simp only [List.map_cons, insertAsc, hf.rev, ih]
    split <;> simp

theorem sortAsc_map (hf : SameToPass f) (l : List Rev) : sortAsc (l.map f) = (sortAsc l).map f := by
  induction l with
  | nil => rfl
  | cons x xs ih =>
    show insertAsc (f x) (sortAsc (xs.map f)) = (insertAsc x (sortAsc xs)).map f
    rw [ih, insertAsc_map hf]

theorem gcLoop_map (hf : SameToPass f) (n : Int) (prev : List Rev) :
    gcLoop n (prev.map f) = gcLoop n prev := by
  induction prev generalizing n with
  | nil => rfl
  | cons p ps ih => simp only [List.map_cons, gcLoop, hf.id, ih]

theorem gc_map (hf : SameToPass f) (prev : List Rev) (limit : Option Int) :
    gc (prev.map f) limit = gc prev limit := by
  simp [gc, gcLoop_map hf]

theorem markLoop_map (hf : SameToPass f) (prev : List Rev) (limit : Option Int) (fin : Bool)
    (os : List Rev) (gone : List Nat) :
    markLoop (prev.map f) limit fin (os.map f) gone = markLoop prev limit fin os gone := by
  induction os generalizing gone with
  | nil => rfl
  | cons o os ih =>
    simp only [List.map_cons, markLoop, archived_eq hf, hf.statusPaused, hf.id, gc_map hf, ih]

theorem reconcile_map (hf : SameToPass f) (prev : List Rev) (cur : Option Rev) (limit : Option Int)
    (fin : Bool) : reconcile (prev.map f) (cur.map f) limit fin = reconcile prev cur limit fin := by
  cases cur with
  | none => rfl
  | some c =>
    have hall : prev.map f ++ [f c] = (prev ++ [c]).map f := by simp
    simp only [Option.map_some, reconcile, hall, sortAsc_map hf, ← List.map_reverse, scan_map hf,
      scanErr_map hf, List.length_map, ← List.map_take, markLoop_map hf, List.isEmpty_map]

/-- The writes of the pause propagation loop, as a function of the listed revisions. -/
def propWrite (b : Bool) (o : Rev) : Option Write :=
  if o.archived then none
  else if b != o.pausedByParent then some (if b then .ppause o.id else .activate o.id)
  else none

theorem propagate_fst (b : Bool) (l : List Rev) : (propagate b l).1 = l.filterMap (propWrite b) := by
  induction l with
  | nil => rfl
  | cons o os ih =>
    unfold propagate
    simp only [List.filterMap_cons, propWrite]
    split
    · simpa using ih
    · split
      · split <;> simp [ih]
      · simpa using ih

theorem propWrite_eq (hf : SameToPass f) (b : Bool) (o : Rev) : propWrite b (f o) = propWrite b o := by
  simp [propWrite, archived_eq hf, pausedByParent_eq hf, hf.id]

theorem touch_comm (hf : SameToPass f) (b : Bool) (o : Rev) :
    Pko.Lemmas.C08.touch b (f o) = f (Pko.Lemmas.C08.touch b o) := by
  unfold Pko.Lemmas.C08.touch
  rw [archived_eq hf, pausedByParent_eq hf]
  split
  · rfl
  · split
    · split
      · exact (hf.setLc o .paused true).symm
      · exact (hf.setLc o .active false).symm
    · rfl

theorem propagate_map (hf : SameToPass f) (b : Bool) (l : List Rev) :
    propagate b (l.map f) = ((propagate b l).1, (propagate b l).2.map f) := by
  apply Prod.ext
  · simp only [propagate_fst, List.filterMap_map, Function.comp_def, propWrite_eq hf]
  · simp only [Pko.Lemmas.C08.propagate_snd, List.map_map, Function.comp_def, touch_comm hf]

theorem osr_map (hf : SameToPass f) (listing : List Rev) (b : Bool) (limit : Option Int) (fin : Bool) :
    osr (listing.map f) b limit fin = osr listing b limit fin := by
  have hany : ((sortAsc listing).map f).any (fun o => o.rev == 0) = (sortAsc listing).any (fun o => o.rev == 0) := by
    simp [List.any_map, Function.comp_def, hf.rev]
  unfold osr
  simp only [sortAsc_map hf, hany, propagate_map hf, List.getLast?_map]
  have hrec : ∀ cur : Option Rev,
      reconcile ((propagate b (sortAsc listing)).2.map f).dropLast (cur.map f) limit fin =
      reconcile (propagate b (sortAsc listing)).2.dropLast cur limit fin := by
    intro cur
    rw [← List.map_dropLast, reconcile_map hf]
  have hrec0 : reconcile ((propagate b (sortAsc listing)).2.map f) none limit fin =
      reconcile (propagate b (sortAsc listing)).2 none limit fin :=
    reconcile_map hf _ none limit fin
  rw [hrec, hrec0]
  cases (sortAsc listing).getLast? with
  | none => rfl
  | some m => simp only [Option.map_some, hf.hashMatch]

/-- The same ObjectSet with the objects of all its ObjectSlices inline (and no slices left). -/
def inlineAll (r : Rev) : Rev := { r with objects := r.objects ++ r.sliced, sliced := [], sliceMissing := false }

/-- `inlineAll` on revisions none of whose slices is missing, the identity on the others. -/
def inlineReadable (r : Rev) : Rev := if r.sliceMissing then r else inlineAll r

theorem inlineReadable_same : SameToPass inlineReadable := by
  constructor <;> intro r <;> (try intro l b) <;> unfold inlineReadable inlineAll <;>
    cases hm : r.sliceMissing <;> simp [Rev.allObjects, hm]

end Pko.Lemmas.C08Slices
