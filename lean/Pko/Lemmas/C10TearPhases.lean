/-
C10, teardown at the controller level, part 1 (World level): `teardownPhases` — the teardown of
all LOCAL phases of an ObjectSet in (reversed) order — from every store.  One pass never fails,
releases every object of every phase it gets through, touches nothing else, and stops exactly at
the first phase (in teardown order) in which the owner still controlled something.  Core Lean only.
-/
import Pko.Props.C10Set

namespace Pko.Props.C10Lift
open Pko.Kube Pko.Model.Phase Pko.Model.ObjectSet Pko.Model.Status
open Pko.Props.C10 Pko.Props.C10Set

/-! ### one object, one phase: what the result says about the state the step started from -/

theorem beforeWrite_kept (w : World) : Kept w w.beforeWrite := by
  simp [Kept, World.beforeWrite, World.tick]

/-- the teardown step never touches the schedule, the delegated phases or the remote references. -/
theorem teardownPhaseObject_kept (cfg : Cfg) (ow : Owner) (p : PObj) (w : World) :
    Kept w (teardownPhaseObject cfg ow p w).1 := by
  simp only [teardownPhaseObject]
  repeat' split
  all_goals first
    | exact Kept.refl w
    | exact ⟨rfl, rfl, rfl⟩

/-- a step that reports "not done" found the object under the owner's control. -/
theorem teardown_object_notDone (cfg : Cfg) (ow : Owner) (p : PObj) (w : World)
    (h : (teardownPhaseObject cfg ow p w).2 = .notDone) : ¬ Released cfg ow p w.store := by
  intro hrel
  simp only [teardownPhaseObject, watch_store, watch_beforeWrite_store] at h
  split at h
  · cases h
  · cases h
  · split at h
    · cases h
    · rename_i cur hg
      have hc := hrel cur hg
      simp only [hc, Bool.not_false, ↓reduceIte] at h
      split at h
      · cases h
      · split at h <;> cases h

/-- a step that reports "done" (third parties quiet) found nothing under the owner's control:
the only other way to "done" — the pinned delete answering NotFound — needs somebody else to
delete the object between the read and the delete. -/
theorem teardown_object_done (cfg : Cfg) (ow : Owner) (p : PObj) (w : World) (hq : Quiet w)
    (h : (teardownPhaseObject cfg ow p w).2 = .done) (hpf : preflightObj cfg ow "" false p = .ok) :
    Released cfg ow p w.store := by
  intro o hg
  simp only [teardownPhaseObject, watch_store, watch_beforeWrite_store, hpf, hg] at h
  cases hc : isController cfg.st (ow.ref true) o with
  | false => rfl
  | true =>
    exfalso
    simp only [hc, Bool.not_true, Bool.false_eq_true, ↓reduceIte] at h
    have hbs := beforeWrite_store w hq
    simp only [Store.delete, hbs, hg, ne_eq, not_true_eq_false, or_self, ↓reduceIte] at h
    repeat' split at h
    all_goals simp_all

/-- the phase is released: the owner controls none of its objects. -/
def PhaseReleased (cfg : Cfg) (ow : Owner) (st : Store) (ph : PhaseSpec) : Prop :=
  ∀ p ∈ ph.objs, Released cfg ow p st

theorem phaseReleased_congr {cfg : Cfg} {ow : Owner} {ph : PhaseSpec} {s s' : Store}
    (h : ∀ p ∈ ph.objs, s'.get (keyOf cfg ow p) = s.get (keyOf cfg ow p)) :
    PhaseReleased cfg ow s' ph ↔ PhaseReleased cfg ow s ph :=
  ⟨fun hr p hp => released_congr (h p hp).symm (hr p hp), fun hr p hp => released_congr (h p hp) (hr p hp)⟩

/-- **what the result of the object loop of `TeardownPhase` says**: "done" ⇒ everything was
released already when the loop started; "not done" ⇒ something was not. -/
theorem tear_go_result (cfg : Cfg) (ow : Owner) :
    ∀ (ps : List PObj) (w : World) (allDone : Bool),
      Quiet w → TearOk cfg ow ps → (∀ p ∈ ps, NoForeignFinalizer cfg ow p w.store) →
      Kept w (teardownPhase.go cfg ow ps w allDone).1 ∧
      ((teardownPhase.go cfg ow ps w allDone).2 = .done → allDone = true ∧ ∀ p ∈ ps, Released cfg ow p w.store) ∧
      ((teardownPhase.go cfg ow ps w allDone).2 = .notDone →
        allDone = false ∨ ∃ p ∈ ps, ¬ Released cfg ow p w.store) := by
  intro ps
  induction ps with
  | nil =>
    intro w allDone _ _ _
    simp only [teardownPhase.go]
    refine ⟨Kept.refl w, ?_, ?_⟩
    · cases allDone <;> simp
    · cases allDone <;> simp
  | cons p rest ih =>
    intro w allDone hq hok hnf
    obtain ⟨_, _, hq', hframe⟩ :=
      teardown_object_releases cfg ow p w hq (hok.1 p (by simp)) (hnf p (by simp))
    have hkept := teardownPhaseObject_kept cfg ow p w
    have hnd := teardown_object_notDone cfg ow p w
    have hdn := fun h => teardown_object_done cfg ow p w hq h (hok.1 p (by simp))
    have hk := hok.2
    simp only [List.map_cons, List.nodup_cons] at hk
    have hok' : TearOk cfg ow rest := ⟨fun q hq2 => hok.1 q (by simp [hq2]), hk.2⟩
    simp only [teardownPhase.go]
    cases hstep : teardownPhaseObject cfg ow p w with
    | mk w' res =>
      rw [hstep] at hq' hframe hkept hnd hdn
      simp only at hq' hframe hkept hnd hdn
      have hkey : ∀ q ∈ rest, w'.store.get (keyOf cfg ow q) = w.store.get (keyOf cfg ow q) := by
        intro q hq2
        apply hframe
        intro he; exact hk.1 (he ▸ List.mem_map.2 ⟨q, hq2, rfl⟩)
      have hnf' : ∀ q ∈ rest, NoForeignFinalizer cfg ow q w'.store :=
        fun q hq2 => nofin_congr (hkey q hq2) (hnf q (by simp [hq2]))
      cases res with
      | err =>
        dsimp only
        exact ⟨hkept, fun h => (by cases h), fun h => (by cases h)⟩
      | done =>
        dsimp only
        obtain ⟨h1, h2, h3⟩ := ih w' allDone hq' hok' hnf'
        refine ⟨hkept.trans h1, ?_, ?_⟩
        · intro hd
          obtain ⟨ha, hr⟩ := h2 hd
          refine ⟨ha, ?_⟩
          intro q hq2
          rcases List.mem_cons.1 hq2 with rfl | hq3
          · exact hdn rfl
          · exact released_congr (hkey q hq3).symm (hr q hq3)
        · intro hn
          rcases h3 hn with ha | ⟨q, hq2, hnr⟩
          · exact Or.inl ha
          · exact Or.inr ⟨q, by simp [hq2], fun hr => hnr (released_congr (hkey q hq2) hr)⟩
      | notDone =>
        dsimp only
        obtain ⟨h1, h2, _⟩ := ih w' false hq' hok' hnf'
        refine ⟨hkept.trans h1, ?_, ?_⟩
        · intro hd; exact absurd (h2 hd).1 (by simp)
        · intro _; exact Or.inr ⟨p, by simp, hnd rfl⟩

/-! ### all phases -/

/-- the phase list as teardown needs it: local phases only, teardown may look at every object
(`TearOk`'s preflight part for every phase), store keys different across the WHOLE list. -/
structure TearPhasesOk (cfg : Cfg) (ow : Owner) (phs : List PhaseSpec) : Prop where
  localOnly : ∀ ph ∈ phs, ph.cls = ""
  preflight : ∀ ph ∈ phs, ∀ p ∈ ph.objs, preflightObj cfg ow "" false p = .ok
  distinct : (phaseKeys cfg ow phs).Nodup

theorem TearPhasesOk.tail {cfg : Cfg} {ow : Owner} {ph : PhaseSpec} {phs : List PhaseSpec}
    (h : TearPhasesOk cfg ow (ph :: phs)) : TearPhasesOk cfg ow phs where
  localOnly := fun x hx => h.localOnly x (by simp [hx])
  preflight := fun x hx => h.preflight x (by simp [hx])
  distinct := by
    have := h.distinct
    rw [phaseKeys_cons, List.nodup_append] at this
    exact this.2.1

/-- every single phase satisfies the phase-level `TearOk`. -/
theorem TearPhasesOk.head {cfg : Cfg} {ow : Owner} {ph : PhaseSpec} {phs : List PhaseSpec}
    (h : TearPhasesOk cfg ow (ph :: phs)) : TearOk cfg ow ph.objs := by
  refine ⟨h.preflight ph (by simp), ?_⟩
  have := h.distinct
  rw [phaseKeys_cons, List.nodup_append] at this
  exact this.1

theorem TearPhasesOk.headNotLater {cfg : Cfg} {ow : Owner} {ph : PhaseSpec} {phs : List PhaseSpec}
    (h : TearPhasesOk cfg ow (ph :: phs)) : ∀ k ∈ ph.objs.map (keyOf cfg ow), k ∉ phaseKeys cfg ow phs := by
  have := h.distinct
  rw [phaseKeys_cons, List.nodup_append] at this
  intro k hk hk2
  exact this.2.2 k hk k hk2 rfl

theorem phaseKeys_reverse_perm (cfg : Cfg) (ow : Owner) (phs : List PhaseSpec) :
    (phaseKeys cfg ow phs.reverse).Perm (phaseKeys cfg ow phs) :=
  List.Perm.map _ (List.Perm.flatMap_right _ (List.reverse_perm phs))

/-- the controller tears the phases down in reversed order. -/
theorem TearPhasesOk.reverse {cfg : Cfg} {ow : Owner} {phs : List PhaseSpec}
    (h : TearPhasesOk cfg ow phs) : TearPhasesOk cfg ow phs.reverse where
  localOnly := fun x hx => h.localOnly x (List.mem_reverse.1 hx)
  preflight := fun x hx => h.preflight x (List.mem_reverse.1 hx)
  distinct := (phaseKeys_reverse_perm cfg ow phs).nodup_iff.2 h.distinct

/-- the result of one teardown pass over local phases `phs` (already in teardown order): `done` =
the phases the pass got through, `rest` = the ones it did not reach. -/
structure TearShape (cfg : Cfg) (ow : Owner) (phs : List PhaseSpec) (w : World) (r : World × TRes)
    (done rest : List PhaseSpec) : Prop where
  split : phs = done ++ rest
  /-- the owner controls no object of any phase the pass got through -/
  released : ∀ ph ∈ done, PhaseReleased cfg ow r.1.store ph
  /-- nothing outside these phases was touched (in particular not the phases it did not reach) -/
  frame : ∀ k', k' ∉ phaseKeys cfg ow done → r.1.store.get k' = w.store.get k'
  kept : Kept w r.1
  /-- the pass reports done — then every phase was released before it started — or it stopped at
  the FIRST phase, in teardown order, in which the owner still controlled something -/
  outcome :
    (rest = [] ∧ r.2 = .done ∧ ∀ ph ∈ done, PhaseReleased cfg ow w.store ph) ∨
    (∃ pre ph, done = pre ++ [ph] ∧ r.2 = .notDone ∧
      (∀ ph' ∈ pre, PhaseReleased cfg ow w.store ph') ∧ ¬ PhaseReleased cfg ow w.store ph)

/-- **One teardown pass over all (local) phases, from every store.** -/
theorem tearPhases_shape (cfg : Cfg) (ow : Owner) (remote : PhaseSpec → World → World × TRes) :
    ∀ (phs : List PhaseSpec) (w : World),
      Quiet w → TearPhasesOk cfg ow phs →
      (∀ ph ∈ phs, ∀ p ∈ ph.objs, NoForeignFinalizer cfg ow p w.store) →
      ∃ done rest, TearShape cfg ow phs w (teardownPhases cfg ow remote phs w) done rest := by
  intro phs
  induction phs with
  | nil =>
    intro w _ _ _
    exact ⟨[], [], ⟨rfl, by simp, fun _ _ => rfl, Kept.refl w, Or.inl ⟨rfl, rfl, by simp⟩⟩⟩
  | cons ph rest ih =>
    intro w hq hok hnf
    have hloc : ph.cls = "" := hok.localOnly ph (by simp)
    have htok : TearOk cfg ow ph.objs := hok.head
    have hnf1 : ∀ p ∈ ph.objs, NoForeignFinalizer cfg ow p w.store := hnf ph (by simp)
    obtain ⟨hne, hrel, hq1, hframe⟩ := tear_go_releases cfg ow ph.objs w true hq htok hnf1
    obtain ⟨hkept, hdone, hnot⟩ := tear_go_result cfg ow ph.objs w true hq htok hnf1
    have hkeys1 : phaseKeys cfg ow [ph] = ph.objs.map (keyOf cfg ow) := by simp [phaseKeys]
    cases hstep : teardownPhase.go cfg ow ph.objs w true with
    | mk w1 res =>
      rw [hstep] at hne hrel hq1 hframe hkept hdone hnot
      simp only at hne hrel hq1 hframe hkept hdone hnot
      -- keys of later phases are not touched by this phase's step
      have hlater : ∀ x ∈ rest, ∀ p ∈ x.objs, w1.store.get (keyOf cfg ow p) = w.store.get (keyOf cfg ow p) := by
        intro x hx p hp
        apply hframe
        intro hc
        exact hok.headNotLater _ hc (mem_phaseKeys hx hp)
      cases res with
      | err => exact absurd rfl hne
      | notDone =>
        have hunf : teardownPhases cfg ow remote (ph :: rest) w = (w1, .notDone) := by
          simp only [teardownPhases, hloc, ne_eq, not_true_eq_false, ↓reduceIte, teardownPhase, hstep]
        rw [hunf]
        refine ⟨[ph], rest, ⟨rfl, ?_, ?_, hkept, Or.inr ⟨[], ph, rfl, rfl, by simp, ?_⟩⟩⟩
        · intro x hx
          simp only [List.mem_singleton] at hx
          subst hx
          exact hrel
        · intro k' hk'
          rw [hkeys1] at hk'
          exact hframe k' hk'
        · intro hall
          rcases hnot rfl with h | ⟨p, hp, hnr⟩
          · cases h
          · exact hnr (hall p hp)
      | done =>
        have hunf : teardownPhases cfg ow remote (ph :: rest) w = teardownPhases cfg ow remote rest w1 := by
          simp only [teardownPhases, hloc, ne_eq, not_true_eq_false, ↓reduceIte, teardownPhase, hstep]
        rw [hunf]
        have hnf' : ∀ x ∈ rest, ∀ p ∈ x.objs, NoForeignFinalizer cfg ow p w1.store :=
          fun x hx p hp => nofin_congr (hlater x hx p hp) (hnf x (by simp [hx]) p hp)
        obtain ⟨done, rest', sh⟩ := ih w1 hq1 hok.tail hnf'
        -- keys of `ph` are not touched by the rest of the pass
        have hkeep : ∀ p ∈ ph.objs, (teardownPhases cfg ow remote rest w1).1.store.get (keyOf cfg ow p) =
            w1.store.get (keyOf cfg ow p) := by
          intro p hp
          apply sh.frame
          intro hc
          have : keyOf cfg ow p ∈ phaseKeys cfg ow rest := by
            rw [sh.split, phaseKeys_append]; exact List.mem_append_left _ hc
          exact hok.headNotLater _ (List.mem_map.2 ⟨p, hp, rfl⟩) this
        have hwas : PhaseReleased cfg ow w.store ph := (hdone rfl).2
        have hback : ∀ x ∈ done, (PhaseReleased cfg ow w1.store x ↔ PhaseReleased cfg ow w.store x) := by
          intro x hx
          exact phaseReleased_congr (hlater x (by rw [sh.split]; exact List.mem_append_left _ hx))
        refine ⟨ph :: done, rest', ⟨by rw [sh.split]; rfl, ?_, ?_, hkept.trans sh.kept, ?_⟩⟩
        · intro x hx
          rcases List.mem_cons.1 hx with rfl | hx
          · exact fun p hp => released_congr (hkeep p hp) (hrel p hp)
          · exact sh.released x hx
        · intro k' hk'
          rw [phaseKeys_cons, List.mem_append, not_or] at hk'
          rw [sh.frame k' hk'.2, hframe k' hk'.1]
        · rcases sh.outcome with ⟨hr, hres, hall⟩ | ⟨pre, ph', hd, hres, hall, hnr⟩
          · refine Or.inl ⟨hr, hres, ?_⟩
            intro x hx
            rcases List.mem_cons.1 hx with rfl | hx
            · exact hwas
            · exact (hback x hx).1 (hall x hx)
          · refine Or.inr ⟨ph :: pre, ph', by rw [hd]; rfl, hres, ?_, ?_⟩
            · intro x hx
              rcases List.mem_cons.1 hx with rfl | hx
              · exact hwas
              · exact (hback x (by rw [hd]; exact List.mem_append_left _ hx)).1 (hall x hx)
            · intro h
              exact hnr ((hback ph' (by rw [hd]; simp)).2 h)

/-- corollary: a teardown pass never fails. -/
theorem TearShape.noErr {cfg : Cfg} {ow : Owner} {phs : List PhaseSpec} {w : World} {r : World × TRes}
    {done rest : List PhaseSpec} (sh : TearShape cfg ow phs w r done rest) : r.2 ≠ .err := by
  rcases sh.outcome with ⟨_, h, _⟩ | ⟨_, _, _, h, _⟩ <;> rw [h] <;> exact fun h => nomatch h

/-- corollary: the fairness hypothesis is an invariant of the pass. -/
theorem TearShape.nofin {cfg : Cfg} {ow : Owner} {phs : List PhaseSpec} {w : World} {r : World × TRes}
    {done rest : List PhaseSpec} (sh : TearShape cfg ow phs w r done rest)
    (hnf : ∀ ph ∈ phs, ∀ p ∈ ph.objs, NoForeignFinalizer cfg ow p w.store) :
    ∀ ph ∈ phs, ∀ p ∈ ph.objs, NoForeignFinalizer cfg ow p r.1.store := by
  intro ph hph p hp
  by_cases hd : keyOf cfg ow p ∈ phaseKeys cfg ow done
  · simp only [phaseKeys, List.mem_map, List.mem_flatMap] at hd
    obtain ⟨q, ⟨ph', hph', hq'⟩, hkq⟩ := hd
    intro o ho hc
    have := sh.released ph' hph' q hq' o (by rw [hkq]; exact ho)
    rw [this] at hc; cases hc
  · exact nofin_congr (sh.frame _ hd) (hnf ph hph p hp)

end Pko.Props.C10Lift
