import Pko.Lemmas.C10Obj
namespace Pko.Props.C10
open Pko.Kube Pko.Model.Phase Pko.Model.ObjectSet Pko.Model.Converge

theorem get_set_same (s : Store) (k : Key) (o : Option Obj) : (s.set k o).get k = o := by
  simp [Store.get, Store.set]

theorem get_set_other (s : Store) (k k' : Key) (o : Option Obj) (h : k' ≠ k) : (s.set k o).get k' = s.get k' := by
  simp [Store.get, Store.set, h]

/-- `commit` on a live object: the stored result carries `next`'s PKO-managed fields and keeps
the status; no other key is touched. -/
theorem commit_alive (s : Store) (k : Key) (prev next : Obj) (hg : s.get k = some prev) (hd : prev.deleting = false) :
    (commit s k prev next).1.get k = some (commit s k prev next).2 ∧
    (commit s k prev next).2.owners = next.owners ∧
    (commit s k prev next).2.annOwners = next.annOwners ∧
    (commit s k prev next).2.rev = next.rev ∧
    (commit s k prev next).2.cacheLabel = next.cacheLabel ∧
    (commit s k prev next).2.pkgLabel = next.pkgLabel ∧
    (commit s k prev next).2.payload = next.payload ∧
    (commit s k prev next).2.deleting = false ∧
    (commit s k prev next).2.ready = next.ready ∧ (commit s k prev next).2.obsGen = next.obsGen ∧
    ∀ k', k' ≠ k → (commit s k prev next).1.get k' = s.get k' := by
  by_cases h : ({ next with uid := prev.uid, deleting := prev.deleting, gen := prev.gen, rv := prev.rv } : Obj) = prev
  · have e : commit s k prev next = (s, prev) := by
      simp only [commit, hd, Bool.false_and, Bool.false_eq_true, ↓reduceIte]
      rw [hd] at h
      simp [h]
    rw [e]
    refine ⟨hg, ?_, ?_, ?_, ?_, ?_, ?_, hd, ?_, ?_, fun _ _ => rfl⟩
    · exact (congrArg Obj.owners h).symm
    · exact (congrArg Obj.annOwners h).symm
    · exact (congrArg Obj.rev h).symm
    · exact (congrArg Obj.cacheLabel h).symm
    · exact (congrArg Obj.pkgLabel h).symm
    · exact (congrArg Obj.payload h).symm
    · exact (congrArg Obj.ready h).symm
    · exact (congrArg Obj.obsGen h).symm
  · rw [hd] at h
    simp only [commit, hd, Bool.false_and, Bool.false_eq_true, ↓reduceIte, h]
    refine ⟨by simp [Store.get, Store.set], ?_, ?_, ?_, ?_, ?_, ?_, ?_, ?_, ?_, ?_⟩
    all_goals (try (split <;> rfl))
    intro k' hk'
    simp only [Store.get, Store.set, hk', ↓reduceIte]

/-- what a server-side apply leaves at the key when the object existed (and is not being deleted). -/
theorem apply_some (s : Store) (k : Key) (a : Applied) (cur : Obj)
    (hg : s.get k = some cur) (hd : cur.deleting = false) :
    (s.apply k a).1.get k = some (s.apply k a).2.1 ∧
    (s.apply k a).2.1.owners = mergeOwners cur.owners a.owners ∧
    (s.apply k a).2.1.annOwners = a.annOwners.getD cur.annOwners ∧
    (s.apply k a).2.1.rev = .num a.rev ∧
    (s.apply k a).2.1.cacheLabel = true ∧
    (s.apply k a).2.1.pkgLabel = (if a.pkgLabel = "" then cur.pkgLabel else a.pkgLabel) ∧
    (s.apply k a).2.1.payload = a.payload ∧
    (s.apply k a).2.1.deleting = false ∧
    (s.apply k a).2.1.ready = cur.ready ∧ (s.apply k a).2.1.obsGen = cur.obsGen ∧
    ∀ k', k' ≠ k → (s.apply k a).1.get k' = s.get k' := by
  simp only [Store.apply, hg]
  exact commit_alive s k cur _ hg hd

/-- what a server-side apply creates when the object was absent. -/
theorem apply_none (s : Store) (k : Key) (a : Applied) (hg : s.get k = none) :
    (s.apply k a).1.get k = some (s.apply k a).2.1 ∧
    (s.apply k a).2.1.owners = a.owners ∧
    (s.apply k a).2.1.annOwners = a.annOwners.getD [] ∧
    (s.apply k a).2.1.rev = .num a.rev ∧
    (s.apply k a).2.1.cacheLabel = true ∧
    (s.apply k a).2.1.pkgLabel = a.pkgLabel ∧
    (s.apply k a).2.1.payload = a.payload ∧
    (s.apply k a).2.1.deleting = false ∧
    ∀ k', k' ≠ k → (s.apply k a).1.get k' = s.get k' := by
  simp only [Store.apply, hg]
  refine ⟨by simp [Store.get, Store.set], trivial, trivial, trivial, trivial, trivial, trivial, trivial, ?_⟩
  intro k' hk'
  simp only [Store.get, Store.set, hk', ↓reduceIte]

end Pko.Props.C10
