/-
C10, teardown at the controller level, part 2 (Sys level): one pass of
`Pko.Model.ObjectSet.reconcile` over an ObjectSet with LOCAL phases that is being deleted or is
archived (`deletionOrArchival`): the teardown of the phases (part 1), then — once it reports done —
the removal of the `cached` finalizer and, for an archived ObjectSet, the Archived status.
Core Lean only.
-/
import Pko.Lemmas.C10TearPhases

namespace Pko.Props.C10Lift
open Pko.Kube Pko.Model.Phase Pko.Model.ObjectSet Pko.Model.Status
open Pko.Props.C10 Pko.Props.C10Set
open Pko.Lemmas.ObjectSet

/-- `b` is `a` with other conditions and another resourceVersion. -/
def SameButStatus (a b : OSet) : Prop := ∃ cs rv, b = { a with conds := cs, rv := rv }

theorem SameButStatus.refl (a : OSet) : SameButStatus a a := ⟨a.conds, a.rv, rfl⟩

theorem SameButStatus.trans {a b c : OSet} (h1 : SameButStatus a b) (h2 : SameButStatus b c) :
    SameButStatus a c := by
  obtain ⟨cs, rv, rfl⟩ := h1
  obtain ⟨cs', rv', rfl⟩ := h2
  exact ⟨cs', rv', rfl⟩

theorem SameButStatus.owner {a b : OSet} (h : SameButStatus a b) : b.owner = a.owner := by
  obtain ⟨cs, rv, rfl⟩ := h; rfl

theorem SameButStatus.phases {a b : OSet} (h : SameButStatus a b) : b.phases = a.phases := by
  obtain ⟨cs, rv, rfl⟩ := h; rfl

theorem SameButStatus.deleting {a b : OSet} (h : SameButStatus a b) : b.deleting = a.deleting := by
  obtain ⟨cs, rv, rfl⟩ := h; rfl

/-- The ObjectSet `name` is stored as `mem` and is in the part of its life cycle where the pass
tears it down: it is being deleted (and not archived), or it is archived (and not being deleted);
the `cached` finalizer is still present, no orphan finalizer, Archived not yet reported; local
phases that teardown may look at (`TearOk`'s preflight part, for every phase), store keys distinct
across the whole ObjectSet, and nothing the ObjectSet controls is held by a foreign finalizer. -/
structure TearSet (cfg : Cfg) (s : Sys) (name : String) (mem : OSet) : Prop where
  stored : s.sets name = some mem
  named : mem.name = name
  fin : mem.finCached = true
  noOrphan : mem.finOrphan = false
  notArchived : condTrue mem.conds "Archived" = false
  mode : (mem.deleting = true ∧ mem.lifecycle ≠ .archived) ∨ (mem.deleting = false ∧ mem.lifecycle = .archived)
  phases : TearPhasesOk cfg mem.owner mem.phases
  nofin : ∀ ph ∈ mem.phases, ∀ p ∈ ph.objs, NoForeignFinalizer cfg mem.owner p s.w.store

/-- What a finished teardown leaves of the ObjectSet: its watches were freed; a deleted ObjectSet
is gone (the finalizer was the last thing holding it); an archived one stays, without finalizer,
reporting Archived=True and controlling nothing. -/
def Finished (s' : Sys) (name : String) (mem : OSet) : Prop :=
  name ∈ s'.freed ∧
  (mem.deleting = true → s'.sets name = none) ∧
  (mem.deleting = false → ∃ cs rv,
    s'.sets name = some { mem with finCached := false, controllerOf := [], conds := cs, rv := rv } ∧
    condTrue cs "Archived" = true)

/-- **after a finished teardown further passes are the identity** (the ObjectSet is gone, or the
archived short-circuit applies). -/
theorem finished_is_fixpoint (cfg : Cfg) (rm : Remotes) (name : String) (s' : Sys) (mem : OSet)
    (h : Finished s' name mem) : reconcile cfg rm name s' = (s', .ok) := by
  obtain ⟨_, hd, ha⟩ := h
  cases hdel : mem.deleting with
  | true => simp [reconcile, hd hdel]
  | false =>
    obtain ⟨cs, rv, hs, hc⟩ := ha hdel
    simp [reconcile, hs, hc]

/-! ### the writes on the ObjectSet, third parties quiet -/

/-- removing the finalizer of an ObjectSet in deletion removes the ObjectSet. -/
theorem setFinalizer_removes (s : Sys) (mem : OSet) (hq : s.setEnv = []) (hs : s.sets mem.name = some mem)
    (hf : mem.finCached = true) (hdel : mem.deleting = true) (horph : mem.finOrphan = false) :
    (s.setFinalizer mem false).2 = .ok { mem with finCached := false } ∧
    (s.setFinalizer mem false).1.sets = (fun n => if n = mem.name then none else s.sets n) ∧
    (s.setFinalizer mem false).1.setEnv = [] ∧ Kept s.w (s.setFinalizer mem false).1.w ∧
    (s.setFinalizer mem false).1.w.store = s.w.store ∧ (s.setFinalizer mem false).1.freed = s.freed := by
  simp [Sys.setFinalizer, Sys.lockedWrite, Sys.beforeSetWrite, Sys.setSet, Sys.note, hq, hs, hf, hdel, horph,
    Kept, World.tick]

theorem lockedWrite_freed (s : Sys) (mem : OSet) (f : OSet → OSet) (hq : s.setEnv = []) :
    (s.lockedWrite mem f).1.freed = s.freed := by
  simp only [Sys.lockedWrite, Sys.beforeSetWrite, hq, List.filter_nil, List.foldl_nil]
  repeat' split
  all_goals rfl

theorem updateStatus_freed (s : Sys) (mem : OSet) (hq : s.setEnv = []) : (s.updateStatus mem).1.freed = s.freed := by
  simp only [Sys.updateStatus]
  split <;> simp [lockedWrite_freed s mem _ hq]

/-- removing the finalizer of an ObjectSet that is not in deletion: a plain metadata write. -/
theorem setFinalizer_drops (s : Sys) (mem : OSet) (hq : s.setEnv = []) (hs : s.sets mem.name = some mem)
    (hf : mem.finCached = true) (hdel : mem.deleting = false) :
    (s.setFinalizer mem false).2 = .ok { mem with finCached := false, rv := s.w.store.nextRV } ∧
    (s.setFinalizer mem false).1.sets =
      (fun n => if n = mem.name then some { mem with finCached := false, rv := s.w.store.nextRV } else s.sets n) ∧
    (s.setFinalizer mem false).1.setEnv = [] ∧ Kept s.w (s.setFinalizer mem false).1.w ∧
    (∀ k, (s.setFinalizer mem false).1.w.store.get k = s.w.store.get k) ∧
    (s.setFinalizer mem false).1.freed = s.freed := by
  have hfr := lockedWrite_freed s mem (fun cur => { cur with finCached := false }) hq
  obtain ⟨h1, h2, h3, h4⟩ := lockedWrite_quiet s mem mem (fun cur => { cur with finCached := false }) hq hs rfl hdel
  have hne : ({ mem with finCached := false } : OSet) ≠ mem := by
    intro h
    have := congrArg OSet.finCached h
    simp only [hf] at this
    cases this
  rcases h4 with ⟨he, _⟩ | ⟨_, hr, hsets⟩
  · exact absurd he hne
  · simp only [Sys.setFinalizer, hf, Bool.true_eq_false, ↓reduceIte]
    cases hlw : s.lockedWrite mem (fun cur => { cur with finCached := false }) with
    | mk s' r =>
      rw [hlw] at h1 h2 h3 hr hsets hfr
      simp only at h1 h2 h3 hr hsets hfr
      subst hr
      exact ⟨rfl, hsets, h1, h2, h3, hfr⟩

theorem condTrue_archived_after (cs : List Cond) (g : Nat) :
    condTrue (removeCond (setCond cs ⟨"Archived", "True", "Archived", g, ""⟩) "Available") "Archived" = true := by
  rw [condTrue_removeCond_other _ _ _ (by decide)]
  exact condTrue_setCond_true _ _ _ _ _

theorem condTrue_archiving (cs : List Cond) (g : Nat) :
    condTrue (removeCond (setCond cs ⟨"Archived", "False", "ArchivalInProgress", g, ""⟩) "Available") "Archived" = false := by
  rw [condTrue_removeCond_other _ _ _ (by decide)]
  exact condTrue_setCond_false _ _ _ _ _ _ (by decide)

/-! ### `deletionOrArchival` in normal form -/

/-- the tail of `deletionOrArchival` after the finalizer was removed. -/
def doneTail (s : Sys) (m : OSet) : Sys × Res :=
  if m.lifecycle = .archived then
    afterStatus (s.updateStatus { m with
      conds := removeCond (setCond m.conds ⟨"Archived", "True", "Archived", m.gen, ""⟩) "Available",
      controllerOf := [] }) .ok
  else (s, .ok)

/-- the tail of `deletionOrArchival` when the teardown is not done yet. -/
def notDoneTail (s : Sys) (m : OSet) : Sys × Res :=
  if m.lifecycle = .archived then
    afterStatus (s.updateStatus { m with
      conds := removeCond (setCond m.conds ⟨"Archived", "False", "ArchivalInProgress", m.gen, ""⟩) "Available" }) .ok
  else (s, .ok)

theorem doa_eq (cfg : Cfg) (rm : Remotes) (s : Sys) (mem : OSet) :
    deletionOrArchival cfg rm s mem =
      match (if mem.finCached then teardown cfg mem (rm.tear mem) s.w else (s.w, TRes.done)) with
      | (w, .err) => ({ s with w := w }, .err)
      | (w, .notDone) => notDoneTail { s with w := w } mem
      | (w, .done) =>
        match ({ s with w := w.free mem.owner.wref, freed := s.freed ++ [mem.name] } : Sys).setFinalizer mem false with
        | (s, .error _) => (s, .err)
        | (s, .ok m) => doneTail s m := by
  simp only [deletionOrArchival, doneTail, notDoneTail]
  cases (if mem.finCached then teardown cfg mem (rm.tear mem) s.w else (s.w, TRes.done)) with
  | mk w tr =>
    cases tr with
    | err => rfl
    | notDone =>
      simp only
      by_cases h : mem.lifecycle = .archived <;> simp [h]
    | done =>
      simp only
      cases Sys.setFinalizer { s with w := w.free mem.owner.wref, freed := s.freed ++ [mem.name] } mem false with
      | mk s' r =>
        cases r with
        | error e => rfl
        | ok m =>
          simp only
          by_cases h : m.lifecycle = .archived <;> simp [h]

theorem doneTail_archived (s : Sys) (m : OSet) (h : m.lifecycle = .archived) :
    doneTail s m = afterStatus (s.updateStatus { m with
      conds := removeCond (setCond m.conds ⟨"Archived", "True", "Archived", m.gen, ""⟩) "Available",
      controllerOf := [] }) .ok := by
  simp only [doneTail, if_pos h]

theorem doneTail_other (s : Sys) (m : OSet) (h : m.lifecycle ≠ .archived) : doneTail s m = (s, .ok) := by
  simp only [doneTail, if_neg h]

theorem notDoneTail_archived (s : Sys) (m : OSet) (h : m.lifecycle = .archived) :
    notDoneTail s m = afterStatus (s.updateStatus { m with
      conds := removeCond (setCond m.conds ⟨"Archived", "False", "ArchivalInProgress", m.gen, ""⟩) "Available" }) .ok := by
  simp only [notDoneTail, if_pos h]

theorem notDoneTail_other (s : Sys) (m : OSet) (h : m.lifecycle ≠ .archived) : notDoneTail s m = (s, .ok) := by
  simp only [notDoneTail, if_neg h]

/-! ### the pass -/

/-- for an ObjectSet in teardown the pass is `deletionOrArchival`. -/
theorem reconcile_tearing (cfg : Cfg) (rm : Remotes) (name : String) (s : Sys) (mem : OSet)
    (ht : TearSet cfg s name mem) : reconcile cfg rm name s = deletionOrArchival cfg rm s mem := by
  have : (mem.deleting || decide (mem.lifecycle = .archived)) = true := by
    rcases ht.mode with ⟨h, _⟩ | ⟨_, h⟩ <;> simp [h]
  simp only [reconcile, ht.stored, ht.notArchived, Bool.false_eq_true, ↓reduceIte, this]

/-- … and its teardown part is `teardownPhases` over the reversed phase list. -/
theorem teardown_tearing (cfg : Cfg) (rm : Remotes) (name : String) (s : Sys) (mem : OSet)
    (ht : TearSet cfg s name mem) :
    (if mem.finCached then teardown cfg mem (rm.tear mem) s.w else (s.w, TRes.done)) =
      teardownPhases cfg mem.owner (rm.tear mem) mem.phases.reverse s.w := by
  simp only [ht.fin, ↓reduceIte, teardown, ht.noOrphan, Bool.false_eq_true]

/-- **One controller pass over an ObjectSet in teardown**, from every store: the pass ends `.ok`
(never `.err`); it gets through a prefix `done` of the phases in teardown order (= reversed spec
order), after which the ObjectSet controls no object of these phases, and touches nothing else;
either every phase was released already — then the finalizer is removed and the teardown is
`Finished` — or it stopped at the FIRST phase that was not (which now is), and the ObjectSet is
again in teardown with the same spec (so the pass can be iterated). -/
theorem teardown_pass (cfg : Cfg) (rm : Remotes) (name : String) (s : Sys) (mem : OSet)
    (hq : QuietSys s) (ht : TearSet cfg s name mem) :
    (reconcile cfg rm name s).2 = .ok ∧ QuietSys (reconcile cfg rm name s).1 ∧
    (∀ n, n ≠ name → (reconcile cfg rm name s).1.sets n = s.sets n) ∧
    (reconcile cfg rm name s).1.w.phases = s.w.phases ∧
    ∃ done rest, mem.phases.reverse = done ++ rest ∧
      (∀ ph ∈ done, PhaseReleased cfg mem.owner (reconcile cfg rm name s).1.w.store ph) ∧
      (∀ k', k' ∉ phaseKeys cfg mem.owner done →
        (reconcile cfg rm name s).1.w.store.get k' = s.w.store.get k') ∧
      ((rest = [] ∧ (∀ ph ∈ done, PhaseReleased cfg mem.owner s.w.store ph) ∧
          Finished (reconcile cfg rm name s).1 name mem) ∨
       (∃ pre ph, done = pre ++ [ph] ∧ (∀ ph' ∈ pre, PhaseReleased cfg mem.owner s.w.store ph') ∧
          ¬ PhaseReleased cfg mem.owner s.w.store ph ∧
          ∃ mem', TearSet cfg (reconcile cfg rm name s).1 name mem' ∧ SameButStatus mem mem')) := by
  obtain ⟨done, rest, sh⟩ := tearPhases_shape cfg mem.owner (rm.tear mem) mem.phases.reverse s.w hq.objs
    ht.phases.reverse (fun ph hph => ht.nofin ph (List.mem_reverse.1 hph))
  have hnofin := sh.nofin (fun ph hph => ht.nofin ph (List.mem_reverse.1 hph))
  rw [reconcile_tearing cfg rm name s mem ht]
  rw [doa_eq, teardown_tearing cfg rm name s mem ht]
  cases htp : teardownPhases cfg mem.owner (rm.tear mem) mem.phases.reverse s.w with
  | mk w1 tr =>
    rw [htp] at sh hnofin
    have hkept : Kept s.w w1 := sh.kept
    have hrel : ∀ ph ∈ done, PhaseReleased cfg mem.owner w1.store ph := sh.released
    have hframe : ∀ k', k' ∉ phaseKeys cfg mem.owner done → w1.store.get k' = s.w.store.get k' := sh.frame
    have hnf1 : ∀ ph ∈ mem.phases, ∀ p ∈ ph.objs, NoForeignFinalizer cfg mem.owner p w1.store :=
      fun ph hph => hnofin ph (List.mem_reverse.2 hph)
    have hq1 : QuietSys { s with w := w1 } := ⟨hq.sets, hkept.1.trans hq.objs, hkept.2.2.trans hq.refs⟩
    -- transporting everything along a write on the ObjectSet that leaves managed objects alone
    have transport : ∀ (s' : Sys), (∀ k, s'.w.store.get k = w1.store.get k) →
        (∀ ph ∈ done, PhaseReleased cfg mem.owner s'.w.store ph) ∧
        (∀ k', k' ∉ phaseKeys cfg mem.owner done → s'.w.store.get k' = s.w.store.get k') ∧
        (∀ ph ∈ mem.phases, ∀ p ∈ ph.objs, NoForeignFinalizer cfg mem.owner p s'.w.store) := by
      intro s' hst
      refine ⟨?_, ?_, ?_⟩
      · intro ph hph p hp; exact released_congr (hst _) (hrel ph hph p hp)
      · intro k' hk'; rw [hst]; exact hframe k' hk'
      · intro ph hph p hp; exact nofin_congr (hst _) (hnf1 ph hph p hp)
    rcases sh.outcome with ⟨hr, hres, hall⟩ | ⟨pre, ph, hd, hres, hall, hnr⟩
    · -- the teardown reports done: finalizer, then (archived) status
      simp only at hres
      subst hres
      simp only
      rcases ht.mode with ⟨hdel, hlc⟩ | ⟨hdel, hlc⟩
      · -- deleted ObjectSet: removing the finalizer removes it
        obtain ⟨f1, f2, f3, f4, f5, f6⟩ := setFinalizer_removes
          { s with w := w1.free mem.owner.wref, freed := s.freed ++ [mem.name] } mem hq.sets (by rw [ht.named]; exact ht.stored)
          ht.fin hdel ht.noOrphan
        cases hsf : Sys.setFinalizer { s with w := w1.free mem.owner.wref, freed := s.freed ++ [mem.name] } mem false with
        | mk s3 r =>
          rw [hsf] at f1 f2 f3 f4 f5 f6
          simp only at f1 f2 f3 f4 f5 f6
          -- (`Free` only touched the process's cache registrations)
          simp only [free_store] at f1 f5
          have f4 : Kept w1 s3.w := f4
          subst f1
          simp only
          have hlc' : ({ mem with finCached := false } : OSet).lifecycle ≠ .archived := hlc
          rw [doneTail_other _ _ hlc']
          obtain ⟨t1, t2, _⟩ := transport s3 (fun k => by rw [f5])
          refine ⟨rfl, ⟨f3, f4.1.trans (hkept.1.trans hq.objs), f4.2.2.trans (hkept.2.2.trans hq.refs)⟩,
            ?_, f4.2.1.trans hkept.2.1, done, rest, sh.split, t1, t2, Or.inl ⟨hr, hall, ?_, ?_, ?_⟩⟩
          · intro n hn; rw [f2]; simp [ht.named, hn]
          · rw [f6, ← ht.named]; simp
          · intro _; rw [f2]; simp [ht.named]
          · intro h; rw [hdel] at h; cases h
      · -- archived ObjectSet: finalizer dropped, then Archived=True is reported
        obtain ⟨f1, f2, f3, f4, f5, f6⟩ := setFinalizer_drops
          { s with w := w1.free mem.owner.wref, freed := s.freed ++ [mem.name] } mem hq.sets (by rw [ht.named]; exact ht.stored)
          ht.fin hdel
        cases hsf : Sys.setFinalizer { s with w := w1.free mem.owner.wref, freed := s.freed ++ [mem.name] } mem false with
        | mk s3 r =>
          rw [hsf] at f1 f2 f3 f4 f5 f6
          simp only at f1 f2 f3 f4 f5 f6
          -- (`Free` only touched the process's cache registrations)
          simp only [free_store] at f1 f5
          have f4 : Kept w1 s3.w := f4
          subst f1
          simp only
          have hlc' : ({ mem with finCached := false, rv := w1.store.nextRV } : OSet).lifecycle = .archived := hlc
          rw [doneTail_archived _ _ hlc']
          generalize hm2 : ({ mem with
              finCached := false, rv := w1.store.nextRV,
              conds := removeCond (setCond mem.conds ⟨"Archived", "True", "Archived", mem.gen, ""⟩) "Available",
              controllerOf := [] } : OSet) = mem2
          have hname2 : mem2.name = mem.name := by rw [← hm2]
          obtain ⟨⟨m', hm'⟩, u1, u2, u3, ⟨rv', u4⟩, u5, _⟩ := updateStatus_quiet s3 mem2
            { mem with finCached := false, rv := w1.store.nextRV } f3
            (by rw [hname2, f2]; simp) (by rw [← hm2]; rfl) (by rw [← hm2]; exact hdel)
          have hfreed : (s3.updateStatus mem2).1.freed = s.freed ++ [mem.name] := by
            rw [updateStatus_freed s3 mem2 f3, f6]
          obtain ⟨t1, t2, _⟩ := transport (s3.updateStatus mem2).1 (fun k => by rw [u3, f5])
          refine ⟨afterStatus_snd_ok _ _ m' hm', ?_, ?_, ?_, done, rest, sh.split, ?_, ?_, Or.inl ⟨hr, hall, ?_, ?_, ?_⟩⟩
          · rw [afterStatus_fst]
            exact ⟨u1, u2.1.trans (f4.1.trans (hkept.1.trans hq.objs)),
              u2.2.2.trans (f4.2.2.trans (hkept.2.2.trans hq.refs))⟩
          · intro n hn
            rw [afterStatus_fst, u5 n (by rw [hname2, ht.named]; exact hn), f2]
            simp [ht.named, hn]
          · rw [afterStatus_fst]; exact u2.2.1.trans (f4.2.1.trans hkept.2.1)
          · rw [afterStatus_fst]; exact t1
          · rw [afterStatus_fst]; exact t2
          · rw [afterStatus_fst, hfreed, ← ht.named]; simp
          · intro h; rw [hdel] at h; cases h
          · intro _
            rw [afterStatus_fst]
            refine ⟨mem2.conds, rv', ?_, ?_⟩
            · rw [← ht.named, ← hname2, u4, ← hm2]
            · rw [← hm2]; exact condTrue_archived_after _ _
    · -- the teardown stopped at a phase that still had something to delete
      simp only at hres
      subst hres
      simp only
      rcases ht.mode with ⟨hdel, hlc⟩ | ⟨hdel, hlc⟩
      · -- deleted ObjectSet: nothing is written
        rw [notDoneTail_other _ _ hlc]
        obtain ⟨t1, t2, t3⟩ := transport { s with w := w1 } (fun _ => rfl)
        refine ⟨rfl, hq1, fun _ _ => rfl, hkept.2.1, done, rest, sh.split, t1, t2,
          Or.inr ⟨pre, ph, hd, hall, hnr, mem, ?_, SameButStatus.refl mem⟩⟩
        exact { stored := ht.stored, named := ht.named, fin := ht.fin, noOrphan := ht.noOrphan,
                notArchived := ht.notArchived, mode := ht.mode, phases := ht.phases, nofin := t3 }
      · -- archived ObjectSet: ArchivalInProgress is reported
        rw [notDoneTail_archived _ _ hlc]
        generalize hm2 : ({ mem with
            conds := removeCond (setCond mem.conds ⟨"Archived", "False", "ArchivalInProgress", mem.gen, ""⟩) "Available" } : OSet) = mem2
        have hname2 : mem2.name = mem.name := by rw [← hm2]
        obtain ⟨⟨m', hm'⟩, u1, u2, u3, ⟨rv', u4⟩, u5, _⟩ := updateStatus_quiet { s with w := w1 } mem2 mem hq.sets
          (by rw [hname2, ht.named]; exact ht.stored) (by rw [← hm2]; rfl) (by rw [← hm2]; exact hdel)
        obtain ⟨t1, t2, t3⟩ := transport (Sys.updateStatus { s with w := w1 } mem2).1 (fun k => by rw [u3])
        have hsame : SameButStatus mem { mem2 with rv := rv' } := ⟨mem2.conds, rv', by rw [← hm2]⟩
        refine ⟨afterStatus_snd_ok _ _ m' hm', ?_, ?_, ?_, done, rest, sh.split, ?_, ?_,
          Or.inr ⟨pre, ph, hd, hall, hnr, { mem2 with rv := rv' }, ?_, hsame⟩⟩
        · rw [afterStatus_fst]
          exact ⟨u1, u2.1.trans (hkept.1.trans hq.objs), u2.2.2.trans (hkept.2.2.trans hq.refs)⟩
        · intro n hn
          rw [afterStatus_fst, u5 n (by rw [hname2, ht.named]; exact hn)]
        · rw [afterStatus_fst]; exact u2.2.1.trans hkept.2.1
        · rw [afterStatus_fst]; exact t1
        · rw [afterStatus_fst]; exact t2
        · rw [afterStatus_fst]
          exact { stored := by rw [← ht.named, ← hname2]; exact u4
                  named := by rw [← ht.named, ← hname2]
                  fin := by rw [← hm2]; exact ht.fin
                  noOrphan := by rw [← hm2]; exact ht.noOrphan
                  notArchived := by rw [← hm2]; exact condTrue_archiving _ _
                  mode := by rw [← hm2]; exact ht.mode
                  phases := by rw [hsame.owner, hsame.phases]; exact ht.phases
                  nofin := by rw [hsame.owner, hsame.phases]; exact t3 }

end Pko.Props.C10Lift
