/-
C10, ghost non-interference, part 3 (Sys level): the writes on the ObjectSet itself
(`Sys.lockedWrite`, `Sys.setFinalizer`, `Sys.updateStatus`) tick the ghost counter of the world
and record the ghost `trail`, but never read either.  `GhostEqS s s'` relates systems that agree
on every NON-ghost field.  Core Lean only.
-/
import Pko.Lemmas.C10GhostRemote

namespace Pko.Props.C10Lift
open Pko.Kube Pko.Model.Phase Pko.Model.ObjectSet Pko.Model.Status Pko.Model.Converge Pko.Model.Remote

/-- **Equal up to ghost state** (systems): the worlds are ghost-equal and every other field except
the ghost `trail` agrees. -/
structure GhostEqS (s s' : Sys) : Prop where
  w : GhostEq s.w s'.w
  sets : s.sets = s'.sets
  setEvents : s.setEvents = s'.setEvents
  freed : s.freed = s'.freed
  setWrites : s.setWrites = s'.setWrites
  setEnv : s.setEnv = s'.setEnv
  slices : s.slices = s'.slices
  scopeOv : s.scopeOv = s'.scopeOv
  od : s.od = s'.od

/-- erase the ghost fields of a system. -/
def eraseS (s : Sys) : Sys := { s with w := eraseW s.w, trail := [] }

theorem GhostEqS.refl (s : Sys) : GhostEqS s s := ⟨GhostEq.refl _, rfl, rfl, rfl, rfl, rfl, rfl, rfl, rfl⟩

theorem GhostEqS.symm {s s' : Sys} (h : GhostEqS s s') : GhostEqS s' s :=
  ⟨h.w.symm, h.sets.symm, h.setEvents.symm, h.freed.symm, h.setWrites.symm, h.setEnv.symm, h.slices.symm,
   h.scopeOv.symm, h.od.symm⟩

theorem GhostEqS.trans {a b c : Sys} (h1 : GhostEqS a b) (h2 : GhostEqS b c) : GhostEqS a c :=
  ⟨h1.w.trans h2.w, h1.sets.trans h2.sets, h1.setEvents.trans h2.setEvents, h1.freed.trans h2.freed,
   h1.setWrites.trans h2.setWrites, h1.setEnv.trans h2.setEnv, h1.slices.trans h2.slices,
   h1.scopeOv.trans h2.scopeOv, h1.od.trans h2.od⟩

theorem ghostEqS_erase (s : Sys) : GhostEqS s (eraseS s) :=
  ⟨ghostEq_erase s.w, rfl, rfl, rfl, rfl, rfl, rfl, rfl, rfl⟩

/-- `GhostEqS` is exactly "equal after erasing the ghost fields". -/
theorem ghostEqS_iff_erase (s s' : Sys) : GhostEqS s s' ↔ eraseS s = eraseS s' := by
  constructor
  · intro h
    have hw := (ghostEq_iff_erase s.w s'.w).1 h.w
    obtain ⟨w, sets, setEvents, freed, setWrites, setEnv, trail, slices, scopeOv, od⟩ := s
    obtain ⟨w', sets', setEvents', freed', setWrites', setEnv', trail', slices', scopeOv', od'⟩ := s'
    obtain ⟨_, g1, g2, g3, g4, g5, g6, g7, g8⟩ := h
    simp only at hw g1 g2 g3 g4 g5 g6 g7 g8
    subst g1 g2 g3 g4 g5 g6 g7 g8
    simp only [eraseS, hw]
  · intro h
    have e : ∀ {α : Type} (f : Sys → α), f (eraseS s) = f (eraseS s') := fun f => congrArg f h
    exact ⟨(ghostEq_iff_erase _ _).2 (e Sys.w), e Sys.sets, e Sys.setEvents, e Sys.freed, e Sys.setWrites,
      e Sys.setEnv, e Sys.slices, e Sys.scopeOv, e Sys.od⟩

/-- arming a crash point (and resetting the per-pass ghost state) changes ghost fields only. -/
theorem arm_ghost (s : Sys) (budget : Option Nat) : GhostEqS (arm s budget) s :=
  ⟨⟨rfl, rfl, rfl, rfl, rfl, rfl, rfl, rfl, rfl⟩, rfl, rfl, rfl, rfl, rfl, rfl, rfl, rfl⟩

/-- a step `Sys → Sys × α` on two systems: ghost-equal systems afterwards, the same result. -/
def RelS {α : Type} (x y : Sys × α) : Prop := GhostEqS x.1 y.1 ∧ x.2 = y.2

theorem RelS.mk' {α : Type} {s s' : Sys} (h : GhostEqS s s') (r : α) : RelS (s, r) (s', r) := ⟨h, rfl⟩

theorem RelS.elim {α : Type} {x y : Sys × α} (h : RelS x y) :
    ∃ s s' r, x = (s, r) ∧ y = (s', r) ∧ GhostEqS s s' := by
  obtain ⟨s, r⟩ := x
  obtain ⟨s', r'⟩ := y
  obtain ⟨h1, h2⟩ := h
  simp only at h1 h2
  subst h2
  exact ⟨s, s', r, rfl, rfl, h1⟩

/-- replacing the world by a ghost-equal one. -/
theorem withW_ghost {s s' : Sys} (h : GhostEqS s s') {w w' : World} (hw : GhostEq w w') :
    GhostEqS { s with w := w } { s' with w := w' } :=
  ⟨hw, h.sets, h.setEvents, h.freed, h.setWrites, h.setEnv, h.slices, h.scopeOv, h.od⟩

theorem withSetEvents_ghost {s s' : Sys} (h : GhostEqS s s') (e : SetEvent) :
    GhostEqS { s with setEvents := s.setEvents ++ [e] } { s' with setEvents := s'.setEvents ++ [e] } :=
  ⟨h.w, h.sets, by simp only [h.setEvents], h.freed, h.setWrites, h.setEnv, h.slices, h.scopeOv, h.od⟩

theorem withFreed_ghost {s s' : Sys} (h : GhostEqS s s') (n : String) :
    GhostEqS { s with freed := s.freed ++ [n] } { s' with freed := s'.freed ++ [n] } :=
  ⟨h.w, h.sets, h.setEvents, by simp only [h.freed], h.setWrites, h.setEnv, h.slices, h.scopeOv, h.od⟩

/-! ### the ghost bookkeeping and the write primitives -/

/-- `note` only touches the ghost trail. -/
theorem note_ghost_self (s : Sys) : GhostEqS s s.note := ⟨GhostEq.refl _, rfl, rfl, rfl, rfl, rfl, rfl, rfl, rfl⟩

theorem note_ghost {s s' : Sys} (h : GhostEqS s s') : GhostEqS s.note s'.note :=
  (note_ghost_self s).symm.trans (h.trans (note_ghost_self s'))

theorem setSet_ghost {s s' : Sys} (h : GhostEqS s s') (n : String) (o : Option OSet) :
    GhostEqS (s.setSet n o) (s'.setSet n o) :=
  ⟨h.w, by simp only [Sys.setSet, h.sets], h.setEvents, h.freed, h.setWrites, h.setEnv, h.slices, h.scopeOv, h.od⟩

/-- bumping the store-wide resourceVersion counter. -/
theorem bumpStore_ghost {w w' : World} (h : GhostEq w w') :
    GhostEq { w with store := { w.store with nextRV := w.store.nextRV + 1 } }
            { w' with store := { w'.store with nextRV := w'.store.nextRV + 1 } } :=
  ⟨by simp only [h.store], h.writes, h.env, h.events, h.phases, h.phaseEvents, h.remoteRefs, h.applied, h.watched⟩

theorem bumpRV_ghost {s s' : Sys} (h : GhostEqS s s') : RelS s.bumpRV s'.bumpRV :=
  ⟨withW_ghost h (bumpStore_ghost h.w), by simp only [Sys.bumpRV, h.w.store]⟩

theorem thirdPartyStore_ghost {s s' : Sys} (h : GhostEqS s s') (cur next : OSet) (specEdit : Bool) :
    GhostEqS (s.thirdPartyStore cur next specEdit) (s'.thirdPartyStore cur next specEdit) := by
  simp only [Sys.thirdPartyStore]
  split
  · exact h
  · rw [h.w.store]
    exact setSet_ghost (withW_ghost h (by have := bumpStore_ghost h.w; rw [h.w.store] at this; exact this)) _ _

/-- third-party operations on ObjectSets do not read the ghost state. -/
theorem applySetEnv_ghost {s s' : Sys} (h : GhostEqS s s') (op : SetEnvOp) :
    GhostEqS (s.applySetEnv op) (s'.applySetEnv op) := by
  cases op with
  | lifecycle n l =>
    simp only [Sys.applySetEnv]
    rw [congrFun h.sets n]
    split
    · exact thirdPartyStore_ghost h _ _ _
    · exact h
  | touch n =>
    simp only [Sys.applySetEnv]
    rw [congrFun h.sets n]
    split
    · rw [h.w.store]
      exact setSet_ghost (withW_ghost h (by have := bumpStore_ghost h.w; rw [h.w.store] at this; exact this)) _ _
    · exact h
  | delete n orphan =>
    simp only [Sys.applySetEnv]
    rw [congrFun h.sets n]
    split
    · rename_i c _
      have h1 : GhostEqS (if orphan then s.thirdPartyStore c { c with finOrphan := true } false else s)
          (if orphan then s'.thirdPartyStore c { c with finOrphan := true } false else s') := by
        cases orphan
        · exact h
        · exact thirdPartyStore_ghost h _ _ _
      revert h1
      generalize (if orphan then s.thirdPartyStore c { c with finOrphan := true } false else s) = s1
      generalize (if orphan then s'.thirdPartyStore c { c with finOrphan := true } false else s') = s1'
      intro h1
      rw [congrFun h1.sets n]
      split
      · split
        · split
          · exact h1
          · exact thirdPartyStore_ghost h1 _ _ _
        · exact setSet_ghost h1 _ _
      · exact h1
    · exact h
  | editPayload n ph ob v =>
    simp only [Sys.applySetEnv]
    rw [congrFun h.sets n]
    split
    · exact thirdPartyStore_ghost h _ _ _
    · exact h
  | status n v =>
    simp only [Sys.applySetEnv]
    rw [congrFun h.sets n]
    split
    · split
      · split
        · exact h
        · exact thirdPartyStore_ghost h _ _ _
      · split
        · exact h
        · exact thirdPartyStore_ghost h _ _ _
    · exact h

theorem foldl_applySetEnv_ghost (l : List (Nat × SetEnvOp)) :
    ∀ {s s' : Sys}, GhostEqS s s' →
      GhostEqS (l.foldl (fun s e => s.applySetEnv e.2) s) (l.foldl (fun s e => s.applySetEnv e.2) s') := by
  induction l with
  | nil => intro s s' h; exact h
  | cons a t ih => intro s s' h; exact ih (applySetEnv_ghost h a.2)

theorem beforeSetWrite_ghost {s s' : Sys} (h : GhostEqS s s') : GhostEqS s.beforeSetWrite s'.beforeSetWrite := by
  simp only [Sys.beforeSetWrite, h.setEnv, h.setWrites]
  have h1 := foldl_applySetEnv_ghost (s'.setEnv.filter (·.1 = s'.setWrites)) h
  exact ⟨h1.w, h1.sets, h1.setEvents, h1.freed, by simp only [h1.setWrites], h1.setEnv, h1.slices, h1.scopeOv, h1.od⟩

/-- **`Sys.lockedWrite` does not read the ghost state**: ghost-equal systems afterwards, the same
response. -/
theorem lockedWrite_ghost (mem : OSet) (f : OSet → OSet) {s s' : Sys} (h : GhostEqS s s') :
    RelS (s.lockedWrite mem f) (s'.lockedWrite mem f) := by
  have h1 : GhostEqS { s.beforeSetWrite with w := s.beforeSetWrite.w.tick }
      { s'.beforeSetWrite with w := s'.beforeSetWrite.w.tick } :=
    withW_ghost (beforeSetWrite_ghost h) (tick_ghost (beforeSetWrite_ghost h).w)
  simp only [Sys.lockedWrite]
  rw [congrFun (beforeSetWrite_ghost h).sets mem.name]
  revert h1
  generalize ({ s.beforeSetWrite with w := s.beforeSetWrite.w.tick } : Sys) = t
  generalize ({ s'.beforeSetWrite with w := s'.beforeSetWrite.w.tick } : Sys) = t'
  intro h1
  split
  · exact RelS.mk' h1 _
  · split
    · exact RelS.mk' h1 _
    · split
      · exact RelS.mk' (note_ghost (setSet_ghost h1 _ _)) _
      · split
        · exact RelS.mk' h1 _
        · obtain ⟨t1, t1', r, e1, e2, h2⟩ := (bumpRV_ghost h1).elim
          simp only [e1, e2]
          exact RelS.mk' (note_ghost (setSet_ghost h2 _ _)) _

/-- **`Sys.setFinalizer` does not read the ghost state.** -/
theorem setFinalizer_ghost (mem : OSet) (present : Bool) {s s' : Sys} (h : GhostEqS s s') :
    RelS (s.setFinalizer mem present) (s'.setFinalizer mem present) := by
  simp only [Sys.setFinalizer]
  split
  · exact RelS.mk' h _
  · obtain ⟨t, t', r, e1, e2, h1⟩ := (lockedWrite_ghost mem (fun cur => { cur with finCached := present }) h).elim
    simp only [e1, e2]
    cases r with
    | ok stored => exact RelS.mk' (withSetEvents_ghost h1 _) _
    | error e => exact RelS.mk' (withSetEvents_ghost h1 _) _

/-- **`Sys.updateStatus` does not read the ghost state.** -/
theorem updateStatus_ghost (mem : OSet) {s s' : Sys} (h : GhostEqS s s') :
    RelS (s.updateStatus mem) (s'.updateStatus mem) := by
  simp only [Sys.updateStatus]
  obtain ⟨t, t', r, e1, e2, h1⟩ := (lockedWrite_ghost mem (fun cur =>
    { cur with revision := mem.revision, conds := mem.conds, controllerOf := mem.controllerOf,
               remotePhases := mem.remotePhases }) h).elim
  simp only [e1, e2]
  cases r with
  | ok stored => exact RelS.mk' (withSetEvents_ghost h1 _) _
  | error e => exact RelS.mk' (withSetEvents_ghost h1 _) _

theorem afterStatus_ghost {x y : Sys × Except ApiErr OSet} (h : RelS x y) (res : Res) :
    RelS (afterStatus x res) (afterStatus y res) := by
  obtain ⟨t, t', r, e1, e2, h1⟩ := h.elim
  subst e1 e2
  cases r <;> exact RelS.mk' h1 _

end Pko.Props.C10Lift
