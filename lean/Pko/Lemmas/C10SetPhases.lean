/-
C10 at the ObjectSet-controller level, part 2: `reconcilePhases` (all phases of an ObjectSet in
order, stop at the first phase with a failing probe) over LOCAL phases, from a settled and from a
repairable store.  Core Lean only.
-/
import Pko.Lemmas.C10SetBase

namespace Pko.Props.C10Set
open Pko.Kube Pko.Model.Phase Pko.Model.ObjectSet Pko.Model.Status
open Pko.Props.C10

/-- store keys of all objects of the given phases, in order. -/
def phaseKeys (cfg : Cfg) (ow : Owner) (phs : List PhaseSpec) : List Key :=
  (phs.flatMap (·.objs)).map (keyOf cfg ow)

/-- the `controllerOf` list an ObjectSet controlling every object of the given phases reports. -/
def refsOf (cfg : Cfg) (ow : Owner) (phs : List PhaseSpec) : List CRef :=
  (phs.flatMap (·.objs)).map (crefOf cfg ow)

/-- The phase list of an ObjectSet as the theorems need it: local phases only, every phase passes
its preflight checks and every object gets as far as being looked at (`PhaseOk` of the phase
level), and the store keys are different across the WHOLE ObjectSet. -/
structure PhasesOk (cfg : Cfg) (ow : Owner) (phs : List PhaseSpec) : Prop where
  localOnly : ∀ ph ∈ phs, ph.cls = ""
  preflight : ∀ ph ∈ phs, preflightPhase cfg ow "" ph.objs = .ok
  reaches : ∀ ph ∈ phs, ∀ p ∈ ph.objs, Reaches cfg ow p
  distinct : (phaseKeys cfg ow phs).Nodup

theorem phaseKeys_cons (cfg : Cfg) (ow : Owner) (ph : PhaseSpec) (phs : List PhaseSpec) :
    phaseKeys cfg ow (ph :: phs) = ph.objs.map (keyOf cfg ow) ++ phaseKeys cfg ow phs := by
  simp [phaseKeys]

theorem phaseKeys_append (cfg : Cfg) (ow : Owner) (a b : List PhaseSpec) :
    phaseKeys cfg ow (a ++ b) = phaseKeys cfg ow a ++ phaseKeys cfg ow b := by
  simp [phaseKeys]

theorem refsOf_cons (cfg : Cfg) (ow : Owner) (ph : PhaseSpec) (phs : List PhaseSpec) :
    refsOf cfg ow (ph :: phs) = ph.objs.map (crefOf cfg ow) ++ refsOf cfg ow phs := by
  simp [refsOf]

theorem mem_phaseKeys {cfg : Cfg} {ow : Owner} {phs : List PhaseSpec} {ph : PhaseSpec} {p : PObj}
    (h1 : ph ∈ phs) (h2 : p ∈ ph.objs) : keyOf cfg ow p ∈ phaseKeys cfg ow phs := by
  simp only [phaseKeys, List.mem_map, List.mem_flatMap]
  exact ⟨p, ⟨ph, h1, h2⟩, rfl⟩

theorem PhasesOk.tail {cfg : Cfg} {ow : Owner} {ph : PhaseSpec} {phs : List PhaseSpec}
    (h : PhasesOk cfg ow (ph :: phs)) : PhasesOk cfg ow phs where
  localOnly := fun x hx => h.localOnly x (by simp [hx])
  preflight := fun x hx => h.preflight x (by simp [hx])
  reaches := fun x hx => h.reaches x (by simp [hx])
  distinct := by
    have := h.distinct
    rw [phaseKeys_cons, List.nodup_append] at this
    exact this.2.1

theorem PhasesOk.headNodup {cfg : Cfg} {ow : Owner} {ph : PhaseSpec} {phs : List PhaseSpec}
    (h : PhasesOk cfg ow (ph :: phs)) : (ph.objs.map (keyOf cfg ow)).Nodup := by
  have := h.distinct
  rw [phaseKeys_cons, List.nodup_append] at this
  exact this.1

/-- keys of the first phase do not occur in the later phases. -/
theorem PhasesOk.headNotLater {cfg : Cfg} {ow : Owner} {ph : PhaseSpec} {phs : List PhaseSpec}
    (h : PhasesOk cfg ow (ph :: phs)) : ∀ k ∈ ph.objs.map (keyOf cfg ow), k ∉ phaseKeys cfg ow phs := by
  have := h.distinct
  rw [phaseKeys_cons, List.nodup_append] at this
  intro k hk hk2
  exact this.2.2 k hk k hk2 rfl

/-- **All phases of a settled, ready ObjectSet**: the pass leaves the store as it is, completes
(no failing phase) and reports every object in `controllerOf`. -/
theorem phases_fixpoint (cfg : Cfg) (ow : Owner) (prev : List Prev)
    (remote : PhaseSpec → World → World × Except PassErr (List CRef × Bool)) :
    ∀ (phs : List PhaseSpec) (w : World) (acc : List CRef),
      Quiet w → PhasesOk cfg ow phs →
      (∀ ph ∈ phs, ∀ p ∈ ph.objs, Settled cfg ow p w.store) →
      (∀ ph ∈ phs, ∀ p ∈ ph.objs, probePass cfg ow w.store p = true) →
      ∃ w', reconcilePhases cfg ow prev remote phs w acc = (w', .ok (acc ++ refsOf cfg ow phs, none)) ∧
        w'.store = w.store ∧ Kept w w' := by
  intro phs
  induction phs with
  | nil =>
    intro w acc _ _ _ _
    exact ⟨w, by simp [reconcilePhases, refsOf], rfl, Kept.refl w⟩
  | cons ph rest ih =>
    intro w acc hq hok hs hp
    have hloc : ph.cls = "" := hok.localOnly ph (by simp)
    have hs1 : ∀ p ∈ ph.objs, Settled cfg ow p w.store := hs ph (by simp)
    obtain ⟨w1, he, hst, hk⟩ := objs_fixpoint cfg ow prev ph.objs w hq (hok.preflight ph (by simp))
      (hok.reaches ph (by simp)) hok.headNodup hs1
    have hnil : probeFails cfg ow w.store ph.objs = [] :=
      (probeFails_nil_iff cfg ow w.store ph.objs).2 (hp ph (by simp))
    obtain ⟨w2, he2, hst2, hk2⟩ := ih w1 (acc ++ ph.objs.map (crefOf cfg ow)) (hk.quiet hq) hok.tail
      (fun x hx p hp2 => by rw [hst]; exact hs x (by simp [hx]) p hp2)
      (fun x hx p hp2 => by rw [hst]; exact hp x (by simp [hx]) p hp2)
    refine ⟨w2, ?_, hst2.trans hst, hk.trans hk2⟩
    simp only [reconcilePhases, hloc, ne_eq, not_true_eq_false, ↓reduceIte, he, hnil, List.isEmpty_nil,
      controllerOfOf_settled cfg ow w.store ph.objs hs1, he2, refsOf_cons, List.append_assoc]

/-- the result of a pass over local phases from a repairable store: the phases it got through
(`done`), the ones it did not reach (`rest`). -/
structure PassShape (cfg : Cfg) (ow : Owner) (phs : List PhaseSpec) (w : World) (acc : List CRef)
    (r : World × PhasesRes) (done rest : List PhaseSpec) : Prop where
  split : phs = done ++ rest
  /-- every object of every phase the pass processed is settled -/
  settled : ∀ ph ∈ done, ∀ p ∈ ph.objs, Settled cfg ow p r.1.store
  /-- nothing outside the processed phases was touched (in particular not the later phases) -/
  frame : ∀ k', k' ∉ phaseKeys cfg ow done → r.1.store.get k' = w.store.get k'
  kept : Kept w r.1
  /-- the pass completed, or stopped at the last processed phase because a probe fails there -/
  outcome :
    (rest = [] ∧ (∀ ph ∈ done, ∀ p ∈ ph.objs, probePass cfg ow r.1.store p = true) ∧
      r.2 = .ok (acc ++ refsOf cfg ow done, none)) ∨
    (∃ pre ph, done = pre ++ [ph] ∧ (∀ ph' ∈ pre, ∀ p ∈ ph'.objs, probePass cfg ow r.1.store p = true) ∧
      (∃ p ∈ ph.objs, probePass cfg ow r.1.store p = false) ∧
      r.2 = .ok (acc ++ refsOf cfg ow done, some ph.name))

/-- **All phases of a repairable ObjectSet**: the pass never ends in an error; it processes a
prefix `done` of the phases, leaves every object of these phases settled, touches nothing else,
and stops before `rest` only because a probe of the last processed phase fails. -/
theorem phases_repair (cfg : Cfg) (ow : Owner) (prev : List Prev)
    (remote : PhaseSpec → World → World × Except PassErr (List CRef × Bool)) :
    ∀ (phs : List PhaseSpec) (w : World) (acc : List CRef),
      Quiet w → PhasesOk cfg ow phs →
      (∀ ph ∈ phs, ∀ p ∈ ph.objs, Mine cfg ow p w.store) →
      ∃ done rest, PassShape cfg ow phs w acc (reconcilePhases cfg ow prev remote phs w acc) done rest := by
  intro phs
  induction phs with
  | nil =>
    intro w acc _ _ _
    refine ⟨[], [], ⟨rfl, by simp, fun _ _ => rfl, Kept.refl w, Or.inl ⟨rfl, by simp, ?_⟩⟩⟩
    simp [reconcilePhases, refsOf]
  | cons ph rest ih =>
    intro w acc hq hok hm
    have hloc : ph.cls = "" := hok.localOnly ph (by simp)
    obtain ⟨w1, he, hs1, hk1, hf1⟩ := objs_repair cfg ow prev ph.objs w hq (hok.preflight ph (by simp))
      (hok.reaches ph (by simp)) hok.headNodup (hm ph (by simp))
    have hco := controllerOfOf_settled cfg ow w1.store ph.objs hs1
    have hkeys1 : phaseKeys cfg ow [ph] = ph.objs.map (keyOf cfg ow) := by simp [phaseKeys]
    by_cases hnil : probeFails cfg ow w1.store ph.objs = []
    · -- all probes of this phase pass: on to the next phase
      have hm' : ∀ x ∈ rest, ∀ p ∈ x.objs, Mine cfg ow p w1.store := by
        intro x hx p hp
        have hne : keyOf cfg ow p ∉ ph.objs.map (keyOf cfg ow) := fun hc =>
          hok.headNotLater _ hc (mem_phaseKeys hx hp)
        exact mine_congr (hf1 _ hne) (hm x (by simp [hx]) p hp)
      obtain ⟨done, rest', sh⟩ := ih w1 (acc ++ ph.objs.map (crefOf cfg ow)) (hk1.quiet hq) hok.tail hm'
      have hrw : reconcilePhases cfg ow prev remote (ph :: rest) w acc =
          reconcilePhases cfg ow prev remote rest w1 (acc ++ ph.objs.map (crefOf cfg ow)) := by
        simp only [reconcilePhases, hloc, ne_eq, not_true_eq_false, ↓reduceIte, he, hnil, List.isEmpty_nil, hco]
      rw [hrw]
      -- keys of `ph` are not touched by the rest of the pass
      have hkeep : ∀ p ∈ ph.objs, (reconcilePhases cfg ow prev remote rest w1
          (acc ++ ph.objs.map (crefOf cfg ow))).1.store.get (keyOf cfg ow p) = w1.store.get (keyOf cfg ow p) := by
        intro p hp
        apply sh.frame
        intro hc
        have : keyOf cfg ow p ∈ phaseKeys cfg ow rest := by
          rw [sh.split, phaseKeys_append]; exact List.mem_append_left _ hc
        exact hok.headNotLater _ (List.mem_map.2 ⟨p, hp, rfl⟩) this
      have hpass1 : ∀ p ∈ ph.objs, probePass cfg ow (reconcilePhases cfg ow prev remote rest w1
          (acc ++ ph.objs.map (crefOf cfg ow))).1.store p = true := by
        intro p hp
        rw [probePass_congr (hkeep p hp)]
        exact (probeFails_nil_iff cfg ow w1.store ph.objs).1 hnil p hp
      refine ⟨ph :: done, rest', ⟨by rw [sh.split]; rfl, ?_, ?_, hk1.trans sh.kept, ?_⟩⟩
      · intro x hx p hp
        rcases List.mem_cons.1 hx with rfl | hx
        · exact settled_congr (hkeep p hp) (hs1 p hp)
        · exact sh.settled x hx p hp
      · intro k' hk'
        rw [phaseKeys_cons, List.mem_append, not_or] at hk'
        rw [sh.frame k' hk'.2, hf1 k' hk'.1]
      · rcases sh.outcome with ⟨hr, hall, hres⟩ | ⟨pre, ph', hd, hall, hex, hres⟩
        · refine Or.inl ⟨hr, ?_, ?_⟩
          · intro x hx p hp
            rcases List.mem_cons.1 hx with rfl | hx
            · exact hpass1 p hp
            · exact hall x hx p hp
          · rw [hres, refsOf_cons, List.append_assoc]
        · refine Or.inr ⟨ph :: pre, ph', by rw [hd]; rfl, ?_, hex, ?_⟩
          · intro x hx p hp
            rcases List.mem_cons.1 hx with rfl | hx
            · exact hpass1 p hp
            · exact hall x hx p hp
          · rw [hres, refsOf_cons, List.append_assoc]
    · -- a probe fails: the pass stops here
      have hrw : reconcilePhases cfg ow prev remote (ph :: rest) w acc =
          (w1, .ok (acc ++ ph.objs.map (crefOf cfg ow), some ph.name)) := by
        have hne : (probeFails cfg ow w1.store ph.objs).isEmpty = false := by
          cases hpf : probeFails cfg ow w1.store ph.objs with
          | nil => exact absurd hpf hnil
          | cons _ _ => rfl
        simp only [reconcilePhases, hloc, ne_eq, not_true_eq_false, ↓reduceIte, he, hne, hco, Bool.false_eq_true]
      rw [hrw]
      refine ⟨[ph], rest, ⟨rfl, ?_, ?_, hk1, Or.inr ⟨[], ph, rfl, by simp, ?_, ?_⟩⟩⟩
      · intro x hx p hp
        simp only [List.mem_singleton] at hx
        subst hx
        exact hs1 p hp
      · intro k' hk'
        rw [hkeys1] at hk'
        exact hf1 k' hk'
      · have : ¬ ∀ p ∈ ph.objs, probePass cfg ow w1.store p = true := fun h =>
          hnil ((probeFails_nil_iff cfg ow w1.store ph.objs).2 h)
        simp only [Classical.not_forall] at this
        obtain ⟨p, hp, hpp⟩ := this
        exact ⟨p, hp, by simpa using hpp⟩
      · simp [refsOf]

end Pko.Props.C10Set
