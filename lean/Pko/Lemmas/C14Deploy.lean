/-
Lemmas for C14, part C: `DeploymentReconciler.Reconcile` (chunk all phases, update the template, GC)
satisfies every clause of `Pko.Model.ChunkSpec.deployOk`.
-/
import Pko.Lemmas.C14Chunk
import Pko.Lemmas.C14Store
import Pko.Model.ChunkRun
namespace Pko.Lemmas.C14
open Pko.Model.Chunk Pko.Model.ChunkSpec Pko.Model.ChunkRun

variable {Name : Type} [DecidableEq Name]

theorem mem_gcDeletes {st : Store Name} {tmpl : Template Name} {oss : List (OSet Name)} {n : Name}
    (h : n ∈ gcDeletes st tmpl oss) :
    n ∈ names st ∧ (∃ s, getSlice st n = some s ∧ s.lbl = true) ∧ n ∉ refs tmpl ∧ n ∉ oss.flatMap osRefs := by
  simp only [gcDeletes, List.mem_filter, Bool.and_eq_true, Bool.not_eq_eq_eq_not, Bool.not_true,
    List.contains_eq_mem, List.mem_append, decide_eq_false_iff_not, not_or] at h
  obtain ⟨hn, hl, h1, h2⟩ := h
  refine ⟨hn, ?_, h1, h2⟩
  cases hg : getSlice st n with
  | none => simp [hg] at hl
  | some s => exact ⟨s, rfl, by simpa [hg] using hl⟩

/-- The two ways `reconcile` ends. -/
theorem reconcile_cases {limit : Nat} {strat : Strategy} {hash : List Obj → Nat → Name}
    {w w' : World Name} {desired : List (List Obj)} {ok : Bool} {del : List Name}
    (h : reconcile limit strat hash w desired = some (w', ok, del)) :
    ∃ st1 r, chunkPhases limit strat hash w.slices desired = some (st1, r) ∧
      ((r = none ∧ ok = false ∧ del = [] ∧ w'.deploy = some (w.deploy.getD []) ∧ w'.slices = st1 ∧
          w'.objectSets = w.objectSets) ∨
       (∃ tmpl, r = some tmpl ∧ ok = true ∧ del = gcDeletes st1 tmpl w.objectSets ∧
          w'.deploy = some tmpl ∧ w'.slices = erase st1 del ∧ w'.objectSets = w.objectSets)) := by
  simp only [reconcile] at h
  cases hc : chunkPhases limit strat hash w.slices desired with
  | none => simp [hc] at h
  | some q =>
    obtain ⟨st1, r⟩ := q
    refine ⟨st1, r, rfl, ?_⟩
    cases r with
    | none =>
      simp only [hc, Option.some.injEq, Prod.mk.injEq] at h
      obtain ⟨rfl, rfl, rfl⟩ := h
      exact Or.inl ⟨rfl, rfl, rfl, rfl, rfl, rfl⟩
    | some tmpl =>
      simp only [hc, Option.some.injEq, Prod.mk.injEq] at h
      obtain ⟨rfl, rfl, rfl⟩ := h
      exact Or.inr ⟨tmpl, rfl, rfl, rfl, rfl, rfl, rfl⟩

theorem all_true {α : Type} {l : List α} {p : α → Bool} (h : ∀ x ∈ l, p x = true) : l.all p = true :=
  List.all_eq_true.mpr h

/-- **Main lemma**: whatever the world, the desired phases, the strategy, the limit and the hash, a finished
`Reconcile` satisfies the whole specification `deployOk`. -/
theorem reconcile_deployOk {limit : Nat} {strat : Strategy} {hash : List Obj → Nat → Name}
    (isHashOf : Name → List Obj → Bool) (hIs : ∀ X k, isHashOf (hash X k) X = true)
    {w w' : World Name} {desired : List (List Obj)} {ok : Bool} {del : List Name}
    (h : reconcile limit strat hash w desired = some (w', ok, del)) :
    deployOk isHashOf ⟨w.deploy, w.slices, w.objectSets⟩ desired ⟨ok, w'.deploy, del, w'.slices⟩ = true := by
  obtain ⟨st1, r, hc, hcase⟩ := reconcile_cases h
  obtain ⟨ext, fresh, hdec⟩ := chunkPhases_spec (fun objs cs => chunk_concat) hc
  -- facts shared by both endings
  have hdelProps : ∀ n ∈ del, (∃ s, getSlice st1 n = some s ∧ s.lbl = true) ∧
      n ∉ refs (w'.deploy.getD []) ∧ n ∉ w.objectSets.flatMap osRefs := by
    rcases hcase with ⟨_, _, rfl, _⟩ | ⟨tmpl, _, _, rfl, hd, _⟩
    · intro n hn; cases hn
    · intro n hn
      obtain ⟨_, h2, h3, h4⟩ := mem_gcDeletes hn
      exact ⟨h2, by simpa [hd] using h3, h4⟩
  have hstore : w'.slices = erase st1 del := by
    rcases hcase with ⟨_, _, rfl, _, hs, _⟩ | ⟨_, _, _, _, _, hs, _⟩
    · rw [hs, erase_nil]
    · exact hs
  have hget : ∀ m, getSlice w'.slices m = if m ∈ del then none else getSlice st1 m := by
    intro m; rw [hstore, get_erase]
  simp only [deployOk, Bool.and_eq_true]
  refine ⟨⟨⟨⟨⟨?_, ?_⟩, ?_⟩, ?_⟩, ?_⟩, ?_⟩
  · -- lossless
    rcases hcase with ⟨_, rfl, _⟩ | ⟨tmpl, rfl, rfl, hdel, hd, _, _⟩
    · simp [lossless]
    · obtain ⟨hdecode, hsettled⟩ := hdec tmpl rfl
      have hkeep : ∀ n ∈ refs tmpl, getSlice w'.slices n = getSlice st1 n := by
        intro n hn
        rw [hget]
        have : n ∉ del := fun hnd => (hdelProps n hnd).2.1 (by simpa [hd] using hn)
        simp [this]
      simp only [lossless, Bool.not_true, Bool.false_or, hd, Bool.and_eq_true, decide_eq_true_eq]
      refine ⟨by rw [decode_congr hkeep]; exact hdecode, all_true ?_⟩
      intro n hn
      obtain ⟨X, _, _, _, s, hs, hctl, _⟩ := hsettled n hn
      rw [hkeep n hn, hs]; exact hctl
  · -- failSafe
    rcases hcase with ⟨_, rfl, rfl, hd, _⟩ | ⟨_, _, rfl, _⟩
    · simp [failSafe, hd]
    · simp [failSafe]
  · -- namedByContent
    simp only [namedByContent]
    apply all_true
    intro e he
    cases hpre : getSlice w.slices e.1 with
    | some _ => simp
    | none =>
      simp only [Option.isSome_none, Bool.false_or]
      cases hpost : getSlice w'.slices e.1 with
      | none => rfl
      | some sl =>
        rw [hget] at hpost
        by_cases hd : e.1 ∈ del
        · simp [hd] at hpost
        · simp only [hd, ↓reduceIte] at hpost
          obtain ⟨⟨k, hk⟩, hctl, hlbl⟩ := fresh e.1 sl hpre hpost
          simp only [hctl, hlbl, Bool.and_true]
          rw [hk]; exact hIs _ _
  · -- noReuse
    simp only [noReuse]
    apply all_true
    intro e _
    cases hpre : getSlice w.slices e.1 with
    | none => rfl
    | some a =>
      cases hpost : getSlice w'.slices e.1 with
      | none => rfl
      | some b =>
        rw [hget] at hpost
        by_cases hd : e.1 ∈ del
        · simp [hd] at hpost
        · simp only [hd, ↓reduceIte] at hpost
          have := ext e.1 a hpre
          rw [this] at hpost; cases hpost; simp
  · -- sameContentSameName
    rcases hcase with ⟨_, rfl, _⟩ | ⟨tmpl, rfl, rfl, hdel, hd, _, _⟩
    · simp [sameContentSameName]
    · obtain ⟨_, hsettled⟩ := hdec tmpl rfl
      have hkeep : ∀ n ∈ refs tmpl, getSlice w'.slices n = getSlice st1 n := by
        intro n hn
        rw [hget]
        have : n ∉ del := fun hnd => (hdelProps n hnd).2.1 (by simpa [hd] using hn)
        simp [this]
      simp only [sameContentSameName, Bool.not_true, Bool.false_or, hd]
      apply all_true; intro n hn; apply all_true; intro m hm
      obtain ⟨X1, hs1⟩ := hsettled n hn
      obtain ⟨X2, hs2⟩ := hsettled m hm
      obtain ⟨_, _, _, a, ha, _, hXa⟩ := id hs1
      obtain ⟨_, _, _, b, hb, _, hXb⟩ := id hs2
      rw [hkeep n hn, hkeep m hm, ha, hb]
      by_cases heq : a.objects = b.objects
      · have hX : X1 = X2 := by rw [← hXa, ← hXb, heq]
        subst hX
        simp [Settled.unique hs1 hs2]
      · simp [heq]
  · -- gcSafe
    simp only [gcSafe]
    apply all_true
    intro n hn
    have hnd : n ∈ del := by
      rcases List.mem_append.mp hn with hn | hn
      · exact hn
      · simp only [List.mem_filter, Option.isNone_iff_eq_none] at hn
        obtain ⟨hnames, hgone⟩ := hn
        obtain ⟨s, hs⟩ := get_of_mem_names hnames
        have h1 := ext n s hs
        rw [hget] at hgone
        by_cases hd : n ∈ del
        · exact hd
        · simp [hd, h1] at hgone
    obtain ⟨⟨s, hs, hlbl⟩, h1, h2⟩ := hdelProps n hnd
    simp only [Bool.and_eq_true, Bool.not_eq_eq_eq_not, Bool.not_true, List.contains_eq_mem, List.mem_append,
      decide_eq_false_iff_not, not_or]
    refine ⟨⟨h1, h2⟩, ?_⟩
    cases hpre : getSlice w.slices n with
    | none => rfl
    | some sl =>
      have := ext n sl hpre
      rw [hs] at this; cases this; exact hlbl

/-! ### bookkeeping steps of the specification's run -/

theorem zip_map_all {α β : Type} (f : α → β) (P : α → β → Bool) (l : List α) :
    ((l.zip (l.map f)).all fun po => P po.1 po.2) = l.all fun p => P p (f p) := by
  induction l with
  | nil => rfl
  | cons a l ih => simp [ih]

theorem specStep_snap (isHashOf : Name → List Obj → Bool) (limit : Nat) (strat : Strategy) (w : World Name) :
    specStep isHashOf limit strat (stateOf w) .snap .env = (stateOf (snap w), true) := by
  cases hd : w.deploy <;> simp [specStep, stateOf, snap, hd]

theorem specStep_delos (isHashOf : Name → List Obj → Bool) (limit : Nat) (strat : Strategy) (w : World Name)
    (i : Nat) : specStep isHashOf limit strat (stateOf w) (.delos i) .env = (stateOf (delos w i), true) := by
  simp [specStep, stateOf, delos]

theorem specStep_life (isHashOf : Name → List Obj → Bool) (limit : Nat) (strat : Strategy) (w : World Name)
    (i : Nat) (l : Life) :
    specStep isHashOf limit strat (stateOf w) (.life i l) .env = (stateOf (setLife w i l), true) := by
  simp [specStep, stateOf, setLife]

theorem specStep_markdel (isHashOf : Name → List Obj → Bool) (limit : Nat) (strat : Strategy) (w : World Name)
    (i : Nat) : specStep isHashOf limit strat (stateOf w) (.markdel i) .env = (stateOf (markDeleting w i), true) := by
  simp [specStep, stateOf, markDeleting]

/-- Changing lifecycle / deletion state of an ObjectSet changes neither which ObjectSets exist nor their phases. -/
theorem mem_modifyAt {α : Type} (f : α → α) : ∀ (l : List α) (i : Nat) (x : α),
    x ∈ modifyAt f l i → x ∈ l ∨ ∃ y ∈ l, x = f y
  | [], _, x, h => by simp [modifyAt] at h
  | a :: l, 0, x, h => by
    simp only [modifyAt, List.mem_cons] at h
    rcases h with rfl | h
    · exact Or.inr ⟨a, by simp, rfl⟩
    · exact Or.inl (by simp [h])
  | a :: l, i + 1, x, h => by
    simp only [modifyAt, List.mem_cons] at h
    rcases h with rfl | h
    · exact Or.inl (by simp)
    · rcases mem_modifyAt f l i x h with h | ⟨y, hy, rfl⟩
      · exact Or.inl (by simp [h])
      · exact Or.inr ⟨y, by simp [hy], rfl⟩

end Pko.Lemmas.C14
