import Pko.Lemmas.C10Visits
namespace Pko.Props.C10
open Pko.Kube Pko.Model.Phase Pko.Model.ObjectSet Pko.Model.Converge

/-- Drift: third-party edits of the fields PKO manages and deletions of managed objects (an
object with a foreign finalizer is excluded from `delete`: it would stay in deletion until the
finalizer's owner acts — the fairness hypothesis of teardown, not drift). -/
inductive IsDrift (s : Store) : EnvOp → Prop
  | payload (k p) : IsDrift s (.setPayload k p)
  | rev (k r) : IsDrift s (.setRev k r)
  | ready (k r o) : IsDrift s (.setReady k r o)
  | label (k l) : IsDrift s (.relabel k l)
  | delete (k) (h : ∀ o, s.get k = some o → o.finalizer = false) : IsDrift s (.delete k)

theorem commit_get_other (s : Store) (k k' : Key) (prev next : Obj) (h : k' ≠ k) :
    (commit s k prev next).1.get k' = s.get k' := by
  simp only [commit]
  split
  · exact get_set_other s k k' none h
  · split
    · rfl
    · simp only [Store.get, Store.set, h, ↓reduceIte]

/-- **drift keeps every object repairable**: after a third-party edit or deletion the object is
still absent or controlled by the owner. -/
theorem drift_keeps_mine (cfg : Cfg) (ow : Owner) (p : PObj) (s : Store) (e : EnvOp)
    (hd : IsDrift s e) (hm : Mine cfg ow p s) : Mine cfg ow p (s.env e) := by
  -- every drift operation either leaves the key alone, removes the object, or stores an object
  -- with the same owner references that is not being deleted
  have key : ∀ (k : Key) (f : Obj → Obj),
      (∀ c, (f c).owners = c.owners ∧ (f c).annOwners = c.annOwners ∧ (f c).finalizer = c.finalizer) →
      Mine cfg ow p (match s.get k with | some c => (commit s k c (f c)).1 | none => s) := by
    intro k f hf
    by_cases hk : keyOf cfg ow p = k
    · subst hk
      rcases hm with hn | ⟨o, hg, hc, hu, ha⟩
      · simp only [hn]; exact Or.inl hn
      · simp only [hg]
        obtain ⟨h1, h2, h3, _, _, _, _, h8, _, _, _⟩ := commit_alive s _ o (f o) hg ha
        refine Or.inr ⟨_, h1, ?_, ?_, h8⟩
        · cases hst : cfg.st with
          | native => simp only [isController, refs, hst] at hc ⊢; rw [h2, (hf o).1]; exact hc
          | annotation => simp only [isController, refs, hst] at hc ⊢; rw [h3, (hf o).2.1]; exact hc
        · rw [h2, (hf o).1]; exact hu
    · cases hgk : s.get k with
      | none => exact hm
      | some c => exact mine_congr (commit_get_other s k _ c (f c) hk) hm
  cases hd with
  | payload k pl => exact key k (fun c => { c with payload := pl }) (fun _ => ⟨rfl, rfl, rfl⟩)
  | rev k r => exact key k (fun c => { c with rev := r }) (fun _ => ⟨rfl, rfl, rfl⟩)
  | ready k r o => exact key k (fun c => { c with ready := r, obsGen := o }) (fun _ => ⟨rfl, rfl, rfl⟩)
  | label k l => exact key k (fun c => { c with pkgLabel := l }) (fun _ => ⟨rfl, rfl, rfl⟩)
  | delete k hfin =>
    simp only [Store.env]
    cases hgk : s.get k with
    | none => exact hm
    | some c =>
      simp only [hfin c hgk, Bool.false_eq_true, ↓reduceIte]
      by_cases hk : keyOf cfg ow p = k
      · subst hk; exact Or.inl (get_set_same s _ none)
      · exact mine_congr (get_set_other s k _ none hk) hm

end Pko.Props.C10
