/-
Helper lemmas for property C16: the conflict-retry loop of `DeploymentReconciler.Reconcile`
(`Pko.Model.DeployRetry`) for arbitrary retry budgets, arbitrary interleavings of third-party
writes and arbitrary numbers of conflicts.
-/
import Pko.Model.Deploy
import Pko.Model.DeployRetry
namespace Pko.Lemmas.C16
open Pko.Model.Deploy Pko.Model.DeployRetry

variable {T : Type}

theorem tpWrites_cons (s : Obj T) (k : String) (ks : List String) :
    tpWrites s (k :: ks) = tpWrites (tpWrite s k) ks := rfl

theorem tpWrites_rv (s : Obj T) (ks : List String) : (tpWrites s ks).rv = s.rv + ks.length := by
  induction ks generalizing s with
  | nil => simp [tpWrites]
  | cons k ks ih => rw [tpWrites_cons, ih]; simp [tpWrite]; omega

theorem tpWrites_tpl (s : Obj T) (ks : List String) : (tpWrites s ks).tpl = s.tpl := by
  induction ks generalizing s with
  | nil => simp [tpWrites]
  | cons k ks ih => rw [tpWrites_cons, ih]; simp [tpWrite]

theorem tpWrites_ann (s : Obj T) (ks : List String) :
    (tpWrites s ks).ann = (ks.reverse.map fun k => (k, "x")) ++ s.ann := by
  induction ks generalizing s with
  | nil => simp [tpWrites]
  | cons k ks ih => rw [tpWrites_cons, ih]; simp [tpWrite]

theorem tpWrites_lab (s : Obj T) (ks : List String) :
    (tpWrites s ks).lab = (ks.reverse.map fun k => (k, "x")) ++ s.lab := by
  induction ks generalizing s with
  | nil => simp [tpWrites]
  | cons k ks ih => rw [tpWrites_cons, ih]; simp [tpWrite]

theorem afterGaps_cons (s : Obj T) (w : List String) (ws : List (List String)) :
    afterGaps s (w :: ws) = afterGaps (tpWrites s w) ws := rfl

theorem afterGaps_tpl (s : Obj T) (ws : List (List String)) : (afterGaps s ws).tpl = s.tpl := by
  induction ws generalizing s with
  | nil => simp [afterGaps]
  | cons w ws ih => rw [afterGaps_cons, ih, tpWrites_tpl]

theorem prepare_rv (t : T) (d a : Obj T) : (prepare t d a).rv = a.rv := rfl
theorem prepare_tpl (t : T) (d a : Obj T) : (prepare t d a).tpl = some t := rfl
theorem storedFrom_tpl (t : T) (al : Bool) (d l : Obj T) : (storedFrom t al d l).tpl = some t := rfl

/-- An Update based on the stored resourceVersion is accepted. -/
theorem srvUpdate_insync (t : T) (d s : Obj T) :
    srvUpdate s (prepare t d s) = some { prepare t d s with rv := s.rv + 1 } := by
  simp [srvUpdate, prepare_rv]

/-- After at least one third-party write the Update is refused. -/
theorem srvUpdate_stale (t : T) (d s : Obj T) (ks : List String) (h : ks ≠ []) :
    srvUpdate (tpWrites s ks) (prepare t d s) = none := by
  have : 0 < ks.length := List.length_pos_iff.mpr h
  simp [srvUpdate, prepare_rv, tpWrites_rv]
  omega

/-- **The retry loop for ANY retry budget and ANY interleaving** (start in sync: the in-memory
object is the stored one, as after the Get / the Create): if it ends without error then some
attempt `j` below the budget was accepted, the `j` attempts before were each refused with a
Conflict, and what is stored is the closure body applied to the LATEST stored object (with every
third-party write that landed before) — in particular with the freshly rendered template.  If it
ends with an error, every attempt of the budget was refused and the stored object carries only the
third-party writes. -/
theorem retryLoop_spec (t : T) (al : Bool) (d : Obj T) (k : Nat) (ws : List (List String)) (s : Obj T) :
    ((retryLoop t al d k ws s s).err = false →
      ∃ j, j < k ∧ (retryLoop t al d k ws s s).writes = List.replicate j .updateConflict ++ [.update] ∧
        (retryLoop t al d k ws s s).srv = storedFrom t al d (afterGaps s (ws.take (j + 1)))) ∧
    ((retryLoop t al d k ws s s).err = true →
      (retryLoop t al d k ws s s).writes = List.replicate k .updateConflict ∧
        (retryLoop t al d k ws s s).srv = afterGaps s (ws.take k)) := by
  induction k generalizing ws s with
  | zero => simp [retryLoop, afterGaps]
  | succ k ih =>
    by_cases hw : ws.headD [] = []
    · -- nobody in between: accepted
      have h1 : tpWrites s (ws.headD []) = s := by rw [hw]; rfl
      have hg : afterGaps s (ws.take 1) = s := by
        cases ws with
        | nil => rfl
        | cons w ws => simp at hw; subst hw; rfl
      simp only [retryLoop, h1, srvUpdate_insync]
      refine ⟨fun _ => ⟨0, by omega, by simp, ?_⟩, by simp⟩
      simp only [Nat.zero_add, hg]
      rfl
    · -- a third party wrote: Conflict, re-Get, again
      cases ws with
      | nil => simp at hw
      | cons w ws =>
        simp only [List.headD_cons] at hw
        simp only [retryLoop, List.headD_cons, srvUpdate_stale _ _ _ _ hw, List.tail_cons]
        obtain ⟨i1, i2⟩ := ih ws (tpWrites s w)
        constructor
        · intro he
          obtain ⟨j, hj, hwr, hs⟩ := i1 he
          refine ⟨j + 1, by omega, ?_, ?_⟩
          · simp [hwr, List.replicate_succ]
          · simp only [hs, List.take_succ_cons, afterGaps_cons]
        · intro he
          obtain ⟨hwr, hs⟩ := i2 he
          refine ⟨by simp [hwr, List.replicate_succ], ?_⟩
          simp only [hs, List.take_succ_cons, afterGaps_cons]

/-- Whenever the retry loop ends without error — whatever the budget, the interleaving and the
number of conflicts — the stored template is the freshly rendered one. -/
theorem retryLoop_ok_template (t : T) (al : Bool) (d : Obj T) (k : Nat) (ws : List (List String)) (s : Obj T)
    (h : (retryLoop t al d k ws s s).err = false) : (retryLoop t al d k ws s s).srv.tpl = some t := by
  obtain ⟨_, _, _, hs⟩ := (retryLoop_spec t al d k ws s).1 h
  rw [hs, storedFrom_tpl]

/-- Whenever it ends with an error, the stored template is untouched. -/
theorem retryLoop_err_template (t : T) (al : Bool) (d : Obj T) (k : Nat) (ws : List (List String)) (s : Obj T)
    (h : (retryLoop t al d k ws s s).err = true) : (retryLoop t al d k ws s s).srv.tpl = s.tpl := by
  rw [((retryLoop_spec t al d k ws s).2 h).2, afterGaps_tpl]

/-- **Exactly `n` conflicts** (one third-party write before each of the first `n` Updates, keys
`ks`): with `n` below the budget the `n+1`-th attempt is accepted and stores the closure body
applied to the latest object; otherwise the whole budget is used up and an error is returned. -/
theorem retryLoop_conflicts (t : T) (al : Bool) (d : Obj T) (k : Nat) (ks : List String) (s : Obj T) :
    retryLoop t al d k (ks.map fun x => [x]) s s =
      if ks.length < k then
        ⟨storedFrom t al d (tpWrites s ks), List.replicate ks.length .updateConflict ++ [.update], false⟩
      else ⟨tpWrites s (ks.take k), List.replicate k .updateConflict, true⟩ := by
  induction k generalizing ks s with
  | zero => simp [retryLoop, tpWrites]
  | succ k ih =>
    cases ks with
    | nil =>
      have h1 : tpWrites s [] = s := rfl
      simp only [List.map_nil, retryLoop, List.headD_nil, h1, srvUpdate_insync]
      simp [storedFrom]
    | cons x ks =>
      have hne : [x] ≠ [] := by simp
      simp only [List.map_cons, retryLoop, List.headD_cons, srvUpdate_stale _ _ _ _ hne, List.tail_cons, ih]
      have h1 : tpWrites s [x] = tpWrite s x := rfl
      by_cases hl : ks.length < k
      · simp [hl, h1, tpWrites_cons, List.replicate_succ]
      · simp [hl, h1, tpWrites_cons, List.replicate_succ]

/-! ### metadata of the stored object, by lookup -/

theorem lookup_marks (l : List String) (k : String) :
    (l.map fun x => (x, "x")).lookup k = if k ∈ l then some "x" else none := by
  induction l with
  | nil => simp
  | cons a l ih =>
    simp only [List.map_cons, List.lookup_cons, ih, List.mem_cons]
    by_cases h : k = a
    · subst h; simp
    · have : (k == a) = false := by simpa using h
      simp [this, h]

/-- The entries third parties wrote (latest first). -/
def tps (ks : List String) : KV := ks.reverse.map fun k => (k, "x")

theorem tps_lookup (ks : List String) (k : String) :
    (tps ks).lookup k = if k ∈ ks then some "x" else none := by
  have := lookup_marks ks.reverse k
  simpa [tps] using this

theorem gapsOf_eq (key : Nat → String) (f : RFault) :
    gapsOf key f = ((List.range f.conflicts).map key).map fun x => [x] := by
  simp [gapsOf, List.map_map, Function.comp_def]

/-- Accepted Update on an EXISTING ObjectDeployment: annotations by lookup. -/
theorem stored_ann_existing (t : T) (d s : Obj T) (ks : List String) (k : String) (hk : k ≠ kCause) :
    (storedFrom t false d (tpWrites s ks)).ann.lookup k =
      (d.ann.lookup k).or (((tps ks).lookup k).or (s.ann.lookup k)) := by
  have : (k == kCause) = false := by simpa using hk
  simp [storedFrom, prepare, merge, tpWrites_ann, List.lookup_cons, List.lookup_append, this, tps]

theorem stored_lab_existing (t : T) (d s : Obj T) (ks : List String) (k : String) :
    (storedFrom t false d (tpWrites s ks)).lab.lookup k =
      (d.lab.lookup k).or (((tps ks).lookup k).or (s.lab.lookup k)) := by
  simp [storedFrom, prepare, merge, tpWrites_lab, List.lookup_append, tps]

/-- Accepted Update on the ObjectDeployment PRE-CREATED in this call (`actualDeploy` is
`desiredDeploy`, so after a re-Get the object is merged with itself). -/
theorem stored_ann_created (t : T) (d c : Obj T) (hc : c.ann = d.ann) (ks : List String) (k : String)
    (hk : k ≠ kCause) :
    (storedFrom t true d (tpWrites c ks)).ann.lookup k =
      ((tps ks).lookup k).or ((d.ann.lookup k).or (((tps ks).lookup k).or (d.ann.lookup k))) := by
  have : (k == kCause) = false := by simpa using hk
  simp [storedFrom, prepare, merge, tpWrites_ann, List.lookup_cons, List.lookup_append, this, tps, hc]

theorem stored_lab_created (t : T) (d c : Obj T) (hc : c.lab = d.lab) (ks : List String) (k : String) :
    (storedFrom t true d (tpWrites c ks)).lab.lookup k =
      ((tps ks).lookup k).or ((d.lab.lookup k).or (((tps ks).lookup k).or (d.lab.lookup k))) := by
  simp [storedFrom, prepare, merge, tpWrites_lab, List.lookup_append, tps, hc]

end Pko.Lemmas.C16
