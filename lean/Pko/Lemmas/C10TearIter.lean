/-
C10, teardown at the controller level, part 3: iterating the pass.  From an ObjectSet in teardown
(`TearSet`) at most (number of phases + 1) controller passes finish the teardown; no pass fails;
afterwards every pass is the identity.  Core Lean only.
-/
import Pko.Lemmas.C10TearSet

namespace Pko.Props.C10Lift
open Pko.Kube Pko.Model.Phase Pko.Model.ObjectSet Pko.Model.Status
open Pko.Props.C10 Pko.Props.C10Set

/-- `k` consecutive controller passes on the ObjectSet `name`. -/
def iter (cfg : Cfg) (rm : Remotes) (name : String) : Nat → Sys → Sys
  | 0, s => s
  | k + 1, s => iter cfg rm name k (reconcile cfg rm name s).1

theorem iter_succ (cfg : Cfg) (rm : Remotes) (name : String) (k : Nat) (s : Sys) :
    iter cfg rm name (k + 1) s = iter cfg rm name k (reconcile cfg rm name s).1 := rfl

theorem iter_fixpoint (cfg : Cfg) (rm : Remotes) (name : String) (s : Sys)
    (h : reconcile cfg rm name s = (s, .ok)) : ∀ k, iter cfg rm name k s = s := by
  intro k
  induction k with
  | zero => rfl
  | succ k ih => rw [iter_succ, h]; exact ih

/-- the end state only remembers the spec: it is the same for every in-memory copy that differs
in conditions and resourceVersion only. -/
theorem finished_of_same {s' : Sys} {name : String} {mem mem' : OSet} (hs : SameButStatus mem mem')
    (h : Finished s' name mem') : Finished s' name mem := by
  obtain ⟨cs, rv, rfl⟩ := hs
  exact h

/-- if the first phase that was not released lies beyond the released prefix `pre`, the
unreached remainder is shorter than what was left before. -/
theorem remainder_shrinks {α : Type} (pre' pre post rest : List α) (x : α)
    (h : pre' ++ x :: rest = pre ++ post) (hx : x ∉ pre) : rest.length < post.length := by
  rcases List.append_eq_append_iff.1 h with ⟨a', h1, h2⟩ | ⟨c', _, h2⟩
  · cases a' with
    | nil => simp only [List.nil_append] at h2; rw [← h2]; simp
    | cons y ys =>
      simp only [List.cons_append, List.cons.injEq] at h2
      exact absurd (by rw [h1, ← h2.1]; simp) hx
  · rw [h2]; simp; omega

theorem mem_phaseKeys_of_reverse_prefix {cfg : Cfg} {ow : Owner} {phs done rest : List PhaseSpec}
    (h : phs.reverse = done ++ rest) {k : Key} (hk : k ∈ phaseKeys cfg ow done) : k ∈ phaseKeys cfg ow phs := by
  apply (phaseKeys_reverse_perm cfg ow phs).mem_iff.1
  rw [h, phaseKeys_append]
  exact List.mem_append_left _ hk

/-- the iteration, with the released prefix `pre` of the phases (teardown order) made explicit:
at most (length of the remainder + 1) passes. -/
theorem teardown_iter_aux (cfg : Cfg) (rm : Remotes) (name : String) :
    ∀ (n : Nat) (s : Sys) (mem : OSet) (pre post : List PhaseSpec),
      post.length ≤ n → QuietSys s → TearSet cfg s name mem → mem.phases.reverse = pre ++ post →
      (∀ ph ∈ pre, PhaseReleased cfg mem.owner s.w.store ph) →
      ∃ k, k ≤ post.length + 1 ∧ Finished (iter cfg rm name k s) name mem ∧
        (∀ ph ∈ mem.phases, PhaseReleased cfg mem.owner (iter cfg rm name k s).w.store ph) ∧
        (∀ j, (reconcile cfg rm name (iter cfg rm name j s)).2 = .ok) ∧
        (∀ j, k ≤ j → iter cfg rm name j s = iter cfg rm name k s) ∧
        (∀ m, m ≠ name → (iter cfg rm name k s).sets m = s.sets m) ∧
        (∀ k', k' ∉ phaseKeys cfg mem.owner mem.phases →
          (iter cfg rm name k s).w.store.get k' = s.w.store.get k') := by
  intro n
  induction n with
  | zero =>
    intro s mem pre post hn hq ht hsplit hpre
    obtain ⟨hok, hq1, hoth, _, done, rest, hd, hrel, hframe, hout⟩ := teardown_pass cfg rm name s mem hq ht
    rcases hout with ⟨hr, _, hfin⟩ | ⟨pre', ph', hd', hall, hnr, _⟩
    · -- finished by this pass
      have hfix := finished_is_fixpoint cfg rm name _ mem hfin
      refine ⟨1, by omega, hfin, ?_, ?_, ?_, hoth, ?_⟩
      · intro ph hph
        apply hrel
        have : ph ∈ mem.phases.reverse := List.mem_reverse.2 hph
        rw [hd, hr, List.append_nil] at this
        exact this
      · intro j
        cases j with
        | zero => exact hok
        | succ j => rw [iter_succ, iter_fixpoint cfg rm name _ hfix j, hfix]
      · intro j hj
        obtain ⟨i, rfl⟩ : ∃ i, j = i + 1 := ⟨j - 1, by omega⟩
        rw [iter_succ, iter_fixpoint cfg rm name _ hfix i]
        rfl
      · intro k' hk'
        apply hframe
        intro hc; exact hk' (mem_phaseKeys_of_reverse_prefix hd hc)
    · -- impossible: nothing was left
      exfalso
      have hx : ph' ∉ pre := fun hm => hnr (hpre ph' hm)
      have := remainder_shrinks pre' pre post rest ph' (by rw [← hsplit, hd, hd']; simp) hx
      omega
  | succ n ih =>
    intro s mem pre post hn hq ht hsplit hpre
    obtain ⟨hok, hq1, hoth, _, done, rest, hd, hrel, hframe, hout⟩ := teardown_pass cfg rm name s mem hq ht
    rcases hout with ⟨hr, _, hfin⟩ | ⟨pre', ph', hd', hall, hnr, mem', ht', hsame⟩
    · have hfix := finished_is_fixpoint cfg rm name _ mem hfin
      refine ⟨1, by omega, hfin, ?_, ?_, ?_, hoth, ?_⟩
      · intro ph hph
        apply hrel
        have : ph ∈ mem.phases.reverse := List.mem_reverse.2 hph
        rw [hd, hr, List.append_nil] at this
        exact this
      · intro j
        cases j with
        | zero => exact hok
        | succ j => rw [iter_succ, iter_fixpoint cfg rm name _ hfix j, hfix]
      · intro j hj
        obtain ⟨i, rfl⟩ : ∃ i, j = i + 1 := ⟨j - 1, by omega⟩
        rw [iter_succ, iter_fixpoint cfg rm name _ hfix i]
        rfl
      · intro k' hk'
        apply hframe
        intro hc; exact hk' (mem_phaseKeys_of_reverse_prefix hd hc)
    · -- the pass released one more phase: continue from the new state
      have hx : ph' ∉ pre := fun hm => hnr (hpre ph' hm)
      have hlt := remainder_shrinks pre' pre post rest ph' (by rw [← hsplit, hd, hd']; simp) hx
      have hown := hsame.owner
      have hph := hsame.phases
      obtain ⟨k, hk, h1, h2, h3, h4, h5, h6⟩ := ih (reconcile cfg rm name s).1 mem' done rest (by omega) hq1 ht'
        (by rw [hph]; exact hd) (by rw [hown]; exact hrel)
      rw [hown, hph] at h2 h6
      refine ⟨k + 1, by omega, finished_of_same hsame h1, h2, ?_, ?_, ?_, ?_⟩
      · intro j
        cases j with
        | zero => exact hok
        | succ j => exact h3 j
      · intro j hj
        obtain ⟨i, rfl⟩ : ∃ i, j = i + 1 := ⟨j - 1, by omega⟩
        rw [iter_succ, iter_succ]
        exact h4 i (by omega)
      · intro m hm
        rw [iter_succ, h5 m hm, hoth m hm]
      · intro k' hk'
        rw [iter_succ, h6 k' hk']
        apply hframe
        intro hc; exact hk' (mem_phaseKeys_of_reverse_prefix hd hc)

end Pko.Props.C10Lift

namespace Pko.Props.C10Lift
open Pko.Kube Pko.Model.Phase Pko.Model.ObjectSet Pko.Model.Status
open Pko.Props.C10 Pko.Props.C10Set
open Pko.Lemmas.ObjectSet

/-- **the crash point between the two writes of a finished archival**: the finalizer of an archived
ObjectSet is gone already (so its teardown had reported done), Archived=True was not recorded yet
(crash, failed or lost status update).  The next pass touches no managed object, reports Archived
and leaves the ObjectSet in the state in which further passes are the identity. -/
theorem archived_after_finalizer_pass (cfg : Cfg) (rm : Remotes) (name : String) (s : Sys) (mem : OSet)
    (hq : QuietSys s) (hs : s.sets name = some mem) (hn : mem.name = name) (hf : mem.finCached = false)
    (hdel : mem.deleting = false) (hlc : mem.lifecycle = .archived)
    (hna : condTrue mem.conds "Archived" = false) :
    (reconcile cfg rm name s).2 = .ok ∧ QuietSys (reconcile cfg rm name s).1 ∧
    (∀ k, (reconcile cfg rm name s).1.w.store.get k = s.w.store.get k) ∧
    (∀ n, n ≠ name → (reconcile cfg rm name s).1.sets n = s.sets n) ∧
    (∃ cs rv, (reconcile cfg rm name s).1.sets name = some { mem with controllerOf := [], conds := cs, rv := rv } ∧
      condTrue cs "Archived" = true) ∧
    reconcile cfg rm name (reconcile cfg rm name s).1 = ((reconcile cfg rm name s).1, .ok) := by
  have hrec : reconcile cfg rm name s = deletionOrArchival cfg rm s mem := by
    simp only [reconcile, hs, hna, Bool.false_eq_true, ↓reduceIte, hdel, hlc, Bool.false_or, decide_true]
  have hsf : Sys.setFinalizer { s with w := s.w.free mem.owner.wref, freed := s.freed ++ [mem.name] } mem false =
      ({ s with w := s.w.free mem.owner.wref, freed := s.freed ++ [mem.name] }, .ok mem) := setFinalizer_noop _ mem false hf
  rw [hrec, doa_eq]
  simp only [hf, Bool.false_eq_true, ↓reduceIte, hsf]
  rw [doneTail_archived _ _ hlc]
  generalize hm2 : ({ mem with
      conds := removeCond (setCond mem.conds ⟨"Archived", "True", "Archived", mem.gen, ""⟩) "Available",
      controllerOf := [] } : OSet) = mem2
  have hname2 : mem2.name = mem.name := by rw [← hm2]
  obtain ⟨⟨m', hm'⟩, u1, u2, u3, ⟨rv', u4⟩, u5, _⟩ := updateStatus_quiet
    { s with w := s.w.free mem.owner.wref, freed := s.freed ++ [mem.name] } mem2 mem hq.sets
    (by rw [hname2, hn]; exact hs) (by rw [← hm2]; rfl) (by rw [← hm2]; exact hdel)
  have hstored : (afterStatus (Sys.updateStatus { s with w := s.w.free mem.owner.wref, freed := s.freed ++ [mem.name] } mem2) Res.ok).1.sets name =
      some { mem with controllerOf := [], conds := mem2.conds, rv := rv' } := by
    have hnm : name = mem2.name := by rw [hname2, hn]
    rw [afterStatus_fst, hnm, u4, ← hm2]
  have harch : condTrue mem2.conds "Archived" = true := by rw [← hm2]; exact condTrue_archived_after _ _
  have hstored' := hstored
  rw [hf] at hstored'
  refine ⟨afterStatus_snd_ok _ _ m' hm', ?_, ?_, ?_, ⟨mem2.conds, rv', hstored', harch⟩, ?_⟩
  · rw [afterStatus_fst]
    exact ⟨u1, u2.1.trans hq.objs, u2.2.2.trans hq.refs⟩
  · intro k; rw [afterStatus_fst]; exact u3 k
  · intro n hne
    rw [afterStatus_fst, u5 n (by rw [hname2, hn]; exact hne)]
  · simp only [reconcile, hstored, harch, ↓reduceIte]

end Pko.Props.C10Lift
