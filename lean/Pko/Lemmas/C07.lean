/-
Helper lemmas for property C07: a small list toolkit, structural facts about `plan` / `odPass` /
`osPass`, the reachability invariant `Inv` and its preservation by every operation.
-/
import Pko.Model.Deployment
namespace Pko.Lemmas.C07
open Pko.Model.Deployment

/-! ### list toolkit -/

theorem inj_of_pairwise {α β} {f : α → β} {l : List α} (hp : l.Pairwise (fun a b => f a ≠ f b))
    {a b : α} (ha : a ∈ l) (hb : b ∈ l) (h : f a = f b) : a = b := by
  induction l with
  | nil => cases ha
  | cons x xs ih =>
    rw [List.pairwise_cons] at hp
    cases ha with
    | head =>
      cases hb with
      | head => rfl
      | tail _ hb => exact absurd h (hp.1 _ hb)
    | tail _ ha =>
      cases hb with
      | head => exact absurd h.symm (hp.1 _ ha)
      | tail _ hb => exact ih hp.2 ha hb

theorem mem_set_of_ne {α} {l : List α} {i : Nat} {o x y : α} (h : l[i]? = some o) (hy : y ∈ l)
    (hne : y ≠ o) : y ∈ l.set i x := by
  induction l generalizing i with
  | nil => cases hy
  | cons a as ih =>
    cases i with
    | zero =>
      simp at h; subst h
      rcases List.mem_cons.mp hy with hy | hy
      · exact absurd hy hne
      · simp [hy]
    | succ i =>
      simp at h
      rcases List.mem_cons.mp hy with hy | hy
      · simp [hy]
      · simp [ih h hy]

theorem mem_set_new {α} {l : List α} {i : Nat} {o x : α} (h : l[i]? = some o) : x ∈ l.set i x := by
  have := List.getElem?_eq_some_iff.mp h
  exact List.mem_set this.1 x

/-- Elements of `l.set i x` when the key `f` is duplicate free and `x` keeps the key of `l[i]`. -/
theorem mem_set_elim {α β} {f : α → β} {l : List α} (hp : l.Pairwise (fun a b => f a ≠ f b))
    {i : Nat} {o x y : α} (h : l[i]? = some o) (hy : y ∈ l.set i x) :
    y = x ∨ (y ∈ l ∧ f y ≠ f o) := by
  induction l generalizing i with
  | nil => simp at h
  | cons a as ih =>
    rw [List.pairwise_cons] at hp
    cases i with
    | zero =>
      simp at h; subst h
      simp at hy
      rcases hy with hy | hy
      · exact .inl hy
      · exact .inr ⟨by simp [hy], fun e => hp.1 _ hy e.symm⟩
    | succ i =>
      simp at h
      simp at hy
      rcases hy with hy | hy
      · subst hy
        exact .inr ⟨by simp, hp.1 _ (List.mem_of_getElem? h)⟩
      · rcases ih hp.2 h hy with r | r
        · exact .inl r
        · exact .inr ⟨by simp [r.1], r.2⟩

theorem pairwise_set {α} {R : α → α → Prop} {l : List α} (hp : l.Pairwise R) {i : Nat} {o x : α}
    (h : l[i]? = some o) (h1 : ∀ y, R y o → R y x) (h2 : ∀ y, R o y → R x y) : (l.set i x).Pairwise R := by
  induction l generalizing i with
  | nil => simp
  | cons a as ih =>
    rw [List.pairwise_cons] at hp
    cases i with
    | zero =>
      simp at h; subst h
      simp only [List.set_cons_zero, List.pairwise_cons]
      exact ⟨fun y hy => h2 _ (hp.1 y hy), hp.2⟩
    | succ i =>
      simp at h
      simp only [List.set_cons_succ, List.pairwise_cons]
      refine ⟨fun y hy => ?_, ih hp.2 h⟩
      rcases List.mem_or_eq_of_mem_set hy with hy | hy
      · exact hp.1 y hy
      · subst hy; exact h1 _ (hp.1 _ (List.mem_of_getElem? h))

theorem mem_eraseIdx_of_ne {α} {l : List α} {i : Nat} {o y : α} (h : l[i]? = some o) (hy : y ∈ l)
    (hne : y ≠ o) : y ∈ l.eraseIdx i := by
  induction l generalizing i with
  | nil => cases hy
  | cons a as ih =>
    cases i with
    | zero =>
      simp at h; subst h
      rcases List.mem_cons.mp hy with hy | hy
      · exact absurd hy hne
      · simpa using hy
    | succ i =>
      simp at h
      rcases List.mem_cons.mp hy with hy | hy
      · simp [hy]
      · simp [ih h hy]

theorem mem_eraseIdx_elim {α β} {f : α → β} {l : List α} (hp : l.Pairwise (fun a b => f a ≠ f b))
    {i : Nat} {o y : α} (h : l[i]? = some o) (hy : y ∈ l.eraseIdx i) : y ∈ l ∧ f y ≠ f o := by
  induction l generalizing i with
  | nil => simp at h
  | cons a as ih =>
    rw [List.pairwise_cons] at hp
    cases i with
    | zero =>
      simp at h; subst h
      simp at hy
      exact ⟨by simp [hy], fun e => hp.1 _ hy e.symm⟩
    | succ i =>
      simp at h
      simp at hy
      rcases hy with hy | hy
      · subst hy; exact ⟨by simp, hp.1 _ (List.mem_of_getElem? h)⟩
      · have := ih hp.2 h hy
        exact ⟨by simp [this.1], this.2⟩

/-- With duplicate-free names, looking an element up by its name finds it. -/
theorem find_by_name {l : List OSet} (hp : l.Pairwise (fun a b => a.name ≠ b.name)) {o : OSet}
    (ho : o ∈ l) : l.find? (fun x => x.name == o.name) = some o := by
  induction l with
  | nil => cases ho
  | cons a as ih =>
    rw [List.pairwise_cons] at hp
    cases ho with
    | head => simp
    | tail _ ho =>
      have : a.name ≠ o.name := hp.1 _ ho
      simp [this, ih hp.2 ho]

theorem find_name_eq {l : List OSet} {n : Nat} {o : OSet}
    (h : l.find? (fun x => x.name == n) = some o) : o ∈ l ∧ o.name = n := by
  refine ⟨List.mem_of_find?_eq_some h, ?_⟩
  simpa using List.find?_some h

/-! ### sorting by revision -/

theorem mem_insertByRev {o x : OSet} {l : List OSet} : x ∈ insertByRev o l ↔ x = o ∨ x ∈ l := by
  induction l with
  | nil => simp [insertByRev]
  | cons a as ih =>
    simp only [insertByRev]
    split
    · simp
    · simp [ih]; constructor
      · rintro (h | h | h) <;> simp [h]
      · rintro (h | h | h) <;> simp [h]

theorem mem_sortByRev {l : List OSet} {o : OSet} : o ∈ sortByRev l ↔ o ∈ l := by
  induction l with
  | nil => simp [sortByRev]
  | cons a as ih =>
    have : sortByRev (a :: as) = insertByRev a (sortByRev as) := rfl
    rw [this, mem_insertByRev, ih]; simp

theorem length_insertByRev (o : OSet) (l : List OSet) : (insertByRev o l).length = l.length + 1 := by
  induction l with
  | nil => simp [insertByRev]
  | cons a as ih =>
    simp only [insertByRev]; split
    · simp
    · simp [ih]

theorem sortByRev_length (l : List OSet) : (sortByRev l).length = l.length := by
  induction l with
  | nil => simp [sortByRev]
  | cons a as ih =>
    have : sortByRev (a :: as) = insertByRev a (sortByRev as) := rfl
    rw [this, length_insertByRev, ih]; simp

theorem sorted_insertByRev {o : OSet} {l : List OSet} (h : l.Pairwise (fun a b => a.rev ≤ b.rev)) :
    (insertByRev o l).Pairwise (fun a b => a.rev ≤ b.rev) := by
  induction l with
  | nil => simp [insertByRev]
  | cons a as ih =>
    rw [List.pairwise_cons] at h
    simp only [insertByRev]
    split
    · rename_i hle
      rw [List.pairwise_cons]
      refine ⟨?_, List.pairwise_cons.mpr h⟩
      intro b hb
      rcases List.mem_cons.mp hb with hb | hb
      · subst hb; exact hle
      · have := h.1 b hb; omega
    · rename_i hle
      rw [List.pairwise_cons]
      refine ⟨?_, ih h.2⟩
      intro b hb
      rcases mem_insertByRev.mp hb with hb | hb
      · subst hb; omega
      · exact h.1 b hb

theorem sorted_sortByRev (l : List OSet) : (sortByRev l).Pairwise (fun a b => a.rev ≤ b.rev) := by
  induction l with
  | nil => simp [sortByRev]
  | cons a as ih => exact sorted_insertByRev ih

/-- The last element of the sorted list carries the highest revision. -/
theorem sortByRev_last {l : List OSet} {x : OSet} (h : (sortByRev l).getLast? = some x) :
    x ∈ l ∧ ∀ y ∈ l, y.rev ≤ x.rev := by
  have hs := sorted_sortByRev l
  obtain ⟨ys, hys⟩ := List.getLast?_eq_some_iff.mp h
  have hx : x ∈ sortByRev l := by rw [hys]; simp
  refine ⟨mem_sortByRev.mp hx, fun y hy => ?_⟩
  have hy' : y ∈ sortByRev l := mem_sortByRev.mpr hy
  rw [hys] at hs hy'
  rw [List.pairwise_append] at hs
  rcases List.mem_append.mp hy' with hy' | hy'
  · exact hs.2.2 y hy' x (by simp)
  · simp at hy'; subst hy'; exact Nat.le_refl _

theorem latestRev_le {l : List OSet} {n : Nat} (h : ∀ y ∈ l, y.rev ≤ n) : latestRev (sortByRev l) ≤ n := by
  unfold latestRev
  cases hl : (sortByRev l).getLast? with
  | none => simp
  | some x => exact h x (sortByRev_last hl).1

/-! ### structure of `plan` -/

theorem plan_create {c : Cfg} {s : State} {v : View} {new : OSet} {latest : Nat}
    (h : plan c s v = .create new latest) :
    s.paused = false ∧ s.template ≠ 0 ∧ (∀ o ∈ visible s v, o.rev ≠ 0) ∧
    new = newSet c s (sortByRev (visible s v)) ∧ latest = latestRev (sortByRev (visible s v)) ∧
    (∀ l, (sortByRev (visible s v)).getLast? = some l → l.hash ≠ c.h s.template s.cc) := by
  unfold plan at h
  simp only at h
  by_cases hg : ((visible s v).any fun o => o.rev == 0) = true
  · simp [hg] at h
  · by_cases hp : s.paused = true
    · simp [hg, hp] at h
    · by_cases hc : isCurrent (sortByRev (visible s v)) (c.h s.template s.cc) = true
      · simp [hg, hp, hc] at h
      · by_cases ht : (s.template == 0) = true
        · simp [hg, hp, hc, ht] at h
        · simp only [hg, hp, hc, ht, if_false, Bool.false_eq_true] at h
          injection h with h1 h2
          refine ⟨by simpa using hp, by simpa using ht, ?_, h1.symm, h2.symm, ?_⟩
          · intro o ho hr
            apply hg
            rw [List.any_eq_true]
            exact ⟨o, ho, by simp [hr]⟩
          · intro l hl hh
            apply hc
            simp [isCurrent, hl, hh]

theorem visible_sub_members {s : State} {v : View} {o : OSet} (h : o ∈ visible s v) :
    o ∈ s.sets ∧ o.member = true := by
  unfold visible at h
  rw [List.mem_filter] at h
  refine ⟨h.1, ?_⟩
  have := h.2
  simp only [Bool.and_eq_true] at this
  exact this.1

theorem mem_visible {s : State} {v : View} {o : OSet} (h : o ∈ s.sets) (hm : o.member = true)
    (hv : v = .fresh ∨ o.serial ∉ s.unseen) : o ∈ visible s v := by
  unfold visible
  rw [List.mem_filter]
  refine ⟨h, ?_⟩
  rcases hv with hv | hv
  · simp [hm, hv]
  · simp [hm, hv]

theorem mem_members {s : State} {o : OSet} : o ∈ members s ↔ o ∈ s.sets ∧ o.member = true := by
  unfold members; rw [List.mem_filter]

/-! ### structure of `odPass` -/

/-- The effect of one ObjectDeployment pass, case by case. -/
inductive OdCase (c : Cfg) (s : State) (f : Fault) (v : View) (sfail : Bool) (o : Out) : Prop where
  /-- nothing but the cache view and status.templateHash changes -/
  | quiet (hsets : o.st.sets = s.sets) (hcc : o.st.cc = s.cc) (hnext : o.st.next = s.next)
      (hcreated : o.st.created = s.created) (hunseen : o.st.unseen = markSeen v s.unseen)
      (hreqs : ∀ r ∈ o.reqs, r.outcome = .exists ∨ r.outcome = .fail)
  /-- name clash resolved by bumping the collision counter -/
  | bump (new : OSet) (latest : Nat) (conf : OSet) (hplan : plan c s v = .create new latest)
      (hfind : s.sets.find? (fun x => x.name == c.h s.template s.cc) = some conf)
      (hslow : slowCache c conf latest s.template = false)
      (hget : ¬ (v = .hideBoth ∧ conf.member = true ∧ conf.serial ∈ s.unseen))
      (hsf : sfail = false) (hres : o.res = .ok)
      (hsets : o.st.sets = s.sets) (hcc : o.st.cc = s.cc + 1) (hnext : o.st.next = s.next)
      (hcreated : o.st.created = s.created) (hunseen : o.st.unseen = markSeen v s.unseen)
      (hreqs : o.reqs = [⟨new, .exists⟩])
  /-- a new ObjectSet is created -/
  | create (new : OSet) (latest : Nat) (oc : Outcome) (hplan : plan c s v = .create new latest)
      (hfind : s.sets.find? (fun x => x.name == c.h s.template s.cc) = none)
      (hoc : oc = .ok ∨ oc = .lost)
      (hsets : o.st.sets = s.sets ++ [new]) (hcc : o.st.cc = s.cc) (hnext : o.st.next = s.next + 1)
      (hcreated : o.st.created = s.created + 1) (hunseen : o.st.unseen = new.serial :: markSeen v s.unseen)
      (hreqs : o.reqs = [⟨new, oc⟩])

theorem finish_fields (s : State) (cc0 tH : Nat) (sf : Bool) (reqs : List Req) :
    (finish s cc0 tH sf reqs).st.sets = s.sets ∧ (finish s cc0 tH sf reqs).st.next = s.next ∧
    (finish s cc0 tH sf reqs).st.created = s.created ∧ (finish s cc0 tH sf reqs).st.unseen = s.unseen ∧
    (finish s cc0 tH sf reqs).st.template = s.template ∧ (finish s cc0 tH sf reqs).st.paused = s.paused ∧
    (finish s cc0 tH sf reqs).st.hi = s.hi ∧ (finish s cc0 tH sf reqs).st.log = s.log ∧
    (finish s cc0 tH sf reqs).reqs = reqs ∧
    (finish s cc0 tH sf reqs).st.cc = (if sf then cc0 else s.cc) ∧
    (finish s cc0 tH sf reqs).res = (if sf then .inj else .ok) := by
  unfold finish; cases sf <;> simp

theorem odPass_frame (c : Cfg) (s : State) (f : Fault) (v : View) (sf : Bool) :
    (odPass c s f v sf).st.template = s.template ∧ (odPass c s f v sf).st.paused = s.paused ∧
    (odPass c s f v sf).st.hi = s.hi ∧ (odPass c s f v sf).st.log = s.log := by
  unfold odPass
  simp only
  split
  · split
    · simp
    · split
      · split
        · simp
        · simp [finish_fields]
      · split
        · simp
        · split <;> simp [finish_fields]
  · simp [finish_fields]

theorem odPass_cases (c : Cfg) (s : State) (f : Fault) (v : View) (sf : Bool) :
    OdCase c s f v sf (odPass c s f v sf) := by
  unfold odPass
  simp only
  split
  · rename_i new latest hplan
    split
    · exact .quiet rfl rfl rfl rfl rfl (by simp)
    · rename_i hf
      split
      · rename_i hfind
        split
        · exact .create new latest .lost hplan hfind (.inr rfl) rfl rfl rfl rfl rfl rfl
        · have := finish_fields
            { s with unseen := new.serial :: markSeen v s.unseen, sets := s.sets ++ [new], next := s.next + 1,
                     created := s.created + 1 } s.cc (c.h s.template s.cc) sf [⟨new, .ok⟩]
          refine .create new latest .ok hplan hfind (.inl rfl) this.1 ?_ this.2.1 this.2.2.1 this.2.2.2.1
            this.2.2.2.2.2.2.2.2.1
          rw [this.2.2.2.2.2.2.2.2.2.1]; cases sf <;> rfl
      · rename_i conf hfind
        split
        · exact .quiet rfl rfl rfl rfl rfl (by simp)
        · rename_i hget
          split
          · have := finish_fields { s with unseen := markSeen v s.unseen } s.cc (c.h s.template s.cc) sf
              [⟨new, .exists⟩]
            refine .quiet this.1 ?_ this.2.1 this.2.2.1 this.2.2.2.1 ?_
            · rw [this.2.2.2.2.2.2.2.2.2.1]; cases sf <;> rfl
            · rw [this.2.2.2.2.2.2.2.2.1]; simp
          · rename_i hslow
            have := finish_fields { s with unseen := markSeen v s.unseen, cc := s.cc + 1 } s.cc
              (c.h s.template s.cc) sf [⟨new, .exists⟩]
            cases sf with
            | true =>
              refine .quiet this.1 ?_ this.2.1 this.2.2.1 this.2.2.2.1 ?_
              · rw [this.2.2.2.2.2.2.2.2.2.1]; rfl
              · rw [this.2.2.2.2.2.2.2.2.1]; simp
            | false =>
              refine .bump new latest conf hplan hfind (by simpa using hslow) hget rfl ?_ this.1 ?_ this.2.1
                this.2.2.1 this.2.2.2.1 this.2.2.2.2.2.2.2.2.1
              · rw [this.2.2.2.2.2.2.2.2.2.2]; rfl
              · rw [this.2.2.2.2.2.2.2.2.2.1]; rfl
  · rename_i hplan
    have := finish_fields { s with unseen := markSeen v s.unseen } s.cc (c.h s.template s.cc) sf []
    refine .quiet this.1 ?_ this.2.1 this.2.2.1 this.2.2.2.1 ?_
    · rw [this.2.2.2.2.2.2.2.2.2.1]; cases sf <;> rfl
    · rw [this.2.2.2.2.2.2.2.2.1]; simp

/-! ### the reachability invariant -/

/-- `n` is an ObjectSet of the deployment that carries the current template hash as its name and is
either still waiting for its revision number or already the newest; every other ObjectSet of the
deployment reports a revision.  While such an ObjectSet exists a pass creates nothing and does
not touch the collision counter (`od_blocked`). -/
def Blocker (c : Cfg) (s : State) (n : OSet) : Prop :=
  n ∈ s.sets ∧ n.member = true ∧ n.name = c.h s.template s.cc ∧
  ∀ m ∈ s.sets, m.member = true → m.serial ≠ n.serial → m.rev ≠ 0 ∧ (n.rev = 0 ∨ m.rev < n.rev)

structure Inv (c : Cfg) (s : State) : Prop where
  serial_lt : ∀ o ∈ s.sets, o.serial < s.next
  unseen_lt : ∀ x ∈ s.unseen, x < s.next
  serial_nodup : s.sets.Pairwise (fun a b => a.serial ≠ b.serial)
  name_nodup : s.sets.Pairwise (fun a b => a.name ≠ b.name)
  mem_own : ∀ o ∈ s.sets, o.member = true → o.hash = o.name ∧ o.owned = true
  unseen_inv : ∀ u ∈ s.sets, u.serial ∈ s.unseen → u.archived = false ∧ u.spec = s.template ∧ Blocker c s u
  pending : ∀ p ∈ s.sets, p.member = true → p.rev = 0 →
    ∀ m ∈ s.sets, m.member = true → m.serial ≠ p.serial → m.rev ≠ 0 ∧ m.name ∈ p.prev
  rev_unique : ∀ a ∈ s.sets, ∀ b ∈ s.sets, a.member = true → b.member = true → a.rev ≠ 0 →
    a.rev = b.rev → a.serial = b.serial
  hi_ge : ∀ m ∈ s.sets, m.member = true → m.rev ≤ s.hi
  hi_mem : s.hi = 0 ∨ ∃ m ∈ s.sets, m.member = true ∧ m.rev = s.hi
  log_le : ∀ r ∈ s.log, r ≤ s.hi
  log_sorted : s.log.Pairwise (· < ·)
  epoch : s.created ≤ 1
  epoch_one : s.created = 1 → ∃ n, Blocker c s n

theorem inv_init (c : Cfg) (t : Nat) : Inv c (init t) := by
  constructor <;> simp [init]

theorem Blocker.congr {c : Cfg} {s s' : State} {n : OSet} (hs : s'.sets = s.sets)
    (ht : s'.template = s.template) (hc : s'.cc = s.cc) (h : Blocker c s n) : Blocker c s' n := by
  unfold Blocker at *; rw [hs, ht, hc]; exact h

/-- Transfer of the invariant to a state with the same ObjectSets and ghost revision bookkeeping. -/
theorem Inv.transfer {c : Cfg} {s s' : State} (h : Inv c s) (hs : s'.sets = s.sets) (hn : s'.next = s.next)
    (hhi : s'.hi = s.hi) (hlog : s'.log = s.log)
    (hul : ∀ x ∈ s'.unseen, x < s'.next)
    (hui : ∀ u ∈ s'.sets, u.serial ∈ s'.unseen → u.archived = false ∧ u.spec = s'.template ∧ Blocker c s' u)
    (he : s'.created ≤ 1) (he1 : s'.created = 1 → ∃ n, Blocker c s' n) : Inv c s' := by
  constructor
  · rw [hs, hn]; exact h.serial_lt
  · exact hul
  · rw [hs]; exact h.serial_nodup
  · rw [hs]; exact h.name_nodup
  · rw [hs]; exact h.mem_own
  · exact hui
  · rw [hs]; exact h.pending
  · rw [hs]; exact h.rev_unique
  · rw [hs, hhi]; exact h.hi_ge
  · rw [hs, hhi]; exact h.hi_mem
  · rw [hlog, hhi]; exact h.log_le
  · rw [hlog]; exact h.log_sorted
  · exact he
  · exact he1

theorem markSeen_sub {v : View} {u : List Nat} {x : Nat} (h : x ∈ markSeen v u) : x ∈ u ∧ v ≠ .fresh := by
  unfold markSeen at h
  split at h
  · cases h
  · rename_i hv; exact ⟨h, hv⟩

/-! ### a blocker stops the pass -/

theorem blocker_hidden {c : Cfg} {s : State} {v : View} {n new : OSet} {latest : Nat} (hi : Inv c s)
    (hb : Blocker c s n) (hp : plan c s v = .create new latest) : n ∉ visible s v := by
  intro hv
  obtain ⟨_, _, hrep, _, _, hcur⟩ := plan_create hp
  obtain ⟨hn, hm, hname, hoth⟩ := hb
  have hr : n.rev ≠ 0 := hrep n hv
  cases hl : (sortByRev (visible s v)).getLast? with
  | none =>
    have := List.getLast?_eq_none_iff.mp hl
    have h2 : n ∈ sortByRev (visible s v) := mem_sortByRev.mpr hv
    rw [this] at h2; cases h2
  | some l =>
    obtain ⟨hlv, hmax⟩ := sortByRev_last hl
    have hle := hmax n hv
    obtain ⟨hls, hlm⟩ := visible_sub_members hlv
    by_cases hser : l.serial = n.serial
    · have : l = n := inj_of_pairwise (f := OSet.serial) hi.serial_nodup hls hn hser
      subst this
      apply hcur l hl
      rw [(hi.mem_own l hls hlm).1, hname]
    · have := hoth l hls hlm hser
      rcases this.2 with h0 | hlt
      · exact hr h0
      · omega

theorem unseen_of_hidden {s : State} {v : View} {n : OSet} (hn : n ∈ s.sets) (hm : n.member = true)
    (h : n ∉ visible s v) : v ≠ .fresh ∧ n.serial ∈ s.unseen := by
  constructor
  · intro hv; exact h (mem_visible hn hm (.inl hv))
  · apply Classical.byContradiction; intro hu; exact h (mem_visible hn hm (.inr hu))

theorem blocker_find {c : Cfg} {s : State} {n : OSet} (hi : Inv c s) (hb : Blocker c s n) :
    s.sets.find? (fun x => x.name == c.h s.template s.cc) = some n := by
  rw [← hb.2.2.1]; exact find_by_name hi.name_nodup hb.1

theorem blocker_slow {c : Cfg} {s : State} {v : View} {n : OSet} (hi : Inv c s) (hl : c.legacy = false)
    (hb : Blocker c s n) (hu : n.serial ∈ s.unseen) :
    slowCache c n (latestRev (sortByRev (visible s v))) s.template = true := by
  obtain ⟨harch, hspec, _⟩ := hi.unseen_inv n hb.1 hu
  obtain ⟨hn, hm, hname, hoth⟩ := hb
  have hown := (hi.mem_own n hn hm).2
  unfold slowCache
  simp only [harch, hown, hspec, hl, Bool.not_false, Bool.true_and, Bool.and_true, beq_self_eq_true]
  by_cases h0 : n.rev = 0
  · simp [h0]
  · have : latestRev (sortByRev (visible s v)) ≤ n.rev := by
      apply latestRev_le
      intro y hy
      obtain ⟨hys, hym⟩ := visible_sub_members hy
      by_cases hser : y.serial = n.serial
      · have : y = n := inj_of_pairwise (f := OSet.serial) hi.serial_nodup hys hn hser
        subst this; exact Nat.le_refl _
      · rcases (hoth y hys hym hser).2 with h | h
        · exact absurd h h0
        · omega
    simp [this]

/-- While a blocker exists the pass is quiet: no ObjectSet is created, the counter stays. -/
theorem od_blocked {c : Cfg} {s : State} {f : Fault} {v : View} {sf : Bool} {n : OSet} (hi : Inv c s)
    (hl : c.legacy = false) (hb : Blocker c s n) :
    (odPass c s f v sf).st.sets = s.sets ∧ (odPass c s f v sf).st.cc = s.cc ∧
    (odPass c s f v sf).st.next = s.next ∧ (odPass c s f v sf).st.created = s.created ∧
    (odPass c s f v sf).st.unseen = markSeen v s.unseen ∧
    (∀ r ∈ (odPass c s f v sf).reqs, r.outcome = .exists ∨ r.outcome = .fail) := by
  cases odPass_cases c s f v sf with
  | quiet h1 h2 h3 h4 h5 h6 => exact ⟨h1, h2, h3, h4, h5, h6⟩
  | bump new latest conf hplan hfind hslow hget =>
    exfalso
    have hh := blocker_hidden hi hb hplan
    obtain ⟨_, hu⟩ := unseen_of_hidden hb.1 hb.2.1 hh
    have := blocker_find hi hb
    rw [this] at hfind; injection hfind with hfind; subst hfind
    have hs := blocker_slow (v := v) hi hl hb hu
    rw [(plan_create hplan).2.2.2.2.1] at hslow
    rw [hs] at hslow; cases hslow
  | create new latest oc hplan hfind =>
    exfalso
    have := blocker_find hi hb
    rw [this] at hfind; cases hfind

/-! ### preservation: ObjectDeployment pass -/

theorem no_blocker_unseen {c : Cfg} {s : State} (hi : Inv c s) (hnb : ∀ n, ¬ Blocker c s n) :
    ∀ u ∈ s.sets, u.serial ∉ s.unseen :=
  fun u hu hx => hnb u (hi.unseen_inv u hu hx).2.2

theorem no_blocker_created {c : Cfg} {s : State} (hi : Inv c s) (hnb : ∀ n, ¬ Blocker c s n) :
    s.created = 0 := by
  have := hi.epoch
  by_cases h : s.created = 1
  · obtain ⟨n, hn⟩ := hi.epoch_one h; exact absurd hn (hnb n)
  · omega

theorem inv_od {c : Cfg} {s : State} (hi : Inv c s) (hl : c.legacy = false) (f : Fault) (v : View) (sf : Bool) :
    Inv c (odPass c s f v sf).st := by
  obtain ⟨ft, fp, fh, flg⟩ := odPass_frame c s f v sf
  cases odPass_cases c s f v sf with
  | quiet hsets hcc hnext hcreated hunseen hreqs =>
    refine hi.transfer hsets hnext fh flg ?_ ?_ ?_ ?_
    · intro x hx; rw [hunseen] at hx; rw [hnext]; exact hi.unseen_lt x (markSeen_sub hx).1
    · intro u hu hx
      rw [hsets] at hu; rw [hunseen] at hx
      obtain ⟨h1, h2, h3⟩ := hi.unseen_inv u hu (markSeen_sub hx).1
      exact ⟨h1, by rw [ft]; exact h2, h3.congr hsets ft hcc⟩
    · rw [hcreated]; exact hi.epoch
    · intro h; rw [hcreated] at h
      obtain ⟨n, hn⟩ := hi.epoch_one h
      exact ⟨n, hn.congr hsets ft hcc⟩
  | bump new latest conf hplan hfind hslow hget hsf hres hsets hcc hnext hcreated hunseen hreqs =>
    have hnb : ∀ n, ¬ Blocker c s n := by
      intro n hb
      have := (od_blocked (f := f) (v := v) (sf := sf) hi hl hb).2.1
      omega
    refine hi.transfer hsets hnext fh flg ?_ ?_ ?_ ?_
    · intro x hx; rw [hunseen] at hx; rw [hnext]; exact hi.unseen_lt x (markSeen_sub hx).1
    · intro u hu hx
      rw [hsets] at hu; rw [hunseen] at hx
      exact absurd (markSeen_sub hx).1 (no_blocker_unseen hi hnb u hu)
    · rw [hcreated]; exact hi.epoch
    · intro h; rw [hcreated, no_blocker_created hi hnb] at h; cases h
  | create new latest oc hplan hfind hoc hsets hcc hnext hcreated hunseen hreqs =>
    have hnb : ∀ n, ¬ Blocker c s n := by
      intro n hb
      have := (od_blocked (f := f) (v := v) (sf := sf) hi hl hb).2.2.1
      omega
    obtain ⟨_, _, hrep, hnew, _, _⟩ := plan_create hplan
    have hvis : ∀ m ∈ s.sets, m.member = true → m ∈ visible s v :=
      fun m hm hmm => mem_visible hm hmm (.inr (no_blocker_unseen hi hnb m hm))
    have hallrep : ∀ m ∈ s.sets, m.member = true → m.rev ≠ 0 := fun m hm hmm => hrep m (hvis m hm hmm)
    have hser : new.serial = s.next := by rw [hnew]; rfl
    have hname : new.name = c.h s.template s.cc := by rw [hnew]; rfl
    have hrev : new.rev = 0 := by rw [hnew]; rfl
    have hmem : new.member = true := by rw [hnew]; rfl
    have hfresh : ∀ a ∈ s.sets, a.name ≠ new.name := by
      intro a ha
      have := List.find?_eq_none.mp hfind a ha
      rw [hname]; simpa using this
    have hnewblock : Blocker c (odPass c s f v sf).st new := by
      refine ⟨by rw [hsets]; simp, hmem, by rw [ft, hcc]; exact hname, ?_⟩
      intro m hm hmm hne
      rw [hsets] at hm
      rcases List.mem_append.mp hm with hm | hm
      · exact ⟨hallrep m hm hmm, .inl hrev⟩
      · simp at hm; subst hm; exact absurd rfl hne
    constructor
    · intro o ho; rw [hsets] at ho; rw [hnext]
      rcases List.mem_append.mp ho with ho | ho
      · have := hi.serial_lt o ho; omega
      · simp at ho; subst ho; omega
    · intro x hx; rw [hunseen] at hx; rw [hnext]
      rcases List.mem_cons.mp hx with hx | hx
      · omega
      · have := hi.unseen_lt x (markSeen_sub hx).1; omega
    · rw [hsets, List.pairwise_append]
      refine ⟨hi.serial_nodup, by simp, ?_⟩
      intro a ha b hb; simp at hb; subst hb
      have := hi.serial_lt a ha; omega
    · rw [hsets, List.pairwise_append]
      refine ⟨hi.name_nodup, by simp, ?_⟩
      intro a ha b hb; simp at hb; subst hb
      exact hfresh a ha
    · intro o ho hom; rw [hsets] at ho
      rcases List.mem_append.mp ho with ho | ho
      · exact hi.mem_own o ho hom
      · simp at ho; subst ho; rw [hnew]; exact ⟨rfl, rfl⟩
    · intro u hu hx; rw [hsets] at hu; rw [hunseen] at hx
      rcases List.mem_append.mp hu with hu | hu
      · exfalso
        rcases List.mem_cons.mp hx with hx | hx
        · have := hi.serial_lt u hu; omega
        · exact no_blocker_unseen hi hnb u hu (markSeen_sub hx).1
      · simp at hu; subst hu
        refine ⟨by rw [hnew]; rfl, by rw [ft, hnew]; rfl, hnewblock⟩
    · intro p hp hpm hpr m hm hmm hne
      rw [hsets] at hp hm
      rcases List.mem_append.mp hp with hp | hp
      · exact absurd hpr (hallrep p hp hpm)
      · simp at hp; subst hp
        rcases List.mem_append.mp hm with hm | hm
        · refine ⟨hallrep m hm hmm, ?_⟩
          rw [hnew]
          simp only [newSet, List.mem_map]
          exact ⟨m, mem_sortByRev.mpr (hvis m hm hmm), rfl⟩
        · simp at hm; subst hm; exact absurd rfl hne
    · intro a ha b hb ham hbm har hab
      rw [hsets] at ha hb
      rcases List.mem_append.mp ha with ha | ha
      · rcases List.mem_append.mp hb with hb | hb
        · exact hi.rev_unique a ha b hb ham hbm har hab
        · simp at hb; subst hb; rw [hrev] at hab; exact absurd hab har
      · simp at ha; subst ha; exact absurd hrev har
    · intro m hm hmm; rw [hsets] at hm; rw [fh]
      rcases List.mem_append.mp hm with hm | hm
      · exact hi.hi_ge m hm hmm
      · simp at hm; subst hm; omega
    · rw [fh, hsets]
      rcases hi.hi_mem with h | ⟨m, hm, hmm, hmr⟩
      · exact .inl h
      · exact .inr ⟨m, by simp [hm], hmm, hmr⟩
    · rw [flg, fh]; exact hi.log_le
    · rw [flg]; exact hi.log_sorted
    · rw [hcreated, no_blocker_created hi hnb]; omega
    · intro _; exact ⟨new, hnewblock⟩

/-! ### preservation: ObjectSet pass (revision assignment) -/

theorem lookPrev_ok {sets : List OSet} {names : List Nat} {acc m : Nat}
    (h : lookPrev sets names acc = .ok m) :
    acc ≤ m ∧ ∀ n ∈ names, ∃ p, sets.find? (fun o => o.name == n) = some p ∧ p.rev ≤ m := by
  induction names generalizing acc with
  | nil => simp [lookPrev] at h; subst h; simp
  | cons n ns ih =>
    simp only [lookPrev] at h
    split at h
    · cases h
    · rename_i p hp
      split at h
      · cases h
      · have := ih h
        refine ⟨by omega, ?_⟩
        intro x hx
        rcases List.mem_cons.mp hx with hx | hx
        · subst hx; exact ⟨p, hp, by omega⟩
        · exact this.2 x hx

theorem osDecide_some {s : State} {o : OSet} {r : Nat} {res : OsRes} (h : osDecide s o = (some r, res)) :
    o.archived = false ∧ o.rev = 0 ∧
    ((o.prev = [] ∧ r = 1) ∨ ∃ m, lookPrev s.sets o.prev 0 = .ok m ∧ r = m + 1) := by
  unfold osDecide at h
  split at h
  · cases h
  · rename_i ha
    split at h
    · cases h
    · rename_i hr
      split at h
      · rename_i he
        injection h with h1 _; injection h1 with h1
        exact ⟨by simpa using ha, by simpa using hr, .inl ⟨by simpa using he, h1.symm⟩⟩
      · split at h
        · cases h
        · cases h
        · rename_i m hm
          injection h with h1 _; injection h1 with h1
          exact ⟨by simpa using ha, by simpa using hr, .inr ⟨m, hm, h1.symm⟩⟩

/-- The revision the ObjectSet controller reports for an ObjectSet of the deployment exceeds the
revision of every other ObjectSet of the deployment. -/
theorem assign_gt {c : Cfg} {s : State} {o : OSet} {r : Nat} {res : OsRes} (hi : Inv c s) (ho : o ∈ s.sets)
    (hm : o.member = true) (h : osDecide s o = (some r, res)) :
    0 < r ∧ ∀ x ∈ s.sets, x.member = true → x.serial ≠ o.serial → x.rev < r := by
  obtain ⟨_, h0, hcase⟩ := osDecide_some h
  refine ⟨by rcases hcase with ⟨_, h⟩ | ⟨m, _, h⟩ <;> omega, ?_⟩
  intro x hx hxm hne
  obtain ⟨_, hin⟩ := hi.pending o ho hm h0 x hx hxm hne
  rcases hcase with ⟨hp, _⟩ | ⟨m, hlk, hr⟩
  · rw [hp] at hin; cases hin
  · obtain ⟨p, hp, hle⟩ := (lookPrev_ok hlk).2 _ hin
    rw [find_by_name hi.name_nodup hx] at hp
    injection hp with hp; subst hp; omega

@[simp] theorem setRev_sets (s : State) (i : Nat) (o : OSet) (r : Nat) :
    (setRev s i o r).sets = s.sets.set i { o with rev := r } := rfl
@[simp] theorem setRev_template (s : State) (i : Nat) (o : OSet) (r : Nat) : (setRev s i o r).template = s.template := rfl
@[simp] theorem setRev_cc (s : State) (i : Nat) (o : OSet) (r : Nat) : (setRev s i o r).cc = s.cc := rfl
@[simp] theorem setRev_unseen (s : State) (i : Nat) (o : OSet) (r : Nat) : (setRev s i o r).unseen = s.unseen := rfl
@[simp] theorem setRev_next (s : State) (i : Nat) (o : OSet) (r : Nat) : (setRev s i o r).next = s.next := rfl
@[simp] theorem setRev_created (s : State) (i : Nat) (o : OSet) (r : Nat) : (setRev s i o r).created = s.created := rfl
@[simp] theorem setRev_paused (s : State) (i : Nat) (o : OSet) (r : Nat) : (setRev s i o r).paused = s.paused := rfl

theorem blocker_setRev {c : Cfg} {s : State} {i r : Nat} {o n : OSet} (hi : Inv c s)
    (hget : s.sets[i]? = some o) (ho0 : o.rev = 0)
    (hgt : o.member = true → 0 < r ∧ ∀ x ∈ s.sets, x.member = true → x.serial ≠ o.serial → x.rev < r)
    (hb : Blocker c s n) :
    Blocker c (setRev s i o r) (if n.serial = o.serial then { o with rev := r } else n) := by
  have hos : o ∈ s.sets := List.mem_of_getElem? hget
  obtain ⟨hn, hnm, hname, hoth⟩ := hb
  by_cases hser : n.serial = o.serial
  · have hno : n = o := inj_of_pairwise (f := OSet.serial) hi.serial_nodup hn hos hser
    subst hno
    simp only [if_true]
    refine ⟨by simp; exact mem_set_new hget, hnm, by simpa using hname, ?_⟩
    intro m hm hmm hne
    simp at hm
    rcases mem_set_elim (f := OSet.serial) hi.serial_nodup hget hm with hm | ⟨hm, hms⟩
    · subst hm; exact absurd rfl hne
    · exact ⟨(hoth m hm hmm hms).1, .inr ((hgt hnm).2 m hm hmm hms)⟩
  · simp only [hser, if_false]
    have hne : n ≠ o := fun e => hser (by rw [e])
    refine ⟨by simp; exact mem_set_of_ne hget hn hne, hnm, by simpa using hname, ?_⟩
    intro m hm hmm hmne
    simp at hm
    rcases mem_set_elim (f := OSet.serial) hi.serial_nodup hget hm with hm | ⟨hm, hms⟩
    · subst hm
      have := (hoth o hos hmm (fun e => hser e.symm)).1
      exact absurd ho0 this
    · exact hoth m hm hmm hmne

theorem inv_setRev {c : Cfg} {s : State} {i r : Nat} {o : OSet} (hi : Inv c s)
    (hget : s.sets[i]? = some o) (ho0 : o.rev = 0)
    (hgt : o.member = true → 0 < r ∧ ∀ x ∈ s.sets, x.member = true → x.serial ≠ o.serial → x.rev < r) :
    Inv c (setRev s i o r) := by
  have hos : o ∈ s.sets := List.mem_of_getElem? hget
  have helim : ∀ y ∈ (setRev s i o r).sets, y = { o with rev := r } ∨ (y ∈ s.sets ∧ y.serial ≠ o.serial) :=
    fun y hy => mem_set_elim (f := OSet.serial) hi.serial_nodup hget (by simpa using hy)
  -- a member `o` receives a revision above the highest ever reported
  have hhi : o.member = true → s.hi < r := by
    intro hm
    obtain ⟨hpos, hall⟩ := hgt hm
    rcases hi.hi_mem with h | ⟨m, hms, hmm, hmr⟩
    · omega
    · by_cases hser : m.serial = o.serial
      · have : m = o := inj_of_pairwise (f := OSet.serial) hi.serial_nodup hms hos hser
        subst this; omega
      · have := hall m hms hmm hser; omega
  constructor
  · intro y hy
    rcases helim y hy with hy | ⟨hy, _⟩
    · subst hy; exact hi.serial_lt o hos
    · exact hi.serial_lt y hy
  · exact hi.unseen_lt
  · simp only [setRev_sets]
    exact pairwise_set hi.serial_nodup hget (fun y h => h) (fun y h => h)
  · simp only [setRev_sets]
    exact pairwise_set hi.name_nodup hget (fun y h => h) (fun y h => h)
  · intro y hy hym
    rcases helim y hy with hy | ⟨hy, _⟩
    · subst hy; exact hi.mem_own o hos hym
    · exact hi.mem_own y hy hym
  · intro u hu hx
    simp only [setRev_unseen] at hx
    rcases helim u hu with hu | ⟨hu, hus⟩
    · subst hu
      obtain ⟨h1, h2, h3⟩ := hi.unseen_inv o hos hx
      have := blocker_setRev (r := r) hi hget ho0 hgt h3
      simp only [if_true] at this
      exact ⟨h1, h2, this⟩
    · obtain ⟨h1, h2, h3⟩ := hi.unseen_inv u hu hx
      have := blocker_setRev (r := r) hi hget ho0 hgt h3
      simp only [hus, if_false] at this
      exact ⟨h1, h2, this⟩
  · intro p hp hpm hpr m hm hmm hne
    rcases helim p hp with hp | ⟨hp, hps⟩
    · subst hp
      have := (hgt hpm).1
      simp at hpr; omega
    · rcases helim m hm with hm | ⟨hm, hms⟩
      · subst hm
        have := (hi.pending p hp hpm hpr o hos hmm (fun e => hps e.symm)).1
        exact absurd ho0 this
      · exact hi.pending p hp hpm hpr m hm hmm hne
  · intro a ha b hb ham hbm har hab
    rcases helim a ha with ha | ⟨ha, has⟩
    · rcases helim b hb with hb | ⟨hb, hbs⟩
      · rw [ha, hb]
      · subst ha
        have := (hgt ham).2 b hb hbm hbs
        simp at hab; omega
    · rcases helim b hb with hb | ⟨hb, hbs⟩
      · subst hb
        have := (hgt hbm).2 a ha ham has
        simp at hab; omega
      · exact hi.rev_unique a ha b hb ham hbm har hab
  · intro m hm hmm
    rcases helim m hm with hm | ⟨hm, _⟩
    · subst hm
      have : o.member = true := hmm
      simp [setRev, this]; omega
    · have := hi.hi_ge m hm hmm
      simp only [setRev]; split <;> omega
  · by_cases hom : o.member = true
    · right
      refine ⟨{ o with rev := r }, by simp; exact mem_set_new hget, hom, ?_⟩
      have := hhi hom
      simp [setRev, hom]; omega
    · rcases hi.hi_mem with h | ⟨m, hms, hmm, hmr⟩
      · left; simp [setRev, hom]; exact h
      · right
        refine ⟨m, by simp; exact mem_set_of_ne hget hms (fun e => hom (e ▸ hmm)), hmm, ?_⟩
        simp [setRev, hom]; exact hmr
  · intro x hx
    by_cases hom : o.member = true
    · simp [setRev, hom] at hx ⊢
      rcases hx with hx | hx
      · have := hi.log_le x hx; omega
      · omega
    · simp [setRev, hom] at hx ⊢
      exact hi.log_le x hx
  · by_cases hom : o.member = true
    · simp only [setRev, hom, if_true]
      rw [List.pairwise_append]
      refine ⟨hi.log_sorted, by simp, ?_⟩
      intro a ha b hb; simp at hb; subst hb
      have := hi.log_le a ha; have := hhi hom; omega
    · simp only [setRev, hom]; exact hi.log_sorted
  · exact hi.epoch
  · intro h
    obtain ⟨n, hn⟩ := hi.epoch_one h
    exact ⟨_, blocker_setRev (r := r) hi hget ho0 hgt hn⟩

theorem inv_os {c : Cfg} {s : State} (hi : Inv c s) (i : Nat) : Inv c (osPass s i).1 := by
  unfold osPass
  split
  · exact hi
  · rename_i o hget
    split
    · rename_i r res hd
      have hos : o ∈ s.sets := List.mem_of_getElem? hget
      exact inv_setRev hi hget (osDecide_some hd).2.1 (fun hm => assign_gt hi hos hm hd)
    · exact hi

/-! ### preservation: environment operations -/

theorem inv_arch {c : Cfg} {s : State} {i : Nat} {o : OSet} (hi : Inv c s) (hget : s.sets[i]? = some o)
    (hca : canArchive s o = true) :
    Inv c { s with sets := s.sets.set i { o with archived := true } } := by
  have hos : o ∈ s.sets := List.mem_of_getElem? hget
  have hca' : o.member = true → o.rev ≠ 0 ∧ o.serial ∉ s.unseen := by
    intro hm
    unfold canArchive at hca
    simp [hm] at hca
    exact hca
  have helim : ∀ y ∈ s.sets.set i { o with archived := true },
      y = { o with archived := true } ∨ (y ∈ s.sets ∧ y.serial ≠ o.serial) :=
    fun y hy => mem_set_elim (f := OSet.serial) hi.serial_nodup hget hy
  -- every element of the new list is an element of the old one up to the `archived` flag
  have hold : ∀ y ∈ s.sets.set i { o with archived := true }, ∃ y' ∈ s.sets, y'.serial = y.serial ∧
      y'.name = y.name ∧ y'.hash = y.hash ∧ y'.rev = y.rev ∧ y'.member = y.member ∧ y'.owned = y.owned ∧
      y'.prev = y.prev := by
    intro y hy
    rcases helim y hy with hy | ⟨hy, _⟩
    · subst hy; exact ⟨o, hos, rfl, rfl, rfl, rfl, rfl, rfl, rfl⟩
    · exact ⟨y, hy, rfl, rfl, rfl, rfl, rfl, rfl, rfl⟩
  have hblock : ∀ n, Blocker c s n → Blocker c { s with sets := s.sets.set i { o with archived := true } }
      (if n.serial = o.serial then { o with archived := true } else n) := by
    intro n ⟨hn, hnm, hname, hoth⟩
    by_cases hser : n.serial = o.serial
    · have hno : n = o := inj_of_pairwise (f := OSet.serial) hi.serial_nodup hn hos hser
      subst hno
      simp only [if_true]
      refine ⟨mem_set_new hget, hnm, hname, ?_⟩
      intro m hm hmm hne
      obtain ⟨m', hm', e1, _, _, e4, e5, _, _⟩ := hold m hm
      have := hoth m' hm' (by rw [e5]; exact hmm) (by rw [e1]; exact hne)
      rw [e4] at this; exact this
    · simp only [hser, if_false]
      refine ⟨mem_set_of_ne hget hn (fun e => hser (by rw [e])), hnm, hname, ?_⟩
      intro m hm hmm hne
      obtain ⟨m', hm', e1, _, _, e4, e5, _, _⟩ := hold m hm
      have := hoth m' hm' (by rw [e5]; exact hmm) (by rw [e1]; exact hne)
      rw [e4] at this; exact this
  constructor
  · intro y hy
    obtain ⟨y', hy', e1, _⟩ := hold y hy
    rw [← e1]; exact hi.serial_lt y' hy'
  · exact hi.unseen_lt
  · exact pairwise_set hi.serial_nodup hget (fun y h => h) (fun y h => h)
  · exact pairwise_set hi.name_nodup hget (fun y h => h) (fun y h => h)
  · intro y hy hym
    obtain ⟨y', hy', _, e2, e3, _, e5, e6, _⟩ := hold y hy
    have := hi.mem_own y' hy' (by rw [e5]; exact hym)
    rw [e2, e3, e6] at this; exact this
  · intro u hu hx
    rcases helim u hu with hu | ⟨hu, hus⟩
    · subst hu
      have hm := (hi.unseen_inv o hos hx).2.2.2.1
      exact absurd hx (hca' hm).2
    · obtain ⟨h1, h2, h3⟩ := hi.unseen_inv u hu hx
      have := hblock u h3
      simp only [hus, if_false] at this
      exact ⟨h1, h2, this⟩
  · intro p hp hpm hpr m hm hmm hne
    obtain ⟨p', hp', e1, _, _, e4, e5, _, e7⟩ := hold p hp
    obtain ⟨m', hm', f1, f2, _, f4, f5, _, _⟩ := hold m hm
    have := hi.pending p' hp' (by rw [e5]; exact hpm) (by rw [e4]; exact hpr) m' hm' (by rw [f5]; exact hmm)
      (by rw [e1, f1]; exact hne)
    rw [f4, f2, e7] at this; exact this
  · intro a ha b hb ham hbm har hab
    obtain ⟨a', ha', e1, _, _, e4, e5, _, _⟩ := hold a ha
    obtain ⟨b', hb', f1, _, _, f4, f5, _, _⟩ := hold b hb
    have := hi.rev_unique a' ha' b' hb' (by rw [e5]; exact ham) (by rw [f5]; exact hbm) (by rw [e4]; exact har)
      (by rw [e4, f4]; exact hab)
    rw [e1, f1] at this; exact this
  · intro m hm hmm
    obtain ⟨m', hm', _, _, _, f4, f5, _, _⟩ := hold m hm
    have := hi.hi_ge m' hm' (by rw [f5]; exact hmm)
    rw [f4] at this; exact this
  · rcases hi.hi_mem with h | ⟨m, hms, hmm, hmr⟩
    · exact .inl h
    · right
      by_cases hser : m.serial = o.serial
      · have : m = o := inj_of_pairwise (f := OSet.serial) hi.serial_nodup hms hos hser
        subst this
        exact ⟨{ m with archived := true }, mem_set_new hget, hmm, hmr⟩
      · exact ⟨m, mem_set_of_ne hget hms (fun e => hser (by rw [e])), hmm, hmr⟩
  · exact hi.log_le
  · exact hi.log_sorted
  · exact hi.epoch
  · intro h
    obtain ⟨n, hn⟩ := hi.epoch_one h
    exact ⟨_, hblock n hn⟩

theorem inv_del {c : Cfg} {s : State} {i : Nat} {o : OSet} (hi : Inv c s) (hget : s.sets[i]? = some o)
    (hcd : canDelete s o = true) : Inv c { s with sets := s.sets.eraseIdx i } := by
  have hos : o ∈ s.sets := List.mem_of_getElem? hget
  have hcd' : o.member = true → (∀ m ∈ s.sets, m.member = true → m.rev ≠ 0) ∧
      ∃ x ∈ s.sets, x.member = true ∧ o.rev < x.rev := by
    intro hm
    unfold canDelete at hcd
    simp only [hm, Bool.not_true, Bool.false_or, Bool.and_eq_true, List.all_eq_true, List.any_eq_true] at hcd
    constructor
    · intro m hms hmm
      have := hcd.1 m (mem_members.mpr ⟨hms, hmm⟩)
      simpa using this
    · obtain ⟨x, hx, hlt⟩ := hcd.2
      obtain ⟨hxs, hxm⟩ := mem_members.mp hx
      exact ⟨x, hxs, hxm, by simpa using hlt⟩
  have helim : ∀ y ∈ s.sets.eraseIdx i, y ∈ s.sets ∧ y.serial ≠ o.serial :=
    fun y hy => mem_eraseIdx_elim (f := OSet.serial) hi.serial_nodup hget hy
  have hkeep : ∀ y ∈ s.sets, y ≠ o → y ∈ s.sets.eraseIdx i := fun y hy hne => mem_eraseIdx_of_ne hget hy hne
  have hblock : ∀ n, Blocker c s n → Blocker c { s with sets := s.sets.eraseIdx i } n := by
    intro n ⟨hn, hnm, hname, hoth⟩
    refine ⟨hkeep n hn ?_, hnm, hname, fun m hm hmm hne => hoth m (helim m hm).1 hmm hne⟩
    intro e; subst e
    obtain ⟨hall, x, hxs, hxm, hlt⟩ := hcd' hnm
    by_cases hser : x.serial = n.serial
    · have : x = n := inj_of_pairwise (f := OSet.serial) hi.serial_nodup hxs hn hser
      subst this; omega
    · rcases (hoth x hxs hxm hser).2 with h | h
      · exact hall n hn hnm h
      · omega
  constructor
  · intro y hy; exact hi.serial_lt y (helim y hy).1
  · exact hi.unseen_lt
  · exact hi.serial_nodup.sublist (List.eraseIdx_sublist _ _)
  · exact hi.name_nodup.sublist (List.eraseIdx_sublist _ _)
  · intro y hy; exact hi.mem_own y (helim y hy).1
  · intro u hu hx
    obtain ⟨h1, h2, h3⟩ := hi.unseen_inv u (helim u hu).1 hx
    exact ⟨h1, h2, hblock u h3⟩
  · intro p hp hpm hpr m hm; exact hi.pending p (helim p hp).1 hpm hpr m (helim m hm).1
  · intro a ha b hb; exact hi.rev_unique a (helim a ha).1 b (helim b hb).1
  · intro m hm; exact hi.hi_ge m (helim m hm).1
  · rcases hi.hi_mem with h | ⟨m, hms, hmm, hmr⟩
    · exact .inl h
    · right
      refine ⟨m, hkeep m hms ?_, hmm, hmr⟩
      intro e; subst e
      obtain ⟨_, x, hxs, hxm, hlt⟩ := hcd' hmm
      have := hi.hi_ge x hxs hxm; omega
  · exact hi.log_le
  · exact hi.log_sorted
  · exact hi.epoch
  · intro h
    obtain ⟨n, hn⟩ := hi.epoch_one h
    exact ⟨n, hblock n hn⟩

theorem inv_squat {c : Cfg} {s : State} {q : OSet} (hi : Inv c s) (hser : q.serial = s.next)
    (hmem : q.member = false) (hfree : ∀ a ∈ s.sets, a.name ≠ q.name) :
    Inv c { s with next := s.next + 1, sets := s.sets ++ [q] } := by
  have hblock : ∀ n, Blocker c s n → Blocker c { s with next := s.next + 1, sets := s.sets ++ [q] } n := by
    intro n ⟨hn, hnm, hname, hoth⟩
    refine ⟨by simp [hn], hnm, hname, ?_⟩
    intro m hm hmm hne
    rcases List.mem_append.mp hm with hm | hm
    · exact hoth m hm hmm hne
    · simp at hm; subst hm; rw [hmem] at hmm; cases hmm
  have hcases : ∀ y ∈ s.sets ++ [q], y ∈ s.sets ∨ y = q := by
    intro y hy; rcases List.mem_append.mp hy with hy | hy
    · exact .inl hy
    · simp at hy; exact .inr hy
  constructor
  · intro y hy
    show y.serial < s.next + 1
    rcases hcases y hy with hy | hy
    · have := hi.serial_lt y hy; omega
    · subst hy; omega
  · intro x hx; show x < s.next + 1; have := hi.unseen_lt x hx; omega
  · show (s.sets ++ [q]).Pairwise _
    rw [List.pairwise_append]
    refine ⟨hi.serial_nodup, by simp, ?_⟩
    intro a ha b hb; simp at hb; subst hb
    have := hi.serial_lt a ha; omega
  · show (s.sets ++ [q]).Pairwise _
    rw [List.pairwise_append]
    refine ⟨hi.name_nodup, by simp, ?_⟩
    intro a ha b hb; simp at hb; subst hb
    exact hfree a ha
  · intro y hy hym
    rcases hcases y hy with hy | hy
    · exact hi.mem_own y hy hym
    · subst hy; rw [hmem] at hym; cases hym
  · intro u hu hx
    rcases hcases u hu with hu | hu
    · obtain ⟨h1, h2, h3⟩ := hi.unseen_inv u hu hx
      exact ⟨h1, h2, hblock u h3⟩
    · subst hu
      have := hi.unseen_lt _ hx
      omega
  · intro p hp hpm hpr m hm hmm hne
    rcases hcases p hp with hp | hp
    · rcases hcases m hm with hm | hm
      · exact hi.pending p hp hpm hpr m hm hmm hne
      · subst hm; rw [hmem] at hmm; cases hmm
    · subst hp; rw [hmem] at hpm; cases hpm
  · intro a ha b hb ham hbm har hab
    rcases hcases a ha with ha | ha
    · rcases hcases b hb with hb | hb
      · exact hi.rev_unique a ha b hb ham hbm har hab
      · subst hb; rw [hmem] at hbm; cases hbm
    · subst ha; rw [hmem] at ham; cases ham
  · intro m hm hmm
    rcases hcases m hm with hm | hm
    · exact hi.hi_ge m hm hmm
    · subst hm; rw [hmem] at hmm; cases hmm
  · rcases hi.hi_mem with h | ⟨m, hms, hmm, hmr⟩
    · exact .inl h
    · exact .inr ⟨m, by simp [hms], hmm, hmr⟩
  · exact hi.log_le
  · exact hi.log_sorted
  · exact hi.epoch
  · intro h
    obtain ⟨n, hn⟩ := hi.epoch_one h
    exact ⟨n, hblock n hn⟩

/-- Every operation preserves the invariant (code after the C07-a fix, cache window not spanning
template edits). -/
theorem inv_step {c : Cfg} {s : State} (hi : Inv c s) (hl : c.legacy = false) (hr : c.racy = false) (op : Op) :
    Inv c (step c s op) := by
  cases op with
  | edit k =>
    simp only [step]
    split
    · exact hi
    · refine hi.transfer rfl rfl rfl rfl ?_ ?_ ?_ ?_
      · simp [hr]
      · simp [hr]
      · simp
      · simp
  | pause b =>
    exact hi.transfer rfl rfl rfl rfl hi.unseen_lt hi.unseen_inv hi.epoch hi.epoch_one
  | od f v sf => exact inv_od hi hl f v sf
  | os i => exact inv_os hi i
  | arch i =>
    simp only [step]
    split
    · exact hi
    · rename_i o hget
      split
      · rename_i hca; exact inv_arch hi hget hca
      · exact hi
  | del i =>
    simp only [step]
    split
    · exact hi
    · rename_i o hget
      split
      · rename_i hcd; exact inv_del hi hget hcd
      · exact hi
  | squat d owned arch spec rev prev =>
    simp only [step]
    split
    · exact hi
    · rename_i hany
      apply inv_squat hi rfl rfl
      intro a ha
      have : ¬ (s.sets.any fun o => o.name == c.h s.template (s.cc + d)) = true := hany
      rw [List.any_eq_true] at this
      intro e
      exact this ⟨a, ha, by simp [e]⟩
  | restart => exact hi
  | limit l => exact hi

theorem inv_run {c : Cfg} (hl : c.legacy = false) (hr : c.racy = false) (ops : List Op) :
    ∀ s, Inv c s → Inv c (run c s ops) := by
  induction ops with
  | nil => intro s h; exact h
  | cons op ops ih => intro s h; exact ih _ (inv_step h hl hr op)

end Pko.Lemmas.C07
