import Pko.Lemmas.C10Drift
import Pko.Lemmas.Watch
/-! C10, teardown side: a teardown pass releases every object it may touch; once everything is
released the pass reports done.  (Which objects teardown may touch, and in which order across
phases, is C04 / C05; here: convergence.) -/
namespace Pko.Props.C10
open Pko.Kube Pko.Model.Phase Pko.Model.ObjectSet Pko.Model.Converge

/-- the owner does not control whatever is stored under the object's key (absent counts). -/
def Released (cfg : Cfg) (ow : Owner) (p : PObj) (s : Store) : Prop :=
  ∀ o, s.get (keyOf cfg ow p) = some o → isController cfg.st (ow.ref true) o = false

/-- environment fairness for teardown: nothing the owner controls is held by a foreign finalizer. -/
def NoForeignFinalizer (cfg : Cfg) (ow : Owner) (p : PObj) (s : Store) : Prop :=
  ∀ o, s.get (keyOf cfg ow p) = some o → isController cfg.st (ow.ref true) o = true → o.finalizer = false

theorem released_congr {cfg : Cfg} {ow : Owner} {p : PObj} {s s' : Store}
    (h : s'.get (keyOf cfg ow p) = s.get (keyOf cfg ow p)) (hs : Released cfg ow p s) : Released cfg ow p s' := by
  intro o ho; rw [h] at ho; exact hs o ho

theorem nofin_congr {cfg : Cfg} {ow : Owner} {p : PObj} {s s' : Store}
    (h : s'.get (keyOf cfg ow p) = s.get (keyOf cfg ow p)) (hs : NoForeignFinalizer cfg ow p s) :
    NoForeignFinalizer cfg ow p s' := by
  intro o ho; rw [h] at ho; exact hs o ho

theorem mem_swapRemove (l : List ORef) (i : Nat) : ∀ x ∈ swapRemove l i, x ∈ l := by
  intro x hx
  unfold swapRemove at hx
  cases hl : l.getLast? with
  | none => simp [hl] at hx
  | some last =>
    simp only [hl] at hx
    have hx' := List.dropLast_subset _ hx
    rcases List.mem_or_eq_of_mem_set hx' with h | h
    · exact h
    · subst h; exact List.mem_of_getLast? hl

theorem mem_removeFirst (q : ORef → Bool) (l : List ORef) : ∀ x ∈ removeFirst q l, x ∈ l := by
  intro x hx
  unfold removeFirst at hx
  split at hx
  · exact mem_swapRemove l _ x hx
  · exact hx

theorem isController_of_subset (st : Strategy) (r : ORef) (o o' : Obj)
    (h : ∀ x ∈ refs st o', x ∈ refs st o) (hc : isController st r o = false) : isController st r o' = false := by
  simp only [isController, List.any_eq_false] at hc ⊢
  intro x hx; exact hc x (h x hx)

/-- whatever `commit` leaves under the key is the previous object or carries `next`'s references. -/
theorem commit_stored (s : Store) (k : Key) (prev next : Obj) (hg : s.get k = some prev) :
    ∀ o, (commit s k prev next).1.get k = some o →
      o = prev ∨ (o.owners = next.owners ∧ o.annOwners = next.annOwners) := by
  intro o ho
  by_cases h1 : (prev.deleting && !next.finalizer) = true
  · simp only [commit, h1, ↓reduceIte] at ho
    rw [get_set_same] at ho; cases ho
  · by_cases h2 : ({ next with uid := prev.uid, deleting := prev.deleting, gen := prev.gen, rv := prev.rv } : Obj) = prev
    · have e : commit s k prev next = (s, prev) := by simp only [commit, h1, Bool.false_eq_true, ↓reduceIte, h2]
      rw [e, hg] at ho; left; cases ho; rfl
    · right
      simp only [commit, h1, Bool.false_eq_true, ↓reduceIte, h2] at ho
      simp only [Store.get, Store.set, ↓reduceIte, Option.some.injEq] at ho
      subst ho
      constructor <;> (split <;> rfl)

/-- **one teardown step releases the object** (when preflight lets teardown look at it and no
foreign finalizer holds it): afterwards the owner controls nothing under that key; no other key is
touched; the step does not fail. -/
theorem teardown_object_releases (cfg : Cfg) (ow : Owner) (p : PObj) (w : World)
    (hq : Quiet w) (hpf : preflightObj cfg ow "" false p = .ok)
    (hfin : NoForeignFinalizer cfg ow p w.store) :
    (teardownPhaseObject cfg ow p w).2 ≠ .err ∧
    Released cfg ow p (teardownPhaseObject cfg ow p w).1.store ∧
    Quiet (teardownPhaseObject cfg ow p w).1 ∧
    ∀ k', k' ≠ keyOf cfg ow p → (teardownPhaseObject cfg ow p w).1.store.get k' = w.store.get k' := by
  simp only [teardownPhaseObject, hpf, watch_store, watch_beforeWrite_store]
  cases hg : w.store.get (keyOf cfg ow p) with
  | none =>
    refine ⟨by simp, ?_, hq, fun _ _ => rfl⟩
    intro o ho; simp only [watch_store] at ho; rw [hg] at ho; cases ho
  | some cur =>
    simp only
    by_cases hc : isController cfg.st (ow.ref true) cur = true
    · -- controlled: pinned delete; no finalizer ⇒ the object is gone
      have hnf := hfin cur hg hc
      simp only [hc, Bool.not_true, Bool.false_eq_true, ↓reduceIte]
      have hbs := beforeWrite_store w hq
      simp only [Store.delete, hbs, hg, ne_eq, not_true_eq_false, or_self, ↓reduceIte, hnf, Bool.false_eq_true]
      refine ⟨by simp, ?_, ?_, ?_⟩
      · intro o ho
        simp only [World.log] at ho
        rw [get_set_same] at ho; cases ho
      · simp only [Quiet, World.log, watch_beforeWrite_env, beforeWrite_env]; exact hq
      · intro k' hk'
        simp only [World.log]
        exact get_set_other w.store _ k' none hk'
    · have hc' : isController cfg.st (ow.ref true) cur = false := by simpa using hc
      simp only [hc', Bool.not_false, ↓reduceIte]
      by_cases ho : isOwner cfg.st (ow.ref true) cur = true
      · -- co-owner: drop our reference and the cache label
        simp only [ho, Bool.not_true, Bool.false_eq_true, ↓reduceIte]
        have hbs := beforeWrite_store w hq
        simp only [Store.mergeOwnersPatch, hbs, hg]
        refine ⟨by simp [World.log], ?_, ?_, ?_⟩
        · intro o hgo
          simp only [World.log] at hgo
          -- whatever commit stored (or removed), its references are a subset of the current ones
          rcases commit_stored w.store _ cur _ hg o hgo with rfl | ⟨h1, h2⟩
          · exact hc'
          · apply isController_of_subset cfg.st (ow.ref true) cur _ _ hc'
            intro x hx
            cases hst : cfg.st with
            | native =>
              simp only [hst, refs] at hx ⊢
              rw [h1] at hx
              simp only [hst] at hx
              exact mem_removeFirst _ _ x hx
            | annotation =>
              simp only [hst, refs] at hx ⊢
              rw [h2] at hx
              exact hx
        · simp only [Quiet, World.log, watch_beforeWrite_env, beforeWrite_env]; exact hq
        · intro k' hk'
          simp only [World.log]
          exact commit_get_other w.store _ k' cur _ hk'
      · have ho' : isOwner cfg.st (ow.ref true) cur = false := by simpa using ho
        simp only [ho', Bool.not_false, ↓reduceIte]
        refine ⟨by simp, ?_, hq, fun _ _ => rfl⟩
        intro o hgo; simp only [watch_store] at hgo; rw [hg] at hgo; cases hgo; exact hc'

/-- a teardown step on a released object reports done and keeps it released. -/
theorem teardown_released_done (cfg : Cfg) (ow : Owner) (p : PObj) (w : World)
    (hq : Quiet w) (hpf : preflightObj cfg ow "" false p ≠ .error) (hrel : Released cfg ow p w.store) :
    (teardownPhaseObject cfg ow p w).2 = .done ∧
    Released cfg ow p (teardownPhaseObject cfg ow p w).1.store ∧
    Quiet (teardownPhaseObject cfg ow p w).1 ∧
    ∀ k', k' ≠ keyOf cfg ow p → (teardownPhaseObject cfg ow p w).1.store.get k' = w.store.get k' := by
  cases hp : preflightObj cfg ow "" false p with
  | error => exact absurd hp hpf
  | violation =>
    simp only [teardownPhaseObject, hp, watch_store, watch_beforeWrite_store]
    exact ⟨trivial, hrel, hq, fun _ _ => trivial⟩
  | ok =>
    have hnf : NoForeignFinalizer cfg ow p w.store := by
      intro o ho hc; rw [hrel o ho] at hc; cases hc
    obtain ⟨_, h2, h3, h4⟩ := teardown_object_releases cfg ow p w hq hp hnf
    refine ⟨?_, h2, h3, h4⟩
    simp only [teardownPhaseObject, hp, watch_store, watch_beforeWrite_store]
    cases hg : w.store.get (keyOf cfg ow p) with
    | none => rfl
    | some cur =>
      have hc' := hrel cur hg
      simp only [hc', Bool.not_false, ↓reduceIte]
      by_cases ho : isOwner cfg.st (ow.ref true) cur = true
      · simp only [ho, Bool.not_true, Bool.false_eq_true, ↓reduceIte]
        have hbs := beforeWrite_store w hq
        simp only [Store.mergeOwnersPatch, hbs, hg]
      · have ho' : isOwner cfg.st (ow.ref true) cur = false := by simpa using ho
        simp only [ho', Bool.not_false, ↓reduceIte]

/-- every object of the phase may be looked at by teardown. -/
def TearOk (cfg : Cfg) (ow : Owner) (ps : List PObj) : Prop :=
  (∀ p ∈ ps, preflightObj cfg ow "" false p = .ok) ∧ (ps.map (keyOf cfg ow)).Nodup

/-- **a teardown pass releases the whole phase**: it does not fail, afterwards the owner controls
none of the phase's objects, nothing else is touched. -/
theorem tear_go_releases (cfg : Cfg) (ow : Owner) :
    ∀ (ps : List PObj) (w : World) (allDone : Bool),
      Quiet w → TearOk cfg ow ps → (∀ p ∈ ps, NoForeignFinalizer cfg ow p w.store) →
      (teardownPhase.go cfg ow ps w allDone).2 ≠ .err ∧
      (∀ p ∈ ps, Released cfg ow p (teardownPhase.go cfg ow ps w allDone).1.store) ∧
      Quiet (teardownPhase.go cfg ow ps w allDone).1 ∧
      ∀ k', k' ∉ ps.map (keyOf cfg ow) → (teardownPhase.go cfg ow ps w allDone).1.store.get k' = w.store.get k' := by
  intro ps
  induction ps with
  | nil =>
    intro w allDone hq _ _
    simp only [teardownPhase.go]
    refine ⟨by cases allDone <;> simp, by simp, hq, fun _ _ => trivial⟩
  | cons p rest ih =>
    intro w allDone hq hok hnf
    obtain ⟨hne, hrel, hq', hframe⟩ :=
      teardown_object_releases cfg ow p w hq (hok.1 p (by simp)) (hnf p (by simp))
    have hk := hok.2
    simp only [List.map_cons, List.nodup_cons] at hk
    have hok' : TearOk cfg ow rest := ⟨fun q hq2 => hok.1 q (by simp [hq2]), hk.2⟩
    simp only [teardownPhase.go]
    cases hstep : teardownPhaseObject cfg ow p w with
    | mk w' res =>
      rw [hstep] at hne hrel hq' hframe
      simp only at hne hrel hq' hframe
      have hnf' : ∀ q ∈ rest, NoForeignFinalizer cfg ow q w'.store := by
        intro q hq2
        have hneq : keyOf cfg ow q ≠ keyOf cfg ow p := by
          intro he; exact hk.1 (he ▸ List.mem_map.2 ⟨q, hq2, rfl⟩)
        exact nofin_congr (hframe _ hneq) (hnf q (by simp [hq2]))
      have fin : ∀ (b : Bool),
          (teardownPhase.go cfg ow rest w' b).2 ≠ .err ∧
          (∀ q ∈ p :: rest, Released cfg ow q (teardownPhase.go cfg ow rest w' b).1.store) ∧
          Quiet (teardownPhase.go cfg ow rest w' b).1 ∧
          ∀ k', k' ∉ (p :: rest).map (keyOf cfg ow) →
            (teardownPhase.go cfg ow rest w' b).1.store.get k' = w.store.get k' := by
        intro b
        obtain ⟨h1, h2, h3, h4⟩ := ih w' b hq' hok' hnf'
        refine ⟨h1, ?_, h3, ?_⟩
        · intro q hq2
          rcases List.mem_cons.1 hq2 with rfl | hq3
          · exact released_congr (h4 _ hk.1) hrel
          · exact h2 q hq3
        · intro k' hk'
          simp only [List.map_cons, List.mem_cons, not_or] at hk'
          rw [h4 k' hk'.2, hframe k' hk'.1]
      cases res with
      | err => exact absurd rfl hne
      | done => exact fin allDone
      | notDone => exact fin false

/-- **once everything is released the pass reports done** (and keeps everything released). -/
theorem tear_go_done (cfg : Cfg) (ow : Owner) :
    ∀ (ps : List PObj) (w : World),
      Quiet w → (∀ p ∈ ps, preflightObj cfg ow "" false p ≠ .error) → (ps.map (keyOf cfg ow)).Nodup →
      (∀ p ∈ ps, Released cfg ow p w.store) →
      (teardownPhase.go cfg ow ps w true).2 = .done ∧
      (∀ p ∈ ps, Released cfg ow p (teardownPhase.go cfg ow ps w true).1.store) ∧
      Quiet (teardownPhase.go cfg ow ps w true).1 := by
  intro ps
  induction ps with
  | nil => intro w hq _ _ _; simp only [teardownPhase.go]; exact ⟨rfl, by simp, hq⟩
  | cons p rest ih =>
    intro w hq hpf hk hrel
    obtain ⟨hd, hr1, hq', hframe⟩ :=
      teardown_released_done cfg ow p w hq (hpf p (by simp)) (hrel p (by simp))
    simp only [List.map_cons, List.nodup_cons] at hk
    simp only [teardownPhase.go]
    cases hstep : teardownPhaseObject cfg ow p w with
    | mk w' res =>
      rw [hstep] at hd hr1 hq' hframe
      simp only at hd hr1 hq' hframe
      subst hd
      simp only
      have hrel' : ∀ q ∈ rest, Released cfg ow q w'.store := by
        intro q hq2
        have hneq : keyOf cfg ow q ≠ keyOf cfg ow p := by
          intro he; exact hk.1 (he ▸ List.mem_map.2 ⟨q, hq2, rfl⟩)
        exact released_congr (hframe _ hneq) (hrel q (by simp [hq2]))
      obtain ⟨h1, h2, h3⟩ := ih w' hq' (fun q hq2 => hpf q (by simp [hq2])) hk.2 hrel'
      refine ⟨h1, ?_, h3⟩
      intro q hq2
      rcases List.mem_cons.1 hq2 with rfl | hq3
      · -- the rest of the loop does not touch p's key … but we only need: still released.
        -- the remaining steps keep every key outside `rest` as it is
        have : ∀ (ps : List PObj) (w : World), Quiet w → (∀ p ∈ ps, preflightObj cfg ow "" false p ≠ .error) →
            (∀ p ∈ ps, Released cfg ow p w.store) →
            ∀ k', k' ∉ ps.map (keyOf cfg ow) → (teardownPhase.go cfg ow ps w true).1.store.get k' = w.store.get k' := by
          intro ps
          induction ps with
          | nil => intro w _ _ _ k' _; simp [teardownPhase.go]
          | cons a as iha =>
            intro w hqa hpa hra k' hk'
            obtain ⟨hda, hr1a, hqa', hfa⟩ := teardown_released_done cfg ow a w hqa (hpa a (by simp)) (hra a (by simp))
            simp only [teardownPhase.go]
            cases hsa : teardownPhaseObject cfg ow a w with
            | mk wa ra =>
              rw [hsa] at hda hr1a hqa' hfa
              simp only at hda hr1a hqa' hfa
              subst hda
              simp only
              simp only [List.map_cons, List.mem_cons, not_or] at hk'
              -- objects of `as` sharing a's key stay released as well: Released only looks at the key
              have hra' : ∀ x ∈ as, Released cfg ow x wa.store := by
                intro x hx
                by_cases he : keyOf cfg ow x = keyOf cfg ow a
                · intro o ho; rw [he] at ho; exact hr1a o ho
                · exact released_congr (hfa _ he) (hra x (by simp [hx]))
              rw [iha wa hqa' (fun x hx => hpa x (by simp [hx])) hra' k' hk'.2, hfa k' hk'.1]
        exact released_congr (this rest w' hq' (fun q hq2 => hpf q (by simp [hq2])) hrel' _ hk.1) hr1
      · exact h2 q hq3

end Pko.Props.C10
