/-
C10 at the ObjectSet-controller level, part 4: the status the pass derives is idempotent —
deriving it a second time from its own result (same phase outcome) changes nothing.  Condition
bookkeeping: every stage of the derivation sets or removes ONE condition type.  Core Lean only.
-/
import Pko.Lemmas.C10SetSys

namespace Pko.Props.C10Set
open Pko.Kube Pko.Model.Phase Pko.Model.ObjectSet Pko.Model.Status
open Pko.Lemmas.ObjectSet

/-- one stage of the status derivation: set a condition or remove a condition type. -/
inductive Op where
  | set (c : Cond)
  | remove (t : String)

def Op.type : Op → String
  | .set c => c.type
  | .remove t => t

def Op.run (cs : List Cond) : Op → List Cond
  | .set c => setCond cs c
  | .remove t => removeCond cs t

/-- the condition list already is what the stage makes of it. -/
def Op.Done (cs : List Cond) : Op → Prop
  | .set c => cs.any (·.type = c.type) = true ∧ ∀ x ∈ cs, x.type = c.type → x = c
  | .remove t => ∀ x ∈ cs, x.type ≠ t

theorem Op.run_of_done (cs : List Cond) (op : Op) (h : op.Done cs) : op.run cs = cs := by
  cases op with
  | set c =>
    obtain ⟨h1, h2⟩ := h
    simp only [Op.run, setCond, h1, ↓reduceIte]
    conv => rhs; rw [← List.map_id cs]
    apply List.map_congr_left
    intro x hx
    by_cases hxt : x.type = c.type
    · simp [h2 x hx hxt]
    · simp [hxt]
  | remove t =>
    simp only [Op.run, removeCond]
    apply List.filter_eq_self.2
    intro x hx
    simpa using h x hx

theorem Op.done_run (cs : List Cond) (op : Op) : op.Done (op.run cs) := by
  cases op with
  | set c =>
    simp only [Op.run, Op.Done, setCond]
    by_cases hany : cs.any (·.type = c.type) = true
    · simp only [hany, ↓reduceIte]
      constructor
      · simp only [List.any_eq_true, decide_eq_true_eq] at hany ⊢
        obtain ⟨x, hx, hxt⟩ := hany
        exact ⟨c, List.mem_map.2 ⟨x, hx, by simp [hxt]⟩, rfl⟩
      · intro x hx hxt
        obtain ⟨y, _, rfl⟩ := List.mem_map.1 hx
        by_cases hyt : y.type = c.type
        · simp [hyt]
        · simp only [hyt, ↓reduceIte] at hxt
    · simp only [hany, Bool.false_eq_true, ↓reduceIte]
      constructor
      · simp
      · intro x hx hxt
        rcases List.mem_append.1 hx with hx | hx
        · exfalso; apply hany
          simp only [List.any_eq_true, decide_eq_true_eq]
          exact ⟨x, hx, hxt⟩
        · simpa using hx
  | remove t =>
    simp only [Op.run, Op.Done, removeCond]
    intro x hx
    have := (List.mem_filter.1 hx).2
    simpa using this

/-- a stage working on another condition type does not undo a finished stage. -/
theorem Op.done_other (cs : List Cond) (op op' : Op) (h : op.Done cs) (hne : op'.type ≠ op.type) :
    op.Done (op'.run cs) := by
  cases op' with
  | set c' =>
    cases op with
    | set c =>
      obtain ⟨h1, h2⟩ := h
      simp only [Op.type] at hne
      simp only [Op.run, Op.Done, setCond]
      split
      · constructor
        · simp only [List.any_eq_true, decide_eq_true_eq] at h1 ⊢
          obtain ⟨x, hx, hxt⟩ := h1
          refine ⟨x, List.mem_map.2 ⟨x, hx, ?_⟩, hxt⟩
          have : ¬ x.type = c'.type := fun e => hne (e.symm.trans hxt)
          simp [this]
        · intro x hx hxt
          obtain ⟨y, hy, rfl⟩ := List.mem_map.1 hx
          by_cases hyt : y.type = c'.type
          · simp only [hyt, ↓reduceIte] at hxt; exact absurd hxt hne
          · simp only [hyt, ↓reduceIte] at hxt ⊢; exact h2 y hy hxt
      · constructor
        · simp only [List.any_append, h1, Bool.true_or]
        · intro x hx hxt
          rcases List.mem_append.1 hx with hx | hx
          · exact h2 x hx hxt
          · simp only [List.mem_singleton] at hx; subst hx; exact absurd hxt hne
    | remove t =>
      simp only [Op.type] at hne
      simp only [Op.run, Op.Done, setCond] at h ⊢
      split
      · intro x hx
        obtain ⟨y, hy, rfl⟩ := List.mem_map.1 hx
        by_cases hyt : y.type = c'.type
        · simp only [hyt, ↓reduceIte]; exact hne
        · simp only [hyt, ↓reduceIte]; exact h y hy
      · intro x hx
        rcases List.mem_append.1 hx with hx | hx
        · exact h x hx
        · simp only [List.mem_singleton] at hx; subst hx; exact hne
  | remove t' =>
    cases op with
    | set c =>
      obtain ⟨h1, h2⟩ := h
      simp only [Op.type] at hne
      simp only [Op.run, Op.Done, removeCond]
      constructor
      · simp only [List.any_eq_true, decide_eq_true_eq] at h1 ⊢
        obtain ⟨x, hx, hxt⟩ := h1
        refine ⟨x, List.mem_filter.2 ⟨hx, ?_⟩, hxt⟩
        have : ¬ x.type = t' := fun e => hne (e.symm.trans hxt)
        simp [this]
      · intro x hx hxt
        exact h2 x (List.mem_filter.1 hx).1 hxt
    | remove t =>
      simp only [Op.run, Op.Done, removeCond] at h ⊢
      intro x hx
      exact h x (List.mem_filter.1 hx).1

/-- … and does not change whether a condition of another type is True. -/
theorem Op.condTrue_other (cs : List Cond) (op : Op) (t : String) (hne : op.type ≠ t) :
    condTrue (op.run cs) t = condTrue cs t := by
  cases op with
  | set c => exact condTrue_setCond_other cs c t hne
  | remove t' => exact condTrue_removeCond_other cs t' t hne

/-! ### the stages of the status derivation -/

def transOp (trans : Bool) (gen : Nat) : Op :=
  if trans then .set ⟨"InTransition", "True", "InTransition", gen, ""⟩ else .remove "InTransition"

def availOp (gen : Nat) (failing : Option String) : Op :=
  match failing with
  | some ph => .set (availableCond gen false "ProbeFailure" ph)
  | none => .set (availableCond gen true "Available" "")

def succOp (gen : Nat) : Op := .set ⟨"Succeeded", "True", "RolloutSuccess", gen, ""⟩

/-- what `reportPausedCondition` does to the Paused condition. -/
def pausedOp (w : World) (mem : OSet) : Op :=
  let spec := mem.lifecycle = .paused
  let are : Option Bool := if mem.remotePhases.isEmpty then some (decide spec) else remotePhasesPaused w mem
  match are with
  | some a =>
    if decide spec = a then
      if a then .set ⟨"Paused", "True", "Paused", mem.gen, ""⟩ else .remove "Paused"
    else .set ⟨"Paused", "Unknown", "PartiallyPaused", mem.gen, ""⟩
  | none => .set ⟨"Paused", "Unknown", "PartiallyPaused", mem.gen, ""⟩

theorem transOp_type (trans : Bool) (gen : Nat) : (transOp trans gen).type = "InTransition" := by
  cases trans <;> rfl

theorem availOp_type (gen : Nat) (failing : Option String) : (availOp gen failing).type = "Available" := by
  cases failing <;> rfl

theorem succOp_type (gen : Nat) : (succOp gen).type = "Succeeded" := rfl

theorem pausedOp_type (w : World) (mem : OSet) : (pausedOp w mem).type = "Paused" := by
  simp only [pausedOp]
  (repeat' split) <;> rfl

theorem transConds_eq (cs : List Cond) (trans : Bool) (gen : Nat) :
    transConds cs trans gen = (transOp trans gen).run cs := by
  cases trans <;> rfl

theorem availConds_eq (cs : List Cond) (gen : Nat) (failing : Option String) :
    availConds cs gen failing = (availOp gen failing).run cs := by
  cases failing <;> rfl

theorem succConds_eq (cs : List Cond) (gen : Nat) (trans : Bool) (failing : Option String) :
    succConds cs gen trans failing =
      if failing.isNone && !condTrue cs "Succeeded" && !trans then (succOp gen).run cs else cs := rfl

theorem finishMem_eq (w : World) (mem : OSet) :
    finishMem w mem = { mem with conds := (pausedOp w mem).run mem.conds } := by
  simp only [finishMem, pausedOp]
  (repeat' split) <;> first | rfl | simp_all

/-- the conditions after the derivation, as a pipeline of the four stages. -/
def deriveConds (cs : List Cond) (trans : Bool) (gen : Nat) (failing : Option String) (pop : Op) : List Cond :=
  pop.run (succConds ((availOp gen failing).run ((transOp trans gen).run cs)) gen trans failing)

/-- the Succeeded stage is the identity or the `succOp` stage. -/
theorem succConds_cases (cs : List Cond) (gen : Nat) (trans : Bool) (failing : Option String) :
    (succConds cs gen trans failing = cs ∧
      (failing.isNone && !condTrue cs "Succeeded" && !trans) = false) ∨
    (succConds cs gen trans failing = (succOp gen).run cs ∧
      (failing.isNone && !condTrue cs "Succeeded" && !trans) = true) := by
  rw [succConds_eq]
  cases h : (failing.isNone && !condTrue cs "Succeeded" && !trans)
  · exact Or.inl ⟨by simp, rfl⟩
  · exact Or.inr ⟨by simp, rfl⟩

/-- a finished stage of another type survives the Succeeded stage. -/
theorem done_succConds (cs : List Cond) (gen : Nat) (trans : Bool) (failing : Option String) (op : Op)
    (h : op.Done cs) (hne : op.type ≠ "Succeeded") : op.Done (succConds cs gen trans failing) := by
  rcases succConds_cases cs gen trans failing with ⟨e, _⟩ | ⟨e, _⟩
  · rw [e]; exact h
  · rw [e]; exact Op.done_other cs op (succOp gen) h (by rw [succOp_type]; exact fun e => hne e.symm)

/-- **The derivation is idempotent**: applied to its own result it changes nothing. -/
theorem deriveConds_idem (cs : List Cond) (trans : Bool) (gen : Nat) (failing : Option String) (pop : Op)
    (hp : pop.type = "Paused") :
    deriveConds (deriveConds cs trans gen failing pop) trans gen failing pop =
      deriveConds cs trans gen failing pop := by
  -- names for the intermediate lists of the first run
  generalize h1 : (transOp trans gen).run cs = c1
  generalize h2 : (availOp gen failing).run c1 = c2
  generalize h3 : succConds c2 gen trans failing = c3
  generalize h4 : pop.run c3 = c4
  have hr : deriveConds cs trans gen failing pop = c4 := by simp only [deriveConds, h1, h2, h3, h4]
  rw [hr]
  have tT := transOp_type trans gen
  have tA := availOp_type gen failing
  -- every stage is finished in c4
  have dT : (transOp trans gen).Done c4 := by
    have a : (transOp trans gen).Done c1 := h1 ▸ Op.done_run cs _
    have b : (transOp trans gen).Done c2 := h2 ▸ Op.done_other c1 _ _ a (by rw [tT, tA]; decide)
    have c : (transOp trans gen).Done c3 := h3 ▸ done_succConds c2 gen trans failing _ b (by rw [tT]; decide)
    exact h4 ▸ Op.done_other c3 _ _ c (by rw [tT, hp]; decide)
  have dA : (availOp gen failing).Done c4 := by
    have b : (availOp gen failing).Done c2 := h2 ▸ Op.done_run c1 _
    have c : (availOp gen failing).Done c3 := h3 ▸ done_succConds c2 gen trans failing _ b (by rw [tA]; decide)
    exact h4 ▸ Op.done_other c3 _ _ c (by rw [tA, hp]; decide)
  have dP : pop.Done c4 := h4 ▸ Op.done_run c3 _
  -- the Succeeded stage has nothing left to do on c4
  have hS : succConds c4 gen trans failing = c4 := by
    have hc4 : condTrue c4 "Succeeded" = condTrue c3 "Succeeded" := by
      rw [← h4]; exact Op.condTrue_other c3 pop _ (by rw [hp]; decide)
    rcases succConds_cases c2 gen trans failing with ⟨e, hcond⟩ | ⟨e, hcond⟩
    · -- not set in the first run: the guard is the same in the second
      have hc3 : c3 = c2 := by rw [← h3, e]
      rw [succConds_eq, hc4, hc3, hcond]; simp
    · have hc3 : condTrue c3 "Succeeded" = true := by
        rw [← h3, e]; exact condTrue_setCond_true c2 "Succeeded" _ _ _
      rw [succConds_eq, hc4, hc3]; simp
  simp only [deriveConds, Op.run_of_done c4 _ dT, Op.run_of_done c4 _ dA, hS, Op.run_of_done c4 _ dP]

/-- the conditions `finishMem ∘ deriveStatus` produces, as the pipeline. -/
theorem finish_derive_conds (w : World) (mem : OSet) (co : List CRef) (failing : Option String) :
    (finishMem w (deriveStatus mem co failing)).conds =
      deriveConds mem.conds (inTransition { mem with controllerOf := co } co) mem.gen failing
        (pausedOp w mem) := by
  rw [finishMem_eq]
  simp only [deriveStatus, deriveConds, transConds_eq, availConds_eq]
  rfl

end Pko.Props.C10Set
