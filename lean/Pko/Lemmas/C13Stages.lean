/-
Stage lemmas for C13: each stage of the rendering pipeline, run on any permutation of its input
and under any iteration-order oracle, fails exactly when the specification says so and otherwise
produces (up to the order of map entries) what the specification describes.
-/
import Pko.Model.Render
import Pko.Model.RenderSpec
import Pko.Lemmas.C13Maps
namespace Pko.Lemmas.C13
open Pko.Model.Render Pko.Model.RenderSpec List

/-! ## keys of filterMap'ed maps -/

theorem keys_filterMap_sublist {κ β γ : Type} (g : κ × β → Option (κ × γ))
    (hg : ∀ e e', g e = some e' → e'.1 = e.1) (l : List (κ × β)) :
    ((l.filterMap g).map fun e => e.1) <+ (l.map fun e => e.1) := by
  induction l with
  | nil => simp
  | cons e r ih =>
    simp only [filterMap_cons, map_cons]
    cases h : g e with
    | none => exact Sublist.cons _ ih
    | some e' =>
      simp only [map_cons, hg e e' h]
      exact Sublist.cons_cons _ ih

theorem keys_filter_sublist {κ β : Type} (p : κ × β → Bool) (l : List (κ × β)) :
    ((l.filter p).map fun e => e.1) <+ (l.map fun e => e.1) :=
  (filter_sublist).map _

/-- a loop whose iterations only touch the key of the visited entry touches distinct keys -/
theorem touched_sublist {κ β γ : Type} (step : κ × β → Except Err (Upd κ γ))
    (hs : ∀ e u, step e = .ok u → Upd.key u = none ∨ Upd.key u = some e.1) (l : List (κ × β)) :
    touched step l <+ (l.map fun e => e.1) := by
  induction l with
  | nil => simp [touched]
  | cons e r ih =>
    simp only [touched, filterMap_cons, stepUpd, map_cons] at ih ⊢
    cases h : step e with
    | error err => exact Sublist.cons _ ih
    | ok u =>
      simp only [filterMap_cons]
      rcases hs e u h with hk | hk
      · rw [hk]; exact Sublist.cons _ ih
      · rw [hk]; exact Sublist.cons_cons _ ih

/-! ## Stage 1: RenderTemplates -/

theorem stepErr_parse (f : File) :
    (stepErr parseStep f).isSome = (isTemplate f.path && !f.tmplParses) := by
  simp only [stepErr, parseStep]
  split <;> rename_i h <;> split at h <;> simp_all

theorem touched_parse (l : List File) : touched parseStep l = [] := by
  induction l with
  | nil => rfl
  | cons f r ih =>
    rw [touched_cons, ih]
    simp only [parseStep]
    cases (isTemplate f.path && !f.tmplParses) <;> rfl

theorem stepErr_exec (f : File) :
    (stepErr execStep f).isSome = (isTemplate f.path && !f.tmplExecs) := by
  simp only [stepErr, execStep]
  cases isTemplate f.path <;> cases f.tmplExecs <;> simp

theorem mem_touched_exec {l : List File} {k : Path} (h : k ∈ touched execStep l) :
    ∃ f ∈ l, isTemplate f.path = true ∧ k = stripSuffix f.path := by
  simp only [touched, mem_filterMap] at h
  obtain ⟨u, ⟨f, hf, hu⟩, hk⟩ := h
  refine ⟨f, hf, ?_⟩
  simp only [stepUpd, execStep] at hu
  cases ht : isTemplate f.path <;> cases hx : f.tmplExecs <;> simp [ht, hx] at hu <;> subst hu <;>
    simp [Upd.key] at hk
  exact ⟨rfl, hk.symm⟩

theorem nodup_touched_exec {l : List File} (hnd : (l.map fun f => f.path).Nodup) :
    (touched execStep l).Nodup := by
  induction l with
  | nil => simp [touched]
  | cons f r ih =>
    simp only [map_cons, nodup_cons] at hnd
    have ih := ih hnd.2
    rw [touched_cons]
    simp only [execStep]
    cases ht : isTemplate f.path <;> cases hx : f.tmplExecs <;> simp [ih]
    intro hmem
    obtain ⟨g', hg', hgt, hgk⟩ := mem_touched_exec hmem
    have := stripSuffix_inj ht hgt hgk
    exact hnd.1 (mem_map.mpr ⟨g', hg', this.symm⟩)

theorem exec_ok_closed {l : List File}
    (hok : l.any (fun f => isTemplate f.path && !f.tmplExecs) = false) :
    written execStep l = rendered l ∧ touched execStep l = (rendered l).map fun e => e.1 := by
  induction l with
  | nil => simp [written, touched, rendered]
  | cons f r ih =>
    simp only [any_cons, Bool.or_eq_false_iff] at hok
    have ih := ih hok.2
    rw [touched_cons, written_cons, ih.1, ih.2]
    simp only [rendered, execStep, filter_cons]
    cases ht : isTemplate f.path <;> cases hx : f.tmplExecs <;> simp_all

theorem touched_merge (l : GoMap Path Docs) : touched mergeStep l = l.map fun e => e.1 := by
  induction l with
  | nil => rfl
  | cons e r ih =>
    rw [touched_cons, ih]; rfl

theorem written_merge (l : GoMap Path Docs) : written mergeStep l = l := by
  induction l with
  | nil => rfl
  | cons e r ih =>
    rw [written_cons, ih]; rfl

theorem stepErr_merge (e : Path × Docs) : (stepErr mergeStep e).isSome = false := rfl

theorem fileMap_perm {l₁ l₂ : List File} (h : l₁ ~ l₂) : fileMap l₁ ~ fileMap l₂ := h.map _

/-- keys of the rendered outputs are distinct -/
theorem nodup_rendered {l : List File} (hnd : (l.map fun f => f.path).Nodup) :
    ((rendered l).map fun e => e.1).Nodup := by
  simp only [rendered, map_map]
  induction l with
  | nil => simp
  | cons f r ih =>
    simp only [map_cons, nodup_cons] at hnd
    simp only [filter_cons]
    cases ht : isTemplate f.path
    · simpa using ih hnd.2
    · simp only [↓reduceIte, map_cons, nodup_cons, Function.comp]
      refine ⟨?_, ih hnd.2⟩
      intro hmem
      obtain ⟨g, hg, hgk⟩ := mem_map.mp hmem
      have hg' := mem_filter.mp hg
      have := stripSuffix_inj (by simpa using hg'.2) ht hgk
      exact hnd.1 (mem_map.mpr ⟨g, hg'.1, this⟩)

theorem renderTemplates_spec (σ : Oracle) (hσ : σ.Valid) {files' files : List File}
    (h : files' ~ files) (hnd : (files.map fun f => f.path).Nodup) (ok : Bool) :
    (ok = false → renderTemplates σ ok files' = .error .celctx) ∧
    (ok = true → files.any (fun f => isTemplate f.path && !f.tmplParses) = true →
      renderTemplates σ ok files' = .error .tmplparse) ∧
    (ok = true → files.any (fun f => isTemplate f.path && !f.tmplParses) = false →
      files.any (fun f => isTemplate f.path && !f.tmplExecs) = true →
      renderTemplates σ ok files' = .error .tmplexec) ∧
    (ok = true → files.any (fun f => isTemplate f.path && !f.tmplParses) = false →
      files.any (fun f => isTemplate f.path && !f.tmplExecs) = false →
      ∃ fm, renderTemplates σ ok files' = .ok fm ∧ fm ~ finalFiles files) := by
  have hp := rangeLoop_spec (κ := Path) (β := Docs) parseStep .tmplparse
    (by intro a e he; simp only [parseStep] at he; split at he <;> simp_all)
    ((hσ 0 _ files').trans h) (Perm.refl ([] : GoMap Path Docs))
    (by rw [touched_parse]; exact nodup_nil)
  have hx := rangeLoop_spec (κ := Path) (β := Docs) execStep .tmplexec
    (by intro a e he; simp only [execStep] at he; split at he <;> (try split at he) <;> simp_all)
    ((hσ 1 _ files').trans h) (Perm.refl ([] : GoMap Path Docs)) (nodup_touched_exec hnd)
  simp only [stepErr_parse] at hp
  simp only [stepErr_exec] at hx
  refine ⟨?_, ?_, ?_, ?_⟩
  · intro hok; simp [renderTemplates, hok]
  · intro hok hpar
    simp [renderTemplates, hok, hp.1 hpar]
  · intro hok hpar hex
    obtain ⟨r, hr, _⟩ := hp.2 hpar
    simp [renderTemplates, hok, hr, hx.1 hex]
  · intro hok hpar hex
    obtain ⟨r, hr, _⟩ := hp.2 hpar
    obtain ⟨rd, hrd, hrdp⟩ := hx.2 hex
    have hcl := exec_ok_closed hex
    rw [hcl.1] at hrdp
    simp only [filter_nil, nil_append] at hrdp
    have hm := rangeLoop_spec (κ := Path) (β := Docs) mergeStep .tmplexec
      (by intro a e he; simp [mergeStep] at he)
      ((hσ 2 _ rd).trans hrdp) (fileMap_perm h)
      (by rw [touched_merge]; exact nodup_rendered hnd)
    simp only [stepErr_merge, any_eq_false, Bool.false_eq_true, not_false_eq_true, implies_true,
      forall_const] at hm
    obtain ⟨fm, hfm, hfmp⟩ := hm.2
    refine ⟨fm, ?_, ?_⟩
    · simp [renderTemplates, hok, hr, hrd, hfm]
    · rw [touched_merge, written_merge] at hfmp
      exact hfmp

/-! ## Stage 2: RenderObjects -/

/-- objects are read from YAML files that are not template helpers -/
def cand (e : Path × Docs) : Bool := !isHelper e.1 && isYAML e.1

def parsedOf (pkg : Pkg) (fm : GoMap Path Docs) : GoMap Path (List Obj) :=
  (fm.filter cand).filterMap fun e =>
    if (objectsOf pkg e.2).length != 0 then some (e.1, objectsOf pkg e.2) else none

theorem parseObjects_ok (pkg : Pkg) (d : Docs) (h : d.ok = true) :
    parseObjects pkg.name pkg.inst d = .ok (objectsOf pkg d) := by
  simp [parseObjects, objectsOf, h]

theorem objectsStep_eq (pkg : Pkg) (e : Path × Docs) :
    objectsStep pkg.name pkg.inst e =
      if cand e = false then .ok .skip
      else if e.2.ok = false then .error .yaml
      else if (objectsOf pkg e.2).length != 0 then .ok (.set e.1 (objectsOf pkg e.2))
      else .ok .skip := by
  have hc : cand e = (!isHelper e.1 && isYAML e.1) := rfl
  simp only [objectsStep, hc]
  cases hh : isHelper e.1 <;> cases hy : isYAML e.1 <;> simp
  cases hok : e.2.ok
  · simp [parseObjects, hok]
  · simp [parseObjects_ok pkg e.2 hok]

theorem stepErr_objects (pkg : Pkg) (e : Path × Docs) :
    (stepErr (objectsStep pkg.name pkg.inst) e).isSome = (cand e && !e.2.ok) := by
  simp only [stepErr, objectsStep_eq]
  cases cand e <;> cases e.2.ok <;> simp
  split <;> rename_i h <;> split at h <;> simp at h <;> rfl

theorem objects_err_kind (pkg : Pkg) (a : Path × Docs) (e : Err)
    (h : objectsStep pkg.name pkg.inst a = .error e) : e = .yaml := by
  rw [objectsStep_eq] at h
  split at h
  · simp at h
  · split at h
    · simp at h; exact h.symm
    · split at h <;> simp at h

theorem objects_key (pkg : Pkg) (e : Path × Docs) (u : Upd Path (List Obj))
    (h : objectsStep pkg.name pkg.inst e = .ok u) : Upd.key u = none ∨ Upd.key u = some e.1 := by
  rw [objectsStep_eq] at h
  split at h
  · simp at h; subst h; exact Or.inl rfl
  · split at h
    · simp at h
    · split at h <;> simp at h <;> subst h
      · exact Or.inr rfl
      · exact Or.inl rfl

theorem written_objects (pkg : Pkg) (l : GoMap Path Docs)
    (hok : l.any (fun e => cand e && !e.2.ok) = false) :
    written (objectsStep pkg.name pkg.inst) l = parsedOf pkg l := by
  induction l with
  | nil => rfl
  | cons e r ih =>
    simp only [any_cons, Bool.or_eq_false_iff] at hok
    rw [written_cons, ih hok.2, objectsStep_eq]
    simp only [parsedOf, filter_cons]
    cases hc : cand e
    · simp
    · have hok' : e.2.ok = true := by
        have := hok.1; simp [hc] at this; exact this
      have hl' : ∀ x : List Obj, x.length = 0 ↔ x = [] := fun x => length_eq_zero_iff
      by_cases hl : objectsOf pkg e.2 = [] <;> simp [hok', hl, hl']

theorem allObjs_perm {po₁ po₂ : GoMap Path (List Obj)} (h : po₁ ~ po₂) : allObjs po₁ ~ allObjs po₂ :=
  (h.map _).flatten

theorem validateObjects_perm (phases : List String) {po₁ po₂ : GoMap Path (List Obj)} (h : po₁ ~ po₂) :
    validateObjects phases po₁ = validateObjects phases po₂ := by
  have ha := allObjs_perm h
  simp only [validateObjects]
  rw [ha.all_eq]
  congr 1
  exact decide_eq_decide.mpr (ha.map _).nodup_iff

theorem renderObjects_spec (σ : Oracle) (hσ : σ.Valid) (pkg : Pkg) {fm' fm : GoMap Path Docs}
    (h : fm' ~ fm) (hnd : (fm.map fun e => e.1).Nodup) :
    (fm.any (fun e => cand e && !e.2.ok) = true → renderObjects σ pkg fm' = .error .yaml) ∧
    (fm.any (fun e => cand e && !e.2.ok) = false →
      (pkg.validate && !validateObjects pkg.phases (parsedOf pkg fm)) = true →
      renderObjects σ pkg fm' = .error .validate) ∧
    (fm.any (fun e => cand e && !e.2.ok) = false →
      (pkg.validate && !validateObjects pkg.phases (parsedOf pkg fm)) = false →
      ∃ po, renderObjects σ pkg fm' = .ok po ∧ po ~ parsedOf pkg fm) := by
  have hl := rangeLoop_spec (objectsStep pkg.name pkg.inst) .yaml (objects_err_kind pkg)
    ((hσ 3 _ fm').trans h) (Perm.refl ([] : GoMap Path (List Obj)))
    ((touched_sublist _ (objects_key pkg) fm).nodup hnd)
  simp only [stepErr_objects] at hl
  refine ⟨?_, ?_, ?_⟩
  · intro herr; simp [renderObjects, hl.1 herr]
  · intro herr hval
    obtain ⟨po, hpo, hpp⟩ := hl.2 herr
    rw [written_objects pkg fm herr] at hpp
    simp only [filter_nil, nil_append] at hpp
    simp only [renderObjects, hpo]
    rw [validateObjects_perm _ hpp, hval]; rfl
  · intro herr hval
    obtain ⟨po, hpo, hpp⟩ := hl.2 herr
    rw [written_objects pkg fm herr] at hpp
    simp only [filter_nil, nil_append] at hpp
    refine ⟨po, ?_, hpp⟩
    simp only [renderObjects, hpo]
    rw [validateObjects_perm _ hpp, hval]; rfl

/-! ## Stage 3: filterWithCEL -/

theorem computeIgnoredPaths_eq (n : Nat) (cps : List CPath) :
    computeIgnoredPaths (withIdx n cps) =
      if cps.any (fun cp => cp.res == 2) = true then .error .condpath
      else .ok (((withIdx n cps).filter fun e => e.2.res == 0).map fun e => e.1) := by
  induction cps generalizing n with
  | nil => rfl
  | cons cp r ih =>
    simp only [withIdx, computeIgnoredPaths, any_cons, ih (n + 1), filter_cons]
    cases h2 : cp.res == 2
    · cases hr : r.any (fun cp => cp.res == 2)
      · cases h0 : cp.res == 0 <;> simp
      · simp
    · simp

theorem isExcluded_err (row : List Nat) (l : List Nat) (e : Err) (h : isExcluded row l = .error e) :
    e = .filter := by
  induction l with
  | nil => simp [isExcluded] at h
  | cons i r ih =>
    simp only [isExcluded] at h
    split at h
    · simp at h; exact h.symm
    · simp at h
    · exact ih h

theorem filterAnn_eq (objs : List Obj) :
    filterAnn objs = if objs.any celBroken = true then .error .filter else .ok (objs.filter kept) := by
  induction objs with
  | nil => rfl
  | cons o r ih =>
    simp only [filterAnn, ih, any_cons, filter_cons]
    by_cases ha : hasAnn o celAnn = true
    · simp only [ha, Bool.not_true, Bool.false_eq_true, ↓reduceIte, celBroken, kept, Bool.true_and,
        Bool.false_or]
      split
      · rename_i h1
        cases hr : r.any celBroken <;> simp [h1]
      · rename_i h2
        cases hr : r.any celBroken <;> simp [h2]
      · rename_i h1 h2
        simp
        intro h3
        exact absurd (h3 h1) h2
    · have ha' : hasAnn o celAnn = false := by simpa using ha
      simp only [ha', celBroken, kept]
      cases hr : r.any celBroken <;> simp

def filteredOf (pkg : Pkg) (po : GoMap Path (List Obj)) : GoMap Path (List Obj) :=
  po.filterMap fun e =>
    match pathDecision pkg e.1 with
    | .ok false => some (e.1, e.2.filter kept)
    | _ => none

theorem filterStep_eq (pkg : Pkg) (e : Path × List Obj) :
    filterStep pkg.globs (ignored pkg) e =
      match pathDecision pkg e.1 with
      | .error _ => .error .filter
      | .ok true => .ok (.del e.1)
      | .ok false =>
        if e.2.any celBroken = true then .error .filter else .ok (.set e.1 (e.2.filter kept)) := by
  simp only [filterStep, pathDecision, filterAnn_eq]
  cases h : isExcluded (rowOf pkg.globs e.1) (ignored pkg) with
  | error err => simp [isExcluded_err _ _ _ h]
  | ok b =>
    cases b
    · cases hb : e.2.any celBroken <;> simp
    · rfl

theorem stepErr_filter (pkg : Pkg) (e : Path × List Obj) :
    (stepErr (filterStep pkg.globs (ignored pkg)) e).isSome = entryBroken pkg e := by
  simp only [stepErr, filterStep_eq, entryBroken]
  cases h : pathDecision pkg e.1 with
  | error err => simp
  | ok b =>
    cases b
    · simp only; cases e.2.any celBroken <;> simp
    · simp

theorem filter_err_kind (pkg : Pkg) (a : Path × List Obj) (e : Err)
    (h : filterStep pkg.globs (ignored pkg) a = .error e) : e = .filter := by
  rw [filterStep_eq] at h
  split at h
  · simp at h; exact h.symm
  · simp at h
  · split at h <;> simp at h; exact h.symm

theorem filter_closed (pkg : Pkg) (l : GoMap Path (List Obj)) (hok : l.any (entryBroken pkg) = false) :
    touched (filterStep pkg.globs (ignored pkg)) l = (l.map fun e => e.1) ∧
    written (filterStep pkg.globs (ignored pkg)) l = filteredOf pkg l := by
  induction l with
  | nil => exact ⟨rfl, rfl⟩
  | cons e r ih =>
    simp only [any_cons, Bool.or_eq_false_iff] at hok
    have ih := ih hok.2
    rw [touched_cons, written_cons, ih.1, ih.2, filterStep_eq]
    have hb := hok.1
    simp only [entryBroken] at hb
    simp only [filteredOf, filterMap_cons, map_cons]
    cases h : pathDecision pkg e.1 with
    | error err => simp [h] at hb
    | ok b =>
      cases b
      · simp [h] at hb
        have : e.2.any celBroken = false := by simpa using hb
        simp [this]
      · simp

theorem filter_self_keys_nil {κ β : Type} [BEq κ] [LawfulBEq κ] (l : GoMap κ β) :
    l.filter (fun e => !((l.map fun e => e.1).contains e.1)) = [] := by
  apply filter_eq_nil_iff.mpr
  intro e he
  simp only [Bool.not_eq_true, Bool.not_eq_false', contains_iff_mem]
  exact mem_map.mpr ⟨e, he, rfl⟩

theorem filterWithCEL_spec (σ : Oracle) (hσ : σ.Valid) (pkg : Pkg) {po' po : GoMap Path (List Obj)}
    (h : po' ~ po) (hnd : (po.map fun e => e.1).Nodup) (hctx : pkg.celCtxOk = true) :
    (pkg.cpaths.any (fun cp => cp.res == 2) = true → filterWithCEL σ pkg po' = .error .condpath) ∧
    (pkg.cpaths.any (fun cp => cp.res == 2) = false → po.any (entryBroken pkg) = true →
      filterWithCEL σ pkg po' = .error .filter) ∧
    (pkg.cpaths.any (fun cp => cp.res == 2) = false → po.any (entryBroken pkg) = false →
      ∃ r, filterWithCEL σ pkg po' = .ok r ∧ r ~ filteredOf pkg po) := by
  have hkey : ∀ (e : Path × List Obj) (u : Upd Path (List Obj)),
      filterStep pkg.globs (ignored pkg) e = .ok u → Upd.key u = none ∨ Upd.key u = some e.1 := by
    intro e u hu
    rw [filterStep_eq] at hu
    split at hu
    · simp at hu
    · simp at hu; subst hu; exact Or.inr rfl
    · split at hu <;> simp at hu; subst hu; exact Or.inr rfl
  have hl := rangeLoop_spec (filterStep pkg.globs (ignored pkg)) .filter (filter_err_kind pkg)
    ((hσ 4 _ po').trans h) h ((touched_sublist _ hkey po).nodup hnd)
  simp only [stepErr_filter] at hl
  refine ⟨?_, ?_, ?_⟩
  · intro hc
    simp [filterWithCEL, hctx, computeIgnoredPaths_eq, hc]
  · intro hc hb
    have := hl.1 hb
    simp only [filterWithCEL, hctx, computeIgnoredPaths_eq, hc]
    simpa [ignored] using this
  · intro hc hb
    obtain ⟨r, hr, hrp⟩ := hl.2 hb
    have hcl := filter_closed pkg po hb
    rw [hcl.1, hcl.2, filter_self_keys_nil] at hrp
    refine ⟨r, ?_, by simpa using hrp⟩
    simp only [filterWithCEL, hctx, computeIgnoredPaths_eq, hc]
    simpa [ignored] using hr

/-! ## keys of the intermediate maps -/

theorem keys_finalFiles_nodup {files : List File} (hnd : (files.map fun f => f.path).Nodup) :
    ((finalFiles files).map fun e => e.1).Nodup := by
  simp only [finalFiles, map_append]
  apply nodup_append.mpr
  refine ⟨?_, nodup_rendered hnd, ?_⟩
  · apply (keys_filter_sublist _ _).nodup
    have : (fileMap files).map (fun e => e.1) = files.map fun f => f.path := by
      simp [fileMap, Function.comp_def]
    rw [this]; exact hnd
  · intro a ha b hb hab
    subst hab
    obtain ⟨e, he, hea⟩ := mem_map.mp ha
    have := (mem_filter.mp he).2
    rw [hea] at this
    have hc : ((rendered files).map fun e => e.1).contains a = true := contains_iff_mem.mpr hb
    rw [hc] at this
    exact absurd this (by decide)

theorem keys_finalFiles_nonul {files : List File} (hnul : ∀ f ∈ files, NoNul f.path) :
    ∀ k ∈ (finalFiles files).map fun e => e.1, NoNul k := by
  intro k hk
  simp only [finalFiles, map_append, mem_append] at hk
  rcases hk with hk | hk
  · obtain ⟨e, he, hek⟩ := mem_map.mp hk
    have := (mem_filter.mp he).1
    simp only [fileMap, mem_map] at this
    obtain ⟨f, hf, hfe⟩ := this
    subst hfe; subst hek
    exact hnul f hf
  · simp only [rendered, map_map, mem_map, Function.comp] at hk
    obtain ⟨f, hf, hfk⟩ := hk
    subst hfk
    exact noNul_stripSuffix (hnul f (mem_filter.mp hf).1)

theorem keys_parsedOf_sublist (pkg : Pkg) (fm : GoMap Path Docs) :
    ((parsedOf pkg fm).map fun e => e.1) <+ (fm.map fun e => e.1) := by
  apply Sublist.trans _ (keys_filter_sublist cand fm)
  apply keys_filterMap_sublist
  intro e e' h
  split at h <;> simp at h
  subst h; rfl

theorem keys_filteredOf_sublist (pkg : Pkg) (po : GoMap Path (List Obj)) :
    ((filteredOf pkg po).map fun e => e.1) <+ (po.map fun e => e.1) := by
  apply keys_filterMap_sublist
  intro e e' h
  split at h <;> simp at h
  subst h; rfl

/-! ## Stage 4: path sort and concatenation -/

theorem concat_spec (σ : Oracle) (hσ : σ.Valid) {po' po : GoMap Path (List Obj)} (h : po' ~ po)
    (hnd : (po.map fun e => e.1).Nodup) (hnul : ∀ k ∈ po.map fun e => e.1, NoNul k) :
    concatObjects po' (sortedPaths σ po')
      = (((po.map fun e => e.1).mergeSort pathLe).map fun p => (po.lookup p).getD []).flatten := by
  have hs : sortedPaths σ po' = (po.map fun e => e.1).mergeSort pathLe := by
    apply mergeSort_eq_of_perm pathLe_trans pathLe_total (((hσ 5 _ po').trans h).map _)
    intro a b ha hb
    exact pathLe_antisymm (hnul a ha) (hnul b hb)
  rw [hs, concatObjects]
  congr 1
  apply map_congr_left
  intro p _
  rw [lookup_perm h hnd]

/-! ## Stage 5: phase collector -/

theorem withIdx_map_snd {α : Type} (n : Nat) (l : List α) : (withIdx n l).map (fun e => e.2) = l := by
  induction l generalizing n with
  | nil => rfl
  | cons a r ih => simp [withIdx, ih]

theorem withIdx_ge {α : Type} (n : Nat) (l : List α) : ∀ e ∈ withIdx n l, n ≤ e.1 := by
  induction l generalizing n with
  | nil => simp [withIdx]
  | cons a r ih =>
    intro e he
    simp only [withIdx, mem_cons] at he
    rcases he with rfl | he
    · exact Nat.le_refl _
    · exact Nat.le_of_succ_le (ih (n + 1) e he)

theorem withIdx_pairwise {α : Type} (n : Nat) (l : List α) :
    (withIdx n l).Pairwise fun a b => a.1 < b.1 := by
  induction l generalizing n with
  | nil => simp [withIdx]
  | cons a r ih =>
    simp only [withIdx, pairwise_cons]
    exact ⟨fun e he => withIdx_ge (n + 1) r e he, ih (n + 1)⟩

theorem pairwise_mem_trichotomy {α : Type} {R : α → α → Prop} {l : List α} (h : l.Pairwise R)
    {a b : α} (ha : a ∈ l) (hb : b ∈ l) : a = b ∨ R a b ∨ R b a := by
  induction l with
  | nil => simp at ha
  | cons x r ih =>
    simp only [pairwise_cons] at h
    simp only [mem_cons] at ha hb
    rcases ha with rfl | ha <;> rcases hb with rfl | hb
    · exact Or.inl rfl
    · exact Or.inr (Or.inl (h.1 b hb))
    · exact Or.inr (Or.inr (h.1 a ha))
    · exact ih h.2 ha hb

theorem newPhaseCollector_eq (phases : List String) (hnd : phases.Nodup) :
    newPhaseCollector phases = (withIdx 0 phases).map fun e => (e.2, (e.1, [])) := by
  have h1 : newPhaseCollector phases
      = ((withIdx 0 phases).map fun e => (Upd.set e.2 (e.1, []) : Upd String (Nat × List OutObj))).foldl
          Upd.apply [] := by
    simp [newPhaseCollector, foldl_map, Upd.apply]
  rw [h1, foldl_apply_eq]
  · simp [filterMap_map, Function.comp_def, Upd.entry]
  · simp only [filterMap_map, Function.comp_def, Upd.key]
    have : filterMap (fun x : Nat × String => some x.2) (withIdx 0 phases) = phases := by
      rw [← withIdx_map_snd 0 phases, filterMap_eq_map']
      simp [withIdx_map_snd]
    rw [this]; exact hnd

/-- what `AddObjects objs` does to one collector entry -/
def addTo (objs : List Obj) (e : String × (Nat × List OutObj)) : String × (Nat × List OutObj) :=
  (e.1, (e.2.1, e.2.2 ++ (objs.filter fun o => phaseOf o == e.1).map finalize))

theorem addObject_eq (c : Collector) (o : Obj) :
    addObject c o = c.map fun e => if e.1 == phaseOf o then (e.1, (e.2.1, e.2.2 ++ [finalize o])) else e := by
  unfold addObject
  split
  · rfl
  · rename_i h
    have h' : c.any (fun e => e.1 == phaseOf o) = false := Bool.eq_false_iff.mpr h
    rw [any_eq_false] at h'
    symm
    conv => rhs; rw [← map_id c]
    apply map_congr_left
    intro e he
    have := h' e he
    simp only [Bool.not_eq_true] at this
    simp [this]

theorem foldl_addObject (objs : List Obj) (c : Collector) :
    objs.foldl addObject c = c.map (addTo objs) := by
  induction objs generalizing c with
  | nil =>
    have : addTo [] = id := by funext e; simp [addTo]
    rw [this]; simp
  | cons o r ih =>
    rw [foldl_cons, ih, addObject_eq, map_map]
    apply map_congr_left
    intro e _
    simp only [Function.comp, addTo, filter_cons]
    cases h : e.1 == phaseOf o
    · have h' : (phaseOf o == e.1) = false := by
        rw [Bool.eq_false_iff] at h ⊢
        intro hh; exact h (by rw [beq_iff_eq] at hh ⊢; exact hh.symm)
      simp [h']
    · have h' : (phaseOf o == e.1) = true := by
        rw [beq_iff_eq] at h ⊢; exact h.symm
      simp [h', append_assoc]

def specPhasesOf (phases : List String) (objs : List Obj) : List Phase :=
  phases.filterMap fun n =>
    if ((objs.filter fun o => phaseOf o == n).map finalize).length != 0
    then some { name := n, objs := (objs.filter fun o => phaseOf o == n).map finalize } else none

theorem collect_map_eq (objs : List Obj) (n : Nat) (phases : List String) :
    ((((withIdx n phases).map fun e => addTo objs (e.2, (e.1, []))).filter
        fun e => e.2.2.length != 0).map fun e => ({ name := e.1, objs := e.2.2 } : Phase))
      = specPhasesOf phases objs := by
  induction phases generalizing n with
  | nil => rfl
  | cons p r ih =>
    simp only [withIdx, map_cons, filter_cons, specPhasesOf, filterMap_cons, addTo, nil_append]
    have := ih (n + 1)
    simp only [specPhasesOf, addTo, nil_append] at this
    split <;> simp_all

theorem collector_spec (σ : Oracle) (hσ : σ.Valid) (phases : List String) (hnd : phases.Nodup)
    (objs : List Obj) :
    renderObjectSetTemplateSpec σ phases objs = specPhasesOf phases objs := by
  simp only [renderObjectSetTemplateSpec, foldl_addObject, newPhaseCollector_eq phases hnd, map_map,
    collect]
  rw [← collect_map_eq objs 0 phases]
  congr 1
  have hpw : ((withIdx 0 phases).map (addTo objs ∘ fun e => (e.2, (e.1, [])))).Pairwise
      fun a b => a.2.1 < b.2.1 := by
    rw [pairwise_map]
    exact (withIdx_pairwise 0 phases).imp (by intro a b hab; simpa [addTo] using hab)
  apply mergeSort_eq_self_of_perm
  · intro a b c hab hbc
    simp only [decide_eq_true_eq] at hab hbc ⊢
    exact Nat.le_trans hab hbc
  · intro a b
    simp only [Bool.or_eq_true, decide_eq_true_eq]
    exact Nat.le_total _ _
  · exact (hσ 6 _ _).filter _
  · exact ((hpw.sublist filter_sublist).imp (by
      intro a b hab; simp only [decide_eq_true_eq]; exact Nat.le_of_lt hab))
  · intro a b ha hb hab hba
    simp only [decide_eq_true_eq] at hab hba
    rcases pairwise_mem_trichotomy hpw (mem_filter.mp ha).1 (mem_filter.mp hb).1 with h | h | h
    · exact h
    · exact absurd h (Nat.not_lt.mpr hba)
    · exact absurd h (Nat.not_lt.mpr hab)
