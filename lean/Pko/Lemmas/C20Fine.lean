/-
C20: lemmas about the statement-level model `ReqMgrFine` - it linearises to the lock-atomic model
`ReqMgr` - and about parked broadcasts in the scenario runner `ReqMgrTrace`.
-/
import Pko.Model.ReqMgr
import Pko.Model.ReqMgrSpec
import Pko.Model.ReqMgrFine
import Pko.Model.ReqMgrTrace
import Pko.Lemmas.C20Sends
import Pko.Lemmas.C20Inv
import Pko.Lemmas.C20Refine
namespace Pko.Lemmas.C20Fine
open Pko.Model Pko.Model.ReqMgr Pko.Model.ReqMgrFine Pko.Model.ReqMgrTrace
open Pko.Lemmas.C20Sends Pko.Lemmas.C20Inv Pko.Lemmas.C20Refine
open Pko.Model.ReqMgrSpec (Spec abs)

/-! ### sends / deliver in pieces -/

theorem deliver_nil (d : Recv → List Response) : deliver d [] = d := by
  funext r; simp [deliver]

theorem deliver_deliver (d : Recv → List Response) (a b : List (Recv × Response)) :
    deliver (deliver d a) b = deliver d (a ++ b) := by
  funext r; simp [deliver, List.filter_append]

theorem sends_append (res : Result) (a b : List Recv) (t : Tok) :
    sends res (a ++ b) t = sends res a t ++ sends res b (sendsEnd res a t) := by
  induction a generalizing t with
  | nil => rfl
  | cons r a ih => simp [sends, sendsEnd, ih]

theorem sendsEnd_append (res : Result) (a b : List Recv) (t : Tok) :
    sendsEnd res (a ++ b) t = sendsEnd res b (sendsEnd res a t) := by
  induction a generalizing t with
  | nil => rfl
  | cons r a ih => simp [sendsEnd, ih]

/-- the state after the loop has sent to `rs` (and nothing else happened) -/
def sentState (b : State) (res : Result) (rs : List Recv) : State :=
  { b with delivered := deliver b.delivered (sends res rs b.nextTok)
           nextTok := sendsEnd res rs b.nextTok }

theorem sentState_nil (b : State) (res : Result) : sentState b res [] = b := by
  simp [sentState, sends, sendsEnd, deliver_nil]

theorem sentState_cons (b : State) (res : Result) (r : Recv) (rs : List Recv) :
    sentState (sendTo b r res) res rs = sentState b res (r :: rs) := by
  simp [sentState, sendTo, sends, sendsEnd, deliver_deliver]

theorem sentState_append (b : State) (res : Result) (a c : List Recv) :
    sentState (sentState b res a) res c = sentState b res (a ++ c) := by
  simp [sentState, deliver_deliver, sends_append, sendsEnd_append]

theorem finish_eq (b : State) (img : Image) (res : Result) (todo : List Recv) :
    finish b img res todo = release (sentState b res todo) img := rfl

theorem complete_eq_finish (s : State) (img : Image) (res : Result) :
    complete s img res = finish s img res ((s.inFlight img).getD []) := rfl

/-! ### the loop -/

/-- `k` iterations of the loop of a broadcast with `todo` left: what is sent, and the state. -/
theorem sendN_spec (k : Nat) (b : State) (img : Image) (res : Result) (todo : List Recv) :
    sendN k { base := b, bc := some ⟨img, res, todo⟩ } =
      (sends res (todo.take k) b.nextTok,
       { base := sentState b res (todo.take k), bc := some ⟨img, res, todo.drop k⟩ }) := by
  induction k generalizing b todo with
  | zero => simp [sendN, frunOut, sends, sentState_nil]
  | succ k ih =>
    cases todo with
    | nil =>
      have h := ih b []
      simp only [sendN] at h
      simp only [sendN, List.replicate_succ, frunOut, fstep, fout, h]
      simp
    | cons r rest =>
      have h := ih (sendTo b r res) rest
      simp only [sendN] at h
      simp only [sendN, List.replicate_succ, frunOut, fstep, fout, h]
      rw [sentState_cons]
      simp [sends, sendTo]

/-! ### linearisation -/

theorem run_append (s : State) (a b : List Op) : run s (a ++ b) = run (run s a) b := by
  simp [run, List.foldl_append]

theorem step_request (s : State) (c : Caller) (img : Image) :
    step s (.request c img) = request s c img := by
  simp [step, enabled, apply]

/-- **One fine step, seen after the broadcast in progress has been run to its end, is the
lock-atomic steps of its linearisation** (none for a loop iteration, the unlock, or an attempt
that is blocked). -/
theorem settled_fstep (s : FState) (op : FOp) :
    settled (fstep s op) = run (settled s) (lin s op) := by
  obtain ⟨b, bc⟩ := s
  cases op with
  | request c img =>
    cases bc with
    | none => simp [fstep, settled, lin, run, step_request]
    | some x => simp [fstep, settled, lin, run]
  | lockResp img res =>
    cases bc with
    | none =>
      by_cases h : 0 < b.running img
      · simp [fstep, settled, lin, run, step, enabled, h, apply, complete_eq_finish]
      · simp [fstep, settled, lin, run, step, enabled, h]
    | some x => simp [fstep, settled, lin, run]
  | sendOne =>
    cases bc with
    | none => simp [fstep, settled, lin, run]
    | some x =>
      obtain ⟨img, res, todo⟩ := x
      cases todo with
      | nil => simp [fstep, settled, lin, run]
      | cons r rest =>
        simp only [fstep, settled, lin, run, List.foldl_nil, finish_eq, sentState_cons]
  | unlockResp =>
    cases bc with
    | none => simp [fstep, settled, lin, run]
    | some x =>
      obtain ⟨img, res, todo⟩ := x
      cases todo with
      | nil => simp [fstep, settled, lin, run, finish_eq, sentState_nil]
      | cons r rest => simp [fstep, settled, lin, run]

theorem settled_frun (s : FState) (ops : List FOp) :
    settled (frun s ops) = run (settled s) (linRun s ops) := by
  induction ops generalizing s with
  | nil => simp [frun, frunOut, linRun, run]
  | cons op ops ih =>
    have h := ih (fstep s op)
    simp only [frun, frunOut, linRun] at h ⊢
    rw [h, settled_fstep, run_append]

/-! ### parked broadcasts in the scenario runner -/

/-- a request attempted while a broadcast holds the lock does not happen -/
theorem fstep_request_blocked (b : State) (x : Broadcast) (c : Caller) (img : Image) :
    fstep { base := b, bc := some x } (.request c img) = { base := b, bc := some x } := rfl

/-- the attempts made during a parked broadcast leave the state as it is -/
theorem attempts_blocked (plan : List (Bool × Caller × Image)) (b : State) (x : Broadcast) :
    plan.foldl (fun (f : FState) (p : Bool × Caller × Image) =>
        if p.1 then fstep f (.request p.2.1 p.2.2) else f) { base := b, bc := some x } =
      { base := b, bc := some x } := by
  induction plan with
  | nil => rfl
  | cons p plan ih =>
    simp only [List.foldl_cons]
    split
    · rw [fstep_request_blocked]; exact ih
    · exact ih

/-- once the lock is free they go through, in order -/
theorem attempts_free (plan : List (Bool × Caller × Image)) (b : State) :
    plan.foldl (fun (f : FState) (p : Bool × Caller × Image) =>
        if p.1 then fstep f (.request p.2.1 p.2.2) else f) { base := b, bc := none } =
      { base := run b (planOps plan), bc := none } := by
  induction plan generalizing b with
  | nil => rfl
  | cons p plan ih =>
    simp only [List.foldl_cons]
    by_cases hp : p.1 = true
    · simp only [hp, ↓reduceIte, fstep, planOps, List.filter_cons, List.map_cons, run, List.foldl_cons,
        step_request]
      exact ih _
    · simp only [hp, Bool.false_eq_true, ↓reduceIte, planOps, List.filter_cons]
      exact ih _

theorem fstep_lockResp (s : State) (i : Image) (res : Result) (ws : List Recv)
    (hr : 0 < s.running i) (hi : s.inFlight i = some ws) :
    fstep { base := s, bc := none } (.lockResp i res) = { base := s, bc := some ⟨i, res, ws⟩ } := by
  simp [fstep, hr, hi]

theorem fstep_unlock_nil (b : State) (i : Image) (res : Result) :
    fstep { base := b, bc := some ⟨i, res, []⟩ } .unlockResp = { base := release b i, bc := none } := rfl

/-- The state a parked completion ends in: the completion, then the requests issued meanwhile -
as if they had arrived after the broadcast. -/
theorem parkModel_state (n : Nat) (s : State) (h : RInv s) (i : Image) (res : Result) (k : Nat)
    (mid : List (Caller × Image)) (ws : List Recv) (hi : s.inFlight i = some ws) :
    (parkModel n s i res k mid).2 =
      run (step s (.complete i res)) (planOps (midPlan (abs s) i k mid [] [])) := by
  have hr : 0 < s.running i := by simp [(h.present i ws hi).1]
  have hlen : (List.drop k ws).length ≤ ws.length := by simp
  simp only [parkModel, fstep_lockResp s i res ws hr hi, hi, Option.getD_some, sendN_spec, attempts_blocked,
    List.take_of_length_le hlen, List.drop_of_length_le hlen, sentState_append, List.take_append_drop,
    fstep_unlock_nil, attempts_free]
  simp [step, enabled, hr, apply, complete_eq_finish, finish_eq, hi]

/-- What a parked completion shows once it is over. -/
theorem parkModel_collapse (n : Nat) (s : State) (h : RInv s) (i : Image) (res : Result) (k : Nat)
    (mid : List (Caller × Image)) (ws : List Recv) (hi : s.inFlight i = some ws) :
    collapse (parkModel n s i res k mid).1 =
      .step "U"
        { happened := true
          started := (List.range n).map (parkModel n s i res k mid).2.started
          inflight := (List.range n).map (parkModel n s i res k mid).2.running
          returned := ws.map fun r => (s.callerOf r, res)
          aliased := 0 } := by
  have hr : 0 < s.running i := by simp [(h.present i ws hi).1]
  have hlen : (List.drop k ws).length ≤ ws.length := by simp
  have hsplit : sends res (List.take k ws) s.nextTok ++
      sends res (List.drop k ws) (sendsEnd res (List.take k ws) s.nextTok) = sends res ws s.nextTok := by
    rw [← sends_append, List.take_append_drop]
  simp only [parkModel, collapse, fstep_lockResp s i res ws hr hi, hi, Option.getD_some, sendN_spec,
    attempts_blocked, List.take_of_length_le hlen, List.drop_of_length_le hlen, sentState_append,
    List.take_append_drop, fstep_unlock_nil, attempts_free]
  congr 1
  congr 1
  · rw [← List.map_append]
    have : (sentState s res (List.take k ws)).nextTok = sendsEnd res (List.take k ws) s.nextTok := rfl
    rw [this, hsplit]
    exact sends_obs_returned s.callerOf res ws s.nextTok
  · have : (sentState s res (List.take k ws)).nextTok = sendsEnd res (List.take k ws) s.nextTok := rfl
    rw [this, hsplit]
    have h1 : aliasCount ((sends res (List.take k ws) s.nextTok).map (·.2)) = 0 := by
      apply aliasCount_eq_zero
      rw [List.filterMap_map]
      exact sends_toks_nodup res _ _
    have h2 : aliasCount ((sends res ws s.nextTok).map (·.2)) = 0 := by
      apply aliasCount_eq_zero
      rw [List.filterMap_map]
      exact sends_toks_nodup res _ _
    simp [h1, h2]

end Pko.Lemmas.C20Fine
