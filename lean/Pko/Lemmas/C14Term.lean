import Pko.Lemmas.C14Store
namespace Pko.Lemmas.C14
open Pko.Model.Chunk Pko.Model.ChunkSpec
variable {Name : Type} [DecidableEq Name]

theorem pigeon (f : Nat → Name) (hinj : ∀ i j, f i = f j → i = j) :
    ∀ (n : Nat) (M : List Name), (∀ j, j < n → f j ∈ M) → n ≤ M.length := by
  intro n
  induction n with
  | zero => intro M _; exact Nat.zero_le _
  | succ n ih =>
    intro M h
    have hn : f n ∈ M := h n (Nat.lt_succ_self n)
    have := ih (M.erase (f n)) (fun j hj => by
      have hne : f j ≠ f n := fun he => by have := hinj _ _ he; omega
      exact (List.mem_erase_of_ne hne).mpr (h j (by omega)))
    rw [List.length_erase_of_mem hn] at this
    have : 0 < M.length := List.length_pos_of_mem hn
    omega

theorem mem_names_of_get {st : Store Name} {n : Name} {s : Slice} (h : getSlice st n = some s) : n ∈ names st := by
  induction st with
  | nil => simp [getSlice] at h
  | cons e st ih =>
    obtain ⟨k, v⟩ := e
    by_cases hk : k = n
    · simp [names, hk]
    · simp only [getSlice, hk, ↓reduceIte] at h
      simp only [names, List.map_cons, List.mem_cons]
      right; exact ih h

/-- If the collision loop gives up, every name it tried was taken. -/
theorem reconcileSliceFrom_none {hash : List Obj → Nat → Name} {X : List Obj} {st : Store Name} :
    ∀ (fuel c : Nat), reconcileSliceFrom hash fuel c st X = none →
    ∀ j, c ≤ j → j < c + fuel → hash X j ∈ names st := by
  intro fuel
  induction fuel with
  | zero => intro c _ j h1 h2; omega
  | succ fuel ih =>
    intro c h j h1 h2
    simp only [reconcileSliceFrom, attempt] at h
    cases hg : getSlice st (hash X c) with
    | none => simp [hg] at h
    | some ex =>
      simp only [hg] at h
      by_cases hm : (ex.ctl && ex.objects == X) = true
      · simp [hm] at h
      · simp only [hm, Bool.false_eq_true, ↓reduceIte] at h
        by_cases hj : j = c
        · subst hj; exact mem_names_of_get hg
        · exact ih (c + 1) h j (by omega) (by omega)

/-- With a hash that is injective in the collision count, `reconcileSlice` always terminates within its fuel. -/
theorem reconcileSlice_terminates (hash : List Obj → Nat → Name) (st : Store Name) (X : List Obj)
    (hinj : ∀ i j, hash X i = hash X j → i = j) : ∃ n st', reconcileSlice hash st X = some (n, st') := by
  cases h : reconcileSlice hash st X with
  | some p => exact ⟨p.1, p.2, rfl⟩
  | none =>
    have := reconcileSliceFrom_none (st.length + 1) 0 h
    have hp := pigeon (hash X) hinj (st.length + 1) (names st) (fun j hj => this j (Nat.zero_le _) (by omega))
    simp only [names, List.length_map] at hp
    omega

end Pko.Lemmas.C14
