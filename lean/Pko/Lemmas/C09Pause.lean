/-
Lemmas for the ObjectDeployment-level part of property C09 (pause propagation) and for the
multi-round histories of C08: what the API server's application of a pass's writes (`applyWs`)
does to one stored revision, what `propagate` writes, where a parent-pause write of the archive
reconciler can come from, the shape of an un-gated `osr` pass, and the invariants of histories.
The property theorems are in `Pko.Props.C09` / `Pko.Props.C08`.
-/
import Pko.Model.Archive
import Pko.Model.ArchiveHist
import Pko.Model.PauseSpec
import Pko.Lemmas.C08

namespace Pko.Lemmas.C09Pause
open Pko.Model.Archive Pko.Model.ArchiveHist Pko.Model.PauseSpec Pko.Lemmas.C08

/-! ## the store applying writes, seen from one revision -/

/-- Effect of an ordered write list on one stored revision (`none` = removed). -/
def applyTo (fin : Bool) : List Write → Rev → Option Rev
  | [], r => some r
  | w :: ws, r => if r.id = w.id then (upd fin w r).bind (applyTo fin ws) else applyTo fin ws r

theorem applyWs_eq (fin : Bool) (ws : List Write) (revs : List Rev) :
    applyWs fin ws revs = revs.filterMap (applyTo fin ws) := by
  induction ws generalizing revs with
  | nil =>
    have : applyTo fin [] = some := by funext r; rfl
    simp [applyWs, this]
  | cons w ws ih =>
    have h1 : applyWs fin (w :: ws) revs = applyWs fin ws (applyW fin revs w) := rfl
    rw [h1, ih, applyW, List.filterMap_filterMap]
    congr 1
    funext r
    by_cases h : r.id = w.id <;> simp [applyTo, h]

theorem upd_id {fin : Bool} {w : Write} {r q : Rev} (h : upd fin w r = some q) : q.id = r.id := by
  cases w <;> simp only [upd] at h
  · cases h; rfl
  · cases h; rfl
  · cases h; rfl
  · cases h; rfl
  · split at h
    · cases h; rfl
    · cases h

theorem applyTo_id {fin : Bool} {ws : List Write} {r q : Rev} (h : applyTo fin ws r = some q) :
    q.id = r.id := by
  induction ws generalizing r with
  | nil => simp only [applyTo] at h; cases h; rfl
  | cons w ws ih =>
    simp only [applyTo] at h
    split at h
    · cases hu : upd fin w r with
      | none => rw [hu] at h; cases h
      | some r' =>
        rw [hu] at h
        simp only [Option.bind_some] at h
        rw [ih h, upd_id hu]
    · exact ih h

theorem mem_applyWs {fin : Bool} {ws : List Write} {revs : List Rev} {q : Rev} :
    q ∈ applyWs fin ws revs ↔ ∃ r ∈ revs, applyTo fin ws r = some q := by
  rw [applyWs_eq, List.mem_filterMap]

/-- With unique names: the stored revision named like `r` after the pass IS `applyTo … r`. -/
theorem applyTo_of_mem {fin : Bool} {ws : List Write} {revs : List Rev}
    (hn : (revs.map (·.id)).Nodup) {r q : Rev} (hr : r ∈ revs)
    (hq : q ∈ applyWs fin ws revs) (hid : q.id = r.id) : applyTo fin ws r = some q := by
  obtain ⟨r0, hr0, h0⟩ := mem_applyWs.mp hq
  have : r0 = r := id_inj hn hr0 hr (by rw [← applyTo_id h0, hid])
  rw [← this]; exact h0

theorem applyTo_untouched {fin : Bool} {ws : List Write} {r : Rev}
    (h : ∀ w ∈ ws, w.id ≠ r.id) : applyTo fin ws r = some r := by
  induction ws with
  | nil => rfl
  | cons w ws ih =>
    have hw : ¬ r.id = w.id := fun e => h w List.mem_cons_self e.symm
    simp only [applyTo, hw, ↓reduceIte]
    exact ih (fun w' hw' => h w' (List.mem_cons_of_mem _ hw'))

/-- Only parent-pause writes reach `r`, and it is marked already or one of them does reach it:
afterwards it is there and marked. -/
theorem applyTo_ppause {fin : Bool} {ws : List Write} {r : Rev}
    (h : ∀ w ∈ ws, w.id = r.id → w = .ppause r.id) (hm : Marked r ∨ Write.ppause r.id ∈ ws) :
    ∃ q, applyTo fin ws r = some q ∧ Marked q := by
  induction ws generalizing r with
  | nil =>
    rcases hm with hm | hm
    · exact ⟨r, rfl, hm⟩
    · cases hm
  | cons w ws ih =>
    by_cases hid : r.id = w.id
    · have hw := h w List.mem_cons_self hid.symm
      subst hw
      simp only [applyTo, Write.id, ↓reduceIte, upd, Option.bind_some]
      exact ih (r := { r with lc := .paused, pbp := true })
        (fun w' hw' hi => h w' (List.mem_cons_of_mem _ hw') hi) (Or.inl ⟨rfl, rfl⟩)
    · simp only [applyTo, hid, ↓reduceIte]
      refine ih (fun w' hw' hi => h w' (List.mem_cons_of_mem _ hw') hi) ?_
      rcases hm with hm | hm
      · exact Or.inl hm
      · rcases List.mem_cons.mp hm with e | hm
        · exact absurd (by rw [← e]; rfl) hid
        · exact Or.inr hm

/-- No parent-pause write reaches `r`, and it has no annotation or is re-activated: afterwards (if
it is still there) it has no annotation. -/
theorem applyTo_marker_lost {fin : Bool} {ws : List Write} {r q : Rev}
    (h : ∀ w ∈ ws, w.id = r.id → ∀ i, w ≠ .ppause i)
    (hm : r.pbp = false ∨ Write.activate r.id ∈ ws) (hq : applyTo fin ws r = some q) :
    q.pbp = false := by
  induction ws generalizing r with
  | nil =>
    simp only [applyTo] at hq; cases hq
    rcases hm with hm | hm
    · exact hm
    · cases hm
  | cons w ws ih =>
    have htl : ∀ w' ∈ ws, w'.id = r.id → ∀ i, w' ≠ .ppause i :=
      fun w' hw' hi => h w' (List.mem_cons_of_mem _ hw') hi
    by_cases hid : r.id = w.id
    · simp only [applyTo, hid, ↓reduceIte] at hq
      -- the rest of the list, for a successor `r'` with the same name
      have key : ∀ r', r'.id = r.id → upd fin w r = some r' →
          (r'.pbp = false ∨ Write.activate r'.id ∈ ws) → q.pbp = false := by
        intro r' hid' hu hm'
        rw [hu] at hq
        simp only [Option.bind_some] at hq
        exact ih (r := r') (fun w' hw' hi => htl w' hw' (hi.trans hid')) hm' hq
      cases w with
      | ppause i => exact absurd rfl (h _ List.mem_cons_self hid.symm i)
      | activate i => exact key { r with lc := .active, pbp := false } rfl rfl (Or.inl rfl)
      | pause i =>
        have hm' : r.pbp = false ∨ Write.activate r.id ∈ ws := by
          rcases hm with hm | hm
          · exact Or.inl hm
          · rcases List.mem_cons.mp hm with e | hm
            · cases e
            · exact Or.inr hm
        exact key { r with lc := .paused } rfl rfl hm'
      | archive i =>
        have hm' : r.pbp = false ∨ Write.activate r.id ∈ ws := by
          rcases hm with hm | hm
          · exact Or.inl hm
          · rcases List.mem_cons.mp hm with e | hm
            · cases e
            · exact Or.inr hm
        exact key { r with lc := .archived } rfl rfl hm'
      | delete i =>
        have hm' : r.pbp = false ∨ Write.activate r.id ∈ ws := by
          rcases hm with hm | hm
          · exact Or.inl hm
          · rcases List.mem_cons.mp hm with e | hm
            · cases e
            · exact Or.inr hm
        cases fin with
        | true => exact key { r with terminating := true } rfl rfl hm'
        | false => simp [upd] at hq
    · simp only [applyTo, hid, ↓reduceIte] at hq
      refine ih htl ?_ hq
      rcases hm with hm | hm
      · exact Or.inl hm
      · rcases List.mem_cons.mp hm with e | hm
        · exact absurd (by rw [← e]; rfl) hid
        · exact Or.inr hm

/-- No re-activation reaches `r` and it is not Active: afterwards (if still there) it is not Active. -/
theorem applyTo_not_activated {fin : Bool} {ws : List Write} {r q : Rev}
    (h : ∀ w ∈ ws, w.id = r.id → ∀ i, w ≠ .activate i)
    (hl : r.lc ≠ .active) (hq : applyTo fin ws r = some q) : q.lc ≠ .active := by
  induction ws generalizing r with
  | nil => simp only [applyTo] at hq; cases hq; exact hl
  | cons w ws ih =>
    have htl : ∀ w' ∈ ws, w'.id = r.id → ∀ i, w' ≠ .activate i :=
      fun w' hw' hi => h w' (List.mem_cons_of_mem _ hw') hi
    by_cases hid : r.id = w.id
    · simp only [applyTo, hid, ↓reduceIte] at hq
      have key : ∀ r', r'.id = r.id → upd fin w r = some r' → r'.lc ≠ .active → q.lc ≠ .active := by
        intro r' hid' hu hl'
        rw [hu] at hq
        simp only [Option.bind_some] at hq
        exact ih (r := r') (fun w' hw' hi => htl w' hw' (hi.trans hid')) hl' hq
      cases w with
      | activate i => exact absurd rfl (h _ List.mem_cons_self hid.symm i)
      | ppause i => exact key { r with lc := .paused, pbp := true } rfl rfl (by simp)
      | pause i => exact key { r with lc := .paused } rfl rfl (by simp)
      | archive i => exact key { r with lc := .archived } rfl rfl (by simp)
      | delete i =>
        cases fin with
        | true => exact key { r with terminating := true } rfl rfl hl
        | false => simp [upd] at hq
    · simp only [applyTo, hid, ↓reduceIte] at hq
      exact ih htl hl hq

/-! ## the propagation loop -/

theorem pausedByParent_iff (r : Rev) : r.pausedByParent = true ↔ Marked r := by
  simp [Rev.pausedByParent, Marked]

/-- Exactly which writes the propagation loop of a PAUSED parent issues. -/
theorem mem_propagate_true {l : List Rev} {w : Write} :
    w ∈ (propagate true l).1 ↔
      ∃ r ∈ l, r.archived = false ∧ r.pausedByParent = false ∧ w = Write.ppause r.id := by
  induction l with
  | nil => simp [propagate]
  | cons o os ih =>
    unfold propagate
    simp only [List.mem_cons, exists_eq_or_imp]
    rw [← ih]
    by_cases ha : o.archived = true
    · simp [ha]
    · have ha' : o.archived = false := by simpa using ha
      by_cases hne : o.pausedByParent = true
      · simp [ha', hne]
      · have hne' : o.pausedByParent = false := by simpa using hne
        simp [ha', hne']

/-- Exactly which writes the propagation loop of an UN-PAUSED parent issues. -/
theorem mem_propagate_false {l : List Rev} {w : Write} :
    w ∈ (propagate false l).1 ↔
      ∃ r ∈ l, r.archived = false ∧ r.pausedByParent = true ∧ w = Write.activate r.id := by
  induction l with
  | nil => simp [propagate]
  | cons o os ih =>
    unfold propagate
    simp only [List.mem_cons, exists_eq_or_imp]
    rw [← ih]
    by_cases ha : o.archived = true
    · simp [ha]
    · have ha' : o.archived = false := by simpa using ha
      by_cases hne : o.pausedByParent = true
      · simp [ha', hne]
      · have hne' : o.pausedByParent = false := by simpa using hne
        simp [ha', hne']

/-! ## where a parent-pause write of the archive reconciler comes from -/

theorem ensurePaused_ppause {o : Rev} {i : Nat} (h : Write.ppause i ∈ (ensurePaused o).1) :
    o.id = i ∧ o.pbp = true := by
  unfold ensurePaused at h
  split at h
  · simp at h
  · split at h
    · simp at h
    · split at h
      · rename_i hp; simp at h; exact ⟨h.symm, hp⟩
      · simp at h

theorem case1_ppause {lt : Rev} {ps : List Rev} {i : Nat} (h : Write.ppause i ∈ (case1 lt ps).1) :
    ∃ o ∈ ps, o.id = i ∧ o.pbp = true := by
  induction ps with
  | nil => simp [case1] at h
  | cons p ps ih =>
    unfold case1 at h
    split at h
    · obtain ⟨o, ho, h'⟩ := ih h; exact ⟨o, List.mem_cons_of_mem _ ho, h'⟩
    · split at h
      · simp only [List.mem_append] at h
        rcases h with h | h
        · exact ⟨p, List.mem_cons_self, ensurePaused_ppause h⟩
        · obtain ⟨o, ho, h'⟩ := ih h; exact ⟨o, List.mem_cons_of_mem _ ho, h'⟩
      · obtain ⟨o, ho, h'⟩ := ih h; exact ⟨o, List.mem_cons_of_mem _ ho, h'⟩

theorem pairIter_ppause {p l : Rev} {i : Nat} (h : Write.ppause i ∈ (pairIter p l).1) :
    p.id = i ∧ p.pbp = true := by
  unfold pairIter at h
  split at h
  · simp at h
  · split at h
    · simp at h
    · simp only at h
      unfold pairStep at h
      split at h
      · simp at h
      · split at h
        · exact ensurePaused_ppause h
        · simp at h

theorem scan_ppause {d : List Rev} {i : Nat} (h : Write.ppause i ∈ (scan d).1) :
    ∃ o ∈ d, o.id = i ∧ o.pbp = true := by
  induction d with
  | nil => simp [scan] at h
  | cons l rest ih =>
    unfold scan at h
    split at h
    · obtain ⟨o, ho, h'⟩ := case1_ppause h
      exact ⟨o, List.mem_cons_of_mem _ (List.mem_reverse.mp ho), h'⟩
    · split at h
      · simp at h
      · rename_i p ps
        split at h
        · simp at h
        · simp only [List.mem_append] at h
          rcases h with h | h
          · exact ⟨p, List.mem_cons_of_mem _ List.mem_cons_self, pairIter_ppause h⟩
          · obtain ⟨o, ho, h'⟩ := ih h; exact ⟨o, List.mem_cons_of_mem _ ho, h'⟩

/-- A parent-pause write of the archive reconciler (`ensurePaused` on an object that still carries
the annotation) is addressed to a revision that carries the annotation. -/
theorem reconcile_ppause {prev : List Rev} {c : Rev} {limit : Option Int} {fin : Bool} {i : Nat}
    (h : Write.ppause i ∈ (reconcile prev (some c) limit fin).1) :
    ∃ o ∈ prev ++ [c], o.id = i ∧ o.pbp = true := by
  have hscan : Write.ppause i ∈ (scan (sortAsc (prev ++ [c])).reverse).1 →
      ∃ o ∈ prev ++ [c], o.id = i ∧ o.pbp = true := by
    intro h
    obtain ⟨o, ho, h'⟩ := scan_ppause h
    exact ⟨o, mem_sortAsc.mp (List.mem_reverse.mp ho), h'⟩
  simp only [reconcile] at h
  split at h
  · exact hscan h
  · split at h
    · exact hscan h
    · rcases List.mem_append.mp h with h | h
      · exact hscan h
      · rcases markLoop_other h with ⟨_, e⟩ | ⟨_, e⟩ <;> cases e

theorem reconcile_no_activate {prev : List Rev} {cur : Option Rev} {limit : Option Int} {fin : Bool}
    {i : Nat} : Write.activate i ∉ (reconcile prev cur limit fin).1 := by
  intro h
  cases cur with
  | none => simp [reconcile] at h
  | some c =>
    simp only [reconcile] at h
    split at h
    · exact absurd (scan_writes h) (by simp [IsPause])
    · split at h
      · exact absurd (scan_writes h) (by simp [IsPause])
      · rcases List.mem_append.mp h with h | h
        · exact absurd (scan_writes h) (by simp [IsPause])
        · rcases markLoop_other h with ⟨_, e⟩ | ⟨_, e⟩ <;> cases e

/-! ## shape of a pass that is not gated -/

theorem any_sortAsc (l : List Rev) (p : Rev → Bool) : (sortAsc l).any p = l.any p := by
  rw [Bool.eq_iff_iff]
  simp only [List.any_eq_true]
  constructor
  · rintro ⟨x, hx, hp⟩; exact ⟨x, mem_sortAsc.mp hx, hp⟩
  · rintro ⟨x, hx, hp⟩; exact ⟨x, mem_sortAsc.mpr hx, hp⟩

theorem osr_gated {listing : List Rev} {b : Bool} {limit : Option Int} {fin : Bool}
    (hg : gated listing = true) : osr listing b limit fin = ([], false) := by
  unfold osr
  simp only
  have : (sortAsc listing).any (fun o => o.rev == 0) = true := by rw [any_sortAsc]; exact hg
  simp [this]

/-- A pass of a paused parent that is not gated: the propagation writes and nothing else. -/
theorem osr_paused {listing : List Rev} {limit : Option Int} {fin : Bool}
    (hg : gated listing = false) :
    osr listing true limit fin = ((propagate true (sortAsc listing)).1, false) := by
  unfold osr
  simp only
  have : (sortAsc listing).any (fun o => o.rev == 0) = false := by rw [any_sortAsc]; exact hg
  simp [this]

/-- A pass of an un-paused parent that is not gated: the propagation writes, followed by the
archive reconciler's writes on the objects as the propagation loop left them in memory. -/
theorem osr_unpaused {listing : List Rev} {limit : Option Int} {fin : Bool}
    (hg : gated listing = false) :
    ∃ prev cur, (∀ o ∈ prev ++ cur.toList, o ∈ (sortAsc listing).map (touch false)) ∧
      (osr listing false limit fin).1 =
        (propagate false (sortAsc listing)).1 ++ (reconcile prev cur limit fin).1 := by
  have h0 : (sortAsc listing).any (fun o => o.rev == 0) = false := by rw [any_sortAsc]; exact hg
  unfold osr
  simp only [h0, Bool.false_eq_true, ↓reduceIte, propagate_snd]
  cases hl : (sortAsc listing).getLast? with
  | none =>
    refine ⟨_, none, ?_, rfl⟩
    intro o ho
    simpa using ho
  | some m =>
    by_cases hm : m.hashMatch = true
    · simp only [hm, ↓reduceIte]
      refine ⟨_, _, ?_, rfl⟩
      intro o ho
      rcases List.mem_append.mp ho with ho | ho
      · exact (List.dropLast_sublist _).subset ho
      · cases hl2 : ((sortAsc listing).map (touch false)).getLast? with
        | none => rw [hl2] at ho; cases ho
        | some m' =>
          rw [hl2] at ho
          simp only [Option.toList_some, List.mem_singleton] at ho
          rw [ho]
          exact List.mem_of_getLast? hl2
    · simp only [hm, Bool.false_eq_true, ↓reduceIte]
      refine ⟨_, none, ?_, rfl⟩
      intro o ho
      simpa using ho

/-! ## invariants of histories -/

/-- names are unique and below the next name to be handed out -/
def Inv (s : State) : Prop := (s.revs.map (·.id)).Nodup ∧ ∀ r ∈ s.revs, r.id < s.next

theorem nodup_filterMap_id {l : List Rev} {f : Rev → Option Rev}
    (hf : ∀ r q, f r = some q → q.id = r.id) (hn : (l.map (·.id)).Nodup) :
    ((l.filterMap f).map (·.id)).Nodup := by
  induction l with
  | nil => simp
  | cons x xs ih =>
    simp only [List.map_cons, List.nodup_cons] at hn
    rw [List.filterMap_cons]
    cases hx : f x with
    | none => simpa using ih hn.2
    | some q =>
      simp only [List.map_cons, List.nodup_cons]
      refine ⟨?_, ih hn.2⟩
      intro hmem
      obtain ⟨q', hq', he⟩ := List.mem_map.mp hmem
      obtain ⟨r', hr', hfr⟩ := List.mem_filterMap.mp hq'
      apply hn.1
      rw [← hf x q hx, ← he, hf r' q' hfr]
      exact List.mem_map.mpr ⟨r', hr', rfl⟩

theorem mem_filterMap_id_lt {l : List Rev} {f : Rev → Option Rev} {n : Nat}
    (hf : ∀ r q, f r = some q → q.id = r.id) (hb : ∀ r ∈ l, r.id < n) :
    ∀ q ∈ l.filterMap f, q.id < n := by
  intro q hq
  obtain ⟨r, hr, hfr⟩ := List.mem_filterMap.mp hq
  rw [hf r q hfr]; exact hb r hr

theorem inv_of_filterMap {s : State} {f : Rev → Option Rev}
    (hf : ∀ r q, f r = some q → q.id = r.id) (h : Inv s) :
    Inv { s with revs := s.revs.filterMap f } :=
  ⟨nodup_filterMap_id hf h.1, mem_filterMap_id_lt hf h.2⟩

theorem inv_of_map {s : State} {f : Rev → Rev} (hf : ∀ r, (f r).id = r.id) (h : Inv s) :
    Inv { s with revs := s.revs.map f } := by
  have : s.revs.map f = s.revs.filterMap (fun r => some (f r)) := by
    rw [List.filterMap_eq_map']
  rw [this]
  exact inv_of_filterMap (fun r q e => by cases e; exact hf r) h

theorem step_inv {s : State} (op : Op) (h : Inv s) : Inv (step s op) := by
  cases op with
  | od =>
    simp only [step]
    rw [applyWs_eq]
    exact inv_of_filterMap (fun r q e => applyTo_id e) h
  | new rev0 av sp co obj sl sm =>
    simp only [step]
    constructor
    · simp only [List.map_append, List.map_map, List.map_cons, List.map_nil]
      have : ((fun r : Rev => r.id) ∘ fun o : Rev => { o with hashMatch := false }) = fun r => r.id := by
        funext r; rfl
      rw [this, List.nodup_append]
      refine ⟨h.1, by simp, ?_⟩
      intro a ha b hb
      simp only [List.mem_singleton] at hb
      obtain ⟨r, hr, rfl⟩ := List.mem_map.mp ha
      have := h.2 r hr
      omega
    · intro r hr
      rcases List.mem_append.mp hr with hr | hr
      · obtain ⟨r0, hr0, rfl⟩ := List.mem_map.mp hr
        have := h.2 r0 hr0
        show r0.id < s.next + 1
        omega
      · simp only [List.mem_singleton] at hr
        subst hr
        show s.next < s.next + 1
        omega
  | status i av sp co =>
    simp only [step]
    exact inv_of_map (s := { s with hi := _ })
      (fun r => by unfold setStatus; split <;> rfl) h
  | edit i lc pbp =>
    simp only [step]
    exact inv_of_map (fun r => by split <;> rfl) h
  | del i =>
    simp only [step, applyW]
    exact inv_of_filterMap (fun r q e => by
      split at e
      · exact upd_id e
      · cases e; rfl) h
  | finish i =>
    simp only [step]
    constructor
    · exact h.1.sublist (List.filter_sublist.map _)
    · intro r hr
      exact h.2 r (List.mem_filter.mp hr).1
  | pause b => exact h
  | limit l => exact h

theorem run_inv {s : State} (ops : List Op) (h : Inv s) : Inv (run s ops) := by
  induction ops generalizing s with
  | nil => exact h
  | cons op ops ih => exact ih (step_inv op h)

end Pko.Lemmas.C09Pause
