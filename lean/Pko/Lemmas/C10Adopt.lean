import Pko.Lemmas.C10Visits
import Pko.Props.C02
/-! C10 across a handover: an object still controlled by a declared PREVIOUS revision is one
reconcile step away from being settled for the new revision (native owner strategy). -/
namespace Pko.Props.C10
open Pko.Kube Pko.Model.Phase Pko.Model.ObjectSet Pko.Model.Converge

/-- The stored object belongs to a declared previous revision: that revision is its controller,
the recorded revision is lower than the new owner's, and the new owner is not listed on it yet. -/
structure FromPrevObj (cfg : Cfg) (ow : Owner) (prev : List Prev) (k : Key) (cur : Obj) : Prop where
  notMine : isController cfg.st (ow.ref true) cur = false
  parses : cur.rev ≠ .garbage
  older : revNum cur.rev < ow.rev
  byPrev : controlledByPrevious cfg.st cur prev = true
  uids : UidsDistinct cur.owners
  alive : cur.deleting = false
  fresh : ∀ c ∈ cur.owners, sameObjNoUID c (ow.ref true) = false ∧ c.uid ≠ ow.uid
  ns : ow.ns = "" ∨ k.ns = ow.ns

def FromPrev (cfg : Cfg) (ow : Owner) (prev : List Prev) (p : PObj) (s : Store) : Prop :=
  ∃ cur, s.get (keyOf cfg ow p) = some cur ∧ FromPrevObj cfg ow prev (keyOf cfg ow p) cur

theorem upsert_append (q : ORef → Bool) (r : ORef) (l : List ORef) (h : ∀ x ∈ l, q x = false) :
    upsert q r l = l ++ [r] := by
  induction l with
  | nil => rfl
  | cons x xs ih =>
    simp only [upsert, h x (by simp), Bool.false_eq_true, ↓reduceIte, List.cons_append]
    rw [ih (fun y hy => h y (by simp [hy]))]

/-- **handover step**: an object of a declared previous revision is adopted by one object step of
the new revision — afterwards it is settled for the new owner (the only controller, previous owners
kept and demoted), and no other key was touched. -/
theorem object_adopts (cfg : Cfg) (ow : Owner) (prev : List Prev) (p : PObj) (w : World)
    (hnat : cfg.st = .native) (hq : Quiet w) (hr : Reaches cfg ow p) (hf : FromPrev cfg ow prev p w.store) :
    Settled cfg ow p (reconcilePhaseObject cfg ow prev p w).1.store ∧
    (∃ o, (reconcilePhaseObject cfg ow prev p w).2 = .actual o ∧
          (reconcilePhaseObject cfg ow prev p w).1.store.get (keyOf cfg ow p) = some o) ∧
    ∀ k', k' ≠ keyOf cfg ow p → (reconcilePhaseObject cfg ow prev p w).1.store.get k' = w.store.get k' := by
  obtain ⟨cur, hg, hc⟩ := hf
  have hadopt : check cfg.st ow cfg.force cur prev p.cp = .adopt :=
    (Pko.Props.C01.check_adopts_iff cfg.st ow cfg.force cur prev p.cp hc.parses).2
      ⟨hc.notMine, ⟨Nat.le_of_lt hc.older, Or.inr (Or.inr ⟨hc.byPrev, hc.older⟩)⟩⟩
  -- the reference list PKO is about to write: everybody demoted, the new owner appended
  let released := cur.owners.map fun r => ({ r with ctrl := false } : ORef)
  have hrel : ∀ x ∈ released, sameObjNoUID x (ow.ref true) = false := by
    intro x hx
    obtain ⟨y, hy, rfl⟩ := List.mem_map.1 hx
    have := (hc.fresh y hy).1
    simpa [sameObjNoUID] using this
  have hnone : released.find? (·.ctrl) = none := by
    rw [List.find?_eq_none]; intro x hx; obtain ⟨y, _, rfl⟩ := List.mem_map.1 hx; simp
  have hnsok : ¬ (ow.ns ≠ "" ∧ (keyOf cfg ow p).ns ≠ ow.ns) := by
    rcases hc.ns with h | h
    · simp [h]
    · simp [h]
  have hset : setControllerReference cfg.st ow (keyOf cfg ow p).ns
      (releaseController cfg.st { cur with rev := .num ow.rev }) =
      some { cur with rev := .num ow.rev, owners := released ++ [ow.ref true] } := by
    simp only [hnat, setControllerReference, releaseController, refs, setRefs, hnsok, ↓reduceIte]
    show (match released.find? (·.ctrl) with
      | some ex => _
      | none => _) = _
    rw [hnone]
    have hu := upsert_append (fun x => sameObjNoUID x (ow.ref true)) (ow.ref true) released hrel
    simp only [released] at hu ⊢
    rw [hu]
  have hic : isController cfg.st (ow.ref true)
      ({ cur with rev := .num ow.rev, owners := released ++ [ow.ref true] } : Obj) = true := by
    simp [isController, refs, hnat, sameObj_refl, Owner.ref]
  have hns : ¬ (ow.ns ≠ "" ∧ desiredNs ow p ≠ ow.ns) := fun h => hr.2 ⟨hnat, h⟩
  simp only [reconcilePhaseObject_eq, hnat, true_and, hns, ↓reduceIte, hr.1, Bool.false_eq_true,
    seen_some w _ cur hg, reconcileObjectWith]
  rw [show check Strategy.native ow cfg.force cur prev p.cp = .adopt from hnat ▸ hadopt]
  simp only [↓reduceIte]
  rw [show setControllerReference Strategy.native ow (keyOf cfg ow p).ns
      (releaseController Strategy.native { cur with rev := .num ow.rev }) = _ from hnat ▸ hset]
  simp only [show isController Strategy.native (ow.ref true)
      ({ cur with rev := .num ow.rev, owners := released ++ [ow.ref true] } : Obj) = true from hnat ▸ hic, ↓reduceIte]
  have ha := apply_store w (keyOf cfg ow p) (appliedFor cfg ow p (released ++ [ow.ref true])) hq
  obtain ⟨h1, h2, h3, h4, h5, h6, h7, h8, _, _, h9⟩ := apply_some w.store (keyOf cfg ow p)
    (appliedFor cfg ow p (released ++ [ow.ref true])) cur hg hc.alive
  simp only [watch_apply_store, watch_apply_snd, watch_store]
  rw [ha.1, ha.2]
  refine ⟨⟨_, h1, ?_⟩, ⟨_, rfl, h1⟩, h9⟩
  have hown : (w.store.apply (keyOf cfg ow p) (appliedFor cfg ow p (released ++ [ow.ref true]))).2.1.owners =
      released ++ [ow.ref true] := by
    rw [h2]
    simp only [appliedFor]
    apply Pko.Props.C02.mergeOwners_eq_applied cur.owners released [ow.ref true]
    · simp [released]
    · simp [released, List.map_map, Function.comp]
    · exact hc.uids
    · intro e he c hcm
      simp only [List.mem_singleton] at he
      subst he
      simpa [Owner.ref] using (hc.fresh c hcm).2
  have hpkg : ow.pkgLabel = "" ∨
      (w.store.apply (keyOf cfg ow p) (appliedFor cfg ow p (released ++ [ow.ref true]))).2.1.pkgLabel = ow.pkgLabel := by
    by_cases h : ow.pkgLabel = ""
    · exact Or.inl h
    · right; rw [h6]; simp [appliedFor, h]
  exact { ctrl := by
            simp only [isController, refs, hnat]; rw [hown]; simp [sameObj_refl, Owner.ref]
          rev := by simpa [appliedFor] using h4
          payload := by simpa [appliedFor] using h7
          label := h5, pkg := hpkg
          ann := by intro h; simp [hnat] at h
          uids := by
            rw [hown]
            simp only [UidsDistinct, List.map_append, List.map_cons, List.map_nil]
            have hu : released.map (·.uid) = cur.owners.map (·.uid) := by
              simp [released, List.map_map, Function.comp]
            rw [hu]
            refine List.nodup_append.2 ⟨hc.uids, by simp, ?_⟩
            intro a ha b hb
            simp only [List.mem_singleton] at hb
            subst hb
            obtain ⟨c, hcm, rfl⟩ := List.mem_map.1 ha
            simpa [Owner.ref] using (hc.fresh c hcm).2
          alive := h8 }

/-- *Repairable across a handover*: absent, controlled by the owner, or still controlled by a
declared previous revision. -/
def Repairable (cfg : Cfg) (ow : Owner) (prev : List Prev) (p : PObj) (s : Store) : Prop :=
  Mine cfg ow p s ∨ FromPrev cfg ow prev p s

theorem repairable_congr {cfg : Cfg} {ow : Owner} {prev : List Prev} {p : PObj} {s s' : Store}
    (h : s'.get (keyOf cfg ow p) = s.get (keyOf cfg ow p)) (hs : Repairable cfg ow prev p s) :
    Repairable cfg ow prev p s' := by
  rcases hs with hm | ⟨cur, hg, hc⟩
  · exact Or.inl (mine_congr h hm)
  · exact Or.inr ⟨cur, by rw [h]; exact hg, hc⟩

theorem object_repairs_or_adopts (cfg : Cfg) (ow : Owner) (prev : List Prev) (p : PObj) (w : World)
    (hnat : cfg.st = .native) (hq : Quiet w) (hr : Reaches cfg ow p) (h : Repairable cfg ow prev p w.store) :
    Settled cfg ow p (reconcilePhaseObject cfg ow prev p w).1.store ∧
    (∃ o, (reconcilePhaseObject cfg ow prev p w).2 = .actual o ∧
          (reconcilePhaseObject cfg ow prev p w).1.store.get (keyOf cfg ow p) = some o) ∧
    ∀ k', k' ≠ keyOf cfg ow p → (reconcilePhaseObject cfg ow prev p w).1.store.get k' = w.store.get k' :=
  h.elim (object_repair cfg ow prev p w hq hr) (object_adopts cfg ow prev p w hnat hq hr)

/-- The object loop of `ReconcilePhase` of a NEW revision: objects that are absent, already its
own, or still controlled by a declared previous revision all end settled for the new revision. -/
theorem go_handover (cfg : Cfg) (ow : Owner) (prev : List Prev) (hnat : cfg.st = .native) :
    ∀ (ps : List PObj) (w : World) (failed : List String),
      Quiet w → (∀ p ∈ ps, Reaches cfg ow p) → (ps.map (keyOf cfg ow)).Nodup →
      (∀ p ∈ ps, Repairable cfg ow prev p w.store) →
      (∃ f', (reconcilePhase.go cfg ow prev ps w failed).2 = .ok f') ∧
      (∀ p ∈ ps, Settled cfg ow p (reconcilePhase.go cfg ow prev ps w failed).1.store) ∧
      Quiet (reconcilePhase.go cfg ow prev ps w failed).1 ∧
      ∀ k', k' ∉ ps.map (keyOf cfg ow) →
        (reconcilePhase.go cfg ow prev ps w failed).1.store.get k' = w.store.get k' := by
  intro ps
  induction ps with
  | nil =>
    intro w failed hq _ _ _
    simp only [reconcilePhase.go]
    exact ⟨⟨failed, rfl⟩, by simp, hq, fun _ _ => trivial⟩
  | cons p rest ih =>
    intro w failed hq hr hk hm
    have hrp : Reaches cfg ow p := hr p (by simp)
    obtain ⟨hsett, ⟨o, hres, hgo⟩, hframe⟩ :=
      object_repairs_or_adopts cfg ow prev p w hnat hq hrp (hm p (by simp))
    have henv := reconcilePhaseObject_env cfg ow prev p w
    simp only [List.map_cons, List.nodup_cons] at hk
    simp only [reconcilePhase.go]
    cases hstep : reconcilePhaseObject cfg ow prev p w with
    | mk w' res =>
      rw [hstep] at hsett hres hgo hframe henv
      simp only at hsett hres hgo hframe henv
      subst hres
      simp only
      have hq' : Quiet w' := by simp only [Quiet] at hq ⊢; rw [henv]; exact hq
      have hm' : ∀ q ∈ rest, Repairable cfg ow prev q w'.store := by
        intro q hq2
        have hne : keyOf cfg ow q ≠ keyOf cfg ow p := by
          intro he; exact hk.1 (he ▸ List.mem_map.2 ⟨q, hq2, rfl⟩)
        exact repairable_congr (hframe _ hne) (hm q (by simp [hq2]))
      obtain ⟨hok, hall, hqf, hfr⟩ := ih w' (if probeOk o then failed else failed ++ [p.name]) hq'
        (fun q hq2 => hr q (by simp [hq2])) hk.2 hm'
      refine ⟨hok, ?_, hqf, ?_⟩
      · intro q hq2
        rcases List.mem_cons.1 hq2 with rfl | hq3
        · exact settled_congr (hfr _ hk.1) hsett
        · exact hall q hq3
      · intro k' hk'
        simp only [List.map_cons, List.mem_cons, not_or] at hk'
        rw [hfr k' hk'.2, hframe k' hk'.1]

end Pko.Props.C10
