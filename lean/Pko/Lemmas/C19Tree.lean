/-
Helper lemmas for the CLI part of property C19 (`Pko.Model.TreeConfig`): the configuration map that
`(*Tree).getConfig` hands to `AdmitPackageConfiguration` is never the nil map, hence the nil-map
write of `defaulting.Default` is unreachable.  Core Lean only.
-/
import Pko.Model.TreeConfig

namespace Pko.Lemmas.C19Tree
open Pko.Model.TreeConfig
open Pko.Model.Panic (Outcome idx)
open Pko.Model.Panic.Outcome (ok err panic)

/-- No decoded test template carries the raw JSON literal `null` in `context.config.Raw`
(what decoding a `*runtime.RawExtension` guarantees, see `decodeConfig`). -/
def NoNullRaw (tpls : List TestTpl) : Prop := ∀ t ∈ tpls, t.config ≠ some .null

theorem decodeConfig_ne_null (c : Option Doc) : decodeConfig c ≠ some .null := by
  unfold decodeConfig
  split
  · simp
  · rename_i h; intro hc; exact h (by simpa using hc)

/-- Templates that come out of the manifest decoder satisfy `NoNullRaw`. -/
theorem noNullRaw_decoded (src : List (String × Option Doc × TplPkg)) :
    NoNullRaw (src.map fun (n, c, p) => { name := n, config := decodeConfig c, pkg := p }) := by
  intro t ht
  simp only [List.mem_map] at ht
  obtain ⟨⟨n, c, p⟩, _, rfl⟩ := ht
  exact decodeConfig_ne_null c

theorem jsonUnmarshal_nonnil (m m' : GoMap) (d : Doc) (hd : d ≠ .null)
    (h : jsonUnmarshal m d = some m') : m' ≠ .nil := by
  cases d with
  | obj ks => simp [jsonUnmarshal] at h; subst h; simp
  | null => exact absurd rfl hd
  | other => simp [jsonUnmarshal] at h
  | garbage => simp [jsonUnmarshal] at h

theorem yamlUnmarshal_nonnil (m m' : GoMap) (d : Doc) (hm : m ≠ .nil)
    (h : yamlUnmarshal m d = some m') : m' ≠ .nil := by
  cases d with
  | obj ks => simp [yamlUnmarshal] at h; subst h; simp
  | null => simp [yamlUnmarshal] at h; subst h; exact hm
  | other => simp [yamlUnmarshal] at h
  | garbage => simp [yamlUnmarshal] at h

/-- The testcase loop keeps an allocated map allocated: whatever it returns early or ends with. -/
theorem tcLoop_nonnil (tc : String) (tpls : List TestTpl) (hraw : NoNullRaw tpls) :
    ∀ m, m ≠ .nil →
      (∀ m', tcLoop tc tpls m = .ret m' → m' ≠ .nil) ∧ (∀ m', tcLoop tc tpls m = .fall m' → m' ≠ .nil) := by
  induction tpls with
  | nil =>
    intro m hm
    constructor
    · intro m' h; simp [tcLoop] at h
    · intro m' h; simp [tcLoop] at h; subst h; exact hm
  | cons t ts ih =>
    have hts : NoNullRaw ts := fun x hx => hraw x (List.mem_cons_of_mem _ hx)
    have ht : t.config ≠ some .null := hraw t List.mem_cons_self
    intro m hm
    unfold tcLoop
    split
    · exact ih hts m hm
    · split
      · constructor
        · intro m' h; cases h; exact hm
        · intro m' h; cases h
      · rename_i raw hraw'
        split
        · constructor <;> (intro m' h; cases h)
        · rename_i m'' hj
          have hne : raw ≠ .null := by
            intro hr; subst hr; exact ht hraw'
          exact ih hts m'' (jsonUnmarshal_nonnil m m'' raw hne hj)

/-- `getConfig` has no reachable panic (`Template[0]` sits behind `len(Template) > 0`). -/
theorem getConfigFrom_ne_panic (init : GoMap) (tpls : List TestTpl) (o : Opts) :
    getConfigFrom init tpls o ≠ .panic := by
  unfold getConfigFrom
  split
  · simp
  · split <;> simp
  · split
    · split <;> try simp
      split <;> simp
    · split
      · rename_i hlen
        have hl : 0 < tpls.length := by simpa using hlen
        unfold idx
        rw [List.getElem?_eq_getElem hl]
        simp only [Outcome.bind]
        split
        · simp
        · split <;> simp
      · simp

/-- **The map `getConfig` returns without error is allocated** — provided it starts allocated (it
does: `config := map[string]any{}`) and no `Raw` is the literal `null`. -/
theorem getConfigFrom_ok_nonnil (init : GoMap) (hinit : init ≠ .nil) (tpls : List TestTpl)
    (hraw : NoNullRaw tpls) (o : Opts) (m : GoMap) (h : getConfigFrom init tpls o = .ok m) : m ≠ .nil := by
  unfold getConfigFrom at h
  split at h
  · cases h
  · split at h
    · cases h
    · rename_i m' hy
      cases h
      exact yamlUnmarshal_nonnil init m _ hinit hy
  · split at h
    · have hl := tcLoop_nonnil o.testcase tpls hraw init hinit
      split at h
      · rename_i m' hr; cases h; exact hl.1 m hr
      · cases h
      · rename_i m' hf
        split at h
        · cases h
        · cases h; exact hl.2 m hf
    · split at h
      · rename_i hlen
        have hl : 0 < tpls.length := by simpa using hlen
        unfold idx at h
        rw [List.getElem?_eq_getElem hl] at h
        simp only [Outcome.bind] at h
        have hmem : tpls[0] ∈ tpls := List.getElem_mem hl
        split at h
        · cases h; exact hinit
        · rename_i raw hc
          split at h
          · cases h
          · rename_i m' hj
            cases h
            have hne : raw ≠ .null := by
              intro hr; subst hr; exact hraw _ hmem hc
            exact jsonUnmarshal_nonnil init m raw hne hj
      · cases h; exact hinit

theorem getTemplateContext_ne_panic (tpls : List TestTpl) (o : Opts) :
    getTemplateContext tpls o ≠ .panic := by
  unfold getTemplateContext
  split
  · simp
  · split
    · rename_i hlen
      have hl : 0 < tpls.length := by simpa using hlen
      unfold idx
      rw [List.getElem?_eq_getElem hl]
      simp [Outcome.map]
    · simp

/-- Admission only panics on the nil map. -/
theorem admitConfig_ne_panic (m : GoMap) (hm : m ≠ .nil) (s : Schema) : admitConfig m s ≠ .panic := by
  cases m with
  | nil => exact absurd rfl hm
  | mk ks => cases s <;> simp [admitConfig]

theorem bind_ne_panic {α β} (x : Outcome α) (f : α → Outcome β) (hx : x ≠ .panic)
    (hf : ∀ a, x = .ok a → f a ≠ .panic) : x.bind f ≠ .panic := by
  cases x with
  | ok a => simpa [Outcome.bind] using hf a rfl
  | err => simp [Outcome.bind]
  | panic => exact absurd rfl hx

end Pko.Lemmas.C19Tree
