import Pko.Lemmas.C10Store
import Pko.Lemmas.Watch
namespace Pko.Props.C10
open Pko.Kube Pko.Model.Phase Pko.Model.ObjectSet Pko.Model.Converge

theorem sameObj_refl (r : ORef) : sameObj r r = true := by simp [sameObj]

theorem beforeWrite_store (w : World) (hq : w.env = []) : w.beforeWrite.store = w.store := by
  simp [World.beforeWrite, World.tick, hq]

theorem beforeWrite_env (w : World) : w.beforeWrite.env = w.env := by
  simp [World.beforeWrite, World.tick]

theorem apply_env (w : World) (k : Key) (a : Applied) : (w.apply k a).1.env = w.env := by
  simp [World.apply, World.log, beforeWrite_env]

theorem apply_store (w : World) (k : Key) (a : Applied) (hq : w.env = []) :
    (w.apply k a).1.store = (w.store.apply k a).1 ∧ (w.apply k a).2 = (w.store.apply k a).2.1 := by
  simp [World.apply, World.log, beforeWrite_store w hq]

/-- third parties are quiet during the pass: no operation is scheduled between PKO's writes. -/
def Quiet (w : World) : Prop := w.env = []

/-- the object step never changes the third-party schedule. -/
theorem reconcilePhaseObject_env (cfg : Cfg) (ow : Owner) (prev : List Prev) (p : PObj) (w : World) :
    (reconcilePhaseObject cfg ow prev p w).1.env = w.env := by
  simp only [reconcilePhaseObject_eq]
  split
  · rfl
  · split
    · split <;> rfl
    · simp only [reconcileObjectWith]
      split
      · simp [apply_env]
      · split
        · rfl
        · rfl
        · rfl
        · split
          · rfl
          · split
            · simp [apply_env]
            · rfl

/-- seen through the cache or, failing that, the API: an existing object is always found. -/
theorem seen_some (w : World) (k : Key) (o : Obj) (h : w.store.get k = some o) : seen w k = some o := by
  simp only [seen, cacheGet, h]
  split <;> simp_all

theorem seen_none (w : World) (k : Key) (h : w.store.get k = none) : seen w k = none := by
  simp [seen, cacheGet, h]

/-- precondition under which the step gets as far as looking at the object: the owner is not
paused and (native strategy) the object lives in the owner's namespace. -/
def Reaches (cfg : Cfg) (ow : Owner) (p : PObj) : Prop :=
  ow.paused = false ∧ ¬ (cfg.st = .native ∧ ow.ns ≠ "" ∧ desiredNs ow p ≠ ow.ns)

/-- **settled objects are fixpoints of the object step**: reconciling an object that already is
what the owner wants writes the desired state once more — a no-op for the store — and hands the
stored object to the prober.  (For every store: whatever else a crash or third party left behind.) -/
theorem object_fixpoint (cfg : Cfg) (ow : Owner) (prev : List Prev) (p : PObj) (w : World) (o : Obj)
    (hq : Quiet w) (hr : Reaches cfg ow p)
    (hg : w.store.get (keyOf cfg ow p) = some o) (ho : SettledObj cfg ow p o) :
    (reconcilePhaseObject cfg ow prev p w).1.store = w.store ∧
    ∃ o', (reconcilePhaseObject cfg ow prev p w).2 = .actual o' ∧ o' = o := by
  have hck : check cfg.st ow cfg.force o prev p.cp = .skip := by simp [check, ho.ctrl]
  simp only [reconcilePhaseObject_eq, hr.2, ↓reduceIte, hr.1, Bool.false_eq_true,
    seen_some w _ o hg, reconcileObjectWith, hck]
  simp only [reduceCtorEq, ↓reduceIte, ho.ctrl, watch_apply_store, watch_apply_snd, watch_store]
  have ha := apply_store w (keyOf cfg ow p) (appliedFor cfg ow p o.owners) hq
  rw [apply_settled cfg ow p w.store o hg ho] at ha
  exact ⟨ha.1, _, rfl, ha.2⟩

/-- **one object step repairs the object**: if the object is absent (never created, deleted by a
third party, not yet reached by a crashed pass) or controlled by the owner (with whatever drift
in payload, labels, recorded revision), then after the step it is settled, it is the object
handed to the prober, and no other key of the store was touched. -/
theorem object_repair (cfg : Cfg) (ow : Owner) (prev : List Prev) (p : PObj) (w : World)
    (hq : Quiet w) (hr : Reaches cfg ow p) (hm : Mine cfg ow p w.store) :
    Settled cfg ow p (reconcilePhaseObject cfg ow prev p w).1.store ∧
    (∃ o, (reconcilePhaseObject cfg ow prev p w).2 = .actual o ∧
          (reconcilePhaseObject cfg ow prev p w).1.store.get (keyOf cfg ow p) = some o) ∧
    ∀ k', k' ≠ keyOf cfg ow p → (reconcilePhaseObject cfg ow prev p w).1.store.get k' = w.store.get k' := by
  rcases hm with hnone | ⟨cur, hg, hctrl, huids, halive⟩
  · -- absent: create
    cases hst : cfg.st with
    | native =>
      have hns : ¬ (ow.ns ≠ "" ∧ desiredNs ow p ≠ ow.ns) := fun h => hr.2 ⟨hst, h⟩
      simp only [reconcilePhaseObject_eq, hst, true_and, hns, ↓reduceIte, hr.1, Bool.false_eq_true,
        seen_none w _ hnone, reconcileObjectWith, watch_apply_store, watch_apply_snd, watch_store]
      have ha := apply_store w (keyOf cfg ow p) (appliedFor cfg ow p [ow.ref true]) hq
      obtain ⟨h1, h2, h3, h4, h5, h6, h7, h8, h9⟩ := apply_none w.store (keyOf cfg ow p)
        (appliedFor cfg ow p [ow.ref true]) hnone
      rw [ha.1, ha.2]
      refine ⟨⟨_, h1, ?_⟩, ⟨_, rfl, h1⟩, h9⟩
      exact { ctrl := by
                simp only [isController, refs, hst]; rw [h2]; simp [appliedFor, sameObj_refl, Owner.ref]
              rev := by simpa [appliedFor] using h4
              payload := by simpa [appliedFor] using h7
              label := h5
              pkg := Or.inr (by simpa [appliedFor] using h6)
              ann := by intro h; simp [hst] at h
              uids := by simp only [UidsDistinct]; rw [h2]; simp [appliedFor]
              alive := h8 }
    | annotation =>
      simp only [reconcilePhaseObject_eq, hst, reduceCtorEq, false_and, ↓reduceIte, hr.1, Bool.false_eq_true,
        seen_none w _ hnone, reconcileObjectWith, watch_apply_store, watch_apply_snd, watch_store]
      have ha := apply_store w (keyOf cfg ow p) (appliedFor cfg ow p []) hq
      obtain ⟨h1, h2, h3, h4, h5, h6, h7, h8, h9⟩ := apply_none w.store (keyOf cfg ow p)
        (appliedFor cfg ow p []) hnone
      rw [ha.1, ha.2]
      refine ⟨⟨_, h1, ?_⟩, ⟨_, rfl, h1⟩, h9⟩
      have hann : (w.store.apply (keyOf cfg ow p) (appliedFor cfg ow p [])).2.1.annOwners = [ow.ref true] := by
        rw [h3]; simp [appliedFor, hst]
      exact { ctrl := by
                simp only [isController, refs, hst]; rw [hann]; simp [sameObj_refl, Owner.ref]
              rev := by simpa [appliedFor] using h4
              payload := by simpa [appliedFor] using h7
              label := h5
              pkg := Or.inr (by simpa [appliedFor] using h6)
              ann := by intro _; exact hann
              uids := by simp only [UidsDistinct]; rw [h2]; simp [appliedFor]
              alive := h8 }
  · -- present and ours: re-apply the desired state
    have hck : check cfg.st ow cfg.force cur prev p.cp = .skip := by simp [check, hctrl]
    simp only [reconcilePhaseObject_eq, hr.2, ↓reduceIte, hr.1, Bool.false_eq_true,
      seen_some w _ cur hg, reconcileObjectWith, hck]
    simp only [reduceCtorEq, ↓reduceIte, hctrl, watch_apply_store, watch_apply_snd, watch_store]
    have ha := apply_store w (keyOf cfg ow p) (appliedFor cfg ow p cur.owners) hq
    obtain ⟨h1, h2, h3, h4, h5, h6, h7, h8, _, _, h9⟩ := apply_some w.store (keyOf cfg ow p)
      (appliedFor cfg ow p cur.owners) cur hg halive
    rw [ha.1, ha.2]
    refine ⟨⟨_, h1, ?_⟩, ⟨_, rfl, h1⟩, h9⟩
    have hown : (w.store.apply (keyOf cfg ow p) (appliedFor cfg ow p cur.owners)).2.1.owners = cur.owners := by
      rw [h2]; simp only [appliedFor]; exact mergeOwners_self _ huids
    have hpkg : ow.pkgLabel = "" ∨
        (w.store.apply (keyOf cfg ow p) (appliedFor cfg ow p cur.owners)).2.1.pkgLabel = ow.pkgLabel := by
      by_cases h : ow.pkgLabel = ""
      · exact Or.inl h
      · right; rw [h6]; simp [appliedFor, h]
    cases hst : cfg.st with
    | native =>
      exact { ctrl := by
                simp only [isController, refs, hst] at hctrl ⊢
                rw [hown]; exact hctrl
              rev := by simpa [appliedFor] using h4
              payload := by simpa [appliedFor] using h7
              label := h5, pkg := hpkg
              ann := by intro h; simp [hst] at h
              uids := by rw [hown]; exact huids
              alive := h8 }
    | annotation =>
      have hann : (w.store.apply (keyOf cfg ow p) (appliedFor cfg ow p cur.owners)).2.1.annOwners = [ow.ref true] := by
        rw [h3]; simp [appliedFor, hst]
      exact { ctrl := by simp [isController, refs, hst, hann, sameObj_refl, Owner.ref]
              rev := by simpa [appliedFor] using h4
              payload := by simpa [appliedFor] using h7
              label := h5, pkg := hpkg
              ann := by intro _; exact hann
              uids := by rw [hown]; exact huids
              alive := h8 }

end Pko.Props.C10
