/-
C13: the whole pipeline equals the specification, for every iteration order and every order of
the file list.
-/
import Pko.Lemmas.C13Stages
namespace Pko.Lemmas.C13
open Pko.Model.Render Pko.Model.RenderSpec List

theorem parsed_eq (pkg : Pkg) : parsed pkg = parsedOf pkg (finalFiles pkg.files) := rfl
theorem filtered_eq (pkg : Pkg) : filtered pkg = filteredOf pkg (parsed pkg) := rfl
theorem specPhases_eq (pkg : Pkg) : specPhases pkg = specPhasesOf pkg.phases (survivors pkg) := rfl

theorem candidates_any (pkg : Pkg) :
    (candidates pkg).any (fun e => !e.2.ok) = (finalFiles pkg.files).any (fun e => cand e && !e.2.ok) := by
  simp only [candidates, any_filter]
  rfl

/-- Hypotheses on a package: `Files` is a map (paths distinct), no path contains a NUL character,
phase names are unique (checked by manifest validation). -/
structure WellFormed (pkg : Pkg) : Prop where
  paths_nodup : (pkg.files.map fun f => f.path).Nodup
  paths_nonul : ∀ f ∈ pkg.files, NoNul f.path
  phases_nodup : pkg.phases.Nodup

theorem render_eq_spec (σ : Oracle) (hσ : σ.Valid) (pkg : Pkg) (hw : WellFormed pkg)
    (files' : List File) (h : files' ~ pkg.files) :
    render σ { pkg with files := files' } = spec pkg := by
  have S1 := renderTemplates_spec σ hσ h hw.paths_nodup pkg.celCtxOk
  have hfn := keys_finalFiles_nodup hw.paths_nodup
  have hfz := keys_finalFiles_nonul hw.paths_nonul
  simp only [render, spec]
  rcases Bool.eq_false_or_eq_true pkg.celCtxOk with hctx | hctx
  case inr => rw [S1.1 hctx]; simp [mustFail, hctx]
  rcases Bool.eq_false_or_eq_true (pkg.files.any fun f => isTemplate f.path && !f.tmplParses) with hpar | hpar
  case inl => rw [S1.2.1 hctx hpar]; simp [mustFail, hctx, hpar]
  rcases Bool.eq_false_or_eq_true (pkg.files.any fun f => isTemplate f.path && !f.tmplExecs) with hex | hex
  case inl => rw [S1.2.2.1 hctx hpar hex]; simp [mustFail, hctx, hpar, hex]
  obtain ⟨fm, hfm, hfmp⟩ := S1.2.2.2 hctx hpar hex
  rw [hfm]
  have S2 := renderObjects_spec σ hσ { pkg with files := files' } hfmp hfn
  simp only [renderObjectsWithFilter]
  rcases Bool.eq_false_or_eq_true ((finalFiles pkg.files).any fun e => cand e && !e.2.ok) with hy | hy
  case inl =>
    rw [S2.1 hy]; simp [mustFail, hctx, hpar, hex, candidates_any, hy]
  rcases Bool.eq_false_or_eq_true
    (pkg.validate && !validateObjects pkg.phases (parsedOf pkg (finalFiles pkg.files))) with hv | hv
  case inl =>
    rw [S2.2.1 hy hv]
    simp only [mustFail, hctx, hpar, hex, candidates_any, hy, parsed_eq, hv]
    simp
  obtain ⟨po, hpo, hpop⟩ := S2.2.2 hy hv
  simp only [hpo]
  have hpn : ((parsedOf pkg (finalFiles pkg.files)).map fun e => e.1).Nodup :=
    (keys_parsedOf_sublist pkg _).nodup hfn
  have S3 := filterWithCEL_spec σ hσ { pkg with files := files' } hpop hpn hctx
  rcases Bool.eq_false_or_eq_true (pkg.cpaths.any fun cp => cp.res == 2) with hc | hc
  case inl =>
    rw [S3.1 hc]
    simp only [mustFail, hctx, hpar, hex, candidates_any, hy, parsed_eq, hv, hc]
    simp
  rcases Bool.eq_false_or_eq_true ((parsedOf pkg (finalFiles pkg.files)).any (entryBroken pkg)) with hb | hb
  case inl =>
    rw [S3.2.1 hc hb]
    simp only [mustFail, hctx, hpar, hex, candidates_any, hy, parsed_eq, hv, hc, hb]
    simp
  obtain ⟨po', hpo', hpop'⟩ := S3.2.2 hc hb
  simp only [hpo']
  have hfk := keys_filteredOf_sublist pkg (parsedOf pkg (finalFiles pkg.files))
  have S4 := concat_spec σ hσ hpop' (hfk.nodup hpn)
    (fun k hk => hfz k ((keys_parsedOf_sublist pkg _).subset (hfk.subset hk)))
  simp only [mustFail, hctx, hpar, hex, candidates_any, hy, parsed_eq, hv, hc, hb]
  simp only [Bool.not_true, Bool.false_eq_true, ↓reduceIte]
  rw [S4, collector_spec σ hσ pkg.phases hw.phases_nodup]
  rfl

end Pko.Lemmas.C13
