/-
C10, teardown at the controller level, part 4: the progress measure.  The number of phases in which
the ObjectSet still controls something drops by exactly one with every pass that does not finish
the teardown.  Core Lean only (classical decidability for the counting predicate).
-/
import Pko.Lemmas.C10TearIter

namespace Pko.Props.C10Lift
open Pko.Kube Pko.Model.Phase Pko.Model.ObjectSet Pko.Model.Status
open Pko.Props.C10 Pko.Props.C10Set

open Classical in
/-- the number of phases in which the owner still controls something. -/
noncomputable def pending (cfg : Cfg) (ow : Owner) (st : Store) (phs : List PhaseSpec) : Nat :=
  (phs.filter fun ph => decide (¬ PhaseReleased cfg ow st ph)).length

theorem pending_append (cfg : Cfg) (ow : Owner) (st : Store) (a b : List PhaseSpec) :
    pending cfg ow st (a ++ b) = pending cfg ow st a + pending cfg ow st b := by
  simp [pending, List.filter_append]

theorem pending_zero_of_released (cfg : Cfg) (ow : Owner) (st : Store) (phs : List PhaseSpec)
    (h : ∀ ph ∈ phs, PhaseReleased cfg ow st ph) : pending cfg ow st phs = 0 := by
  simp only [pending, List.length_eq_zero_iff, List.filter_eq_nil_iff]
  intro ph hph
  simp [h ph hph]

theorem pending_single (cfg : Cfg) (ow : Owner) (st : Store) (ph : PhaseSpec)
    (h : ¬ PhaseReleased cfg ow st ph) : pending cfg ow st [ph] = 1 := by
  simp [pending, h]

theorem pending_congr (cfg : Cfg) (ow : Owner) (st st' : Store) (phs : List PhaseSpec)
    (h : ∀ ph ∈ phs, (PhaseReleased cfg ow st' ph ↔ PhaseReleased cfg ow st ph)) :
    pending cfg ow st' phs = pending cfg ow st phs := by
  simp only [pending]
  congr 1
  apply List.filter_congr
  intro ph hph
  simp [h ph hph]

/-- **The progress measure of teardown**: a controller pass over an ObjectSet in teardown finishes
the teardown (and then nothing was pending), or the number of phases with something still under
the ObjectSet's control drops by exactly one. -/
theorem teardown_pass_pending (cfg : Cfg) (rm : Remotes) (name : String) (s : Sys) (mem : OSet)
    (hq : QuietSys s) (ht : TearSet cfg s name mem) :
    (Finished (reconcile cfg rm name s).1 name mem ∧ pending cfg mem.owner s.w.store mem.phases.reverse = 0) ∨
    pending cfg mem.owner (reconcile cfg rm name s).1.w.store mem.phases.reverse + 1 =
      pending cfg mem.owner s.w.store mem.phases.reverse := by
  obtain ⟨_, _, _, _, done, rest, hd, hrel, hframe, hout⟩ := teardown_pass cfg rm name s mem hq ht
  rcases hout with ⟨hr, hall, hfin⟩ | ⟨pre, ph, hd', hall, hnr, _⟩
  · left
    refine ⟨hfin, pending_zero_of_released _ _ _ _ ?_⟩
    rw [hd, hr, List.append_nil]; exact hall
  · right
    have hdist : (phaseKeys cfg mem.owner (done ++ rest)).Nodup := by
      rw [← hd]; exact ht.phases.reverse.distinct
    rw [phaseKeys_append, List.nodup_append] at hdist
    have hrest : ∀ x ∈ rest, (PhaseReleased cfg mem.owner (reconcile cfg rm name s).1.w.store x ↔
        PhaseReleased cfg mem.owner s.w.store x) := by
      intro x hx
      apply phaseReleased_congr
      intro p hp
      apply hframe
      intro hc
      exact hdist.2.2 _ hc _ (mem_phaseKeys hx hp) rfl
    rw [hd, hd', pending_append, pending_append, pending_append, pending_append,
      pending_congr _ _ _ _ rest hrest,
      pending_zero_of_released _ _ _ pre (fun x hx => hrel x (by rw [hd']; exact List.mem_append_left _ hx)),
      pending_zero_of_released _ _ _ [ph] (fun x hx => hrel x (by rw [hd']; exact List.mem_append_right _ hx)),
      pending_zero_of_released _ _ _ pre hall, pending_single _ _ _ _ hnr]
    omega

end Pko.Props.C10Lift
