/-
Helper lemmas for C20 about the broadcast loop of `handleResponse` (`ReqMgr.sends`).
-/
import Pko.Model.ReqMgr
namespace Pko.Lemmas.C20Sends
open Pko.Model.ReqMgr

/-- did the pull return a package (as opposed to an error)? -/
def isPkg : Result → Bool
  | .pkg _ => true
  | .err _ => false

theorem bump_ge (res : Result) (t : Nat) : t ≤ bump res t := by
  cases res <;> simp [bump]

theorem sendsEnd_ge (res : Result) (rs : List Recv) (t : Nat) : t ≤ sendsEnd res rs t := by
  induction rs generalizing t with
  | nil => simp [sendsEnd]
  | cons r rs ih => simp only [sendsEnd]; exact Nat.le_trans (bump_ge res t) (ih _)

/-- the loop sends to the registered receivers, in order, once each -/
theorem sends_fst (res : Result) (rs : List Recv) (t : Nat) : (sends res rs t).map (·.1) = rs := by
  induction rs generalizing t with
  | nil => simp [sends]
  | cons r rs ih => simp [sends, ih]

theorem sends_length (res : Result) (rs : List Recv) (t : Nat) : (sends res rs t).length = rs.length := by
  have := congrArg List.length (sends_fst res rs t); simpa using this

theorem mem_sends_fst {res : Result} {rs : List Recv} {t : Nat} {p : Recv × Response}
    (h : p ∈ sends res rs t) : p.1 ∈ rs := by
  have : p.1 ∈ (sends res rs t).map (·.1) := List.mem_map_of_mem h
  simpa [sends_fst] using this

/-- every response carries the pull's result -/
theorem sends_res {res : Result} {rs : List Recv} {t : Nat} {p : Recv × Response}
    (h : p ∈ sends res rs t) : p.2.res = res := by
  induction rs generalizing t with
  | nil => simp [sends] at h
  | cons r rs ih =>
    simp only [sends, List.mem_cons] at h
    rcases h with h | h
    · subst h; rfl
    · exact ih h

/-- a package result is never handed out as nil, an error never carries a package -/
theorem sends_copy_isSome {res : Result} {rs : List Recv} {t : Nat} {p : Recv × Response}
    (h : p ∈ sends res rs t) : p.2.copy.isSome = isPkg res := by
  induction rs generalizing t with
  | nil => simp [sends] at h
  | cons r rs ih =>
    simp only [sends, List.mem_cons] at h
    rcases h with h | h
    · subst h; cases res <;> simp [copyOf, isPkg]
    · exact ih h

/-- every copy made by the loop is a fresh object -/
theorem sends_tok_range {res : Result} {rs : List Recv} {t : Nat} {p : Recv × Response} {k : Nat}
    (h : p ∈ sends res rs t) (hk : p.2.copy = some k) : t ≤ k ∧ k < sendsEnd res rs t := by
  induction rs generalizing t with
  | nil => simp [sends] at h
  | cons r rs ih =>
    simp only [sends, List.mem_cons] at h
    rcases h with h | h
    · subst h
      cases res with
      | pkg c =>
        simp only [copyOf, Option.some.injEq] at hk; subst hk
        refine ⟨Nat.le_refl _, ?_⟩
        simp only [sendsEnd]
        exact Nat.lt_of_lt_of_le (by simp [bump]) (sendsEnd_ge _ _ _)
      | err e => simp [copyOf] at hk
    · have := ih h
      simp only [sendsEnd]
      exact ⟨Nat.le_trans (bump_ge res t) this.1, this.2⟩

/-- two responses of one broadcast that point to the same object are the same send -/
theorem sends_tok_inj {res : Result} {rs : List Recv} {t : Nat} (hnd : rs.Nodup)
    {p q : Recv × Response} {k : Nat}
    (hp : p ∈ sends res rs t) (hq : q ∈ sends res rs t)
    (hpk : p.2.copy = some k) (hqk : q.2.copy = some k) : p = q := by
  induction rs generalizing t with
  | nil => simp [sends] at hp
  | cons r rs ih =>
    have hnd' : rs.Nodup := (List.nodup_cons.mp hnd).2
    simp only [sends, List.mem_cons] at hp hq
    have headTok : ∀ {x : Recv × Response}, x = (r, { res := res, copy := copyOf res t }) → x.2.copy = some k → k = t ∧ t + 1 = (bump res t : Nat) := by
      intro x hx hxk; subst hx
      cases res with
      | pkg c => simp only [copyOf, Option.some.injEq] at hxk; exact ⟨hxk.symm, rfl⟩
      | err e => simp [copyOf] at hxk
    rcases hp with hp | hp <;> rcases hq with hq | hq
    · rw [hp, hq]
    · have h1 := headTok hp hpk
      have h2 := (sends_tok_range hq hqk).1
      omega
    · have h1 := headTok hq hqk
      have h2 := (sends_tok_range hp hpk).1
      omega
    · exact ih hnd' hp hq

/-- a receiver that is not registered is sent nothing -/
theorem filter_sends_not_mem {res : Result} {rs : List Recv} {t : Nat} {r : Recv} (h : r ∉ rs) :
    (sends res rs t).filter (fun p => p.1 = r) = [] := by
  rw [List.filter_eq_nil_iff]
  intro p hp
  have := mem_sends_fst hp
  simp only [decide_eq_true_eq]
  intro hpr; exact h (hpr ▸ this)

/-- a registered receiver is sent exactly one response, carrying the result -/
theorem filter_sends_mem {res : Result} {rs : List Recv} {t : Nat} {r : Recv}
    (hnd : rs.Nodup) (h : r ∈ rs) :
    ∃ c, (sends res rs t).filter (fun p => p.1 = r) = [(r, { res := res, copy := c })] := by
  induction rs generalizing t with
  | nil => simp at h
  | cons a rs ih =>
    have hnd' := List.nodup_cons.mp hnd
    simp only [sends]
    by_cases har : a = r
    · subst har
      refine ⟨copyOf res t, ?_⟩
      simp [filter_sends_not_mem hnd'.1]
    · have hr : r ∈ rs := by
        rcases List.mem_cons.mp h with h | h
        · exact absurd h.symm har
        · exact h
      obtain ⟨c, hc⟩ := ih (t := bump res t) hnd'.2 hr
      exact ⟨c, by simp [har, hc]⟩

/-- the copies made by one broadcast are pairwise different objects -/
theorem sends_toks_nodup (res : Result) (rs : List Recv) (t : Nat) :
    ((sends res rs t).filterMap (·.2.copy)).Nodup := by
  induction rs generalizing t with
  | nil => simp [sends]
  | cons r rs ih =>
    simp only [sends]
    cases res with
    | pkg c =>
      simp only [copyOf, List.filterMap_cons]
      rw [List.nodup_cons]
      refine ⟨?_, ih _⟩
      intro hm
      obtain ⟨p, hp, hk⟩ := List.mem_filterMap.mp hm
      have := (sends_tok_range hp hk).1
      simp only [bump] at this
      omega
    | err e => simpa [copyOf] using ih _

/-- responses whose package pointers are pairwise different: the harness' aliasing probe finds nothing -/
theorem aliasCount_eq_zero (l : List Response) (h : (l.filterMap (·.copy)).Nodup) : aliasCount l = 0 := by
  have hc : ∀ (l : List Response) (t : Tok),
      (l.filter fun b => b.copy = some t).length = (l.filterMap (·.copy)).count t := by
    intro l t
    induction l with
    | nil => simp
    | cons a l ih =>
      cases ha : a.copy with
      | none => simp [ha, ih]
      | some k =>
        by_cases hk : k = t
        · subst hk; simp [ha, ih]
        · simp [ha, ih, hk]
  unfold aliasCount
  rw [List.length_eq_zero_iff, List.filter_eq_nil_iff]
  intro a _
  cases ha : a.copy with
  | none => simp
  | some t =>
    have := List.nodup_iff_count.mp h t
    simp only [hc]
    simp; omega

/-- who returns with what, as observed: every registered receiver's caller, with the result -/
theorem sends_obs_returned (f : Recv → Caller) (res : Result) (rs : List Recv) (t : Nat) :
    (sends res rs t).map (fun p => (f p.1, p.2.res)) = rs.map (fun r => (f r, res)) := by
  induction rs generalizing t with
  | nil => simp [sends]
  | cons r rs ih => simp [sends, ih]

end Pko.Lemmas.C20Sends
