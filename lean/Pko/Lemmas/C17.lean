/-
Helper lemmas for property C17: the model of `pkg/probing` + `internal/probing.Parse`
(`Pko.Model.Probe`) computes exactly what the declarative specification (`Pko.Model.ProbeSpec`)
prescribes.  The property theorems proper are in `Pko.Props.C17`.
-/
import Pko.Model.Probe
import Pko.Model.ProbeSpec

namespace Pko.Lemmas.C17
open Pko.Model.Probe Pko.Model.ProbeSpec

/-- result of a single probe given its failure message, if any. -/
def ofFailure : Option String → Result
  | none => (true, [])
  | some m => (false, [m])

/-- result of a composite prober given the list of reported failures. -/
def ofList (l : List String) : Result := if l.length > 0 then (false, l) else (true, [])

/-- what `And` collects from one prober. -/
def contrib (obj : JVal) (p : Prober) : List String := if (p obj).1 then [] else (p obj).2

@[simp] theorem contrib_ofList (obj : JVal) (p : Prober) (l : List String) (h : p obj = ofList l) :
    contrib obj p = l := by
  unfold contrib; rw [h]; unfold ofList
  cases l <;> simp

theorem ofList_nil : ofList [] = (true, []) := by simp [ofList]

theorem ofList_fst (l : List String) : (ofList l).1 = l.isEmpty := by
  cases l <;> simp [ofList]

theorem ofList_snd (l : List String) : (ofList l).2 = l := by
  cases l <;> simp [ofList]

/-! ### And -/

theorem andLoop_eq (ps : List Prober) (obj : JVal) (acc : List String) :
    andLoop ps obj acc = acc ++ ps.flatMap (contrib obj) := by
  induction ps generalizing acc with
  | nil => simp [andLoop]
  | cons p ps ih =>
    simp only [andLoop, List.flatMap_cons, contrib]
    cases h : (p obj).1 <;> simp [ih]

theorem andProbe_eq (ps : List Prober) (obj : JVal) :
    andProbe ps obj = ofList (ps.flatMap (contrib obj)) := by
  simp [andProbe, andLoop_eq, ofList]

/-! ### leaf probes -/

theorem fieldIsStr_eq (k v : String) (kvs : List (String × JVal)) :
    fieldIsStr k v kvs = (strField k kvs == some v) := by
  unfold fieldIsStr strField
  cases lookupKey k kvs with
  | none => simp
  | some x => cases x <;> simp

theorem nestedInt64_eq (o : JVal) (p : List String) :
    nestedInt64 o p = declaredObservedGeneration o p := by
  unfold nestedInt64 declaredObservedGeneration
  cases nestedField o p with
  | found v => cases v <;> rfl
  | notFound => rfl
  | err => rfl

theorem condStale_eq (kvs : List (String × JVal)) (gen : Int) :
    condStale kvs gen =
      (declaredObservedGeneration (.obj kvs) ["observedGeneration"]).any (· != gen) := by
  unfold condStale; rw [nestedInt64_eq]
  cases declaredObservedGeneration (.obj kvs) ["observedGeneration"] with
  | none => simp
  | some g => by_cases hg : g = gen <;> simp [hg]

/-- the loop of `ConditionProbe.probe` decides on the first entry that is not a map of another type. -/
theorem condLoop_eq (t s : String) (gen : Int) (conds : List JVal) :
    condLoop t s gen conds =
      match conds.find? (fun c => !otherCondition t c) with
      | none => (false, "not reported")
      | some (.obj kvs) =>
        if (declaredObservedGeneration (.obj kvs) ["observedGeneration"]).any (· != gen)
        then (false, "outdated")
        else if strField "status" kvs == some s then (true, "") else (false, "wrong status")
      | some _ => (false, "malformed") := by
  induction conds with
  | nil => simp [condLoop]
  | cons c rest ih =>
    cases c with
    | obj kvs =>
      have ho : otherCondition t (JVal.obj kvs) = (strField "type" kvs != some t) := rfl
      simp only [condLoop, fieldIsStr_eq, condStale_eq, List.find?_cons, ho]
      cases hty : (strField "type" kvs == some t) <;> simp [bne, hty, ih]
    | null => simp [condLoop, show otherCondition t JVal.null = false from rfl]
    | bool b => simp [condLoop, show otherCondition t (JVal.bool b) = false from rfl]
    | int i => simp [condLoop, show otherCondition t (JVal.int i) = false from rfl]
    | float r => simp [condLoop, show otherCondition t (JVal.float r) = false from rfl]
    | str x => simp [condLoop, show otherCondition t (JVal.str x) = false from rfl]
    | arr xs => simp [condLoop, show otherCondition t (JVal.arr xs) = false from rfl]

theorem condition_eq (t s : String) (obj : JVal) :
    singleMsg (conditionProbeRaw t s obj) = ofFailure (conditionFailure t s obj) := by
  unfold conditionProbeRaw conditionFailure
  cases hn : nestedField obj ["status", "conditions"] with
  | err => simp [singleMsg, ofFailure]
  | notFound => simp [singleMsg, ofFailure]
  | found v =>
    cases v with
    | arr conds =>
      simp only [condLoop_eq]
      cases hf : conds.find? (fun c => !otherCondition t c) with
      | none => simp [singleMsg, ofFailure]
      | some c =>
        cases c with
        | obj kvs =>
          simp only
          split
          · simp [singleMsg, ofFailure]
          · split <;> simp [singleMsg, ofFailure]
        | _ => simp [singleMsg, ofFailure]
    | _ => simp [singleMsg, ofFailure]

theorem fieldsEqual_eq (a b : String) (obj : JVal) :
    singleMsg (fieldsEqualRaw a b obj) = ofFailure (fieldsEqualFailure a b obj) := by
  unfold fieldsEqualRaw fieldsEqualFailure fieldAt
  cases nestedField obj (splitPath a) with
  | found va =>
    cases nestedField obj (splitPath b) with
    | found vb => cases h : semEq va vb <;> simp [singleMsg, ofFailure, h]
    | notFound => simp [singleMsg, ofFailure]
    | err => simp [singleMsg, ofFailure]
  | notFound => simp [singleMsg, ofFailure]
  | err => simp [singleMsg, ofFailure]

theorem cel_eq (O : Oracle) (r m : String) (obj : JVal) :
    singleMsg (celRaw O r m obj) = ofFailure (celFailure O r m obj) := by
  unfold celRaw celFailure
  cases O.eval r obj with
  | err e => simp [singleMsg, ofFailure]
  | val b => cases b <;> simp [singleMsg, ofFailure]

/-- every leaf prober passes iff the spec says so and reports exactly the spec's message. -/
theorem leafProbe_eq (O : Oracle) (l : Leaf) (obj : JVal) :
    leafProbe O l obj = ofFailure (leafFailure O obj l) := by
  cases l with
  | fieldsEqual a b => exact fieldsEqual_eq a b obj
  | condition t s => exact condition_eq t s obj
  | cel r m => exact cel_eq O r m obj

theorem contrib_leaf (O : Oracle) (l : Leaf) (obj : JVal) :
    contrib obj (leafProbe O l) = (leafFailure O obj l).toList := by
  unfold contrib; rw [leafProbe_eq]
  cases leafFailure O obj l <;> simp [ofFailure]

theorem and_leafs_eq (O : Oracle) (ls : List Leaf) (obj : JVal) :
    andProbe (ls.map (leafProbe O)) obj = ofList (ls.filterMap (leafFailure O obj)) := by
  rw [andProbe_eq]; congr 1
  induction ls with
  | nil => rfl
  | cons l ls ih =>
    simp only [List.map_cons, List.flatMap_cons, contrib_leaf, ih, List.filterMap_cons]
    cases leafFailure O obj l <;> simp

/-! ### selectors -/

theorem labelsGet_eq (k : String) (ls : List (String × String)) : labelsGet k ls = ls.lookup k := by
  induction ls with
  | nil => rfl
  | cons p r ih =>
    obtain ⟨k', v⟩ := p
    simp only [labelsGet, List.lookup_cons, ih]
    by_cases h : k' = k
    · subst h; simp
    · have : (k == k') = false := by simp; exact fun e => h e.symm
      simp [h, this]

theorem hasValue_eq (v : String) (vals : List String) : hasValue v vals = vals.contains v := by
  induction vals with
  | nil => rfl
  | cons x xs ih =>
    simp only [hasValue, ih, List.contains_cons]
    by_cases h : x = v
    · subst h; simp
    · have : (v == x) = false := by simp; exact fun e => h e.symm
      simp [h, this]

theorem matchLabelsReqs_matches (ml : List (String × String)) (reqs : List Req)
    (ls : List (String × String)) (h : matchLabelsReqs ml = some reqs) :
    selectorMatches reqs ls = ml.all (fun p => ls.lookup p.1 == some p.2) := by
  induction ml generalizing reqs with
  | nil => simp [matchLabelsReqs] at h; subst h; rfl
  | cons p r ih =>
    obtain ⟨k, v⟩ := p
    simp only [matchLabelsReqs] at h
    split at h
    · cases hr : matchLabelsReqs r with
      | none => simp [hr] at h
      | some rs =>
        simp [hr] at h; subst h
        simp only [selectorMatches, Req.matches, labelsGet_eq, ih rs hr, List.all_cons]
        cases ls.lookup k with
        | none => simp
        | some v' =>
          simp only [hasValue]
          by_cases hv : v = v'
          · subst hv; simp
          · have : ¬ v' = v := fun e => hv e.symm
            simp [hv, this]
    · cases h

theorem parseOp_some (op : String) (o : SelOp) (h : parseOp op = some o) :
    (o = .in ∧ op = "In") ∨ (o = .notIn ∧ op = "NotIn") ∨ (o = .exists ∧ op = "Exists") ∨
      (o = .doesNotExist ∧ op = "DoesNotExist") := by
  unfold parseOp at h
  split at h <;> simp_all

theorem parseOp_none (op : String) (h : parseOp op = none) :
    op ≠ "In" ∧ op ≠ "NotIn" ∧ op ≠ "Exists" ∧ op ≠ "DoesNotExist" := by
  unfold parseOp at h
  split at h <;> simp_all

theorem req_matches_eq (e : MatchExpr) (o : SelOp) (q : Req) (ls : List (String × String))
    (ho : parseOp e.op = some o) (hq : newRequirement e.key o e.vals = some q) :
    q.matches ls = exprHolds ls e := by
  unfold newRequirement at hq
  split at hq
  · cases hq
    unfold Req.matches exprHolds
    rcases parseOp_some _ _ ho with ⟨h1, h2⟩ | ⟨h1, h2⟩ | ⟨h1, h2⟩ | ⟨h1, h2⟩ <;>
      subst h1 <;> simp only [h2, labelsGet_eq] <;> cases ls.lookup e.key <;>
      simp [hasValue_eq]
  · cases hq

theorem matchExprsReqs_matches (me : List MatchExpr) (reqs : List Req)
    (ls : List (String × String)) (h : matchExprsReqs me = some reqs) :
    selectorMatches reqs ls = me.all (exprHolds ls) := by
  induction me generalizing reqs with
  | nil => simp [matchExprsReqs] at h; subst h; rfl
  | cons e r ih =>
    simp only [matchExprsReqs] at h
    cases ho : parseOp e.op with
    | none => simp [ho] at h
    | some o =>
      cases hq : newRequirement e.key o e.vals with
      | none => simp [ho, hq] at h
      | some q =>
        cases hr : matchExprsReqs r with
        | none => simp [ho, hq, hr] at h
        | some rs =>
          simp [ho, hq, hr] at h; subst h
          simp only [selectorMatches, req_matches_eq e o q ls ho hq, ih rs hr, List.all_cons]
          cases exprHolds ls e <;> simp

theorem selectorMatches_append (a b : List Req) (ls : List (String × String)) :
    selectorMatches (a ++ b) ls = (selectorMatches a ls && selectorMatches b ls) := by
  induction a with
  | nil => simp [selectorMatches]
  | cons r rs ih => simp only [List.cons_append, selectorMatches, ih]; cases r.matches ls <;> simp

/-- a converted label selector matches exactly the label sets the LabelSelector describes. -/
theorem selector_matches_eq (s : LabelSel) (reqs : List Req) (ls : List (String × String))
    (h : labelSelectorAsSelector s = some reqs) :
    selectorMatches reqs ls = labelSelMatches s ls := by
  unfold labelSelectorAsSelector at h
  unfold labelSelMatches
  split at h
  · rename_i h0
    cases h
    have h1 : s.matchLabels = [] := List.eq_nil_of_length_eq_zero (by omega)
    have h2 : s.matchExprs = [] := List.eq_nil_of_length_eq_zero (by omega)
    simp [h1, h2, selectorMatches]
  · cases ha : matchLabelsReqs s.matchLabels with
    | none => simp [ha] at h
    | some a =>
      cases hb : matchExprsReqs s.matchExprs with
      | none => simp [ha, hb] at h
      | some b =>
        simp [ha, hb] at h; subst h
        rw [selectorMatches_append, matchLabelsReqs_matches _ _ _ ha, matchExprsReqs_matches _ _ _ hb]

theorem matchLabelsReqs_isSome (ml : List (String × String)) :
    (matchLabelsReqs ml).isSome = ml.all (fun p => validKey p.1 && validValue p.2) := by
  induction ml with
  | nil => rfl
  | cons p r ih =>
    obtain ⟨k, v⟩ := p
    simp only [matchLabelsReqs, List.all_cons]
    cases hk : (validKey k && validValue v)
    · simp
    · simp [← ih]

theorem exprValid_eq (e : MatchExpr) :
    exprValid e = (match parseOp e.op with
      | none => false
      | some o => (newRequirement e.key o e.vals).isSome) := by
  unfold exprValid
  cases ho : parseOp e.op with
  | none =>
    obtain ⟨h1, h2, h3, h4⟩ := parseOp_none _ ho
    simp [h1, h2, h3, h4]
  | some o =>
    rcases parseOp_some _ _ ho with ⟨h1, h2⟩ | ⟨h1, h2⟩ | ⟨h1, h2⟩ | ⟨h1, h2⟩ <;>
      subst h1 <;> simp only [h2, newRequirement, valueCountOk] <;>
      cases validKey e.key <;> cases hv : e.vals.all validValue <;> cases hl : e.vals <;>
      simp_all

theorem matchExprsReqs_isSome (me : List MatchExpr) :
    (matchExprsReqs me).isSome = me.all exprValid := by
  induction me with
  | nil => rfl
  | cons e r ih =>
    simp only [matchExprsReqs, List.all_cons, exprValid_eq e]
    cases parseOp e.op with
    | none => simp
    | some o =>
      dsimp only
      cases newRequirement e.key o e.vals with
      | none => simp
      | some q => simp [← ih]

/-- `LabelSelectorAsSelector` fails exactly on ill-formed selectors. -/
theorem labelSelectorAsSelector_isSome (s : LabelSel) :
    (labelSelectorAsSelector s).isSome = selectorValid s := by
  unfold labelSelectorAsSelector selectorValid
  rw [← matchLabelsReqs_isSome, ← matchExprsReqs_isSome]
  split
  · rename_i h0
    have h1 : s.matchLabels = [] := List.eq_nil_of_length_eq_zero (by omega)
    have h2 : s.matchExprs = [] := List.eq_nil_of_length_eq_zero (by omega)
    simp [h1, h2, matchLabelsReqs, matchExprsReqs]
  · cases matchLabelsReqs s.matchLabels <;> cases matchExprsReqs s.matchExprs <;> simp

/-! ### Parse -/

theorem obsGen_eq (p : Prober) (obj : JVal) :
    observedGenerationProbe p obj =
      if statusOutdated obj then (false, [".status outdated"]) else p obj := by
  unfold observedGenerationProbe statusOutdated
  rw [nestedInt64_eq]
  cases declaredObservedGeneration obj ["status", "observedGeneration"] with
  | none => simp
  | some g => by_cases h : g = generation obj <;> simp [h]

/-- `ParseProbes` builds one leaf prober per probe with a known config (in order), or fails with
the compile result of the first CEL rule that is not a boolean program. -/
theorem parseProbesLoop_spec (O : Oracle) (i : Nat) (cfgs : List ProbeCfg) :
    match parseProbesLoop O cfgs with
    | .ok ls => ls = cfgs.filterMap leafOf ∧ (cfgs.filterMap leafOf).findSome? (celError O i) = none
    | .error c => (cfgs.filterMap leafOf).findSome? (celError O i) =
        some (match c with | .notBool => .celType i | _ => .celOther i) := by
  induction cfgs with
  | nil => simp [parseProbesLoop]
  | cons c cs ih =>
    obtain ⟨cond, fe, cel⟩ := c
    cases fe with
    | some ab =>
      obtain ⟨a, b⟩ := ab
      simp only [parseProbesLoop, leafOf, List.filterMap_cons, List.findSome?_cons, celError]
      cases h : parseProbesLoop O cs with
      | ok ls => rw [h] at ih; simp [Except.map, ih.1, ih.2]
      | error e => rw [h] at ih; simp [Except.map, ih]
    | none =>
      cases cond with
      | some ts =>
        obtain ⟨t, s⟩ := ts
        simp only [parseProbesLoop, leafOf, List.filterMap_cons, List.findSome?_cons, celError]
        cases h : parseProbesLoop O cs with
        | ok ls => rw [h] at ih; simp [Except.map, ih.1, ih.2]
        | error e => rw [h] at ih; simp [Except.map, ih]
      | none =>
        cases cel with
        | some rm =>
          obtain ⟨r, m⟩ := rm
          simp only [parseProbesLoop, leafOf, List.filterMap_cons, List.findSome?_cons, celError]
          cases hc : O.compile r with
          | ok =>
            cases h : parseProbesLoop O cs with
            | ok ls => rw [h] at ih; simp [Except.map, ih.1, ih.2]
            | error e => rw [h] at ih; simp [Except.map, ih]
          | notBool => simp
          | error => simp
        | none =>
          simp only [parseProbesLoop, leafOf, List.filterMap_cons]
          exact ih

/-- One ObjectSetProbe: `Parse` rejects it iff the spec does (same reason), and otherwise builds a
prober reporting exactly the spec's failures for every object. -/
theorem parseOne_spec (O : Oracle) (i : Nat) (sp : Spec) :
    match parseOne O i sp with
    | .ok p => specError O i sp = none ∧ ∀ obj, p obj = ofList (specFailures O obj sp)
    | .error e => specError O i sp = some e := by
  have hp := parseProbesLoop_spec O i sp.probes
  unfold parseOne parseProbes
  cases hl : parseProbesLoop O sp.probes with
  | error c =>
    rw [hl] at hp
    cases c <;> simp [Except.map, specError, leafs, hp]
  | ok ls =>
    rw [hl] at hp
    obtain ⟨hls, hnone⟩ := hp
    simp only [Except.map, parseSelector]
    have hcore : ∀ obj, observedGenerationProbe (andProbe (ls.map (leafProbe O))) obj =
        ofList (if statusOutdated obj then [".status outdated"]
                else (leafs sp).filterMap (leafFailure O obj)) := by
      intro obj
      rw [obsGen_eq, and_leafs_eq, hls]
      split <;> first | rfl | simp [ofList, leafs]
    cases hsel : sp.selector with
    | none =>
      simp only [specError, leafs, hnone, hsel, true_and]
      intro obj
      cases hk : sp.kind with
      | none => simp [hcore, specFailures, selects, hk, hsel]
      | some gk =>
        obtain ⟨g, k⟩ := gk
        simp only [groupKindSelector, specFailures, selects, hk, hsel, Bool.and_true, hcore,
          decide_eq_true_eq]
        split <;> simp [ofList_nil]
    | some s =>
      have hv := labelSelectorAsSelector_isSome s
      cases hconv : labelSelectorAsSelector s with
      | none =>
        rw [hconv] at hv
        have : selectorValid s = false := by simpa using hv.symm
        simp [specError, leafs, hnone, hsel, this, hconv]
      | some reqs =>
        rw [hconv] at hv
        have : selectorValid s = true := by simpa using hv.symm
        simp only [specError, leafs, hnone, hsel, this, hconv, ↓reduceIte, true_and]
        intro obj
        have hm := selector_matches_eq s reqs (getLabels obj) hconv
        cases hk : sp.kind with
        | none =>
          simp only [labelSelector, hm, specFailures, selects, hk, hsel, Bool.true_and, hcore]
          cases labelSelMatches s (getLabels obj) <;> simp [ofList_nil]
        | some gk =>
          obtain ⟨g, k⟩ := gk
          simp only [labelSelector, groupKindSelector, hm, specFailures, selects, hk, hsel, hcore]
          cases labelSelMatches s (getLabels obj) <;> simp [ofList_nil]
          split <;> simp [ofList_nil]

theorem parseLoop_spec (O : Oracle) (i : Nat) (specs : List Spec) :
    match parseLoop O i specs with
    | .ok ps => firstError O i specs = none ∧
        ∀ obj, ps.flatMap (contrib obj) = specs.flatMap (specFailures O obj)
    | .error e => firstError O i specs = some e := by
  induction specs generalizing i with
  | nil => simp [parseLoop, firstError]
  | cons sp rest ih =>
    have h1 := parseOne_spec O i sp
    have h2 := ih (i + 1)
    simp only [parseLoop, firstError]
    cases hp : parseOne O i sp with
    | error e => rw [hp] at h1; simp [h1, Option.orElse]
    | ok p =>
      rw [hp] at h1
      cases hr : parseLoop O (i + 1) rest with
      | error e => rw [hr] at h2; simp [Except.map, h1.1, h2, Option.orElse]
      | ok ps =>
        rw [hr] at h2
        simp only [Except.map, h1.1, h2.1, Option.orElse, true_and]
        intro obj
        simp [List.flatMap_cons, h2.2 obj, contrib_ofList obj p _ (h1.2 obj)]

/-- **Model = specification.**  `Parse` rejects a probe list iff the spec does, for the same
reason; otherwise the prober it builds reports, for every object, exactly the spec's failures
(in order) and passes iff there are none. -/
theorem parse_spec (O : Oracle) (specs : List Spec) :
    match parse O specs with
    | .ok p => firstError O 0 specs = none ∧ ∀ obj, p obj = ofList (failures O specs obj)
    | .error e => firstError O 0 specs = some e := by
  have h := parseLoop_spec O 0 specs
  unfold parse
  cases hl : parseLoop O 0 specs with
  | error e => rw [hl] at h; simpa [Except.map] using h
  | ok ps =>
    rw [hl] at h
    simp only [Except.map, h.1, true_and]
    intro obj
    rw [andProbe_eq, h.2 obj]; rfl

end Pko.Lemmas.C17
