/-
C10 at the ObjectSet-controller level, part 1: the object loop of `reconcilePhaseObjs` (the loop
of `ReconcilePhase` that also returns the objects handed to the prober) from a repairable / a
settled store — exact shape of the returned probe failures and objects.  Core Lean only.
-/
import Pko.Props.C10
import Pko.Lemmas.ObjectSet

namespace Pko.Props.C10Set
open Pko.Kube Pko.Model.Phase Pko.Model.ObjectSet Pko.Model.Status
open Pko.Props.C10

/-- the parts of the world a pass over LOCAL phases never touches: the third-party schedule, the
delegated-phase objects and the collected remote phase references. -/
def Kept (w w' : World) : Prop :=
  w'.env = w.env ∧ w'.phases = w.phases ∧ w'.remoteRefs = w.remoteRefs

theorem Kept.refl (w : World) : Kept w w := ⟨rfl, rfl, rfl⟩

theorem Kept.trans {a b c : World} (h1 : Kept a b) (h2 : Kept b c) : Kept a c :=
  ⟨h2.1.trans h1.1, h2.2.1.trans h1.2.1, h2.2.2.trans h1.2.2⟩

theorem Kept.quiet {w w' : World} (h : Kept w w') (hq : Quiet w) : Quiet w' := by
  simp only [Quiet] at hq ⊢; rw [h.1]; exact hq

theorem apply_kept (w : World) (k : Key) (a : Applied) : Kept w (w.apply k a).1 := by
  simp [Kept, World.apply, World.log, World.beforeWrite, World.tick]

/-- registering a kind with the dynamic cache touches none of them. -/
theorem watch_kept (w : World) (ow : Owner) (k : String) : Kept w (w.watch ow k) := ⟨rfl, rfl, rfl⟩

/-- the object step never touches the schedule, the delegated phases or the remote references. -/
theorem reconcilePhaseObject_kept (cfg : Cfg) (ow : Owner) (prev : List Prev) (p : PObj) (w : World) :
    Kept w (reconcilePhaseObject cfg ow prev p w).1 := by
  have hk := watch_kept w ow p.kind
  simp only [reconcilePhaseObject_eq]
  split
  · exact Kept.refl w
  · split
    · split <;> exact hk
    · simp only [reconcileObjectWith]
      split
      · exact hk.trans (apply_kept _ _ _)
      · split
        · exact hk
        · exact hk
        · exact hk
        · split
          · exact hk
          · split
            · exact hk.trans (apply_kept _ _ _)
            · exact hk

/-- does the stored object of `p` pass the availability probe (absent = no). -/
def probePass (cfg : Cfg) (ow : Owner) (st : Store) (p : PObj) : Bool :=
  match st.get (keyOf cfg ow p) with
  | some o => probeOk o
  | none => false

/-- names of the objects of `ps` whose stored object fails the probe. -/
def probeFails (cfg : Cfg) (ow : Owner) (st : Store) (ps : List PObj) : List String :=
  (ps.filter fun p => !probePass cfg ow st p).map (·.name)

/-- the objects of `ps` as stored. -/
def storedObjs (cfg : Cfg) (ow : Owner) (st : Store) (ps : List PObj) : List (PObj × Obj) :=
  ps.filterMap fun p => (st.get (keyOf cfg ow p)).map fun o => (p, o)

/-- the `ControlledObjectReference` the ObjectSet reports for a phase object it controls. -/
def crefOf (cfg : Cfg) (ow : Owner) (p : PObj) : CRef := ⟨p.kind, (keyOf cfg ow p).ns, p.name⟩

theorem probePass_congr {cfg : Cfg} {ow : Owner} {p : PObj} {s s' : Store}
    (h : s'.get (keyOf cfg ow p) = s.get (keyOf cfg ow p)) : probePass cfg ow s' p = probePass cfg ow s p := by
  simp only [probePass, h]

theorem probeFails_congr {cfg : Cfg} {ow : Owner} {s s' : Store} (ps : List PObj)
    (h : ∀ p ∈ ps, s'.get (keyOf cfg ow p) = s.get (keyOf cfg ow p)) :
    probeFails cfg ow s' ps = probeFails cfg ow s ps := by
  simp only [probeFails]
  congr 1
  apply List.filter_congr
  intro p hp
  rw [probePass_congr (h p hp)]

theorem storedObjs_congr {cfg : Cfg} {ow : Owner} {s s' : Store} (ps : List PObj)
    (h : ∀ p ∈ ps, s'.get (keyOf cfg ow p) = s.get (keyOf cfg ow p)) :
    storedObjs cfg ow s' ps = storedObjs cfg ow s ps := by
  induction ps with
  | nil => rfl
  | cons p rest ih =>
    simp only [storedObjs, List.filterMap_cons] at ih ⊢
    rw [h p (by simp), ih (fun q hq => h q (by simp [hq]))]

theorem probeFails_nil_iff (cfg : Cfg) (ow : Owner) (st : Store) (ps : List PObj) :
    probeFails cfg ow st ps = [] ↔ ∀ p ∈ ps, probePass cfg ow st p = true := by
  simp only [probeFails, List.map_eq_nil_iff, List.filter_eq_nil_iff]
  constructor
  · intro h p hp
    have := h p hp
    simpa using this
  · intro h p hp
    simp [h p hp]

/-- every settled object is reported in `controllerOf`. -/
theorem controllerOfOf_settled (cfg : Cfg) (ow : Owner) (st : Store) (ps : List PObj)
    (hs : ∀ p ∈ ps, Settled cfg ow p st) :
    controllerOfOf cfg ow (storedObjs cfg ow st ps) = ps.map (crefOf cfg ow) := by
  induction ps with
  | nil => rfl
  | cons p rest ih =>
    obtain ⟨o, hg, ho⟩ := hs p (by simp)
    have ih' := ih (fun q hq => hs q (by simp [hq]))
    simp only [controllerOfOf, storedObjs, List.filterMap_cons, hg, Option.map_some, ho.ctrl, ↓reduceIte,
      List.map_cons] at ih' ⊢
    rw [ih']
    rfl

/-- **The object loop of the ObjectSet controller from a repairable store**: it runs to the end,
reports exactly the objects whose stored state fails the probe, returns exactly the stored
objects, leaves every object settled, and touches nothing outside the phase. -/
theorem objs_go_repair (cfg : Cfg) (ow : Owner) (prev : List Prev) :
    ∀ (ps : List PObj) (w : World) (failed : List String) (acc : List (PObj × Obj)),
      Quiet w → (∀ p ∈ ps, Reaches cfg ow p) → (ps.map (keyOf cfg ow)).Nodup →
      (∀ p ∈ ps, Mine cfg ow p w.store) →
      (reconcilePhaseObjs.go cfg ow prev ps w failed acc).2.1 =
        .ok (failed ++ probeFails cfg ow (reconcilePhaseObjs.go cfg ow prev ps w failed acc).1.store ps) ∧
      (reconcilePhaseObjs.go cfg ow prev ps w failed acc).2.2 =
        acc ++ storedObjs cfg ow (reconcilePhaseObjs.go cfg ow prev ps w failed acc).1.store ps ∧
      (∀ p ∈ ps, Settled cfg ow p (reconcilePhaseObjs.go cfg ow prev ps w failed acc).1.store) ∧
      Kept w (reconcilePhaseObjs.go cfg ow prev ps w failed acc).1 ∧
      ∀ k', k' ∉ ps.map (keyOf cfg ow) →
        (reconcilePhaseObjs.go cfg ow prev ps w failed acc).1.store.get k' = w.store.get k' := by
  intro ps
  induction ps with
  | nil =>
    intro w failed acc _ _ _ _
    simp only [reconcilePhaseObjs.go, probeFails, storedObjs, List.filter_nil, List.map_nil, List.append_nil,
      List.filterMap_nil]
    exact ⟨trivial, trivial, by simp, Kept.refl w, fun _ _ => trivial⟩
  | cons p rest ih =>
    intro w failed acc hq hr hk hm
    have hrp : Reaches cfg ow p := hr p (by simp)
    obtain ⟨hsett, ⟨o, hres, hgo⟩, hframe⟩ := object_repair cfg ow prev p w hq hrp (hm p (by simp))
    have hkept := reconcilePhaseObject_kept cfg ow prev p w
    simp only [List.map_cons, List.nodup_cons] at hk
    simp only [reconcilePhaseObjs.go]
    cases hstep : reconcilePhaseObject cfg ow prev p w with
    | mk w' res =>
      rw [hstep] at hsett hres hgo hframe hkept
      simp only at hsett hres hgo hframe hkept
      subst hres
      simp only
      have hq' : Quiet w' := hkept.quiet hq
      have hm' : ∀ q ∈ rest, Mine cfg ow q w'.store := by
        intro q hq2
        have hne : keyOf cfg ow q ≠ keyOf cfg ow p := by
          intro he; exact hk.1 (he ▸ List.mem_map.2 ⟨q, hq2, rfl⟩)
        exact mine_congr (hframe _ hne) (hm q (by simp [hq2]))
      obtain ⟨hout, hobjs, hall, hkp, hfr⟩ := ih w' (if probeOk o then failed else failed ++ [p.name])
        (acc ++ [(p, o)]) hq' (fun q hq2 => hr q (by simp [hq2])) hk.2 hm'
      -- the object stored for `p` is still `o` at the end of the loop
      have hfin := (hfr _ hk.1).trans hgo
      refine ⟨?_, ?_, ?_, hkept.trans hkp, ?_⟩
      · rw [hout]
        simp only [probeFails, List.filter_cons, probePass, hfin]
        cases probeOk o <;> simp
      · rw [hobjs]
        simp only [storedObjs, List.filterMap_cons, hfin, Option.map_some, List.append_assoc, List.singleton_append]
      · intro q hq2
        rcases List.mem_cons.1 hq2 with rfl | hq3
        · exact settled_congr (hfr _ hk.1) hsett
        · exact hall q hq3
      · intro k' hk'
        simp only [List.map_cons, List.mem_cons, not_or] at hk'
        rw [hfr k' hk'.2, hframe k' hk'.1]

/-- **… and from a settled store** the loop additionally leaves the store as it is. -/
theorem objs_go_fixpoint (cfg : Cfg) (ow : Owner) (prev : List Prev)
    (ps : List PObj) (w : World) (failed : List String) (acc : List (PObj × Obj))
    (hq : Quiet w) (hr : ∀ p ∈ ps, Reaches cfg ow p) (hk : (ps.map (keyOf cfg ow)).Nodup)
    (hs : ∀ p ∈ ps, Settled cfg ow p w.store) :
    (reconcilePhaseObjs.go cfg ow prev ps w failed acc).1.store = w.store ∧
    (reconcilePhaseObjs.go cfg ow prev ps w failed acc).2.1 = .ok (failed ++ probeFails cfg ow w.store ps) ∧
    (reconcilePhaseObjs.go cfg ow prev ps w failed acc).2.2 = acc ++ storedObjs cfg ow w.store ps ∧
    Kept w (reconcilePhaseObjs.go cfg ow prev ps w failed acc).1 := by
  have hst : (reconcilePhaseObjs.go cfg ow prev ps w failed acc).1.store = w.store := by
    rw [(Pko.Lemmas.ObjectSet.go_agree cfg ow prev ps w failed acc).1]
    exact (go_fixpoint cfg ow prev ps w failed hq hr hs).1
  obtain ⟨h1, h2, _, h4, _⟩ := objs_go_repair cfg ow prev ps w failed acc hq hr hk
    (fun p hp => settled_mine (hs p hp))
  rw [hst] at h1 h2
  exact ⟨hst, h1, h2, h4⟩

/-- `reconcilePhaseObjs` of a local phase whose preflight checks pass, from a repairable store. -/
theorem objs_repair (cfg : Cfg) (ow : Owner) (prev : List Prev) (ps : List PObj) (w : World)
    (hq : Quiet w) (hpf : preflightPhase cfg ow "" ps = .ok) (hr : ∀ p ∈ ps, Reaches cfg ow p)
    (hk : (ps.map (keyOf cfg ow)).Nodup) (hm : ∀ p ∈ ps, Mine cfg ow p w.store) :
    ∃ w', reconcilePhaseObjs cfg ow prev ps w =
        (w', .ok (probeFails cfg ow w'.store ps), storedObjs cfg ow w'.store ps) ∧
      (∀ p ∈ ps, Settled cfg ow p w'.store) ∧ Kept w w' ∧
      ∀ k', k' ∉ ps.map (keyOf cfg ow) → w'.store.get k' = w.store.get k' := by
  obtain ⟨h1, h2, h3, h4, h5⟩ := objs_go_repair cfg ow prev ps w [] [] hq hr hk hm
  refine ⟨(reconcilePhaseObjs.go cfg ow prev ps w [] []).1, ?_, h3, h4, h5⟩
  simp only [reconcilePhaseObjs, hpf]
  simp only [List.nil_append] at h1 h2
  exact Prod.ext rfl (Prod.ext h1 h2)

/-- … and from a settled store. -/
theorem objs_fixpoint (cfg : Cfg) (ow : Owner) (prev : List Prev) (ps : List PObj) (w : World)
    (hq : Quiet w) (hpf : preflightPhase cfg ow "" ps = .ok) (hr : ∀ p ∈ ps, Reaches cfg ow p)
    (hk : (ps.map (keyOf cfg ow)).Nodup) (hs : ∀ p ∈ ps, Settled cfg ow p w.store) :
    ∃ w', reconcilePhaseObjs cfg ow prev ps w =
        (w', .ok (probeFails cfg ow w.store ps), storedObjs cfg ow w.store ps) ∧
      w'.store = w.store ∧ Kept w w' := by
  obtain ⟨h0, h1, h2, h4⟩ := objs_go_fixpoint cfg ow prev ps w [] [] hq hr hk hs
  refine ⟨(reconcilePhaseObjs.go cfg ow prev ps w [] []).1, ?_, h0, h4⟩
  simp only [reconcilePhaseObjs, hpf]
  simp only [List.nil_append] at h1 h2
  exact Prod.ext rfl (Prod.ext h1 h2)

end Pko.Props.C10Set
