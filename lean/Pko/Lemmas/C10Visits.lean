import Pko.Lemmas.C10Phase
import Pko.Props.C01
namespace Pko.Props.C10
open Pko.Kube Pko.Model.Phase Pko.Model.ObjectSet Pko.Model.Converge
open Pko.Props.C01 (visits)

/-- Every world in which the loop visits an object — i.e. every state between two writes of the
pass, every point at which a crash can cut the pass off — is still repairable. -/
theorem visits_repairable (cfg : Cfg) (ow : Owner) (prev : List Prev) :
    ∀ (ps : List PObj) (w : World),
      Quiet w → (∀ p ∈ ps, Reaches cfg ow p) → (ps.map (keyOf cfg ow)).Nodup →
      ∀ (extra : List PObj), (∀ q ∈ ps ++ extra, Mine cfg ow q w.store) →
      (∀ q ∈ extra, keyOf cfg ow q ∉ ps.map (keyOf cfg ow)) →
      ∀ pw ∈ visits cfg ow prev ps w, ∀ q ∈ ps ++ extra, Mine cfg ow q pw.2.store := by
  intro ps
  induction ps with
  | nil => intro w _ _ _ extra _ _ pw hpw; simp [visits] at hpw
  | cons p rest ih =>
    intro w hq hr hk extra hm hex pw hpw q hq2
    simp only [visits, List.mem_cons] at hpw
    rcases hpw with rfl | hpw
    · exact hm q hq2
    · obtain ⟨hsett, ⟨o, hres, _⟩, hframe⟩ := object_repair cfg ow prev p w hq (hr p (by simp)) (hm p (by simp))
      have henv := reconcilePhaseObject_env cfg ow prev p w
      simp only [List.map_cons, List.nodup_cons] at hk
      cases hstep : reconcilePhaseObject cfg ow prev p w with
      | mk w' res =>
        rw [hstep] at hsett hres hframe henv hpw
        simp only at hsett hres hframe henv hpw
        subst hres
        simp only at hpw
        have hq' : Quiet w' := by simp only [Quiet] at hq ⊢; rw [henv]; exact hq
        -- p moves to the `extra` objects: settled, hence repairable, and not among the rest
        have hm' : ∀ x ∈ rest ++ (p :: extra), Mine cfg ow x w'.store := by
          intro x hx
          rcases List.mem_append.1 hx with hx | hx
          · have hne : keyOf cfg ow x ≠ keyOf cfg ow p := by
              intro he; exact hk.1 (he ▸ List.mem_map.2 ⟨x, hx, rfl⟩)
            exact mine_congr (hframe _ hne) (hm x (by simp [hx]))
          · rcases List.mem_cons.1 hx with rfl | hx
            · exact settled_mine hsett
            · by_cases he : keyOf cfg ow x = keyOf cfg ow p
              · have hp : Mine cfg ow p w'.store := settled_mine hsett
                simpa only [Mine, he] using hp
              · exact mine_congr (hframe _ he) (hm x (by simp [hx]))
        have hex' : ∀ x ∈ p :: extra, keyOf cfg ow x ∉ rest.map (keyOf cfg ow) := by
          intro x hx
          rcases List.mem_cons.1 hx with rfl | hx
          · exact hk.1
          · intro hc; exact hex x hx (by simp [hc])
        have := ih w' hq' (fun x hx => hr x (by simp [hx])) hk.2 (p :: extra) hm' hex' pw hpw q
          (by
            rcases List.mem_append.1 hq2 with h | h
            · rcases List.mem_cons.1 h with rfl | h
              · simp
              · simp [h]
            · simp [h])
        exact this

end Pko.Props.C10
