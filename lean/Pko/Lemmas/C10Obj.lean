import Pko.Lemmas.C10Base
namespace Pko.Props.C10
open Pko.Kube Pko.Model.Phase Pko.Model.ObjectSet Pko.Model.Converge

/-- The stored object is exactly what the owner wants it to be: it is its controller, records its
revision, carries the desired payload and the labels PKO manages, and is not being deleted. -/
structure SettledObj (cfg : Cfg) (ow : Owner) (p : PObj) (o : Obj) : Prop where
  ctrl : isController cfg.st (ow.ref true) o = true
  rev : o.rev = .num ow.rev
  payload : o.payload = p.payload
  label : o.cacheLabel = true
  pkg : ow.pkgLabel = "" ∨ o.pkgLabel = ow.pkgLabel
  ann : cfg.st = .annotation → o.annOwners = [ow.ref true]
  uids : UidsDistinct o.owners
  alive : o.deleting = false

def Settled (cfg : Cfg) (ow : Owner) (p : PObj) (s : Store) : Prop :=
  ∃ o, s.get (keyOf cfg ow p) = some o ∧ SettledObj cfg ow p o

/-- *Repairable*: the object is absent, or the owner controls it (whatever else drifted). -/
def Mine (cfg : Cfg) (ow : Owner) (p : PObj) (s : Store) : Prop :=
  s.get (keyOf cfg ow p) = none ∨
  ∃ o, s.get (keyOf cfg ow p) = some o ∧ isController cfg.st (ow.ref true) o = true ∧
       UidsDistinct o.owners ∧ o.deleting = false

theorem settled_mine {cfg ow p s} (h : Settled cfg ow p s) : Mine cfg ow p s := by
  obtain ⟨o, hg, ho⟩ := h
  exact Or.inr ⟨o, hg, ho.ctrl, ho.uids, ho.alive⟩

theorem commit_same (s : Store) (k : Key) (prev next : Obj) (hd : prev.deleting = false)
    (h : ({ next with uid := prev.uid, deleting := prev.deleting, gen := prev.gen, rv := prev.rv } : Obj) = prev) :
    commit s k prev next = (s, prev) := by
  simp only [commit, hd, Bool.false_and, Bool.false_eq_true, ↓reduceIte]
  rw [hd] at h
  simp [h]

/-- the server-side apply of the desired state onto a settled object is a no-op. -/
theorem apply_settled (cfg : Cfg) (ow : Owner) (p : PObj) (s : Store) (o : Obj)
    (hg : s.get (keyOf cfg ow p) = some o) (ho : SettledObj cfg ow p o) :
    s.apply (keyOf cfg ow p) (appliedFor cfg ow p o.owners) = (s, o, false) := by
  have h1 := mergeOwners_self o.owners ho.uids
  have h2 : (appliedFor cfg ow p o.owners).annOwners.getD o.annOwners = o.annOwners := by
    simp only [appliedFor]
    cases hst : cfg.st with
    | native => simp
    | annotation => simp [ho.ann hst]
  have h3 : (if ow.pkgLabel = "" then o.pkgLabel else ow.pkgLabel) = o.pkgLabel := by
    rcases ho.pkg with h | h
    · simp [h]
    · split <;> simp [h]
  have hr := ho.rev
  have hp := ho.payload
  have hl := ho.label
  simp only [Store.apply, hg]
  rw [commit_same _ _ _ _ ho.alive]
  simp only [appliedFor] at h2 ⊢
  obtain ⟨uid, rv, gen, owners, annOwners, rev', cl, pl, pay, rdy, og, fin, del⟩ := o
  simp_all
  by_cases h : ow.pkgLabel = ""
  · simp [h]
  · simp [h, h3 h]

end Pko.Props.C10
