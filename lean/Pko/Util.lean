/-
Shared helpers for the line-protocol drivers (core Lean only, no Mathlib).
A driver is `main : List String → IO UInt32` that reads one scenario per stdin
line (JSON) and prints exactly one canonical result line per scenario.
-/
import Lean.Data.Json

namespace Pko.Util
open Lean

/-- Read stdin line by line, apply `f`, print one line per input line. -/
partial def runLines (f : String → String) : IO Unit := do
  let stdin ← IO.getStdin
  let stdout ← IO.getStdout
  let rec loop : IO Unit := do
    let line ← stdin.getLine
    if line.isEmpty then return ()
    let l := (line.dropEndWhile (fun c => c == '\n' || c == '\r')).toString
    stdout.putStrLn (f l)
    loop
  loop
  stdout.flush

/-- Parse a JSON line into `α`, or return an error string. -/
def parseLine (α : Type) [FromJson α] (line : String) : Except String α := do
  let j ← Json.parse line
  fromJson? j

/-- Standard driver main: `model` maps scenario → output line;
`monitor` maps (scenario, implementation output line) → "ok" | "bad <why>".
In monitor mode each stdin line is `<scenario-json>\t<impl-output>`. -/
def driverMain (α : Type) [FromJson α]
    (model : α → String) (monitor : α → String → String) (args : List String) : IO UInt32 := do
  match args with
  | ["model"] =>
    runLines fun l => match parseLine α l with
      | .ok s => model s
      | .error e => "PARSE-ERROR " ++ e
    return 0
  | ["monitor"] =>
    runLines fun l =>
      match l.splitOn "\t" with
      | [scn, out] => match parseLine α scn with
        | .ok s => monitor s out
        | .error e => "PARSE-ERROR " ++ e
      | _ => "PARSE-ERROR expected <scenario>\\t<impl-output>"
    return 0
  | _ =>
    IO.eprintln "usage: drv model|monitor < lines"
    return 2

def joinWith (sep : String) (xs : List String) : String := sep.intercalate xs

end Pko.Util
