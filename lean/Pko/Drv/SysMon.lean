import Pko.Drv.SysCommon
import Pko.Drv.C02Judge
/-! Property monitors for the controller-level ("sys") stream.

Each monitor walks the schedule.  The state BEFORE a step is obtained by running the model on the
preceding steps — which is the implementation's state as long as the implementation's outputs
for those steps equal the model's; the walk therefore stops after the first step whose
implementation output differs from the model's.  The step itself is judged by necessary
conditions of the property evaluated on that pre-state and on the IMPLEMENTATION's events. -/
namespace Pko.Drv.SysMon
open Pko.Kube Pko.Model.Phase Pko.Model.ObjectSet Pko.Model.Status Pko.Drv.PhaseCommon Pko.Drv.SysCommon

structure StepOut where
  res : String
  events : List String        -- managed-object events
  setEvents : List String
  phaseEvents : List String   -- writes on ObjectSetPhase objects

def parseStep (tok : String) : Option StepOut :=
  if !tok.startsWith "R " then none
  else match tok.splitOn " | " with
    | [a, b, c, d] => some { res := (a.drop 2).toString, events := (if b.isEmpty then [] else b.splitOn ";"),
                             setEvents := (if c.isEmpty then [] else c.splitOn ";"),
                             phaseEvents := (if d.isEmpty then [] else d.splitOn ";") }
    | _ => none

/-- conditions of an `S` event as (type, status, reason, obsGen, msg) -/
def sConds (ev : String) : List (String × String × String × String × String) :=
  match ev.splitOn "conds=[" with
  | _ :: rest :: _ =>
    let inner := (rest.splitOn "]").headD ""
    if inner.isEmpty then [] else (inner.splitOn ",").map fun c =>
      match c.splitOn "=" with
      | [t, r] => match r.splitOn "/" with
        | [s, rs, g] => (t, s, rs, g, "")
        | [s, rs, g, m] => (t, s, rs, g, m)
        | _ => (t, r, "", "", "")
      | _ => (c, "", "", "", "")
  | _ => []

def sCo (ev : String) : List String :=
  match ev.splitOn "co=[" with
  | _ :: rest :: _ => let inner := (rest.splitOn "]").headD ""; if inner.isEmpty then [] else inner.splitOn ","
  | _ => []

/-- status.remotePhases of an `S` event on an ObjectSet, as `name:uid` strings. -/
def sRp (ev : String) : List String :=
  match ev.splitOn "rp=[" with
  | _ :: rest :: _ => let inner := (rest.splitOn "]").headD ""; if inner.isEmpty then [] else inner.splitOn ","
  | _ => []

def sName (ev : String) : String := (ev.splitOn " ").getD 1 ""

def sOk (ev : String) : Bool := ev.startsWith "S " && ((ev.splitOn " ").getD 2 "") == "ok"

def hasCond (cs : List (String × String × String × String × String)) (t s : String) : Bool :=
  cs.any fun c => c.1 == t && c.2.1 == s

/-- facts about one phase object in the pre-state -/
structure ObjFacts where
  p : PObj
  key : Key
  cur : Option Obj
  controlled : Bool      -- the owner is its controller AND the object is one the owner may touch
                         -- (C11: a namespaced owner never touches other namespaces / cluster-scoped
                         -- kinds, an API that no longer exists cannot be touched) — such objects are
                         -- deliberately left alone by teardown
  passing : Bool         -- cannot fail for sure: see `sureFail`

/-- An object that fails the availability probe in the pre-state AND cannot be made passing by
anything PKO writes in the pass: PKO never writes status; a patch can only raise
metadata.generation (so a status that lags behind keeps lagging; one that is AHEAD may catch up). -/
def sureFail (c : Obj) : Bool :=
  !c.ready || (match c.obsGen with | some g => decide (g < c.gen) | none => false)

/-- facts about the objects of the LOCAL phases (objects of a delegated phase are the phase
object's business: they are controlled by it, not by the ObjectSet). -/
def factsOf (cfg : Cfg) (o : OSet) (s : Sys) : List (Nat × ObjFacts) :=
  o.phases.zipIdx.flatMap fun (ph, i) => (if ph.cls = "" then ph.objs else []).map fun p =>
    let k := keyOf cfg o.owner p
    let cur := s.w.store.get k
    (i, { p := p, key := k, cur := cur,
          controlled := (match cur with | some c => isController cfg.st (o.owner.ref true) c | none => false) &&
            cfg.scope p.kind != .unknown &&
            (o.ns == "" || (desiredNs o.owner p == o.ns && cfg.scope p.kind == .namespaced)),
          passing := match cur with | some c => !sureFail c | none => false })

def phaseIdxOfKey (fs : List (Nat × ObjFacts)) (ks : String) : Option Nat :=
  (fs.find? fun f => keyStr f.2.key == ks).map (·.1)

/-- does the step schedule any third-party interference? (then only the trace diff judges it) -/
def quiet (st : JStep) : Bool := (st.env.getD []).isEmpty && (st.setEnv.getD []).isEmpty

inductive Which where
  | c02 | c03 | c04 | c05 | c06 | c09 | c11 | c15
  deriving DecidableEq

/-- C11 on the controller-level stream: a namespaced ObjectSet / same-cluster ObjectSetPhase never
writes outside its namespace or to cluster-scoped kinds (any step, rollout and teardown). -/
def judgeNs (scn : SysCommon.Scn) (out : StepOut) : Option String := Id.run do
  if scn.cluster then return none
  for e in out.events do
    match (eventKey e).splitOn "/" with
    | [kind, ns, _] => if ns != "ns1" || scopeOf kind != .namespaced then return some s!"bad write-outside-owner-namespace {e}"
    | _ => return some s!"bad unparsable-event {e}"
  return none

/-- C05 for a pass of the ObjectSetPhase controller: deletes only what the phase object controls. -/
def judgePhaseDeletes (scn : SysCommon.Scn) (cfg : Cfg) (st : JStep) (pre : Sys) (out : StepOut) : Option String := Id.run do
  let some p := pre.w.phases st.set | return none
  if !quiet st then return none
  let ow := Pko.Model.Remote.phaseOwner p (setKindOf scn) (nsOf scn)
  for e in out.events do
    if eventVerb e == "D" then
      match p.objs.find? (fun o => keyStr (keyOf cfg ow o) == eventKey e) with
      | none => return some s!"bad delete-of-unlisted-object {e}"
      | some o =>
        match pre.w.store.get (keyOf cfg ow o) with
        | some c => if !isController cfg.st (ow.ref true) c then return some s!"bad delete-of-uncontrolled-object {e}"
        | none => return some s!"bad delete-of-absent-object {e}"
  return none

/-- C02 for a pass of the ObjectSetPhase controller. -/
def judgePhaseRevisions (scn : SysCommon.Scn) (cfg : Cfg) (st : JStep) (pre : Sys) (out : StepOut) : Option String := Id.run do
  let some p := pre.w.phases st.set | return none
  if !quiet st then return none
  let ow := Pko.Model.Remote.phaseOwner p (setKindOf scn) (nsOf scn)
  let keys := p.objs.map (keyOf cfg ow)
  if keys.eraseDups.length != keys.length then return none
  for e in out.events do
    if eventVerb e == "A" then
      match p.objs.find? (fun o => keyStr (keyOf cfg ow o) == eventKey e) with
      | none => pure ()
      | some o =>
        match Pko.Drv.C02Judge.judgeApply cfg.st ow (some ow.rev) (pre.w.store.get (keyOf cfg ow o)) e with
        | some b => return some b
        | none => pure ()
  return none

/-- C15 for a pass of the ObjectSetPhase controller on phase object `name`. -/
def judgePhaseStep (scn : SysCommon.Scn) (cfg : Cfg) (st : JStep) (pre : Sys) (out : StepOut) : Option String := Id.run do
  let name := st.set
  let some p := pre.w.phases name | return none
  let ow := Pko.Model.Remote.phaseOwner p (setKindOf scn) (nsOf scn)
  let keys := p.objs.map fun o => keyStr (keyOf cfg ow o)
  for e in out.events do
    if !keys.contains (eventKey e) then return some s!"bad phase-writes-unlisted-object {e}"
    if p.paused && !p.deleting then return some s!"bad phase-write-while-paused {e}"
    if !p.deleting && eventVerb e != "A" then return some s!"bad non-apply-write-in-phase-rollout {e}"
  match judgeNs scn out with
  | some b => return some b
  | none => pure ()
  -- (a deleting phase re-writes its last recorded conditions unchanged: not a claim about this pass)
  -- (third-party operations inside the step: only the trace diff judges it)
  for se in (if p.deleting || !quiet st then [] else out.phaseEvents) do
    if sOk se && hasCond (sConds se) "Available" "True" then
      for o in p.objs do
        match pre.w.store.get (keyOf cfg ow o) with
        | none => return some s!"bad phase-available-with-absent-object {o.name}"
        | some c => if sureFail c then return some s!"bad phase-available-with-failing-object {o.name}"
  return none


/-- The ObjectSet as the property sees it: every phase lists its inline objects AND the objects of
every ObjectSlice that ever belonged to it in the spec — whether or not the slice still exists. -/
def fullSpec (scn : SysCommon.Scn) (o : OSet) : OSet :=
  let extra := sliceObjs scn o.name
  if extra.all (·.isEmpty) then o
  else { o with phases := o.phases.zipIdx.map fun (ph, i) => { ph with objs := ph.objs ++ extra.getD i [] } }

def judge (which : Which) (scn : SysCommon.Scn) (cfg : Cfg) (st : JStep) (pre : Sys) (out : StepOut) : Option String := Id.run do
  let some o := (pre.sets st.set).map (fullSpec scn) | return none
  let fs := factsOf cfg o pre
  let archivedDone := condTrue o.conds "Archived"
  let tearing := o.deleting || o.lifecycle == .archived
  let dupKeys := (fs.map (·.2.key)).eraseDups.length != fs.length
  match which with
  | .c11 => return judgeNs scn out
  | .c02 =>
    -- every apply of the pass, judged against the object's state before the pass
    if !quiet st || dupKeys then return none
    for e in out.events do
      if eventVerb e == "A" then
        match fs.find? (fun f => keyStr f.2.key == eventKey e) with
        | none => pure ()
        | some f =>
          -- the revision may be assigned in this very pass: only a revision known before the pass is compared
          let ownRev := if o.revision == 0 then none else some o.revision
          match Pko.Drv.C02Judge.judgeApply cfg.st o.owner ownRev f.2.cur e with
          | some b => return some b
          | none => pure ()
    return none
  | .c05 =>
    -- controller level: every delete hits an object the ObjectSet controlled before the pass, an
    -- orphaned ObjectSet deletes nothing (neither objects nor its delegated phase objects)
    if !quiet st then return none
    if o.finOrphan && tearing then
      match out.events.find? (fun e => eventVerb e == "D" || eventVerb e == "M") with
      | some e => return some s!"bad write-during-orphan-teardown {e}"
      | none => pure ()
      match out.phaseEvents.find? (fun pe => pe.startsWith "X ") with
      | some pe => return some s!"bad delegated-phase-deleted-during-orphan-teardown {pe}"
      | none => pure ()
    for e in out.events do
      if eventVerb e == "D" then
        match fs.find? (fun f => keyStr f.2.key == eventKey e) with
        | none => return some s!"bad delete-of-unlisted-object {e}"
        | some f => if !f.2.controlled then return some s!"bad delete-of-uncontrolled-object {e}"
    return none
  | .c15 =>
    let delegated := o.phases.filter (·.cls != "")
    for pe in out.phaseEvents do
      let toks := pe.splitOn " "
      let verb := toks.getD 0 ""
      let nm := ((toks.getD 1 "").splitOn "/").getLastD ""
      if verb == "C" then
        if !(delegated.any fun ph => o.name ++ "-" ++ ph.name == nm) then return some s!"bad phase-object-for-undelegated-phase {pe}"
        if (pre.w.phases nm).isSome then return some s!"bad phase-object-recreated {pe}"
        if (out.phaseEvents.filter (· == pe)).length > 1 then return some s!"bad phase-object-created-twice {pe}"
      if verb == "X" && !tearing then return some s!"bad phase-object-deleted-during-rollout {pe}"
    for se in out.setEvents do
      if sOk se && hasCond (sConds se) "Available" "True" && quiet st then
        for ph in delegated do
          match pre.w.phases (o.name ++ "-" ++ ph.name) with
          | none => return some s!"bad available-without-phase-object {ph.name}"
          | some po =>
            if po.paused != (o.lifecycle == .paused) then return some s!"bad available-trusted-across-pause-flip {po.name}"
            match findCond po.conds "Available" with
            | some c => if c.status != "True" || c.obsGen != po.gen then return some s!"bad available-trusts-stale-or-failing-phase-report {po.name}"
            | none => return some s!"bad available-without-phase-report {po.name}"
    -- the pass that creates a phase object reports it: from that moment the phase controller rolls the
    -- phase's objects out under the phase object's control, and the NEXT revision can only take them
    -- over if status.remotePhases of this revision names the phase object (an in-process phase's
    -- objects are controlled by the ObjectSet itself and need no such entry)
    if quiet st then
      for pe in out.phaseEvents do
        let toks := pe.splitOn " "
        if toks.getD 0 "" == "C" && toks.getD 2 "" == "ok" then
          let nm := ((toks.getD 1 "").splitOn "/").getLastD ""
          if !(out.setEvents.any fun se => sOk se && sName se == o.name && (sRp se).any (·.startsWith (nm ++ ":"))) then
            return some s!"bad created-phase-object-not-reported {nm} (no status update of this pass lists it in remotePhases)"
    -- "realised through exactly one ObjectSetPhase that … exists from rollout until teardown" is what
    -- adoption decisions of the NEXT revision rest on (`isControlledByPreviousRevision` reads
    -- status.remotePhases of the previous revision): a status update never drops a phase object that
    -- the ObjectSet reported before, that still exists under the same uid and that it still controls
    -- – whichever phase the pass stopped at, whichever path (probe failure, preflight / collision
    -- error, pause, archival in progress) wrote the status.
    for se in out.setEvents do
      if sOk se && sName se == o.name then
        let rp := sRp se
        for r in o.remotePhases do
          match pre.w.phases r.1 with
          | some po =>
            if po.uid == r.2 && po.ctrlName == o.name && po.ctrlUID == o.uid && !rp.contains s!"{r.1}:{r.2}" then
              return some s!"bad live-phase-object-dropped-from-remotePhases {r.1} (exists, controlled by {o.name}, was reported before; status now lists [{",".intercalate rp}])"
          | none => pure ()
    return none
  | .c03 =>
    if tearing || archivedDone || !quiet st || dupKeys then return none
    -- first phase holding an object that is absent or failing in the pre-state
    -- a delegated phase counts as failing unless its phase object exists, needs no pause flip and
    -- reports Available=True for its current generation
    let delegatedFailing := o.phases.zipIdx.filterMap fun (ph, i) =>
      if ph.cls == "" then none
      else match pre.w.phases (o.name ++ "-" ++ ph.name) with
        | none => some i
        | some po =>
          let ok := po.paused == (o.lifecycle == .paused) &&
            (match findCond po.conds "Available" with | some c => c.status == "True" && c.obsGen == po.gen | none => false)
          if ok then none else some i
    let failing := (fs.filter fun f => !f.2.passing).map (·.1) ++ delegatedFailing
    let firstFail := failing.foldl (fun (m : Option Nat) i => match m with | none => some i | some j => some (min i j)) none
    for e in out.events do
      if eventVerb e == "A" then
        match phaseIdxOfKey fs (eventKey e), firstFail with
        | some j, some f => if j > f then return some s!"bad write-in-phase-after-failing-phase {e} failing-phase-index={f}"
        | _, _ => pure ()
    for se in out.setEvents do
      if sOk se then
        let cs := sConds se
        match cs.find? (fun c => c.1 == "Available" && c.2.2.1 == "ProbeFailure") with
        | some c =>
          let named := (o.phases.zipIdx.find? fun (ph, _) => ph.name == c.2.2.2.2).map (·.2)
          match named, firstFail with
          | some n, some f => if n > f then return some s!"bad named-phase-after-first-failing named={c.2.2.2.2} first={f}"
          | some _, none => pure ()
          | none, _ => return some s!"bad unknown-phase-named {c.2.2.2.2}"
          -- no write beyond the named phase
          match named with
          | some n =>
            for e in out.events do
              match phaseIdxOfKey fs (eventKey e) with
              | some j => if j > n then return some s!"bad write-after-named-failing-phase {e}"
              | none => pure ()
          | none => pure ()
        | none =>
          if hasCond cs "Available" "True" then
            match firstFail with
            | some f => return some s!"bad available-true-with-failing-object phase-index={f}"
            | none => pure ()
    return none
  | .c04 =>
    if !tearing || archivedDone || !quiet st || dupKeys then return none
    if o.finOrphan then
      if !out.events.isEmpty then return some s!"bad write-during-orphan-teardown {out.events.headD ""}"
      match out.phaseEvents.find? (fun pe => pe.startsWith "X ") with
      | some pe => return some s!"bad delegated-phase-deleted-during-orphan-teardown {pe}"
      | none => pure ()
      return none
    for e in out.events do
      if eventVerb e == "A" then return some s!"bad apply-during-teardown {e}"
      if eventVerb e == "D" then
        match phaseIdxOfKey fs (eventKey e) with
        | none => return some s!"bad delete-of-unlisted-object {e}"
        | some k =>
          -- every object of a LATER phase must be gone or not controlled by us any more
          match fs.find? (fun f => f.1 > k && f.2.controlled) with
          | some f => return some s!"bad delete-before-later-phase-gone {e} still-controlled={keyStr f.2.key}"
          | none => pure ()
    let released := out.setEvents.any (fun se => se.startsWith s!"F {o.name} - ok") ||
      out.setEvents.any (fun se => sOk se && hasCond (sConds se) "Archived" "True")
    -- (an ObjectSet without the cached finalizer never rolled anything out; a third party stripping
    -- the finalizer is outside the property)
    if released && o.finCached then
      match fs.find? (fun f => f.2.controlled) with
      | some f => return some s!"bad released-while-still-controlling {keyStr f.2.key}"
      | none => pure ()
      -- delegated phases: the phase object (if it is ours) must be gone
      for ph in o.phases do
        if ph.cls != "" then
          match pre.w.phases (o.name ++ "-" ++ ph.name) with
          | some po => if po.ctrlName == o.name && po.ctrlUID == o.uid then
              return some s!"bad released-while-delegated-phase-exists {po.name}"
          | none => pure ()
    else if o.finCached then
      -- not released: the finalizer must not have been dropped, Archived must not be True
      if o.lifecycle == .archived && !(out.setEvents.any fun se => sOk se && hasCond (sConds se) "Archived" "False") && out.res == "ok" then
        return some "bad archival-in-progress-not-reported"
    return none
  | .c06 =>
    if archivedDone then
      if !out.events.isEmpty || !out.setEvents.isEmpty then return some "bad reconciled-after-archival-completed"
      return none
    for se in out.setEvents do
      if sOk se then
        let cs := sConds se
        let co := sCo se
        if hasCond cs "Archived" "True" then
          if cs.any (fun c => c.1 == "Available") then return some "bad archived-with-available-condition"
          if !co.isEmpty then return some "bad archived-with-controllerOf"
        if quiet st && !tearing && !dupKeys then
          -- Succeeded is never withdrawn
          if condTrue o.conds "Succeeded" && !hasCond cs "Succeeded" "True" then return some "bad succeeded-withdrawn"
          if hasCond cs "Available" "True" then
            match cs.find? (fun c => c.1 == "Available") with
            | some c => if c.2.2.2.1 != toString o.gen then return some s!"bad available-for-wrong-generation obsGen={c.2.2.2.1} gen={o.gen}"
            | none => pure ()
            match fs.find? (fun f => !f.2.passing) with
            | some f => return some s!"bad available-true-unjustified {keyStr f.2.key}"
            | none => pure ()
            -- complete: every listed object the ObjectSet controls (PKO never gives up control during a
            -- rollout pass, so controlled-before implies controlled-after) is reported
            for f in fs do
              if f.2.controlled && !co.contains (keyStr f.2.key) then
                return some s!"bad controllerOf-incomplete-while-available {keyStr f.2.key}"
          -- (documented reading) the error paths PreflightError / CollisionDetected write Available=False
          -- and carry the previously recorded controllerOf over unchanged; the soundness clause of the
          -- property is tied to passes that derive their status from the phases
          let errorPath := cs.any fun c => c.1 == "Available" && (c.2.2.1 == "PreflightError" || c.2.2.1 == "CollisionDetected")
          for c in (if errorPath then [] else co) do
            match fs.find? (fun f => keyStr f.2.key == c) with
            | none =>
              -- relayed from a delegated phase: must be in that phase object's reported controllerOf
              let relayed := o.phases.any fun ph => ph.cls != "" &&
                (match pre.w.phases (o.name ++ "-" ++ ph.name) with
                 | some po => po.controllerOf.any fun r => crefStr r == c
                 | none => false)
              if !relayed then return some s!"bad controllerOf-lists-unlisted-object {c}"
            | some f =>
              if !f.2.controlled && !(out.events.any fun e => eventVerb e == "A" && eventKey e == c) then
                return some s!"bad controllerOf-entry-not-observed {c}"
          if hasCond cs "Succeeded" "True" && !condTrue o.conds "Succeeded" then
            if !hasCond cs "Available" "True" || hasCond cs "InTransition" "True" then
              return some "bad succeeded-set-while-unavailable-or-in-transition"
          if !hasCond cs "InTransition" "True" && (cs.any fun c => c.1 == "Available" && c.2.2.1 != "PreflightError" && c.2.2.1 != "CollisionDetected") && o.lifecycle != .archived then
            for f in fs do
              if !co.contains (keyStr f.2.key) then return some s!"bad inTransition-cleared-with-uncontrolled-object {keyStr f.2.key}"
    return none
  | .c09 =>
    if o.lifecycle != .paused || tearing || archivedDone || !(st.setEnv.getD []).isEmpty then return none
    if !out.events.isEmpty then return some s!"bad write-while-paused {out.events.headD ""}"
    if out.res == "ok" && !dupKeys then
      match out.setEvents.reverse.find? sOk with      -- the final status update of the pass
      | none => return some "bad paused-status-not-reported"
      | some se =>
        let cs := sConds se
        let delegated := o.phases.any (·.cls != "")
        -- with delegated phases Paused=True additionally waits for every phase object to confirm
        if !hasCond cs "Paused" "True" && !(delegated && hasCond cs "Paused" "Unknown") then
          return some "bad paused-condition-missing"
        if !(cs.any fun c => c.1 == "Available") then return some "bad available-not-reported-while-paused"
    return none

/-- walk the schedule; `implToks` are the implementation's per-step output tokens. -/
def monitor (which : Which) (s : SysCommon.Scn) (out : String) : String := Id.run do
  let toks := out.splitOn " ## "
  let steps := s.steps.getD []
  if toks.length < steps.length then return s!"bad unparsable-output tokens={toks.length} steps={steps.length}"
  let cfg := SysCommon.cfgOf s
  let mut sys := initSys s
  let mut i := 0
  for (st, tok) in steps.zip toks do
    let (sys', mtok) := stepModel s cfg st sys
    if st.op == "reconcile" then
      match parseStep tok with
      | none => return s!"bad unparsable-step {i} {tok.take 40}"
      | some so =>
        match judge which s cfg st sys so with
        | some b => return s!"{b} step={i}"
        | none => pure ()
    if st.op == "phase" && (which == .c15 || which == .c11 || which == .c05 || which == .c02) then
      match parseStep tok with
      | none => return s!"bad unparsable-step {i} {tok.take 40}"
      | some so =>
        let r := if which == .c11 then judgeNs s so
                 else if which == .c02 then judgePhaseRevisions s (phaseCfgOf s) st sys so
                 else if which == .c05 then judgePhaseDeletes s (phaseCfgOf s) st sys so
                 else judgePhaseStep s (phaseCfgOf s) st sys so
        match r with
        | some b => return s!"{b} step={i}"
        | none => pure ()
    if mtok != tok then return "ok"      -- diverged: later pre-states are not the implementation's
    sys := sys'
    i := i + 1
  return "ok"

end Pko.Drv.SysMon
