import Pko.Drv.SysCommon
import Pko.Drv.C02Judge
/-! Property monitors for the controller-level ("sys") stream.

Each monitor walks the schedule.  The state BEFORE a step is obtained by running the model on the
preceding steps — which is the implementation's state as long as the implementation's outputs
for those steps equal the model's; the walk therefore stops after the first step whose
implementation output differs from the model's.  The step itself is judged by necessary
conditions of the property evaluated on that pre-state and on the IMPLEMENTATION's events. -/
namespace Pko.Drv.SysMon
open Pko.Kube Pko.Model.Phase Pko.Model.ObjectSet Pko.Model.Status Pko.Drv.PhaseCommon Pko.Drv.SysCommon

structure StepOut where
  res : String
  events : List String        -- managed-object events
  setEvents : List String
  phaseEvents : List String   -- writes on ObjectSetPhase objects

def parseStep (tok : String) : Option StepOut :=
  if !tok.startsWith "R " then none
  else match tok.splitOn " | " with
    | [a, b, c, d] => some { res := (a.drop 2).toString, events := (if b.isEmpty then [] else b.splitOn ";"),
                             setEvents := (if c.isEmpty then [] else c.splitOn ";"),
                             phaseEvents := (if d.isEmpty then [] else d.splitOn ";") }
    | _ => none

/-- conditions of an `S` event as (type, status, reason, obsGen, msg) -/
def sConds (ev : String) : List (String × String × String × String × String) :=
  match ev.splitOn "conds=[" with
  | _ :: rest :: _ =>
    let inner := (rest.splitOn "]").headD ""
    if inner.isEmpty then [] else (inner.splitOn ",").map fun c =>
      match c.splitOn "=" with
      | [t, r] => match r.splitOn "/" with
        | [s, rs, g] => (t, s, rs, g, "")
        | [s, rs, g, m] => (t, s, rs, g, m)
        | _ => (t, r, "", "", "")
      | _ => (c, "", "", "", "")
  | _ => []

def sCo (ev : String) : List String :=
  match ev.splitOn "co=[" with
  | _ :: rest :: _ => let inner := (rest.splitOn "]").headD ""; if inner.isEmpty then [] else inner.splitOn ","
  | _ => []

/-- status.remotePhases of an `S` event on an ObjectSet, as `name:uid` strings. -/
def sRp (ev : String) : List String :=
  match ev.splitOn "rp=[" with
  | _ :: rest :: _ => let inner := (rest.splitOn "]").headD ""; if inner.isEmpty then [] else inner.splitOn ","
  | _ => []

def sName (ev : String) : String := (ev.splitOn " ").getD 1 ""

def sOk (ev : String) : Bool := ev.startsWith "S " && ((ev.splitOn " ").getD 2 "") == "ok"

def hasCond (cs : List (String × String × String × String × String)) (t s : String) : Bool :=
  cs.any fun c => c.1 == t && c.2.1 == s

/-- facts about one phase object in the pre-state -/
structure ObjFacts where
  p : PObj
  key : Key
  cur : Option Obj
  controlled : Bool      -- the owner is its controller AND the object is one the owner may touch
                         -- (C11: a namespaced owner never touches other namespaces / cluster-scoped
                         -- kinds, an API that no longer exists cannot be touched) — such objects are
                         -- deliberately left alone by teardown
  passing : Bool         -- cannot fail for sure: see `sureFail`

/-- An object that fails the availability probe in the pre-state AND cannot be made passing by
anything PKO writes in the pass: PKO never writes status; a patch can only raise
metadata.generation (so a status that lags behind keeps lagging; one that is AHEAD may catch up). -/
def sureFail (c : Obj) : Bool :=
  !c.ready || (match c.obsGen with | some g => decide (g < c.gen) | none => false)

/-- facts about the objects of the LOCAL phases (objects of a delegated phase are the phase
object's business: they are controlled by it, not by the ObjectSet). -/
def factsOf (cfg : Cfg) (o : OSet) (s : Sys) : List (Nat × ObjFacts) :=
  o.phases.zipIdx.flatMap fun (ph, i) => (if ph.cls = "" then ph.objs else []).map fun p =>
    let k := keyOf cfg o.owner p
    let cur := s.w.store.get k
    (i, { p := p, key := k, cur := cur,
          controlled := (match cur with | some c => isController cfg.st (o.owner.ref true) c | none => false) &&
            cfg.scope p.kind != .unknown &&
            (o.ns == "" || (desiredNs o.owner p == o.ns && cfg.scope p.kind == .namespaced)),
          passing := match cur with | some c => !sureFail c | none => false })

def phaseIdxOfKey (fs : List (Nat × ObjFacts)) (ks : String) : Option Nat :=
  (fs.find? fun f => keyStr f.2.key == ks).map (·.1)

/-- Third-party operations that leave an object where it is and under the controller it has: writes
to its status, payload, annotations or labels.  Everything else a third party can do inside a pass
(re-owning, deleting, re-creating, releasing the finalizer of an object in deletion) may end the
owner's control over it. -/
def keepsControl (op : String) : Bool :=
  op == "setReady" || op == "setPayload" || op == "setRev" || op == "relabel"

/-- No third-party operation scheduled INSIDE the step can have taken the object under `k` away or
out of the owner's control (the namespace is not compared: third parties address cluster-scoped
kinds with or without one).  Together with "controlled in the pre-state" this is a fact about
every instant of the pass in which PKO's own delete of the object has not gone through: a refused
write (`wfault`) has no effect, third-party edits of the ObjectSet do not touch managed objects. -/
def undisturbed (st : JStep) (k : Key) : Bool :=
  !((st.env.getD []).any fun e => e.kind == k.kind && e.name == k.name && !keepsControl e.op)

/-- does the step schedule any third-party interference? (then only the trace diff judges it) -/
def quiet (st : JStep) : Bool := (st.env.getD []).isEmpty && (st.setEnv.getD []).isEmpty && st.wfault.isNone

/-- a write on a managed object that the API refused: `A` / `M` events carry `!<class>`, a `D` event
a result other than `ok` / `NotFound` (gone already: nothing to do). -/
def refusedWrite (e : String) : Bool :=
  let toks := e.splitOn " "
  match toks.getD 0 "" with
  | "A" => (toks.getD 2 "").startsWith "!"
  | "M" => (toks.getD 2 "").startsWith "!"
  | "D" => toks.getLastD "" != "ok" && toks.getLastD "" != "NotFound"
  | _ => false

/-- the ObjectSet lists the same object twice: same group (one in the harness universe), kind,
namespace and name — whatever API version each entry is written in. -/
def listsObjectTwice (o : OSet) : Bool :=
  let ids := (o.phases.flatMap (·.objs)).map fun p => (p.kind, p.ns, p.name)
  ids.eraseDups.length != ids.length

inductive Which where
  | c02 | c03 | c04 | c05 | c06 | c09 | c11 | c15
  | c01     -- (S1B) collision protection on the controller-level stream
  deriving DecidableEq

/-- C11 on the controller-level stream: a namespaced ObjectSet / same-cluster ObjectSetPhase never
writes outside its namespace or to cluster-scoped kinds (any step, rollout and teardown). -/
def judgeNs (scn : SysCommon.Scn) (out : StepOut) (scope : String → Scope := scopeOf) : Option String := Id.run do
  if scn.cluster then return none
  for e in out.events do
    match (eventKey e).splitOn "/" with
    | [kind, ns, _] => if ns != "ns1" || scope kind != .namespaced then return some s!"bad write-outside-owner-namespace {e}"
    | _ => return some s!"bad unparsable-event {e}"
  return none

/-- C05 for a pass of the ObjectSetPhase controller: deletes only what the phase object controls. -/
def judgePhaseDeletes (scn : SysCommon.Scn) (cfg : Cfg) (st : JStep) (pre : Sys) (out : StepOut) : Option String := Id.run do
  let some p := pre.w.phases st.set | return none
  -- (S1B) a phase object that is being deleted with orphan propagation (the API server put the
  -- "orphan" finalizer on it) deletes nothing at all and de-references nothing — whatever third
  -- parties do to the managed objects meanwhile (they cannot take the finalizer away in this step)
  if p.deleting && p.finOrphan then
    match out.events.find? (fun e => eventVerb e == "D" || eventVerb e == "M") with
    | some e => return some s!"bad write-during-orphan-teardown-of-phase-object {e} ({p.name} carries the orphan finalizer)"
    | none => pure ()
  if !quiet st then return none
  let ow := Pko.Model.Remote.phaseOwner p (setKindOf scn) (nsOf scn)
  for e in out.events do
    if eventVerb e == "D" then
      match p.objs.find? (fun o => keyStr (keyOf cfg ow o) == eventKey e) with
      | none => return some s!"bad delete-of-unlisted-object {e}"
      | some o =>
        match pre.w.store.get (keyOf cfg ow o) with
        | some c => if !isController cfg.st (ow.ref true) c then return some s!"bad delete-of-uncontrolled-object {e}"
        | none => return some s!"bad delete-of-absent-object {e}"
  return none

/-- C04 for a pass of the ObjectSetPhase controller on a phase object in deletion.  The ObjectSet
takes the 404 of the phase object as the confirmation that the objects of the delegated phase are
gone (`objectSetRemotePhaseReconciler.Teardown`), and the phase object goes when its finalizer
does: so the finalizer is released only when no object the phase lists is still controlled by the
phase object — judged, as for the ObjectSet, on the implementation's events against the facts of the
pre-state that nothing inside the step can have changed. -/
def judgePhaseTeardown (scn : SysCommon.Scn) (cfg : Cfg) (st : JStep) (pre : Sys) (out : StepOut) : Option String := Id.run do
  let some p := pre.w.phases st.set | return none
  if !p.deleting then return none
  match out.events.find? (fun e => eventVerb e == "A") with
  | some e => return some s!"bad apply-during-teardown-of-phase-object {e}"
  | none => pure ()
  -- (orphan propagation: nothing is deleted at all, C05)
  if !p.finCached || p.finOrphan then return none
  let ns := nsOf scn
  let ow := Pko.Model.Remote.phaseOwner p (setKindOf scn) ns
  let keys := p.objs.map (keyOf cfg ow)
  if keys.eraseDups.length != keys.length then return none
  if out.phaseEvents.any (fun pe => pe == s!"F {p.name} - ok") then
    let mut unconfirmed : Option String := none
    for o in p.objs do
      let k := keyOf cfg ow o
      match pre.w.store.get k with
      | some c =>
        if isController cfg.st (ow.ref true) c && cfg.scope o.kind != .unknown &&
            (ns == "" || (desiredNs ow o == ns && cfg.scope o.kind == .namespaced)) && undisturbed st k then
          -- (PKO's own delete removes an object nobody holds with a finalizer at once)
          let deletedNow := !c.finalizer &&
            out.events.any fun e => eventVerb e == "D" && eventKey e == keyStr k && (e.splitOn " ").getLastD "" == "ok"
          if deletedNow then unconfirmed := unconfirmed.orElse fun _ => some (keyStr k)
          else
            let how := match out.events.find? (fun e => eventKey e == keyStr k) with
              | some e => s!" (this pass: {e})"
              | none => " (not looked at in this pass)"
            return some s!"bad phase-object-released-while-still-controlling {keyStr k} phase-object={p.name}{how}"
      | none => pure ()
    match unconfirmed with
    | some k => return some s!"bad phase-object-released-in-the-pass-that-deletes {k} phase-object={p.name} (absence not confirmed)"
    | none => pure ()
  return none

/-- C02 for a pass of the ObjectSetPhase controller. -/
def judgePhaseRevisions (scn : SysCommon.Scn) (cfg : Cfg) (st : JStep) (pre : Sys) (out : StepOut) : Option String := Id.run do
  let some p := pre.w.phases st.set | return none
  if !quiet st then return none
  let ow := Pko.Model.Remote.phaseOwner p (setKindOf scn) (nsOf scn)
  let keys := p.objs.map (keyOf cfg ow)
  if keys.eraseDups.length != keys.length then return none
  for e in out.events do
    if eventVerb e == "A" then
      match p.objs.find? (fun o => keyStr (keyOf cfg ow o) == eventKey e) with
      | none => pure ()
      | some o =>
        match Pko.Drv.C02Judge.judgeApply cfg.st ow (some ow.rev) (pre.w.store.get (keyOf cfg ow o)) e with
        | some b => return some b
        | none => pure ()
  return none

/-- C15 for a pass of the ObjectSetPhase controller on phase object `name`. -/
def judgePhaseStep (scn : SysCommon.Scn) (cfg : Cfg) (st : JStep) (pre : Sys) (out : StepOut) : Option String := Id.run do
  let name := st.set
  let some p := pre.w.phases name | return none
  let ow := Pko.Model.Remote.phaseOwner p (setKindOf scn) (nsOf scn)
  let keys := p.objs.map fun o => keyStr (keyOf cfg ow o)
  for e in out.events do
    if !keys.contains (eventKey e) then return some s!"bad phase-writes-unlisted-object {e}"
    if p.paused && !p.deleting then return some s!"bad phase-write-while-paused {e}"
    if !p.deleting && eventVerb e != "A" then return some s!"bad non-apply-write-in-phase-rollout {e}"
  match judgeNs scn out cfg.scope with
  | some b => return some b
  | none => pure ()
  -- an object whose write the API refused was not brought to its desired state in this pass
  if !p.deleting then
    match out.events.find? (fun e => eventVerb e == "A" && refusedWrite e) with
    | some e =>
      if out.phaseEvents.any fun se => sOk se && hasCond (sConds se) "Available" "True" then
        return some s!"bad phase-available-after-refused-write {e}"
    | none => pure ()
  -- (a deleting phase re-writes its last recorded conditions unchanged: not a claim about this pass)
  -- (third-party operations inside the step: only the trace diff judges it)
  for se in (if p.deleting || !quiet st then [] else out.phaseEvents) do
    if sOk se && hasCond (sConds se) "Available" "True" then
      for o in p.objs do
        match pre.w.store.get (keyOf cfg ow o) with
        | none => return some s!"bad phase-available-with-absent-object {o.name}"
        | some c => if sureFail c then return some s!"bad phase-available-with-failing-object {o.name}"
  return none


/-! ### (S1B) the adoption basis: status.remotePhases versus the phase objects that exist -/

/-- name of the phase object created by a `C <kind>/<name> ok` event of the pass, if it is one. -/
def createdPhase (pe : String) : Option String :=
  let toks := pe.splitOn " "
  if toks.getD 0 "" == "C" && toks.getD 2 "" == "ok" then some (((toks.getD 1 "").splitOn "/").getLastD "") else none

/-- C15 / C01: adoption decisions of the NEXT revision recognise the objects of a delegated phase
by the (name, uid) pairs in status.remotePhases of this revision (`isControlledByPreviousRevision`),
and a controller reference carries the uid of the phase object that EXISTS.  So the status written
by a pass that had the phase object at hand must name it under its current uid:

* a pass that CREATED the phase object (it was deleted by somebody and is re-created, or is new):
  the new object's uid is fresh, hence none of the uids recorded for this name before the pass;
* a pass that FOUND the phase object — it exists before the pass and the pass got as far as this
  phase: the reported Available is True (every phase was visited) or names a failing phase at or
  after this one (phases are visited in order).

Judged on the final status update of a quiet pass of an ObjectSet that has its revision (a pass
that assigns the revision writes the status twice). -/
def judgeRemoteUids (o : OSet) (st : JStep) (pre : Sys) (out : StepOut) : Option String := Id.run do
  if !quiet st || o.revision == 0 then return none
  let some se := out.setEvents.reverse.find? (fun se => sOk se && sName se == o.name) | return none
  let rp := sRp se
  let cs := sConds se
  for (ph, i) in o.phases.zipIdx do
    if ph.cls != "" then
      let nm := o.name ++ "-" ++ ph.name
      if out.phaseEvents.any (fun pe => createdPhase pe == some nm) then
        for r in o.remotePhases do
          if r.1 == nm && rp.contains s!"{nm}:{r.2}" then
            return some s!"bad recreated-phase-object-reported-under-stale-uid {nm} (created in this pass, status.remotePhases still says {r.2}: [{",".intercalate rp}])"
      else
        match pre.w.phases nm with
        | none => pure ()
        | some po =>
          let reached := hasCond cs "Available" "True" ||
            (match cs.find? (fun c => c.1 == "Available" && c.2.2.1 == "ProbeFailure") with
             | some c => (match o.phases.zipIdx.find? (fun x => x.1.name == c.2.2.2.2) with
                          | some x => decide (x.2 ≥ i) | none => false)
             | none => false)
          if reached && po.ctrlName == o.name && po.ctrlUID == o.uid && !rp.contains s!"{nm}:{po.uid}" then
            return some s!"bad phase-object-not-reported-under-current-uid {nm} (exists as {po.uid}, the pass reached the phase; status.remotePhases: [{",".intercalate rp}])"
  return none

/-- "adoption permitted", written out from C01's sentence (as in `Pko.Drv.C01`). -/
def permitted (st : Strategy) (ow : Owner) (force : Bool) (o : Obj) (prev : List Prev) (cp : CP) : Bool :=
  let eff : CP := if force || o.pkgLabel == "package-operator" then .none else cp
  decide (revNum o.rev ≤ ow.rev) &&
  (eff == .none || (eff == .ifNoController && !hasController st o) ||
   (controlledByPrevious st o prev && decide (revNum o.rev < ow.rev)))

/-- the declared previous revisions with their delegated phases — as RECORDED (status.remotePhases)
or as they EXIST (the phase objects under the revision's phase names that it controls). -/
def prevsOf (pre : Sys) (setKind : String) (names : List String) (current : Bool) : List Prev :=
  names.map fun n => match pre.sets n with
    | some p =>
      let cur := p.phases.filterMap fun ph =>
        if ph.cls == "" then none
        else match pre.w.phases (p.name ++ "-" ++ ph.name) with
          | some po => if po.ctrlName == p.name && po.ctrlUID == p.uid then some (po.name, po.uid) else none
          | none => none
      { kind := p.kind, name := p.name, uid := p.uid, remotes := if current then cur else p.remotePhases }
    | none => { kind := setKind, name := "", uid := "", remotes := [] }

/-- is there a listed object whose state before the pass justifies a refusal
(foreign, revision readable and not newer, adoption not permitted)? -/
def refusalJustified (cfg : Cfg) (ow : Owner) (prev : List Prev) (objs : List PObj) (pre : Sys) : Bool :=
  objs.any fun p => match pre.w.store.get (keyOf cfg ow p) with
    | some cur => !isController cfg.st (ow.ref true) cur && cur.rev != .garbage &&
                  decide (revNum cur.rev ≤ ow.rev) && !permitted cfg.st ow cfg.force cur prev p.cp
    | none => false

/-- C01 on the controller-level stream, "a permitted adoption is never refused": a reported
CollisionDetected needs a listed object whose adoption is NOT permitted — judged against the
previous revisions' phase objects as recorded AND as they exist (a refusal neither reading
justifies is spurious). -/
def judgeCollision (cfg : Cfg) (ow : Owner) (objs : List PObj) (previous : List String) (setKind : String)
    (pre : Sys) (statusEvents : List String) (name : String) : Option String := Id.run do
  let some se := statusEvents.reverse.find? (fun se => sOk se && sName se == name) | return none
  if !((sConds se).any fun c => c.1 == "Available" && c.2.2.1 == "CollisionDetected") then return none
  if refusalJustified cfg ow (prevsOf pre setKind previous false) objs pre then return none
  if refusalJustified cfg ow (prevsOf pre setKind previous true) objs pre then return none
  return some s!"bad spurious-collision {name} (no listed object whose adoption is not permitted)"

/-- C01 for a pass of the ObjectSetPhase controller. -/
def judgePhaseCollision (scn : SysCommon.Scn) (cfg : Cfg) (st : JStep) (pre : Sys) (out : StepOut) : Option String := Id.run do
  let some p := pre.w.phases st.set | return none
  if !quiet st || p.deleting || p.paused then return none
  let ow := Pko.Model.Remote.phaseOwner p (setKindOf scn) (nsOf scn)
  let keys := p.objs.map (keyOf cfg ow)
  if keys.eraseDups.length != keys.length then return none
  judgeCollision cfg ow p.objs p.previous (setKindOf scn) pre out.phaseEvents p.name

/-- The ObjectSet as the property sees it: every phase lists its inline objects AND the objects of
every ObjectSlice that ever belonged to it in the spec — whether or not the slice still exists. -/
def fullSpec (scn : SysCommon.Scn) (o : OSet) : OSet :=
  let extra := sliceObjs scn o.name
  if extra.all (·.isEmpty) then o
  else { o with phases := o.phases.zipIdx.map fun (ph, i) => { ph with objs := ph.objs ++ extra.getD i [] } }

/-- Delegated phases are torn down in reverse order too: the phase object of phase i is deleted only
when no phase object of a LATER phase that is ours exists any more (whether or not the status ever
got to list it: it exists from the pass that created it). -/
def judgePhaseObjectOrder (o : OSet) (pre : Sys) (out : StepOut) : Option String := Id.run do
  for pe in out.phaseEvents do
    if pe.startsWith "X " then
      let nm := (((pe.splitOn " ").getD 1 "").splitOn "/").getLastD ""
      match (o.phases.zipIdx.find? fun (ph, _) => o.name ++ "-" ++ ph.name == nm) with
      | none => pure ()
      | some (_, i) =>
        for (ph, j) in o.phases.zipIdx do
          if j > i && ph.cls != "" then
            match pre.w.phases (o.name ++ "-" ++ ph.name) with
            | some po => if po.ctrlName == o.name && po.ctrlUID == o.uid then
                return some s!"bad phase-object-deleted-before-later-phase-object-gone {pe} later={po.name}"
            | none => pure ()
  return none

/-- name of the phase object a `C` / `P` / `X` event of an ObjectSet pass is about. -/
def phaseEventName (pe : String) : String := (((pe.splitOn " ").getD 1 "").splitOn "/").getLastD ""

/-- spec patches of phase object `nm` that went through in this pass (`P <kind>/<nm> ok`). -/
def specPatchesOf (out : StepOut) (nm : String) : Nat :=
  (out.phaseEvents.filter fun pe => pe.startsWith "P " && phaseEventName pe == nm && (pe.splitOn " ").getD 2 "" == "ok").length

/-- C06, delegated phases.  "Available=True is written for generation G only by a reconcile pass …
in which every object of every phase existed and passed all probes selecting it (directly, or AS
REPORTED BY A DELEGATED PHASE)".  What a delegated phase reports is the Available condition of its
phase object, and a report is a report about the state the pass looked at only if it was made for
the phase object as it is AT THE TIME OF THE PASS: `observedGeneration` of the condition equals
`metadata.generation` of the phase object then.  That generation is the one of the pre-state plus
one for every spec patch of the phase object that went through in this very pass — the ObjectSet
controller patches `spec.paused`, the API server answers every spec change with a new generation
and leaves the status as it was — both read off the IMPLEMENTATION's trace and the pre-state.  A
phase object that the pass had to create (or that does not exist) has reported nothing.

So an ok status update of the pass that says Available=True needs, for every delegated phase:
the phase object existed before the pass and its Available condition is True with
observedGeneration = generation(pre-state) + #spec patches of this pass.
(Third-party writes of a phase object's status are outside the property; third-party operations
scheduled INSIDE a pass only touch managed objects and the ObjectSet, never a phase object, so the
clause needs no `quiet`.) -/
def judgeDelegatedReports (o : OSet) (pre : Sys) (out : StepOut) : Option String := Id.run do
  if !(out.setEvents.any fun se => sOk se && sName se == o.name && hasCond (sConds se) "Available" "True") then return none
  for ph in o.phases do
    if ph.cls != "" then
      let nm := o.name ++ "-" ++ ph.name
      if out.phaseEvents.any (fun pe => createdPhase pe == some nm) then
        return some s!"bad available-true-without-delegated-report {nm} (the phase object was created in this pass: nothing has reported on it)"
      match pre.w.phases nm with
      | none => return some s!"bad available-true-without-delegated-report {nm} (no phase object before the pass, none created)"
      | some po =>
        let patches := specPatchesOf out nm
        let genNow := po.gen + patches
        match findCond po.conds "Available" with
        | none => return some s!"bad available-true-without-delegated-report {nm} (the phase object carries no Available condition; generation {genNow})"
        | some c =>
          if c.status != "True" then
            return some s!"bad available-true-with-failing-delegated-report {nm} (its Available condition says {c.status}/{c.reason} for generation {c.obsGen})"
          if c.obsGen != genNow then
            return some s!"bad available-true-on-stale-delegated-report {nm} (the phase object's Available=True was reported for its generation {c.obsGen}; at the time of the pass its generation is {genNow} = {po.gen} before the pass + {patches} spec patch(es) by this pass)"
  return none

def judge (which : Which) (scn : SysCommon.Scn) (cfg : Cfg) (st : JStep) (pre : Sys) (out : StepOut) : Option String := Id.run do
  let some o := (pre.sets st.set).map (fullSpec scn) | return none
  let fs := factsOf cfg o pre
  let archivedDone := condTrue o.conds "Archived"
  let tearing := o.deleting || o.lifecycle == .archived
  let dupKeys := (fs.map (·.2.key)).eraseDups.length != fs.length
  match which with
  | .c11 =>
    -- (the scope of a kind is the REST mapper's answer at the time of the pass: `cfg` is `cfgAt`)
    match judgeNs scn out cfg.scope with
    | some b => return some b
    | none => pure ()
    -- an ObjectSet listing the same object twice writes none of its objects and reports PreflightError
    if listsObjectTwice o && !tearing && !archivedDone then
      match out.events.head? with
      | some e => return some s!"bad write-by-objectset-listing-an-object-twice {e}"
      | none => pure ()
      if out.setEvents.any fun se => sOk se && hasCond (sConds se) "Available" "True" then
        return some "bad available-true-for-objectset-listing-an-object-twice"
      if out.res == "ok" then return some "bad duplicate-object-not-reported-as-preflight-error"
    return none
  | .c01 =>
    -- (S1B) the adoption basis handed to the next revision + no spurious refusal by this one
    match judgeRemoteUids o st pre out with
    | some b => return some b
    | none => pure ()
    -- (the revision may be assigned in this very pass: only a revision known before the pass is compared)
    if tearing || archivedDone || !quiet st || dupKeys || o.lifecycle == .paused || o.revision == 0 then return none
    return judgeCollision cfg o.owner (o.phases.flatMap fun ph => if ph.cls == "" then ph.objs else []) o.previous o.kind pre out.setEvents o.name
  | .c02 =>
    -- every apply of the pass, judged against the object's state before the pass
    if !quiet st || dupKeys then return none
    for e in out.events do
      if eventVerb e == "A" then
        match fs.find? (fun f => keyStr f.2.key == eventKey e) with
        | none => pure ()
        | some f =>
          -- the revision may be assigned in this very pass: only a revision known before the pass is compared
          let ownRev := if o.revision == 0 then none else some o.revision
          match Pko.Drv.C02Judge.judgeApply cfg.st o.owner ownRev f.2.cur e with
          | some b => return some b
          | none => pure ()
    return none
  | .c05 =>
    -- controller level: every delete hits an object the ObjectSet controlled before the pass, an
    -- orphaned ObjectSet deletes nothing (neither objects nor its delegated phase objects)
    if !quiet st then return none
    if o.finOrphan && tearing then
      match out.events.find? (fun e => eventVerb e == "D" || eventVerb e == "M") with
      | some e => return some s!"bad write-during-orphan-teardown {e}"
      | none => pure ()
      match out.phaseEvents.find? (fun pe => pe.startsWith "X ") with
      | some pe => return some s!"bad delegated-phase-deleted-during-orphan-teardown {pe}"
      | none => pure ()
    for e in out.events do
      if eventVerb e == "D" then
        match fs.find? (fun f => keyStr f.2.key == eventKey e) with
        | none => return some s!"bad delete-of-unlisted-object {e}"
        | some f => if !f.2.controlled then return some s!"bad delete-of-uncontrolled-object {e}"
    return none
  | .c15 =>
    let delegated := o.phases.filter (·.cls != "")
    for pe in out.phaseEvents do
      let toks := pe.splitOn " "
      let verb := toks.getD 0 ""
      let nm := ((toks.getD 1 "").splitOn "/").getLastD ""
      if verb == "C" then
        if !(delegated.any fun ph => o.name ++ "-" ++ ph.name == nm) then return some s!"bad phase-object-for-undelegated-phase {pe}"
        if (pre.w.phases nm).isSome then return some s!"bad phase-object-recreated {pe}"
        if (out.phaseEvents.filter (· == pe)).length > 1 then return some s!"bad phase-object-created-twice {pe}"
      if verb == "X" && !tearing then return some s!"bad phase-object-deleted-during-rollout {pe}"
    if tearing && !o.finOrphan && quiet st then
      match judgePhaseObjectOrder o pre out with
      | some b => return some b
      | none => pure ()
    for se in out.setEvents do
      if sOk se && hasCond (sConds se) "Available" "True" && quiet st then
        for ph in delegated do
          match pre.w.phases (o.name ++ "-" ++ ph.name) with
          | none => return some s!"bad available-without-phase-object {ph.name}"
          | some po =>
            if po.paused != (o.lifecycle == .paused) then return some s!"bad available-trusted-across-pause-flip {po.name}"
            match findCond po.conds "Available" with
            | some c => if c.status != "True" || c.obsGen != po.gen then return some s!"bad available-trusts-stale-or-failing-phase-report {po.name}"
            | none => return some s!"bad available-without-phase-report {po.name}"
    -- the pass that creates a phase object reports it: from that moment the phase controller rolls the
    -- phase's objects out under the phase object's control, and the NEXT revision can only take them
    -- over if status.remotePhases of this revision names the phase object (an in-process phase's
    -- objects are controlled by the ObjectSet itself and need no such entry)
    if quiet st then
      for pe in out.phaseEvents do
        let toks := pe.splitOn " "
        if toks.getD 0 "" == "C" && toks.getD 2 "" == "ok" then
          let nm := ((toks.getD 1 "").splitOn "/").getLastD ""
          if !(out.setEvents.any fun se => sOk se && sName se == o.name && (sRp se).any (·.startsWith (nm ++ ":"))) then
            return some s!"bad created-phase-object-not-reported {nm} (no status update of this pass lists it in remotePhases)"
    -- "realised through exactly one ObjectSetPhase that … exists from rollout until teardown" is what
    -- adoption decisions of the NEXT revision rest on (`isControlledByPreviousRevision` reads
    -- status.remotePhases of the previous revision): a status update never drops a phase object that
    -- the ObjectSet reported before, that still exists under the same uid and that it still controls
    -- – whichever phase the pass stopped at, whichever path (probe failure, preflight / collision
    -- error, pause, archival in progress) wrote the status.
    for se in out.setEvents do
      if sOk se && sName se == o.name then
        let rp := sRp se
        for r in o.remotePhases do
          match pre.w.phases r.1 with
          | some po =>
            if po.uid == r.2 && po.ctrlName == o.name && po.ctrlUID == o.uid && !rp.contains s!"{r.1}:{r.2}" then
              return some s!"bad live-phase-object-dropped-from-remotePhases {r.1} (exists, controlled by {o.name}, was reported before; status now lists [{",".intercalate rp}])"
          | none => pure ()
    -- (S1B) … and names every phase object the pass had at hand under its CURRENT uid
    match judgeRemoteUids o st pre out with
    | some b => return some b
    | none => pure ()
    return none
  | .c03 =>
    -- a pass in which the write of an object was refused by the API (any error class) has not seen
    -- that object present and passing: it writes nothing in later phases and does not report
    -- Available=True (whatever third parties do in the step)
    if !tearing && !archivedDone && !dupKeys then
      for e in out.events do
        if eventVerb e == "A" && refusedWrite e then
          match phaseIdxOfKey fs (eventKey e) with
          | some j =>
            for e2 in out.events do
              match phaseIdxOfKey fs (eventKey e2) with
              | some j2 => if j2 > j then return some s!"bad write-in-phase-after-refused-write {e2} refused={e}"
              | none => pure ()
            for pe in out.phaseEvents do
              let nm := (((pe.splitOn " ").getD 1 "").splitOn "/").getLastD ""
              match o.phases.zipIdx.find? (fun (ph, _) => ph.cls != "" && o.name ++ "-" ++ ph.name == nm) with
              | some (_, j2) => if j2 > j && (pe.startsWith "C " || pe.startsWith "P ") then
                  return some s!"bad delegated-phase-written-after-refused-write {pe} refused={e}"
              | none => pure ()
            if out.setEvents.any fun se => sOk se && hasCond (sConds se) "Available" "True" then
              return some s!"bad available-true-after-refused-write {e}"
          | none => pure ()
    if tearing || archivedDone || !quiet st || dupKeys then return none
    -- first phase holding an object that is absent or failing in the pre-state
    -- a delegated phase counts as failing unless its phase object exists, needs no pause flip and
    -- reports Available=True for its current generation
    let delegatedFailing := o.phases.zipIdx.filterMap fun (ph, i) =>
      if ph.cls == "" then none
      else match pre.w.phases (o.name ++ "-" ++ ph.name) with
        | none => some i
        | some po =>
          let ok := po.paused == (o.lifecycle == .paused) &&
            (match findCond po.conds "Available" with | some c => c.status == "True" && c.obsGen == po.gen | none => false)
          if ok then none else some i
    let failing := (fs.filter fun f => !f.2.passing).map (·.1) ++ delegatedFailing
    let firstFail := failing.foldl (fun (m : Option Nat) i => match m with | none => some i | some j => some (min i j)) none
    -- a phase that passes for sure in a quiet pass.  Local phase: every object exists in the pre-state with
    -- Ready=True (a paused ObjectSet reads through the cache only: the object carries the cache label)
    -- and declares no observedGeneration — or declares the current generation while the pass has nothing
    -- to change on the object (payload as desired: no generation bump).  Delegated phase: the phase
    -- object exists, needs no pause flip and reports Available=True for its current generation.
    let surePassObj (f : ObjFacts) : Bool := match f.cur with
      | none => false
      | some c => c.ready && (o.lifecycle != .paused || c.cacheLabel) &&
          (match c.obsGen with | none => true | some g => g == c.gen && c.payload == f.p.payload)
    let surePass (i : Nat) : Bool := match o.phases[i]? with
      | none => false
      | some ph => if ph.cls != "" then !delegatedFailing.contains i
                   else (fs.filter (·.1 == i)).all fun f => surePassObj f.2
    for e in out.events do
      if eventVerb e == "A" then
        match phaseIdxOfKey fs (eventKey e), firstFail with
        | some j, some f => if j > f then return some s!"bad write-in-phase-after-failing-phase {e} failing-phase-index={f}"
        | _, _ => pure ()
    for se in out.setEvents do
      if sOk se then
        let cs := sConds se
        match cs.find? (fun c => c.1 == "Available" && c.2.2.1 == "ProbeFailure") with
        | some c =>
          let named := (o.phases.zipIdx.find? fun (ph, _) => ph.name == c.2.2.2.2).map (·.2)
          match named, firstFail with
          | some n, some f => if n > f then return some s!"bad named-phase-after-first-failing named={c.2.2.2.2} first={f}"
          | some _, none => pure ()
          | none, _ => return some s!"bad unknown-phase-named {c.2.2.2.2}"
          -- "the first failing phase … is the one named": the named phase FAILS in this pass.  A pass that
          -- ends `ok` derived the condition from its own probing result (error / wait-for-revision paths
          -- end `requeue` or `err` and may carry an older condition along), so the condition is a claim
          -- about this pass — it may not name a phase whose objects are all present and passing.
          match named with
          | some n =>
            if out.res == "ok" && surePass n then
              let ff := match firstFail with | some f => toString f | none => "none"
              return some s!"bad named-phase-is-not-failing named={c.2.2.2.2} phase-index={n} (every object of the named phase is present and passes its probes in this pass; first phase with an absent / failing object: {ff})"
          | none => pure ()
          -- no write beyond the named phase
          match named with
          | some n =>
            for e in out.events do
              match phaseIdxOfKey fs (eventKey e) with
              | some j => if j > n then return some s!"bad write-after-named-failing-phase {e}"
              | none => pure ()
          | none => pure ()
        | none =>
          if hasCond cs "Available" "True" then
            match firstFail with
            | some f => return some s!"bad available-true-with-failing-object phase-index={f}"
            | none => pure ()
    return none
  | .c04 =>
    -- Judged on what the IMPLEMENTATION reported in the step (its delete / release events) against
    -- facts of the pre-state that nothing inside the step can have changed: an object counts as
    -- "still controlled" when the ObjectSet controlled it before the pass and no third-party
    -- operation scheduled inside the pass can have removed it or re-owned it (`undisturbed`).  So
    -- passes with third-party writes between the GET and the DELETE / PATCH of an object's teardown,
    -- with refused writes and with concurrent edits of the ObjectSet are judged like quiet ones.
    if !tearing || archivedDone || dupKeys then return none
    if o.finOrphan then
      if !out.events.isEmpty then return some s!"bad write-during-orphan-teardown {out.events.headD ""}"
      match out.phaseEvents.find? (fun pe => pe.startsWith "X ") with
      | some pe => return some s!"bad delegated-phase-deleted-during-orphan-teardown {pe}"
      | none => pure ()
      return none
    let held (f : Nat × ObjFacts) : Bool := f.2.controlled && undisturbed st f.2.key
    for e in out.events do
      if eventVerb e == "A" then return some s!"bad apply-during-teardown {e}"
      if eventVerb e == "D" then
        match phaseIdxOfKey fs (eventKey e) with
        | none => return some s!"bad delete-of-unlisted-object {e}"
        | some k =>
          -- every object of a LATER phase must be gone or not controlled by us any more
          match fs.find? (fun f => f.1 > k && held f) with
          | some f => return some s!"bad delete-before-later-phase-gone {e} still-controlled={keyStr f.2.key}"
          | none => pure ()
    -- (phase objects are not within reach of the third-party operations of a pass)
    match judgePhaseObjectOrder o pre out with
    | some b => return some b
    | none => pure ()
    -- a delegated phase's object is deleted only after the local phases behind it are gone
    for pe in out.phaseEvents do
      if pe.startsWith "X " then
        let nm := (((pe.splitOn " ").getD 1 "").splitOn "/").getLastD ""
        match (o.phases.zipIdx.find? fun (ph, _) => ph.cls != "" && o.name ++ "-" ++ ph.name == nm) with
        | none => pure ()
        | some (_, i) =>
          match fs.find? (fun f => f.1 > i && held f) with
          | some f => return some s!"bad phase-object-deleted-before-later-phase-gone {pe} still-controlled={keyStr f.2.key}"
          | none => pure ()
    -- … and a local phase's objects only after the delegated phases behind it are gone
    for e in out.events do
      if eventVerb e == "D" then
        match phaseIdxOfKey fs (eventKey e) with
        | none => pure ()
        | some k =>
          for (ph, j) in o.phases.zipIdx do
            if j > k && ph.cls != "" then
              match pre.w.phases (o.name ++ "-" ++ ph.name) with
              | some po => if po.ctrlName == o.name && po.ctrlUID == o.uid then
                  return some s!"bad delete-before-later-delegated-phase-gone {e} later={po.name}"
              | none => pure ()
    let released := out.setEvents.any (fun se => se.startsWith s!"F {o.name} - ok") ||
      out.setEvents.any (fun se => sOk se && sName se == o.name && hasCond (sConds se) "Archived" "True")
    -- (an ObjectSet without the cached finalizer never rolled anything out; a third party stripping
    -- the finalizer is outside the property)
    if released && o.finCached then
      -- PKO's own delete of an object that nobody holds with a finalizer removes it at once: such an
      -- object is not "still controlled" at the release, but its absence has not been confirmed either
      let deletedNow (f : Nat × ObjFacts) : Bool :=
        (match f.2.cur with | some c => !c.finalizer | none => false) &&
        out.events.any fun e => eventVerb e == "D" && eventKey e == keyStr f.2.key && (e.splitOn " ").getLastD "" == "ok"
      match fs.find? (fun f => held f && !deletedNow f) with
      | some f =>
        let how := match out.events.find? (fun e => eventKey e == keyStr f.2.key) with
          | some e => s!" (this pass: {e})"
          | none => " (not looked at in this pass)"
        return some s!"bad released-while-still-controlling {keyStr f.2.key}{how}"
      | none => pure ()
      match fs.find? held with
      | some f => return some s!"bad released-in-the-pass-that-deletes {keyStr f.2.key} (absence not confirmed)"
      | none => pure ()
      -- delegated phases: the phase object (if it is ours) must be gone
      for ph in o.phases do
        if ph.cls != "" then
          match pre.w.phases (o.name ++ "-" ++ ph.name) with
          | some po => if po.ctrlName == o.name && po.ctrlUID == o.uid then
              return some s!"bad released-while-delegated-phase-exists {po.name}"
          | none => pure ()
    else if o.finCached && quiet st then
      -- not released: the finalizer must not have been dropped, Archived must not be True
      if o.lifecycle == .archived && !(out.setEvents.any fun se => sOk se && hasCond (sConds se) "Archived" "False") && out.res == "ok" then
        return some "bad archival-in-progress-not-reported"
    return none
  | .c06 =>
    if archivedDone then
      if !out.events.isEmpty || !out.setEvents.isEmpty then return some "bad reconciled-after-archival-completed"
      return none
    -- The STORED object: a status update that goes through replaces the stored status, so the events
    -- tell what is stored after the pass.  What was stored before the k-th write on the ObjectSet is
    -- the pre-state plus the third-party status writes scheduled up to that write (the store getting
    -- ahead of the pass's read: `SetEnv` op "status").
    let statusOps := if st.wfault.isSome then [] else (st.setEnv.getD []).filter fun e => e.op == "status" && e.set == o.name
    for (se, k) in out.setEvents.zipIdx do
      if sOk se && sName se == o.name then
        let cs := sConds se
        let ahead := statusOps.filter (·.at ≤ k)
        if (condTrue o.conds "Succeeded" || ahead.any (·.value != "Archived")) && !hasCond cs "Succeeded" "True" then
          return some s!"bad succeeded-withdrawn-from-stored-object (write {k} on the ObjectSet stores conds=[{",".intercalate (cs.map fun c => c.1 ++ "=" ++ c.2.1)}])"
        if ahead.any (·.value == "Archived") then
          return some s!"bad stored-status-overwritten-after-archival-completed (write {k} on the ObjectSet stores conds=[{",".intercalate (cs.map fun c => c.1 ++ "=" ++ c.2.1)}] co=[{",".intercalate (sCo se)}])"
    -- "… (directly, or as reported by a delegated phase)": a pass that derives its status from the
    -- phases says Available=True only on reports made for the phase objects as they are at the time
    -- of the pass (teardown / archival passes carry recorded conditions over: no claim of this pass)
    if !tearing then
      match judgeDelegatedReports o pre out with
      | some b => return some b
      | none => pure ()
    for se in out.setEvents do
      if sOk se then
        let cs := sConds se
        let co := sCo se
        if hasCond cs "Archived" "True" then
          if cs.any (fun c => c.1 == "Available") then return some "bad archived-with-available-condition"
          if !co.isEmpty then return some "bad archived-with-controllerOf"
        if quiet st && !tearing && !dupKeys then
          -- Succeeded is never withdrawn
          if condTrue o.conds "Succeeded" && !hasCond cs "Succeeded" "True" then return some "bad succeeded-withdrawn"
          if hasCond cs "Available" "True" then
            match cs.find? (fun c => c.1 == "Available") with
            | some c => if c.2.2.2.1 != toString o.gen then return some s!"bad available-for-wrong-generation obsGen={c.2.2.2.1} gen={o.gen}"
            | none => pure ()
            match fs.find? (fun f => !f.2.passing) with
            | some f => return some s!"bad available-true-unjustified {keyStr f.2.key}"
            | none => pure ()
            -- complete: every listed object the ObjectSet controls (PKO never gives up control during a
            -- rollout pass, so controlled-before implies controlled-after) is reported
            for f in fs do
              if f.2.controlled && !co.contains (keyStr f.2.key) then
                return some s!"bad controllerOf-incomplete-while-available {keyStr f.2.key}"
          -- (documented reading) the error paths PreflightError / CollisionDetected write Available=False
          -- and carry the previously recorded controllerOf over unchanged; the soundness clause of the
          -- property is tied to passes that derive their status from the phases
          let errorPath := cs.any fun c => c.1 == "Available" && (c.2.2.1 == "PreflightError" || c.2.2.1 == "CollisionDetected")
          for c in (if errorPath then [] else co) do
            match fs.find? (fun f => keyStr f.2.key == c) with
            | none =>
              -- relayed from a delegated phase: must be in that phase object's reported controllerOf
              let relayed := o.phases.any fun ph => ph.cls != "" &&
                (match pre.w.phases (o.name ++ "-" ++ ph.name) with
                 | some po => po.controllerOf.any fun r => crefStr r == c
                 | none => false)
              if !relayed then return some s!"bad controllerOf-lists-unlisted-object {c}"
            | some f =>
              if !f.2.controlled && !(out.events.any fun e => eventVerb e == "A" && eventKey e == c) then
                return some s!"bad controllerOf-entry-not-observed {c}"
          if hasCond cs "Succeeded" "True" && !condTrue o.conds "Succeeded" then
            if !hasCond cs "Available" "True" || hasCond cs "InTransition" "True" then
              return some "bad succeeded-set-while-unavailable-or-in-transition"
          if !hasCond cs "InTransition" "True" && (cs.any fun c => c.1 == "Available" && c.2.2.1 != "PreflightError" && c.2.2.1 != "CollisionDetected") && o.lifecycle != .archived then
            for f in fs do
              if !co.contains (keyStr f.2.key) then return some s!"bad inTransition-cleared-with-uncontrolled-object {keyStr f.2.key}"
    return none
  | .c09 =>
    if o.lifecycle != .paused || tearing || archivedDone || !(st.setEnv.getD []).isEmpty then return none
    if !out.events.isEmpty then return some s!"bad write-while-paused {out.events.headD ""}"
    -- a paused pass still has to report (Paused condition, probes of what is there): it must not fail
    -- because this operator process has not registered the kinds with its dynamic cache (it starts
    -- with none, and a paused revision is the only one that could be the first to read them)
    if out.res == "err:CacheNotStarted" then return some "bad paused-pass-fails-cache-not-started"
    if out.res == "ok" && !dupKeys then
      match out.setEvents.reverse.find? sOk with      -- the final status update of the pass
      | none => return some "bad paused-status-not-reported"
      | some se =>
        let cs := sConds se
        let delegated := o.phases.any (·.cls != "")
        -- with delegated phases Paused=True additionally waits for every phase object to confirm
        if !hasCond cs "Paused" "True" && !(delegated && hasCond cs "Paused" "Unknown") then
          return some "bad paused-condition-missing"
        if !(cs.any fun c => c.1 == "Available") then return some "bad available-not-reported-while-paused"
    -- the pause reaches every delegated phase: a phase object of this ObjectSet that exists and is not
    -- paused yet is sent the pause patch in this very pass — whichever phase the pass stops at, whatever
    -- the phase object has reported so far and whatever ERROR the pass ends in (preflight violation,
    -- collision, ... — fix C09-b), otherwise its controller is free to keep writing.  Judged on every pass
    -- that got as far as the phases (it ends `ok` or with a status update; the revision was assigned before).
    if quiet st && o.revision != 0 && (out.res == "ok" || out.setEvents.any sOk) then
      for ph in o.phases do
        if ph.cls != "" then
          match pre.w.phases (o.name ++ "-" ++ ph.name) with
          | some po =>
            if po.ctrlName == o.name && po.ctrlUID == o.uid && !po.paused && !po.deleting then
              let patched := out.phaseEvents.any fun pe =>
                pe.startsWith "P " && pe.endsWith (s!"/{po.name} ok")
              if !patched then
                return some s!"bad paused-pass-left-phase-object-unpaused {po.name} (phase events of the pass: {out.phaseEvents})"
          | none => pure ()
    return none

/-- walk the schedule; `implToks` are the implementation's per-step output tokens. -/
def monitor (which : Which) (s : SysCommon.Scn) (out : String) : String := Id.run do
  let toks := out.splitOn " ## "
  let steps := s.steps.getD []
  if toks.length < steps.length then return s!"bad unparsable-output tokens={toks.length} steps={steps.length}"
  let cfg := SysCommon.cfgOf s
  let mut sys := initSys s
  let mut i := 0
  for (st, tok) in steps.zip toks do
    let (sys', mtok) := stepModelX s cfg st sys
    -- the configuration of THIS step: the REST mapper as it answers now (`rescope` steps)
    let cfgS := cfgAt cfg sys
    let pcfgS := cfgAt (phaseCfgOf s) sys
    if st.op == "reconcile" then
      match parseStep tok with
      | none => return s!"bad unparsable-step {i} {tok.take 40}"
      | some so =>
        match judge which s cfgS st sys so with
        | some b => return s!"{b} step={i}"
        | none => pure ()
    if st.op == "phase" && (which == .c15 || which == .c11 || which == .c05 || which == .c02) then
      match parseStep tok with
      | none => return s!"bad unparsable-step {i} {tok.take 40}"
      | some so =>
        let r := if which == .c11 then judgeNs s so pcfgS.scope
                 else if which == .c02 then judgePhaseRevisions s pcfgS st sys so
                 else if which == .c05 then judgePhaseDeletes s pcfgS st sys so
                 else judgePhaseStep s pcfgS st sys so
        match r with
        | some b => return s!"{b} step={i}"
        | none => pure ()
    if st.op == "phase" && which == .c04 then
      match parseStep tok with
      | none => return s!"bad unparsable-step {i} {tok.take 40}"
      | some so =>
        match judgePhaseTeardown s pcfgS st sys so with
        | some b => return s!"{b} step={i}"
        | none => pure ()
    if st.op == "phase" && which == .c09 then
      -- C09 for a delegated phase: once the ObjectSet controller has SEEN the pause (it wrote a status for
      -- the generation that carries lifecycleState Paused), no pass of the phase controller may write a
      -- managed object of that ObjectSet any more — whichever phase the ObjectSet's own pass stops at.
      match parseStep tok with
      | none => return s!"bad unparsable-step {i} {tok.take 40}"
      | some so =>
        match sys.w.phases st.set with
        | none => pure ()
        | some po =>
          match sys.sets po.ctrlName with
          | none => pure ()
          | some o =>
            let seen := o.conds.any fun c => c.type == "Paused" && c.obsGen == o.gen
            if o.uid == po.ctrlUID && o.lifecycle == .paused && !o.deleting && seen && !po.deleting && quiet st then
              match so.events.head? with
              | some e => return s!"bad write-by-delegated-phase-of-paused-objectset {e} (phase object {po.name} paused={po.paused}, ObjectSet {o.name} reported Paused for generation {o.gen}) step={i}"
              | none => pure ()
    if st.op == "phase" && which == .c01 then     -- (S1B)
      match parseStep tok with
      | none => return s!"bad unparsable-step {i} {tok.take 40}"
      | some so =>
        match judgePhaseCollision s (phaseCfgOf s) st sys so with
        | some b => return s!"{b} step={i}"
        | none => pure ()
    if mtok != tok then return "ok"      -- diverged: later pre-states are not the implementation's
    sys := sys'
    i := i + 1
  return "ok"

end Pko.Drv.SysMon
